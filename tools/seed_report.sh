#!/bin/bash
# tools/seed_report.sh <seed dir> <property> [extra args]: run try_seed and print a compact summary; full JSON kept in <seed dir>/result.json
d=$1; p=$2; shift 2
/venv/bin/python /verif/tools/try_seed.py $d $p "$@" > $d/result.json 2> $d/result.err
/venv/bin/python - $d <<'PY'
import sys,json
d=sys.argv[1]
s=open(d+'/result.json').read()
try:
    r=json.loads(s[s.index('{'):])
except Exception as e:
    print('PARSE-ERROR', e, s[-800:], open(d+'/result.err').read()[-800:]); sys.exit(0)
print(d, {k:r.get(k) for k in ('confirmed','demo_clean_rc','demo_patched_rc','tests_ok','patch_applies')})
for c,v in r['checks'].items():
    print('  ', c, 'rc=',v['rc'], v['violation_lines'][:2], '|', v['summary'][-150:])
    for rp in v['replays'][:1]: print('      replay:', rp)
PY
