#!/venv/bin/python
"""Regenerates /verif/MANIFEST.json from tools/claims.json (one entry per claimed property)."""
import json, os
V = os.path.dirname(os.path.dirname(os.path.abspath(__file__)))
claims = json.load(open(os.path.join(V, "tools", "claims.json")))
import glob
for f in sorted(glob.glob(os.path.join(V, "tools", "claims.d", "*.json"))):
    claims.update(json.load(open(f)))
props = [json.loads(l) for l in open(os.path.join(V, "properties.jsonl"))]
checks, na = [], []
for p in props:
    c = claims.get(p["id"])
    if c and c.get("claimed"):
        checks.append({
            "property_id": p["id"],
            "quick_cmd": f"./check {p['id']} --tier quick",
            "thorough_cmd": f"./check {p['id']} --tier thorough",
            "evidence_file": f"evidence/{p['id']}.json",
            "replay_cmd_template": f"./check {p['id']} --replay {{path}}",
            "engine": "lean4-model+correspondence",
            "level_claimed": {"category": "proof", "text": c["text"], "design_ref": c.get("design_ref", f"DESIGN.md §6 {p['id']}")},
            "level_note": c["note"],
            "technique": c.get("technique", "Lean 4 theorems about a hand-written executable model; model tied to /repo by a differential correspondence check through a compiled Lean driver"),
        })
    else:
        na.append({"property_id": p["id"], "reason": (c or {}).get("reason", "check not built yet; planned in DESIGN.md §6 (no claim is made until model, theorems and correspondence exist)")})
m = {
    "version": 1,
    "setup_cmd": "./setup.sh",
    "hooks": {
        "guard": "PYTME_VERIF",
        "enable": "no source hooks in /repo: checks run /repo's working tree with PYTHONPATH=harness/site (sitecustomize serves the freshly built tme.extensions; fault injection for C16 is monkey-patched only when PYTME_VERIF=1 and PYTME_VERIF_FAULTS is set)",
        "baseline_off_cmd": "cd /repo && /venv/bin/python -m pytest -ra -q -p no:cacheprovider --timeout=900 --continue-on-collection-errors",
        "source_commits": [],
        "add_only": True,
    },
    "engines": [{"name": "lean4-model+correspondence", "path": "lean/ + harness/", "serves_properties": [c["property_id"] for c in checks],
                 "kind_free_text": "Lean 4 (4.33, Mathlib single modules) theorems over an import-free executable model; compiled driver (JSON line protocol); Python harness runs /repo's working tree and diffs against the model, evaluates the property's clauses on the implementation, searches for failing inputs"}],
    "checks": checks,
    "notes": "See DESIGN.md. known_findings.json lists genuine defects (known / fixed). Exit 2 = infrastructure error or timeout, never a verdict.",
    "not_applicable": na,
}
json.dump(m, open(os.path.join(V, "MANIFEST.json"), "w"), indent=1)
print("claimed", [c["property_id"] for c in checks])
