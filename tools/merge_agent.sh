#!/bin/bash
# tools/merge_agent.sh Cxx : copy the agent's own files from /tmp/vw/Cxx/verif into /verif, list its fix commits
# (patterns are expanded inside the agent's copy, so files that are new there are merged too)
set -e
id=$1; low=$(echo $id | tr A-Z a-z)
src=/tmp/vw/$id/verif
cd $src
files=$(ls lean/PytmeModel/Model/$id*.lean lean/PytmeModel/Proofs/$id*.lean lean/PytmeModel/Props/$id*.lean lean/PytmeModel/Extracted/$id*.lean \
           lean/DriverLib/$id*.lean harness/pv/props/$low*.py harness/pv/${low}_*.py corpus/${id}_* findings.d/$id.json tools/claims.d/$id.json 2>/dev/null || true)
cd /verif
for rel in $files; do
  mkdir -p $(dirname $rel)
  cp -v "$src/$rel" "$rel"
done
# the fault-injection helper is shared by the harness but owned by C16
if [ "$id" = "C16" ] && [ -e $src/harness/pv/faults.py ]; then cp -v $src/harness/pv/faults.py harness/pv/faults.py; fi
echo "--- fix commits on agent-$id:"
git -C /repo log --oneline main..agent-$id
