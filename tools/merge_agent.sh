#!/bin/bash
# tools/merge_agent.sh Cxx : copy the agent's own files from /tmp/vw/Cxx/verif into /verif, list its fix commits
set -e
id=$1; low=$(echo $id | tr A-Z a-z)
src=/tmp/vw/$id/verif
cd /verif
for f in lean/PytmeModel/Model/$id*.lean lean/PytmeModel/Proofs/$id*.lean lean/PytmeModel/Props/$id*.lean lean/PytmeModel/Extracted/$id*.lean lean/DriverLib/$id*.lean \
         harness/pv/props/$low*.py harness/pv/${low}_*.py corpus/${id}_* findings.d/$id.json tools/claims.d/$id.json; do
  for g in $src/$f; do
    [ -e "$g" ] || continue
    rel=${g#$src/}
    mkdir -p $(dirname $rel)
    cp -v "$g" "$rel"
  done
done
echo "--- other new/changed files in the agent copy (not merged automatically):"
diff -rq --exclude=.lake --exclude=.build --exclude=__pycache__ --exclude=evidence --exclude=replays --exclude=.git $src /verif | grep -v "Only in /verif" | head -20 || true
echo "--- fix commits on agent-$id:"
git -C /repo log --oneline main..agent-$id
# the fault-injection helper is shared by the harness but owned by C16
if [ "$id" = "C16" ] && [ -e $src/harness/pv/faults.py ]; then cp -v $src/harness/pv/faults.py harness/pv/faults.py; fi
