#!/bin/bash
# tools/mk_workspace.sh Cxx  -> /tmp/vw/Cxx/{verif,repo}: isolated copy of /verif (with build output) and a git worktree of /repo
set -e
id=$1
mkdir -p /tmp/vw/$id
rsync -a --exclude .git /verif/ /tmp/vw/$id/verif/
git -C /repo worktree add -q -f /tmp/vw/$id/repo -b agent-$id HEAD
echo /tmp/vw/$id
