#!/bin/bash
# tools/merge_widen.sh Cxx: merge a widening agent's files, cherry-pick its fix: commits, run the baseline tests and the quick check
id=$1
cd /verif
tools/merge_agent.sh $id > /tmp/merge_$id.log 2>&1
for c in $(git -C /repo log --reverse --format=%h main..agent-$id 2>/dev/null); do
  msg=$(git -C /repo log -1 --format=%s $c)
  case "$msg" in fix:*) git -C /repo cherry-pick $c > /dev/null 2>&1 && echo "picked $c $msg" || { echo "CHERRY-PICK FAILED $c"; git -C /repo cherry-pick --abort; } ;; *) echo "skipped non-fix commit $c $msg";; esac
done
if [ -n "$(git -C /repo log --format=%h main..agent-$id 2>/dev/null)" ]; then
  (cd /repo && /venv/bin/python -m pytest -ra -q -p no:cacheprovider --timeout=900 --continue-on-collection-errors 2>&1 | tail -1)
fi
./check $id --tier quick 2>&1 | grep -v KNOWN-FINDING | tail -3
