#!/venv/bin/python
"""tools/branch_report.py Cxx [--tier quick]: diagnostic, not a check.  Runs ./check Cxx with PV_COVERAGE=1 and lists, for the files
the property is anchored in (properties.jsonl), the functions with lines / branches of /repo's code that the check never executed in
its own process (worker processes and CLI subprocesses are not traced).  Used to find generator blind spots."""
import ast
import json
import os
import subprocess
import sys

V = "/verif"
pid = sys.argv[1]
tier = sys.argv[sys.argv.index("--tier") + 1] if "--tier" in sys.argv else "quick"
repo = os.environ.get("PYTME_REPO", "/repo")
anchors = []
for line in open(os.path.join(V, "properties.jsonl")):
    d = json.loads(line)
    if d["id"] == pid:
        anchors = d["anchors"]["files"]
subprocess.run(["./check", pid, "--tier", tier], cwd=V, env=dict(os.environ, PV_COVERAGE="1"), capture_output=True)
rep = json.load(open(os.path.join(V, ".build", f"coverage_{pid}.json")))
for f, info in sorted(rep["files"].items()):
    rel = os.path.relpath(f, repo)
    if rel not in anchors:
        continue
    missing = set(info["missing_lines"])
    mb = info.get("missing_branches", [])
    src = open(f).read()
    tree = ast.parse(src)
    print(f"== {rel}: {info['summary']['percent_covered']:.0f}% lines, {len(mb)} branches never taken")
    executed_lines = set(info["executed_lines"])
    never = []
    for node in ast.walk(tree):
        if isinstance(node, (ast.FunctionDef, ast.AsyncFunctionDef)):
            first = node.body[0].lineno if node.body else node.lineno
            body = set(range(first, node.end_lineno + 1))
            called = bool(body & executed_lines)
            if not called:
                never.append(f"{node.name}:{node.lineno}")
                continue
            miss = sorted(body & missing)
            br = [b for b in mb if b[0] in body]
            if miss or br:
                print(f"   {node.name} (l.{node.lineno}): lines never run {miss[:14]}{'...' if len(miss) > 14 else ''}; branches never taken {br[:10]}")
    print("   never called: " + ", ".join(never))
