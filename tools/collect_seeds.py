#!/venv/bin/python
"""Collects the seeded changes produced by independent sub-agents (/tmp/seed/Cxx/out/n) into /verif/seeded/Cxx_n/
{patch.diff, demo.py, notes.md, meta.json} using the confirmation results of the first pass (wave logs) and the
results of the final pass (result.json written by tools/try_seed.py against /repo itself)."""
import glob
import json
import os
import re
import shutil

V = "/verif"
first = {}
for log in ("/tmp/seed/wave1.log", "/tmp/seed/wave2.log"):
    if not os.path.exists(log):
        continue
    cur = None
    for line in open(log):
        m = re.match(r"(/tmp/seed/(C\d+)/out/(\d)) (\{.*\})", line)
        if m:
            cur = (m.group(2), m.group(3))
            first[cur] = {"confirm": eval(m.group(4)), "checks": {}}
            continue
        m = re.match(r"\s+(C\d+) rc= (\d) (\[.*?\]) \|", line)
        if m and cur:
            first[cur]["checks"][m.group(1)] = {"rc": int(m.group(2)), "violation": "VIOLATION" in m.group(3),
                                                 "no_failing_input": "no-failing-input-found" in m.group(3)}
STRENGTHENED = {
    ("C01", "2"): "C01 generator now includes templates larger than the target on an axis (correction branch of _fourier_padding)",
    ("C03", "1"): "C03 invariance stream now cycles every score through target scales 1e-4 .. 1e3",
    ("C03", "2"): "C03 planted stream now also runs with rotations spread over two inner jobs (merge of per-job results)",
    ("C06", "1"): "C06 now runs call sequences on one array object with cache=True, switching orders and refilling the buffer",
    ("C11", "2"): "C11 subsetting now hands selections over as numpy arrays, python lists and tuples",
    ("C12", "2"): "C12 CTF case now passes defocus as a float64 ndarray (what CTF.from_file stores) and compares against deep-copied constructor arguments",
    ("C14", "2"): "C14 schedule stream now asks twice in one process (without, then with the tile margin) like the CLI does",
    ("C16", "1"): "C16 fault plans now include exceptions with an empty message (PvSilentFault); first pass only reported no-failing-input-found",
    ("C18", "1"): "C18 now forces even boxes without centring and checks the score map's shape and argmax in the result file",
    ("C18", "2"): "C18 now plants in a tile with non-zero offset, rotation in the first inner-job chunk, for -p + memory-limited split runs",
}
STRENGTHENED2 = {
    ("C01", "1"): "C01 now runs two-search sessions (different templates of one shape, rotations spread over two reused worker processes)",
    ("C01", "2"): "C01 now scales the target's intensities (1e-9 .. 1e3): the code's absolute eps guards must not change a value",
    ("C02", "1"): "C02 now uses soft masks and has an inner-jobs-only stream (schedule (1,k) vs (1,1), every voxel compared)",
    ("C03", "1"): "C03 now plants copies under interpolated (non-grid) rotations produced by the backend's own rigid_transform, on a non-zero background (FLC, default mask)",
    ("C09", "1"): "C09 filter sets now contain near misses of present names (longer / shorter / other case)",
    ("C12", "1"): "C12 compositions now also hand the sampling rate over at call time (overriding constructor values)",
    ("C13", "1"): "C13 shared-memory clause now covers every memory layout (Fortran order, transposed / strided / reversed views)",
    ("C14", "2"): "C14 now asks for schedules with the memory limit exactly on the estimate of a non-dividing split",
    ("C16", "2"): "C16 scenarios now include the score-map analyzer's use_memmap=True mode",
    ("C17", "1"): "C17 bounds now include intervals pinned away from zero ((c, c), c != 0)",
    ("C18", "1"): "C18 now runs the CLI with job counts that do not divide the rotation count, planting a rotation from the remainder",
}
STRENGTHENED3 = {
    ("C01", "1"): "C01 sessions now also run in double precision in worker processes, on a target (offset 1000) that float32 cannot resolve",
    ("C02", "2"): "C02 histories now score an interpolated rotation first, with a non-full mask and a hole in the target mask (first pass: obligation only, no-failing-input-found)",
    ("C03", "1"): "C03 template-offset invariance now uses offsets of hundreds of template deviations with tolerance tau",
    ("C03", "2"): "C03 planted copies now use templates of extent 5 / 6 / 9 and run with and without Fourier padding",
    ("C05", "1"): "C05 now has a stream with more than 10 000 candidates in one update (number_of_peaks = map size)",
    ("C08", "1"): "C08 now writes the same path several times with different volumes in one process (every format x gzip)",
    ("C09", "1"): "C09 now writes the same path several times with different structures in one process",
    ("C10", "2"): "C10 element filters now carry decoy names close to present ones ('CA' next to 'C')",
    ("C13", "1"): "C13 now checks the masking form of centre extraction (centered_mask / mask_output=True), incl. axes without margin",
    ("C13", "2"): "C13 now requests FFT plans one after the other for shapes that share the half-spectrum shape",
    ("C14", "2"): "C14 now states the margin clause on the implementation's answer (valid extent of box + margin = box); first pass: correspondence only, no-failing-input-found",
    ("C15", "2"): "C15 copy clauses now also use a memory-mapped source",
    ("C16", "1"): "C16 now runs every program-point kind with every kind of exception (AttributeError, TypeError, ...)",
    ("C17", "1"): "C17 now builds the density score with Fortran-ordered templates too",
    ("C17", "2"): "C17 now runs the population-based optimiser with a box that excludes the default start",
    ("C18", "1"): "C18 now has a plain-defaults case: template with an empty margin whose box overhangs the upper border of a target with non-fast extents",
}
STRENGTHENED4 = {
    ("C02", "2"): "C02 split stream now has problems with an axis extent well below its fast FFT length and no Fourier padding",
    ("C03", "1"): "C03 planted stream now plants the rotation that only the last job's remainder covers whenever the job count does not divide the rotation count",
    ("C09", "2"): "C09 archive-style entries now come with two models (MODEL / ENDMDL, pdbx_PDB_model_num)",
    ("C16", "1"): "C16 now injects KeyboardInterrupt / SystemExit in sequential searches (must not become a returned result, nothing left behind)",
    ("C17", "2"): "not widened: the change is in Density.rigid_transform, whose exactness is C06's property - the C06 check reports it (the C17 check builds its moved templates itself)",
    ("C18", "2"): "C18: a result file that cannot be reloaded from the check's directory is now a clause failure with its input (first pass: harness crash, no-failing-input-found)",
}
STRENGTHENED5 = {
    ("C01", "1"): "C01 now has non-cubic templates of equal parity under quarter turns that exchange two unequal axes (the turned template is cut to its own box), CC at orders 1/3 and FLC at order 1, against the spatial-domain definition",
    ("C03", "1"): "C03 invariance / planted streams now scale the template down to 1e-8 / 1e-9 (spread below float32 eps, far above underflow)",
    ("C06", "2"): "C06 order-1 stream now has exact rational rotations of 0.04-0.25 degrees (inside every default isclose tolerance) on boxes of 8-13 voxels",
    ("C16", "1"): "C16 now raises the callback-phase fault of peak callers from inside call_peaks (below whatever PeakCaller.__call__ wraps around it), TypeError included",
    ("C17", "2"): "C17 planted FLC stream now has a target mask that removes a bright neighbour reaching into the planted window (template = window of the masked target)",
    ("C18", "2"): "C18 integral-centre-of-mass family now carries negative density in empty voxels of the particle's bounding box (signed mean 0.9-1.7 voxels away from the centre of mass of the positive density)",
}
import sys
ROUND = int(sys.argv[1]) if len(sys.argv) > 1 else 1
ROOT = {1: "/tmp/seed", 2: "/tmp/seed2", 3: "/tmp/seed3", 4: "/tmp/seed4", 5: "/tmp/seed5"}[ROUND]
if ROUND >= 2:
    STRENGTHENED = {2: STRENGTHENED2, 3: STRENGTHENED3, 4: STRENGTHENED4, 5: STRENGTHENED5}[ROUND]
    first = {}
    for d in sorted(glob.glob(ROOT + "/C*/out/[12]")):
        rf = os.path.join(d, "result_first.json")
        if os.path.exists(rf):
            t = open(rf).read()
            try:
                r = json.loads(t[t.index("{"):])
            except Exception:
                continue
            first[(d.split("/")[3], d.split("/")[5])] = {
                "confirm": {k: r.get(k) for k in ("confirmed", "demo_clean_rc", "demo_patched_rc", "tests_ok", "patch_applies", "tests_with_patch")},
                "checks": {c: {"rc": v["rc"], "violation": any(l.startswith("VIOLATION") for l in v["violation_lines"]),
                               "no_failing_input": any("no-failing-input-found" in l for l in v["violation_lines"])}
                           for c, v in r.get("checks", {}).items()}}
rows = []
for d in sorted(glob.glob(ROOT + "/C*/out/[12]")):
    pid, n = d.split("/")[3], d.split("/")[5]
    if not os.path.exists(os.path.join(d, "patch.diff")):
        continue
    out = os.path.join(V, "seeded", f"{pid}_{int(n) + 2 * (ROUND - 1)}")
    os.makedirs(out, exist_ok=True)
    for f in ("patch.diff", "demo.py", "notes.md"):
        if os.path.exists(os.path.join(d, f)):
            shutil.copy(os.path.join(d, f), os.path.join(out, f))
    notes = open(os.path.join(d, "notes.md")).read() if os.path.exists(os.path.join(d, "notes.md")) else ""
    final = {}
    rj = os.path.join(d, "result.json")
    if os.path.exists(rj):
        s = open(rj).read()
        try:
            final = json.loads(s[s.index("{"):])
        except Exception:
            final = {}
    fp = first.get((pid, n), {})
    caught_first = any(v["violation"] and not v["no_failing_input"] for v in fp.get("checks", {}).values())
    checks_final = {c: {"rc": v["rc"], "violation_lines": v["violation_lines"][:2], "replays": v.get("replays", [])[:1], "summary": v["summary"][-160:]}
                    for c, v in final.get("checks", {}).items()}
    caught_final = [c for c, v in final.get("checks", {}).items()
                    if any(l.startswith("VIOLATION") and "no-failing-input-found" not in l for l in v["violation_lines"])]
    meta = {
        "property": pid,
        "round": ROUND,
        "origin": "fresh sub-agent given only the property text and its own scratch worktree of /repo (nothing from /verif)",
        "files_touched": sorted(set(re.findall(r"^\+\+\+ b/(\S+)", open(os.path.join(d, "patch.diff")).read(), flags=re.M))),
        "what_it_needs_to_manifest": " ".join(notes.split())[:1500],
        "confirmed": {"how": "tools/try_seed.py in a scratch worktree: demo.py exits 0 on the clean tree, patch applies, the 116 baseline "
                             "tests pass with the patch, demo.py exits non-zero with the patch", **fp.get("confirm", {})},
        "first_pass": {"checks": fp.get("checks", {}), "caught_with_failing_input": caught_first},
        "strengthening": STRENGTHENED.get((pid, n)),
        "final_pass": {"how": "git -C /repo apply patch.diff; ./check <id> --tier quick; git -C /repo checkout -- .", "checks": checks_final,
                       "caught_by": caught_final},
    }
    json.dump(meta, open(os.path.join(out, "meta.json"), "w"), indent=1)
    rows.append((pid, n, meta["files_touched"], caught_first, caught_final, STRENGTHENED.get((pid, n))))
for r in rows:
    print(r[0], r[1], ",".join(r[2]), "first:", "caught" if r[3] else "MISSED", "final:", ",".join(r[4]) or "MISSED", "|", (r[5] or "")[:60])
