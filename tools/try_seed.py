#!/venv/bin/python
"""tools/try_seed.py <dir with patch.diff, demo.py> <property id> [--tier quick|thorough] [--checks C01,C02]

1. confirms the seeded change in a scratch worktree of /repo (outside /repo and /verif): demo passes on the clean
   tree, the patch applies, the 116-test baseline still passes, demo fails with the patch;
2. applies the patch to /repo itself, runs the registered check(s), undoes it (`git -C /repo checkout -- .`);
3. prints a JSON record (used for seeded/<id>/meta.json)."""
import argparse
import json
import os
import shutil
import subprocess
import sys
import tempfile

PY = "/venv/bin/python"


def sh(cmd, cwd=None, env=None, timeout=3600):
    p = subprocess.run(cmd, cwd=cwd, env=env, capture_output=True, text=True, timeout=timeout, shell=isinstance(cmd, str))
    return p.returncode, (p.stdout + p.stderr)


def main():
    ap = argparse.ArgumentParser()
    ap.add_argument("seed_dir")
    ap.add_argument("pid")
    ap.add_argument("--tier", default="quick")
    ap.add_argument("--checks", default=None)
    ap.add_argument("--skip-confirm", action="store_true")
    a = ap.parse_args()
    patch = os.path.abspath(os.path.join(a.seed_dir, "patch.diff"))
    demo = os.path.abspath(os.path.join(a.seed_dir, "demo.py"))
    rec = {"property": a.pid, "seed_dir": a.seed_dir}
    if not a.skip_confirm:
        wt = tempfile.mkdtemp(prefix="seedchk_")
        os.rmdir(wt)
        try:
            rc, out = sh(["git", "-C", "/repo", "worktree", "add", "-q", "--detach", wt, "HEAD"])
            assert rc == 0, out
            so = os.path.join(wt, "tme", "extensions.cpython-312-x86_64-linux-gnu.so")
            inc = subprocess.check_output([PY, "-m", "pybind11", "--includes"], text=True).split()

            def build():
                rc, out = sh(["c++", "-O3", "-march=native", "-std=c++11", "-funroll-loops", "-ffast-math", "-shared", "-fPIC", *inc,
                              os.path.join(wt, "tme", "external", "bindings.cpp"), "-o", so])
                return rc, out
            rc, out = build()
            assert rc == 0, out
            env = dict(os.environ, PYTHONPATH=wt, PYTHONWARNINGS="ignore", OMP_NUM_THREADS="1")
            rc0, out0 = sh([PY, demo], cwd=wt, env=env, timeout=900)
            rec["demo_clean_rc"] = rc0
            rcp, outp = sh(["git", "apply", patch], cwd=wt)
            rec["patch_applies"] = rcp == 0
            if rcp != 0:
                rec["patch_error"] = outp[-500:]
            if "bindings.cpp" in open(patch).read():
                rcb, outb = build()
                rec["ext_rebuild_rc"] = rcb
            # the pinned baseline = the 116 tests of these two files (the other test modules do not import in a source checkout)
            rct, outt = sh([PY, "-m", "pytest", "-q", "-p", "no:cacheprovider", "--timeout=900", "tests/test_backends.py", "tests/test_parser.py"], cwd=wt,
                           env=dict(os.environ, PYTHONWARNINGS="ignore"), timeout=1800)
            tail = [l for l in outt.strip().splitlines() if "passed" in l or "failed" in l]
            rec["tests_with_patch"] = tail[-1] if tail else outt[-200:]
            rec["tests_ok"] = bool(tail) and "116 passed" in tail[-1] and "failed" not in tail[-1]
            rc1, out1 = sh([PY, demo], cwd=wt, env=env, timeout=900)
            rec["demo_patched_rc"] = rc1
            rec["demo_patched_tail"] = out1.strip().splitlines()[-3:] if out1.strip() else []
            rec["confirmed"] = bool(rc0 == 0 and rcp == 0 and rec["tests_ok"] and rc1 != 0)
        finally:
            sh(["git", "-C", "/repo", "worktree", "remove", "--force", wt])
            shutil.rmtree(wt, ignore_errors=True)
    # run our checks against /repo with the change applied
    checks = (a.checks.split(",") if a.checks else [a.pid])
    st = subprocess.check_output(["git", "-C", "/repo", "status", "--porcelain"], text=True).strip()
    assert st == "", "/repo has uncommitted changes: " + st
    rc, out = sh(["git", "-C", "/repo", "apply", patch])
    assert rc == 0, out
    rec["checks"] = {}
    try:
        for c in checks:
            rc, out = sh(["./check", c, "--tier", a.tier], cwd="/verif", env=dict(os.environ, VERIF_SEED=os.environ.get("VERIF_SEED", "0")), timeout=7200)
            lines = [l for l in out.splitlines() if l.startswith("VIOLATION") or l.startswith("TIMEOUT") or l.startswith("BUILD-ERROR")]
            summ = [l for l in out.splitlines() if l.startswith("[" + c + "]")]
            rec["checks"][c] = {"rc": rc, "violation_lines": lines[:6], "summary": summ[-1] if summ else out[-300:]}
            reps = []
            for l in lines:
                if "replay=" in l:
                    rp = l.split("replay=")[1].split()[0]
                    try:
                        r = json.load(open(os.path.join("/verif", rp)))
                        reps.append({"kind": r.get("kind"), "key": r.get("key"), "clause": r.get("clause"),
                                     "input": json.dumps(r.get("input"))[:400]})
                    except Exception:
                        pass
            rec["checks"][c]["replays"] = reps[:3]
    finally:
        sh(["git", "-C", "/repo", "checkout", "--", "."])
        # generated files that depend on the source are regenerated on the next run; restore the committed ones
        sh(["git", "-C", "/verif", "checkout", "--", "lean/PytmeModel/Extracted"])
    print(json.dumps(rec, indent=1))


if __name__ == "__main__":
    main()
