#!/bin/bash
id=$1
git -C /repo worktree remove --force /tmp/vw/$id/repo || true
git -C /repo branch -D agent-$id || true
rm -rf /tmp/vw/$id
