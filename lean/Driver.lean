import DriverLib.Util
-- BEGIN-GENERATED-IMPORTS
import DriverLib.C01
import DriverLib.C02
import DriverLib.C03
import DriverLib.C04
import DriverLib.C05
import DriverLib.C06
import DriverLib.C07
import DriverLib.C08
import DriverLib.C09
import DriverLib.C10
import DriverLib.C11
import DriverLib.C12
import DriverLib.C13
import DriverLib.C14
import DriverLib.C15
import DriverLib.C16
import DriverLib.C17
import DriverLib.C18
-- END-GENERATED-IMPORTS
open Lean Drv

def handlers : List (String → Json → Option R) := [
-- BEGIN-GENERATED-HANDLERS
  Drv.C01.handle,
  Drv.C02.handle,
  Drv.C03.handle,
  Drv.C04.handle,
  Drv.C05.handle,
  Drv.C06.handle,
  Drv.C07.handle,
  Drv.C08.handle,
  Drv.C09.handle,
  Drv.C10.handle,
  Drv.C11.handle,
  Drv.C12.handle,
  Drv.C13.handle,
  Drv.C14.handle,
  Drv.C15.handle,
  Drv.C16.handle,
  Drv.C17.handle,
  Drv.C18.handle
-- END-GENERATED-HANDLERS
]

def dispatch (op : String) (a : Json) : R :=
  let rec go : List (String → Json → Option R) → R
    | [] => throw s!"UnknownOp:{op}"
    | h :: t => match h op a with
      | some r => r
      | none => go t
  go handlers

def handleLine (line : String) : String :=
  let res : R := do
    let j ← Json.parse line
    let op ← getStr j "op"
    let a := (j.getObjVal? "args").toOption.getD (Json.mkObj [])
    dispatch op a
  match res with
  | .ok v => (Json.mkObj [("ok", v)]).compress
  | .error e => (Json.mkObj [("err", Json.str e)]).compress

partial def loop (hin : IO.FS.Stream) (hout : IO.FS.Stream) : IO Unit := do
  let line ← hin.getLine
  if line.isEmpty then return ()
  let t := line.trimAscii.toString
  if t.isEmpty then loop hin hout else do
    hout.putStrLn (handleLine t)
    hout.flush
    loop hin hout

def main : IO Unit := do
  loop (← IO.getStdin) (← IO.getStdout)
