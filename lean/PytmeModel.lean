import PytmeModel.Model.C13
import PytmeModel.Model.Common
import PytmeModel.Proofs.Common
import PytmeModel.Props.C13
