import PytmeModel.Model.C13
import PytmeModel.Model.C14
import PytmeModel.Model.Common
import PytmeModel.Proofs.Common
import PytmeModel.Props.C13
import PytmeModel.Props.C14
