import PytmeModel.Model.C12
import PytmeModel.Proofs.C12
import Mathlib.Algebra.BigOperators.Group.List.Basic

/-! # C12 — Fourier filters: consistent shapes, symmetric, bounded, stateless, composable

Clauses of the property and the theorems that carry them (all for every shape / argument / history):

* shape asked for ............ `radialMask_shape`, `bandpass_shape_full/half/rfshape`, `whiten_shape`,
                               `contWedge_shape`, `cropShape_snoc`
* half = part of full ........ `half_is_part_of_full`, `contWedge_half_is_part_of_full`, `rfshape_eq_crop`
* negation symmetry .......... `freq_neg_symm`, `radialMask_neg_symm`, `bandpass_neg_symm`,
                               `whiten_reflect_symm`, `contWedge_neg_symm_offNyquist`
                               (+ `contWedge_nyquist_current_defect`); stacks (`batch_dimension`):
                               `whitenShiftAxes_mem`, `whitenShiftAxes_none`
                               (+ `whitenShiftAxesOld_current_defect_first/last`)
* range ...................... `discrete_in_01`, `bandpass_discrete_in_01`, `contWedge_in_01`
* zero frequency ............. `dc_kept_lowpass`, `dc_removed_highpass`
* composition = product ...... `compose_eq_product`, `product_perm`
* statelessness .............. `call_state_unchanged`, `call_effective`, `runCalls_copy`,
                               `history_independent` (+ `callLeaky_current_defect`)
-/
namespace Pm.C12

/-! ## shapes -/

theorem cropShape_snoc (init : List Nat) (n : Nat) : cropShape (init ++ [n]) = init ++ [n / 2 + 1] := by
  induction init with
  | nil => simp [cropShape, halfLen]
  | cons a as ih => simp [cropShape, ih]

theorem cropShape_length (s : List Nat) : (cropShape s).length = s.length := by
  induction s with
  | nil => rfl
  | cons a as ih => simp [cropShape, ih]

section
variable {α : Type} (o : Ops α)

/-- every radial mask has exactly the full shape, or the half-spectrum shape when that was asked
for (`return_real_fourier` and the given shape is a real-space shape) -/
theorem radialMask_shape (shape : List Nat) (sirf rrf : Bool) (val : α → α) :
    (radialMask o shape sirf rrf val).shape = if rrf && !sirf then cropShape shape else shape := by
  unfold radialMask
  cases h : (rrf && !sirf) <;> simp [cropRealFourier, shiftFourier, Arr.ofFn]

theorem bandpass_shape_full (a : BPArgs α) (h : a.rrf = false) : (bandpass o a).shape = a.shape := by
  unfold bandpass; rw [radialMask_shape]; simp [h]

theorem bandpass_shape_half (a : BPArgs α) (h : a.rrf = true) (h2 : a.sirf = false) :
    (bandpass o a).shape = cropShape a.shape := by
  unfold bandpass; rw [radialMask_shape]; simp [h, h2]

/-- a half-spectrum shape handed in as such is returned unchanged -/
theorem bandpass_shape_rfshape (a : BPArgs α) (h : a.sirf = true) : (bandpass o a).shape = a.shape := by
  unfold bandpass; rw [radialMask_shape]; simp [h]

/-- the whitening filter always lives on the half-spectrum shape -/
theorem whiten_shape (spec : Array α) (shape : List Nat) (sirf : Bool) :
    (whiten o spec shape sirf).shape = fourierShape shape sirf := by
  unfold whiten; rw [radialMask_shape]; simp

theorem contWedge_shape (a : WArgs α) :
    (contWedge o a).shape = if a.rrf then cropShape a.shape else a.shape := by
  unfold contWedge
  cases h : a.rrf <;> simp [cropRealFourier, shiftFourier, Arr.ofFn]

/-! ## values: closed form, half ⊂ full -/

/-- voxel of a full (or half-shape-in) radial mask: `val` of the radial frequency of the DC-first index -/
theorem radialMask_getD (shape : List Nat) (sirf rrf : Bool) (val : α → α) (idx : List Nat) (d : α)
    (hr : (rrf && !sirf) = false) (h : inShape shape idx = true) :
    (radialMask o shape sirf rrf val).getD idx d =
      val (radial o (axesHalf shape sirf) (srcIdx (axesHalf shape sirf) idx)) := by
  unfold radialMask
  simp only [hr, Bool.false_eq_true, if_false]
  have hn := axesHalf_n shape sirf
  rw [shiftFourier_getD _ _ _ _ _ h]
  have h2 : inShape shape (srcIdx (axesHalf shape sirf) idx) = true := by
    have := inShape_srcIdx (axesHalf shape sirf) idx (by rw [hn]; exact h)
    rwa [hn] at this
  rw [Arr.getD_ofFn _ _ _ _ h2]

/-- the half-spectrum result is the corresponding part of the full one -/
theorem half_is_part_of_full (shape : List Nat) (val : α → α) (idx : List Nat) (d : α)
    (h : inShape (cropShape shape) idx = true) :
    (radialMask o shape false true val).getD idx d = (radialMask o shape false false val).getD idx o.zero := by
  unfold radialMask
  simp only [Bool.not_false, Bool.and_true, if_true, Bool.false_eq_true, if_false]
  unfold cropRealFourier
  exact Arr.getD_ofFn _ _ _ _ h

theorem contWedge_half_is_part_of_full (a : WArgs α) (idx : List Nat) (d : α)
    (h : inShape (cropShape a.shape) idx = true) :
    (contWedge o { a with rrf := true }).getD idx d = (contWedge o { a with rrf := false }).getD idx o.zero := by
  unfold contWedge
  simp only [if_true, Bool.false_eq_true, if_false]
  unfold cropRealFourier
  have : (shiftFourier (Arr.ofFn a.shape (wedgeCentred o { a with rrf := true })) (axesOne a.shape) o.zero)
       = (shiftFourier (Arr.ofFn a.shape (wedgeCentred o { a with rrf := false })) (axesOne a.shape) o.zero) := rfl
  rw [this]
  exact Arr.getD_ofFn _ _ _ _ h

/-! ## negation symmetry -/

/-- per axis, for every `n` and every position (including the Nyquist term of an even axis):
`|f((-k) mod n)| = |f(k)|` -/
theorem freq_neg_symm (n j : Nat) (hj : j < n) :
    (freqIndex n (negPos n j)).natAbs = (freqIndex n j).natAbs := by
  rcases freqIndex_negPos n j hj with h | h <;> rw [h]
  exact Int.natAbs_neg _

/-- the position read by `shift_fourier` holds the signed frequency index -/
theorem shifted_grid_is_freqIndex (n j : Nat) (hj : j < n) :
    (⟨n, false, n / 2⟩ : Ax).k ((⟨n, false, n / 2⟩ : Ax).src j) = freqIndex n j := by
  simp only [Ax.k, Ax.src, Bool.false_eq_true, if_false]
  exact k_shiftSrc n j hj

/-- a radial mask is invariant under negating the frequency on any set of (two-sided) axes -/
theorem radialMask_neg_symm (L : SignLaws o) (shape : List Nat) (sirf rrf : Bool) (val : α → α)
    (flags : List Bool) (idx : List Nat) (d : α)
    (hr : (rrf && !sirf) = false) (h : inShape shape idx = true)
    (hf : flagsOk (axesHalf shape sirf) flags = true) :
    (radialMask o shape sirf rrf val).getD (negIdx flags shape idx) d =
      (radialMask o shape sirf rrf val).getD idx d := by
  have hn := axesHalf_n shape sirf
  have h' : inShape ((axesHalf shape sirf).map Ax.n) idx = true := by rw [hn]; exact h
  have hneg : inShape shape (negIdx flags shape idx) = true := by
    have := inShape_negIdx (axesHalf shape sirf) flags idx h' hf
    rwa [hn] at this
  rw [radialMask_getD o shape sirf rrf val _ d hr hneg, radialMask_getD o shape sirf rrf val _ d hr h]
  have := radial_neg o L (axesHalf shape sirf) flags idx h' hf
  rw [hn] at this
  rw [this]

theorem flagsOk_all_true : ∀ (shape : List Nat),
    flagsOk (axesHalf shape false) (shape.map (fun _ => true)) = true
  | [] => rfl
  | n :: ns => by
      simp only [axesHalf, List.map_cons, flagsOk, Bool.and_false, Bool.false_eq_true, if_false,
        Bool.false_and, Bool.not_false, Bool.true_and]
      exact flagsOk_all_true ns

/-- band-pass filters (hard or Gaussian edge) are symmetric under frequency negation -/
theorem bandpass_neg_symm (L : SignLaws o) (a : BPArgs α) (idx : List Nat) (d : α)
    (hrrf : a.rrf = false) (hsirf : a.sirf = false) (h : inShape a.shape idx = true) :
    (bandpass o a).getD (negIdx (a.shape.map (fun _ => true)) a.shape idx) d = (bandpass o a).getD idx d := by
  unfold bandpass
  apply radialMask_neg_symm o L _ _ _ _ _ _ _ (by simp [hrrf]) h
  rw [hsirf]; exact flagsOk_all_true a.shape

/-- the whitening filter (half-spectrum array) is symmetric under negation on every leading axis -/
theorem whiten_reflect_symm (L : SignLaws o) (spec : Array α) (shape : List Nat) (sirf : Bool)
    (flags : List Bool) (idx : List Nat) (d : α)
    (h : inShape (fourierShape shape sirf) idx = true)
    (hf : flagsOk (axesHalf (fourierShape shape sirf) true) flags = true) :
    (whiten o spec shape sirf).getD (negIdx flags (fourierShape shape sirf) idx) d =
      (whiten o spec shape sirf).getD idx d := by
  unfold whiten
  exact radialMask_neg_symm o L _ _ _ _ _ _ _ (by simp) h hf

/-! ### the axes un-shifted at the end of `LinearWhiteningFilter.__call__` (with and without a batch axis) -/

/-- the repaired code un-shifts exactly the two-sided axes of the mask: every axis but its last -/
theorem whitenShiftAxes_mem (nd : Nat) (batch : Option Nat) (i : Nat) :
    i ∈ whitenShiftAxes nd batch ↔ i + 1 < maskRank nd batch := by
  unfold whitenShiftAxes
  rw [List.mem_range]
  omega

example : whitenShiftAxes 3 (some 0) = [0] ∧ whitenShiftAxes 4 (some 0) = [0, 1] ∧ whitenShiftAxes 3 none = [0, 1] := by decide

/-- without a batch axis the old and the repaired axes coincide (the repair changes nothing there) -/
theorem whitenShiftAxes_none (nd : Nat) : whitenShiftAxesOld nd none = whitenShiftAxes nd none := by
  unfold whitenShiftAxesOld whitenShiftAxes maskRank
  simp

/-- before the repair a stack (`batch_dimension = 0`) left the first two-sided axis of the mask centred … -/
theorem whitenShiftAxesOld_current_defect_first (nd : Nat) : 0 ∉ whitenShiftAxesOld nd (some 0) := by
  unfold whitenShiftAxesOld
  simp

/-- … and un-shifted its one-sided last axis instead (`nd ≥ 3`: a stack of at least 2-D transforms) -/
theorem whitenShiftAxesOld_current_defect_last (nd : Nat) (h : 3 ≤ nd) :
    maskRank nd (some 0) - 1 ∈ whitenShiftAxesOld nd (some 0) := by
  unfold whitenShiftAxesOld maskRank
  simp only [List.mem_filter, List.mem_range, decide_eq_true_eq]
  refine ⟨by omega, ?_⟩
  intro hc
  have := Option.some.inj hc
  omega

example : whitenShiftAxesOld 3 (some 0) = [1] ∧ whitenShiftAxes 3 (some 0) = [0] := by decide

/-! ## a half-spectrum shape passed in as such gives the crop of the full mask -/

theorem terms_rfshape (L : SignLaws o) : ∀ (shape idx : List Nat),
    inShape (cropShape shape) idx = true →
    List.zipWith (term o) (axesHalf (cropShape shape) true) (srcIdx (axesHalf (cropShape shape) true) idx)
      = List.zipWith (term o) (axesHalf shape false) (srcIdx (axesHalf shape false) idx)
  | [], [], _ => rfl
  | [], _ :: _, h => by simp [cropShape, inShape] at h
  | _ :: _, [], h => by simp [cropShape, inShape] at h
  | n :: ns, i :: is, h => by
      simp only [cropShape, inShape_cons] at h
      simp only [cropShape, axesHalf, srcIdx, List.zipWith_cons_cons]
      have ih := terms_rfshape L ns is h.2
      simp only [srcIdx] at ih
      rw [ih]
      congr 1
      cases hns : ns with
      | nil =>
        subst hns
        simp only [cropShape, List.isEmpty_nil, if_true, Bool.and_true, Bool.and_false,
          Bool.false_eq_true, if_false]
        have hi : i < halfLen n := by simpa using h.1
        unfold halfLen at hi
        apply term_of_k o L
        · simp [halfLen]
        · by_cases hn : n = 0
          · subst hn
            have : i = 0 := by omega
            subst this
            left; simp [Ax.k, Ax.src, shiftSrc, rollSrc, center]
          · have hin : i < n := by omega
            have hk : (⟨n, false, n / 2⟩ : Ax).k ((⟨n, false, n / 2⟩ : Ax).src i) = freqIndex n i := by
              simp only [Ax.k, Ax.src, Bool.false_eq_true, if_false]; exact k_shiftSrc n i hin
            rw [hk, freqIndex_eq n i hin]
            simp only [Ax.k, Ax.src, if_true]
            split
            · left; rfl
            · right; omega
      | cons m ms =>
        simp [cropShape]

/-- what `Compose` relies on: a filter called with the half-spectrum shape and
`shape_is_real_fourier=True` (as emitted by a preceding wedge) equals the half-spectrum crop of the
filter for the real-space shape -/
theorem rfshape_eq_crop (L : SignLaws o) (shape : List Nat) (val : α → α) (idx : List Nat) (d : α)
    (hpos : ∀ n ∈ shape, 1 ≤ n) (h : inShape (cropShape shape) idx = true) :
    (radialMask o (cropShape shape) true false val).getD idx d =
      (radialMask o shape false true val).getD idx d := by
  have hfull : inShape shape idx = true := by
    clear L
    induction shape generalizing idx with
    | nil => simpa [cropShape] using h
    | cons n ns ih =>
      cases idx with
      | nil => simp [cropShape, inShape] at h
      | cons i is =>
        simp only [cropShape, inShape_cons] at h
        simp only [inShape_cons]
        refine ⟨?_, ih is (fun m hm => hpos m (List.mem_cons_of_mem _ hm)) h.2⟩
        have := hpos n (List.mem_cons_self)
        split at h
        · unfold halfLen at h; omega
        · exact h.1
  rw [half_is_part_of_full o shape val idx d h,
    radialMask_getD o shape false false val idx o.zero (by simp) hfull,
    radialMask_getD o (cropShape shape) true false val idx d (by simp) h]
  unfold radial radial2
  rw [terms_rfshape o L shape idx h]

/-! ## range -/

theorem ite_in_pair {β : Type} (c : Prop) [Decidable c] (a b : β) :
    (if c then a else b) = b ∨ (if c then a else b) = a := by
  by_cases h : c <;> simp [h]

theorem discrete_in_01 (hi lo : Option α) (r : α) :
    discreteVal o hi lo r = o.zero ∨ discreteVal o hi lo r = o.one := by
  unfold discreteVal; exact ite_in_pair _ _ _

/-- every voxel of a hard-edged band-pass filter is 0 or 1 -/
theorem bandpass_discrete_in_01 (a : BPArgs α) (hg : a.gaussian = false) (idx : List Nat) (d : α)
    (hr : (a.rrf && !a.sirf) = false) (h : inShape a.shape idx = true) :
    (bandpass o a).getD idx d = o.zero ∨ (bandpass o a).getD idx d = o.one := by
  unfold bandpass
  rw [radialMask_getD o _ _ _ _ idx d hr h]
  unfold bandpassVal
  simp only [hg, Bool.false_eq_true, if_false]
  exact discrete_in_01 o _ _ _

theorem contWedge_in_01 (a : WArgs α) (idx : List Nat) :
    wedgeCentred o a idx = o.zero ∨ wedgeCentred o a idx = o.one := by
  unfold wedgeCentred
  exact ite_in_pair _ _ _

/-! ## zero frequency -/

theorem foldl_add_zero (Z : ZeroLaws o) : ∀ (l : List α), (∀ x ∈ l, x = o.zero) → l.foldl o.add o.zero = o.zero
  | [], _ => rfl
  | x :: xs, h => by
      have hx := h x List.mem_cons_self
      subst hx
      simp only [List.foldl_cons, Z.add_zero]
      exact foldl_add_zero Z xs (fun y hy => h y (List.mem_cons_of_mem _ hy))

/-- at the DC position every squared grid term vanishes -/
theorem terms_dc (Z : ZeroLaws o) : ∀ (shape : List Nat) (rf : Bool), (∀ n ∈ shape, 2 ≤ n) →
    ∀ x ∈ List.zipWith (term o) (axesHalf shape rf) (srcIdx (axesHalf shape rf) (shape.map (fun _ => 0))), x = o.zero
  | [], _, _ => by simp [axesHalf, srcIdx]
  | n :: ns, rf, hpos => by
      intro x hx
      simp only [axesHalf, srcIdx, List.map_cons, List.zipWith_cons_cons, List.mem_cons] at hx
      have hn := hpos n List.mem_cons_self
      rcases hx with hx | hx
      · subst hx
        split
        · unfold term
          simp only [Ax.k, Ax.src, if_true]
          have := Z.zero_div (n - 1) (by omega)
          simp only [Nat.cast_zero]
          rw [this, Z.mul_zero]
        · rw [term_src o _ 0 (by show 0 < n; omega) rfl]
          have h0 : freqIndex n 0 = 0 := by
            rw [freqIndex_eq n 0 (by omega)]; split <;> omega
          simp only [h0]
          rw [Z.zero_div (n / 2) (by omega), Z.mul_zero]
      · exact terms_dc Z ns rf (fun m hm => hpos m (List.mem_cons_of_mem _ hm)) x (by simpa [srcIdx] using hx)

theorem radial_dc (Z : ZeroLaws o) (shape : List Nat) (rf : Bool) (hpos : ∀ n ∈ shape, 2 ≤ n) :
    radial o (axesHalf shape rf) (srcIdx (axesHalf shape rf) (shape.map (fun _ => 0))) = o.zero := by
  unfold radial radial2
  rw [foldl_add_zero o Z _ (terms_dc o Z shape rf hpos), Z.sqrt_zero]

theorem inShape_zeros : ∀ (shape : List Nat), (∀ n ∈ shape, 2 ≤ n) → inShape shape (shape.map (fun _ => 0)) = true
  | [], _ => rfl
  | n :: ns, h => by
      simp only [List.map_cons, inShape_cons]
      exact ⟨by have := h n List.mem_cons_self; omega, inShape_zeros ns (fun m hm => h m (List.mem_cons_of_mem _ hm))⟩

/-- a hard low-pass (no high-pass) with a non-negative cut-off keeps the zero frequency -/
theorem dc_kept_lowpass (Z : ZeroLaws o) (a : BPArgs α) (d : α) (hg : a.gaussian = false)
    (hr : (a.rrf && !a.sirf) = false) (hpos : ∀ n ∈ a.shape, 2 ≤ n) (hhp : a.highpass = none)
    (hcut : ∀ c, a.lowpass.map (cutOf o a.srs) = some c → o.le o.zero c = true) :
    (bandpass o a).getD (a.shape.map (fun _ => 0)) d = o.one := by
  unfold bandpass
  rw [radialMask_getD o _ _ _ _ _ d hr (inShape_zeros a.shape hpos), radial_dc o Z a.shape a.sirf hpos]
  unfold bandpassVal discreteVal
  simp only [hg, Bool.false_eq_true, if_false, hhp, Option.map_none, Bool.and_true]
  cases hl : a.lowpass.map (cutOf o a.srs) with
  | none => simp
  | some c => simp [hcut c hl]

/-- a hard high-pass whose cut-off is positive removes the zero frequency -/
theorem dc_removed_highpass (Z : ZeroLaws o) (a : BPArgs α) (d : α) (hg : a.gaussian = false)
    (hr : (a.rrf && !a.sirf) = false) (hpos : ∀ n ∈ a.shape, 2 ≤ n) (c : α)
    (hhp : a.highpass.map (cutOf o a.srs) = some c) (hcut : o.le c o.zero = false) :
    (bandpass o a).getD (a.shape.map (fun _ => 0)) d = o.zero := by
  unfold bandpass
  rw [radialMask_getD o _ _ _ _ _ d hr (inShape_zeros a.shape hpos), radial_dc o Z a.shape a.sirf hpos]
  unfold bandpassVal discreteVal
  simp only [hg, Bool.false_eq_true, if_false, hhp, hcut, Bool.and_false]

end

/-! ## continuous wedge -/

section
variable {α : Type} (o : Ops α)

theorem axesOne_cons (n : Nat) (ns : List Nat) : axesOne (n :: ns) = ⟨n, false, n⟩ :: axesOne ns := rfl

theorem flagsOk_one_all_true : ∀ (shape : List Nat), flagsOk (axesOne shape) (shape.map (fun _ => true)) = true
  | [] => rfl
  | n :: ns => by
      simp only [axesOne_cons, List.map_cons, flagsOk, Bool.false_and, Bool.not_false, Bool.true_and]
      exact flagsOk_one_all_true ns

/-- centred index read at DC-first position `idx` along axis `t` -/
theorem k_at : ∀ (shape idx : List Nat) (t : Nat) (dflt : Ax), inShape shape idx = true → t < shape.length →
    ((axesOne shape).getD t dflt).k ((srcIdx (axesOne shape) idx).getD t 0) = freqIndex (shape.getD t 0) (idx.getD t 0)
  | [], _, _, _, _, ht => by simp at ht
  | _ :: _, [], _, _, h, _ => by simp [inShape] at h
  | n :: ns, i :: is, 0, _, h, _ => by
      obtain ⟨hi, _⟩ := inShape_cons.mp h
      simp only [axesOne_cons, srcIdx, List.zipWith_cons_cons, List.getD_cons_zero]
      simp only [Ax.k, Ax.src, Bool.false_eq_true, if_false]
      exact k_shiftSrc n i hi
  | n :: ns, i :: is, t + 1, dflt, h, ht => by
      obtain ⟨_, hr⟩ := inShape_cons.mp h
      simp only [axesOne_cons, srcIdx, List.zipWith_cons_cons, List.getD_cons_succ]
      exact k_at ns is t dflt hr (by simpa using ht)

theorem negIdx_at : ∀ (shape idx : List Nat) (t : Nat), inShape shape idx = true → t < shape.length →
    (negIdx (shape.map (fun _ => true)) shape idx).getD t 0 = negPos (shape.getD t 0) (idx.getD t 0) ∧
      idx.getD t 0 < shape.getD t 0
  | [], _, _, _, ht => by simp at ht
  | _ :: _, [], _, h, _ => by simp [inShape] at h
  | n :: ns, i :: is, 0, h, _ => by
      obtain ⟨hi, _⟩ := inShape_cons.mp h
      simp [negIdx, hi]
  | n :: ns, i :: is, t + 1, h, ht => by
      obtain ⟨_, hr⟩ := inShape_cons.mp h
      simp only [List.map_cons, negIdx, if_true, List.getD_cons_succ]
      exact negIdx_at ns is t hr (by simpa using ht)

theorem wedgeVal_neg (L : SignLaws o) (start stop big : α) (kt ko : Int) :
    wedgeVal o start stop big (-kt) (-ko) = wedgeVal o start stop big kt ko := by
  unfold wedgeVal
  by_cases h : ko = 0
  · subst h; simp
  · have : ¬ (-ko = 0) := by omega
    simp only [h, this, if_false, L.div_neg_neg]

theorem contWedge_getD (a : WArgs α) (idx : List Nat) (d : α) (hrrf : a.rrf = false)
    (h : inShape a.shape idx = true) :
    (contWedge o a).getD idx d = wedgeCentred o a (srcIdx (axesOne a.shape) idx) := by
  unfold contWedge
  simp only [hrrf, Bool.false_eq_true, if_false]
  rw [shiftFourier_getD _ _ _ _ _ h]
  have hn := axesOne_n a.shape
  have h2 : inShape a.shape (srcIdx (axesOne a.shape) idx) = true := by
    have := inShape_srcIdx (axesOne a.shape) idx (by rw [hn]; exact h)
    rwa [hn] at this
  exact Arr.getD_ofFn _ _ _ _ h2

/-- the continuous wedge is symmetric under frequency negation at every frequency whose
opening-axis and tilt-axis components are not the Nyquist term of an even extent (there the signed
ratio `k_tilt / k_opening` is well defined up to the common sign) -/
theorem contWedge_neg_symm_offNyquist (L : SignLaws o) (a : WArgs α) (idx : List Nat) (d : α)
    (hrrf : a.rrf = false) (h : inShape a.shape idx = true)
    (hto : a.tilt < a.shape.length) (hop : a.opening < a.shape.length)
    (hnt : 2 * idx.getD a.tilt 0 ≠ a.shape.getD a.tilt 0)
    (hno : 2 * idx.getD a.opening 0 ≠ a.shape.getD a.opening 0) :
    (contWedge o a).getD (negIdx (a.shape.map (fun _ => true)) a.shape idx) d = (contWedge o a).getD idx d := by
  have hn := axesOne_n a.shape
  have h' : inShape ((axesOne a.shape).map Ax.n) idx = true := by rw [hn]; exact h
  have hf := flagsOk_one_all_true a.shape
  have hneg : inShape a.shape (negIdx (a.shape.map (fun _ => true)) a.shape idx) = true := by
    have := inShape_negIdx (axesOne a.shape) _ idx h' hf
    rwa [hn] at this
  rw [contWedge_getD o a _ d hrrf hneg, contWedge_getD o a idx d hrrf h]
  unfold wedgeCentred
  simp only
  have hrad := radial_neg o L (axesOne a.shape) _ idx h' hf
  rw [hn] at hrad
  rw [hrad]
  have kt := k_at a.shape _ a.tilt ⟨1, false, 1⟩ hneg hto
  have ko := k_at a.shape _ a.opening ⟨1, false, 1⟩ hneg hop
  obtain ⟨nt, lt⟩ := negIdx_at a.shape idx a.tilt h hto
  obtain ⟨no, lo⟩ := negIdx_at a.shape idx a.opening h hop
  rw [nt, freqIndex_negPos_exact _ _ lt hnt] at kt
  rw [no, freqIndex_negPos_exact _ _ lo hno] at ko
  rw [kt, ko, wedgeVal_neg o L, ← k_at a.shape idx a.tilt ⟨1, false, 1⟩ h hto,
    ← k_at a.shape idx a.opening ⟨1, false, 1⟩ h hop]

end

/-- today's continuous wedge is *not* symmetric on the Nyquist row of an even extent when the two
tilt limits differ and no frequency cut-off ≤ Nyquist removes that row (exact arithmetic, 4×4,
start = tan(90°-45°) = 1, stop = -1/2): position (2,1) and its negative (2,3) disagree -/
theorem contWedge_nyquist_current_defect :
    let a : WArgs Rat := ⟨[4, 4], 1, -1/2, 100, 0, 1, none, false⟩
    (contWedge ratOps a).getD [2, 1] 7 ≠ (contWedge ratOps a).getD (negIdx [true, true] [4, 4] [2, 1]) 7 := by
  decide +kernel

/-! ## statelessness -/

/-- `__call__` leaves the object's attributes untouched -/
theorem call_state_unchanged (cfg kw : Kw) : (callCopy cfg kw).1 = cfg := rfl

theorem kwLookup_kwSet (k v k' : String) (m : Kw) :
    kwLookup k' (kwSet k v m) = if k = k' then some v else kwLookup k' m := by
  induction m with
  | nil => simp [kwSet, kwLookup]
  | cons p r ih =>
    obtain ⟨a, b⟩ := p
    unfold kwSet
    by_cases h : a = k
    · subst h; simp only [if_true, kwLookup]
      by_cases h2 : a = k' <;> simp [h2]
    · simp only [h, if_false, kwLookup, ih]
      by_cases h2 : a = k'
      · subst h2; simp [Ne.symm h]
      · simp [h2]

/-- the effective arguments are the constructor's, overridden by the call's (last one wins) -/
theorem call_effective (cfg kw : Kw) (k : String) :
    kwLookup k (callCopy cfg kw).2 = (kwLookup k kw.reverse).orElse (fun _ => kwLookup k cfg) := by
  show kwLookup k (kwUpdate cfg kw) = _
  induction kw generalizing cfg with
  | nil => simp [kwUpdate, kwLookup]
  | cons p r ih =>
    obtain ⟨a, b⟩ := p
    simp only [kwUpdate, ih, kwLookup_kwSet]
    have hrev : ∀ (l : Kw), kwLookup k (l ++ [(a, b)]) = (kwLookup k l).orElse (fun _ => if a = k then some b else none) := by
      intro l; induction l with
      | nil => simp [kwLookup]
      | cons q t iht => obtain ⟨x, y⟩ := q; simp only [List.cons_append, kwLookup, iht]; split <;> simp
    rw [List.reverse_cons, hrev]
    cases kwLookup k r.reverse <;> simp
    split <;> simp

/-- any history of calls: the state never changes and every call sees `ctor ∪ its own kwargs` only -/
theorem runCalls_copy (cfg : Kw) (hist : List Kw) :
    runCalls callCopy cfg hist = (cfg, hist.map (kwUpdate cfg)) := by
  induction hist with
  | nil => rfl
  | cons kw rest ih => simp [runCalls, callCopy, ih]

/-- the result of a call (any function `F` of the effective arguments) after an arbitrary history
equals the result of the same call on a fresh object -/
theorem history_independent {β : Type} (F : Kw → β) (cfg : Kw) (hist : List Kw) (kw : Kw) :
    ((runCalls callCopy cfg (hist ++ [kw])).2.map F).getLast? = some (F (callCopy cfg kw).2) := by
  rw [runCalls_copy]; simp [callCopy]

/-- the pre-fix `BandPassFilter.__call__` (`vars(self).update(kwargs)`) violates it: after a call
with `return_real_fourier=True` the next call without it still sees `True` -/
theorem callLeaky_current_defect :
    let cfg : Kw := [("lowpass", "4"), ("return_real_fourier", "False")]
    let hist : List Kw := [[("shape", "(8, 8)"), ("return_real_fourier", "True")], [("shape", "(8, 8)")]]
    (runCalls callLeaky cfg hist).1 ≠ cfg ∧
    (runCalls callLeaky cfg hist).2.getLast? ≠ some (callCopy cfg [("shape", "(8, 8)")]).2 := by
  decide

/-! ## composition -/

section
variable {α : Type} [CommMonoid α]

theorem composeLoop_product (n : Nat) :
    ∀ (ts : List (Transform α)) (parts : List (List α)) (kw : Kw) (dkw : Option (List α)) (m : Ret α)
      (acc : List α) (done : List (List α)),
      List.Forall₂ (fun t p => ∀ kw d, (t kw d).data = some p ∧ (t kw d).mult = true) ts parts →
      (∀ p ∈ parts, p.length = n) → m.data = some acc → acc.length = n →
      (∀ i, i < n → acc.getD i 1 = (done.map (fun p => p.getD i 1)).prod) →
      ∃ out, (composeLoop (· * ·) ts kw dkw m).data = some out ∧ out.length = n ∧
        ∀ i, i < n → out.getD i 1 = ((done ++ parts).map (fun p => p.getD i 1)).prod
  | [], [], _, _, m, acc, done, _, _, hm, hl, hacc => by
      exact ⟨acc, by simp [composeLoop, hm], hl, by simpa using hacc⟩
  | [], _ :: _, _, _, _, _, _, h, _, _, _, _ => by cases h
  | _ :: _, [], _, _, _, _, _, h, _, _, _, _ => by cases h
  | t :: ts, p :: ps, kw, dkw, m, acc, done, h, hlen, hm, hl, hacc => by
      cases h with
      | cons htp hrest =>
        have hp := hlen p List.mem_cons_self
        unfold composeLoop
        simp only [hm]
        obtain ⟨hd, hmul⟩ := htp (kwUpdate kw m.info) (some acc)
        simp only [hd, hmul, if_true]
        have := composeLoop_product n ts ps (kwUpdate kw m.info) (some acc)
          ⟨some (List.zipWith (· * ·) p acc), true, (t (kwUpdate kw m.info) (some acc)).info⟩
          (List.zipWith (· * ·) p acc) (done ++ [p]) hrest
          (fun q hq => hlen q (List.mem_cons_of_mem _ hq)) rfl (by simp [hp, hl])
          (by
            intro i hi
            have h1 : (List.zipWith (· * ·) p acc).getD i 1 = p.getD i 1 * acc.getD i 1 := by
              have hi1 : i < p.length := by omega
              have hi2 : i < acc.length := by omega
              simp [List.getD_eq_getElem?_getD, hi1, hi2]
            rw [h1, hacc i hi, List.map_append, List.prod_append]
            simp [mul_comm])
        simpa [List.append_assoc] using this

/-- a composition of multiplicative filters (each returning its own mask, whatever keyword
arguments `Compose` forwards to it) is, voxel by voxel, the product of the parts -/
theorem compose_eq_product (n : Nat) (ts : List (Transform α)) (parts : List (List α)) (kw : Kw)
    (dkw : Option (List α)) (hne : ts ≠ [])
    (h : List.Forall₂ (fun t p => ∀ kw d, (t kw d).data = some p ∧ (t kw d).mult = true) ts parts)
    (hlen : ∀ p ∈ parts, p.length = n) :
    ∃ r out, compose (· * ·) ts kw dkw = some r ∧ r.data = some out ∧ out.length = n ∧
      ∀ i, i < n → out.getD i 1 = (parts.map (fun p => p.getD i 1)).prod := by
  cases h with
  | nil => exact absurd rfl hne
  | @cons t p ts' ps htp hrest =>
    obtain ⟨hd, _⟩ := htp kw dkw
    have hp := hlen p List.mem_cons_self
    obtain ⟨out, ho, hol, hov⟩ := composeLoop_product n ts' ps kw dkw (t kw dkw) p [p] hrest
      (fun q hq => hlen q (List.mem_cons_of_mem _ hq)) hd hp (by intro i _; simp)
    exact ⟨_, out, rfl, ho, hol, by simpa using hov⟩

/-- … and that product does not depend on the order of the filters -/
theorem product_perm (parts parts' : List (List α)) (hp : parts.Perm parts') (i : Nat) :
    (parts.map (fun p => p.getD i 1)).prod = (parts'.map (fun p => p.getD i 1)).prod :=
  (hp.map _).prod_eq

end

/-! ## non-vacuity -/

example : freqIndex 8 4 = -4 ∧ freqIndex 8 5 = -3 ∧ freqIndex 7 3 = 3 ∧ freqIndex 7 4 = -3 := by decide
example : negPos 8 4 = 4 ∧ negPos 8 0 = 0 ∧ negPos 7 3 = 4 := by decide
example : (List.range 6).map (shiftSrc 6) = [3, 4, 5, 0, 1, 2] ∧ (List.range 5).map (shiftSrc 5) = [2, 3, 4, 0, 1] := by decide
example : cropShape [6, 7, 8] = [6, 7, 5] ∧ cropShape [8, 7] = [8, 4] ∧ fourierShape [8, 5] true = [8, 5] := by decide
example : SignLaws ratOps ∧ ZeroLaws ratOps := ⟨ratOps_signLaws, ratOps_zeroLaws⟩
example : flagsOk (axesHalf [4, 3] true) [true, false] = true ∧ flagsOk (axesHalf [4, 3] true) [true, true] = false := by decide

/-- a 4×4 hard low-pass at cut-off 1/2 (lowpass = 4 voxels, sampling rate 1), evaluated exactly
(`ratOps.sqrt` is the identity, so the pass region is `r² ≤ 1/2`) -/
def exBP : BPArgs Rat := ⟨[4, 4], some 4, none, [1], false, false, false⟩
example : (bandpass ratOps exBP).toList = [1, 1, 0, 1, 1, 1, 0, 1, 0, 0, 0, 0, 1, 1, 0, 1] := by decide +kernel
example : (bandpass ratOps { exBP with rrf := true }).toList = [1, 1, 0, 1, 1, 0, 0, 0, 0, 1, 1, 0] := by decide +kernel
example : (bandpass ratOps { exBP with shape := [4, 3], sirf := true }).toList = [1, 1, 0, 1, 1, 0, 0, 0, 0, 1, 1, 0] := by
  decide +kernel
example : (bandpass ratOps { exBP with lowpass := none, highpass := some 8 }).getD [0, 0] 7 = 0 := by decide +kernel
example : ∀ c, exBP.lowpass.map (cutOf ratOps exBP.srs) = some c → ratOps.le ratOps.zero c = true := by
  intro c h
  have : c = 1 / 2 := by
    have h2 : exBP.lowpass.map (cutOf ratOps exBP.srs) = some (1 / 2) := by decide +kernel
    rw [h2] at h; exact (Option.some.inj h).symm
  subst this; decide +kernel
example : (contWedge ratOps ⟨[4, 4], 1, -1/2, 100, 0, 1, some (1/4), false⟩).toList =
    [1, 1, 1, 1, 0, 1, 0, 1, 0, 0, 0, 0, 0, 1, 0, 1] := by decide +kernel
example : runCalls callCopy [("a", "1")] [[("a", "2"), ("b", "3")], [("c", "4")]] =
    ([("a", "1")], [[("a", "2"), ("b", "3")], [("a", "1"), ("c", "4")]]) := by decide
example : (compose (· * ·) [fun _ _ => ⟨some [2, 3], true, []⟩, fun _ _ => ⟨some [5, 7], true, [("shape", "x")]⟩]
    [] none).bind (·.data) = some [10, 21] := by decide

end Pm.C12
