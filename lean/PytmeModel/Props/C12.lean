import PytmeModel.Model.C12
import PytmeModel.Proofs.C12
import PytmeModel.Proofs.C12b
import Mathlib.Data.List.Nodup
import Mathlib.Algebra.BigOperators.Group.List.Basic

/-! # C12 — Fourier filters: consistent shapes, symmetric, bounded, stateless, composable

Clauses of the property and the theorems that carry them (all for every shape / argument / history):

* shape asked for ............ `radialMask_shape`, `bandpass_shape_full/half/rfshape`, `whiten_shape`,
                               `contWedge_shape`, `cropShape_snoc`
* half = part of full ........ `half_is_part_of_full`, `contWedge_half_is_part_of_full`, `rfshape_eq_crop`
* negation symmetry .......... `freq_neg_symm`, `radialMask_neg_symm`, `bandpass_neg_symm`,
                               `whiten_reflect_symm`, `contWedge_neg_symm_offNyquist`
                               (+ `contWedge_nyquist_current_defect`); stacks (`batch_dimension`):
                               `whitenShiftAxes_mem`, `whitenShiftAxes_none`
                               (+ `whitenShiftAxesOld_current_defect_first/last`)
* range ...................... `discrete_in_01`, `bandpass_discrete_in_01`, `contWedge_in_01`
* zero frequency ............. `dc_kept_lowpass`, `dc_removed_highpass`
* composition = product ...... `compose_eq_product`, `product_perm`
* statelessness .............. `call_state_unchanged`, `call_effective`, `runCalls_copy`,
                               `history_independent` (+ `callLeaky_current_defect`)

Second part (decision logic that entered the model later; same clauses):

* generic radial masks ........ `radialMask_eq_ax`, `radialMaskAx_shape/getD/half_is_part_of_full/neg_symm`; the
                               non-astigmatic `CTF` of one image (`radialMaskOne_shape`,
                               `radialMaskOne_half_is_part_of_full`, `radialMaskOne_neg_symm`: even in every
                               frequency component); `CTF` layout: `ctfPlan_single`, `ctfPlan_mismatch`, `ctfPlan_stack`
* whitening bins .............. `nBins_le_maxBins`, `nBins_le_requested`, `maxBins_pos`, `maxBins_covers_axes`,
                               `bin_unique` (each voxel in exactly one radial average, or none beyond the last bin),
                               `binsArr_shape/getD`, `binOfVoxel_eq_bins`, `binOfVoxel_neg_symm`, `binOfVoxel_dc`;
                               `order=None` mask: `whitenNone_shape/getD/value_mem/reflect_symm`
* per-tilt (step) wedge ....... `planeShape_odd`, `planeShape_crop_start`, `planeRow_lt`, `transpose2_getD`,
                               `tilePlane_shape/getD/const_off_axes`, `stepVolume_getD`
* tail of WedgeReconstructed .. `wedgeTail_shape`, `wedgeTail_half_is_part_of_full`, `wedgeTail_getD`,
                               `wedgeTail_in_01`, `wedgeTail_weighted_values`, `wedgeTail_neg_symm`,
                               `stepWedge_neg_symm_off_axes`; `wedgeTail_dc`, `wedgeTail_dc_kept` (zero frequency = centre of the
                               centred volume), `contWedge_eq_tail` (the fused continuous-wedge model
                               of the first part is the tail applied to `continuous_wedge`), `contWedge_dc_kept`
* tilt-series `Wedge` ......... `wedgeWeightFunc_isSome`, `tiltShape_length`, `wedgeStackShape_eq`,
                               `tiltPlaneZero_shape/values/neg_symm`, `tiltPlaneZero_eq_fn`,
                               `tiltPlaneFn_shape/values/neg_symm` (any radial weighting: relion, grigorieff)
* pass band is a radial band .. `discreteVal_one_iff`, `discrete_band`, `discrete_lowpass_ball` (`le` transitive)
* zero frequency, Gaussian .... `dc_kept_gaussian_lowpass`, `dc_removed_gaussian_highpass`; hard edge closed form
                               `bandpass_discrete_getD`
* tilted planes ............... `linForm_neg`, `tiltedRadial_neg`, `tiltedPlane_shape`, `tiltedPlane_neg_symm_offNyquist`
                               (any rotation matrix and radial weighting; `LinLaws`: negation laws up to the sign of zero)
* range (exact rationals) ..... `wedgeTail_weighted_range_rat`, `fmin_le_rat`, `tiltPlaneFn_range_rat`, `tiltedPlane_range_rat`,
                               `relion_bound_rat`, `grigorieff_exponent_rat`, `cut_range_rat`
* reconstruction filters ...... `recFilterKind_isSome`, `recFilterRadial_shape/getD/neg_symm/centre`,
                               `recFilterRamp_shape/getD/const_along_opening`, `recFilterRamp_le_one_rat`
* stacks, weights, index lemmas `binShape_length`, `stepWeightsFromCos_iff`; `ks_neg`, `tiltK_neg`, `srcIdx_zeros`, `shiftSrc_zero`
* `Wedge.__call__` angles ..... `wedgeCallPlan_no_override`, `wedgeCallPlan_raises_iff` (+ `wedgeCallPlan_override_current_defect`)
* metadata through `Compose` .. `compose_keeps_unemitted_key`, `compose_overrides_emitted_key`, `rrf_never_emitted`,
                               `shape_emitted_iff`, `multFlag_iff`, `readsSirf_iff`; `bandpass_after_wedge`, `whiten_after_wedge`
                               (a filter that follows a reconstructed wedge returns its stand-alone half-spectrum mask)
-/
namespace Pm.C12

/-! ## shapes -/

theorem cropShape_snoc (init : List Nat) (n : Nat) : cropShape (init ++ [n]) = init ++ [n / 2 + 1] := by
  induction init with
  | nil => simp [cropShape, halfLen]
  | cons a as ih => simp [cropShape, ih]

theorem cropShape_length (s : List Nat) : (cropShape s).length = s.length := by
  induction s with
  | nil => rfl
  | cons a as ih => simp [cropShape, ih]

section
variable {α : Type} (o : Ops α)

/-- every radial mask has exactly the full shape, or the half-spectrum shape when that was asked
for (`return_real_fourier` and the given shape is a real-space shape) -/
theorem radialMask_shape (shape : List Nat) (sirf rrf : Bool) (val : α → α) :
    (radialMask o shape sirf rrf val).shape = if rrf && !sirf then cropShape shape else shape := by
  unfold radialMask
  cases h : (rrf && !sirf) <;> simp [cropRealFourier, shiftFourier, Arr.ofFn]

theorem bandpass_shape_full (a : BPArgs α) (h : a.rrf = false) : (bandpass o a).shape = a.shape := by
  unfold bandpass; rw [radialMask_shape]; simp [h]

theorem bandpass_shape_half (a : BPArgs α) (h : a.rrf = true) (h2 : a.sirf = false) :
    (bandpass o a).shape = cropShape a.shape := by
  unfold bandpass; rw [radialMask_shape]; simp [h, h2]

/-- a half-spectrum shape handed in as such is returned unchanged -/
theorem bandpass_shape_rfshape (a : BPArgs α) (h : a.sirf = true) : (bandpass o a).shape = a.shape := by
  unfold bandpass; rw [radialMask_shape]; simp [h]

/-- the whitening filter always lives on the half-spectrum shape -/
theorem whiten_shape (spec : Array α) (shape : List Nat) (sirf : Bool) :
    (whiten o spec shape sirf).shape = fourierShape shape sirf := by
  unfold whiten; rw [radialMask_shape]; simp

theorem contWedge_shape (a : WArgs α) :
    (contWedge o a).shape = if a.rrf then cropShape a.shape else a.shape := by
  unfold contWedge
  cases h : a.rrf <;> simp [cropRealFourier, shiftFourier, Arr.ofFn]

/-! ## values: closed form, half ⊂ full -/

/-- voxel of a full (or half-shape-in) radial mask: `val` of the radial frequency of the DC-first index -/
theorem radialMask_getD (shape : List Nat) (sirf rrf : Bool) (val : α → α) (idx : List Nat) (d : α)
    (hr : (rrf && !sirf) = false) (h : inShape shape idx = true) :
    (radialMask o shape sirf rrf val).getD idx d =
      val (radial o (axesHalf shape sirf) (srcIdx (axesHalf shape sirf) idx)) := by
  unfold radialMask
  simp only [hr, Bool.false_eq_true, if_false]
  have hn := axesHalf_n shape sirf
  rw [shiftFourier_getD _ _ _ _ _ h]
  have h2 : inShape shape (srcIdx (axesHalf shape sirf) idx) = true := by
    have := inShape_srcIdx (axesHalf shape sirf) idx (by rw [hn]; exact h)
    rwa [hn] at this
  rw [Arr.getD_ofFn _ _ _ _ h2]

/-- the half-spectrum result is the corresponding part of the full one -/
theorem half_is_part_of_full (shape : List Nat) (val : α → α) (idx : List Nat) (d : α)
    (h : inShape (cropShape shape) idx = true) :
    (radialMask o shape false true val).getD idx d = (radialMask o shape false false val).getD idx o.zero := by
  unfold radialMask
  simp only [Bool.not_false, Bool.and_true, if_true, Bool.false_eq_true, if_false]
  unfold cropRealFourier
  exact Arr.getD_ofFn _ _ _ _ h

theorem contWedge_half_is_part_of_full (a : WArgs α) (idx : List Nat) (d : α)
    (h : inShape (cropShape a.shape) idx = true) :
    (contWedge o { a with rrf := true }).getD idx d = (contWedge o { a with rrf := false }).getD idx o.zero := by
  unfold contWedge
  simp only [if_true, Bool.false_eq_true, if_false]
  unfold cropRealFourier
  have : (shiftFourier (Arr.ofFn a.shape (wedgeCentred o { a with rrf := true })) (axesOne a.shape) o.zero)
       = (shiftFourier (Arr.ofFn a.shape (wedgeCentred o { a with rrf := false })) (axesOne a.shape) o.zero) := rfl
  rw [this]
  exact Arr.getD_ofFn _ _ _ _ h

/-! ## negation symmetry -/

/-- per axis, for every `n` and every position (including the Nyquist term of an even axis):
`|f((-k) mod n)| = |f(k)|` -/
theorem freq_neg_symm (n j : Nat) (hj : j < n) :
    (freqIndex n (negPos n j)).natAbs = (freqIndex n j).natAbs := by
  rcases freqIndex_negPos n j hj with h | h <;> rw [h]
  exact Int.natAbs_neg _

/-- the position read by `shift_fourier` holds the signed frequency index -/
theorem shifted_grid_is_freqIndex (n j : Nat) (hj : j < n) :
    (⟨n, false, n / 2⟩ : Ax).k ((⟨n, false, n / 2⟩ : Ax).src j) = freqIndex n j := by
  simp only [Ax.k, Ax.src, Bool.false_eq_true, if_false]
  exact k_shiftSrc n j hj

/-- a radial mask is invariant under negating the frequency on any set of (two-sided) axes -/
theorem radialMask_neg_symm (L : SignLaws o) (shape : List Nat) (sirf rrf : Bool) (val : α → α)
    (flags : List Bool) (idx : List Nat) (d : α)
    (hr : (rrf && !sirf) = false) (h : inShape shape idx = true)
    (hf : flagsOk (axesHalf shape sirf) flags = true) :
    (radialMask o shape sirf rrf val).getD (negIdx flags shape idx) d =
      (radialMask o shape sirf rrf val).getD idx d := by
  have hn := axesHalf_n shape sirf
  have h' : inShape ((axesHalf shape sirf).map Ax.n) idx = true := by rw [hn]; exact h
  have hneg : inShape shape (negIdx flags shape idx) = true := by
    have := inShape_negIdx (axesHalf shape sirf) flags idx h' hf
    rwa [hn] at this
  rw [radialMask_getD o shape sirf rrf val _ d hr hneg, radialMask_getD o shape sirf rrf val _ d hr h]
  have := radial_neg o L (axesHalf shape sirf) flags idx h' hf
  rw [hn] at this
  rw [this]

theorem flagsOk_all_true : ∀ (shape : List Nat),
    flagsOk (axesHalf shape false) (shape.map (fun _ => true)) = true
  | [] => rfl
  | n :: ns => by
      simp only [axesHalf, List.map_cons, flagsOk, Bool.and_false, Bool.false_eq_true, if_false,
        Bool.false_and, Bool.not_false, Bool.true_and]
      exact flagsOk_all_true ns

/-- band-pass filters (hard or Gaussian edge) are symmetric under frequency negation -/
theorem bandpass_neg_symm (L : SignLaws o) (a : BPArgs α) (idx : List Nat) (d : α)
    (hrrf : a.rrf = false) (hsirf : a.sirf = false) (h : inShape a.shape idx = true) :
    (bandpass o a).getD (negIdx (a.shape.map (fun _ => true)) a.shape idx) d = (bandpass o a).getD idx d := by
  unfold bandpass
  apply radialMask_neg_symm o L _ _ _ _ _ _ _ (by simp [hrrf]) h
  rw [hsirf]; exact flagsOk_all_true a.shape

/-- the whitening filter (half-spectrum array) is symmetric under negation on every leading axis -/
theorem whiten_reflect_symm (L : SignLaws o) (spec : Array α) (shape : List Nat) (sirf : Bool)
    (flags : List Bool) (idx : List Nat) (d : α)
    (h : inShape (fourierShape shape sirf) idx = true)
    (hf : flagsOk (axesHalf (fourierShape shape sirf) true) flags = true) :
    (whiten o spec shape sirf).getD (negIdx flags (fourierShape shape sirf) idx) d =
      (whiten o spec shape sirf).getD idx d := by
  unfold whiten
  exact radialMask_neg_symm o L _ _ _ _ _ _ _ (by simp) h hf

/-! ### the axes un-shifted at the end of `LinearWhiteningFilter.__call__` (with and without a batch axis) -/

/-- the repaired code un-shifts exactly the two-sided axes of the mask: every axis but its last -/
theorem whitenShiftAxes_mem (nd : Nat) (batch : Option Nat) (i : Nat) :
    i ∈ whitenShiftAxes nd batch ↔ i + 1 < maskRank nd batch := by
  unfold whitenShiftAxes
  rw [List.mem_range]
  omega

example : whitenShiftAxes 3 (some 0) = [0] ∧ whitenShiftAxes 4 (some 0) = [0, 1] ∧ whitenShiftAxes 3 none = [0, 1] := by decide

/-- without a batch axis the old and the repaired axes coincide (the repair changes nothing there) -/
theorem whitenShiftAxes_none (nd : Nat) : whitenShiftAxesOld nd none = whitenShiftAxes nd none := by
  unfold whitenShiftAxesOld whitenShiftAxes maskRank
  simp

/-- before the repair a stack (`batch_dimension = 0`) left the first two-sided axis of the mask centred … -/
theorem whitenShiftAxesOld_current_defect_first (nd : Nat) : 0 ∉ whitenShiftAxesOld nd (some 0) := by
  unfold whitenShiftAxesOld
  simp

/-- … and un-shifted its one-sided last axis instead (`nd ≥ 3`: a stack of at least 2-D transforms) -/
theorem whitenShiftAxesOld_current_defect_last (nd : Nat) (h : 3 ≤ nd) :
    maskRank nd (some 0) - 1 ∈ whitenShiftAxesOld nd (some 0) := by
  unfold whitenShiftAxesOld maskRank
  simp only [List.mem_filter, List.mem_range, decide_eq_true_eq]
  refine ⟨by omega, ?_⟩
  intro hc
  have := Option.some.inj hc
  omega

example : whitenShiftAxesOld 3 (some 0) = [1] ∧ whitenShiftAxes 3 (some 0) = [0] := by decide

/-! ## a half-spectrum shape passed in as such gives the crop of the full mask -/

theorem terms_rfshape (L : SignLaws o) : ∀ (shape idx : List Nat),
    inShape (cropShape shape) idx = true →
    List.zipWith (term o) (axesHalf (cropShape shape) true) (srcIdx (axesHalf (cropShape shape) true) idx)
      = List.zipWith (term o) (axesHalf shape false) (srcIdx (axesHalf shape false) idx)
  | [], [], _ => rfl
  | [], _ :: _, h => by simp [cropShape, inShape] at h
  | _ :: _, [], h => by simp [cropShape, inShape] at h
  | n :: ns, i :: is, h => by
      simp only [cropShape, inShape_cons] at h
      simp only [cropShape, axesHalf, srcIdx, List.zipWith_cons_cons]
      have ih := terms_rfshape L ns is h.2
      simp only [srcIdx] at ih
      rw [ih]
      congr 1
      cases hns : ns with
      | nil =>
        subst hns
        simp only [cropShape, List.isEmpty_nil, if_true, Bool.and_true, Bool.and_false,
          Bool.false_eq_true, if_false]
        have hi : i < halfLen n := by simpa using h.1
        unfold halfLen at hi
        apply term_of_k o L
        · simp [halfLen]
        · by_cases hn : n = 0
          · subst hn
            have : i = 0 := by omega
            subst this
            left; simp [Ax.k, Ax.src, shiftSrc, rollSrc, center]
          · have hin : i < n := by omega
            have hk : (⟨n, false, n / 2⟩ : Ax).k ((⟨n, false, n / 2⟩ : Ax).src i) = freqIndex n i := by
              simp only [Ax.k, Ax.src, Bool.false_eq_true, if_false]; exact k_shiftSrc n i hin
            rw [hk, freqIndex_eq n i hin]
            simp only [Ax.k, Ax.src, if_true]
            split
            · left; rfl
            · right; omega
      | cons m ms =>
        simp [cropShape]

/-- what `Compose` relies on: a filter called with the half-spectrum shape and
`shape_is_real_fourier=True` (as emitted by a preceding wedge) equals the half-spectrum crop of the
filter for the real-space shape -/
theorem rfshape_eq_crop (L : SignLaws o) (shape : List Nat) (val : α → α) (idx : List Nat) (d : α)
    (hpos : ∀ n ∈ shape, 1 ≤ n) (h : inShape (cropShape shape) idx = true) :
    (radialMask o (cropShape shape) true false val).getD idx d =
      (radialMask o shape false true val).getD idx d := by
  have hfull : inShape shape idx = true := by
    clear L
    induction shape generalizing idx with
    | nil => simpa [cropShape] using h
    | cons n ns ih =>
      cases idx with
      | nil => simp [cropShape, inShape] at h
      | cons i is =>
        simp only [cropShape, inShape_cons] at h
        simp only [inShape_cons]
        refine ⟨?_, ih is (fun m hm => hpos m (List.mem_cons_of_mem _ hm)) h.2⟩
        have := hpos n (List.mem_cons_self)
        split at h
        · unfold halfLen at h; omega
        · exact h.1
  rw [half_is_part_of_full o shape val idx d h,
    radialMask_getD o shape false false val idx o.zero (by simp) hfull,
    radialMask_getD o (cropShape shape) true false val idx d (by simp) h]
  unfold radial radial2
  rw [terms_rfshape o L shape idx h]

/-! ## range -/

theorem ite_in_pair {β : Type} (c : Prop) [Decidable c] (a b : β) :
    (if c then a else b) = b ∨ (if c then a else b) = a := by
  by_cases h : c <;> simp [h]

theorem discrete_in_01 (hi lo : Option α) (r : α) :
    discreteVal o hi lo r = o.zero ∨ discreteVal o hi lo r = o.one := by
  unfold discreteVal; exact ite_in_pair _ _ _

/-- every voxel of a hard-edged band-pass filter is 0 or 1 -/
theorem bandpass_discrete_in_01 (a : BPArgs α) (hg : a.gaussian = false) (idx : List Nat) (d : α)
    (hr : (a.rrf && !a.sirf) = false) (h : inShape a.shape idx = true) :
    (bandpass o a).getD idx d = o.zero ∨ (bandpass o a).getD idx d = o.one := by
  unfold bandpass
  rw [radialMask_getD o _ _ _ _ idx d hr h]
  unfold bandpassVal
  simp only [hg, Bool.false_eq_true, if_false]
  exact discrete_in_01 o _ _ _

theorem contWedge_in_01 (a : WArgs α) (idx : List Nat) :
    wedgeCentred o a idx = o.zero ∨ wedgeCentred o a idx = o.one := by
  unfold wedgeCentred
  exact ite_in_pair _ _ _

/-! ## zero frequency -/

theorem foldl_add_zero (Z : ZeroLaws o) : ∀ (l : List α), (∀ x ∈ l, x = o.zero) → l.foldl o.add o.zero = o.zero
  | [], _ => rfl
  | x :: xs, h => by
      have hx := h x List.mem_cons_self
      subst hx
      simp only [List.foldl_cons, Z.add_zero]
      exact foldl_add_zero Z xs (fun y hy => h y (List.mem_cons_of_mem _ hy))

/-- at the DC position every squared grid term vanishes -/
theorem terms_dc (Z : ZeroLaws o) : ∀ (shape : List Nat) (rf : Bool), (∀ n ∈ shape, 2 ≤ n) →
    ∀ x ∈ List.zipWith (term o) (axesHalf shape rf) (srcIdx (axesHalf shape rf) (shape.map (fun _ => 0))), x = o.zero
  | [], _, _ => by simp [axesHalf, srcIdx]
  | n :: ns, rf, hpos => by
      intro x hx
      simp only [axesHalf, srcIdx, List.map_cons, List.zipWith_cons_cons, List.mem_cons] at hx
      have hn := hpos n List.mem_cons_self
      rcases hx with hx | hx
      · subst hx
        split
        · unfold term
          simp only [Ax.k, Ax.src, if_true]
          have := Z.zero_div (n - 1) (by omega)
          simp only [Nat.cast_zero]
          rw [this, Z.mul_zero]
        · rw [term_src o _ 0 (by show 0 < n; omega) rfl]
          have h0 : freqIndex n 0 = 0 := by
            rw [freqIndex_eq n 0 (by omega)]; split <;> omega
          simp only [h0]
          rw [Z.zero_div (n / 2) (by omega), Z.mul_zero]
      · exact terms_dc Z ns rf (fun m hm => hpos m (List.mem_cons_of_mem _ hm)) x (by simpa [srcIdx] using hx)

theorem radial_dc (Z : ZeroLaws o) (shape : List Nat) (rf : Bool) (hpos : ∀ n ∈ shape, 2 ≤ n) :
    radial o (axesHalf shape rf) (srcIdx (axesHalf shape rf) (shape.map (fun _ => 0))) = o.zero := by
  unfold radial radial2
  rw [foldl_add_zero o Z _ (terms_dc o Z shape rf hpos), Z.sqrt_zero]

theorem inShape_zeros : ∀ (shape : List Nat), (∀ n ∈ shape, 2 ≤ n) → inShape shape (shape.map (fun _ => 0)) = true
  | [], _ => rfl
  | n :: ns, h => by
      simp only [List.map_cons, inShape_cons]
      exact ⟨by have := h n List.mem_cons_self; omega, inShape_zeros ns (fun m hm => h m (List.mem_cons_of_mem _ hm))⟩

/-- a hard low-pass (no high-pass) with a non-negative cut-off keeps the zero frequency -/
theorem dc_kept_lowpass (Z : ZeroLaws o) (a : BPArgs α) (d : α) (hg : a.gaussian = false)
    (hr : (a.rrf && !a.sirf) = false) (hpos : ∀ n ∈ a.shape, 2 ≤ n) (hhp : a.highpass = none)
    (hcut : ∀ c, a.lowpass.map (cutOf o a.srs) = some c → o.le o.zero c = true) :
    (bandpass o a).getD (a.shape.map (fun _ => 0)) d = o.one := by
  unfold bandpass
  rw [radialMask_getD o _ _ _ _ _ d hr (inShape_zeros a.shape hpos), radial_dc o Z a.shape a.sirf hpos]
  unfold bandpassVal discreteVal
  simp only [hg, Bool.false_eq_true, if_false, hhp, Option.map_none, Bool.and_true]
  cases hl : a.lowpass.map (cutOf o a.srs) with
  | none => simp
  | some c => simp [hcut c hl]

/-- a hard high-pass whose cut-off is positive removes the zero frequency -/
theorem dc_removed_highpass (Z : ZeroLaws o) (a : BPArgs α) (d : α) (hg : a.gaussian = false)
    (hr : (a.rrf && !a.sirf) = false) (hpos : ∀ n ∈ a.shape, 2 ≤ n) (c : α)
    (hhp : a.highpass.map (cutOf o a.srs) = some c) (hcut : o.le c o.zero = false) :
    (bandpass o a).getD (a.shape.map (fun _ => 0)) d = o.zero := by
  unfold bandpass
  rw [radialMask_getD o _ _ _ _ _ d hr (inShape_zeros a.shape hpos), radial_dc o Z a.shape a.sirf hpos]
  unfold bandpassVal discreteVal
  simp only [hg, Bool.false_eq_true, if_false, hhp, hcut, Bool.and_false]

end

/-! ## continuous wedge -/

section
variable {α : Type} (o : Ops α)

theorem axesOne_cons (n : Nat) (ns : List Nat) : axesOne (n :: ns) = ⟨n, false, n⟩ :: axesOne ns := rfl

theorem flagsOk_one_all_true : ∀ (shape : List Nat), flagsOk (axesOne shape) (shape.map (fun _ => true)) = true
  | [] => rfl
  | n :: ns => by
      simp only [axesOne_cons, List.map_cons, flagsOk, Bool.false_and, Bool.not_false, Bool.true_and]
      exact flagsOk_one_all_true ns

/-- centred index read at DC-first position `idx` along axis `t` -/
theorem k_at : ∀ (shape idx : List Nat) (t : Nat) (dflt : Ax), inShape shape idx = true → t < shape.length →
    ((axesOne shape).getD t dflt).k ((srcIdx (axesOne shape) idx).getD t 0) = freqIndex (shape.getD t 0) (idx.getD t 0)
  | [], _, _, _, _, ht => by simp at ht
  | _ :: _, [], _, _, h, _ => by simp [inShape] at h
  | n :: ns, i :: is, 0, _, h, _ => by
      obtain ⟨hi, _⟩ := inShape_cons.mp h
      simp only [axesOne_cons, srcIdx, List.zipWith_cons_cons, List.getD_cons_zero]
      simp only [Ax.k, Ax.src, Bool.false_eq_true, if_false]
      exact k_shiftSrc n i hi
  | n :: ns, i :: is, t + 1, dflt, h, ht => by
      obtain ⟨_, hr⟩ := inShape_cons.mp h
      simp only [axesOne_cons, srcIdx, List.zipWith_cons_cons, List.getD_cons_succ]
      exact k_at ns is t dflt hr (by simpa using ht)

theorem negIdx_at : ∀ (shape idx : List Nat) (t : Nat), inShape shape idx = true → t < shape.length →
    (negIdx (shape.map (fun _ => true)) shape idx).getD t 0 = negPos (shape.getD t 0) (idx.getD t 0) ∧
      idx.getD t 0 < shape.getD t 0
  | [], _, _, _, ht => by simp at ht
  | _ :: _, [], _, h, _ => by simp [inShape] at h
  | n :: ns, i :: is, 0, h, _ => by
      obtain ⟨hi, _⟩ := inShape_cons.mp h
      simp [negIdx, hi]
  | n :: ns, i :: is, t + 1, h, ht => by
      obtain ⟨_, hr⟩ := inShape_cons.mp h
      simp only [List.map_cons, negIdx, if_true, List.getD_cons_succ]
      exact negIdx_at ns is t hr (by simpa using ht)

theorem wedgeVal_neg (L : SignLaws o) (start stop big : α) (kt ko : Int) :
    wedgeVal o start stop big (-kt) (-ko) = wedgeVal o start stop big kt ko := by
  unfold wedgeVal
  by_cases h : ko = 0
  · subst h; simp
  · have : ¬ (-ko = 0) := by omega
    simp only [h, this, if_false, L.div_neg_neg]

theorem contWedge_getD (a : WArgs α) (idx : List Nat) (d : α) (hrrf : a.rrf = false)
    (h : inShape a.shape idx = true) :
    (contWedge o a).getD idx d = wedgeCentred o a (srcIdx (axesOne a.shape) idx) := by
  unfold contWedge
  simp only [hrrf, Bool.false_eq_true, if_false]
  rw [shiftFourier_getD _ _ _ _ _ h]
  have hn := axesOne_n a.shape
  have h2 : inShape a.shape (srcIdx (axesOne a.shape) idx) = true := by
    have := inShape_srcIdx (axesOne a.shape) idx (by rw [hn]; exact h)
    rwa [hn] at this
  exact Arr.getD_ofFn _ _ _ _ h2

/-- the continuous wedge is symmetric under frequency negation at every frequency whose
opening-axis and tilt-axis components are not the Nyquist term of an even extent (there the signed
ratio `k_tilt / k_opening` is well defined up to the common sign) -/
theorem contWedge_neg_symm_offNyquist (L : SignLaws o) (a : WArgs α) (idx : List Nat) (d : α)
    (hrrf : a.rrf = false) (h : inShape a.shape idx = true)
    (hto : a.tilt < a.shape.length) (hop : a.opening < a.shape.length)
    (hnt : 2 * idx.getD a.tilt 0 ≠ a.shape.getD a.tilt 0)
    (hno : 2 * idx.getD a.opening 0 ≠ a.shape.getD a.opening 0) :
    (contWedge o a).getD (negIdx (a.shape.map (fun _ => true)) a.shape idx) d = (contWedge o a).getD idx d := by
  have hn := axesOne_n a.shape
  have h' : inShape ((axesOne a.shape).map Ax.n) idx = true := by rw [hn]; exact h
  have hf := flagsOk_one_all_true a.shape
  have hneg : inShape a.shape (negIdx (a.shape.map (fun _ => true)) a.shape idx) = true := by
    have := inShape_negIdx (axesOne a.shape) _ idx h' hf
    rwa [hn] at this
  rw [contWedge_getD o a _ d hrrf hneg, contWedge_getD o a idx d hrrf h]
  unfold wedgeCentred
  simp only
  have hrad := radial_neg o L (axesOne a.shape) _ idx h' hf
  rw [hn] at hrad
  rw [hrad]
  have kt := k_at a.shape _ a.tilt ⟨1, false, 1⟩ hneg hto
  have ko := k_at a.shape _ a.opening ⟨1, false, 1⟩ hneg hop
  obtain ⟨nt, lt⟩ := negIdx_at a.shape idx a.tilt h hto
  obtain ⟨no, lo⟩ := negIdx_at a.shape idx a.opening h hop
  rw [nt, freqIndex_negPos_exact _ _ lt hnt] at kt
  rw [no, freqIndex_negPos_exact _ _ lo hno] at ko
  rw [kt, ko, wedgeVal_neg o L, ← k_at a.shape idx a.tilt ⟨1, false, 1⟩ h hto,
    ← k_at a.shape idx a.opening ⟨1, false, 1⟩ h hop]

end

/-- today's continuous wedge is *not* symmetric on the Nyquist row of an even extent when the two
tilt limits differ and no frequency cut-off ≤ Nyquist removes that row (exact arithmetic, 4×4,
start = tan(90°-45°) = 1, stop = -1/2): position (2,1) and its negative (2,3) disagree -/
theorem contWedge_nyquist_current_defect :
    let a : WArgs Rat := ⟨[4, 4], 1, -1/2, 100, 0, 1, none, false⟩
    (contWedge ratOps a).getD [2, 1] 7 ≠ (contWedge ratOps a).getD (negIdx [true, true] [4, 4] [2, 1]) 7 := by
  decide +kernel

/-! ## statelessness -/

/-- `__call__` leaves the object's attributes untouched -/
theorem call_state_unchanged (cfg kw : Kw) : (callCopy cfg kw).1 = cfg := rfl

theorem kwLookup_kwSet (k v k' : String) (m : Kw) :
    kwLookup k' (kwSet k v m) = if k = k' then some v else kwLookup k' m := by
  induction m with
  | nil => simp [kwSet, kwLookup]
  | cons p r ih =>
    obtain ⟨a, b⟩ := p
    unfold kwSet
    by_cases h : a = k
    · subst h; simp only [if_true, kwLookup]
      by_cases h2 : a = k' <;> simp [h2]
    · simp only [h, if_false, kwLookup, ih]
      by_cases h2 : a = k'
      · subst h2; simp [Ne.symm h]
      · simp [h2]

/-- the effective arguments are the constructor's, overridden by the call's (last one wins) -/
theorem call_effective (cfg kw : Kw) (k : String) :
    kwLookup k (callCopy cfg kw).2 = (kwLookup k kw.reverse).orElse (fun _ => kwLookup k cfg) := by
  show kwLookup k (kwUpdate cfg kw) = _
  induction kw generalizing cfg with
  | nil => simp [kwUpdate, kwLookup]
  | cons p r ih =>
    obtain ⟨a, b⟩ := p
    simp only [kwUpdate, ih, kwLookup_kwSet]
    have hrev : ∀ (l : Kw), kwLookup k (l ++ [(a, b)]) = (kwLookup k l).orElse (fun _ => if a = k then some b else none) := by
      intro l; induction l with
      | nil => simp [kwLookup]
      | cons q t iht => obtain ⟨x, y⟩ := q; simp only [List.cons_append, kwLookup, iht]; split <;> simp
    rw [List.reverse_cons, hrev]
    cases kwLookup k r.reverse <;> simp
    split <;> simp

/-- any history of calls: the state never changes and every call sees `ctor ∪ its own kwargs` only -/
theorem runCalls_copy (cfg : Kw) (hist : List Kw) :
    runCalls callCopy cfg hist = (cfg, hist.map (kwUpdate cfg)) := by
  induction hist with
  | nil => rfl
  | cons kw rest ih => simp [runCalls, callCopy, ih]

/-- the result of a call (any function `F` of the effective arguments) after an arbitrary history
equals the result of the same call on a fresh object -/
theorem history_independent {β : Type} (F : Kw → β) (cfg : Kw) (hist : List Kw) (kw : Kw) :
    ((runCalls callCopy cfg (hist ++ [kw])).2.map F).getLast? = some (F (callCopy cfg kw).2) := by
  rw [runCalls_copy]; simp [callCopy]

/-- the pre-fix `BandPassFilter.__call__` (`vars(self).update(kwargs)`) violates it: after a call
with `return_real_fourier=True` the next call without it still sees `True` -/
theorem callLeaky_current_defect :
    let cfg : Kw := [("lowpass", "4"), ("return_real_fourier", "False")]
    let hist : List Kw := [[("shape", "(8, 8)"), ("return_real_fourier", "True")], [("shape", "(8, 8)")]]
    (runCalls callLeaky cfg hist).1 ≠ cfg ∧
    (runCalls callLeaky cfg hist).2.getLast? ≠ some (callCopy cfg [("shape", "(8, 8)")]).2 := by
  decide

/-! ## composition -/

section
variable {α : Type} [CommMonoid α]

theorem composeLoop_product (n : Nat) :
    ∀ (ts : List (Transform α)) (parts : List (List α)) (kw : Kw) (dkw : Option (List α)) (m : Ret α)
      (acc : List α) (done : List (List α)),
      List.Forall₂ (fun t p => ∀ kw d, (t kw d).data = some p ∧ (t kw d).mult = true) ts parts →
      (∀ p ∈ parts, p.length = n) → m.data = some acc → acc.length = n →
      (∀ i, i < n → acc.getD i 1 = (done.map (fun p => p.getD i 1)).prod) →
      ∃ out, (composeLoop (· * ·) ts kw dkw m).data = some out ∧ out.length = n ∧
        ∀ i, i < n → out.getD i 1 = ((done ++ parts).map (fun p => p.getD i 1)).prod
  | [], [], _, _, m, acc, done, _, _, hm, hl, hacc => by
      exact ⟨acc, by simp [composeLoop, hm], hl, by simpa using hacc⟩
  | [], _ :: _, _, _, _, _, _, h, _, _, _, _ => by cases h
  | _ :: _, [], _, _, _, _, _, h, _, _, _, _ => by cases h
  | t :: ts, p :: ps, kw, dkw, m, acc, done, h, hlen, hm, hl, hacc => by
      cases h with
      | cons htp hrest =>
        have hp := hlen p List.mem_cons_self
        unfold composeLoop
        simp only [hm]
        obtain ⟨hd, hmul⟩ := htp (kwUpdate kw m.info) (some acc)
        simp only [hd, hmul, if_true]
        have := composeLoop_product n ts ps (kwUpdate kw m.info) (some acc)
          ⟨some (List.zipWith (· * ·) p acc), true, (t (kwUpdate kw m.info) (some acc)).info⟩
          (List.zipWith (· * ·) p acc) (done ++ [p]) hrest
          (fun q hq => hlen q (List.mem_cons_of_mem _ hq)) rfl (by simp [hp, hl])
          (by
            intro i hi
            have h1 : (List.zipWith (· * ·) p acc).getD i 1 = p.getD i 1 * acc.getD i 1 := by
              have hi1 : i < p.length := by omega
              have hi2 : i < acc.length := by omega
              simp [List.getD_eq_getElem?_getD, hi1, hi2]
            rw [h1, hacc i hi, List.map_append, List.prod_append]
            simp [mul_comm])
        simpa [List.append_assoc] using this

/-- a composition of multiplicative filters (each returning its own mask, whatever keyword
arguments `Compose` forwards to it) is, voxel by voxel, the product of the parts -/
theorem compose_eq_product (n : Nat) (ts : List (Transform α)) (parts : List (List α)) (kw : Kw)
    (dkw : Option (List α)) (hne : ts ≠ [])
    (h : List.Forall₂ (fun t p => ∀ kw d, (t kw d).data = some p ∧ (t kw d).mult = true) ts parts)
    (hlen : ∀ p ∈ parts, p.length = n) :
    ∃ r out, compose (· * ·) ts kw dkw = some r ∧ r.data = some out ∧ out.length = n ∧
      ∀ i, i < n → out.getD i 1 = (parts.map (fun p => p.getD i 1)).prod := by
  cases h with
  | nil => exact absurd rfl hne
  | @cons t p ts' ps htp hrest =>
    obtain ⟨hd, _⟩ := htp kw dkw
    have hp := hlen p List.mem_cons_self
    obtain ⟨out, ho, hol, hov⟩ := composeLoop_product n ts' ps kw dkw (t kw dkw) p [p] hrest
      (fun q hq => hlen q (List.mem_cons_of_mem _ hq)) hd hp (by intro i _; simp)
    exact ⟨_, out, rfl, ho, hol, by simpa using hov⟩

/-- … and that product does not depend on the order of the filters -/
theorem product_perm (parts parts' : List (List α)) (hp : parts.Perm parts') (i : Nat) :
    (parts.map (fun p => p.getD i 1)).prod = (parts'.map (fun p => p.getD i 1)).prod :=
  (hp.map _).prod_eq

end

/-! ## non-vacuity -/

example : freqIndex 8 4 = -4 ∧ freqIndex 8 5 = -3 ∧ freqIndex 7 3 = 3 ∧ freqIndex 7 4 = -3 := by decide
example : negPos 8 4 = 4 ∧ negPos 8 0 = 0 ∧ negPos 7 3 = 4 := by decide
example : (List.range 6).map (shiftSrc 6) = [3, 4, 5, 0, 1, 2] ∧ (List.range 5).map (shiftSrc 5) = [2, 3, 4, 0, 1] := by decide
example : cropShape [6, 7, 8] = [6, 7, 5] ∧ cropShape [8, 7] = [8, 4] ∧ fourierShape [8, 5] true = [8, 5] := by decide
example : SignLaws ratOps ∧ ZeroLaws ratOps := ⟨ratOps_signLaws, ratOps_zeroLaws⟩
example : flagsOk (axesHalf [4, 3] true) [true, false] = true ∧ flagsOk (axesHalf [4, 3] true) [true, true] = false := by decide

/-- a 4×4 hard low-pass at cut-off 1/2 (lowpass = 4 voxels, sampling rate 1), evaluated exactly
(`ratOps.sqrt` is the identity, so the pass region is `r² ≤ 1/2`) -/
def exBP : BPArgs Rat := ⟨[4, 4], some 4, none, [1], false, false, false⟩
example : (bandpass ratOps exBP).toList = [1, 1, 0, 1, 1, 1, 0, 1, 0, 0, 0, 0, 1, 1, 0, 1] := by decide +kernel
example : (bandpass ratOps { exBP with rrf := true }).toList = [1, 1, 0, 1, 1, 0, 0, 0, 0, 1, 1, 0] := by decide +kernel
example : (bandpass ratOps { exBP with shape := [4, 3], sirf := true }).toList = [1, 1, 0, 1, 1, 0, 0, 0, 0, 1, 1, 0] := by
  decide +kernel
example : (bandpass ratOps { exBP with lowpass := none, highpass := some 8 }).getD [0, 0] 7 = 0 := by decide +kernel
example : ∀ c, exBP.lowpass.map (cutOf ratOps exBP.srs) = some c → ratOps.le ratOps.zero c = true := by
  intro c h
  have : c = 1 / 2 := by
    have h2 : exBP.lowpass.map (cutOf ratOps exBP.srs) = some (1 / 2) := by decide +kernel
    rw [h2] at h; exact (Option.some.inj h).symm
  subst this; decide +kernel
example : (contWedge ratOps ⟨[4, 4], 1, -1/2, 100, 0, 1, some (1/4), false⟩).toList =
    [1, 1, 1, 1, 0, 1, 0, 1, 0, 0, 0, 0, 0, 1, 0, 1] := by decide +kernel
example : runCalls callCopy [("a", "1")] [[("a", "2"), ("b", "3")], [("c", "4")]] =
    ([("a", "1")], [[("a", "2"), ("b", "3")], [("a", "1"), ("c", "4")]]) := by decide
example : (compose (· * ·) [fun _ _ => ⟨some [2, 3], true, []⟩, fun _ _ => ⟨some [5, 7], true, [("shape", "x")]⟩]
    [] none).bind (·.data) = some [10, 21] := by decide


/-! # second part: masks whose decision logic was not in the model before -/

section
variable {α : Type} (o : Ops α)

/-! ## radial masks over arbitrary axes -/

theorem radialMask_eq_ax (shape : List Nat) (sirf rrf : Bool) (val : α → α) :
    radialMask o shape sirf rrf val = radialMaskAx o shape (axesHalf shape sirf) (rrf && !sirf) val := rfl

theorem radialMaskAx_shape (shape : List Nat) (axs : List Ax) (crop : Bool) (val : α → α) :
    (radialMaskAx o shape axs crop val).shape = if crop then cropShape shape else shape := by
  unfold radialMaskAx
  cases crop <;> simp [cropRealFourier, shiftFourier, Arr.ofFn]

theorem radialMaskAx_getD (shape : List Nat) (axs : List Ax) (val : α → α) (idx : List Nat) (d : α)
    (hn : axs.map Ax.n = shape) (h : inShape shape idx = true) :
    (radialMaskAx o shape axs false val).getD idx d = val (radial o axs (srcIdx axs idx)) := by
  unfold radialMaskAx
  simp only [Bool.false_eq_true, if_false]
  rw [shiftFourier_getD _ _ _ _ _ h]
  have h2 : inShape shape (srcIdx axs idx) = true := by
    have := inShape_srcIdx axs idx (by rw [hn]; exact h)
    rwa [hn] at this
  rw [Arr.getD_ofFn _ _ _ _ h2]

theorem radialMaskAx_half_is_part_of_full (shape : List Nat) (axs : List Ax) (val : α → α) (idx : List Nat) (d : α)
    (h : inShape (cropShape shape) idx = true) :
    (radialMaskAx o shape axs true val).getD idx d = (radialMaskAx o shape axs false val).getD idx o.zero := by
  unfold radialMaskAx
  simp only [if_true, Bool.false_eq_true, if_false]
  unfold cropRealFourier
  exact Arr.getD_ofFn _ _ _ _ h

theorem radialMaskAx_neg_symm (L : SignLaws o) (shape : List Nat) (axs : List Ax) (val : α → α)
    (flags : List Bool) (idx : List Nat) (d : α) (hn : axs.map Ax.n = shape)
    (h : inShape shape idx = true) (hf : flagsOk axs flags = true) :
    (radialMaskAx o shape axs false val).getD (negIdx flags shape idx) d =
      (radialMaskAx o shape axs false val).getD idx d := by
  have h' : inShape (axs.map Ax.n) idx = true := by rw [hn]; exact h
  have hneg : inShape shape (negIdx flags shape idx) = true := by
    have := inShape_negIdx axs flags idx h' hf
    rwa [hn] at this
  rw [radialMaskAx_getD o shape axs val _ d hn hneg, radialMaskAx_getD o shape axs val _ d hn h]
  have := radial_neg o L axs flags idx h' hf
  rw [hn] at this
  rw [this]

/-- `CTF` of one untilted, non-astigmatic image (any function of the spatial frequency on the
`sampling_rate = 1` grid): shape asked for -/
theorem radialMaskOne_shape (shape : List Nat) (rrf : Bool) (val : α → α) :
    (radialMaskOne o shape rrf val).shape = if rrf then cropShape shape else shape :=
  radialMaskAx_shape o shape _ rrf val

theorem radialMaskOne_half_is_part_of_full (shape : List Nat) (val : α → α) (idx : List Nat) (d : α)
    (h : inShape (cropShape shape) idx = true) :
    (radialMaskOne o shape true val).getD idx d = (radialMaskOne o shape false val).getD idx o.zero :=
  radialMaskAx_half_is_part_of_full o shape _ val idx d h

/-- … even in every frequency component: invariant under negating the frequency on any subset of axes -/
theorem radialMaskOne_neg_symm (L : SignLaws o) (shape : List Nat) (val : α → α) (flags : List Bool)
    (idx : List Nat) (d : α) (h : inShape shape idx = true) (hf : flagsOk (axesOne shape) flags = true) :
    (radialMaskOne o shape false val).getD (negIdx flags shape idx) d = (radialMaskOne o shape false val).getD idx d :=
  radialMaskAx_neg_symm o L shape _ val flags idx d (axesOne_n shape) h hf

end

/-! ## whitening: radial bins -/

theorem nBins_le_maxBins (s : List Nat) (req : Option Nat) : nBins s req ≤ maxBins s := by
  unfold nBins; cases req with
  | none => exact Nat.le_refl _
  | some n => exact Nat.min_le_right _ _

theorem nBins_le_requested (s : List Nat) (n : Nat) : nBins s (some n) ≤ n := Nat.min_le_left _ _

theorem maxBins_pos (s : List Nat) : 1 ≤ maxBins s := by
  unfold maxBins; omega

/-- there is a bin for the Nyquist index of every leading axis and for every index of the last axis -/
theorem maxBins_covers_axes (s : List Nat) :
    (∀ n ∈ s.dropLast, n / 2 + 1 ≤ maxBins s) ∧ s.getLastD 0 ≤ maxBins s := by
  unfold maxBins
  refine ⟨fun n hn => ?_, by omega⟩
  have := (foldl_max_ge s.dropLast 0).2 n hn
  have h2 : n / 2 ≤ List.foldl max 0 s.dropLast / 2 := Nat.div_le_div_right this
  omega

/-- every voxel is counted in exactly one radial average, or in none when its label lies beyond the
last bin (the implicit low-pass of `ndimage.mean(..., index=arange(n_bins))`) -/
theorem bin_unique (b nb : Nat) : (List.range nb).count b = if b < nb then 1 else 0 := by
  split
  · rename_i h
    exact List.count_eq_one_of_mem List.nodup_range (List.mem_range.mpr h)
  · rename_i h
    exact List.count_eq_zero_of_not_mem (by simpa using h)

section
variable {α : Type} (o : Ops α)

theorem binsArr_shape (s : List Nat) (nb : Nat) : (binsArr o s nb).shape = s := rfl

theorem binsArr_getD (s : List Nat) (nb : Nat) (idx : List Nat) (d : Nat) (h : inShape s idx = true) :
    (binsArr o s nb).getD idx d = binCentred o s nb idx := Arr.getD_ofFn _ _ _ _ h

/-- the label of a voxel of `data_rfft` is the entry of `bins` at its `fftshift`-ed position -/
theorem binOfVoxel_eq_bins (s : List Nat) (nb : Nat) (idx : List Nat) (d : Nat) (h : inShape s idx = true) :
    binOfVoxel o s nb idx = (binsArr o s nb).getD (srcIdx (axesHalf s true) idx) d := by
  have hn := axesHalf_n s true
  have h2 : inShape s (srcIdx (axesHalf s true) idx) = true := by
    have := inShape_srcIdx (axesHalf s true) idx (by rw [hn]; exact h)
    rwa [hn] at this
  rw [binsArr_getD o s nb _ d h2]; rfl

/-- bins are symmetric under frequency negation on the two-sided (leading) axes: a voxel and its
mirror image contribute to the same radial average -/
theorem binOfVoxel_neg_symm (L : SignLaws o) (s : List Nat) (nb : Nat) (flags : List Bool) (idx : List Nat)
    (h : inShape s idx = true) (hf : flagsOk (axesHalf s true) flags = true) :
    binOfVoxel o s nb (negIdx flags s idx) = binOfVoxel o s nb idx := by
  have hn := axesHalf_n s true
  have h' : inShape ((axesHalf s true).map Ax.n) idx = true := by rw [hn]; exact h
  have := radial_neg o L (axesHalf s true) flags idx h' hf
  rw [hn] at this
  unfold binOfVoxel binCentred
  rw [this]

/-- the zero frequency is labelled 0 (`floor(0 * (n_bins - 1) + 0.5) = 0`) -/
theorem binOfVoxel_dc (Z : ZeroLaws o) (s : List Nat) (nb : Nat) (hpos : ∀ n ∈ s, 2 ≤ n)
    (hfl : o.floorNat (o.add (o.mul o.zero (o.ofNat (nb - 1))) (half o)) = 0) :
    binOfVoxel o s nb (s.map (fun _ => 0)) = 0 := by
  unfold binOfVoxel binCentred binOf
  rw [radial_dc o Z s true hpos]; exact hfl

/-! ### `order=None`: the mask is the radial average of the voxel's own bin -/

theorem whitenNone_shape (spec : Array α) (s : List Nat) (nb : Nat) : (whitenNone o spec s nb).shape = s := by
  unfold whitenNone; rw [radialMask_shape]; simp

theorem whitenNone_getD (spec : Array α) (s : List Nat) (nb : Nat) (idx : List Nat) (d : α)
    (h : inShape s idx = true) :
    (whitenNone o spec s nb).getD idx d =
      if binOfVoxel o s nb idx < spec.size then spec.getD (binOfVoxel o s nb idx) o.zero else o.zero := by
  unfold whitenNone
  rw [radialMask_getD o s true false _ idx d (by simp) h]
  rfl

/-- every voxel of the mask is one of the radial averages, or zero beyond the last bin -/
theorem whitenNone_value_mem (spec : Array α) (s : List Nat) (nb : Nat) (idx : List Nat) (d : α)
    (h : inShape s idx = true) :
    (whitenNone o spec s nb).getD idx d = o.zero ∨
      ∃ b, b < spec.size ∧ (whitenNone o spec s nb).getD idx d = spec.getD b o.zero := by
  rw [whitenNone_getD o spec s nb idx d h]
  by_cases hb : binOfVoxel o s nb idx < spec.size
  · exact Or.inr ⟨_, hb, by simp only [hb, if_true]⟩
  · exact Or.inl (by simp only [hb, if_false])

theorem whitenNone_reflect_symm (L : SignLaws o) (spec : Array α) (s : List Nat) (nb : Nat)
    (flags : List Bool) (idx : List Nat) (d : α) (h : inShape s idx = true)
    (hf : flagsOk (axesHalf s true) flags = true) :
    (whitenNone o spec s nb).getD (negIdx flags s idx) d = (whitenNone o spec s nb).getD idx d := by
  unfold whitenNone
  exact radialMask_neg_symm o L _ _ _ _ _ _ _ (by simp) h hf

end

example : maxBins [9, 5] = 5 ∧ maxBins [6, 8, 3] = 5 ∧ nBins [9, 5] (some 3) = 3 ∧ nBins [9, 5] (some 1000) = 5 ∧ nBins [9, 5] none = 5 := by decide
example : (List.range 5).count 3 = 1 ∧ (List.range 5).count 7 = 0 := by decide
example : (binsArr ratOps [4, 3] 3).toList = [2, 3, 4, 1, 1, 3, 0, 1, 2, 1, 1, 3] := by decide +kernel
example : (allIdx [4, 3]).map (binOfVoxel ratOps [4, 3] 3) = [0, 1, 2, 1, 1, 3, 2, 3, 4, 1, 1, 3] := by decide +kernel
example : ratOps.floorNat (ratOps.add (ratOps.mul ratOps.zero (ratOps.ofNat (3 - 1))) (half ratOps)) = 0 := by decide +kernel
example : (whitenNone ratOps #[1, 1/2, 1/4] [4, 3] 3).toList = [1, 1/2, 1/4, 1/2, 1/2, 0, 1/4, 0, 0, 1/2, 1/2, 0] := by decide +kernel


/-! ## per-tilt (step) wedge and the common tail -/

/-- the rotated plane always has an odd tilt extent … -/
theorem planeShape_odd (s : List Nat) (op t : Nat) : (planeShape s op t).getD 1 0 % 2 = 1 := by
  simp only [planeShape, List.getD_cons_succ, List.getD_cons_zero]; omega

/-- … so `centered` crops nothing at the front (`_center_slice` start offsets are 0 on both axes) -/
theorem planeShape_crop_start (s : List Nat) (op t : Nat) :
    ((planeShape s op t).getD 0 0 - s.getD op 0) / 2 = 0 ∧ ((planeShape s op t).getD 1 0 - s.getD t 0) / 2 = 0 := by
  simp only [planeShape, List.getD_cons_succ, List.getD_cons_zero]; omega

theorem planeRow_lt (s : List Nat) (op t : Nat) (h : 0 < s.getD op 0) :
    planeRow s op < (planeShape s op t).getD 0 0 := by
  simp only [planeShape, planeRow, List.getD_cons_zero]; omega

section
variable {α : Type} (o : Ops α)

theorem transpose2_getD (p : Arr α) (m n a b : Nat) (d : α) (hp : p.shape = [m, n]) :
    (transpose2 p d).getD [a, b] d = p.getD [b, a] d := by
  unfold transpose2
  simp only [hp, List.getD_cons_zero, List.getD_cons_succ]
  by_cases h : inShape [n, m] [a, b] = true
  · rw [Arr.getD_ofFn _ _ _ _ h]; simp
  · rw [Arr.getD_ofFn_out _ _ _ _ (by simpa using h)]
    have : inShape p.shape [b, a] = false := by
      rw [hp]; simp only [inShape, Bool.and_true] at h ⊢
      simp only [Bool.and_eq_true, decide_eq_true_eq, not_and] at h
      simp only [Bool.and_eq_false_iff, decide_eq_false_iff_not]
      omega
    unfold Arr.getD; simp [this]

theorem tilePlane_shape (p : Arr α) (s : List Nat) (op t : Nat) (d : α) : (tilePlane p s op t d).shape = s := by
  unfold tilePlane; rfl

/-- `moveaxis` / `reshape` / `tile` of `step_wedge`: the voxel `idx` of the volume is the plane at
`(idx[opening], idx[tilt])`, whichever of the two axes comes first -/
theorem tilePlane_getD (p : Arr α) (s : List Nat) (op t m n : Nat) (d d' : α) (idx : List Nat)
    (hp : p.shape = [m, n]) (h : inShape s idx = true) :
    (tilePlane p s op t d).getD idx d' = p.getD [idx.getD op 0, idx.getD t 0] d := by
  unfold tilePlane
  rw [Arr.getD_ofFn _ _ _ _ h]
  by_cases hto : t < op
  · simp only [hto, if_true]
    rw [Nat.min_eq_right (Nat.le_of_lt hto), Nat.max_eq_left (Nat.le_of_lt hto)]
    exact transpose2_getD p m n _ _ d hp
  · simp only [hto, if_false]
    rw [Nat.min_eq_left (by omega), Nat.max_eq_right (by omega)]

/-- a per-tilt wedge volume is constant along the axes that are neither opening nor tilt axis -/
theorem tilePlane_const_off_axes (p : Arr α) (s : List Nat) (op t m n : Nat) (d d' : α) (idx idx' : List Nat)
    (hp : p.shape = [m, n]) (h : inShape s idx = true) (h' : inShape s idx' = true)
    (ho : idx.getD op 0 = idx'.getD op 0) (ht : idx.getD t 0 = idx'.getD t 0) :
    (tilePlane p s op t d).getD idx d' = (tilePlane p s op t d).getD idx' d' := by
  rw [tilePlane_getD p s op t m n d d' idx hp h, tilePlane_getD p s op t m n d d' idx' hp h', ho, ht]

/-- what `step_wedge` returns, voxel by voxel: the accumulated plane, clipped to the largest weight -/
theorem stepVolume_getD (plane : Arr α) (s : List Nat) (op t : Nat) (wmax d' : α) (idx : List Nat)
    (hp : plane.shape = planeShape s op t) (h : inShape s idx = true)
    (hio : idx.getD op 0 < s.getD op 0) (hit : idx.getD t 0 < s.getD t 0) :
    (stepVolume o plane s op t wmax).getD idx d' =
      fmin o (plane.getD [idx.getD op 0, idx.getD t 0] o.zero) wmax := by
  unfold stepVolume
  rw [tilePlane_getD _ s op t (s.getD op 0) (s.getD t 0) o.zero d' idx (by unfold cropPlane; rfl) h]
  unfold cropPlane
  have hin : inShape [s.getD op 0, s.getD t 0] [idx.getD op 0, idx.getD t 0] = true := by
    simp only [inShape, Bool.and_true, Bool.and_eq_true, decide_eq_true_eq]
    exact ⟨hio, hit⟩
  rw [Arr.getD_ofFn _ _ _ _ hin]
  have := planeShape_crop_start s op t
  simp only [hp, List.getD_cons_zero, List.getD_cons_succ, this.1, this.2, Nat.add_zero]

theorem wedgeTail_shape (vol : Arr α) (a : WTail α) :
    (wedgeTail o vol a).shape = if a.rrf then cropShape a.shape else a.shape := by
  unfold wedgeTail
  cases h : a.rrf <;> simp [cropRealFourier, shiftFourier, Arr.ofFn]

theorem wedgeTail_half_is_part_of_full (vol : Arr α) (a : WTail α) (idx : List Nat) (d : α)
    (h : inShape (cropShape a.shape) idx = true) :
    (wedgeTail o vol { a with rrf := true }).getD idx d = (wedgeTail o vol { a with rrf := false }).getD idx o.zero := by
  unfold wedgeTail
  simp only [if_true, Bool.false_eq_true, if_false]
  unfold cropRealFourier
  have : (shiftFourier (Arr.ofFn a.shape (tailCentred o vol { a with rrf := true })) (axesOne a.shape) o.zero)
       = (shiftFourier (Arr.ofFn a.shape (tailCentred o vol { a with rrf := false })) (axesOne a.shape) o.zero) := rfl
  rw [this]
  exact Arr.getD_ofFn _ _ _ _ h

theorem wedgeTail_getD (vol : Arr α) (a : WTail α) (idx : List Nat) (d : α) (hrrf : a.rrf = false)
    (h : inShape a.shape idx = true) :
    (wedgeTail o vol a).getD idx d = tailCentred o vol a (srcIdx (axesOne a.shape) idx) := by
  unfold wedgeTail
  simp only [hrrf, Bool.false_eq_true, if_false]
  rw [shiftFourier_getD _ _ _ _ _ h]
  have hn := axesOne_n a.shape
  have h2 : inShape a.shape (srcIdx (axesOne a.shape) idx) = true := by
    have := inShape_srcIdx (axesOne a.shape) idx (by rw [hn]; exact h)
    rwa [hn] at this
  exact Arr.getD_ofFn _ _ _ _ h2

/-- an unweighted wedge (step or continuous) is 0/1-valued -/
theorem wedgeTail_in_01 (vol : Arr α) (a : WTail α) (hw : a.weightWedge = false) (idx : List Nat) :
    tailCentred o vol a idx = o.zero ∨ tailCentred o vol a idx = o.one := by
  unfold tailCentred
  simp only [hw, Bool.false_eq_true, if_false]
  exact ite_in_pair _ _ _

/-- a weighted wedge voxel is the volume's value, kept (`· * 1`) or removed (`· * 0`) by the cut-off -/
theorem wedgeTail_weighted_values (vol : Arr α) (a : WTail α) (hw : a.weightWedge = true) (idx : List Nat) :
    tailCentred o vol a idx = vol.getD idx o.zero ∨
    tailCentred o vol a idx = o.mul (vol.getD idx o.zero) o.one ∨
    tailCentred o vol a idx = o.mul (vol.getD idx o.zero) o.zero := by
  unfold tailCentred
  simp only [hw, if_true]
  cases a.cutoff with
  | none => exact Or.inl rfl
  | some c =>
    simp only
    by_cases hc : o.le (radial o (axesOne a.shape) idx) c = true
    · simp [hc]
    · simp [hc]

/-- the tail keeps whatever negation symmetry the centred volume has (the cut-off is radial) -/
theorem wedgeTail_neg_symm (L : SignLaws o) (vol : Arr α) (a : WTail α) (flags : List Bool) (idx : List Nat) (d : α)
    (hrrf : a.rrf = false) (h : inShape a.shape idx = true) (hf : flagsOk (axesOne a.shape) flags = true)
    (hvol : vol.getD (srcIdx (axesOne a.shape) (negIdx flags a.shape idx)) o.zero =
            vol.getD (srcIdx (axesOne a.shape) idx) o.zero) :
    (wedgeTail o vol a).getD (negIdx flags a.shape idx) d = (wedgeTail o vol a).getD idx d := by
  have hn := axesOne_n a.shape
  have h' : inShape ((axesOne a.shape).map Ax.n) idx = true := by rw [hn]; exact h
  have hneg : inShape a.shape (negIdx flags a.shape idx) = true := by
    have := inShape_negIdx (axesOne a.shape) flags idx h' hf
    rwa [hn] at this
  rw [wedgeTail_getD o vol a _ d hrrf hneg, wedgeTail_getD o vol a idx d hrrf h]
  have hrad := radial_neg o L (axesOne a.shape) flags idx h' hf
  rw [hn] at hrad
  unfold tailCentred
  simp only [hvol, hrad]

/-- a per-tilt (step) wedge, weighted or not, with or without cut-off, is symmetric under frequency
negation on every axis other than the opening and the tilt axis (3-D: the remaining axis) -/
theorem stepWedge_neg_symm_off_axes (L : SignLaws o) (p : Arr α) (a : WTail α) (op t m n : Nat)
    (flags : List Bool) (idx : List Nat) (d : α) (hp : p.shape = [m, n])
    (hrrf : a.rrf = false) (h : inShape a.shape idx = true) (hf : flagsOk (axesOne a.shape) flags = true)
    (hfo : flags.getD op true = false) (hft : flags.getD t true = false) :
    (wedgeTail o (tilePlane p a.shape op t o.zero) a).getD (negIdx flags a.shape idx) d =
      (wedgeTail o (tilePlane p a.shape op t o.zero) a).getD idx d := by
  apply wedgeTail_neg_symm o L _ a flags idx d hrrf h hf
  have hn := axesOne_n a.shape
  have h' : inShape ((axesOne a.shape).map Ax.n) idx = true := by rw [hn]; exact h
  have hneg : inShape ((axesOne a.shape).map Ax.n) (negIdx flags ((axesOne a.shape).map Ax.n) idx) = true :=
    inShape_negIdx (axesOne a.shape) flags idx h' hf
  have s1 := inShape_srcIdx (axesOne a.shape) _ hneg
  have s2 := inShape_srcIdx (axesOne a.shape) idx h'
  have e1 := srcIdx_negIdx_getD (axesOne a.shape) flags idx op h' hf hfo
  have e2 := srcIdx_negIdx_getD (axesOne a.shape) flags idx t h' hf hft
  rw [hn] at s1 s2 e1 e2
  rw [tilePlane_getD p a.shape op t m n o.zero o.zero _ hp s1, tilePlane_getD p a.shape op t m n o.zero o.zero _ hp s2,
    e1, e2]

end

section
variable {α : Type} (o : Ops α)

theorem terms_dc_one (Z : ZeroLaws o) : ∀ (shape : List Nat), (∀ n ∈ shape, 1 ≤ n) →
    ∀ x ∈ List.zipWith (term o) (axesOne shape) (srcIdx (axesOne shape) (shape.map (fun _ => 0))), x = o.zero
  | [], _ => by simp [axesOne, srcIdx]
  | n :: ns, hpos => by
      intro x hx
      simp only [axesOne_cons, srcIdx, List.map_cons, List.zipWith_cons_cons, List.mem_cons] at hx
      have hn := hpos n List.mem_cons_self
      rcases hx with hx | hx
      · subst hx
        rw [term_src o _ 0 (by show 0 < n; omega) rfl]
        simp only [freqIndex_zero n (by omega)]
        rw [Z.zero_div n (by omega), Z.mul_zero]
      · exact terms_dc_one Z ns (fun m hm => hpos m (List.mem_cons_of_mem _ hm)) x (by simpa [srcIdx] using hx)

theorem radial_dc_one (Z : ZeroLaws o) (shape : List Nat) (hpos : ∀ n ∈ shape, 1 ≤ n) :
    radial o (axesOne shape) (srcIdx (axesOne shape) (shape.map (fun _ => 0))) = o.zero := by
  unfold radial radial2
  rw [foldl_add_zero o Z _ (terms_dc_one o Z shape hpos), Z.sqrt_zero]

/-- the continuous wedge keeps the zero frequency: there the opening-axis index is 0, the ratio is
the "infinite" stand-in `tan(90°) + 1`, which lies above the start limit; the cut-off is non-negative -/
theorem contWedge_dc_kept (Z : ZeroLaws o) (a : WArgs α) (d : α) (hrrf : a.rrf = false)
    (hpos : ∀ n ∈ a.shape, 1 ≤ n) (hop : a.opening < a.shape.length)
    (hbig : o.le a.start a.big = true) (hcut : ∀ c, a.cutoff = some c → o.le o.zero c = true) :
    (contWedge o a).getD (a.shape.map (fun _ => 0)) d = o.one := by
  have hin := inShape_zeros1 a.shape hpos
  rw [contWedge_getD o a _ d hrrf hin]
  unfold wedgeCentred
  simp only
  have ko := k_at a.shape _ a.opening ⟨1, false, 1⟩ hin hop
  rw [getD_map_zero] at ko
  have hn : 0 < a.shape.getD a.opening 0 := by
    exact hpos _ (getD_mem a.shape a.opening hop)
  rw [freqIndex_zero _ hn] at ko
  rw [ko, radial_dc_one o Z a.shape hpos]
  unfold wedgeVal
  simp only [if_true, hbig, Bool.true_or, Bool.true_and]
  cases hc : a.cutoff with
  | none => simp
  | some c => simp [hcut c hc]

/-- the fused model of the continuous wedge is the general tail applied to `continuous_wedge` -/
theorem contWedge_eq_tail (T : TailLaws o) (a : WArgs α) :
    contWedge o a = wedgeTail o (contVolume o a) ⟨a.shape, a.cutoff, false, a.rrf⟩ := by
  unfold contWedge wedgeTail
  simp only
  have : Arr.ofFn a.shape (wedgeCentred o a) =
      Arr.ofFn a.shape (tailCentred o (contVolume o a) ⟨a.shape, a.cutoff, false, a.rrf⟩) := by
    apply Arr.ofFn_congr
    intro idx h
    unfold wedgeCentred tailCentred contVolume
    rw [Arr.getD_ofFn _ _ _ _ h]
    simp only [Bool.false_eq_true, if_false]
    cases a.cutoff with
    | none =>
      simp only [Bool.and_true]
      split <;> simp [T.zero_lt_one, T.zero_lt_zero]
    | some c =>
      simp only
      by_cases hw : wedgeVal o a.start a.stop a.big
          (((axesOne a.shape).getD a.tilt ⟨1, false, 1⟩).k (idx.getD a.tilt 0))
          (((axesOne a.shape).getD a.opening ⟨1, false, 1⟩).k (idx.getD a.opening 0)) = true <;>
        by_cases hc : o.le (radial o (axesOne a.shape) idx) c = true <;>
        simp only [hw, hc, Bool.and_true, Bool.and_false, Bool.false_eq_true, if_true, if_false,
          T.one_mul_one, T.one_mul_zero, T.zero_mul_one, T.zero_mul_zero, T.zero_lt_one, T.zero_lt_zero]
  rw [this]

/-! ## tilt-series `Wedge` -/

theorem tiltShape_length (s : List Nat) (op : Nat) (h : op < s.length) : (tiltShape s op).length = s.length - 1 := by
  unfold tiltShape; rw [List.length_eraseIdx]; simp [h]

theorem wedgeStackShape_eq (s : List Nat) (op n : Nat) : wedgeStackShape s op n = n :: s.eraseIdx op := rfl

theorem tiltPlaneZero_shape (ts : List Nat) (w : α) (c : Option α) : (tiltPlaneZero o ts w c).shape = ts := rfl

/-- a `weight_angle` plane holds the tilt's weight, kept or removed by the cut-off -/
theorem tiltPlaneZero_values (ts : List Nat) (w : α) (c : Option α) (idx : List Nat) (d : α)
    (h : inShape ts idx = true) :
    (tiltPlaneZero o ts w c).getD idx d = w ∨ (tiltPlaneZero o ts w c).getD idx d = o.mul w o.one ∨
      (tiltPlaneZero o ts w c).getD idx d = o.mul w o.zero := by
  unfold tiltPlaneZero
  rw [Arr.getD_ofFn _ _ _ _ h]
  cases c with
  | none => exact Or.inl rfl
  | some c =>
    simp only
    by_cases hc : o.le (radial o (axesOne ts) idx) c = true
    · simp [hc]
    · simp [hc]

/-- the plane of an untilted image (centred layout, read through the `fftshift` position of a
DC-first index) is symmetric under frequency negation -/
theorem tiltPlaneZero_neg_symm (L : SignLaws o) (ts : List Nat) (w : α) (c : Option α) (flags : List Bool)
    (idx : List Nat) (d : α) (h : inShape ts idx = true) (hf : flagsOk (axesOne ts) flags = true) :
    (tiltPlaneZero o ts w c).getD (srcIdx (axesOne ts) (negIdx flags ts idx)) d =
      (tiltPlaneZero o ts w c).getD (srcIdx (axesOne ts) idx) d := by
  have hn := axesOne_n ts
  have h' : inShape ((axesOne ts).map Ax.n) idx = true := by rw [hn]; exact h
  have hneg := inShape_negIdx (axesOne ts) flags idx h' hf
  have s1 := inShape_srcIdx (axesOne ts) _ hneg
  have s2 := inShape_srcIdx (axesOne ts) idx h'
  have hrad := radial_neg o L (axesOne ts) flags idx h' hf
  rw [hn] at s1 s2 hrad
  unfold tiltPlaneZero
  rw [Arr.getD_ofFn _ _ _ _ s1, Arr.getD_ofFn _ _ _ _ s2, hrad]

end

/-- exactly the four documented weight types are accepted -/
theorem wedgeWeightFunc_isSome (wt : Option String) :
    (wedgeWeightFunc wt).isSome = (wt == none || wt == some "angle" || wt == some "relion" || wt == some "grigorieff") := by
  cases wt with
  | none => rfl
  | some s =>
    unfold wedgeWeightFunc
    split <;> simp_all

/-! ## `CTF` layout -/

/-- one image: the full or the half spectrum as asked, DC first -/
theorem ctfPlan_single (shape : List Nat) (nSelf : Nat) (rrf : Bool) :
    ctfPlan shape none 1 nSelf 1 rrf = ⟨if rrf then cropShape shape else shape, true, rrf, none⟩ := by
  simp [ctfPlan]

/-- angles that do not match the defoci: the call's `return_real_fourier` and axes are ignored -/
theorem ctfPlan_mismatch (shape : List Nat) (op : Option Nat) (nA nSelf nD : Nat) (rrf : Bool) (h : nA ≠ nD) :
    ctfPlan shape op nA nSelf nD rrf = ctfPlan shape none nSelf nSelf nSelf false := by
  simp [ctfPlan, h]

/-- a tilt stack: one centred plane per tilt, never cropped -/
theorem ctfPlan_stack (shape : List Nat) (oa n nSelf : Nat) (rrf : Bool) (h : n ≠ 1) :
    ctfPlan shape (some oa) n nSelf n rrf = ⟨n :: tiltShape shape oa, false, false, some oa⟩ := by
  simp [ctfPlan, h]

example : ctfPlan [6, 7] none 1 1 1 true = ⟨[6, 4], true, true, none⟩ ∧
    ctfPlan [6, 7, 8] (some 1) 3 3 3 true = ⟨[3, 6, 8], false, false, some 1⟩ ∧
    ctfPlan [6, 7, 8] (some 1) 3 1 1 true = ⟨[6, 7, 8], true, false, none⟩ := by decide
example : wedgeWeightFunc (some "relion") = some "weight_relion" ∧ wedgeWeightFunc (some "Angle") = none := by decide
example : wedgeStackShape [5, 6, 7] 1 4 = [4, 5, 7] ∧ tiltShape [5, 6, 7] 2 = [5, 6] := by decide
example : TailLaws ratOps := ratOps_tailLaws



/-! ## what every filter class hands back to `Compose` -/

theorem kwLookup_none_of_not_mem (k : String) : ∀ (m : Kw), k ∉ m.map Prod.fst → kwLookup k m = none
  | [], _ => rfl
  | (a, b) :: r, h => by
      simp only [List.map_cons, List.mem_cons, not_or] at h
      simp only [kwLookup]
      rw [if_neg (fun e => h.1 e.symm)]
      exact kwLookup_none_of_not_mem k r h.2

theorem mem_reverse_fst (k : String) (m : Kw) : k ∈ m.reverse.map Prod.fst ↔ k ∈ m.map Prod.fst := by
  simp

/-- `kwargs.update(meta)`: a key the previous filter did not return reaches the next filter with the
caller's value -/
theorem compose_keeps_unemitted_key (kw info : Kw) (k : String) (h : k ∉ info.map Prod.fst) :
    kwLookup k (kwUpdate kw info) = kwLookup k kw := by
  have := call_effective kw info k
  simp only [callCopy] at this
  rw [this, kwLookup_none_of_not_mem k info.reverse (by rwa [mem_reverse_fst])]
  rfl

/-- … and a key it did return reaches it with the previous filter's value, whatever the caller said -/
theorem compose_overrides_emitted_key (kw info : Kw) (k v : String) (h : kwLookup k info.reverse = some v) :
    kwLookup k (kwUpdate kw info) = some v := by
  have := call_effective kw info k
  simp only [callCopy] at this
  rw [this, h]; rfl

/-- no filter hands `return_real_fourier` (nor `data_rfft`, `batch_dimension`) on: every member of a
composition sees the caller's value -/
theorem rrf_never_emitted (c : Cls) :
    "return_real_fourier" ∉ emits c ∧ "data_rfft" ∉ emits c ∧ "batch_dimension" ∉ emits c := by
  cases c <;> decide

/-- only the reconstructed wedge and the tilt reconstruction change the `shape` /
`shape_is_real_fourier` seen by later filters -/
theorem shape_emitted_iff (c : Cls) :
    ("shape" ∈ emits c ↔ c = .wedgeRec ∨ c = .reconstruct) ∧
    ("shape_is_real_fourier" ∈ emits c ↔ c = .wedgeRec ∨ c = .reconstruct) := by
  cases c <;> decide

/-- every class but the tilt reconstruction is multiplicative, and says so -/
theorem multFlag_iff (c : Cls) :
    (multFlag c = true ↔ c ≠ .reconstruct) ∧ "is_multiplicative_filter" ∈ emits c := by
  cases c <;> decide

/-- the filters that may follow a reconstructed wedge in a composition (they honour the half-spectrum
shape it hands on; see `rfshape_eq_crop`) -/
theorem readsSirf_iff (c : Cls) : readsSirf c = true ↔ c = .bandpass ∨ c = .whitening := by
  cases c <;> decide

example : kwLookup "shape" (kwUpdate [("shape", "(8, 8)"), ("return_real_fourier", "True")]
    [("shape", "(8, 5)"), ("shape_is_real_fourier", "True")]) = some "(8, 5)" ∧
  kwLookup "return_real_fourier" (kwUpdate [("shape", "(8, 8)"), ("return_real_fourier", "True")]
    [("shape", "(8, 5)"), ("shape_is_real_fourier", "True")]) = some "True" := by decide


/-! ## tilt-series `Wedge`: planes of any radial weighting (`weight_relion`, `weight_grigorieff`) -/
section
variable {α : Type} (o : Ops α)

theorem tiltPlaneZero_eq_fn (ts : List Nat) (w : α) (c : Option α) :
    tiltPlaneZero o ts w c = tiltPlaneFn o ts (fun _ => w) c := by
  unfold tiltPlaneZero tiltPlaneFn
  apply Arr.ofFn_congr
  intro idx _
  cases c <;> rfl

theorem tiltPlaneFn_shape (ts : List Nat) (val : α → α) (c : Option α) : (tiltPlaneFn o ts val c).shape = ts := rfl

/-- a plane of `weight_relion` / `weight_grigorieff` (any radial weighting) holds the weighting of the
voxel's frequency, kept or removed by the cut-off -/
theorem tiltPlaneFn_values (ts : List Nat) (val : α → α) (c : Option α) (idx : List Nat) (d : α)
    (h : inShape ts idx = true) :
    let v := val (radial o (axesOne ts) idx)
    (tiltPlaneFn o ts val c).getD idx d = v ∨ (tiltPlaneFn o ts val c).getD idx d = o.mul v o.one ∨
      (tiltPlaneFn o ts val c).getD idx d = o.mul v o.zero := by
  intro v
  unfold tiltPlaneFn
  rw [Arr.getD_ofFn _ _ _ _ h]
  cases c with
  | none => exact Or.inl rfl
  | some c =>
    simp only
    by_cases hc : o.le (radial o (axesOne ts) idx) c = true
    · simp [hc, v]
    · simp [hc, v]

/-- … and is symmetric under frequency negation (read through the `fftshift` position of a DC-first index) -/
theorem tiltPlaneFn_neg_symm (L : SignLaws o) (ts : List Nat) (val : α → α) (c : Option α) (flags : List Bool)
    (idx : List Nat) (d : α) (h : inShape ts idx = true) (hf : flagsOk (axesOne ts) flags = true) :
    (tiltPlaneFn o ts val c).getD (srcIdx (axesOne ts) (negIdx flags ts idx)) d =
      (tiltPlaneFn o ts val c).getD (srcIdx (axesOne ts) idx) d := by
  have hn := axesOne_n ts
  have h' : inShape ((axesOne ts).map Ax.n) idx = true := by rw [hn]; exact h
  have hneg := inShape_negIdx (axesOne ts) flags idx h' hf
  have s1 := inShape_srcIdx (axesOne ts) _ hneg
  have s2 := inShape_srcIdx (axesOne ts) idx h'
  have hrad := radial_neg o L (axesOne ts) flags idx h' hf
  rw [hn] at s1 s2 hrad
  unfold tiltPlaneFn
  rw [Arr.getD_ofFn _ _ _ _ s1, Arr.getD_ofFn _ _ _ _ s2, hrad]

end
example : (tiltPlaneFn ratOps [3, 4] (relionVal ratOps (-1) 1) (some (1/4))).toList =
    [0, 20736/21361, 81/82, 20736/21361, 16/17, 256/257, 1, 256/257, 0, 20736/21361, 81/82, 20736/21361] := by decide +kernel


/-! ## non-vacuity (second part) -/

/-- accumulated rotated planes of a 3×4 per-tilt wedge (opening axis 0, tilt axis 1: tilt extent padded to 5),
one value above the largest weight 2 -/
def exPlane : Arr Rat := ⟨[3, 5], #[0, 0, 1/2, 0, 0,  1, 1, 3, 1, 1,  0, 0, 1/2, 0, 0]⟩

example : planeShape [6, 7, 8] 0 2 = [6, 9] ∧ planeShape [6, 7, 8] 2 1 = [8, 7] ∧ planeRow [6, 7, 8] 0 = 3 := by decide
example : exPlane.shape = planeShape [3, 4] 0 1 ∧ exPlane.shape = planeShape [4, 3] 1 0 := by decide
example : (stepVolume ratOps exPlane [3, 4] 0 1 2).toList = [0, 0, 1/2, 0, 1, 1, 2, 1, 0, 0, 1/2, 0] := by decide +kernel
-- opening axis after the tilt axis: `moveaxis`
example : (stepVolume ratOps exPlane [4, 3] 1 0 2).toList = [0, 1, 0, 0, 1, 0, 1/2, 2, 1/2, 0, 1, 0] := by decide +kernel
-- 3-D: tiled along the remaining axis
example : (stepVolume ratOps exPlane [3, 2, 4] 0 2 2).toList =
    [0, 0, 1/2, 0, 0, 0, 1/2, 0, 1, 1, 2, 1, 1, 1, 2, 1, 0, 0, 1/2, 0, 0, 0, 1/2, 0] := by decide +kernel
example : (wedgeTail ratOps (stepVolume ratOps exPlane [3, 4] 0 1 2) ⟨[3, 4], some (1/4), false, false⟩).toList =
    [1, 1, 1, 1, 1, 0, 0, 0, 1, 0, 0, 0] := by decide +kernel
example : (wedgeTail ratOps (stepVolume ratOps exPlane [3, 4] 0 1 2) ⟨[3, 4], some (1/4), true, true⟩).toList =
    [2, 1, 1, 1/2, 0, 0, 1/2, 0, 0] := by decide +kernel
example : flagsOk (axesOne [3, 2, 4]) [false, true, false] = true ∧ [false, true, false].getD 0 true = false ∧
    [false, true, false].getD 2 true = false := by decide
example : (radialMaskOne ratOps [4, 3] false (fun r => 1 - r)).toList =
    [1, 8/9, 8/9, 15/16, 119/144, 119/144, 3/4, 23/36, 23/36, 15/16, 119/144, 119/144] := by decide +kernel
example : (radialMaskOne ratOps [4, 3] true (fun r => 1 - r)).toList = [1, 8/9, 15/16, 119/144, 3/4, 23/36, 15/16, 119/144] := by
  decide +kernel
/-- the continuous wedge of the first part: hypotheses of `contWedge_dc_kept` hold, the zero frequency is kept -/
def exW : WArgs Rat := ⟨[4, 4], 1, -1/2, 100, 0, 1, some (1/4), false⟩
example : ratOps.le exW.start exW.big = true ∧ (∀ c, exW.cutoff = some c → ratOps.le ratOps.zero c = true) := by
  refine ⟨by decide +kernel, ?_⟩
  intro c h
  have : c = 1/4 := by simpa [exW] using h.symm
  subst this; decide +kernel
example : (contWedge ratOps exW).getD [0, 0] 7 = 1 := by decide +kernel
example : (wedgeTail ratOps (contVolume ratOps exW) ⟨[4, 4], some (1/4), false, false⟩).toList =
    [1, 1, 1, 1, 0, 1, 0, 1, 0, 0, 0, 0, 0, 1, 0, 1] := by decide +kernel
example : (tiltPlaneZero ratOps [3, 4] (7/10) (some (1/8))).toList = [0, 0, 7/10, 0, 0, 7/10, 7/10, 7/10, 0, 0, 7/10, 0] := by
  decide +kernel
example : tiltShape [5, 6, 7] 1 = [5, 7] ∧ 1 < [5, 6, 7].length := by decide
example : emits .bandpass = ["sampling_rate", "is_multiplicative_filter"] ∧ multFlag .reconstruct = false := by decide


section
variable {α : Type} (o : Ops α)

/-! ## zero frequency under Gaussian edges; closed form of the hard edge -/

/-- closed form of a hard-edged voxel: passed iff its radial frequency lies between the cut-offs -/
theorem bandpass_discrete_getD (a : BPArgs α) (hg : a.gaussian = false) (idx : List Nat) (d : α)
    (hr : (a.rrf && !a.sirf) = false) (h : inShape a.shape idx = true) :
    (bandpass o a).getD idx d =
      discreteVal o (a.lowpass.map (cutOf o a.srs)) (a.highpass.map (cutOf o a.srs))
        (radial o (axesHalf a.shape a.sirf) (srcIdx (axesHalf a.shape a.sirf) idx)) := by
  unfold bandpass
  rw [radialMask_getD o _ _ _ _ idx d hr h]
  unfold bandpassVal
  simp only [hg, Bool.false_eq_true, if_false]

/-- a Gaussian low-pass keeps the zero frequency: `exp(-0 / den) = 1` there -/
theorem dc_kept_gaussian_lowpass (Z : ZeroLaws o) (a : BPArgs α) (d : α) (hg : a.gaussian = true)
    (hr : (a.rrf && !a.sirf) = false) (hpos : ∀ n ∈ a.shape, 2 ≤ n) (hhp : a.highpass = none)
    (hexp : ∀ l, a.lowpass = some l →
      o.exp (o.div (o.neg (o.mul o.zero o.zero)) (gaussDen o (gaussUpper o a) l)) = o.one)
    (h11 : o.mul o.one o.one = o.one) :
    (bandpass o a).getD (a.shape.map (fun _ => 0)) d = o.one := by
  unfold bandpass
  rw [radialMask_getD o _ _ _ _ _ d hr (inShape_zeros a.shape hpos), radial_dc o Z a.shape a.sirf hpos]
  unfold bandpassVal gaussVal
  simp only [hg, if_true, hhp]
  cases hl : a.lowpass with
  | none => exact h11
  | some l =>
    simp only
    have := hexp l hl
    unfold gaussUpper at this
    rw [this]; exact h11

/-- a Gaussian high-pass removes the zero frequency: `1 - exp(-0 / den) = 0` there -/
theorem dc_removed_gaussian_highpass (Z : ZeroLaws o) (a : BPArgs α) (d : α) (hg : a.gaussian = true)
    (hr : (a.rrf && !a.sirf) = false) (hpos : ∀ n ∈ a.shape, 2 ≤ n) (c : α) (hhp : a.highpass = some c)
    (hexp : ∀ l, a.lowpass = some l ∨ l = c →
      o.exp (o.div (o.neg (o.mul o.zero o.zero)) (gaussDen o (gaussUpper o a) l)) = o.one)
    (hsub : o.sub o.one o.one = o.zero) (h10 : o.mul o.one o.zero = o.zero) :
    (bandpass o a).getD (a.shape.map (fun _ => 0)) d = o.zero := by
  unfold bandpass
  rw [radialMask_getD o _ _ _ _ _ d hr (inShape_zeros a.shape hpos), radial_dc o Z a.shape a.sirf hpos]
  unfold bandpassVal gaussVal
  simp only [hg, if_true, hhp]
  have hc := hexp c (Or.inr rfl)
  unfold gaussUpper at hc
  rw [hc, hsub]
  cases hl : a.lowpass with
  | none => exact h10
  | some l =>
    simp only
    have := hexp l (Or.inl hl)
    unfold gaussUpper at this
    rw [this]; exact h10

end

/-- Gaussian low-pass 4×4, lowpass = 4 voxels at sampling rate 1 (exact stand-in `exp x = 1/(1-x)`): the
hypotheses of `dc_kept_gaussian_lowpass` hold and the zero frequency is kept; with a high-pass it is removed -/
def exBG : BPArgs Rat := ⟨[4, 4], some 4, none, [1], true, false, false⟩
example : ∀ l, exBG.lowpass = some l →
    ratOps.exp (ratOps.div (ratOps.neg (ratOps.mul ratOps.zero ratOps.zero)) (gaussDen ratOps (gaussUpper ratOps exBG) l)) = ratOps.one := by
  intro l h
  have : l = 4 := by simpa [exBG] using h.symm
  subst this; decide +kernel
example : (bandpass ratOps exBG).getD [0, 0] 7 = 1 ∧ (bandpass ratOps { exBG with highpass := some 8 }).getD [0, 0] 7 = 0 := by
  decide +kernel
example : ratOps.sub ratOps.one ratOps.one = ratOps.zero ∧ ratOps.mul ratOps.one ratOps.zero = ratOps.zero ∧
    ratOps.mul ratOps.one ratOps.one = ratOps.one := by decide +kernel



/-! ## tilted images (`frequency_grid_at_angle`, angle ≠ 0) -/

/-- centred grid values read at the negated DC-first index: exactly negated off the Nyquist terms -/
theorem ks_neg : ∀ (ts idx : List Nat), inShape ts idx = true → offNyquist ts idx = true →
    List.zipWith (fun (n i : Nat) => (i : Int) - ((n / 2 : Nat) : Int)) ts
        (srcIdx (axesOne ts) (negIdx (ts.map (fun _ => true)) ts idx)) =
      (List.zipWith (fun (n i : Nat) => (i : Int) - ((n / 2 : Nat) : Int)) ts (srcIdx (axesOne ts) idx)).map (fun x => -x)
  | [], [], _, _ => rfl
  | [], _ :: _, h, _ => by simp [inShape] at h
  | _ :: _, [], h, _ => by simp [inShape] at h
  | n :: ns, i :: is, h, hny => by
      obtain ⟨hi, hr⟩ := inShape_cons.mp h
      simp only [offNyquist, Bool.and_eq_true, decide_eq_true_eq] at hny
      simp only [axesOne_cons, List.map_cons, negIdx, if_true, srcIdx, List.zipWith_cons_cons]
      have ih := ks_neg ns is hr hny.2
      simp only [srcIdx] at ih
      rw [ih]
      congr 1
      simp only [Ax.src, Bool.false_eq_true, if_false]
      have a := k_shiftSrc n (negPos n i) (negPos_lt n i hi)
      have b := k_shiftSrc n i hi
      unfold center at a b
      rw [a, b, freqIndex_negPos_exact n i hi hny.1]

theorem tiltK_neg (ts : List Nat) (op : Nat) (idx : List Nat) (h : inShape ts idx = true)
    (hny : offNyquist ts idx = true) :
    tiltK ts op (srcIdx (axesOne ts) (negIdx (ts.map (fun _ => true)) ts idx)) =
      (tiltK ts op (srcIdx (axesOne ts) idx)).map (fun x => -x) := by
  unfold tiltK
  simp only [ks_neg ts idx h hny, List.map_append, List.map_cons, List.map_take, List.map_drop, Int.neg_zero]




section
variable {α : Type} (o : Ops α)

theorem linForm_neg {E : α → α → Prop} (N : LinLaws o E) (row : List α) (k : List Int) :
    E (linForm o row (k.map (fun x => -x))) (o.neg (linForm o row k)) :=
  foldl_linForm_neg o N row k _ _ N.zero

theorem tiltedRadial_neg {E : α → α → Prop} (N : LinLaws o E) (R : List (List α)) (shape : List Nat) (k : List Int) :
    tiltedRadial o R shape (k.map (fun x => -x)) = tiltedRadial o R shape k := by
  unfold tiltedRadial
  simp only
  congr 2
  induction R generalizing shape with
  | nil => rfl
  | cons row rows ih =>
    cases shape with
    | nil => rfl
    | cons n ns =>
      simp only [List.zipWith_cons_cons, List.map_cons, ih ns]
      rw [N.sq_div _ _ _ (linForm_neg o N row k)]

end

section
variable {α : Type} (o : Ops α)

theorem tiltedPlane_shape (R : List (List α)) (shape : List Nat) (op : Nat) (val : α → α) (c : Option α) :
    (tiltedPlane o R shape op val c).shape = tiltShape shape op := rfl

/-- the plane of a tilted image (any rotation matrix, any radial weighting - `weight_angle`,
`weight_relion`, `weight_grigorieff`, the cut-off mask of `Wedge.__call__`, the frequency grid of a tilt-stack
`CTF`), read DC first, is symmetric under frequency negation at every frequency that has no Nyquist component
of an even extent -/
theorem tiltedPlane_neg_symm_offNyquist {E : α → α → Prop} (N : LinLaws o E) (R : List (List α)) (shape : List Nat)
    (op : Nat) (val : α → α) (c : Option α) (idx : List Nat) (d : α)
    (h : inShape (tiltShape shape op) idx = true) (hny : offNyquist (tiltShape shape op) idx = true) :
    (tiltedPlane o R shape op val c).getD
        (srcIdx (axesOne (tiltShape shape op)) (negIdx ((tiltShape shape op).map (fun _ => true)) (tiltShape shape op) idx)) d =
      (tiltedPlane o R shape op val c).getD (srcIdx (axesOne (tiltShape shape op)) idx) d := by
  have hn := axesOne_n (tiltShape shape op)
  have h' : inShape ((axesOne (tiltShape shape op)).map Ax.n) idx = true := by rw [hn]; exact h
  have hf := flagsOk_one_all_true (tiltShape shape op)
  have hneg := inShape_negIdx (axesOne (tiltShape shape op)) _ idx h' hf
  have s1 := inShape_srcIdx (axesOne (tiltShape shape op)) _ hneg
  have s2 := inShape_srcIdx (axesOne (tiltShape shape op)) idx h'
  rw [hn] at s1 s2
  unfold tiltedPlane
  rw [Arr.getD_ofFn _ _ _ _ s1, Arr.getD_ofFn _ _ _ _ s2]
  simp only [tiltK_neg _ op idx h hny, tiltedRadial_neg o N]

end

example : LinLaws ratOps Eq := ratOps_linLaws
example : offNyquist [4, 5] [1, 2] = true ∧ offNyquist [4, 5] [2, 2] = false := by decide
example : tiltK [4, 5] 1 [3, 0] = [1, 0, -2] ∧ tiltK [4, 5] 0 [3, 0] = [0, 1, -2] := by decide

/-- a rotation by the angle with cos 3/5, sin 4/5 about the last axis of a 4×3×4 volume opened along axis 1 -/
def exR : List (List Rat) := [[3/5, -4/5, 0], [4/5, 3/5, 0], [0, 0, 1]]
example : (tiltedPlane ratOps exR [4, 3, 4] 1 (fun r => r) none).toList =
    [281/450, 1573/3600, 337/900, 1573/3600, 1237/3600, 281/1800, 337/3600, 281/1800, 1/4, 1/16, 0, 1/16,
     1237/3600, 281/1800, 337/3600, 281/1800] := by decide +kernel
example : (tiltedPlane ratOps exR [4, 3, 4] 1 (fun _ => 7/10) (some (1/10))).toList =
    [0, 0, 0, 0, 0, 0, 7/10, 0, 0, 7/10, 7/10, 7/10, 0, 0, 7/10, 0] := by decide +kernel
example : inShape (tiltShape [4, 3, 4] 1) [1, 3] = true ∧ offNyquist (tiltShape [4, 3, 4] 1) [1, 3] = true := by decide


/-! ## zero frequency of the wedges -/

theorem shiftSrc_zero (n : Nat) (h : 0 < n) : shiftSrc n 0 = n / 2 := by
  rw [shiftSrc_eq n 0 h]; split <;> omega

/-- the zero frequency sits at the centre `n // 2` of the centred volume -/
theorem srcIdx_zeros : ∀ (s : List Nat), (∀ n ∈ s, 1 ≤ n) →
    srcIdx (axesOne s) (s.map (fun _ => 0)) = s.map (fun n => n / 2)
  | [], _ => rfl
  | n :: ns, h => by
      simp only [axesOne_cons, List.map_cons, srcIdx, List.zipWith_cons_cons]
      have ih := srcIdx_zeros ns (fun m hm => h m (List.mem_cons_of_mem _ hm))
      simp only [srcIdx] at ih
      rw [ih]
      congr 1
      simp only [Ax.src, Bool.false_eq_true, if_false]
      exact shiftSrc_zero n (by have := h n List.mem_cons_self; omega)

section
variable {α : Type} (o : Ops α)

/-- zero frequency of any wedge (step or continuous): the centre value of the centred volume, multiplied by 1 when
a non-negative cut-off is present, thresholded unless weighted -/
theorem wedgeTail_dc (Z : ZeroLaws o) (vol : Arr α) (a : WTail α) (d : α) (hrrf : a.rrf = false)
    (hpos : ∀ n ∈ a.shape, 1 ≤ n) (hcut : ∀ c, a.cutoff = some c → o.le o.zero c = true) :
    (wedgeTail o vol a).getD (a.shape.map (fun _ => 0)) d =
      (let v := vol.getD (a.shape.map (fun n => n / 2)) o.zero
       let v := match a.cutoff with | none => v | some _ => o.mul v o.one
       if a.weightWedge then v else (if o.lt o.zero v then o.one else o.zero)) := by
  rw [wedgeTail_getD o vol a _ d hrrf (inShape_zeros1 a.shape hpos)]
  unfold tailCentred
  rw [radial_dc_one o Z a.shape hpos, srcIdx_zeros a.shape hpos]
  cases hc : a.cutoff with
  | none => rfl
  | some c => simp only [hcut c hc, if_true]

/-- an unweighted wedge whose centred volume is positive at the centre keeps the zero frequency -/
theorem wedgeTail_dc_kept (Z : ZeroLaws o) (vol : Arr α) (a : WTail α) (d : α) (hrrf : a.rrf = false)
    (hw : a.weightWedge = false) (hpos : ∀ n ∈ a.shape, 1 ≤ n) (hcut : ∀ c, a.cutoff = some c → o.le o.zero c = true)
    (hv : o.lt o.zero (vol.getD (a.shape.map (fun n => n / 2)) o.zero) = true)
    (hv1 : o.lt o.zero (o.mul (vol.getD (a.shape.map (fun n => n / 2)) o.zero) o.one) = true) :
    (wedgeTail o vol a).getD (a.shape.map (fun _ => 0)) d = o.one := by
  rw [wedgeTail_dc o Z vol a d hrrf hpos hcut]
  simp only [hw, Bool.false_eq_true, if_false]
  cases a.cutoff with
  | none => simp only [hv, if_true]
  | some c => simp only [hv1, if_true]

end

example : (wedgeTail ratOps (stepVolume ratOps exPlane [3, 4] 0 1 2) ⟨[3, 4], some (1/4), false, false⟩).getD [0, 0] 7 = 1 ∧
    (stepVolume ratOps exPlane [3, 4] 0 1 2).getD [1, 2] 0 = 2 ∧ ratOps.lt ratOps.zero 2 = true := by decide +kernel



/-! ## range under exact arithmetic (rational scalars), given the range of the profile / of the planes -/

theorem cut_range_rat (v lo hi : Rat) (b : Bool) (hlo : lo ≤ 0) (hhi : 0 ≤ hi) (h : lo ≤ v ∧ v ≤ hi) :
    lo ≤ ratOps.mul v (if b then ratOps.one else ratOps.zero) ∧ ratOps.mul v (if b then ratOps.one else ratOps.zero) ≤ hi := by
  cases b
  · show lo ≤ v * 0 ∧ v * 0 ≤ hi
    simp only [mul_zero]; exact ⟨hlo, hhi⟩
  · show lo ≤ v * 1 ∧ v * 1 ≤ hi
    simp only [mul_one]; exact h

/-- a weighted wedge stays within the range `[0, W]` of its centred volume (`W` = largest weight, by the `fmin`) -/
theorem wedgeTail_weighted_range_rat (vol : Arr Rat) (a : WTail Rat) (W : Rat) (hW : 0 ≤ W) (hw : a.weightWedge = true)
    (hvol : ∀ idx, 0 ≤ vol.getD idx 0 ∧ vol.getD idx 0 ≤ W) (idx : List Nat) :
    0 ≤ tailCentred ratOps vol a idx ∧ tailCentred ratOps vol a idx ≤ W := by
  unfold tailCentred
  simp only [hw, if_true]
  cases a.cutoff with
  | none => exact hvol idx
  | some c => exact cut_range_rat _ 0 W _ (le_refl 0) hW (hvol idx)

/-- the clip of `step_wedge` bounds the volume by the largest weight -/
theorem fmin_le_rat (x w : Rat) : fmin ratOps x w ≤ w := by
  unfold fmin
  show (if decide (x ≤ w) = true then x else w) ≤ w
  by_cases h : x ≤ w <;> simp [h]

/-- planes of untilted and tilted images stay within the range `[lo, hi] ∋ 0` of the radial weighting
(`weight_angle`: `[0, w]`; relion: `[0, 1]` for `|angle| ≤ 90°`; grigorieff: `[0, 1]`) -/
theorem tiltPlaneFn_range_rat (ts : List Nat) (val : Rat → Rat) (c : Option Rat) (lo hi : Rat) (hlo : lo ≤ 0) (hhi : 0 ≤ hi)
    (hval : ∀ r, lo ≤ val r ∧ val r ≤ hi) (idx : List Nat) (d : Rat) (h : inShape ts idx = true) :
    lo ≤ (tiltPlaneFn ratOps ts val c).getD idx d ∧ (tiltPlaneFn ratOps ts val c).getD idx d ≤ hi := by
  unfold tiltPlaneFn
  rw [Arr.getD_ofFn _ _ _ _ h]
  cases c with
  | none => exact hval _
  | some c => exact cut_range_rat _ lo hi _ hlo hhi (hval _)

theorem tiltedPlane_range_rat (R : List (List Rat)) (shape : List Nat) (op : Nat) (val : Rat → Rat) (c : Option Rat)
    (lo hi : Rat) (hlo : lo ≤ 0) (hhi : 0 ≤ hi) (hval : ∀ r, lo ≤ val r ∧ val r ≤ hi) (idx : List Nat) (d : Rat)
    (h : inShape (tiltShape shape op) idx = true) :
    lo ≤ (tiltedPlane ratOps R shape op val c).getD idx d ∧ (tiltedPlane ratOps R shape op val c).getD idx d ≤ hi := by
  unfold tiltedPlane
  rw [Arr.getD_ofFn _ _ _ _ h]
  cases c with
  | none => exact hval _
  | some c => exact cut_range_rat _ lo hi _ hlo hhi (hval _)

/-- relion weighting: `exp(·) ∈ [0, 1]` times `cos(angle) ∈ [-1, 1]` lies in `[-1, 1]`, in `[0, 1]` for `|angle| ≤ 90°` -/
theorem relion_bound_rat (e c : Rat) (he : 0 ≤ e ∧ e ≤ 1) (hc : -1 ≤ c ∧ c ≤ 1) :
    -1 ≤ ratOps.mul e c ∧ ratOps.mul e c ≤ 1 ∧ (0 ≤ c → 0 ≤ ratOps.mul e c) := by
  show -1 ≤ e * c ∧ e * c ≤ 1 ∧ (0 ≤ c → 0 ≤ e * c)
  refine ⟨by nlinarith [he.1, he.2, hc.1, hc.2], by nlinarith [he.1, he.2, hc.1, hc.2], fun h => mul_nonneg he.1 h⟩

/-- grigorieff weighting: for a non-negative dose `w` and `amplitude * f^power + offset > 0` the exponent is `≤ 0` -/
theorem grigorieff_exponent_rat (w q : Rat) (hw : 0 ≤ w) (hq : 0 < q) :
    ratOps.div w (ratOps.mul (ratOps.neg (ratOps.ofNat 2)) q) ≤ 0 := by
  show w / ((-((2 : Nat) : Rat)) * q) ≤ 0
  apply div_nonpos_of_nonneg_of_nonpos hw
  push_cast; nlinarith

example : (∀ r : Rat, (0 : Rat) ≤ (fun _ => (7 : Rat) / 10) r ∧ (fun _ => (7 : Rat) / 10) r ≤ 7 / 10) := by
  intro r; constructor <;> norm_num
example : fmin ratOps 3 2 = 2 ∧ fmin ratOps (1/2) 2 = 1/2 := by decide +kernel



/-! ## reconstruction filters of the per-tilt wedge -/

/-- exactly the six documented names are accepted, in any letter case -/
theorem recFilterKind_isSome (s : String) :
    (recFilterKind s).isSome = decide (s.toLower ∈ ["ram-lak", "ramp-cont", "ramp", "shepp-logan", "cosine", "hamming"]) := by
  unfold recFilterKind
  simp only
  split <;> simp_all

theorem inShape_reverse2 (m n i j : Nat) : inShape [n, m] [j, i] = inShape [m, n] [i, j] := by
  simp only [inShape, Bool.and_true]
  exact Bool.and_comm _ _

section
variable {α : Type} (o : Ops α)

theorem recFilterRadial_shape (ps : List Nat) (val : α → α) : (recFilterRadial o ps val).shape = ps := rfl

/-- entry `(i, j)` of the plane-shaped filter: `val` of the radial grid of the transposed shape at `(j, i)` -/
theorem recFilterRadial_getD (m n i j : Nat) (val : α → α) (d : α) (h : inShape [m, n] [i, j] = true) :
    (recFilterRadial o [m, n] val).getD [i, j] d = val (radial o (axesHalf [n, m] false) [j, i]) := by
  unfold recFilterRadial
  rw [Arr.getD_ofFn _ _ _ _ h]; rfl

/-- radial reconstruction filters are symmetric under frequency negation on both axes of the plane (read
through the `fftshift` position of a DC-first index of the transposed shape) -/
theorem recFilterRadial_neg_symm (L : SignLaws o) (m n : Nat) (val : α → α) (flags : List Bool) (idx : List Nat) (d : α)
    (h : inShape [n, m] idx = true) (hf : flagsOk (axesHalf [n, m] false) flags = true) :
    (recFilterRadial o [m, n] val).getD (srcIdx (axesHalf [n, m] false) (negIdx flags [n, m] idx)).reverse d =
      (recFilterRadial o [m, n] val).getD (srcIdx (axesHalf [n, m] false) idx).reverse d := by
  have hn := axesHalf_n [n, m] false
  have h' : inShape ((axesHalf [n, m] false).map Ax.n) idx = true := by rw [hn]; exact h
  have hneg := inShape_negIdx (axesHalf [n, m] false) flags idx h' hf
  have s1 := inShape_srcIdx (axesHalf [n, m] false) _ hneg
  have s2 := inShape_srcIdx (axesHalf [n, m] false) idx h'
  have hrad := radial_neg o L (axesHalf [n, m] false) flags idx h' hf
  rw [hn] at s1 s2 hrad
  -- both source indices are pairs
  obtain ⟨a1, b1, e1⟩ : ∃ a b, srcIdx (axesHalf [n, m] false) (negIdx flags [n, m] idx) = [a, b] := by
    have := inShape_length s1
    match hx : srcIdx (axesHalf [n, m] false) (negIdx flags [n, m] idx), this with
    | [a, b], _ => exact ⟨a, b, rfl⟩
  obtain ⟨a2, b2, e2⟩ : ∃ a b, srcIdx (axesHalf [n, m] false) idx = [a, b] := by
    have := inShape_length s2
    match hx : srcIdx (axesHalf [n, m] false) idx, this with
    | [a, b], _ => exact ⟨a, b, rfl⟩
  rw [e1] at s1 hrad; rw [e2] at s2 hrad
  rw [e1, e2]
  simp only [List.reverse_cons, List.reverse_nil, List.nil_append, List.cons_append]
  rw [recFilterRadial_getD o m n b1 a1 val d (by rw [← inShape_reverse2]; exact s1),
    recFilterRadial_getD o m n b2 a2 val d (by rw [← inShape_reverse2]; exact s2), hrad]

/-- at the centre of the plane (zero frequency) a radial reconstruction filter takes the value `val 0`:
`ram-lak`, `shepp-logan`, `cosine` and `hamming` (`f * g(f)`) remove the zero frequency of every projection -/
theorem recFilterRadial_centre (Z : ZeroLaws o) (m n : Nat) (val : α → α) (d : α) (hm : 2 ≤ m) (hn : 2 ≤ n) :
    (recFilterRadial o [m, n] val).getD [m / 2, n / 2] d = val o.zero := by
  rw [recFilterRadial_getD o m n _ _ val d (by simp [inShape]; omega)]
  congr 1
  unfold radial radial2
  simp only [axesHalf, List.isEmpty_cons, List.isEmpty_nil, Bool.and_false, Bool.false_eq_true, if_false,
    List.zipWith_cons_cons, List.zipWith_nil_right, List.foldl_cons, List.foldl_nil]
  have t1 : term o ⟨n, false, n / 2⟩ (n / 2) = o.zero := by
    unfold term Ax.k center
    simp only [Bool.false_eq_true, if_false, Int.sub_self]
    rw [Z.zero_div (n / 2) (by omega), Z.mul_zero]
  have t2 : term o ⟨m, false, m / 2⟩ (m / 2) = o.zero := by
    unfold term Ax.k center
    simp only [Bool.false_eq_true, if_false, Int.sub_self]
    rw [Z.zero_div (m / 2) (by omega), Z.mul_zero]
  rw [t1, t2, Z.add_zero, Z.add_zero, Z.sqrt_zero]

theorem recFilterRamp_shape (ps : List Nat) (scale : α) : (recFilterRamp o ps scale).shape = ps := rfl

/-- the `ramp` filter depends on the tilt-axis position only and never exceeds 1 (`fmin(·, 1)`): every entry is the
scaled frequency, or 1 -/
theorem recFilterRamp_getD (m n i j : Nat) (scale : α) (d : α) (h : inShape [m, n] [i, j] = true) :
    (recFilterRamp o [m, n] scale).getD [i, j] d =
      (let v := o.mul (radial o (axesOne [n]) [j]) scale
       if o.le v o.one then v else o.one) := by
  unfold recFilterRamp
  rw [Arr.getD_ofFn _ _ _ _ h]; rfl

theorem recFilterRamp_const_along_opening (m n i i' j : Nat) (scale : α) (d : α)
    (h : inShape [m, n] [i, j] = true) (h' : inShape [m, n] [i', j] = true) :
    (recFilterRamp o [m, n] scale).getD [i, j] d = (recFilterRamp o [m, n] scale).getD [i', j] d := by
  rw [recFilterRamp_getD o m n i j scale d h, recFilterRamp_getD o m n i' j scale d h']

end

theorem recFilterRamp_le_one_rat (m n i j : Nat) (scale d : Rat) (h : inShape [m, n] [i, j] = true) :
    (recFilterRamp ratOps [m, n] scale).getD [i, j] d ≤ 1 := by
  rw [recFilterRamp_getD ratOps m n i j scale d h]
  simp only
  split
  · rename_i hle
    exact of_decide_eq_true hle
  · exact le_refl _

example : recFilterKind "Ram-Lak" = some "ram-lak" ∧ recFilterKind "HAMMING" = some "hamming" ∧ recFilterKind "hann" = none := by
  decide +kernel
example : (recFilterRadial ratOps [3, 5] (fun r => r)).toList = [2, 5/4, 1, 5/4, 2, 1, 1/4, 0, 1/4, 1, 2, 5/4, 1, 5/4, 2] := by
  decide +kernel
example : (recFilterRamp ratOps [2, 5] 10).toList = [1, 2/5, 0, 2/5, 1, 1, 2/5, 0, 2/5, 1] := by decide +kernel
example : flagsOk (axesHalf [5, 3] false) [true, true] = true ∧ inShape [5, 3] [4, 1] = true := by decide


section
variable {α : Type} (o : Ops α)

/-! ## a band-pass / whitening filter that follows a reconstructed wedge in a composition -/

/-- `Compose((wedge, band-pass))(shape=s, return_real_fourier=True)`: the band-pass filter sees the caller's
`return_real_fourier` (`rrf_never_emitted`) but the wedge's `shape = cropShape s`, `shape_is_real_fourier = True`
(`shape_emitted_iff`, `compose_overrides_emitted_key`); what it then returns is, voxel by voxel, its stand-alone
half-spectrum mask for `s` - so the composition is the product of the parts (`compose_eq_product`) -/
theorem bandpass_after_wedge (L : SignLaws o) (a : BPArgs α) (idx : List Nat) (d : α)
    (hpos : ∀ n ∈ a.shape, 1 ≤ n) (h : inShape (cropShape a.shape) idx = true) :
    (bandpass o { a with shape := cropShape a.shape, sirf := true, rrf := true }).getD idx d =
      (bandpass o { a with sirf := false, rrf := true }).getD idx d := by
  unfold bandpass
  have e1 : radialMask o (cropShape a.shape) true true (bandpassVal o { a with shape := cropShape a.shape, sirf := true, rrf := true })
      = radialMask o (cropShape a.shape) true false (bandpassVal o a) := rfl
  have e2 : radialMask o a.shape false true (bandpassVal o { a with sirf := false, rrf := true })
      = radialMask o a.shape false true (bandpassVal o a) := rfl
  simp only
  rw [e1, e2]
  exact rfshape_eq_crop o L a.shape _ idx d hpos h

/-- the whitening filter after a wedge: it is called with the half-spectrum shape flagged as such and returns the
very same array as for the real-space shape -/
theorem whiten_after_wedge (spec : Array α) (s : List Nat) :
    whiten o spec (cropShape s) true = whiten o spec s false := by
  unfold whiten fourierShape
  simp

end

example : (bandpass ratOps { exBP with shape := cropShape exBP.shape, sirf := true, rrf := true }).toList =
    (bandpass ratOps { exBP with rrf := true }).toList := by decide +kernel



/-! ## bins of a stack; weights of a weighted per-tilt wedge -/

/-- the bins of a stack are those of one member: the batch axis is removed, the rank is `maskRank` -/
theorem binShape_length (s : List Nat) (b : Nat) (h : b < s.length) :
    (binShape s (some b)).length = maskRank s.length (some b) ∧ binShape s none = s := by
  unfold binShape maskRank
  simp [List.length_eraseIdx, h]

/-- with `weight_wedge=True` the caller's `weights` never reach `step_wedge` unless the (undocumented) keyword
`wedge_weights` is present -/
theorem stepWeightsFromCos_iff (ww g : Bool) : stepWeightsFromCos ww g = true ↔ ww = true ∧ g = false := by
  cases ww <;> cases g <;> decide

example : binShape [3, 9, 5] (some 0) = [9, 5] ∧ maskRank 3 (some 0) = 2 := by decide


example : (0 : Rat) ≤ 1/2 ∧ (1/2 : Rat) ≤ 1 ∧ (-1 : Rat) ≤ -1/3 ∧ (-1/3 : Rat) ≤ 1 ∧ ratOps.mul (1/2) (-1/3) = -1/6 := by
  decide +kernel
example : (0 : Rat) ≤ 1 ∧ (0 : Rat) < 3 ∧ ratOps.div 1 (ratOps.mul (ratOps.neg (ratOps.ofNat 2)) 3) = -1/6 := by decide +kernel

section
variable {α : Type} (o : Ops α)

/-! ## the hard-edged pass band is a radial band -/

theorem ite_one_iff (hne : o.zero ≠ o.one) (b : Bool) : (if b = true then o.one else o.zero) = o.one ↔ b = true := by
  cases b
  · simp only [Bool.false_eq_true, if_false, iff_false]; exact hne
  · simp

theorem discreteVal_one_iff (hne : o.zero ≠ o.one) (hi lo : Option α) (r : α) :
    discreteVal o hi lo r = o.one ↔ (hi.all (fun h => o.le r h) && lo.all (fun l => o.le l r)) = true := by
  unfold discreteVal
  rw [ite_one_iff o hne]
  cases hi <;> cases lo <;> simp [Option.all]

/-- the passed frequencies of a hard-edged band-pass form a band: whatever lies (in the order `le` of the
scalars, assumed transitive - true of floats and of every ordered field) between two passed radial frequencies
is passed as well -/
theorem discrete_band (htrans : ∀ a b c : α, o.le a b = true → o.le b c = true → o.le a c = true)
    (hne : o.zero ≠ o.one) (hi lo : Option α) (r1 r r2 : α)
    (h1 : discreteVal o hi lo r1 = o.one) (h2 : discreteVal o hi lo r2 = o.one)
    (h1r : o.le r1 r = true) (hr2 : o.le r r2 = true) :
    discreteVal o hi lo r = o.one := by
  rw [discreteVal_one_iff o hne] at h1 h2 ⊢
  simp only [Bool.and_eq_true] at h1 h2 ⊢
  constructor
  · cases hi with
    | none => rfl
    | some h => exact htrans _ _ _ hr2 (by simpa [Option.all] using h2.1)
  · cases lo with
    | none => rfl
    | some l => exact htrans _ _ _ (by simpa [Option.all] using h1.2) h1r

/-- low-pass only: everything below a passed frequency is passed (a ball around the zero frequency) -/
theorem discrete_lowpass_ball (htrans : ∀ a b c : α, o.le a b = true → o.le b c = true → o.le a c = true)
    (hne : o.zero ≠ o.one) (hi : Option α) (r r2 : α) (h2 : discreteVal o hi none r2 = o.one) (hr2 : o.le r r2 = true) :
    discreteVal o hi none r = o.one := by
  rw [discreteVal_one_iff o hne] at h2 ⊢
  simp only [Option.all, Bool.and_true] at h2 ⊢
  cases hi with
  | none => rfl
  | some h => exact htrans _ _ _ hr2 h2

end

example : (∀ a b c : Rat, ratOps.le a b = true → ratOps.le b c = true → ratOps.le a c = true) ∧ ratOps.zero ≠ ratOps.one := by
  refine ⟨?_, by decide +kernel⟩
  intro a b c h1 h2
  have h1' : a ≤ b := of_decide_eq_true h1
  have h2' : b ≤ c := of_decide_eq_true h2
  exact decide_eq_true (le_trans h1' h2')
example : discreteVal ratOps (some (1/2)) (some (1/8)) (1/4) = 1 ∧ discreteVal ratOps (some (1/2)) (some (1/8)) (1/2) = 1 ∧
    discreteVal ratOps (some (1/2)) (some (1/8)) (3/8) = 1 := by decide +kernel



/-! ## `Wedge.__call__`: constructor's vs call's tilt angles -/

/-- without a call-time override of the angles nothing raises, the stack has one plane per tilt, the reported
angles describe it, and the cut-off (if any) is applied to every plane -/
theorem wedgeCallPlan_no_override (func : String) (n : Nat) (cutoff : Bool) :
    wedgeCallPlan func n n cutoff = ⟨false, n, n, List.replicate n cutoff⟩ := by
  unfold wedgeCallPlan
  have e : (if (func == "weight_angle") = true then n else n) = n := by split <;> rfl
  simp only [e, Nat.lt_irrefl, decide_false, Bool.and_false, Bool.or_self, Bool.false_eq_true, if_false]
  congr 1
  have : ∀ i ∈ List.range n, (cutoff && decide (i < n)) = cutoff := by
    intro i hi
    simp [List.mem_range.mp hi]
  rw [List.map_congr_left this, List.map_const', List.length_range]

/-- when it raises (`IndexError`): only `weight_angle` (`weight_type` `None` / `"angle"`) with more call angles than
weights, or a cut-off loop running over more constructor angles than there are planes -/
theorem wedgeCallPlan_raises_iff (func : String) (nSelf nCall : Nat) (cutoff : Bool) :
    (wedgeCallPlan func nSelf nCall cutoff).raises = true ↔
      (func = "weight_angle" ∧ (nSelf < nCall ∨ (cutoff = true ∧ nCall < nSelf))) := by
  unfold wedgeCallPlan
  by_cases hf : func = "weight_angle"
  · subst hf
    simp only [beq_self_eq_true, if_true, Bool.true_and, Bool.or_eq_true, decide_eq_true_eq, Bool.and_eq_true, true_and]
  · have hb : (func == "weight_angle") = false := by simpa using hf
    simp only [hb, Bool.false_eq_true, if_false, Bool.false_and, Bool.false_or, Nat.lt_irrefl, decide_false, Bool.and_false, hf,
      false_and]

/-- today's `weight_relion` / `weight_grigorieff` ignore call-time `angles`: the stack keeps one plane per
constructor angle while the returned dict reports the call's angles (2 planes, 3 reported angles) -/
theorem wedgeCallPlan_override_current_defect :
    wedgeCallPlan "weight_relion" 2 3 true = ⟨false, 2, 3, [true, true]⟩ ∧
    wedgeCallPlan "weight_angle" 2 3 false = ⟨true, 3, 3, []⟩ ∧
    wedgeCallPlan "weight_angle" 3 2 false = ⟨false, 2, 2, [false, false]⟩ := by decide

example : wedgeCallPlan "weight_grigorieff" 3 3 true = ⟨false, 3, 3, [true, true, true]⟩ := by decide


/-! ## deepen8: frequency-grid index facts and algebra of the composed product -/

/-- frequency negation `(-j) mod n` is an involution on the positions of an axis -/
theorem negPos_involutive (n j : Nat) (hj : j < n) : negPos n (negPos n j) = j := by
  rw [negPos_eq n _ (negPos_lt n j hj), negPos_eq n j hj]
  split <;> split <;> omega

/-- the zero frequency is its own negation (so symmetric filters constrain nothing at DC) -/
theorem negPos_zero (n : Nat) : negPos n 0 = 0 := by
  unfold negPos; simp

/-- the only self-conjugate positions of an axis are DC and, on an even axis, the Nyquist term -/
theorem negPos_fixed_iff (n j : Nat) (hj : j < n) : negPos n j = j ↔ (j = 0 ∨ 2 * j = n) := by
  rw [negPos_eq n j hj]
  split <;> omega

/-- `fftfreq(n)*n` lies in `[-(n/2), (n-1)/2]`: even axes carry the Nyquist term as negative -/
theorem freqIndex_range (n j : Nat) (hj : j < n) :
    -((n / 2 : Nat) : Int) ≤ freqIndex n j ∧ freqIndex n j ≤ (((n - 1) / 2 : Nat) : Int) := by
  rw [freqIndex_eq n j hj]
  split <;> omega

/-- distinct positions of an axis hold distinct signed frequencies (the grid is a bijection onto its range) -/
theorem freqIndex_injective (n i j : Nat) (hi : i < n) (hj : j < n) (h : freqIndex n i = freqIndex n j) : i = j := by
  rw [freqIndex_eq n i hi, freqIndex_eq n j hj] at h
  split at h <;> split at h <;> omega

/-- on the retained half-spectrum (`j < n/2+1`) the frequency magnitude is the position itself -/
theorem freqIndex_half_natAbs (n j : Nat) (hj : j < n) (hh : j < halfLen n) : (freqIndex n j).natAbs = j := by
  unfold halfLen at hh
  rw [freqIndex_eq n j hj]
  split <;> omega

/-- the half-spectrum never exceeds the full axis and keeps more than half of it (`n/2+1`) -/
theorem halfLen_bounds (n : Nat) (hn : 2 ≤ n) : halfLen n ≤ n ∧ n < 2 * halfLen n := by
  unfold halfLen; omega

/-- a shape that already is a half-spectrum shape is returned unchanged; otherwise its rank is kept -/
theorem fourierShape_length (shape : List Nat) (b : Bool) : (fourierShape shape b).length = shape.length := by
  unfold fourierShape
  split
  · rfl
  · exact cropShape_length shape

section
variable {α : Type} [CommMonoid α]

/-- composing with the all-ones filter is the identity (at every position, inside or outside the array) -/
theorem product_ones_identity (n : Nat) (parts : List (List α)) (i : Nat) :
    ((List.replicate n (1 : α) :: parts).map (fun p => p.getD i 1)).prod = (parts.map (fun p => p.getD i 1)).prod := by
  have h : (List.replicate n (1 : α)).getD i 1 = 1 := by
    simp only [List.getD_eq_getElem?_getD, List.getElem?_replicate]
    split <;> rfl
  rw [List.map_cons, List.prod_cons, h, one_mul]

/-- composition is associative: the product of two concatenated filter chains is the product of the chains' products -/
theorem product_append (ps qs : List (List α)) (i : Nat) :
    ((ps ++ qs).map (fun p => p.getD i 1)).prod =
      (ps.map (fun p => p.getD i 1)).prod * (qs.map (fun p => p.getD i 1)).prod := by
  rw [List.map_append, List.prod_append]

/-- composition of filters that are each symmetric under a position map `ν` (frequency negation) is symmetric -/
theorem product_symm (parts : List (List α)) (ν : Nat → Nat) (i : Nat)
    (h : ∀ p ∈ parts, p.getD (ν i) 1 = p.getD i 1) :
    (parts.map (fun p => p.getD (ν i) 1)).prod = (parts.map (fun p => p.getD i 1)).prod := by
  rw [List.map_congr_left h]

end

example : negPos 6 (negPos 6 2) = 2 ∧ negPos 6 3 = 3 ∧ freqIndex 6 3 = -3 ∧ halfLen 6 = 4 := by decide


end Pm.C12
