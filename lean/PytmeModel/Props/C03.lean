import PytmeModel.Proofs.C03
import PytmeModel.Model.C03
import PytmeModel.Props.C01
import PytmeModel.Proofs.C01Field
import Mathlib.Tactic.Ring
import Mathlib.Tactic.Linarith
import Mathlib.Tactic.FieldSimp
import Mathlib.Tactic.Positivity

/-! # C03 — normalised scores stay within [-1, 1]; a planted template is recovered exactly
(exact arithmetic over any linearly ordered field; rounding is Leg B's business) -/
namespace Pm.C03
open Pm.C01

section core
variable {α : Type} [Field α] [LinearOrder α] [IsStrictOrderedRing α]
variable (W : Win α)

/-- **Core inequality (Cauchy–Schwarz under the mask).**  For any non-negative mask — binary, soft or
interpolated — `(Σ w a (h−μ))² ≤ (Σ w (a−ā)²)(Σ w (h−μ)²)`. -/
theorem Win.num_sq_le (hw : ∀ k, inShape W.ms k = true → 0 ≤ W.w k) (hn : W.n ≠ 0) :
    W.N ^ 2 ≤ W.A * W.B := by
  rw [W.N_centered hn]
  exact box_cauchy_schwarz W.ms W.w (fun k => W.a k - W.fbar) (fun k => W.h k - W.mu) hw

theorem Win.A_nonneg (hw : ∀ k, inShape W.ms k = true → 0 ≤ W.w k) : 0 ≤ W.A :=
  sumShape_nonneg _ _ (fun k hk => mul_nonneg (hw k hk) (mul_self_nonneg _))
theorem Win.B_nonneg (hw : ∀ k, inShape W.ms k = true → 0 ≤ W.w k) : 0 ≤ W.B :=
  sumShape_nonneg _ _ (fun k hk => mul_nonneg (hw k hk) (mul_self_nonneg _))

/-- **|score| ≤ 1** for every masked normalised correlation of the FLC family
(`score = (N/σ)/(sd·n)` with `σ² = B/n`, `sd² = A/n` — what `sqrt(max(var,0))` delivers). -/
theorem Win.score_sq_le_one (hw : ∀ k, inShape W.ms k = true → 0 ≤ W.w k) (hn : 0 < W.n)
    (σ sd : α) (hσ : 0 < σ) (hsd : 0 < sd) (eσ : σ * σ = W.B / W.n) (esd : sd * sd = W.A / W.n) :
    ((W.N / σ) / (sd * W.n)) ^ 2 ≤ 1 := by
  have hcs := W.num_sq_le hw (ne_of_gt hn)
  have hB : W.B = σ * σ * W.n := by rw [eσ]; field_simp
  have hA : W.A = sd * sd * W.n := by rw [esd]; field_simp
  rw [hA, hB] at hcs
  rw [div_pow, div_pow, div_le_one (by positivity)]
  have hσ2 : 0 < σ ^ 2 := by positivity
  rw [div_le_iff₀ hσ2]
  nlinarith [hcs]

/-- **guard branch**: where the window's standard deviation is below `eps` the code divides by `n` only;
the value is then bounded by that standard deviation, hence by `eps` — finite and tiny, never a division by ~0 -/
theorem Win.guard_branch_small (hw : ∀ k, inShape W.ms k = true → 0 ≤ W.w k) (hn : 0 < W.n)
    (σ sd : α) (hσ : 0 < σ) (hsd : 0 ≤ sd) (eσ : σ * σ = W.B / W.n) (esd : sd * sd = W.A / W.n) :
    ((W.N / σ) / W.n) ^ 2 ≤ sd ^ 2 := by
  have hcs := W.num_sq_le hw (ne_of_gt hn)
  have hB : W.B = σ * σ * W.n := by rw [eσ]; field_simp
  have hA : W.A = sd * sd * W.n := by rw [esd]; field_simp
  rw [hA, hB] at hcs
  rw [div_pow, div_pow, div_le_iff₀ (by positivity), div_le_iff₀ (by positivity)]
  nlinarith [hcs]

/-- a constant window (also an empty one: all zeros) has `A = 0`, so it lands in the guard branch with value 0 -/
theorem Win.constant_window (c : α) (hc : ∀ k, inShape W.ms k = true → W.a k = c) (hn : W.n ≠ 0) :
    W.A = 0 ∧ W.N = 0 := by
  have hs : sumShape W.ms (fun k => W.w k * W.a k) = c * W.n := by
    rw [Win.n, ← sumShape_mul_left]
    apply sumShape_congr; intro k hk; rw [hc k hk]; ring
  have hf : W.fbar = c := by unfold Win.fbar; rw [hs]; field_simp
  constructor
  · unfold Win.A
    rw [← sumShape_zero (α := α) W.ms]
    apply sumShape_congr; intro k hk; rw [hc k hk, hf]; ring
  · rw [W.N_centered hn]
    rw [← sumShape_zero (α := α) W.ms]
    apply sumShape_congr; intro k hk; rw [hc k hk, hf]; ring

/-- **A planted copy scores exactly 1**: if the window equals the template wherever the mask is non-zero,
then `N = A = B`, so `(N/σ)/(sd·n) = 1` with `σ = sd`. -/
theorem Win.planted_eq_one (hp : ∀ k, inShape W.ms k = true → W.w k * W.a k = W.w k * W.h k) (hn : 0 < W.n)
    (σ : α) (hσ : 0 < σ) (eσ : σ * σ = W.B / W.n) :
    W.N = W.B ∧ W.A = W.B ∧ (W.N / σ) / (σ * W.n) = 1 := by
  have hne := ne_of_gt hn
  have hf : W.fbar = W.mu := by
    unfold Win.fbar Win.mu
    congr 1
    apply sumShape_congr; intro k hk; exact hp k hk
  have hN : W.N = W.B := by
    rw [W.N_centered hne]
    unfold Win.B
    apply sumShape_congr; intro k hk
    have := hp k hk
    rw [hf]
    have e : W.w k * ((W.a k - W.mu) * (W.h k - W.mu)) = (W.w k * W.a k - W.w k * W.mu) * (W.h k - W.mu) := by ring
    rw [e, this]; ring
  have hA : W.A = W.B := by
    unfold Win.A Win.B
    apply sumShape_congr; intro k hk
    have := hp k hk
    rw [hf]
    have e : W.w k * ((W.a k - W.mu) * (W.a k - W.mu)) = (W.w k * W.a k - W.w k * W.mu) * (W.a k - W.mu) := by ring
    rw [e, this]
    have e2 : (W.w k * W.h k - W.w k * W.mu) * (W.a k - W.mu) = (W.h k - W.mu) * (W.w k * W.a k - W.w k * W.mu) := by ring
    rw [e2, this]; ring
  refine ⟨hN, hA, ?_⟩
  have hB : W.B = σ * σ * W.n := by rw [eσ]; field_simp
  rw [hN, hB]
  field_simp

/-- the planted position is a maximum of the whole map: every other value is at most the planted value 1 -/
theorem Win.planted_is_max (V : Win α) (hw : ∀ k, inShape V.ms k = true → 0 ≤ V.w k) (hn : 0 < V.n)
    (σ sd : α) (hσ : 0 < σ) (hsd : 0 < sd) (eσ : σ * σ = V.B / V.n) (esd : sd * sd = V.A / V.n) :
    (V.N / σ) / (sd * V.n) ≤ 1 := by
  have h := V.score_sq_le_one hw hn σ sd hσ hsd eσ esd
  nlinarith [sq_nonneg ((V.N / σ) / (sd * V.n) - 1), sq_nonneg ((V.N / σ) / (sd * V.n) + 1)]

/-! ### invariances (template: positive scale and offset; target: positive scale and offset) -/

/-- template `h ↦ c·h + d` -/
def Win.affT (c d : α) : Win α := { W with h := fun k => c * W.h k + d }
/-- target `a ↦ c·a + d` -/
def Win.affA (c d : α) : Win α := { W with a := fun k => c * W.a k + d }

theorem Win.affT_mu (c d : α) (hn : W.n ≠ 0) : (W.affT c d).mu = c * W.mu + d := by
  unfold Win.mu Win.affT Win.n
  simp only
  have e : (fun k => W.w k * (c * W.h k + d)) = fun k => c * (W.w k * W.h k) + d * W.w k := by funext k; ring
  rw [e, sumShape_add, sumShape_mul_left, sumShape_mul_left]
  have : sumShape W.ms W.w ≠ 0 := hn
  field_simp

theorem Win.affA_fbar (c d : α) (hn : W.n ≠ 0) : (W.affA c d).fbar = c * W.fbar + d := by
  unfold Win.fbar Win.affA Win.n
  simp only
  have e : (fun k => W.w k * (c * W.a k + d)) = fun k => c * (W.w k * W.a k) + d * W.w k := by funext k; ring
  rw [e, sumShape_add, sumShape_mul_left, sumShape_mul_left]
  have : sumShape W.ms W.w ≠ 0 := hn
  field_simp

/-- **Template scale/offset invariance**: `N` and `B` scale as `c` and `c²`, so `N/σ` is unchanged for `c > 0` -/
theorem Win.template_affine (c d : α) (hn : W.n ≠ 0) :
    (W.affT c d).N = c * W.N ∧ (W.affT c d).B = c * c * W.B ∧ (W.affT c d).A = W.A := by
  have hmu := W.affT_mu c d hn
  refine ⟨?_, ?_, rfl⟩
  · unfold Win.N
    rw [hmu, ← sumShape_mul_left]
    apply sumShape_congr; intro k _
    simp only [Win.affT]; ring
  · unfold Win.B
    rw [hmu, ← sumShape_mul_left]
    apply sumShape_congr; intro k _
    simp only [Win.affT]; ring

/-- **Target scale/offset invariance**: `N` and `A` scale as `c` and `c²` (the offset drops out), so
`N/(sd·n)` is unchanged for `c > 0` -/
theorem Win.target_affine (c d : α) (hn : W.n ≠ 0) :
    (W.affA c d).N = c * W.N ∧ (W.affA c d).A = c * c * W.A ∧ (W.affA c d).B = W.B := by
  have hf := W.affA_fbar c d hn
  refine ⟨?_, ?_, rfl⟩
  · rw [(W.affA c d).N_centered hn, W.N_centered hn, hf, ← sumShape_mul_left]
    apply sumShape_congr; intro k _
    have hm : (W.affA c d).mu = W.mu := rfl
    rw [hm]
    simp only [Win.affA]
    ring
  · unfold Win.A
    rw [hf, ← sumShape_mul_left]
    apply sumShape_congr; intro k _
    simp only [Win.affA]; ring

/-- putting the two together: the normalised value is the same for `(c·h+d, c'·a+d')`, `c, c' > 0` -/
theorem Win.score_invariant (c d c' d' : α) (hc : 0 < c) (hc' : 0 < c') (hn : W.n ≠ 0)
    (σ sd : α) (hσ : σ ≠ 0) (hsd : sd ≠ 0) :
    (((W.affT c d).affA c' d').N / (c * σ)) / ((c' * sd) * W.n) = (W.N / σ) / (sd * W.n) := by
  have h1 := (W.affT c d).target_affine c' d' hn
  have h2 := W.template_affine c d hn
  rw [h1.1, h2.1]
  have : c ≠ 0 := ne_of_gt hc
  have : c' ≠ 0 := ne_of_gt hc'
  field_simp

end core

/-! ### MCC is clipped; strict improvement keeps the first best rotation -/

section clip
variable {α : Type} [Field α] [LinearOrder α] [IsStrictOrderedRing α]

/-- whatever the numerator, denominator, overlap and thresholds: the reported MCC value lies in [-1, 1] -/
theorem mcc_clipped (sqrt : α → α) (eps thousand ratio : α) (parts : α × α × α) (maxDen maxOv : α) :
    -1 ≤ mccFinish (ordOps sqrt eps) thousand ratio parts maxDen maxOv ∧
    mccFinish (ordOps sqrt eps) thousand ratio parts maxDen maxOv ≤ 1 := by
  obtain ⟨num, den, ov⟩ := parts
  simp only [mccFinish, ordOps, decide_eq_true_eq]
  split_ifs <;> constructor <;> first | linarith | (simp; done) | (push_neg at *; linarith) | norm_num
end clip

/-! ### the FLC formula of the code, end to end -/

section flc
variable {α : Type} [Field α] [LinearOrder α] [IsStrictOrderedRing α]

/-- the pieces of the FLC-family formulas in terms of the masked window sums (`Win`) -/
theorem flc_core (sqrt : α → α) (hs : SqrtOk sqrt) (eps : α)
    (ms : List Nat) (t : List Int) (f f2 G Wm : List Int → α) (hf2 : ∀ x, f2 x = f x * f x)
    (hw : ∀ k, inShape ms k = true → 0 ≤ Wm (natsToInts k))
    (hn : 0 < sumShape ms (fun k => Wm (natsToInts k)))
    (hvar : 0 < (Win.mk ms (fun k => Wm (natsToInts k)) (fun k => f (specIdx ms t k)) (fun k => G (natsToInts k))).B) :
    let W : Win α := ⟨ms, fun k => Wm (natsToInts k), fun k => f (specIdx ms t k), fun k => G (natsToInts k)⟩
    let σ := sqrt (W.B / W.n)
    let sd0 := sqrt (W.A / W.n)
    maskSum (ordOps sqrt eps) ms Wm = W.n ∧
    normStats (ordOps sqrt eps) ms G Wm W.n = (W.mu, σ) ∧
    corrSpec ms f (normT (ordOps sqrt eps) (W.mu, σ) G Wm) t = W.N / σ ∧
    (ordOps sqrt eps).sqrt ((ordOps sqrt eps).max0 ((ordOps sqrt eps).sub
      ((ordOps sqrt eps).div (corrSpec ms f2 Wm t) W.n)
      ((ordOps sqrt eps).sq ((ordOps sqrt eps).div (corrSpec ms f Wm t) W.n)))) = sd0 ∧
    0 < σ ∧ 0 ≤ sd0 ∧ σ * σ = W.B / W.n ∧ sd0 * sd0 = W.A / W.n ∧
    (∀ k, inShape W.ms k = true → 0 ≤ W.w k) ∧ 0 < W.n := by
  intro W σ sd0
  have hWn : W.n = sumShape ms (fun k => Wm (natsToInts k)) := rfl
  have hnn : W.n ≠ 0 := ne_of_gt hn
  have hw' : ∀ k, inShape W.ms k = true → 0 ≤ W.w k := hw
  -- the pieces of the formula in terms of the window sums
  have e_n : maskSum (ordOps sqrt eps) ms Wm = W.n := by unfold maskSum; rw [boxSum_ord]; rfl
  have e_gw : boxSum (ordOps sqrt eps) ms (fun k => (ordOps sqrt eps).mul (G (natsToInts k)) (Wm (natsToInts k)))
      = sumShape ms (fun k => W.w k * W.h k) := by
    rw [boxSum_ord]; apply sumShape_congr; intro k _; simp [ordOps, W]; ring
  have e_g2w : boxSum (ordOps sqrt eps) ms
      (fun k => (ordOps sqrt eps).mul ((ordOps sqrt eps).sq (G (natsToInts k))) (Wm (natsToInts k)))
      = sumShape ms (fun k => W.w k * (W.h k * W.h k)) := by
    rw [boxSum_ord]; apply sumShape_congr; intro k _; simp [ordOps, Ops.sq, W]; ring
  have e_s1 : corrSpec ms f Wm t = sumShape ms (fun k => W.w k * W.a k) := by
    unfold corrSpec; apply sumShape_congr; intro k _; simp [W]; ring
  have e_s2 : corrSpec ms f2 Wm t = sumShape ms (fun k => W.w k * (W.a k * W.a k)) := by
    unfold corrSpec; apply sumShape_congr; intro k _; simp [W, hf2]; ring
  have hBn : 0 ≤ W.B / W.n := div_nonneg (W.B_nonneg hw') (le_of_lt hn)
  have hAn : 0 ≤ W.A / W.n := div_nonneg (W.A_nonneg hw') (le_of_lt hn)
  -- template statistics
  have e_st : normStats (ordOps sqrt eps) ms G Wm W.n = (W.mu, sqrt (W.B / W.n)) := by
    unfold normStats
    simp only [e_gw, e_g2w]
    have emu : (ordOps sqrt eps).div (sumShape ms (fun k => W.w k * W.h k)) W.n = W.mu := rfl
    rw [emu]
    have evar : (ordOps sqrt eps).sub ((ordOps sqrt eps).div (sumShape ms (fun k => W.w k * (W.h k * W.h k))) W.n)
        ((ordOps sqrt eps).sq W.mu) = W.B / W.n := by
      have := W.var_formula_h hnn
      simp only [ordOps, Ops.sq]
      rw [← this]; unfold Win.mu; ring
    rw [evar, max0_of_nonneg sqrt eps _ hBn]
    rfl
  have hσdef : σ = sqrt (W.B / W.n) := rfl
  have hσσ : σ * σ = W.B / W.n := hs.sq _ hBn
  have hσpos : 0 < σ := by
    have h0 := hs.nonneg (W.B / W.n)
    rcases h0.lt_or_eq with h | h
    · exact h
    · exfalso
      have hz : σ = 0 := by rw [hσdef]; exact h.symm
      have : W.B / W.n = 0 := by rw [← hσσ, hz]; ring
      have hB0 : W.B = 0 := by
        rcases div_eq_zero_iff.mp this with h' | h'
        · exact h'
        · exact absurd h' hnn
      rw [hB0] at hvar; exact lt_irrefl _ hvar
  -- numerator
  have e_num : corrSpec ms f (normT (ordOps sqrt eps) (W.mu, σ) G Wm) t = W.N / σ := by
    unfold corrSpec Win.N
    rw [div_eq_mul_inv, mul_comm, ← sumShape_mul_left]
    apply sumShape_congr; intro k _
    simp only [normT, normApply, ordOps, W]
    field_simp
  -- window standard deviation
  have e_sd : (ordOps sqrt eps).sqrt ((ordOps sqrt eps).max0 ((ordOps sqrt eps).sub
      ((ordOps sqrt eps).div (sumShape ms (fun k => W.w k * (W.a k * W.a k))) W.n)
      ((ordOps sqrt eps).sq ((ordOps sqrt eps).div (sumShape ms (fun k => W.w k * W.a k)) W.n)))) = sd0 := by
    have := W.var_formula_a hnn
    have e : (ordOps sqrt eps).sub ((ordOps sqrt eps).div (sumShape ms (fun k => W.w k * (W.a k * W.a k))) W.n)
        ((ordOps sqrt eps).sq ((ordOps sqrt eps).div (sumShape ms (fun k => W.w k * W.a k)) W.n)) = W.A / W.n := by
      simp only [ordOps, Ops.sq]; rw [← this]; ring
    rw [e, max0_of_nonneg sqrt eps _ hAn]
    rfl
  have hsd_sq : sd0 * sd0 = W.A / W.n := hs.sq _ hAn
  have hsd_nn : 0 ≤ sd0 := hs.nonneg _
  refine ⟨e_n, e_st, e_num, ?_, hσpos, hsd_nn, hσσ, hsd_sq, hw', hn⟩
  rw [e_s1, e_s2]; exact e_sd

/-- **The FLC value the code's formula yields is in [-1, 1]** (squared form), for every target field `f`, every
translation `t`, every template `G` and every non-negative mask `Wm` (binary, soft, interpolated) with positive
mass and a template that is not constant under it — including the guard branch for (near-)constant windows.
Together with C01's `flc_impl_eq_spec` this bounds what the FFT pipeline computes in exact arithmetic. -/
theorem flc_formula_sq_le_one (sqrt : α → α) (hs : SqrtOk sqrt) (eps : α) (he0 : 0 < eps) (he1 : eps ≤ 1)
    (ms : List Nat) (t : List Int) (f f2 G Wm : List Int → α) (hf2 : ∀ x, f2 x = f x * f x)
    (hw : ∀ k, inShape ms k = true → 0 ≤ Wm (natsToInts k))
    (hn : 0 < sumShape ms (fun k => Wm (natsToInts k)))
    (hvar : 0 < (Win.mk ms (fun k => Wm (natsToInts k)) (fun k => f (specIdx ms t k)) (fun k => G (natsToInts k))).B) :
    (scoreFLC (ordOps sqrt eps) (fun a b => corrSpec ms a b t) ms f f2 G Wm) ^ 2 ≤ 1 := by
  obtain ⟨e_n, e_st, e_num, e_sd, hσpos, hsd_nn, hσσ, hsd_sq, hw', hn'⟩ := flc_core sqrt hs eps ms t f f2 G Wm hf2 hw hn hvar
  set W : Win α := ⟨ms, fun k => Wm (natsToInts k), fun k => f (specIdx ms t k), fun k => G (natsToInts k)⟩
  set σ := sqrt (W.B / W.n)
  set sd0 := sqrt (W.A / W.n)
  unfold scoreFLC
  simp only [e_n, e_st, e_num, e_sd]
  by_cases hg : sd0 < eps
  · have : (ordOps sqrt eps).lt sd0 (ordOps sqrt eps).eps = true := by simp [ordOps, hg]
    simp only [this, if_true]
    have hb := W.guard_branch_small hw' hn' σ sd0 hσpos hsd_nn hσσ hsd_sq
    have e : (ordOps sqrt eps).div (W.N / σ) ((ordOps sqrt eps).mul (ordOps sqrt eps).one W.n) = (W.N / σ) / W.n := by
      simp [ordOps]
    rw [e]
    have : sd0 ^ 2 ≤ 1 := by nlinarith
    linarith
  · have : (ordOps sqrt eps).lt sd0 (ordOps sqrt eps).eps = false := by simp [ordOps, hg]
    simp only [this, if_false, Bool.false_eq_true]
    have hsdpos : 0 < sd0 := lt_of_lt_of_le he0 (not_lt.mp hg)
    have e : (ordOps sqrt eps).div (W.N / σ) ((ordOps sqrt eps).mul sd0 W.n) = (W.N / σ) / (sd0 * W.n) := by
      simp [ordOps]
    rw [e]
    exact W.score_sq_le_one hw' hn' σ sd0 hσpos hsdpos hσσ hsd_sq

/-- **FLCSphericalMask** (mask not rotated, template standardised at setup and again after rotation): the value of the
code's formula is in [-1, 1] as well; `G` is whatever the rotated, once-standardised template is. -/
theorem flcSph_formula_sq_le_one (sqrt : α → α) (hs : SqrtOk sqrt) (eps : α) (he0 : 0 < eps)
    (ms : List Nat) (t : List Int) (rot : (List Int → α) → (List Int → α)) (f f2 g Wm : List Int → α)
    (hf2 : ∀ x, f2 x = f x * f x)
    (hw : ∀ k, inShape ms k = true → 0 ≤ Wm (natsToInts k))
    (hn : 0 < sumShape ms (fun k => Wm (natsToInts k)))
    (hvar : 0 < (Win.mk ms (fun k => Wm (natsToInts k)) (fun k => f (specIdx ms t k))
        (fun k => rot (normT (ordOps sqrt eps) (normStats (ordOps sqrt eps) ms g Wm (maskSum (ordOps sqrt eps) ms Wm)) g Wm) (natsToInts k))).B) :
    (scoreFLCSph (ordOps sqrt eps) (fun a b => corrSpec ms a b t) ms rot f f2 g Wm) ^ 2 ≤ 1 := by
  set G := rot (normT (ordOps sqrt eps) (normStats (ordOps sqrt eps) ms g Wm (maskSum (ordOps sqrt eps) ms Wm)) g Wm) with hG
  obtain ⟨e_n, e_st, e_num, e_sd, hσpos, hsd_nn, hσσ, hsd_sq, hw', hn'⟩ := flc_core sqrt hs eps ms t f f2 G Wm hf2 hw hn hvar
  set W : Win α := ⟨ms, fun k => Wm (natsToInts k), fun k => f (specIdx ms t k), fun k => G (natsToInts k)⟩
  set σ := sqrt (W.B / W.n)
  set sd0 := sqrt (W.A / W.n)
  have hG2 : rot (normT (ordOps sqrt eps) (normStats (ordOps sqrt eps) ms g Wm W.n) g Wm) = G := by rw [hG, e_n]
  unfold scoreFLCSph
  simp only [e_n, hG2, e_st, e_num, e_sd]
  by_cases hg : eps < sd0
  · have : (ordOps sqrt eps).lt (ordOps sqrt eps).eps sd0 = true := by simp [ordOps, hg]
    simp only [this, if_true]
    have hsdpos : 0 < sd0 := lt_trans he0 hg
    have e : (ordOps sqrt eps).mul (W.N / σ) ((ordOps sqrt eps).div (ordOps sqrt eps).one ((ordOps sqrt eps).mul sd0 W.n))
        = (W.N / σ) / (sd0 * W.n) := by
      simp [ordOps]; ring
    rw [e]
    exact W.score_sq_le_one hw' hn' σ sd0 hσpos hsdpos hσσ hsd_sq
  · have : (ordOps sqrt eps).lt (ordOps sqrt eps).eps sd0 = false := by simp [ordOps, hg]
    simp only [this, if_false, Bool.false_eq_true]
    simp [ordOps]

/-- the box sum of the constant 1 is the number of voxels -/
theorem sumShape_one : ∀ (ms : List Nat), sumShape ms (fun _ => (1 : α)) = ((prodL ms : Nat) : α)
  | [] => by simp [sumShape, prodL]
  | m :: ms => by
    simp only [sumShape, prodL, sumShape_one ms]
    induction m with
    | zero => simp [sumRange]
    | succ k ih => simp only [sumRange, ih]; push_cast; ring

/-- **CORR / CAM with the full-box mask** (the default when no template mask is given; CAM is CORR on the
standardised target): the value of the code's formula (`corr_setup` + `corr_scoring`, Model/C01.scoreCORR on
windowed sums, incl. its `eps` guard) is in [-1, 1] for every target, translation, template and every rotation that
permutes the box (`RotSum`: identity, all grid rotations).  Here the numerator is `Σ f·H − (Σ f)·mean(H)` and the
denominator `sqrt((Σ f² − (Σ f)²/n)·Σ (H − mean)²)` with `H` the rotated standardised template — Cauchy–Schwarz
directly, no division by a template deviation. -/
theorem corr_formula_sq_le_one_fullmask (sqrt : α → α) (hs : SqrtOk sqrt) (eps : α) (he0 : 0 < eps)
    (ms : List Nat) (t : List Int) (rot : (List Int → α) → (List Int → α)) (hr : RotSum ms rot)
    (f f2 g Wm : List Int → α) (hf2 : ∀ x, f2 x = f x * f x)
    (hfull : ∀ k, inShape ms k = true → Wm (natsToInts k) = 1) (hpos : 0 < prodL ms) :
    (scoreCORR (ordOps sqrt eps) (fun a b => corrSpec ms a b t) ms rot f f2 g Wm) ^ 2 ≤ 1 := by
  set o := ordOps sqrt eps with ho
  have e_n : maskSum o ms Wm = ((prodL ms : Nat) : α) := by
    unfold maskSum; rw [ho, boxSum_ord, ← sumShape_one ms]
    exact sumShape_congr ms _ _ (fun k hk => hfull k hk)
  set n : α := ((prodL ms : Nat) : α) with hn
  have hnpos : 0 < n := by rw [hn]; exact_mod_cast hpos
  have hnn : n ≠ 0 := ne_of_gt hnpos
  set st := normStats o ms g Wm n with hst
  set gh : List Int → α := normT o st g Wm with hgh
  set g2 : List Int → α := fun x => o.mul (gh x) (Wm x) with hg2
  set H : List Int → α := rot g2 with hH
  -- the window: weights 1, a = target window, h = rotated standardised template
  set W : Win α := ⟨ms, fun _ => 1, fun k => f (specIdx ms t k), fun k => H (natsToInts k)⟩ with hW
  have hw' : ∀ k, inShape W.ms k = true → 0 ≤ W.w k := fun _ _ => zero_le_one
  have hWn : W.n = n := by show sumShape ms (fun _ => (1 : α)) = n; rw [sumShape_one]
  have hWnn : W.n ≠ 0 := by rw [hWn]; exact hnn
  -- g2 = gh on the box
  have g2box : ∀ k, inShape ms k = true → g2 (natsToInts k) = gh (natsToInts k) := by
    intro k hk; simp [hg2, ho, ordOps, hfull k hk]
  -- mean of the standardised template = mean of its rotation
  have e_mean : o.div (boxSum o ms (fun k => o.mul (gh (natsToInts k)) (Wm (natsToInts k)))) n = W.mu := by
    rw [ho, boxSum_ord]
    show sumShape ms (fun k => gh (natsToInts k) * Wm (natsToInts k)) / n = W.mu
    unfold Win.mu; rw [hWn]
    have : sumShape ms (fun k => gh (natsToInts k) * Wm (natsToInts k)) = sumShape ms (fun k => g2 (natsToInts k)) :=
      sumShape_congr ms _ _ (fun k hk => by simp [hg2, ho, ordOps])
    rw [this, ← hr.sum g2]
    congr 1
    exact sumShape_congr ms _ _ (fun k _ => by simp [hW, hH])
  -- Σ (gh − mean)² = Σ (H − mean)²
  have e_ssd : boxSum o ms (fun k => o.mul (o.sq (o.sub (gh (natsToInts k)) W.mu)) (Wm (natsToInts k))) = W.B := by
    rw [ho, boxSum_ord]
    have h1 : sumShape ms (fun k => (ordOps sqrt eps).mul ((ordOps sqrt eps).sq ((ordOps sqrt eps).sub (gh (natsToInts k)) W.mu)) (Wm (natsToInts k)))
        = sumShape ms (fun k => (fun x => (g2 x - W.mu) * (g2 x - W.mu)) (natsToInts k)) :=
      sumShape_congr ms _ _ (fun k hk => by
        simp only [ordOps, Ops.sq]; rw [hfull k hk, g2box k hk]; ring)
    rw [h1, ← hr.sum (fun x => (g2 x - W.mu) * (g2 x - W.mu))]
    have h2 := hr.map2 (fun a _ => (a - W.mu) * (a - W.mu)) g2 g2
    unfold Win.B
    apply sumShape_congr; intro k _
    have := congrFun h2 (natsToInts k)
    beta_reduce at this
    rw [← this]
    exact (one_mul _).symm
  have hms : W.ms = ms := rfl
  have e_ws : corrSpec ms f Wm t = sumShape W.ms (fun k => W.w k * W.a k) := by
    rw [hms]; unfold corrSpec; apply sumShape_congr; intro k hk; rw [hfull k hk]; exact (mul_comm _ _)
  have e_s2 : corrSpec ms f2 Wm t = sumShape W.ms (fun k => W.w k * (W.a k * W.a k)) := by
    rw [hms]; unfold corrSpec; apply sumShape_congr; intro k hk; rw [hfull k hk, hf2]; exact (mul_comm _ _)
  have e_fH : corrSpec ms f H t = sumShape W.ms (fun k => W.w k * (W.a k * W.h k)) := by
    rw [hms]; unfold corrSpec; apply sumShape_congr; intro k _; exact (one_mul _).symm
  -- denominator factor on the target side
  have e_den0 : o.sub (corrSpec ms f2 Wm t) (o.div (o.sq (corrSpec ms f Wm t)) (o.ofNat (prodL ms))) = W.A := by
    have := W.var_formula_a hWnn
    rw [e_ws, e_s2]
    have hof : o.ofNat (prodL ms) = n := rfl
    rw [hof]
    simp only [ho, ordOps, Ops.sq]
    rw [hWn] at this
    have h3 : W.A = (sumShape W.ms (fun k => W.w k * (W.a k * W.a k)) / n
        - (sumShape W.ms (fun k => W.w k * W.a k) / n) ^ 2) * n := by rw [this]; field_simp
    rw [h3]; field_simp
  -- numerator
  have e_num : o.sub (corrSpec ms f H t) (o.mul (corrSpec ms f Wm t) W.mu) = W.N := by
    rw [e_ws, e_fH]
    unfold Win.N
    have e : (fun k => W.w k * (W.a k * (W.h k - W.mu)))
        = fun k => W.w k * (W.a k * W.h k) - W.mu * (W.w k * W.a k) := by funext k; ring
    rw [e, sumShape_sub, sumShape_mul_left W.ms W.mu (fun k => W.w k * W.a k)]
    simp only [ho, ordOps]; ring
  have hAB : 0 ≤ W.A * W.B := mul_nonneg (W.A_nonneg hw') (W.B_nonneg hw')
  unfold scoreCORR
  simp only [← ho, e_n, ← hst, ← hgh, e_mean, e_ssd, e_den0, e_num, ← hH, ← hg2]
  have hmul : o.mul W.A W.B = W.A * W.B := rfl
  have hmax : o.max0 (W.A * W.B) = W.A * W.B := max0_of_nonneg sqrt eps _ hAB
  rw [hmul, hmax]
  have hsq : o.sqrt (W.A * W.B) = sqrt (W.A * W.B) := rfl
  rw [hsq]
  generalize hden : sqrt (W.A * W.B) = den
  have hdd : den * den = W.A * W.B := by rw [← hden]; exact hs.sq _ hAB
  by_cases hg : eps < den
  · have : o.lt o.eps den = true := by simp [ho, ordOps, hg]
    simp only [this, if_true]
    have hdpos : 0 < den := lt_trans he0 hg
    have e : o.mul W.N (o.div o.one den) = W.N / den := by simp [ho, ordOps]; ring
    rw [e, div_pow, div_le_one (by positivity)]
    have := W.num_sq_le hw' hWnn
    nlinarith
  · have : o.lt o.eps den = false := by simp [ho, ordOps, hg]
    simp only [this, if_false, Bool.false_eq_true]
    simp [ho, ordOps]

/-- the same for every one of the 24 grid rotations admissible for a 3-D box (and `rotSum_grid2`, `rotSum_id`
give 2-D and the identity) -/
theorem corr_formula_sq_le_one_grid3 (sqrt : α → α) (hs : SqrtOk sqrt) (eps : α) (he0 : 0 < eps)
    (R : GridRot) (a b c : Nat) (hR : GridOk3 R a b c) (t : List Int)
    (f f2 g Wm : List Int → α) (hf2 : ∀ x, f2 x = f x * f x)
    (hfull : ∀ k, inShape [a, b, c] k = true → Wm (natsToInts k) = 1) (hpos : 0 < prodL [a, b, c]) :
    (scoreCORR (ordOps sqrt eps) (fun u v => corrSpec [a, b, c] u v t) [a, b, c] (rotF R [a, b, c]) f f2 g Wm) ^ 2 ≤ 1 :=
  corr_formula_sq_le_one_fullmask sqrt hs eps he0 [a, b, c] t _ (rotSum_grid3 R a b c hR) f f2 g Wm hf2 hfull hpos

/-- a non-negative number with the right square is the square root -/
theorem SqrtOk.unique {sqrt : α → α} (hs : SqrtOk sqrt) (x t : α) (hx : 0 ≤ x) (ht : 0 ≤ t) (h : t * t = x) : sqrt x = t := by
  have h1 := hs.sq x hx
  have h0 := hs.nonneg x
  have : (sqrt x - t) * (sqrt x + t) = 0 := by ring_nf; nlinarith
  rcases mul_eq_zero.mp this with h2 | h2
  · linarith
  · have : sqrt x = 0 ∧ t = 0 := by constructor <;> linarith
    rw [this.1, this.2]

/-- the value of the code's FLC formula in closed form, in terms of the window sums -/
theorem flc_value (sqrt : α → α) (hs : SqrtOk sqrt) (eps : α)
    (ms : List Nat) (t : List Int) (f f2 G Wm : List Int → α) (hf2 : ∀ x, f2 x = f x * f x)
    (hw : ∀ k, inShape ms k = true → 0 ≤ Wm (natsToInts k))
    (hn : 0 < sumShape ms (fun k => Wm (natsToInts k)))
    (hvar : 0 < (Win.mk ms (fun k => Wm (natsToInts k)) (fun k => f (specIdx ms t k)) (fun k => G (natsToInts k))).B) :
    scoreFLC (ordOps sqrt eps) (fun a b => corrSpec ms a b t) ms f f2 G Wm
      = ((Win.mk ms (fun k => Wm (natsToInts k)) (fun k => f (specIdx ms t k)) (fun k => G (natsToInts k))).N
          / sqrt ((Win.mk ms (fun k => Wm (natsToInts k)) (fun k => f (specIdx ms t k)) (fun k => G (natsToInts k))).B
                  / (Win.mk ms (fun k => Wm (natsToInts k)) (fun k => f (specIdx ms t k)) (fun k => G (natsToInts k))).n))
        / ((if sqrt ((Win.mk ms (fun k => Wm (natsToInts k)) (fun k => f (specIdx ms t k)) (fun k => G (natsToInts k))).A
                  / (Win.mk ms (fun k => Wm (natsToInts k)) (fun k => f (specIdx ms t k)) (fun k => G (natsToInts k))).n) < eps
            then 1
            else sqrt ((Win.mk ms (fun k => Wm (natsToInts k)) (fun k => f (specIdx ms t k)) (fun k => G (natsToInts k))).A
                  / (Win.mk ms (fun k => Wm (natsToInts k)) (fun k => f (specIdx ms t k)) (fun k => G (natsToInts k))).n))
           * (Win.mk ms (fun k => Wm (natsToInts k)) (fun k => f (specIdx ms t k)) (fun k => G (natsToInts k))).n) := by
  obtain ⟨e_n, e_st, e_num, e_sd, -, -, -, -, -, -⟩ := flc_core sqrt hs eps ms t f f2 G Wm hf2 hw hn hvar
  unfold scoreFLC
  simp only [e_n, e_st, e_num, e_sd]
  by_cases h : sqrt ((Win.mk ms (fun k => Wm (natsToInts k)) (fun k => f (specIdx ms t k)) (fun k => G (natsToInts k))).A
      / (Win.mk ms (fun k => Wm (natsToInts k)) (fun k => f (specIdx ms t k)) (fun k => G (natsToInts k))).n) < eps
  · have hl : (ordOps sqrt eps).lt (sqrt ((Win.mk ms (fun k => Wm (natsToInts k)) (fun k => f (specIdx ms t k)) (fun k => G (natsToInts k))).A
      / (Win.mk ms (fun k => Wm (natsToInts k)) (fun k => f (specIdx ms t k)) (fun k => G (natsToInts k))).n)) (ordOps sqrt eps).eps = true := by
      simp [ordOps, h]
    simp only [hl, if_true, if_pos h]
    simp [ordOps]
  · have hl : (ordOps sqrt eps).lt (sqrt ((Win.mk ms (fun k => Wm (natsToInts k)) (fun k => f (specIdx ms t k)) (fun k => G (natsToInts k))).A
      / (Win.mk ms (fun k => Wm (natsToInts k)) (fun k => f (specIdx ms t k)) (fun k => G (natsToInts k))).n)) (ordOps sqrt eps).eps = false := by
      simp [ordOps, h]
    simp only [hl, if_false, Bool.false_eq_true, if_neg h]
    simp [ordOps]

/-- the same statement for an abstract window: what target scaling does to the closed form -/
theorem Win.flc_closed_affine (W : Win α) (sqrt : α → α) (hs : SqrtOk sqrt) (eps c d : α) (hc : 0 < c)
    (hw : ∀ k, inShape W.ms k = true → 0 ≤ W.w k) (hn : 0 < W.n)
    (hg : ¬ sqrt (W.A / W.n) < eps) (hg' : ¬ c * sqrt (W.A / W.n) < eps) :
    ((W.affA c d).N / sqrt ((W.affA c d).B / (W.affA c d).n))
        / ((if sqrt ((W.affA c d).A / (W.affA c d).n) < eps then 1 else sqrt ((W.affA c d).A / (W.affA c d).n)) * (W.affA c d).n)
      = (W.N / sqrt (W.B / W.n)) / ((if sqrt (W.A / W.n) < eps then 1 else sqrt (W.A / W.n)) * W.n) := by
  have hnn : W.n ≠ 0 := ne_of_gt hn
  obtain ⟨hN2, hA2, hB2⟩ := W.target_affine c d hnn
  have hn2 : (W.affA c d).n = W.n := rfl
  have hAn : 0 ≤ W.A / W.n := div_nonneg (W.A_nonneg hw) (le_of_lt hn)
  have hsq : sqrt ((W.affA c d).A / (W.affA c d).n) = c * sqrt (W.A / W.n) := by
    rw [hA2, hn2]
    apply hs.unique
    · have : c * c * W.A / W.n = c * c * (W.A / W.n) := by ring
      rw [this]; positivity
    · exact mul_nonneg (le_of_lt hc) (hs.nonneg _)
    · have := hs.sq _ hAn
      calc c * sqrt (W.A / W.n) * (c * sqrt (W.A / W.n)) = c * c * (sqrt (W.A / W.n) * sqrt (W.A / W.n)) := by ring
        _ = c * c * W.A / W.n := by rw [this]; ring
  rw [hsq, hN2, hB2, hn2, if_neg hg, if_neg hg']
  have hcne : c ≠ 0 := ne_of_gt hc
  by_cases h0 : sqrt (W.A / W.n) = 0
  · simp [h0]
  · by_cases h1 : sqrt (W.B / W.n) = 0
    · simp [h1]
    · field_simp

/-- **Intensity invariance of the FLC formula itself** (not only of its ingredients): replacing the target by
`c·f + d` with `c > 0` leaves the value of the code's formula unchanged, for every translation, template and
non-negative mask — as long as neither window falls under the code's *absolute* low-variance guard (`sd ≥ eps` before
and after; inside the guard the code deliberately returns the un-normalised value, which is what the float32 finding
at large offsets and the seeded "guard on the variance" changes are about). -/
theorem flc_formula_target_affine_invariant (sqrt : α → α) (hs : SqrtOk sqrt) (eps : α)
    (ms : List Nat) (t : List Int) (f G Wm : List Int → α) (c d : α) (hc : 0 < c)
    (hw : ∀ k, inShape ms k = true → 0 ≤ Wm (natsToInts k))
    (hn : 0 < sumShape ms (fun k => Wm (natsToInts k)))
    (hvar : 0 < (Win.mk ms (fun k => Wm (natsToInts k)) (fun k => f (specIdx ms t k)) (fun k => G (natsToInts k))).B)
    (hg : ¬ sqrt ((Win.mk ms (fun k => Wm (natsToInts k)) (fun k => f (specIdx ms t k)) (fun k => G (natsToInts k))).A
                / (Win.mk ms (fun k => Wm (natsToInts k)) (fun k => f (specIdx ms t k)) (fun k => G (natsToInts k))).n) < eps)
    (hg' : ¬ c * sqrt ((Win.mk ms (fun k => Wm (natsToInts k)) (fun k => f (specIdx ms t k)) (fun k => G (natsToInts k))).A
                / (Win.mk ms (fun k => Wm (natsToInts k)) (fun k => f (specIdx ms t k)) (fun k => G (natsToInts k))).n) < eps) :
    scoreFLC (ordOps sqrt eps) (fun a b => corrSpec ms a b t) ms (fun x => c * f x + d) (fun x => (c * f x + d) * (c * f x + d)) G Wm
      = scoreFLC (ordOps sqrt eps) (fun a b => corrSpec ms a b t) ms f (fun x => f x * f x) G Wm := by
  have hnn : (Win.mk ms (fun k => Wm (natsToInts k)) (fun k => f (specIdx ms t k)) (fun k => G (natsToInts k))).n ≠ 0 :=
    ne_of_gt hn
  have haff := (Win.mk ms (fun k => Wm (natsToInts k)) (fun k => f (specIdx ms t k)) (fun k => G (natsToInts k))).target_affine c d hnn
  have hvar' : 0 < (Win.mk ms (fun k => Wm (natsToInts k)) (fun k => (fun x => c * f x + d) (specIdx ms t k))
      (fun k => G (natsToInts k))).B := by
    have : (Win.mk ms (fun k => Wm (natsToInts k)) (fun k => (fun x => c * f x + d) (specIdx ms t k)) (fun k => G (natsToInts k)))
        = (Win.mk ms (fun k => Wm (natsToInts k)) (fun k => f (specIdx ms t k)) (fun k => G (natsToInts k))).affA c d := rfl
    rw [this, haff.2.2]; exact hvar
  rw [flc_value sqrt hs eps ms t f _ G Wm (fun _ => rfl) hw hn hvar,
      flc_value sqrt hs eps ms t (fun x => c * f x + d) _ G Wm (fun _ => rfl) hw hn hvar']
  exact Win.flc_closed_affine (Win.mk ms (fun k => Wm (natsToInts k)) (fun k => f (specIdx ms t k)) (fun k => G (natsToInts k)))
    sqrt hs eps c d hc hw hn hg hg'

/-- **A planted copy scores exactly 1 in the code's FLC formula**: when the target window at translation `t` equals
the (rotated) template wherever the (rotated) mask is non-zero and the window is not under the low-variance guard, the
formula's value is 1 — and by `flc_formula_sq_le_one` no other value of the map exceeds it. -/
theorem flc_formula_planted_eq_one (sqrt : α → α) (hs : SqrtOk sqrt) (eps : α)
    (ms : List Nat) (t : List Int) (f G Wm : List Int → α)
    (hw : ∀ k, inShape ms k = true → 0 ≤ Wm (natsToInts k))
    (hn : 0 < sumShape ms (fun k => Wm (natsToInts k)))
    (hvar : 0 < (Win.mk ms (fun k => Wm (natsToInts k)) (fun k => f (specIdx ms t k)) (fun k => G (natsToInts k))).B)
    (hplant : ∀ k, inShape ms k = true → Wm (natsToInts k) * f (specIdx ms t k) = Wm (natsToInts k) * G (natsToInts k))
    (hg : ¬ sqrt ((Win.mk ms (fun k => Wm (natsToInts k)) (fun k => f (specIdx ms t k)) (fun k => G (natsToInts k))).B
                / (Win.mk ms (fun k => Wm (natsToInts k)) (fun k => f (specIdx ms t k)) (fun k => G (natsToInts k))).n) < eps) :
    scoreFLC (ordOps sqrt eps) (fun a b => corrSpec ms a b t) ms f (fun x => f x * f x) G Wm = 1 := by
  rw [flc_value sqrt hs eps ms t f _ G Wm (fun _ => rfl) hw hn hvar]
  generalize hWdef : (Win.mk ms (fun k => Wm (natsToInts k)) (fun k => f (specIdx ms t k)) (fun k => G (natsToInts k))) = W at *
  have hn' : 0 < W.n := by rw [← hWdef]; exact hn
  have hp : ∀ k, inShape W.ms k = true → W.w k * W.a k = W.w k * W.h k := by rw [← hWdef]; exact hplant
  have hw' : ∀ k, inShape W.ms k = true → 0 ≤ W.w k := by rw [← hWdef]; exact hw
  have hBn : 0 ≤ W.B / W.n := div_nonneg (W.B_nonneg hw') (le_of_lt hn')
  have hσσ : sqrt (W.B / W.n) * sqrt (W.B / W.n) = W.B / W.n := hs.sq _ hBn
  have hσpos : 0 < sqrt (W.B / W.n) := by
    rcases (hs.nonneg (W.B / W.n)).lt_or_eq with h | h
    · exact h
    · exfalso
      have : W.B / W.n = 0 := by rw [← hσσ, ← h]; ring
      rcases div_eq_zero_iff.mp this with h' | h'
      · rw [h'] at hvar; exact lt_irrefl _ hvar
      · exact (ne_of_gt hn') h'
  obtain ⟨_, hAB, h1⟩ := W.planted_eq_one hp hn' (sqrt (W.B / W.n)) hσpos hσσ
  rw [hAB, if_neg hg]
  exact h1

/-- **MCC (Padfield) before clipping is already in [-1, 1].**  For a binary template mask `W` (`W² = W`, rotated or not),
any non-negative target mask `tm` (with `fm = f·tm`, `fm2 = f²·tm`, as the code builds them from a 0/1 target mask) and a
mask overlap above the code's `eps` guard, the numerator and denominator the code computes per voxel satisfy
`num² ≤ den²` — Cauchy–Schwarz with the weights `tm(t+k)·W(k)`.  So in exact arithmetic the final clip of
`mcc_scoring` never changes a value; it only absorbs rounding. -/
theorem mcc_parts_cauchy_schwarz (sqrt : α → α) (hs : SqrtOk sqrt) (eps : α) (he0 : 0 < eps)
    (ms : List Nat) (t : List Int) (f fm fm2 tm G W : List Int → α)
    (hfm : ∀ x, fm x = f x * tm x) (hfm2 : ∀ x, fm2 x = f x * f x * tm x)
    (htm : ∀ x, 0 ≤ tm x)
    (hW0 : ∀ k, inShape ms k = true → 0 ≤ W (natsToInts k))
    (hWb : ∀ k, inShape ms k = true → W (natsToInts k) * W (natsToInts k) = W (natsToInts k))
    (hov : ¬ corrSpec ms tm W t < eps) :
    (mccParts (ordOps sqrt eps) (fun a b => corrSpec ms a b t) ms fm fm2 tm G W).1 ^ 2
      ≤ (mccParts (ordOps sqrt eps) (fun a b => corrSpec ms a b t) ms fm fm2 tm G W).2.1 ^ 2 := by
  generalize hst : normStats (ordOps sqrt eps) ms G W (maskSum (ordOps sqrt eps) ms W) = st
  -- the window with weights u = tm(t+k)·W(k)
  have key : ∀ V : Win α, V = ⟨ms, fun k => tm (specIdx ms t k) * W (natsToInts k), fun k => f (specIdx ms t k),
      fun k => (G (natsToInts k) - st.1) / st.2⟩ →
      (mccParts (ordOps sqrt eps) (fun a b => corrSpec ms a b t) ms fm fm2 tm G W).1 ^ 2
        ≤ (mccParts (ordOps sqrt eps) (fun a b => corrSpec ms a b t) ms fm fm2 tm G W).2.1 ^ 2 := by
    intro V hV
    have hVms : V.ms = ms := by rw [hV]
    have hVw : ∀ k, V.w k = tm (specIdx ms t k) * W (natsToInts k) := by intro k; rw [hV]
    have hVa : ∀ k, V.a k = f (specIdx ms t k) := by intro k; rw [hV]
    have hVh : ∀ k, V.h k = (G (natsToInts k) - st.1) / st.2 := by intro k; rw [hV]
    have hw' : ∀ k, inShape V.ms k = true → 0 ≤ V.w k := by
      intro k hk; rw [hVw]; rw [hVms] at hk; exact mul_nonneg (htm _) (hW0 k hk)
    -- the six correlation sums in terms of the window
    have e_ov : corrSpec ms tm W t = V.n := by
      unfold corrSpec Win.n; rw [hVms]; apply sumShape_congr; intro k _; rw [hVw]
    have e_t : corrSpec ms fm W t = sumShape V.ms (fun k => V.w k * V.a k) := by
      unfold corrSpec; rw [hVms]; apply sumShape_congr; intro k _; rw [hVw, hVa, hfm]; ring
    have e_t2 : corrSpec ms tm (normT (ordOps sqrt eps) st G W) t = sumShape V.ms (fun k => V.w k * V.h k) := by
      unfold corrSpec; rw [hVms]; apply sumShape_congr; intro k _
      rw [hVw, hVh]; simp only [normT, normApply, ordOps]; ring
    have e_n0 : corrSpec ms fm (normT (ordOps sqrt eps) st G W) t = sumShape V.ms (fun k => V.w k * (V.a k * V.h k)) := by
      unfold corrSpec; rw [hVms]; apply sumShape_congr; intro k _
      rw [hVw, hVa, hVh, hfm]; simp only [normT, normApply, ordOps]; ring
    have e_f2 : corrSpec ms fm2 W t = sumShape V.ms (fun k => V.w k * (V.a k * V.a k)) := by
      unfold corrSpec; rw [hVms]; apply sumShape_congr; intro k _; rw [hVw, hVa, hfm2]; ring
    have e_h2 : corrSpec ms tm (fun x => (ordOps sqrt eps).sq (normT (ordOps sqrt eps) st G W x)) t
        = sumShape V.ms (fun k => V.w k * (V.h k * V.h k)) := by
      unfold corrSpec; rw [hVms]; apply sumShape_congr; intro k hk
      rw [hVw, hVh]; simp only [normT, normApply, ordOps, Ops.sq]
      have := hWb k hk
      calc tm (specIdx ms t k) * ((G (natsToInts k) - st.1) / st.2 * W (natsToInts k) * ((G (natsToInts k) - st.1) / st.2 * W (natsToInts k)))
          = tm (specIdx ms t k) * ((G (natsToInts k) - st.1) / st.2 * ((G (natsToInts k) - st.1) / st.2)) * (W (natsToInts k) * W (natsToInts k)) := by ring
        _ = _ := by rw [this]; ring
    have hnpos : 0 < V.n := by rw [← e_ov]; exact lt_of_lt_of_le he0 (not_lt.mp hov)
    have hnn : V.n ≠ 0 := ne_of_gt hnpos
    have hg : (ordOps sqrt eps).lt V.n (ordOps sqrt eps).eps = false := by
      have : ¬ V.n < eps := by rw [← e_ov]; exact hov
      simp [ordOps, this]
    -- numerator and the two variance terms
    have eN : sumShape V.ms (fun k => V.w k * (V.a k * V.h k))
        - sumShape V.ms (fun k => V.w k * V.a k) * sumShape V.ms (fun k => V.w k * V.h k) / V.n = V.N := by
      unfold Win.N Win.mu
      have e : (fun k => V.w k * (V.a k * (V.h k - sumShape V.ms (fun k => V.w k * V.h k) / V.n)))
          = fun k => V.w k * (V.a k * V.h k) - (sumShape V.ms (fun k => V.w k * V.h k) / V.n) * (V.w k * V.a k) := by
        funext k; ring
      rw [e, sumShape_sub, sumShape_mul_left V.ms _ (fun k => V.w k * V.a k)]
      field_simp
    have eA : sumShape V.ms (fun k => V.w k * (V.a k * V.a k)) - (sumShape V.ms (fun k => V.w k * V.a k)) ^ 2 / V.n = V.A := by
      have := V.var_formula_a hnn
      have h3 : V.A = (sumShape V.ms (fun k => V.w k * (V.a k * V.a k)) / V.n
          - (sumShape V.ms (fun k => V.w k * V.a k) / V.n) ^ 2) * V.n := by rw [this]; field_simp
      rw [h3]; field_simp
    have eB : sumShape V.ms (fun k => V.w k * (V.h k * V.h k)) - (sumShape V.ms (fun k => V.w k * V.h k)) ^ 2 / V.n = V.B := by
      have := V.var_formula_h hnn
      have h3 : V.B = (sumShape V.ms (fun k => V.w k * (V.h k * V.h k)) / V.n
          - (sumShape V.ms (fun k => V.w k * V.h k) / V.n) ^ 2) * V.n := by rw [this]; field_simp
      rw [h3]; field_simp
    have hA0 := V.A_nonneg hw'
    have hB0 := V.B_nonneg hw'
    unfold mccParts
    simp only [hst, e_ov, e_t, e_t2, e_n0, e_f2, e_h2]
    simp only [hg, if_false, Bool.false_eq_true]
    have e1 : (ordOps sqrt eps).sub (sumShape V.ms fun k => V.w k * (V.a k * V.h k))
        ((ordOps sqrt eps).div ((ordOps sqrt eps).mul (sumShape V.ms fun k => V.w k * V.a k) (sumShape V.ms fun k => V.w k * V.h k)) V.n)
        = V.N := eN
    have e2 : (ordOps sqrt eps).sub (sumShape V.ms fun k => V.w k * (V.a k * V.a k))
        ((ordOps sqrt eps).div ((ordOps sqrt eps).sq (sumShape V.ms fun k => V.w k * V.a k)) V.n) = V.A := by
      rw [← eA]; simp only [ordOps, Ops.sq]; ring
    have e3 : (ordOps sqrt eps).sub (sumShape V.ms fun k => V.w k * (V.h k * V.h k))
        ((ordOps sqrt eps).div ((ordOps sqrt eps).sq (sumShape V.ms fun k => V.w k * V.h k)) V.n) = V.B := by
      rw [← eB]; simp only [ordOps, Ops.sq]; ring
    rw [e1, e2, e3, max0_of_nonneg sqrt eps _ hA0, max0_of_nonneg sqrt eps _ hB0]
    have hAB : 0 ≤ V.A * V.B := mul_nonneg hA0 hB0
    have hsq : (ordOps sqrt eps).sqrt ((ordOps sqrt eps).mul V.A V.B) ^ 2 = V.A * V.B := by
      show sqrt (V.A * V.B) ^ 2 = V.A * V.B
      rw [pow_two]; exact hs.sq _ hAB
    rw [hsq]
    exact V.num_sq_le hw' hnn
  exact key _ rfl

end flc

/-- **strict improvement keeps the first best rotation**: a later submission that only ties does not replace
the stored rotation (one voxel, values as integers ranks; from the backend's strict `>` update) -/
theorem strictBest_keeps_first (cur : Int × Int) (v : Int) (id : Int) (h : v ≤ cur.1) :
    (if v > cur.1 then (v, id) else cur) = cur := by
  simp [not_lt.mpr h]

/-! ### the whole history of one voxel (`Model/C03.strictFold`): the first maximal submission above the threshold wins -/

/-- a submission never lowers the stored value -/
theorem strictStep_fst_ge (cur s : Int × Int) : cur.1 ≤ (strictStep cur s).1 := by
  unfold strictStep
  split <;> omega

/-- submissions that all stay below `v` leave a state below `v` below `v` -/
theorem strictFold_below (v : Int) : ∀ (pre : List (Int × Int)) (cur : Int × Int),
    (∀ x ∈ pre, x.1 < v) → cur.1 < v → (pre.foldl strictStep cur).1 < v := by
  intro pre
  induction pre with
  | nil => intro cur _ h; simpa using h
  | cons x xs ih =>
    intro cur hx hc
    rw [List.foldl_cons]
    apply ih
    · intro y hy; exact hx y (List.mem_cons_of_mem _ hy)
    · have hx1 := hx x (List.mem_cons_self)
      unfold strictStep
      split <;> assumption

/-- later submissions that do not exceed the stored value change neither the value nor the rotation id -/
theorem strictFold_keeps (s : Int × Int) : ∀ (post : List (Int × Int)),
    (∀ x ∈ post, x.1 ≤ s.1) → post.foldl strictStep s = s := by
  intro post
  induction post with
  | nil => intro _; rfl
  | cons x xs ih =>
    intro hx
    rw [List.foldl_cons]
    have hx1 := hx x (List.mem_cons_self)
    have : strictStep s x = s := by
      unfold strictStep
      rw [if_neg (by omega)]
    rw [this]
    exact ih (fun y hy => hx y (List.mem_cons_of_mem _ hy))

/-- **the first maximum wins**: if submission `s` exceeds the threshold, everything scored before it is strictly
smaller and nothing scored after it is larger (ties included), the voxel reports exactly `s`: its value and its
rotation id — for histories of any length. -/
theorem strictFold_first_max (thr : Int) (pre post : List (Int × Int)) (s : Int × Int)
    (hthr : thr < s.1) (hpre : ∀ x ∈ pre, x.1 < s.1) (hpost : ∀ x ∈ post, x.1 ≤ s.1) :
    strictFold thr (pre ++ s :: post) = s := by
  unfold strictFold
  rw [List.foldl_append, List.foldl_cons]
  have h1 := strictFold_below s.1 pre (thr, -1) hpre hthr
  generalize pre.foldl strictStep (thr, -1) = c at h1 ⊢
  have : strictStep c s = s := by
    unfold strictStep
    rw [if_pos (by omega)]
  rw [this]
  exact strictFold_keeps s post hpost

/-- a voxel that no rotation lifts above the threshold keeps the threshold and the "no rotation" id `-1`
(a score equal to the threshold is not an improvement) -/
theorem strictFold_none (thr : Int) (subs : List (Int × Int)) (h : ∀ x ∈ subs, x.1 ≤ thr) :
    strictFold thr subs = (thr, -1) := by
  unfold strictFold
  exact strictFold_keeps (thr, -1) subs h

/-- the stored value is an upper bound of the threshold and of every submission -/
theorem strictFold_ge (thr : Int) (subs : List (Int × Int)) :
    thr ≤ (strictFold thr subs).1 ∧ ∀ x ∈ subs, x.1 ≤ (strictFold thr subs).1 := by
  unfold strictFold
  have mono : ∀ (l : List (Int × Int)) (c : Int × Int), c.1 ≤ (l.foldl strictStep c).1 := by
    intro l
    induction l with
    | nil => intro c; simp
    | cons y ys ih =>
      intro c
      rw [List.foldl_cons]
      exact le_trans (strictStep_fst_ge c y) (ih _)
  refine ⟨mono subs (thr, -1), ?_⟩
  have all : ∀ (l : List (Int × Int)) (c : Int × Int), ∀ x ∈ l, x.1 ≤ (l.foldl strictStep c).1 := by
    intro l
    induction l with
    | nil => intro c x hx; cases hx
    | cons y ys ih =>
      intro c x hx
      rw [List.foldl_cons]
      rcases List.mem_cons.mp hx with rfl | hx'
      · refine le_trans ?_ (mono ys _)
        unfold strictStep
        split <;> omega
      · exact ih _ x hx'
  exact all subs (thr, -1)

/-- the planted rotation scoring strictly higher than every other sampled rotation is the one reported,
wherever it stands in the rotation set -/
theorem strictFold_planted (thr : Int) (pre post : List (Int × Int)) (s : Int × Int)
    (hthr : thr < s.1) (hpre : ∀ x ∈ pre, x.1 < s.1) (hpost : ∀ x ∈ post, x.1 < s.1) :
    (strictFold thr (pre ++ s :: post)).2 = s.2 := by
  rw [strictFold_first_max thr pre post s hthr hpre (fun x hx => le_of_lt (hpost x hx))]

example : strictFold 0 ([(3, 0), (5, 1)] ++ (7, 2) :: [(7, 3), (2, 4)]) = (7, 2) := by decide
example : strictFold 5 [(5, 0), (1, 1)] = (5, -1) := by decide

/-! ### non-vacuity -/
example : (⟨[3], fun _ => (1 : ℚ), fun k => (k.headD 0 : ℚ), fun k => (k.headD 0 : ℚ)⟩ : Win ℚ).n = 3 := by
  simp [Win.n, sumShape, sumRange]; norm_num

end Pm.C03
