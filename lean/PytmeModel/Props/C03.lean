import PytmeModel.Proofs.C03
import PytmeModel.Model.C03
import PytmeModel.Props.C01
import PytmeModel.Proofs.C01Field
import Mathlib.Tactic.Ring
import Mathlib.Tactic.Linarith
import Mathlib.Tactic.FieldSimp
import Mathlib.Tactic.Positivity
import Mathlib.Analysis.Real.Sqrt

/-! # C03 — normalised scores stay within [-1, 1]; a planted template is recovered exactly
(exact arithmetic over any linearly ordered field; rounding is Leg B's business) -/
namespace Pm.C03
open Pm.C01

section core
variable {α : Type} [Field α] [LinearOrder α] [IsStrictOrderedRing α]
variable (W : Win α)

/-- **Core inequality (Cauchy–Schwarz under the mask).**  For any non-negative mask — binary, soft or
interpolated — `(Σ w a (h−μ))² ≤ (Σ w (a−ā)²)(Σ w (h−μ)²)`. -/
theorem Win.num_sq_le (hw : ∀ k, inShape W.ms k = true → 0 ≤ W.w k) (hn : W.n ≠ 0) :
    W.N ^ 2 ≤ W.A * W.B := by
  rw [W.N_centered hn]
  exact box_cauchy_schwarz W.ms W.w (fun k => W.a k - W.fbar) (fun k => W.h k - W.mu) hw

theorem Win.A_nonneg (hw : ∀ k, inShape W.ms k = true → 0 ≤ W.w k) : 0 ≤ W.A :=
  sumShape_nonneg _ _ (fun k hk => mul_nonneg (hw k hk) (mul_self_nonneg _))
theorem Win.B_nonneg (hw : ∀ k, inShape W.ms k = true → 0 ≤ W.w k) : 0 ≤ W.B :=
  sumShape_nonneg _ _ (fun k hk => mul_nonneg (hw k hk) (mul_self_nonneg _))

/-- **|score| ≤ 1** for every masked normalised correlation of the FLC family
(`score = (N/σ)/(sd·n)` with `σ² = B/n`, `sd² = A/n` — what `sqrt(max(var,0))` delivers). -/
theorem Win.score_sq_le_one (hw : ∀ k, inShape W.ms k = true → 0 ≤ W.w k) (hn : 0 < W.n)
    (σ sd : α) (hσ : 0 < σ) (hsd : 0 < sd) (eσ : σ * σ = W.B / W.n) (esd : sd * sd = W.A / W.n) :
    ((W.N / σ) / (sd * W.n)) ^ 2 ≤ 1 := by
  have hcs := W.num_sq_le hw (ne_of_gt hn)
  have hB : W.B = σ * σ * W.n := by rw [eσ]; field_simp
  have hA : W.A = sd * sd * W.n := by rw [esd]; field_simp
  rw [hA, hB] at hcs
  rw [div_pow, div_pow, div_le_one (by positivity)]
  have hσ2 : 0 < σ ^ 2 := by positivity
  rw [div_le_iff₀ hσ2]
  nlinarith [hcs]

/-- **guard branch**: where the window's standard deviation is below `eps` the code divides by `n` only;
the value is then bounded by that standard deviation, hence by `eps` — finite and tiny, never a division by ~0 -/
theorem Win.guard_branch_small (hw : ∀ k, inShape W.ms k = true → 0 ≤ W.w k) (hn : 0 < W.n)
    (σ sd : α) (hσ : 0 < σ) (hsd : 0 ≤ sd) (eσ : σ * σ = W.B / W.n) (esd : sd * sd = W.A / W.n) :
    ((W.N / σ) / W.n) ^ 2 ≤ sd ^ 2 := by
  have hcs := W.num_sq_le hw (ne_of_gt hn)
  have hB : W.B = σ * σ * W.n := by rw [eσ]; field_simp
  have hA : W.A = sd * sd * W.n := by rw [esd]; field_simp
  rw [hA, hB] at hcs
  rw [div_pow, div_pow, div_le_iff₀ (by positivity), div_le_iff₀ (by positivity)]
  nlinarith [hcs]

/-- a constant window (also an empty one: all zeros) has `A = 0`, so it lands in the guard branch with value 0 -/
theorem Win.constant_window (c : α) (hc : ∀ k, inShape W.ms k = true → W.a k = c) (hn : W.n ≠ 0) :
    W.A = 0 ∧ W.N = 0 := by
  have hs : sumShape W.ms (fun k => W.w k * W.a k) = c * W.n := by
    rw [Win.n, ← sumShape_mul_left]
    apply sumShape_congr; intro k hk; rw [hc k hk]; ring
  have hf : W.fbar = c := by unfold Win.fbar; rw [hs]; field_simp
  constructor
  · unfold Win.A
    rw [← sumShape_zero (α := α) W.ms]
    apply sumShape_congr; intro k hk; rw [hc k hk, hf]; ring
  · rw [W.N_centered hn]
    rw [← sumShape_zero (α := α) W.ms]
    apply sumShape_congr; intro k hk; rw [hc k hk, hf]; ring

/-- **A planted copy scores exactly 1**: if the window equals the template wherever the mask is non-zero,
then `N = A = B`, so `(N/σ)/(sd·n) = 1` with `σ = sd`. -/
theorem Win.planted_eq_one (hp : ∀ k, inShape W.ms k = true → W.w k * W.a k = W.w k * W.h k) (hn : 0 < W.n)
    (σ : α) (hσ : 0 < σ) (eσ : σ * σ = W.B / W.n) :
    W.N = W.B ∧ W.A = W.B ∧ (W.N / σ) / (σ * W.n) = 1 := by
  have hne := ne_of_gt hn
  have hf : W.fbar = W.mu := by
    unfold Win.fbar Win.mu
    congr 1
    apply sumShape_congr; intro k hk; exact hp k hk
  have hN : W.N = W.B := by
    rw [W.N_centered hne]
    unfold Win.B
    apply sumShape_congr; intro k hk
    have := hp k hk
    rw [hf]
    have e : W.w k * ((W.a k - W.mu) * (W.h k - W.mu)) = (W.w k * W.a k - W.w k * W.mu) * (W.h k - W.mu) := by ring
    rw [e, this]; ring
  have hA : W.A = W.B := by
    unfold Win.A Win.B
    apply sumShape_congr; intro k hk
    have := hp k hk
    rw [hf]
    have e : W.w k * ((W.a k - W.mu) * (W.a k - W.mu)) = (W.w k * W.a k - W.w k * W.mu) * (W.a k - W.mu) := by ring
    rw [e, this]
    have e2 : (W.w k * W.h k - W.w k * W.mu) * (W.a k - W.mu) = (W.h k - W.mu) * (W.w k * W.a k - W.w k * W.mu) := by ring
    rw [e2, this]; ring
  refine ⟨hN, hA, ?_⟩
  have hB : W.B = σ * σ * W.n := by rw [eσ]; field_simp
  rw [hN, hB]
  field_simp

/-- the planted position is a maximum of the whole map: every other value is at most the planted value 1 -/
theorem Win.planted_is_max (V : Win α) (hw : ∀ k, inShape V.ms k = true → 0 ≤ V.w k) (hn : 0 < V.n)
    (σ sd : α) (hσ : 0 < σ) (hsd : 0 < sd) (eσ : σ * σ = V.B / V.n) (esd : sd * sd = V.A / V.n) :
    (V.N / σ) / (sd * V.n) ≤ 1 := by
  have h := V.score_sq_le_one hw hn σ sd hσ hsd eσ esd
  nlinarith [sq_nonneg ((V.N / σ) / (sd * V.n) - 1), sq_nonneg ((V.N / σ) / (sd * V.n) + 1)]

/-! ### invariances (template: positive scale and offset; target: positive scale and offset) -/

/-- template `h ↦ c·h + d` -/
def Win.affT (c d : α) : Win α := { W with h := fun k => c * W.h k + d }
/-- target `a ↦ c·a + d` -/
def Win.affA (c d : α) : Win α := { W with a := fun k => c * W.a k + d }

theorem Win.affT_mu (c d : α) (hn : W.n ≠ 0) : (W.affT c d).mu = c * W.mu + d := by
  unfold Win.mu Win.affT Win.n
  simp only
  have e : (fun k => W.w k * (c * W.h k + d)) = fun k => c * (W.w k * W.h k) + d * W.w k := by funext k; ring
  rw [e, sumShape_add, sumShape_mul_left, sumShape_mul_left]
  have : sumShape W.ms W.w ≠ 0 := hn
  field_simp

theorem Win.affA_fbar (c d : α) (hn : W.n ≠ 0) : (W.affA c d).fbar = c * W.fbar + d := by
  unfold Win.fbar Win.affA Win.n
  simp only
  have e : (fun k => W.w k * (c * W.a k + d)) = fun k => c * (W.w k * W.a k) + d * W.w k := by funext k; ring
  rw [e, sumShape_add, sumShape_mul_left, sumShape_mul_left]
  have : sumShape W.ms W.w ≠ 0 := hn
  field_simp

/-- **Template scale/offset invariance**: `N` and `B` scale as `c` and `c²`, so `N/σ` is unchanged for `c > 0` -/
theorem Win.template_affine (c d : α) (hn : W.n ≠ 0) :
    (W.affT c d).N = c * W.N ∧ (W.affT c d).B = c * c * W.B ∧ (W.affT c d).A = W.A := by
  have hmu := W.affT_mu c d hn
  refine ⟨?_, ?_, rfl⟩
  · unfold Win.N
    rw [hmu, ← sumShape_mul_left]
    apply sumShape_congr; intro k _
    simp only [Win.affT]; ring
  · unfold Win.B
    rw [hmu, ← sumShape_mul_left]
    apply sumShape_congr; intro k _
    simp only [Win.affT]; ring

/-- **Target scale/offset invariance**: `N` and `A` scale as `c` and `c²` (the offset drops out), so
`N/(sd·n)` is unchanged for `c > 0` -/
theorem Win.target_affine (c d : α) (hn : W.n ≠ 0) :
    (W.affA c d).N = c * W.N ∧ (W.affA c d).A = c * c * W.A ∧ (W.affA c d).B = W.B := by
  have hf := W.affA_fbar c d hn
  refine ⟨?_, ?_, rfl⟩
  · rw [(W.affA c d).N_centered hn, W.N_centered hn, hf, ← sumShape_mul_left]
    apply sumShape_congr; intro k _
    have hm : (W.affA c d).mu = W.mu := rfl
    rw [hm]
    simp only [Win.affA]
    ring
  · unfold Win.A
    rw [hf, ← sumShape_mul_left]
    apply sumShape_congr; intro k _
    simp only [Win.affA]; ring

/-- putting the two together: the normalised value is the same for `(c·h+d, c'·a+d')`, `c, c' > 0` -/
theorem Win.score_invariant (c d c' d' : α) (hc : 0 < c) (hc' : 0 < c') (hn : W.n ≠ 0)
    (σ sd : α) (hσ : σ ≠ 0) (hsd : sd ≠ 0) :
    (((W.affT c d).affA c' d').N / (c * σ)) / ((c' * sd) * W.n) = (W.N / σ) / (sd * W.n) := by
  have h1 := (W.affT c d).target_affine c' d' hn
  have h2 := W.template_affine c d hn
  rw [h1.1, h2.1]
  have : c ≠ 0 := ne_of_gt hc
  have : c' ≠ 0 := ne_of_gt hc'
  field_simp

end core

/-! ### MCC is clipped; strict improvement keeps the first best rotation -/

section clip
variable {α : Type} [Field α] [LinearOrder α] [IsStrictOrderedRing α]

/-- whatever the numerator, denominator, overlap and thresholds: the reported MCC value lies in [-1, 1] -/
theorem mcc_clipped (sqrt : α → α) (eps thousand ratio : α) (parts : α × α × α) (maxDen maxOv : α) :
    -1 ≤ mccFinish (ordOps sqrt eps) thousand ratio parts maxDen maxOv ∧
    mccFinish (ordOps sqrt eps) thousand ratio parts maxDen maxOv ≤ 1 := by
  obtain ⟨num, den, ov⟩ := parts
  simp only [mccFinish, ordOps, decide_eq_true_eq]
  split_ifs <;> constructor <;> first | linarith | (simp; done) | (push_neg at *; linarith) | norm_num
end clip

/-! ### the FLC formula of the code, end to end -/

section flc
variable {α : Type} [Field α] [LinearOrder α] [IsStrictOrderedRing α]

/-- the pieces of the FLC-family formulas in terms of the masked window sums (`Win`) -/
theorem flc_core (sqrt : α → α) (hs : SqrtOk sqrt) (eps : α)
    (ms : List Nat) (t : List Int) (f f2 G Wm : List Int → α) (hf2 : ∀ x, f2 x = f x * f x)
    (hw : ∀ k, inShape ms k = true → 0 ≤ Wm (natsToInts k))
    (hn : 0 < sumShape ms (fun k => Wm (natsToInts k)))
    (hvar : 0 < (Win.mk ms (fun k => Wm (natsToInts k)) (fun k => f (specIdx ms t k)) (fun k => G (natsToInts k))).B) :
    let W : Win α := ⟨ms, fun k => Wm (natsToInts k), fun k => f (specIdx ms t k), fun k => G (natsToInts k)⟩
    let σ := sqrt (W.B / W.n)
    let sd0 := sqrt (W.A / W.n)
    maskSum (ordOps sqrt eps) ms Wm = W.n ∧
    normStats (ordOps sqrt eps) ms G Wm W.n = (W.mu, σ) ∧
    corrSpec ms f (normT (ordOps sqrt eps) (W.mu, σ) G Wm) t = W.N / σ ∧
    (ordOps sqrt eps).sqrt ((ordOps sqrt eps).max0 ((ordOps sqrt eps).sub
      ((ordOps sqrt eps).div (corrSpec ms f2 Wm t) W.n)
      ((ordOps sqrt eps).sq ((ordOps sqrt eps).div (corrSpec ms f Wm t) W.n)))) = sd0 ∧
    0 < σ ∧ 0 ≤ sd0 ∧ σ * σ = W.B / W.n ∧ sd0 * sd0 = W.A / W.n ∧
    (∀ k, inShape W.ms k = true → 0 ≤ W.w k) ∧ 0 < W.n := by
  intro W σ sd0
  have hWn : W.n = sumShape ms (fun k => Wm (natsToInts k)) := rfl
  have hnn : W.n ≠ 0 := ne_of_gt hn
  have hw' : ∀ k, inShape W.ms k = true → 0 ≤ W.w k := hw
  -- the pieces of the formula in terms of the window sums
  have e_n : maskSum (ordOps sqrt eps) ms Wm = W.n := by unfold maskSum; rw [boxSum_ord]; rfl
  have e_gw : boxSum (ordOps sqrt eps) ms (fun k => (ordOps sqrt eps).mul (G (natsToInts k)) (Wm (natsToInts k)))
      = sumShape ms (fun k => W.w k * W.h k) := by
    rw [boxSum_ord]; apply sumShape_congr; intro k _; simp [ordOps, W]; ring
  have e_g2w : boxSum (ordOps sqrt eps) ms
      (fun k => (ordOps sqrt eps).mul ((ordOps sqrt eps).sq (G (natsToInts k))) (Wm (natsToInts k)))
      = sumShape ms (fun k => W.w k * (W.h k * W.h k)) := by
    rw [boxSum_ord]; apply sumShape_congr; intro k _; simp [ordOps, Ops.sq, W]; ring
  have e_s1 : corrSpec ms f Wm t = sumShape ms (fun k => W.w k * W.a k) := by
    unfold corrSpec; apply sumShape_congr; intro k _; simp [W]; ring
  have e_s2 : corrSpec ms f2 Wm t = sumShape ms (fun k => W.w k * (W.a k * W.a k)) := by
    unfold corrSpec; apply sumShape_congr; intro k _; simp [W, hf2]; ring
  have hBn : 0 ≤ W.B / W.n := div_nonneg (W.B_nonneg hw') (le_of_lt hn)
  have hAn : 0 ≤ W.A / W.n := div_nonneg (W.A_nonneg hw') (le_of_lt hn)
  -- template statistics
  have e_st : normStats (ordOps sqrt eps) ms G Wm W.n = (W.mu, sqrt (W.B / W.n)) := by
    unfold normStats
    simp only [e_gw, e_g2w]
    have emu : (ordOps sqrt eps).div (sumShape ms (fun k => W.w k * W.h k)) W.n = W.mu := rfl
    rw [emu]
    have evar : (ordOps sqrt eps).sub ((ordOps sqrt eps).div (sumShape ms (fun k => W.w k * (W.h k * W.h k))) W.n)
        ((ordOps sqrt eps).sq W.mu) = W.B / W.n := by
      have := W.var_formula_h hnn
      simp only [ordOps, Ops.sq]
      rw [← this]; unfold Win.mu; ring
    rw [evar, max0_of_nonneg sqrt eps _ hBn]
    rfl
  have hσdef : σ = sqrt (W.B / W.n) := rfl
  have hσσ : σ * σ = W.B / W.n := hs.sq _ hBn
  have hσpos : 0 < σ := by
    have h0 := hs.nonneg (W.B / W.n)
    rcases h0.lt_or_eq with h | h
    · exact h
    · exfalso
      have hz : σ = 0 := by rw [hσdef]; exact h.symm
      have : W.B / W.n = 0 := by rw [← hσσ, hz]; ring
      have hB0 : W.B = 0 := by
        rcases div_eq_zero_iff.mp this with h' | h'
        · exact h'
        · exact absurd h' hnn
      rw [hB0] at hvar; exact lt_irrefl _ hvar
  -- numerator
  have e_num : corrSpec ms f (normT (ordOps sqrt eps) (W.mu, σ) G Wm) t = W.N / σ := by
    unfold corrSpec Win.N
    rw [div_eq_mul_inv, mul_comm, ← sumShape_mul_left]
    apply sumShape_congr; intro k _
    simp only [normT, normApply, ordOps, W]
    field_simp
  -- window standard deviation
  have e_sd : (ordOps sqrt eps).sqrt ((ordOps sqrt eps).max0 ((ordOps sqrt eps).sub
      ((ordOps sqrt eps).div (sumShape ms (fun k => W.w k * (W.a k * W.a k))) W.n)
      ((ordOps sqrt eps).sq ((ordOps sqrt eps).div (sumShape ms (fun k => W.w k * W.a k)) W.n)))) = sd0 := by
    have := W.var_formula_a hnn
    have e : (ordOps sqrt eps).sub ((ordOps sqrt eps).div (sumShape ms (fun k => W.w k * (W.a k * W.a k))) W.n)
        ((ordOps sqrt eps).sq ((ordOps sqrt eps).div (sumShape ms (fun k => W.w k * W.a k)) W.n)) = W.A / W.n := by
      simp only [ordOps, Ops.sq]; rw [← this]; ring
    rw [e, max0_of_nonneg sqrt eps _ hAn]
    rfl
  have hsd_sq : sd0 * sd0 = W.A / W.n := hs.sq _ hAn
  have hsd_nn : 0 ≤ sd0 := hs.nonneg _
  refine ⟨e_n, e_st, e_num, ?_, hσpos, hsd_nn, hσσ, hsd_sq, hw', hn⟩
  rw [e_s1, e_s2]; exact e_sd

/-- **The FLC value the code's formula yields is in [-1, 1]** (squared form), for every target field `f`, every
translation `t`, every template `G` and every non-negative mask `Wm` (binary, soft, interpolated) with positive
mass and a template that is not constant under it — including the guard branch for (near-)constant windows.
Together with C01's `flc_impl_eq_spec` this bounds what the FFT pipeline computes in exact arithmetic. -/
theorem flc_formula_sq_le_one (sqrt : α → α) (hs : SqrtOk sqrt) (eps : α) (he0 : 0 < eps) (he1 : eps ≤ 1)
    (ms : List Nat) (t : List Int) (f f2 G Wm : List Int → α) (hf2 : ∀ x, f2 x = f x * f x)
    (hw : ∀ k, inShape ms k = true → 0 ≤ Wm (natsToInts k))
    (hn : 0 < sumShape ms (fun k => Wm (natsToInts k)))
    (hvar : 0 < (Win.mk ms (fun k => Wm (natsToInts k)) (fun k => f (specIdx ms t k)) (fun k => G (natsToInts k))).B) :
    (scoreFLC (ordOps sqrt eps) (fun a b => corrSpec ms a b t) ms f f2 G Wm) ^ 2 ≤ 1 := by
  obtain ⟨e_n, e_st, e_num, e_sd, hσpos, hsd_nn, hσσ, hsd_sq, hw', hn'⟩ := flc_core sqrt hs eps ms t f f2 G Wm hf2 hw hn hvar
  set W : Win α := ⟨ms, fun k => Wm (natsToInts k), fun k => f (specIdx ms t k), fun k => G (natsToInts k)⟩
  set σ := sqrt (W.B / W.n)
  set sd0 := sqrt (W.A / W.n)
  unfold scoreFLC
  simp only [e_n, e_st, e_num, e_sd]
  by_cases hg : sd0 < eps
  · have : (ordOps sqrt eps).lt sd0 (ordOps sqrt eps).eps = true := by simp [ordOps, hg]
    simp only [this, if_true]
    have hb := W.guard_branch_small hw' hn' σ sd0 hσpos hsd_nn hσσ hsd_sq
    have e : (ordOps sqrt eps).div (W.N / σ) ((ordOps sqrt eps).mul (ordOps sqrt eps).one W.n) = (W.N / σ) / W.n := by
      simp [ordOps]
    rw [e]
    have : sd0 ^ 2 ≤ 1 := by nlinarith
    linarith
  · have : (ordOps sqrt eps).lt sd0 (ordOps sqrt eps).eps = false := by simp [ordOps, hg]
    simp only [this, if_false, Bool.false_eq_true]
    have hsdpos : 0 < sd0 := lt_of_lt_of_le he0 (not_lt.mp hg)
    have e : (ordOps sqrt eps).div (W.N / σ) ((ordOps sqrt eps).mul sd0 W.n) = (W.N / σ) / (sd0 * W.n) := by
      simp [ordOps]
    rw [e]
    exact W.score_sq_le_one hw' hn' σ sd0 hσpos hsdpos hσσ hsd_sq

/-- **FLCSphericalMask** (mask not rotated, template standardised at setup and again after rotation): the value of the
code's formula is in [-1, 1] as well; `G` is whatever the rotated, once-standardised template is. -/
theorem flcSph_formula_sq_le_one (sqrt : α → α) (hs : SqrtOk sqrt) (eps : α) (he0 : 0 < eps)
    (ms : List Nat) (t : List Int) (rot : (List Int → α) → (List Int → α)) (f f2 g Wm : List Int → α)
    (hf2 : ∀ x, f2 x = f x * f x)
    (hw : ∀ k, inShape ms k = true → 0 ≤ Wm (natsToInts k))
    (hn : 0 < sumShape ms (fun k => Wm (natsToInts k)))
    (hvar : 0 < (Win.mk ms (fun k => Wm (natsToInts k)) (fun k => f (specIdx ms t k))
        (fun k => rot (normT (ordOps sqrt eps) (normStats (ordOps sqrt eps) ms g Wm (maskSum (ordOps sqrt eps) ms Wm)) g Wm) (natsToInts k))).B) :
    (scoreFLCSph (ordOps sqrt eps) (fun a b => corrSpec ms a b t) ms rot f f2 g Wm) ^ 2 ≤ 1 := by
  set G := rot (normT (ordOps sqrt eps) (normStats (ordOps sqrt eps) ms g Wm (maskSum (ordOps sqrt eps) ms Wm)) g Wm) with hG
  obtain ⟨e_n, e_st, e_num, e_sd, hσpos, hsd_nn, hσσ, hsd_sq, hw', hn'⟩ := flc_core sqrt hs eps ms t f f2 G Wm hf2 hw hn hvar
  set W : Win α := ⟨ms, fun k => Wm (natsToInts k), fun k => f (specIdx ms t k), fun k => G (natsToInts k)⟩
  set σ := sqrt (W.B / W.n)
  set sd0 := sqrt (W.A / W.n)
  have hG2 : rot (normT (ordOps sqrt eps) (normStats (ordOps sqrt eps) ms g Wm W.n) g Wm) = G := by rw [hG, e_n]
  unfold scoreFLCSph
  simp only [e_n, hG2, e_st, e_num, e_sd]
  by_cases hg : eps < sd0
  · have : (ordOps sqrt eps).lt (ordOps sqrt eps).eps sd0 = true := by simp [ordOps, hg]
    simp only [this, if_true]
    have hsdpos : 0 < sd0 := lt_trans he0 hg
    have e : (ordOps sqrt eps).mul (W.N / σ) ((ordOps sqrt eps).div (ordOps sqrt eps).one ((ordOps sqrt eps).mul sd0 W.n))
        = (W.N / σ) / (sd0 * W.n) := by
      simp [ordOps]; ring
    rw [e]
    exact W.score_sq_le_one hw' hn' σ sd0 hσpos hsdpos hσσ hsd_sq
  · have : (ordOps sqrt eps).lt (ordOps sqrt eps).eps sd0 = false := by simp [ordOps, hg]
    simp only [this, if_false, Bool.false_eq_true]
    simp [ordOps]

/-- the box sum of the constant 1 is the number of voxels -/
theorem sumShape_one : ∀ (ms : List Nat), sumShape ms (fun _ => (1 : α)) = ((prodL ms : Nat) : α)
  | [] => by simp [sumShape, prodL]
  | m :: ms => by
    simp only [sumShape, prodL, sumShape_one ms]
    induction m with
    | zero => simp [sumRange]
    | succ k ih => simp only [sumRange, ih]; push_cast; ring

/-- **CORR / CAM with the full-box mask** (the default when no template mask is given; CAM is CORR on the
standardised target): the value of the code's formula (`corr_setup` + `corr_scoring`, Model/C01.scoreCORR on
windowed sums, incl. its `eps` guard) is in [-1, 1] for every target, translation, template and every rotation that
permutes the box (`RotSum`: identity, all grid rotations).  Here the numerator is `Σ f·H − (Σ f)·mean(H)` and the
denominator `sqrt((Σ f² − (Σ f)²/n)·Σ (H − mean)²)` with `H` the rotated standardised template — Cauchy–Schwarz
directly, no division by a template deviation. -/
theorem corr_formula_sq_le_one_fullmask (sqrt : α → α) (hs : SqrtOk sqrt) (eps : α) (he0 : 0 < eps)
    (ms : List Nat) (t : List Int) (rot : (List Int → α) → (List Int → α)) (hr : RotSum ms rot)
    (f f2 g Wm : List Int → α) (hf2 : ∀ x, f2 x = f x * f x)
    (hfull : ∀ k, inShape ms k = true → Wm (natsToInts k) = 1) (hpos : 0 < prodL ms) :
    (scoreCORR (ordOps sqrt eps) (fun a b => corrSpec ms a b t) ms rot f f2 g Wm) ^ 2 ≤ 1 := by
  set o := ordOps sqrt eps with ho
  have e_n : maskSum o ms Wm = ((prodL ms : Nat) : α) := by
    unfold maskSum; rw [ho, boxSum_ord, ← sumShape_one ms]
    exact sumShape_congr ms _ _ (fun k hk => hfull k hk)
  set n : α := ((prodL ms : Nat) : α) with hn
  have hnpos : 0 < n := by rw [hn]; exact_mod_cast hpos
  have hnn : n ≠ 0 := ne_of_gt hnpos
  set st := normStats o ms g Wm n with hst
  set gh : List Int → α := normT o st g Wm with hgh
  set g2 : List Int → α := fun x => o.mul (gh x) (Wm x) with hg2
  set H : List Int → α := rot g2 with hH
  -- the window: weights 1, a = target window, h = rotated standardised template
  set W : Win α := ⟨ms, fun _ => 1, fun k => f (specIdx ms t k), fun k => H (natsToInts k)⟩ with hW
  have hw' : ∀ k, inShape W.ms k = true → 0 ≤ W.w k := fun _ _ => zero_le_one
  have hWn : W.n = n := by show sumShape ms (fun _ => (1 : α)) = n; rw [sumShape_one]
  have hWnn : W.n ≠ 0 := by rw [hWn]; exact hnn
  -- g2 = gh on the box
  have g2box : ∀ k, inShape ms k = true → g2 (natsToInts k) = gh (natsToInts k) := by
    intro k hk; simp [hg2, ho, ordOps, hfull k hk]
  -- mean of the standardised template = mean of its rotation
  have e_mean : o.div (boxSum o ms (fun k => o.mul (gh (natsToInts k)) (Wm (natsToInts k)))) n = W.mu := by
    rw [ho, boxSum_ord]
    show sumShape ms (fun k => gh (natsToInts k) * Wm (natsToInts k)) / n = W.mu
    unfold Win.mu; rw [hWn]
    have : sumShape ms (fun k => gh (natsToInts k) * Wm (natsToInts k)) = sumShape ms (fun k => g2 (natsToInts k)) :=
      sumShape_congr ms _ _ (fun k hk => by simp [hg2, ho, ordOps])
    rw [this, ← hr.sum g2]
    congr 1
    exact sumShape_congr ms _ _ (fun k _ => by simp [hW, hH])
  -- Σ (gh − mean)² = Σ (H − mean)²
  have e_ssd : boxSum o ms (fun k => o.mul (o.sq (o.sub (gh (natsToInts k)) W.mu)) (Wm (natsToInts k))) = W.B := by
    rw [ho, boxSum_ord]
    have h1 : sumShape ms (fun k => (ordOps sqrt eps).mul ((ordOps sqrt eps).sq ((ordOps sqrt eps).sub (gh (natsToInts k)) W.mu)) (Wm (natsToInts k)))
        = sumShape ms (fun k => (fun x => (g2 x - W.mu) * (g2 x - W.mu)) (natsToInts k)) :=
      sumShape_congr ms _ _ (fun k hk => by
        simp only [ordOps, Ops.sq]; rw [hfull k hk, g2box k hk]; ring)
    rw [h1, ← hr.sum (fun x => (g2 x - W.mu) * (g2 x - W.mu))]
    have h2 := hr.map2 (fun a _ => (a - W.mu) * (a - W.mu)) g2 g2
    unfold Win.B
    apply sumShape_congr; intro k _
    have := congrFun h2 (natsToInts k)
    beta_reduce at this
    rw [← this]
    exact (one_mul _).symm
  have hms : W.ms = ms := rfl
  have e_ws : corrSpec ms f Wm t = sumShape W.ms (fun k => W.w k * W.a k) := by
    rw [hms]; unfold corrSpec; apply sumShape_congr; intro k hk; rw [hfull k hk]; exact (mul_comm _ _)
  have e_s2 : corrSpec ms f2 Wm t = sumShape W.ms (fun k => W.w k * (W.a k * W.a k)) := by
    rw [hms]; unfold corrSpec; apply sumShape_congr; intro k hk; rw [hfull k hk, hf2]; exact (mul_comm _ _)
  have e_fH : corrSpec ms f H t = sumShape W.ms (fun k => W.w k * (W.a k * W.h k)) := by
    rw [hms]; unfold corrSpec; apply sumShape_congr; intro k _; exact (one_mul _).symm
  -- denominator factor on the target side
  have e_den0 : o.sub (corrSpec ms f2 Wm t) (o.div (o.sq (corrSpec ms f Wm t)) (o.ofNat (prodL ms))) = W.A := by
    have := W.var_formula_a hWnn
    rw [e_ws, e_s2]
    have hof : o.ofNat (prodL ms) = n := rfl
    rw [hof]
    simp only [ho, ordOps, Ops.sq]
    rw [hWn] at this
    have h3 : W.A = (sumShape W.ms (fun k => W.w k * (W.a k * W.a k)) / n
        - (sumShape W.ms (fun k => W.w k * W.a k) / n) ^ 2) * n := by rw [this]; field_simp
    rw [h3]; field_simp
  -- numerator
  have e_num : o.sub (corrSpec ms f H t) (o.mul (corrSpec ms f Wm t) W.mu) = W.N := by
    rw [e_ws, e_fH]
    unfold Win.N
    have e : (fun k => W.w k * (W.a k * (W.h k - W.mu)))
        = fun k => W.w k * (W.a k * W.h k) - W.mu * (W.w k * W.a k) := by funext k; ring
    rw [e, sumShape_sub, sumShape_mul_left W.ms W.mu (fun k => W.w k * W.a k)]
    simp only [ho, ordOps]; ring
  have hAB : 0 ≤ W.A * W.B := mul_nonneg (W.A_nonneg hw') (W.B_nonneg hw')
  unfold scoreCORR
  simp only [← ho, e_n, ← hst, ← hgh, e_mean, e_ssd, e_den0, e_num, ← hH, ← hg2]
  have hmul : o.mul W.A W.B = W.A * W.B := rfl
  have hmax : o.max0 (W.A * W.B) = W.A * W.B := max0_of_nonneg sqrt eps _ hAB
  rw [hmul, hmax]
  have hsq : o.sqrt (W.A * W.B) = sqrt (W.A * W.B) := rfl
  rw [hsq]
  generalize hden : sqrt (W.A * W.B) = den
  have hdd : den * den = W.A * W.B := by rw [← hden]; exact hs.sq _ hAB
  by_cases hg : eps < den
  · have : o.lt o.eps den = true := by simp [ho, ordOps, hg]
    simp only [this, if_true]
    have hdpos : 0 < den := lt_trans he0 hg
    have e : o.mul W.N (o.div o.one den) = W.N / den := by simp [ho, ordOps]; ring
    rw [e, div_pow, div_le_one (by positivity)]
    have := W.num_sq_le hw' hWnn
    nlinarith
  · have : o.lt o.eps den = false := by simp [ho, ordOps, hg]
    simp only [this, if_false, Bool.false_eq_true]
    simp [ho, ordOps]

/-- the same for every one of the 24 grid rotations admissible for a 3-D box (and `rotSum_grid2`, `rotSum_id`
give 2-D and the identity) -/
theorem corr_formula_sq_le_one_grid3 (sqrt : α → α) (hs : SqrtOk sqrt) (eps : α) (he0 : 0 < eps)
    (R : GridRot) (a b c : Nat) (hR : GridOk3 R a b c) (t : List Int)
    (f f2 g Wm : List Int → α) (hf2 : ∀ x, f2 x = f x * f x)
    (hfull : ∀ k, inShape [a, b, c] k = true → Wm (natsToInts k) = 1) (hpos : 0 < prodL [a, b, c]) :
    (scoreCORR (ordOps sqrt eps) (fun u v => corrSpec [a, b, c] u v t) [a, b, c] (rotF R [a, b, c]) f f2 g Wm) ^ 2 ≤ 1 :=
  corr_formula_sq_le_one_fullmask sqrt hs eps he0 [a, b, c] t _ (rotSum_grid3 R a b c hR) f f2 g Wm hf2 hfull hpos

/-- a non-negative number with the right square is the square root -/
theorem SqrtOk.unique {sqrt : α → α} (hs : SqrtOk sqrt) (x t : α) (hx : 0 ≤ x) (ht : 0 ≤ t) (h : t * t = x) : sqrt x = t := by
  have h1 := hs.sq x hx
  have h0 := hs.nonneg x
  have : (sqrt x - t) * (sqrt x + t) = 0 := by ring_nf; nlinarith
  rcases mul_eq_zero.mp this with h2 | h2
  · linarith
  · have : sqrt x = 0 ∧ t = 0 := by constructor <;> linarith
    rw [this.1, this.2]

/-- the value of the code's FLC formula in closed form, in terms of the window sums -/
theorem flc_value (sqrt : α → α) (hs : SqrtOk sqrt) (eps : α)
    (ms : List Nat) (t : List Int) (f f2 G Wm : List Int → α) (hf2 : ∀ x, f2 x = f x * f x)
    (hw : ∀ k, inShape ms k = true → 0 ≤ Wm (natsToInts k))
    (hn : 0 < sumShape ms (fun k => Wm (natsToInts k)))
    (hvar : 0 < (Win.mk ms (fun k => Wm (natsToInts k)) (fun k => f (specIdx ms t k)) (fun k => G (natsToInts k))).B) :
    scoreFLC (ordOps sqrt eps) (fun a b => corrSpec ms a b t) ms f f2 G Wm
      = ((Win.mk ms (fun k => Wm (natsToInts k)) (fun k => f (specIdx ms t k)) (fun k => G (natsToInts k))).N
          / sqrt ((Win.mk ms (fun k => Wm (natsToInts k)) (fun k => f (specIdx ms t k)) (fun k => G (natsToInts k))).B
                  / (Win.mk ms (fun k => Wm (natsToInts k)) (fun k => f (specIdx ms t k)) (fun k => G (natsToInts k))).n))
        / ((if sqrt ((Win.mk ms (fun k => Wm (natsToInts k)) (fun k => f (specIdx ms t k)) (fun k => G (natsToInts k))).A
                  / (Win.mk ms (fun k => Wm (natsToInts k)) (fun k => f (specIdx ms t k)) (fun k => G (natsToInts k))).n) < eps
            then 1
            else sqrt ((Win.mk ms (fun k => Wm (natsToInts k)) (fun k => f (specIdx ms t k)) (fun k => G (natsToInts k))).A
                  / (Win.mk ms (fun k => Wm (natsToInts k)) (fun k => f (specIdx ms t k)) (fun k => G (natsToInts k))).n))
           * (Win.mk ms (fun k => Wm (natsToInts k)) (fun k => f (specIdx ms t k)) (fun k => G (natsToInts k))).n) := by
  obtain ⟨e_n, e_st, e_num, e_sd, -, -, -, -, -, -⟩ := flc_core sqrt hs eps ms t f f2 G Wm hf2 hw hn hvar
  unfold scoreFLC
  simp only [e_n, e_st, e_num, e_sd]
  by_cases h : sqrt ((Win.mk ms (fun k => Wm (natsToInts k)) (fun k => f (specIdx ms t k)) (fun k => G (natsToInts k))).A
      / (Win.mk ms (fun k => Wm (natsToInts k)) (fun k => f (specIdx ms t k)) (fun k => G (natsToInts k))).n) < eps
  · have hl : (ordOps sqrt eps).lt (sqrt ((Win.mk ms (fun k => Wm (natsToInts k)) (fun k => f (specIdx ms t k)) (fun k => G (natsToInts k))).A
      / (Win.mk ms (fun k => Wm (natsToInts k)) (fun k => f (specIdx ms t k)) (fun k => G (natsToInts k))).n)) (ordOps sqrt eps).eps = true := by
      simp [ordOps, h]
    simp only [hl, if_true, if_pos h]
    simp [ordOps]
  · have hl : (ordOps sqrt eps).lt (sqrt ((Win.mk ms (fun k => Wm (natsToInts k)) (fun k => f (specIdx ms t k)) (fun k => G (natsToInts k))).A
      / (Win.mk ms (fun k => Wm (natsToInts k)) (fun k => f (specIdx ms t k)) (fun k => G (natsToInts k))).n)) (ordOps sqrt eps).eps = false := by
      simp [ordOps, h]
    simp only [hl, if_false, Bool.false_eq_true, if_neg h]
    simp [ordOps]

/-- the same statement for an abstract window: what target scaling does to the closed form -/
theorem Win.flc_closed_affine (W : Win α) (sqrt : α → α) (hs : SqrtOk sqrt) (eps c d : α) (hc : 0 < c)
    (hw : ∀ k, inShape W.ms k = true → 0 ≤ W.w k) (hn : 0 < W.n)
    (hg : ¬ sqrt (W.A / W.n) < eps) (hg' : ¬ c * sqrt (W.A / W.n) < eps) :
    ((W.affA c d).N / sqrt ((W.affA c d).B / (W.affA c d).n))
        / ((if sqrt ((W.affA c d).A / (W.affA c d).n) < eps then 1 else sqrt ((W.affA c d).A / (W.affA c d).n)) * (W.affA c d).n)
      = (W.N / sqrt (W.B / W.n)) / ((if sqrt (W.A / W.n) < eps then 1 else sqrt (W.A / W.n)) * W.n) := by
  have hnn : W.n ≠ 0 := ne_of_gt hn
  obtain ⟨hN2, hA2, hB2⟩ := W.target_affine c d hnn
  have hn2 : (W.affA c d).n = W.n := rfl
  have hAn : 0 ≤ W.A / W.n := div_nonneg (W.A_nonneg hw) (le_of_lt hn)
  have hsq : sqrt ((W.affA c d).A / (W.affA c d).n) = c * sqrt (W.A / W.n) := by
    rw [hA2, hn2]
    apply hs.unique
    · have : c * c * W.A / W.n = c * c * (W.A / W.n) := by ring
      rw [this]; positivity
    · exact mul_nonneg (le_of_lt hc) (hs.nonneg _)
    · have := hs.sq _ hAn
      calc c * sqrt (W.A / W.n) * (c * sqrt (W.A / W.n)) = c * c * (sqrt (W.A / W.n) * sqrt (W.A / W.n)) := by ring
        _ = c * c * W.A / W.n := by rw [this]; ring
  rw [hsq, hN2, hB2, hn2, if_neg hg, if_neg hg']
  have hcne : c ≠ 0 := ne_of_gt hc
  by_cases h0 : sqrt (W.A / W.n) = 0
  · simp [h0]
  · by_cases h1 : sqrt (W.B / W.n) = 0
    · simp [h1]
    · field_simp

/-- **Intensity invariance of the FLC formula itself** (not only of its ingredients): replacing the target by
`c·f + d` with `c > 0` leaves the value of the code's formula unchanged, for every translation, template and
non-negative mask — as long as neither window falls under the code's *absolute* low-variance guard (`sd ≥ eps` before
and after; inside the guard the code deliberately returns the un-normalised value, which is what the float32 finding
at large offsets and the seeded "guard on the variance" changes are about). -/
theorem flc_formula_target_affine_invariant (sqrt : α → α) (hs : SqrtOk sqrt) (eps : α)
    (ms : List Nat) (t : List Int) (f G Wm : List Int → α) (c d : α) (hc : 0 < c)
    (hw : ∀ k, inShape ms k = true → 0 ≤ Wm (natsToInts k))
    (hn : 0 < sumShape ms (fun k => Wm (natsToInts k)))
    (hvar : 0 < (Win.mk ms (fun k => Wm (natsToInts k)) (fun k => f (specIdx ms t k)) (fun k => G (natsToInts k))).B)
    (hg : ¬ sqrt ((Win.mk ms (fun k => Wm (natsToInts k)) (fun k => f (specIdx ms t k)) (fun k => G (natsToInts k))).A
                / (Win.mk ms (fun k => Wm (natsToInts k)) (fun k => f (specIdx ms t k)) (fun k => G (natsToInts k))).n) < eps)
    (hg' : ¬ c * sqrt ((Win.mk ms (fun k => Wm (natsToInts k)) (fun k => f (specIdx ms t k)) (fun k => G (natsToInts k))).A
                / (Win.mk ms (fun k => Wm (natsToInts k)) (fun k => f (specIdx ms t k)) (fun k => G (natsToInts k))).n) < eps) :
    scoreFLC (ordOps sqrt eps) (fun a b => corrSpec ms a b t) ms (fun x => c * f x + d) (fun x => (c * f x + d) * (c * f x + d)) G Wm
      = scoreFLC (ordOps sqrt eps) (fun a b => corrSpec ms a b t) ms f (fun x => f x * f x) G Wm := by
  have hnn : (Win.mk ms (fun k => Wm (natsToInts k)) (fun k => f (specIdx ms t k)) (fun k => G (natsToInts k))).n ≠ 0 :=
    ne_of_gt hn
  have haff := (Win.mk ms (fun k => Wm (natsToInts k)) (fun k => f (specIdx ms t k)) (fun k => G (natsToInts k))).target_affine c d hnn
  have hvar' : 0 < (Win.mk ms (fun k => Wm (natsToInts k)) (fun k => (fun x => c * f x + d) (specIdx ms t k))
      (fun k => G (natsToInts k))).B := by
    have : (Win.mk ms (fun k => Wm (natsToInts k)) (fun k => (fun x => c * f x + d) (specIdx ms t k)) (fun k => G (natsToInts k)))
        = (Win.mk ms (fun k => Wm (natsToInts k)) (fun k => f (specIdx ms t k)) (fun k => G (natsToInts k))).affA c d := rfl
    rw [this, haff.2.2]; exact hvar
  rw [flc_value sqrt hs eps ms t f _ G Wm (fun _ => rfl) hw hn hvar,
      flc_value sqrt hs eps ms t (fun x => c * f x + d) _ G Wm (fun _ => rfl) hw hn hvar']
  exact Win.flc_closed_affine (Win.mk ms (fun k => Wm (natsToInts k)) (fun k => f (specIdx ms t k)) (fun k => G (natsToInts k)))
    sqrt hs eps c d hc hw hn hg hg'

/-- **A planted copy scores exactly 1 in the code's FLC formula**: when the target window at translation `t` equals
the (rotated) template wherever the (rotated) mask is non-zero and the window is not under the low-variance guard, the
formula's value is 1 — and by `flc_formula_sq_le_one` no other value of the map exceeds it. -/
theorem flc_formula_planted_eq_one (sqrt : α → α) (hs : SqrtOk sqrt) (eps : α)
    (ms : List Nat) (t : List Int) (f G Wm : List Int → α)
    (hw : ∀ k, inShape ms k = true → 0 ≤ Wm (natsToInts k))
    (hn : 0 < sumShape ms (fun k => Wm (natsToInts k)))
    (hvar : 0 < (Win.mk ms (fun k => Wm (natsToInts k)) (fun k => f (specIdx ms t k)) (fun k => G (natsToInts k))).B)
    (hplant : ∀ k, inShape ms k = true → Wm (natsToInts k) * f (specIdx ms t k) = Wm (natsToInts k) * G (natsToInts k))
    (hg : ¬ sqrt ((Win.mk ms (fun k => Wm (natsToInts k)) (fun k => f (specIdx ms t k)) (fun k => G (natsToInts k))).B
                / (Win.mk ms (fun k => Wm (natsToInts k)) (fun k => f (specIdx ms t k)) (fun k => G (natsToInts k))).n) < eps) :
    scoreFLC (ordOps sqrt eps) (fun a b => corrSpec ms a b t) ms f (fun x => f x * f x) G Wm = 1 := by
  rw [flc_value sqrt hs eps ms t f _ G Wm (fun _ => rfl) hw hn hvar]
  generalize hWdef : (Win.mk ms (fun k => Wm (natsToInts k)) (fun k => f (specIdx ms t k)) (fun k => G (natsToInts k))) = W at *
  have hn' : 0 < W.n := by rw [← hWdef]; exact hn
  have hp : ∀ k, inShape W.ms k = true → W.w k * W.a k = W.w k * W.h k := by rw [← hWdef]; exact hplant
  have hw' : ∀ k, inShape W.ms k = true → 0 ≤ W.w k := by rw [← hWdef]; exact hw
  have hBn : 0 ≤ W.B / W.n := div_nonneg (W.B_nonneg hw') (le_of_lt hn')
  have hσσ : sqrt (W.B / W.n) * sqrt (W.B / W.n) = W.B / W.n := hs.sq _ hBn
  have hσpos : 0 < sqrt (W.B / W.n) := by
    rcases (hs.nonneg (W.B / W.n)).lt_or_eq with h | h
    · exact h
    · exfalso
      have : W.B / W.n = 0 := by rw [← hσσ, ← h]; ring
      rcases div_eq_zero_iff.mp this with h' | h'
      · rw [h'] at hvar; exact lt_irrefl _ hvar
      · exact (ne_of_gt hn') h'
  obtain ⟨_, hAB, h1⟩ := W.planted_eq_one hp hn' (sqrt (W.B / W.n)) hσpos hσσ
  rw [hAB, if_neg hg]
  exact h1

/-- **MCC (Padfield) before clipping is already in [-1, 1].**  For a binary template mask `W` (`W² = W`, rotated or not),
any non-negative target mask `tm` (with `fm = f·tm`, `fm2 = f²·tm`, as the code builds them from a 0/1 target mask) and a
mask overlap above the code's `eps` guard, the numerator and denominator the code computes per voxel satisfy
`num² ≤ den²` — Cauchy–Schwarz with the weights `tm(t+k)·W(k)`.  So in exact arithmetic the final clip of
`mcc_scoring` never changes a value; it only absorbs rounding. -/
theorem mcc_parts_cauchy_schwarz (sqrt : α → α) (hs : SqrtOk sqrt) (eps : α) (he0 : 0 < eps)
    (ms : List Nat) (t : List Int) (f fm fm2 tm G W : List Int → α)
    (hfm : ∀ x, fm x = f x * tm x) (hfm2 : ∀ x, fm2 x = f x * f x * tm x)
    (htm : ∀ x, 0 ≤ tm x)
    (hW0 : ∀ k, inShape ms k = true → 0 ≤ W (natsToInts k))
    (hWb : ∀ k, inShape ms k = true → W (natsToInts k) * W (natsToInts k) = W (natsToInts k))
    (hov : ¬ corrSpec ms tm W t < eps) :
    (mccParts (ordOps sqrt eps) (fun a b => corrSpec ms a b t) ms fm fm2 tm G W).1 ^ 2
      ≤ (mccParts (ordOps sqrt eps) (fun a b => corrSpec ms a b t) ms fm fm2 tm G W).2.1 ^ 2 := by
  generalize hst : normStats (ordOps sqrt eps) ms G W (maskSum (ordOps sqrt eps) ms W) = st
  -- the window with weights u = tm(t+k)·W(k)
  have key : ∀ V : Win α, V = ⟨ms, fun k => tm (specIdx ms t k) * W (natsToInts k), fun k => f (specIdx ms t k),
      fun k => (G (natsToInts k) - st.1) / st.2⟩ →
      (mccParts (ordOps sqrt eps) (fun a b => corrSpec ms a b t) ms fm fm2 tm G W).1 ^ 2
        ≤ (mccParts (ordOps sqrt eps) (fun a b => corrSpec ms a b t) ms fm fm2 tm G W).2.1 ^ 2 := by
    intro V hV
    have hVms : V.ms = ms := by rw [hV]
    have hVw : ∀ k, V.w k = tm (specIdx ms t k) * W (natsToInts k) := by intro k; rw [hV]
    have hVa : ∀ k, V.a k = f (specIdx ms t k) := by intro k; rw [hV]
    have hVh : ∀ k, V.h k = (G (natsToInts k) - st.1) / st.2 := by intro k; rw [hV]
    have hw' : ∀ k, inShape V.ms k = true → 0 ≤ V.w k := by
      intro k hk; rw [hVw]; rw [hVms] at hk; exact mul_nonneg (htm _) (hW0 k hk)
    -- the six correlation sums in terms of the window
    have e_ov : corrSpec ms tm W t = V.n := by
      unfold corrSpec Win.n; rw [hVms]; apply sumShape_congr; intro k _; rw [hVw]
    have e_t : corrSpec ms fm W t = sumShape V.ms (fun k => V.w k * V.a k) := by
      unfold corrSpec; rw [hVms]; apply sumShape_congr; intro k _; rw [hVw, hVa, hfm]; ring
    have e_t2 : corrSpec ms tm (normT (ordOps sqrt eps) st G W) t = sumShape V.ms (fun k => V.w k * V.h k) := by
      unfold corrSpec; rw [hVms]; apply sumShape_congr; intro k _
      rw [hVw, hVh]; simp only [normT, normApply, ordOps]; ring
    have e_n0 : corrSpec ms fm (normT (ordOps sqrt eps) st G W) t = sumShape V.ms (fun k => V.w k * (V.a k * V.h k)) := by
      unfold corrSpec; rw [hVms]; apply sumShape_congr; intro k _
      rw [hVw, hVa, hVh, hfm]; simp only [normT, normApply, ordOps]; ring
    have e_f2 : corrSpec ms fm2 W t = sumShape V.ms (fun k => V.w k * (V.a k * V.a k)) := by
      unfold corrSpec; rw [hVms]; apply sumShape_congr; intro k _; rw [hVw, hVa, hfm2]; ring
    have e_h2 : corrSpec ms tm (fun x => (ordOps sqrt eps).sq (normT (ordOps sqrt eps) st G W x)) t
        = sumShape V.ms (fun k => V.w k * (V.h k * V.h k)) := by
      unfold corrSpec; rw [hVms]; apply sumShape_congr; intro k hk
      rw [hVw, hVh]; simp only [normT, normApply, ordOps, Ops.sq]
      have := hWb k hk
      calc tm (specIdx ms t k) * ((G (natsToInts k) - st.1) / st.2 * W (natsToInts k) * ((G (natsToInts k) - st.1) / st.2 * W (natsToInts k)))
          = tm (specIdx ms t k) * ((G (natsToInts k) - st.1) / st.2 * ((G (natsToInts k) - st.1) / st.2)) * (W (natsToInts k) * W (natsToInts k)) := by ring
        _ = _ := by rw [this]; ring
    have hnpos : 0 < V.n := by rw [← e_ov]; exact lt_of_lt_of_le he0 (not_lt.mp hov)
    have hnn : V.n ≠ 0 := ne_of_gt hnpos
    have hg : (ordOps sqrt eps).lt V.n (ordOps sqrt eps).eps = false := by
      have : ¬ V.n < eps := by rw [← e_ov]; exact hov
      simp [ordOps, this]
    -- numerator and the two variance terms
    have eN : sumShape V.ms (fun k => V.w k * (V.a k * V.h k))
        - sumShape V.ms (fun k => V.w k * V.a k) * sumShape V.ms (fun k => V.w k * V.h k) / V.n = V.N := by
      unfold Win.N Win.mu
      have e : (fun k => V.w k * (V.a k * (V.h k - sumShape V.ms (fun k => V.w k * V.h k) / V.n)))
          = fun k => V.w k * (V.a k * V.h k) - (sumShape V.ms (fun k => V.w k * V.h k) / V.n) * (V.w k * V.a k) := by
        funext k; ring
      rw [e, sumShape_sub, sumShape_mul_left V.ms _ (fun k => V.w k * V.a k)]
      field_simp
    have eA : sumShape V.ms (fun k => V.w k * (V.a k * V.a k)) - (sumShape V.ms (fun k => V.w k * V.a k)) ^ 2 / V.n = V.A := by
      have := V.var_formula_a hnn
      have h3 : V.A = (sumShape V.ms (fun k => V.w k * (V.a k * V.a k)) / V.n
          - (sumShape V.ms (fun k => V.w k * V.a k) / V.n) ^ 2) * V.n := by rw [this]; field_simp
      rw [h3]; field_simp
    have eB : sumShape V.ms (fun k => V.w k * (V.h k * V.h k)) - (sumShape V.ms (fun k => V.w k * V.h k)) ^ 2 / V.n = V.B := by
      have := V.var_formula_h hnn
      have h3 : V.B = (sumShape V.ms (fun k => V.w k * (V.h k * V.h k)) / V.n
          - (sumShape V.ms (fun k => V.w k * V.h k) / V.n) ^ 2) * V.n := by rw [this]; field_simp
      rw [h3]; field_simp
    have hA0 := V.A_nonneg hw'
    have hB0 := V.B_nonneg hw'
    unfold mccParts
    simp only [hst, e_ov, e_t, e_t2, e_n0, e_f2, e_h2]
    simp only [hg, if_false, Bool.false_eq_true]
    have e1 : (ordOps sqrt eps).sub (sumShape V.ms fun k => V.w k * (V.a k * V.h k))
        ((ordOps sqrt eps).div ((ordOps sqrt eps).mul (sumShape V.ms fun k => V.w k * V.a k) (sumShape V.ms fun k => V.w k * V.h k)) V.n)
        = V.N := eN
    have e2 : (ordOps sqrt eps).sub (sumShape V.ms fun k => V.w k * (V.a k * V.a k))
        ((ordOps sqrt eps).div ((ordOps sqrt eps).sq (sumShape V.ms fun k => V.w k * V.a k)) V.n) = V.A := by
      rw [← eA]; simp only [ordOps, Ops.sq]; ring
    have e3 : (ordOps sqrt eps).sub (sumShape V.ms fun k => V.w k * (V.h k * V.h k))
        ((ordOps sqrt eps).div ((ordOps sqrt eps).sq (sumShape V.ms fun k => V.w k * V.h k)) V.n) = V.B := by
      rw [← eB]; simp only [ordOps, Ops.sq]; ring
    rw [e1, e2, e3, max0_of_nonneg sqrt eps _ hA0, max0_of_nonneg sqrt eps _ hB0]
    have hAB : 0 ≤ V.A * V.B := mul_nonneg hA0 hB0
    have hsq : (ordOps sqrt eps).sqrt ((ordOps sqrt eps).mul V.A V.B) ^ 2 = V.A * V.B := by
      show sqrt (V.A * V.B) ^ 2 = V.A * V.B
      rw [pow_two]; exact hs.sq _ hAB
    rw [hsq]
    exact V.num_sq_le hw' hnn
  exact key _ rfl

end flc


/-! ## deepening 4: planted ⇒ 1, intensity invariances and zero-variance guards of the remaining score formulas -/

section flcsph_formulas
variable {α : Type} [Field α] [LinearOrder α] [IsStrictOrderedRing α]

theorem SqrtOk.zero {sqrt : α → α} (hs : SqrtOk sqrt) : sqrt 0 = 0 :=
  hs.unique 0 0 le_rfl le_rfl (by ring)

/-- the window deviation after a target change `a ↦ c·a + d`, `c > 0`: `sqrt(A'/n) = c·sqrt(A/n)` -/
theorem Win.affA_sd (W : Win α) (sqrt : α → α) (hs : SqrtOk sqrt) (c d : α) (hc : 0 < c)
    (hw : ∀ k, inShape W.ms k = true → 0 ≤ W.w k) (hn : 0 < W.n) :
    sqrt ((W.affA c d).A / (W.affA c d).n) = c * sqrt (W.A / W.n) := by
  have hnn : W.n ≠ 0 := ne_of_gt hn
  obtain ⟨_, hA2, _⟩ := W.target_affine c d hnn
  have hn2 : (W.affA c d).n = W.n := rfl
  have hAn : 0 ≤ W.A / W.n := div_nonneg (W.A_nonneg hw) (le_of_lt hn)
  rw [hA2, hn2]
  apply hs.unique
  · have : c * c * W.A / W.n = c * c * (W.A / W.n) := by ring
    rw [this]; positivity
  · exact mul_nonneg (le_of_lt hc) (hs.nonneg _)
  · have := hs.sq _ hAn
    calc c * sqrt (W.A / W.n) * (c * sqrt (W.A / W.n)) = c * c * (sqrt (W.A / W.n) * sqrt (W.A / W.n)) := by ring
      _ = c * c * W.A / W.n := by rw [this]; ring

/-- the value of the code's FLCSphericalMask formula in closed form, in terms of the window sums; `G` is the rotated,
once-standardised template.  Below the guard (`sd ≤ eps`) the code returns exactly 0. -/
theorem flcSph_value (sqrt : α → α) (hs : SqrtOk sqrt) (eps : α)
    (ms : List Nat) (t : List Int) (rot : (List Int → α) → (List Int → α)) (f f2 g G Wm : List Int → α)
    (hf2 : ∀ x, f2 x = f x * f x)
    (hG : G = rot (normT (ordOps sqrt eps) (normStats (ordOps sqrt eps) ms g Wm (maskSum (ordOps sqrt eps) ms Wm)) g Wm))
    (hw : ∀ k, inShape ms k = true → 0 ≤ Wm (natsToInts k))
    (hn : 0 < sumShape ms (fun k => Wm (natsToInts k)))
    (hvar : 0 < (flcWin ms t f G Wm).B) :
    scoreFLCSph (ordOps sqrt eps) (fun a b => corrSpec ms a b t) ms rot f f2 g Wm
      = if eps < sqrt ((flcWin ms t f G Wm).A / (flcWin ms t f G Wm).n)
        then ((flcWin ms t f G Wm).N / sqrt ((flcWin ms t f G Wm).B / (flcWin ms t f G Wm).n))
              / (sqrt ((flcWin ms t f G Wm).A / (flcWin ms t f G Wm).n) * (flcWin ms t f G Wm).n)
        else 0 := by
  obtain ⟨e_n, e_st, e_num, e_sd, -, -, -, -, -, -⟩ := flc_core sqrt hs eps ms t f f2 G Wm hf2 hw hn hvar
  have hG2 : rot (normT (ordOps sqrt eps) (normStats (ordOps sqrt eps) ms g Wm (flcWin ms t f G Wm).n) g Wm) = G := by
    rw [← e_n]; exact hG.symm
  unfold scoreFLCSph
  simp only [flcWin] at hG2 ⊢
  simp only [e_n, hG2, e_st, e_num, e_sd]
  split_ifs with h1 h2 h2
  · simp [ordOps]; ring
  · exfalso; simp [ordOps] at h1; exact h2 h1
  · exfalso; simp [ordOps] at h1; exact absurd h2 (not_lt.mpr h1)
  · rfl

/-- window level: what a target change `a ↦ c·a + d`, `c > 0`, does to the FLCSphericalMask closed form -/
theorem Win.flcSph_closed_affine (W : Win α) (sqrt : α → α) (hs : SqrtOk sqrt) (eps c d : α) (hc : 0 < c)
    (hw : ∀ k, inShape W.ms k = true → 0 ≤ W.w k) (hn : 0 < W.n)
    (hg : eps < sqrt (W.A / W.n) ↔ eps < c * sqrt (W.A / W.n)) :
    (if eps < sqrt ((W.affA c d).A / (W.affA c d).n)
      then ((W.affA c d).N / sqrt ((W.affA c d).B / (W.affA c d).n)) / (sqrt ((W.affA c d).A / (W.affA c d).n) * (W.affA c d).n)
      else 0)
      = (if eps < sqrt (W.A / W.n) then (W.N / sqrt (W.B / W.n)) / (sqrt (W.A / W.n) * W.n) else 0) := by
  have hnn : W.n ≠ 0 := ne_of_gt hn
  obtain ⟨hN2, _, hB2⟩ := W.target_affine c d hnn
  have hn2 : (W.affA c d).n = W.n := rfl
  rw [W.affA_sd sqrt hs c d hc hw hn, hN2, hB2, hn2]
  have hcne : c ≠ 0 := ne_of_gt hc
  by_cases h : eps < sqrt (W.A / W.n)
  · rw [if_pos h, if_pos (hg.mp h)]
    by_cases h0 : sqrt (W.A / W.n) = 0
    · simp [h0]
    · by_cases h1 : sqrt (W.B / W.n) = 0
      · simp [h1]
      · field_simp
  · rw [if_neg h, if_neg (fun h' => h (hg.mpr h'))]

/-- **Intensity invariance of the FLCSphericalMask formula**: replacing the target by `c·f + d`, `c > 0`, leaves the
value of the code's formula unchanged for every translation, template, rotation and non-negative mask, provided the
window is on the same side of the code's absolute guard before and after (`eps < sd ↔ eps < c·sd`; both below: both
values are 0, both above: the normalised values agree). -/
theorem flcSph_formula_target_affine_invariant (sqrt : α → α) (hs : SqrtOk sqrt) (eps : α)
    (ms : List Nat) (t : List Int) (rot : (List Int → α) → (List Int → α)) (f g G Wm : List Int → α) (c d : α) (hc : 0 < c)
    (hG : G = rot (normT (ordOps sqrt eps) (normStats (ordOps sqrt eps) ms g Wm (maskSum (ordOps sqrt eps) ms Wm)) g Wm))
    (hw : ∀ k, inShape ms k = true → 0 ≤ Wm (natsToInts k))
    (hn : 0 < sumShape ms (fun k => Wm (natsToInts k)))
    (hvar : 0 < (flcWin ms t f G Wm).B)
    (hg : eps < sqrt ((flcWin ms t f G Wm).A / (flcWin ms t f G Wm).n)
        ↔ eps < c * sqrt ((flcWin ms t f G Wm).A / (flcWin ms t f G Wm).n)) :
    scoreFLCSph (ordOps sqrt eps) (fun a b => corrSpec ms a b t) ms rot (fun x => c * f x + d)
        (fun x => (c * f x + d) * (c * f x + d)) g Wm
      = scoreFLCSph (ordOps sqrt eps) (fun a b => corrSpec ms a b t) ms rot f (fun x => f x * f x) g Wm := by
  have hnn : (flcWin ms t f G Wm).n ≠ 0 := ne_of_gt hn
  have haff := (flcWin ms t f G Wm).target_affine c d hnn
  have hW' : flcWin ms t (fun x => c * f x + d) G Wm = (flcWin ms t f G Wm).affA c d := rfl
  have hvar' : 0 < (flcWin ms t (fun x => c * f x + d) G Wm).B := by rw [hW', haff.2.2]; exact hvar
  rw [flcSph_value sqrt hs eps ms t rot f _ g G Wm (fun _ => rfl) hG hw hn hvar,
      flcSph_value sqrt hs eps ms t rot (fun x => c * f x + d) _ g G Wm (fun _ => rfl) hG hw hn hvar', hW']
  exact Win.flcSph_closed_affine (flcWin ms t f G Wm) sqrt hs eps c d hc hw hn hg

/-- positivity of the template deviation from `0 < B` -/
theorem Win.sigma_pos (W : Win α) (sqrt : α → α) (hs : SqrtOk sqrt)
    (hw : ∀ k, inShape W.ms k = true → 0 ≤ W.w k) (hn : 0 < W.n) (hvar : 0 < W.B) :
    0 < sqrt (W.B / W.n) ∧ sqrt (W.B / W.n) * sqrt (W.B / W.n) = W.B / W.n := by
  have hBn : 0 ≤ W.B / W.n := div_nonneg (W.B_nonneg hw) (le_of_lt hn)
  have hσσ : sqrt (W.B / W.n) * sqrt (W.B / W.n) = W.B / W.n := hs.sq _ hBn
  refine ⟨?_, hσσ⟩
  rcases (hs.nonneg (W.B / W.n)).lt_or_eq with h | h
  · exact h
  · exfalso
    have : W.B / W.n = 0 := by rw [← hσσ, ← h]; ring
    rcases div_eq_zero_iff.mp this with h' | h'
    · rw [h'] at hvar; exact lt_irrefl _ hvar
    · exact (ne_of_gt hn) h'

/-- **A planted copy scores exactly 1 in the code's FLCSphericalMask formula**: when the target window at translation
`t` equals the rotated standardised template wherever the mask is non-zero and the window is above the guard
(`eps < sd`), the formula's value is 1 — and by `flcSph_formula_sq_le_one` no other value of the map exceeds it. -/
theorem flcSph_formula_planted_eq_one (sqrt : α → α) (hs : SqrtOk sqrt) (eps : α)
    (ms : List Nat) (t : List Int) (rot : (List Int → α) → (List Int → α)) (f g G Wm : List Int → α)
    (hG : G = rot (normT (ordOps sqrt eps) (normStats (ordOps sqrt eps) ms g Wm (maskSum (ordOps sqrt eps) ms Wm)) g Wm))
    (hw : ∀ k, inShape ms k = true → 0 ≤ Wm (natsToInts k))
    (hn : 0 < sumShape ms (fun k => Wm (natsToInts k)))
    (hvar : 0 < (flcWin ms t f G Wm).B)
    (hplant : ∀ k, inShape ms k = true → Wm (natsToInts k) * f (specIdx ms t k) = Wm (natsToInts k) * G (natsToInts k))
    (hg : eps < sqrt ((flcWin ms t f G Wm).B / (flcWin ms t f G Wm).n)) :
    scoreFLCSph (ordOps sqrt eps) (fun a b => corrSpec ms a b t) ms rot f (fun x => f x * f x) g Wm = 1 := by
  rw [flcSph_value sqrt hs eps ms t rot f _ g G Wm (fun _ => rfl) hG hw hn hvar]
  obtain ⟨hσpos, hσσ⟩ := (flcWin ms t f G Wm).sigma_pos sqrt hs hw hn hvar
  obtain ⟨_, hAB, h1⟩ := (flcWin ms t f G Wm).planted_eq_one hplant hn _ hσpos hσσ
  rw [hAB, if_pos hg]
  exact h1

/-- **zero-variance windows, FLC**: a target window that is constant (or empty: all zeros) under the mask gives the
code's FLC formula the value exactly 0 — in whichever branch of the guard it lands (numerator `Σ w a (h−μ)` vanishes). -/
theorem flc_formula_constant_window_zero (sqrt : α → α) (hs : SqrtOk sqrt) (eps : α)
    (ms : List Nat) (t : List Int) (f f2 G Wm : List Int → α) (hf2 : ∀ x, f2 x = f x * f x)
    (hw : ∀ k, inShape ms k = true → 0 ≤ Wm (natsToInts k))
    (hn : 0 < sumShape ms (fun k => Wm (natsToInts k)))
    (hvar : 0 < (flcWin ms t f G Wm).B)
    (c : α) (hc : ∀ k, inShape ms k = true → f (specIdx ms t k) = c) :
    scoreFLC (ordOps sqrt eps) (fun a b => corrSpec ms a b t) ms f f2 G Wm = 0 := by
  rw [flc_value sqrt hs eps ms t f f2 G Wm hf2 hw hn hvar]
  have h0 := ((flcWin ms t f G Wm).constant_window c hc (ne_of_gt hn)).2
  simp only [flcWin] at h0
  rw [h0]; simp

/-- **zero-variance windows, FLCSphericalMask**: the same window gives exactly 0 there as well; and with `0 < eps` it
is the guard branch that returns it (`sd = 0 ≤ eps`). -/
theorem flcSph_formula_constant_window_zero (sqrt : α → α) (hs : SqrtOk sqrt) (eps : α)
    (ms : List Nat) (t : List Int) (rot : (List Int → α) → (List Int → α)) (f f2 g G Wm : List Int → α)
    (hf2 : ∀ x, f2 x = f x * f x)
    (hG : G = rot (normT (ordOps sqrt eps) (normStats (ordOps sqrt eps) ms g Wm (maskSum (ordOps sqrt eps) ms Wm)) g Wm))
    (hw : ∀ k, inShape ms k = true → 0 ≤ Wm (natsToInts k))
    (hn : 0 < sumShape ms (fun k => Wm (natsToInts k)))
    (hvar : 0 < (flcWin ms t f G Wm).B)
    (c : α) (hc : ∀ k, inShape ms k = true → f (specIdx ms t k) = c) :
    scoreFLCSph (ordOps sqrt eps) (fun a b => corrSpec ms a b t) ms rot f f2 g Wm = 0
      ∧ sqrt ((flcWin ms t f G Wm).A / (flcWin ms t f G Wm).n) = 0 := by
  have h0 := (flcWin ms t f G Wm).constant_window c hc (ne_of_gt hn)
  constructor
  · rw [flcSph_value sqrt hs eps ms t rot f f2 g G Wm hf2 hG hw hn hvar, h0.2]; simp
  · rw [h0.1]; simp [hs.zero]

/-- **guard branch of FLC, end to end**: where the window deviation is below the code's `eps`, the value the formula
returns (numerator divided by `n` only) is smaller than `eps` in absolute value — finite, tiny, no division by ~0. -/
theorem flc_formula_guard_branch_lt_eps (sqrt : α → α) (hs : SqrtOk sqrt) (eps : α)
    (ms : List Nat) (t : List Int) (f f2 G Wm : List Int → α) (hf2 : ∀ x, f2 x = f x * f x)
    (hw : ∀ k, inShape ms k = true → 0 ≤ Wm (natsToInts k))
    (hn : 0 < sumShape ms (fun k => Wm (natsToInts k)))
    (hvar : 0 < (flcWin ms t f G Wm).B)
    (hg : sqrt ((flcWin ms t f G Wm).A / (flcWin ms t f G Wm).n) < eps) :
    (scoreFLC (ordOps sqrt eps) (fun a b => corrSpec ms a b t) ms f f2 G Wm) ^ 2 < eps ^ 2 := by
  rw [flc_value sqrt hs eps ms t f f2 G Wm hf2 hw hn hvar]
  obtain ⟨hσpos, hσσ⟩ := (flcWin ms t f G Wm).sigma_pos sqrt hs hw hn hvar
  have hAn : 0 ≤ (flcWin ms t f G Wm).A / (flcWin ms t f G Wm).n :=
    div_nonneg ((flcWin ms t f G Wm).A_nonneg hw) (le_of_lt hn)
  have hb := (flcWin ms t f G Wm).guard_branch_small hw hn _ _ hσpos (hs.nonneg _) hσσ (hs.sq _ hAn)
  simp only [flcWin] at hb hg ⊢
  rw [if_pos hg, one_mul]
  have h0 := hs.nonneg ((Win.mk ms (fun k => Wm (natsToInts k)) (fun k => f (specIdx ms t k)) (fun k => G (natsToInts k))).A
      / (Win.mk ms (fun k => Wm (natsToInts k)) (fun k => f (specIdx ms t k)) (fun k => G (natsToInts k))).n)
  nlinarith

end flcsph_formulas

section template_invariance
variable {α : Type} [Field α] [LinearOrder α] [IsStrictOrderedRing α]

theorem max0_scale (sqrt : α → α) (eps c v : α) (hc : 0 < c) :
    (ordOps sqrt eps).max0 (c * c * v) = c * c * (ordOps sqrt eps).max0 v := by
  have hcc : 0 < c * c := mul_pos hc hc
  by_cases h : v < 0
  · have : c * c * v < 0 := mul_neg_of_pos_of_neg hcc h
    simp [Ops.max0, ordOps, h, this]
  · have : ¬ c * c * v < 0 := not_lt.mpr (mul_nonneg (le_of_lt hcc) (not_lt.mp h))
    simp [Ops.max0, ordOps, h, this]

omit [IsStrictOrderedRing α] in
theorem max0_nonneg (sqrt : α → α) (eps v : α) : 0 ≤ (ordOps sqrt eps).max0 v := by
  by_cases h : v < 0
  · simp [Ops.max0, ordOps, h]
  · simp [Ops.max0, ordOps, h]; exact not_lt.mp h

theorem SqrtOk.scale {sqrt : α → α} (hs : SqrtOk sqrt) (c m : α) (hc : 0 < c) (hm : 0 ≤ m) :
    sqrt (c * c * m) = c * sqrt m := by
  apply hs.unique
  · positivity
  · exact mul_nonneg (le_of_lt hc) (hs.nonneg _)
  · have := hs.sq m hm
    calc c * sqrt m * (c * sqrt m) = c * c * (sqrt m * sqrt m) := by ring
      _ = c * c * m := by rw [this]

/-- the statistics `normalize_template` computes, after `g ↦ c·g + d` (`c > 0`): mean `c·μ + d`, deviation `c·σ` -/
theorem normStats_affine (sqrt : α → α) (hs : SqrtOk sqrt) (eps : α) (ms : List Nat) (g w : List Int → α)
    (c d : α) (hc : 0 < c) (hn : sumShape ms (fun k => w (natsToInts k)) ≠ 0) :
    normStats (ordOps sqrt eps) ms (fun x => c * g x + d) w (maskSum (ordOps sqrt eps) ms w)
      = (c * (normStats (ordOps sqrt eps) ms g w (maskSum (ordOps sqrt eps) ms w)).1 + d,
         c * (normStats (ordOps sqrt eps) ms g w (maskSum (ordOps sqrt eps) ms w)).2) := by
  have e_n : maskSum (ordOps sqrt eps) ms w = sumShape ms (fun k => w (natsToInts k)) := by
    unfold maskSum; rw [boxSum_ord]
  set n := sumShape ms (fun k => w (natsToInts k)) with hnd
  set S1 := sumShape ms (fun k => g (natsToInts k) * w (natsToInts k)) with hS1
  set S2 := sumShape ms (fun k => g (natsToInts k) * g (natsToInts k) * w (natsToInts k)) with hS2
  have a1 : sumShape ms (fun k => (c * g (natsToInts k) + d) * w (natsToInts k)) = c * S1 + d * n := by
    have e : (fun k => (c * g (natsToInts k) + d) * w (natsToInts k))
        = fun k => c * (g (natsToInts k) * w (natsToInts k)) + d * w (natsToInts k) := by funext k; ring
    rw [e, sumShape_add, sumShape_mul_left, sumShape_mul_left]
  have a2 : sumShape ms (fun k => (c * g (natsToInts k) + d) * (c * g (natsToInts k) + d) * w (natsToInts k))
      = c * c * S2 + (2 * c * d * S1 + d * d * n) := by
    have e : (fun k => (c * g (natsToInts k) + d) * (c * g (natsToInts k) + d) * w (natsToInts k))
        = fun k => (c * c) * (g (natsToInts k) * g (natsToInts k) * w (natsToInts k))
            + ((2 * c * d) * (g (natsToInts k) * w (natsToInts k)) + (d * d) * w (natsToInts k)) := by funext k; ring
    rw [e, sumShape_add, sumShape_add, sumShape_mul_left, sumShape_mul_left, sumShape_mul_left]
  unfold normStats
  rw [e_n]
  simp only [boxSum_ord]
  simp only [ordOps, Ops.sq] at *
  rw [a1, a2]
  have hv : (c * c * S2 + (2 * c * d * S1 + d * d * n)) / n - (c * S1 + d * n) / n * ((c * S1 + d * n) / n)
      = c * c * (S2 / n - S1 / n * (S1 / n)) := by field_simp; ring
  rw [hv]
  have hm := max0_scale sqrt eps c (S2 / n - S1 / n * (S1 / n)) hc
  simp only [ordOps] at hm
  rw [hm, hs.scale _ _ hc (by have := max0_nonneg sqrt eps (S2 / n - S1 / n * (S1 / n)); simpa [ordOps] using this)]
  congr 1
  field_simp
  rfl

/-- **the standardised template is invariant under `g ↦ c·g + d`, `c > 0`** (`normalize_template` as coded: mean and
`sqrt(max(E[g²] − E[g]², 0))` under the mask) — for every mask of non-zero mass, whatever the template (also one without
spread: both sides are then `x/0 = 0`). -/
theorem normT_affine (sqrt : α → α) (hs : SqrtOk sqrt) (eps : α) (ms : List Nat) (g w : List Int → α)
    (c d : α) (hc : 0 < c) (hn : sumShape ms (fun k => w (natsToInts k)) ≠ 0) :
    normT (ordOps sqrt eps) (normStats (ordOps sqrt eps) ms (fun x => c * g x + d) w (maskSum (ordOps sqrt eps) ms w))
        (fun x => c * g x + d) w
      = normT (ordOps sqrt eps) (normStats (ordOps sqrt eps) ms g w (maskSum (ordOps sqrt eps) ms w)) g w := by
  rw [normStats_affine sqrt hs eps ms g w c d hc hn]
  generalize normStats (ordOps sqrt eps) ms g w (maskSum (ordOps sqrt eps) ms w) = st
  funext x
  simp only [normT, normApply, ordOps]
  have hcne : c ≠ 0 := ne_of_gt hc
  by_cases h : st.2 = 0
  · simp [h]
  · field_simp
    ring

/-- **template scale/offset invariance of the FLC formula**, for every correlation functional `C` (so for the spec sums
and for the FFT pipeline alike), every target, mask of non-zero mass and `c > 0`: no guard condition is needed. -/
theorem flc_formula_template_affine_invariant (sqrt : α → α) (hs : SqrtOk sqrt) (eps : α)
    (C : (List Int → α) → (List Int → α) → α) (ms : List Nat) (f f2 G W : List Int → α)
    (c d : α) (hc : 0 < c) (hn : sumShape ms (fun k => W (natsToInts k)) ≠ 0) :
    scoreFLC (ordOps sqrt eps) C ms f f2 (fun x => c * G x + d) W = scoreFLC (ordOps sqrt eps) C ms f f2 G W := by
  simp only [scoreFLC, normT_affine sqrt hs eps ms G W c d hc hn]

/-- the same for **FLCSphericalMask** (the template enters only through its standardised form) -/
theorem flcSph_formula_template_affine_invariant (sqrt : α → α) (hs : SqrtOk sqrt) (eps : α)
    (C : (List Int → α) → (List Int → α) → α) (ms : List Nat) (rot : (List Int → α) → (List Int → α))
    (f f2 g w : List Int → α) (c d : α) (hc : 0 < c) (hn : sumShape ms (fun k => w (natsToInts k)) ≠ 0) :
    scoreFLCSph (ordOps sqrt eps) C ms rot f f2 (fun x => c * g x + d) w
      = scoreFLCSph (ordOps sqrt eps) C ms rot f f2 g w := by
  simp only [scoreFLCSph, normT_affine sqrt hs eps ms g w c d hc hn]

/-- the same for **CORR / CAM** (any template mask, any rotation — also interpolating ones) -/
theorem corr_formula_template_affine_invariant (sqrt : α → α) (hs : SqrtOk sqrt) (eps : α)
    (C : (List Int → α) → (List Int → α) → α) (ms : List Nat) (rot : (List Int → α) → (List Int → α))
    (f f2 g w : List Int → α) (c d : α) (hc : 0 < c) (hn : sumShape ms (fun k => w (natsToInts k)) ≠ 0) :
    scoreCORR (ordOps sqrt eps) C ms rot f f2 (fun x => c * g x + d) w
      = scoreCORR (ordOps sqrt eps) C ms rot f f2 g w := by
  simp only [scoreCORR, normT_affine sqrt hs eps ms g w c d hc hn]

/-- the same for **MCC**: numerator, denominator and overlap are all unchanged, hence so is the final value -/
theorem mcc_formula_template_affine_invariant (sqrt : α → α) (hs : SqrtOk sqrt) (eps : α)
    (C : (List Int → α) → (List Int → α) → α) (ms : List Nat) (fm fm2 tm G W : List Int → α)
    (c d : α) (hc : 0 < c) (hn : sumShape ms (fun k => W (natsToInts k)) ≠ 0) :
    mccParts (ordOps sqrt eps) C ms fm fm2 tm (fun x => c * G x + d) W = mccParts (ordOps sqrt eps) C ms fm fm2 tm G W := by
  simp only [mccParts, normT_affine sqrt hs eps ms G W c d hc hn]

end template_invariance

section mcc_formula
variable {α : Type} [Field α] [LinearOrder α] [IsStrictOrderedRing α]

/-- the final step of `mcc_scoring` when `num² ≤ den²` and the denominator is above its tolerance: neither the
`den ≤ tol → 1` replacement nor the clip changes anything, the value is `num/den` (or 0 under the overlap threshold) -/
theorem mccFinish_eq_ratio (sqrt : α → α) (eps thousand ratio num den ov maxDen maxOv : α)
    (h : num ^ 2 ≤ den ^ 2) (hd : 0 ≤ den) (htol : thousand * eps * maxDen < den) :
    mccFinish (ordOps sqrt eps) thousand ratio (num, den, ov) maxDen maxOv
      = if ov < ratio * maxOv then 0 else num / den := by
  have hb : -1 ≤ num / den ∧ num / den ≤ 1 := by
    rcases hd.lt_or_eq with hp | hz
    · have h1 : -den ≤ num := by by_contra hc; nlinarith [not_le.mp hc]
      have h2 : num ≤ den := by by_contra hc; nlinarith [not_le.mp hc]
      constructor
      · rw [le_div_iff₀ hp]; linarith
      · rw [div_le_iff₀ hp]; linarith
    · rw [← hz]; simp
  have e1 : ¬ (num / den < 0 - 1) := by linarith [hb.1]
  have e2 : ¬ (1 < num / den) := by linarith [hb.2]
  simp only [mccFinish, ordOps, decide_eq_true_eq, if_pos htol, if_neg e1, if_neg e2]

omit [IsStrictOrderedRing α] in
/-- below the overlap threshold the code returns exactly 0, whatever numerator and denominator are -/
theorem mccFinish_low_overlap_zero (sqrt : α → α) (eps thousand ratio : α) (parts : α × α × α) (maxDen maxOv : α)
    (hov : parts.2.2 < ratio * maxOv) :
    mccFinish (ordOps sqrt eps) thousand ratio parts maxDen maxOv = 0 := by
  obtain ⟨num, den, ov⟩ := parts
  simp only [mccFinish, ordOps, decide_eq_true_eq]
  rw [if_pos hov]

/-- the low-denominator guard as coded (`temp2[temp2 <= tol] = 1`): the value is the clipped numerator — with
`num² ≤ den²` and `0 ≤ den ≤ tol` it is bounded by `tol` as well as by 1 -/
theorem mccFinish_low_denominator (sqrt : α → α) (eps thousand ratio num den ov maxDen maxOv : α)
    (h : num ^ 2 ≤ den ^ 2) (hd : 0 ≤ den) (htol : ¬ thousand * eps * maxDen < den) :
    (mccFinish (ordOps sqrt eps) thousand ratio (num, den, ov) maxDen maxOv) ^ 2 ≤ (thousand * eps * maxDen) ^ 2 := by
  have hT : den ≤ thousand * eps * maxDen := not_lt.mp htol
  have hT0 : 0 ≤ thousand * eps * maxDen := le_trans hd hT
  have h1 : -den ≤ num := by by_contra hc; nlinarith [not_le.mp hc]
  have h2 : num ≤ den := by by_contra hc; nlinarith [not_le.mp hc]
  simp only [mccFinish, ordOps, decide_eq_true_eq]
  rw [if_neg htol]
  split_ifs <;> nlinarith

/-- **MCC end to end, every input**: the value `mcc_scoring` reports (overlap threshold, denominator tolerance, clip —
`mccFinish` applied to the per-voxel parts `mccParts` of the code) lies in [-1, 1] for all targets, target masks,
templates, template masks, translations, thresholds and map maxima. -/
theorem mcc_formula_abs_le_one (sqrt : α → α) (eps thousand ratio : α)
    (C : (List Int → α) → (List Int → α) → α) (ms : List Nat) (fm fm2 tm G W : List Int → α) (maxDen maxOv : α) :
    -1 ≤ mccFinish (ordOps sqrt eps) thousand ratio (mccParts (ordOps sqrt eps) C ms fm fm2 tm G W) maxDen maxOv ∧
    mccFinish (ordOps sqrt eps) thousand ratio (mccParts (ordOps sqrt eps) C ms fm fm2 tm G W) maxDen maxOv ≤ 1 :=
  mcc_clipped sqrt eps thousand ratio _ maxDen maxOv

/-- squared form of `mcc_formula_abs_le_one` -/
theorem mcc_formula_sq_le_one (sqrt : α → α) (eps thousand ratio : α)
    (C : (List Int → α) → (List Int → α) → α) (ms : List Nat) (fm fm2 tm G W : List Int → α) (maxDen maxOv : α) :
    (mccFinish (ordOps sqrt eps) thousand ratio (mccParts (ordOps sqrt eps) C ms fm fm2 tm G W) maxDen maxOv) ^ 2 ≤ 1 := by
  obtain ⟨h1, h2⟩ := mcc_formula_abs_le_one sqrt eps thousand ratio C ms fm fm2 tm G W maxDen maxOv
  nlinarith

/-- **MCC end to end, the clip is inactive**: for a binary template mask, a non-negative target mask, an overlap above
`eps` and a denominator above the code's tolerance, the reported value is the plain quotient `num/den` of the code's
numerator and denominator (0 under the overlap threshold) — Cauchy–Schwarz (`mcc_parts_cauchy_schwarz`) already keeps it
in [-1, 1], the clip only absorbs rounding. -/
theorem mcc_formula_eq_ratio (sqrt : α → α) (hs : SqrtOk sqrt) (eps : α) (he0 : 0 < eps)
    (ms : List Nat) (t : List Int) (f fm fm2 tm G W : List Int → α)
    (hfm : ∀ x, fm x = f x * tm x) (hfm2 : ∀ x, fm2 x = f x * f x * tm x)
    (htm : ∀ x, 0 ≤ tm x)
    (hW0 : ∀ k, inShape ms k = true → 0 ≤ W (natsToInts k))
    (hWb : ∀ k, inShape ms k = true → W (natsToInts k) * W (natsToInts k) = W (natsToInts k))
    (hov : ¬ corrSpec ms tm W t < eps)
    (thousand ratio maxDen maxOv : α)
    (htol : thousand * eps * maxDen < (mccParts (ordOps sqrt eps) (fun a b => corrSpec ms a b t) ms fm fm2 tm G W).2.1) :
    mccFinish (ordOps sqrt eps) thousand ratio (mccParts (ordOps sqrt eps) (fun a b => corrSpec ms a b t) ms fm fm2 tm G W)
        maxDen maxOv
      = if (mccParts (ordOps sqrt eps) (fun a b => corrSpec ms a b t) ms fm fm2 tm G W).2.2 < ratio * maxOv then 0
        else (mccParts (ordOps sqrt eps) (fun a b => corrSpec ms a b t) ms fm fm2 tm G W).1
              / (mccParts (ordOps sqrt eps) (fun a b => corrSpec ms a b t) ms fm fm2 tm G W).2.1 := by
  have hcs := mcc_parts_cauchy_schwarz sqrt hs eps he0 ms t f fm fm2 tm G W hfm hfm2 htm hW0 hWb hov
  have hd : 0 ≤ (mccParts (ordOps sqrt eps) (fun a b => corrSpec ms a b t) ms fm fm2 tm G W).2.1 := by
    unfold mccParts; exact hs.nonneg _
  generalize mccParts (ordOps sqrt eps) (fun a b => corrSpec ms a b t) ms fm fm2 tm G W = p at *
  obtain ⟨num, den, ov⟩ := p
  exact mccFinish_eq_ratio sqrt eps thousand ratio num den ov maxDen maxOv hcs hd htol

/-- the final step under a positive rescaling of numerator and denominator (what `target ↦ c·target` does to the
parts, see `mcc_parts_target_scale`): above the denominator tolerance — which scales along, being relative to the map
maximum — the value is unchanged -/
theorem mccFinish_scale_invariant (sqrt : α → α) (eps thousand ratio num den ov maxDen maxOv c : α) (hc : 0 < c)
    (htol : thousand * eps * maxDen < den) :
    mccFinish (ordOps sqrt eps) thousand ratio (c * num, c * den, ov) (c * maxDen) maxOv
      = mccFinish (ordOps sqrt eps) thousand ratio (num, den, ov) maxDen maxOv := by
  have htol' : thousand * eps * (c * maxDen) < c * den := by
    have := mul_lt_mul_of_pos_left htol hc
    linarith
  have hq : c * num / (c * den) = num / den := by
    have : c ≠ 0 := ne_of_gt hc
    by_cases hd : den = 0
    · simp [hd]
    · field_simp
  simp only [mccFinish, ordOps, decide_eq_true_eq, if_pos htol, if_pos htol', hq]

omit [LinearOrder α] [IsStrictOrderedRing α] in
theorem corrSpec_smul_left (ms : List Nat) (t : List Int) (a b : List Int → α) (c : α) :
    corrSpec ms (fun x => c * a x) b t = c * corrSpec ms a b t := by
  unfold corrSpec
  rw [← sumShape_mul_left]
  apply sumShape_congr; intro k _; ring

/-- **what `target ↦ c·target` (`c > 0`) does to the MCC parts** the code computes per voxel (masked target `c·fm`,
masked squared target `c²·fm2`): numerator and denominator are multiplied by `c`, the overlap is unchanged — for every
template, both masks, every translation, including the clamps `max(·, 0)` and the `eps` floor of the overlap. -/
theorem mcc_parts_target_scale (sqrt : α → α) (hs : SqrtOk sqrt) (eps : α)
    (ms : List Nat) (t : List Int) (fm fm2 tm G W : List Int → α) (c : α) (hc : 0 < c) :
    mccParts (ordOps sqrt eps) (fun a b => corrSpec ms a b t) ms (fun x => c * fm x) (fun x => c * c * fm2 x) tm G W
      = (c * (mccParts (ordOps sqrt eps) (fun a b => corrSpec ms a b t) ms fm fm2 tm G W).1,
         c * (mccParts (ordOps sqrt eps) (fun a b => corrSpec ms a b t) ms fm fm2 tm G W).2.1,
         (mccParts (ordOps sqrt eps) (fun a b => corrSpec ms a b t) ms fm fm2 tm G W).2.2) := by
  unfold mccParts
  simp only [corrSpec_smul_left]
  generalize normStats (ordOps sqrt eps) ms G W (maskSum (ordOps sqrt eps) ms W) = st
  generalize corrSpec ms tm (normT (ordOps sqrt eps) st G W) t = t2
  generalize corrSpec ms fm (normT (ordOps sqrt eps) st G W) t = n0
  generalize corrSpec ms fm W t = t1
  generalize corrSpec ms fm2 W t = F2
  generalize corrSpec ms tm (fun x => (ordOps sqrt eps).sq (normT (ordOps sqrt eps) st G W x)) t = H2
  generalize (if (ordOps sqrt eps).lt (corrSpec ms tm W t) (ordOps sqrt eps).eps = true then (ordOps sqrt eps).eps
      else corrSpec ms tm W t) = ov
  have e1 : (ordOps sqrt eps).sub (c * n0) ((ordOps sqrt eps).div ((ordOps sqrt eps).mul (c * t1) t2) ov)
      = c * (ordOps sqrt eps).sub n0 ((ordOps sqrt eps).div ((ordOps sqrt eps).mul t1 t2) ov) := by
    simp only [ordOps]; ring
  have e2 : (ordOps sqrt eps).sub (c * c * F2) ((ordOps sqrt eps).div ((ordOps sqrt eps).sq (c * t1)) ov)
      = c * c * (ordOps sqrt eps).sub F2 ((ordOps sqrt eps).div ((ordOps sqrt eps).sq t1) ov) := by
    simp only [ordOps, Ops.sq]; ring
  rw [e1, e2, max0_scale sqrt eps c _ hc]
  generalize hd3e : (ordOps sqrt eps).max0 ((ordOps sqrt eps).sub F2 ((ordOps sqrt eps).div ((ordOps sqrt eps).sq t1) ov)) = d3
  have hd3 : 0 ≤ d3 := by rw [← hd3e]; exact max0_nonneg sqrt eps _
  generalize hdde : (ordOps sqrt eps).max0 ((ordOps sqrt eps).sub H2 ((ordOps sqrt eps).div ((ordOps sqrt eps).sq t2) ov)) = dd
  have hdd : 0 ≤ dd := by rw [← hdde]; exact max0_nonneg sqrt eps _
  have e3 : (ordOps sqrt eps).sqrt ((ordOps sqrt eps).mul (c * c * d3) dd) = c * (ordOps sqrt eps).sqrt ((ordOps sqrt eps).mul d3 dd) := by
    show sqrt (c * c * d3 * dd) = c * sqrt (d3 * dd)
    rw [mul_assoc (c * c) d3 dd]
    exact hs.scale c (d3 * dd) hc (mul_nonneg hd3 hdd)
  rw [e3]

/-- **MCC is invariant under positive scaling of the target, end to end**: with the target multiplied by `c > 0` (and
the map maximum of the denominator scaling along, as it does), the value `mcc_scoring` reports at a voxel whose
denominator is above the tolerance is unchanged. -/
theorem mcc_formula_target_scale_invariant (sqrt : α → α) (hs : SqrtOk sqrt) (eps : α)
    (ms : List Nat) (t : List Int) (fm fm2 tm G W : List Int → α) (c : α) (hc : 0 < c)
    (thousand ratio maxDen maxOv : α)
    (htol : thousand * eps * maxDen < (mccParts (ordOps sqrt eps) (fun a b => corrSpec ms a b t) ms fm fm2 tm G W).2.1) :
    mccFinish (ordOps sqrt eps) thousand ratio
        (mccParts (ordOps sqrt eps) (fun a b => corrSpec ms a b t) ms (fun x => c * fm x) (fun x => c * c * fm2 x) tm G W)
        (c * maxDen) maxOv
      = mccFinish (ordOps sqrt eps) thousand ratio
        (mccParts (ordOps sqrt eps) (fun a b => corrSpec ms a b t) ms fm fm2 tm G W) maxDen maxOv := by
  rw [mcc_parts_target_scale sqrt hs eps ms t fm fm2 tm G W c hc]
  generalize mccParts (ordOps sqrt eps) (fun a b => corrSpec ms a b t) ms fm fm2 tm G W = p at *
  obtain ⟨num, den, ov⟩ := p
  exact mccFinish_scale_invariant sqrt eps thousand ratio num den ov maxDen maxOv c hc htol

end mcc_formula

section corr_formulas
variable {α : Type} [Field α] [LinearOrder α] [IsStrictOrderedRing α]

/-- the value of the code's CORR / CAM formula with the full-box mask in closed form: `N/sqrt(A·B)` of the window
`corrWin` (weights 1, target window, rotated standardised template `corrH`), and exactly 0 when `sqrt(A·B) ≤ eps` -/
theorem corr_value_fullmask (sqrt : α → α) (eps : α)
    (ms : List Nat) (t : List Int) (rot : (List Int → α) → (List Int → α)) (hr : RotSum ms rot)
    (f f2 g Wm : List Int → α) (hf2 : ∀ x, f2 x = f x * f x)
    (hfull : ∀ k, inShape ms k = true → Wm (natsToInts k) = 1) (hpos : 0 < prodL ms) :
    scoreCORR (ordOps sqrt eps) (fun a b => corrSpec ms a b t) ms rot f f2 g Wm
      = if eps < sqrt ((corrWin ms t f (corrH sqrt eps ms rot g Wm)).A * (corrWin ms t f (corrH sqrt eps ms rot g Wm)).B)
        then (corrWin ms t f (corrH sqrt eps ms rot g Wm)).N
              / sqrt ((corrWin ms t f (corrH sqrt eps ms rot g Wm)).A * (corrWin ms t f (corrH sqrt eps ms rot g Wm)).B)
        else 0 := by
  set o := ordOps sqrt eps with ho
  have e_n : maskSum o ms Wm = ((prodL ms : Nat) : α) := by
    unfold maskSum; rw [ho, boxSum_ord, ← sumShape_one ms]
    exact sumShape_congr ms _ _ (fun k hk => hfull k hk)
  set n : α := ((prodL ms : Nat) : α) with hn
  have hnpos : 0 < n := by rw [hn]; exact_mod_cast hpos
  have hnn : n ≠ 0 := ne_of_gt hnpos
  set st := normStats o ms g Wm n with hst
  set gh : List Int → α := normT o st g Wm with hgh
  set g2 : List Int → α := fun x => o.mul (gh x) (Wm x) with hg2
  set H : List Int → α := rot g2 with hH
  -- the window: weights 1, a = target window, h = rotated standardised template
  set W : Win α := ⟨ms, fun _ => 1, fun k => f (specIdx ms t k), fun k => H (natsToInts k)⟩ with hW
  have hw' : ∀ k, inShape W.ms k = true → 0 ≤ W.w k := fun _ _ => zero_le_one
  have hWn : W.n = n := by show sumShape ms (fun _ => (1 : α)) = n; rw [sumShape_one]
  have hWnn : W.n ≠ 0 := by rw [hWn]; exact hnn
  -- g2 = gh on the box
  have g2box : ∀ k, inShape ms k = true → g2 (natsToInts k) = gh (natsToInts k) := by
    intro k hk; simp [hg2, ho, ordOps, hfull k hk]
  -- mean of the standardised template = mean of its rotation
  have e_mean : o.div (boxSum o ms (fun k => o.mul (gh (natsToInts k)) (Wm (natsToInts k)))) n = W.mu := by
    rw [ho, boxSum_ord]
    show sumShape ms (fun k => gh (natsToInts k) * Wm (natsToInts k)) / n = W.mu
    unfold Win.mu; rw [hWn]
    have : sumShape ms (fun k => gh (natsToInts k) * Wm (natsToInts k)) = sumShape ms (fun k => g2 (natsToInts k)) :=
      sumShape_congr ms _ _ (fun k hk => by simp [hg2, ho, ordOps])
    rw [this, ← hr.sum g2]
    congr 1
    exact sumShape_congr ms _ _ (fun k _ => by simp [hW, hH])
  -- Σ (gh − mean)² = Σ (H − mean)²
  have e_ssd : boxSum o ms (fun k => o.mul (o.sq (o.sub (gh (natsToInts k)) W.mu)) (Wm (natsToInts k))) = W.B := by
    rw [ho, boxSum_ord]
    have h1 : sumShape ms (fun k => (ordOps sqrt eps).mul ((ordOps sqrt eps).sq ((ordOps sqrt eps).sub (gh (natsToInts k)) W.mu)) (Wm (natsToInts k)))
        = sumShape ms (fun k => (fun x => (g2 x - W.mu) * (g2 x - W.mu)) (natsToInts k)) :=
      sumShape_congr ms _ _ (fun k hk => by
        simp only [ordOps, Ops.sq]; rw [hfull k hk, g2box k hk]; ring)
    rw [h1, ← hr.sum (fun x => (g2 x - W.mu) * (g2 x - W.mu))]
    have h2 := hr.map2 (fun a _ => (a - W.mu) * (a - W.mu)) g2 g2
    unfold Win.B
    apply sumShape_congr; intro k _
    have := congrFun h2 (natsToInts k)
    beta_reduce at this
    rw [← this]
    exact (one_mul _).symm
  have hms : W.ms = ms := rfl
  have e_ws : corrSpec ms f Wm t = sumShape W.ms (fun k => W.w k * W.a k) := by
    rw [hms]; unfold corrSpec; apply sumShape_congr; intro k hk; rw [hfull k hk]; exact (mul_comm _ _)
  have e_s2 : corrSpec ms f2 Wm t = sumShape W.ms (fun k => W.w k * (W.a k * W.a k)) := by
    rw [hms]; unfold corrSpec; apply sumShape_congr; intro k hk; rw [hfull k hk, hf2]; exact (mul_comm _ _)
  have e_fH : corrSpec ms f H t = sumShape W.ms (fun k => W.w k * (W.a k * W.h k)) := by
    rw [hms]; unfold corrSpec; apply sumShape_congr; intro k _; exact (one_mul _).symm
  -- denominator factor on the target side
  have e_den0 : o.sub (corrSpec ms f2 Wm t) (o.div (o.sq (corrSpec ms f Wm t)) (o.ofNat (prodL ms))) = W.A := by
    have := W.var_formula_a hWnn
    rw [e_ws, e_s2]
    have hof : o.ofNat (prodL ms) = n := rfl
    rw [hof]
    simp only [ho, ordOps, Ops.sq]
    rw [hWn] at this
    have h3 : W.A = (sumShape W.ms (fun k => W.w k * (W.a k * W.a k)) / n
        - (sumShape W.ms (fun k => W.w k * W.a k) / n) ^ 2) * n := by rw [this]; field_simp
    rw [h3]; field_simp
  -- numerator
  have e_num : o.sub (corrSpec ms f H t) (o.mul (corrSpec ms f Wm t) W.mu) = W.N := by
    rw [e_ws, e_fH]
    unfold Win.N
    have e : (fun k => W.w k * (W.a k * (W.h k - W.mu)))
        = fun k => W.w k * (W.a k * W.h k) - W.mu * (W.w k * W.a k) := by funext k; ring
    rw [e, sumShape_sub, sumShape_mul_left W.ms W.mu (fun k => W.w k * W.a k)]
    simp only [ho, ordOps]; ring
  have hAB : 0 ≤ W.A * W.B := mul_nonneg (W.A_nonneg hw') (W.B_nonneg hw')
  unfold scoreCORR
  simp only [← ho, e_n, ← hst, ← hgh, e_mean, e_ssd, e_den0, e_num, ← hH, ← hg2]
  have hmul : o.mul W.A W.B = W.A * W.B := rfl
  have hmax : o.max0 (W.A * W.B) = W.A * W.B := max0_of_nonneg sqrt eps _ hAB
  rw [hmul, hmax]
  have hsq : o.sqrt (W.A * W.B) = sqrt (W.A * W.B) := rfl
  rw [hsq]
  have hHH : corrH sqrt eps ms rot g Wm = H := by
    unfold corrH; rw [e_n]
  have hWW : corrWin ms t f (corrH sqrt eps ms rot g Wm) = W := by rw [hHH]
  rw [hWW]
  by_cases hg : eps < sqrt (W.A * W.B)
  · have : o.lt o.eps (sqrt (W.A * W.B)) = true := by simp [ho, ordOps, hg]
    simp only [this, if_true, if_pos hg]
    simp [ho, ordOps]; ring
  · have : o.lt o.eps (sqrt (W.A * W.B)) = false := by simp [ho, ordOps, hg]
    simp only [this, if_false, Bool.false_eq_true, if_neg hg]
    simp [ho, ordOps]

theorem SqrtOk.mul_self {sqrt : α → α} (hs : SqrtOk sqrt) (b : α) (hb : 0 ≤ b) : sqrt (b * b) = b :=
  hs.unique (b * b) b (mul_nonneg hb hb) hb rfl

/-- **A planted copy scores exactly 1 in the code's CORR / CAM formula** (full-box mask, rotation permuting the box):
when the target window at translation `t` equals the rotated standardised template and its spread is above the guard
(`eps < B = Σ (H − mean)²`), the value is 1 — and by `corr_formula_sq_le_one_fullmask` nothing in the map exceeds it. -/
theorem corr_formula_planted_eq_one_fullmask (sqrt : α → α) (hs : SqrtOk sqrt) (eps : α) (he0 : 0 < eps)
    (ms : List Nat) (t : List Int) (rot : (List Int → α) → (List Int → α)) (hr : RotSum ms rot)
    (f g Wm : List Int → α)
    (hfull : ∀ k, inShape ms k = true → Wm (natsToInts k) = 1) (hpos : 0 < prodL ms)
    (hplant : ∀ k, inShape ms k = true → f (specIdx ms t k) = corrH sqrt eps ms rot g Wm (natsToInts k))
    (hg : eps < (corrWin ms t f (corrH sqrt eps ms rot g Wm)).B) :
    scoreCORR (ordOps sqrt eps) (fun a b => corrSpec ms a b t) ms rot f (fun x => f x * f x) g Wm = 1 := by
  rw [corr_value_fullmask sqrt eps ms t rot hr f _ g Wm (fun _ => rfl) hfull hpos]
  have hw : ∀ k, inShape (corrWin ms t f (corrH sqrt eps ms rot g Wm)).ms k = true →
      0 ≤ (corrWin ms t f (corrH sqrt eps ms rot g Wm)).w k := fun _ _ => zero_le_one
  have hn : 0 < (corrWin ms t f (corrH sqrt eps ms rot g Wm)).n := by
    show 0 < sumShape ms (fun _ => (1 : α)); rw [sumShape_one]; exact_mod_cast hpos
  have hp : ∀ k, inShape (corrWin ms t f (corrH sqrt eps ms rot g Wm)).ms k = true →
      (corrWin ms t f (corrH sqrt eps ms rot g Wm)).w k * (corrWin ms t f (corrH sqrt eps ms rot g Wm)).a k
        = (corrWin ms t f (corrH sqrt eps ms rot g Wm)).w k * (corrWin ms t f (corrH sqrt eps ms rot g Wm)).h k := by
    intro k hk
    show (1 : α) * f (specIdx ms t k) = 1 * corrH sqrt eps ms rot g Wm (natsToInts k)
    rw [hplant k hk]
  have hB : 0 < (corrWin ms t f (corrH sqrt eps ms rot g Wm)).B := lt_trans he0 hg
  obtain ⟨hσpos, hσσ⟩ := (corrWin ms t f (corrH sqrt eps ms rot g Wm)).sigma_pos sqrt hs hw hn hB
  obtain ⟨hN, hA, _⟩ := (corrWin ms t f (corrH sqrt eps ms rot g Wm)).planted_eq_one hp hn _ hσpos hσσ
  rw [hN, hA, hs.mul_self _ (le_of_lt hB), if_pos hg]
  exact div_self (ne_of_gt hB)

/-- **zero-variance guard of CORR / CAM**: a constant (or empty) target window makes `A = 0`, the denominator
`sqrt(A·B) = 0` is not above `eps`, and the code returns exactly 0 (no division). -/
theorem corr_formula_constant_window_zero_fullmask (sqrt : α → α) (hs : SqrtOk sqrt) (eps : α) (he0 : 0 < eps)
    (ms : List Nat) (t : List Int) (rot : (List Int → α) → (List Int → α)) (hr : RotSum ms rot)
    (f f2 g Wm : List Int → α) (hf2 : ∀ x, f2 x = f x * f x)
    (hfull : ∀ k, inShape ms k = true → Wm (natsToInts k) = 1) (hpos : 0 < prodL ms)
    (c : α) (hc : ∀ k, inShape ms k = true → f (specIdx ms t k) = c) :
    scoreCORR (ordOps sqrt eps) (fun a b => corrSpec ms a b t) ms rot f f2 g Wm = 0
      ∧ ¬ eps < sqrt ((corrWin ms t f (corrH sqrt eps ms rot g Wm)).A * (corrWin ms t f (corrH sqrt eps ms rot g Wm)).B) := by
  have hn : 0 < (corrWin ms t f (corrH sqrt eps ms rot g Wm)).n := by
    show 0 < sumShape ms (fun _ => (1 : α)); rw [sumShape_one]; exact_mod_cast hpos
  have h0 := (corrWin ms t f (corrH sqrt eps ms rot g Wm)).constant_window c hc (ne_of_gt hn)
  have hguard : ¬ eps < sqrt ((corrWin ms t f (corrH sqrt eps ms rot g Wm)).A * (corrWin ms t f (corrH sqrt eps ms rot g Wm)).B) := by
    rw [h0.1, zero_mul, hs.zero]; exact not_lt.mpr (le_of_lt he0)
  refine ⟨?_, hguard⟩
  rw [corr_value_fullmask sqrt eps ms t rot hr f f2 g Wm hf2 hfull hpos, if_neg hguard]

/-- **Intensity invariance of the CORR / CAM formula** (full-box mask, rotation permuting the box): replacing the target
by `c·f + d`, `c > 0`, leaves the value unchanged when the denominator is on the same side of the code's absolute guard
before and after (`eps < den ↔ eps < c·den`; both below: both values are 0). -/
theorem corr_formula_target_affine_invariant_fullmask (sqrt : α → α) (hs : SqrtOk sqrt) (eps : α)
    (ms : List Nat) (t : List Int) (rot : (List Int → α) → (List Int → α)) (hr : RotSum ms rot)
    (f g Wm : List Int → α) (c d : α) (hc : 0 < c)
    (hfull : ∀ k, inShape ms k = true → Wm (natsToInts k) = 1) (hpos : 0 < prodL ms)
    (hg : eps < sqrt ((corrWin ms t f (corrH sqrt eps ms rot g Wm)).A * (corrWin ms t f (corrH sqrt eps ms rot g Wm)).B)
        ↔ eps < c * sqrt ((corrWin ms t f (corrH sqrt eps ms rot g Wm)).A * (corrWin ms t f (corrH sqrt eps ms rot g Wm)).B)) :
    scoreCORR (ordOps sqrt eps) (fun a b => corrSpec ms a b t) ms rot (fun x => c * f x + d)
        (fun x => (c * f x + d) * (c * f x + d)) g Wm
      = scoreCORR (ordOps sqrt eps) (fun a b => corrSpec ms a b t) ms rot f (fun x => f x * f x) g Wm := by
  rw [corr_value_fullmask sqrt eps ms t rot hr f _ g Wm (fun _ => rfl) hfull hpos,
      corr_value_fullmask sqrt eps ms t rot hr (fun x => c * f x + d) _ g Wm (fun _ => rfl) hfull hpos]
  have hW' : corrWin ms t (fun x => c * f x + d) (corrH sqrt eps ms rot g Wm)
      = (corrWin ms t f (corrH sqrt eps ms rot g Wm)).affA c d := rfl
  rw [hW']
  have hw : ∀ k, inShape (corrWin ms t f (corrH sqrt eps ms rot g Wm)).ms k = true →
      0 ≤ (corrWin ms t f (corrH sqrt eps ms rot g Wm)).w k := fun _ _ => zero_le_one
  have hnn : (corrWin ms t f (corrH sqrt eps ms rot g Wm)).n ≠ 0 := by
    apply ne_of_gt
    show 0 < sumShape ms (fun _ => (1 : α)); rw [sumShape_one]; exact_mod_cast hpos
  generalize corrWin ms t f (corrH sqrt eps ms rot g Wm) = W at *
  obtain ⟨hN2, hA2, hB2⟩ := W.target_affine c d hnn
  have e : c * c * W.A * W.B = c * c * (W.A * W.B) := by ring
  rw [hN2, hA2, hB2, e, hs.scale c _ hc (mul_nonneg (W.A_nonneg hw) (W.B_nonneg hw))]
  have hcne : c ≠ 0 := ne_of_gt hc
  by_cases h : eps < sqrt (W.A * W.B)
  · rw [if_pos h, if_pos (hg.mp h)]
    by_cases h0 : sqrt (W.A * W.B) = 0
    · simp [h0]
    · field_simp
  · rw [if_neg h, if_neg (fun h' => h (hg.mpr h'))]

end corr_formulas

section mcc_planted
variable {α : Type} [Field α] [LinearOrder α] [IsStrictOrderedRing α]

/-- **the MCC parts in closed form**: for a binary template mask, a non-negative target mask and an overlap above `eps`,
numerator, denominator and overlap the code computes per voxel are `N`, `sqrt(A·B)` and `n` of the window `mccWin`
(weights `tm·W`). -/
theorem mcc_parts_value (sqrt : α → α) (eps : α) (he0 : 0 < eps)
    (ms : List Nat) (t : List Int) (f fm fm2 tm G W : List Int → α)
    (hfm : ∀ x, fm x = f x * tm x) (hfm2 : ∀ x, fm2 x = f x * f x * tm x)
    (htm : ∀ x, 0 ≤ tm x)
    (hW0 : ∀ k, inShape ms k = true → 0 ≤ W (natsToInts k))
    (hWb : ∀ k, inShape ms k = true → W (natsToInts k) * W (natsToInts k) = W (natsToInts k))
    (hov : ¬ corrSpec ms tm W t < eps) :
    mccParts (ordOps sqrt eps) (fun a b => corrSpec ms a b t) ms fm fm2 tm G W
      = ((mccWin sqrt eps ms t f tm G W).N,
         sqrt ((mccWin sqrt eps ms t f tm G W).A * (mccWin sqrt eps ms t f tm G W).B),
         (mccWin sqrt eps ms t f tm G W).n) := by
  unfold mccWin
  generalize hst : normStats (ordOps sqrt eps) ms G W (maskSum (ordOps sqrt eps) ms W) = st
  -- the window with weights u = tm(t+k)·W(k)
  have key : ∀ V : Win α, V = ⟨ms, fun k => tm (specIdx ms t k) * W (natsToInts k), fun k => f (specIdx ms t k),
      fun k => (G (natsToInts k) - st.1) / st.2⟩ →
      mccParts (ordOps sqrt eps) (fun a b => corrSpec ms a b t) ms fm fm2 tm G W
        = (V.N, sqrt (V.A * V.B), V.n) := by
    intro V hV
    have hVms : V.ms = ms := by rw [hV]
    have hVw : ∀ k, V.w k = tm (specIdx ms t k) * W (natsToInts k) := by intro k; rw [hV]
    have hVa : ∀ k, V.a k = f (specIdx ms t k) := by intro k; rw [hV]
    have hVh : ∀ k, V.h k = (G (natsToInts k) - st.1) / st.2 := by intro k; rw [hV]
    have hw' : ∀ k, inShape V.ms k = true → 0 ≤ V.w k := by
      intro k hk; rw [hVw]; rw [hVms] at hk; exact mul_nonneg (htm _) (hW0 k hk)
    -- the six correlation sums in terms of the window
    have e_ov : corrSpec ms tm W t = V.n := by
      unfold corrSpec Win.n; rw [hVms]; apply sumShape_congr; intro k _; rw [hVw]
    have e_t : corrSpec ms fm W t = sumShape V.ms (fun k => V.w k * V.a k) := by
      unfold corrSpec; rw [hVms]; apply sumShape_congr; intro k _; rw [hVw, hVa, hfm]; ring
    have e_t2 : corrSpec ms tm (normT (ordOps sqrt eps) st G W) t = sumShape V.ms (fun k => V.w k * V.h k) := by
      unfold corrSpec; rw [hVms]; apply sumShape_congr; intro k _
      rw [hVw, hVh]; simp only [normT, normApply, ordOps]; ring
    have e_n0 : corrSpec ms fm (normT (ordOps sqrt eps) st G W) t = sumShape V.ms (fun k => V.w k * (V.a k * V.h k)) := by
      unfold corrSpec; rw [hVms]; apply sumShape_congr; intro k _
      rw [hVw, hVa, hVh, hfm]; simp only [normT, normApply, ordOps]; ring
    have e_f2 : corrSpec ms fm2 W t = sumShape V.ms (fun k => V.w k * (V.a k * V.a k)) := by
      unfold corrSpec; rw [hVms]; apply sumShape_congr; intro k _; rw [hVw, hVa, hfm2]; ring
    have e_h2 : corrSpec ms tm (fun x => (ordOps sqrt eps).sq (normT (ordOps sqrt eps) st G W x)) t
        = sumShape V.ms (fun k => V.w k * (V.h k * V.h k)) := by
      unfold corrSpec; rw [hVms]; apply sumShape_congr; intro k hk
      rw [hVw, hVh]; simp only [normT, normApply, ordOps, Ops.sq]
      have := hWb k hk
      calc tm (specIdx ms t k) * ((G (natsToInts k) - st.1) / st.2 * W (natsToInts k) * ((G (natsToInts k) - st.1) / st.2 * W (natsToInts k)))
          = tm (specIdx ms t k) * ((G (natsToInts k) - st.1) / st.2 * ((G (natsToInts k) - st.1) / st.2)) * (W (natsToInts k) * W (natsToInts k)) := by ring
        _ = _ := by rw [this]; ring
    have hnpos : 0 < V.n := by rw [← e_ov]; exact lt_of_lt_of_le he0 (not_lt.mp hov)
    have hnn : V.n ≠ 0 := ne_of_gt hnpos
    have hg : (ordOps sqrt eps).lt V.n (ordOps sqrt eps).eps = false := by
      have : ¬ V.n < eps := by rw [← e_ov]; exact hov
      simp [ordOps, this]
    -- numerator and the two variance terms
    have eN : sumShape V.ms (fun k => V.w k * (V.a k * V.h k))
        - sumShape V.ms (fun k => V.w k * V.a k) * sumShape V.ms (fun k => V.w k * V.h k) / V.n = V.N := by
      unfold Win.N Win.mu
      have e : (fun k => V.w k * (V.a k * (V.h k - sumShape V.ms (fun k => V.w k * V.h k) / V.n)))
          = fun k => V.w k * (V.a k * V.h k) - (sumShape V.ms (fun k => V.w k * V.h k) / V.n) * (V.w k * V.a k) := by
        funext k; ring
      rw [e, sumShape_sub, sumShape_mul_left V.ms _ (fun k => V.w k * V.a k)]
      field_simp
    have eA : sumShape V.ms (fun k => V.w k * (V.a k * V.a k)) - (sumShape V.ms (fun k => V.w k * V.a k)) ^ 2 / V.n = V.A := by
      have := V.var_formula_a hnn
      have h3 : V.A = (sumShape V.ms (fun k => V.w k * (V.a k * V.a k)) / V.n
          - (sumShape V.ms (fun k => V.w k * V.a k) / V.n) ^ 2) * V.n := by rw [this]; field_simp
      rw [h3]; field_simp
    have eB : sumShape V.ms (fun k => V.w k * (V.h k * V.h k)) - (sumShape V.ms (fun k => V.w k * V.h k)) ^ 2 / V.n = V.B := by
      have := V.var_formula_h hnn
      have h3 : V.B = (sumShape V.ms (fun k => V.w k * (V.h k * V.h k)) / V.n
          - (sumShape V.ms (fun k => V.w k * V.h k) / V.n) ^ 2) * V.n := by rw [this]; field_simp
      rw [h3]; field_simp
    have hA0 := V.A_nonneg hw'
    have hB0 := V.B_nonneg hw'
    unfold mccParts
    simp only [hst, e_ov, e_t, e_t2, e_n0, e_f2, e_h2]
    simp only [hg, if_false, Bool.false_eq_true]
    have e1 : (ordOps sqrt eps).sub (sumShape V.ms fun k => V.w k * (V.a k * V.h k))
        ((ordOps sqrt eps).div ((ordOps sqrt eps).mul (sumShape V.ms fun k => V.w k * V.a k) (sumShape V.ms fun k => V.w k * V.h k)) V.n)
        = V.N := eN
    have e2 : (ordOps sqrt eps).sub (sumShape V.ms fun k => V.w k * (V.a k * V.a k))
        ((ordOps sqrt eps).div ((ordOps sqrt eps).sq (sumShape V.ms fun k => V.w k * V.a k)) V.n) = V.A := by
      rw [← eA]; simp only [ordOps, Ops.sq]; ring
    have e3 : (ordOps sqrt eps).sub (sumShape V.ms fun k => V.w k * (V.h k * V.h k))
        ((ordOps sqrt eps).div ((ordOps sqrt eps).sq (sumShape V.ms fun k => V.w k * V.h k)) V.n) = V.B := by
      rw [← eB]; simp only [ordOps, Ops.sq]; ring
    rw [e1, e2, e3, max0_of_nonneg sqrt eps _ hA0, max0_of_nonneg sqrt eps _ hB0]
    rfl
  exact key _ rfl

/-- a window whose template is an affine image of the target window, `h = (a − m)/s` under the mask: `N = A/s`, `B = A/s²` -/
theorem Win.affine_related (W : Win α) (m s : α) (hs0 : s ≠ 0) (hn : W.n ≠ 0)
    (hh : ∀ k, inShape W.ms k = true → W.h k = (W.a k - m) / s) :
    W.N = W.A / s ∧ W.B = W.A / (s * s) := by
  have e1 : sumShape W.ms (fun k => W.w k * W.h k) = (sumShape W.ms (fun k => W.w k * W.a k) - m * W.n) / s := by
    have e : sumShape W.ms (fun k => W.w k * W.h k)
        = sumShape W.ms (fun k => (1 / s) * (W.w k * W.a k) + (-(m / s)) * W.w k) :=
      sumShape_congr _ _ _ (fun k hk => by rw [hh k hk]; field_simp; ring)
    rw [e, sumShape_add, sumShape_mul_left, sumShape_mul_left]
    unfold Win.n
    field_simp
    ring
  have hmu : W.mu = (W.fbar - m) / s := by
    unfold Win.mu Win.fbar
    rw [e1]
    field_simp
  constructor
  · rw [W.N_centered hn]
    unfold Win.A
    rw [div_eq_mul_inv, mul_comm, ← sumShape_mul_left]
    apply sumShape_congr; intro k hk
    rw [hh k hk, hmu]
    field_simp
    ring
  · unfold Win.B Win.A
    rw [div_eq_mul_inv, mul_comm, ← sumShape_mul_left]
    apply sumShape_congr; intro k hk
    rw [hh k hk, hmu]
    field_simp
    ring

/-- **A planted copy scores exactly 1 in the code's MCC formula, full masks**: target mask 1 everywhere, template mask
1 on the box, target window equal to the template, template with spread (`σ > 0`, `A > 0`), overlap and denominator
above the code's thresholds: the reported value is 1 — and by `mcc_formula_abs_le_one` nothing exceeds it. -/
theorem mcc_formula_planted_eq_one_fullmasks (sqrt : α → α) (hs : SqrtOk sqrt) (eps : α) (he0 : 0 < eps)
    (ms : List Nat) (t : List Int) (f fm fm2 tm G W : List Int → α)
    (hfm : ∀ x, fm x = f x * tm x) (hfm2 : ∀ x, fm2 x = f x * f x * tm x)
    (htm1 : ∀ x, tm x = 1)
    (hfull : ∀ k, inShape ms k = true → W (natsToInts k) = 1)
    (hplant : ∀ k, inShape ms k = true → f (specIdx ms t k) = G (natsToInts k))
    (hσ : 0 < (normStats (ordOps sqrt eps) ms G W (maskSum (ordOps sqrt eps) ms W)).2)
    (hA : 0 < (mccWin sqrt eps ms t f tm G W).A)
    (hov : ¬ corrSpec ms tm W t < eps)
    (thousand ratio maxDen maxOv : α)
    (htol : thousand * eps * maxDen < (mccParts (ordOps sqrt eps) (fun a b => corrSpec ms a b t) ms fm fm2 tm G W).2.1)
    (hovr : ¬ (mccParts (ordOps sqrt eps) (fun a b => corrSpec ms a b t) ms fm fm2 tm G W).2.2 < ratio * maxOv) :
    mccFinish (ordOps sqrt eps) thousand ratio (mccParts (ordOps sqrt eps) (fun a b => corrSpec ms a b t) ms fm fm2 tm G W)
        maxDen maxOv = 1 := by
  have htm : ∀ x, 0 ≤ tm x := fun x => by rw [htm1]; exact zero_le_one
  have hW0 : ∀ k, inShape ms k = true → 0 ≤ W (natsToInts k) := fun k hk => by rw [hfull k hk]; exact zero_le_one
  have hWb : ∀ k, inShape ms k = true → W (natsToInts k) * W (natsToInts k) = W (natsToInts k) :=
    fun k hk => by rw [hfull k hk]; ring
  rw [mcc_formula_eq_ratio sqrt hs eps he0 ms t f fm fm2 tm G W hfm hfm2 htm hW0 hWb hov thousand ratio maxDen maxOv htol,
      if_neg hovr, mcc_parts_value sqrt eps he0 ms t f fm fm2 tm G W hfm hfm2 htm hW0 hWb hov]
  dsimp only
  have hnV : (mccWin sqrt eps ms t f tm G W).n = corrSpec ms tm W t := rfl
  have hnn : (mccWin sqrt eps ms t f tm G W).n ≠ 0 := by
    rw [hnV]; exact ne_of_gt (lt_of_lt_of_le he0 (not_lt.mp hov))
  have hh : ∀ k, inShape (mccWin sqrt eps ms t f tm G W).ms k = true →
      (mccWin sqrt eps ms t f tm G W).h k
        = ((mccWin sqrt eps ms t f tm G W).a k - (normStats (ordOps sqrt eps) ms G W (maskSum (ordOps sqrt eps) ms W)).1)
            / (normStats (ordOps sqrt eps) ms G W (maskSum (ordOps sqrt eps) ms W)).2 := by
    intro k hk
    show (G (natsToInts k) - _) / _ = (f (specIdx ms t k) - _) / _
    rw [hplant k hk]
  obtain ⟨hN, hB⟩ := (mccWin sqrt eps ms t f tm G W).affine_related _ _ (ne_of_gt hσ) hnn hh
  generalize (normStats (ordOps sqrt eps) ms G W (maskSum (ordOps sqrt eps) ms W)).2 = s at *
  generalize mccWin sqrt eps ms t f tm G W = V at *
  have hq : 0 < V.A / s := div_pos hA hσ
  have e : V.A * (V.A / (s * s)) = (V.A / s) * (V.A / s) := by field_simp
  rw [hN, hB, e, hs.mul_self _ (le_of_lt hq)]
  exact div_self (ne_of_gt hq)

end mcc_planted

section cam_formula
variable {α : Type} [Field α] [LinearOrder α] [IsStrictOrderedRing α]

/-- **CAM = CORR on the standardised target** (`cam_setup` standardises the whole target with its global mean `m` and
deviation `s > 0`, then runs `corr_scoring`): with the full-box mask and a rotation permuting the box the value equals the
CORR value of the raw target whenever the denominator is on the same side of the absolute guard — so every CORR theorem
above (bound, planted ⇒ 1, invariances, zero-variance guard) carries over to CAM. -/
theorem cam_formula_eq_corr_fullmask (sqrt : α → α) (hs : SqrtOk sqrt) (eps : α)
    (ms : List Nat) (t : List Int) (rot : (List Int → α) → (List Int → α)) (hr : RotSum ms rot)
    (f g Wm : List Int → α) (m s : α) (hs0 : 0 < s)
    (hfull : ∀ k, inShape ms k = true → Wm (natsToInts k) = 1) (hpos : 0 < prodL ms)
    (hg : eps < sqrt ((corrWin ms t f (corrH sqrt eps ms rot g Wm)).A * (corrWin ms t f (corrH sqrt eps ms rot g Wm)).B)
        ↔ eps < 1 / s * sqrt ((corrWin ms t f (corrH sqrt eps ms rot g Wm)).A * (corrWin ms t f (corrH sqrt eps ms rot g Wm)).B)) :
    scoreCORR (ordOps sqrt eps) (fun a b => corrSpec ms a b t) ms rot (fun x => (f x - m) / s)
        (fun x => (f x - m) / s * ((f x - m) / s)) g Wm
      = scoreCORR (ordOps sqrt eps) (fun a b => corrSpec ms a b t) ms rot f (fun x => f x * f x) g Wm := by
  have e : ∀ x, (f x - m) / s = 1 / s * f x + -m / s := fun x => by field_simp; ring
  simp only [e]
  exact corr_formula_target_affine_invariant_fullmask sqrt hs eps ms t rot hr f g Wm (1 / s) (-m / s)
    (by positivity) hfull hpos hg

end cam_formula

/-! ### non-vacuity of the hypotheses used by the formula theorems above -/

/-- the real square root satisfies `SqrtOk` (so every theorem above applies to `α = ℝ`, `sqrt = Real.sqrt`) -/
example : SqrtOk Real.sqrt := ⟨Real.sqrt_nonneg, fun _ hx => Real.mul_self_sqrt hx⟩

/-- a planted window: full mask, template `0,1,2`, target equal to it — positive mass, positive spread, `hplant` holds -/
example : (0 : ℚ) < (⟨[3], fun _ => (1 : ℚ), fun k => (k.headD 0 : ℚ), fun k => (k.headD 0 : ℚ)⟩ : Win ℚ).B
    ∧ ∀ k, (⟨[3], fun _ => (1 : ℚ), fun k => (k.headD 0 : ℚ), fun k => (k.headD 0 : ℚ)⟩ : Win ℚ).w k
          * (⟨[3], fun _ => (1 : ℚ), fun k => (k.headD 0 : ℚ), fun k => (k.headD 0 : ℚ)⟩ : Win ℚ).a k
        = (⟨[3], fun _ => (1 : ℚ), fun k => (k.headD 0 : ℚ), fun k => (k.headD 0 : ℚ)⟩ : Win ℚ).w k
          * (⟨[3], fun _ => (1 : ℚ), fun k => (k.headD 0 : ℚ), fun k => (k.headD 0 : ℚ)⟩ : Win ℚ).h k := by
  constructor
  · simp [Win.B, Win.mu, Win.n, sumShape, sumRange]; norm_num
  · intro k; rfl

/-- a constant window (`hc` of the `…_constant_window_zero` theorems) with a non-constant template: `A = 0 < B` -/
example : (⟨[3], fun _ => (1 : ℚ), fun _ => (5 : ℚ), fun k => (k.headD 0 : ℚ)⟩ : Win ℚ).A = 0
    ∧ (0 : ℚ) < (⟨[3], fun _ => (1 : ℚ), fun _ => (5 : ℚ), fun k => (k.headD 0 : ℚ)⟩ : Win ℚ).B := by
  constructor
  · simp [Win.A, Win.fbar, Win.n, sumShape, sumRange]; norm_num
  · simp [Win.B, Win.mu, Win.n, sumShape, sumRange]; norm_num

/-- the guard equivalences `eps < sd ↔ eps < c·sd` of the target-invariance theorems hold e.g. for `sd = 1, c = 3, eps = 1/1000`
(both above) and for `sd = 0` (both below) -/
example : ((1 / 1000 : ℚ) < 1 ↔ (1 / 1000 : ℚ) < 3 * 1) ∧ ((1 / 1000 : ℚ) < 0 ↔ (1 / 1000 : ℚ) < 3 * 0) := by
  constructor <;> norm_num

/-- hypotheses of `mccFinish_eq_ratio` / `mccFinish_scale_invariant` / `mccFinish_low_denominator` on numbers:
`num = 1, den = 2`, tolerance `1000·1e-6·2 < 2`; and a denominator below the tolerance -/
example : ((1 : ℚ)) ^ 2 ≤ 2 ^ 2 ∧ (0 : ℚ) ≤ 2 ∧ (1000 : ℚ) * (1 / 1000000) * 2 < 2
    ∧ ¬ ((1000 : ℚ) * (1 / 1000000) * 2000 < 1) := by norm_num

/-- the clip is inactive on those numbers: `mccFinish` returns `num/den = 1/2` -/
example (sqrt : ℚ → ℚ) :
    mccFinish (ordOps sqrt (1 / 1000000)) 1000 (3 / 10) ((1 : ℚ), 2, 5) 2 5 = 1 / 2 := by
  rw [mccFinish_eq_ratio sqrt _ _ _ 1 2 5 2 5 (by norm_num) (by norm_num) (by norm_num)]
  norm_num

/-- the template change `g ↦ 2·g + 7` on a mask of mass 3 (`hn` of the template-invariance theorems) -/
example : sumShape [3] (fun k => (fun _ : List Int => (1 : ℚ)) (natsToInts k)) ≠ 0 := by
  simp [sumShape, sumRange]; norm_num

/-- `Win.affine_related` / the planted MCC window: target `0,1,2`, template its standardised image `(a − 1)/2`,
positive mass and spread -/
example : (∀ k, (⟨[3], fun _ => (1 : ℚ), fun k => (k.headD 0 : ℚ), fun k => ((k.headD 0 : ℚ) - 1) / 2⟩ : Win ℚ).h k
      = ((⟨[3], fun _ => (1 : ℚ), fun k => (k.headD 0 : ℚ), fun k => ((k.headD 0 : ℚ) - 1) / 2⟩ : Win ℚ).a k - 1) / 2)
    ∧ (0 : ℚ) < (⟨[3], fun _ => (1 : ℚ), fun k => (k.headD 0 : ℚ), fun k => ((k.headD 0 : ℚ) - 1) / 2⟩ : Win ℚ).A := by
  constructor
  · intro k; rfl
  · simp [Win.A, Win.fbar, Win.n, sumShape, sumRange]; norm_num

section mcc_template_final
variable {α : Type} [Field α] [LinearOrder α] [IsStrictOrderedRing α]

/-- **MCC is invariant under `template ↦ c·template + d`, `c > 0`, end to end**: the value `mcc_scoring` reports is
unchanged, with the same map maxima (all parts are unchanged, `mcc_formula_template_affine_invariant`) — no guard
condition, any masks, any correlation functional. -/
theorem mcc_formula_template_affine_invariant_final (sqrt : α → α) (hs : SqrtOk sqrt) (eps thousand ratio : α)
    (C : (List Int → α) → (List Int → α) → α) (ms : List Nat) (fm fm2 tm G W : List Int → α)
    (c d : α) (hc : 0 < c) (hn : sumShape ms (fun k => W (natsToInts k)) ≠ 0) (maxDen maxOv : α) :
    mccFinish (ordOps sqrt eps) thousand ratio (mccParts (ordOps sqrt eps) C ms fm fm2 tm (fun x => c * G x + d) W) maxDen maxOv
      = mccFinish (ordOps sqrt eps) thousand ratio (mccParts (ordOps sqrt eps) C ms fm fm2 tm G W) maxDen maxOv := by
  rw [mcc_formula_template_affine_invariant sqrt hs eps C ms fm fm2 tm G W c d hc hn]

/-- all five formulas over the reals at once: `Real.sqrt` qualifies, so e.g. the MCC bound holds for real inputs -/
example (eps thousand ratio : ℝ) (C : (List Int → ℝ) → (List Int → ℝ) → ℝ) (ms : List Nat)
    (fm fm2 tm G W : List Int → ℝ) (maxDen maxOv : ℝ) :
    (mccFinish (ordOps Real.sqrt eps) thousand ratio (mccParts (ordOps Real.sqrt eps) C ms fm fm2 tm G W) maxDen maxOv) ^ 2 ≤ 1 :=
  mcc_formula_sq_le_one Real.sqrt eps thousand ratio C ms fm fm2 tm G W maxDen maxOv

/-- a joint instance of the template-invariance theorems over ℝ: full mask on `[3]`, template `G ↦ 2·G + 7` -/
example (C : (List Int → ℝ) → (List Int → ℝ) → ℝ) (f f2 G : List Int → ℝ) :
    scoreFLC (ordOps Real.sqrt (1 / 1000)) C [3] f f2 (fun x => 2 * G x + 7) (fun _ => 1)
      = scoreFLC (ordOps Real.sqrt (1 / 1000)) C [3] f f2 G (fun _ => 1) :=
  flc_formula_template_affine_invariant Real.sqrt ⟨Real.sqrt_nonneg, fun _ hx => Real.mul_self_sqrt hx⟩ _ C [3] f f2 G _ 2 7
    (by norm_num) (by simp [sumShape, sumRange]; norm_num)

/-- a joint instance of `mcc_formula_target_scale_invariant`'s parts lemma over ℝ: target times 3 -/
example (t : List Int) (fm fm2 tm G W : List Int → ℝ) :
    (mccParts (ordOps Real.sqrt (1 / 1000)) (fun a b => corrSpec [3] a b t) [3] (fun x => 3 * fm x) (fun x => 3 * 3 * fm2 x) tm G W).2.2
      = (mccParts (ordOps Real.sqrt (1 / 1000)) (fun a b => corrSpec [3] a b t) [3] fm fm2 tm G W).2.2 := by
  rw [mcc_parts_target_scale Real.sqrt ⟨Real.sqrt_nonneg, fun _ hx => Real.mul_self_sqrt hx⟩ _ [3] t fm fm2 tm G W 3 (by norm_num)]

end mcc_template_final

/-- **strict improvement keeps the first best rotation**: a later submission that only ties does not replace
the stored rotation (one voxel, values as integers ranks; from the backend's strict `>` update) -/
theorem strictBest_keeps_first (cur : Int × Int) (v : Int) (id : Int) (h : v ≤ cur.1) :
    (if v > cur.1 then (v, id) else cur) = cur := by
  simp [not_lt.mpr h]

/-! ### the whole history of one voxel (`Model/C03.strictFold`): the first maximal submission above the threshold wins -/

/-- a submission never lowers the stored value -/
theorem strictStep_fst_ge (cur s : Int × Int) : cur.1 ≤ (strictStep cur s).1 := by
  unfold strictStep
  split <;> omega

/-- submissions that all stay below `v` leave a state below `v` below `v` -/
theorem strictFold_below (v : Int) : ∀ (pre : List (Int × Int)) (cur : Int × Int),
    (∀ x ∈ pre, x.1 < v) → cur.1 < v → (pre.foldl strictStep cur).1 < v := by
  intro pre
  induction pre with
  | nil => intro cur _ h; simpa using h
  | cons x xs ih =>
    intro cur hx hc
    rw [List.foldl_cons]
    apply ih
    · intro y hy; exact hx y (List.mem_cons_of_mem _ hy)
    · have hx1 := hx x (List.mem_cons_self)
      unfold strictStep
      split <;> assumption

/-- later submissions that do not exceed the stored value change neither the value nor the rotation id -/
theorem strictFold_keeps (s : Int × Int) : ∀ (post : List (Int × Int)),
    (∀ x ∈ post, x.1 ≤ s.1) → post.foldl strictStep s = s := by
  intro post
  induction post with
  | nil => intro _; rfl
  | cons x xs ih =>
    intro hx
    rw [List.foldl_cons]
    have hx1 := hx x (List.mem_cons_self)
    have : strictStep s x = s := by
      unfold strictStep
      rw [if_neg (by omega)]
    rw [this]
    exact ih (fun y hy => hx y (List.mem_cons_of_mem _ hy))

/-- **the first maximum wins**: if submission `s` exceeds the threshold, everything scored before it is strictly
smaller and nothing scored after it is larger (ties included), the voxel reports exactly `s`: its value and its
rotation id — for histories of any length. -/
theorem strictFold_first_max (thr : Int) (pre post : List (Int × Int)) (s : Int × Int)
    (hthr : thr < s.1) (hpre : ∀ x ∈ pre, x.1 < s.1) (hpost : ∀ x ∈ post, x.1 ≤ s.1) :
    strictFold thr (pre ++ s :: post) = s := by
  unfold strictFold
  rw [List.foldl_append, List.foldl_cons]
  have h1 := strictFold_below s.1 pre (thr, -1) hpre hthr
  generalize pre.foldl strictStep (thr, -1) = c at h1 ⊢
  have : strictStep c s = s := by
    unfold strictStep
    rw [if_pos (by omega)]
  rw [this]
  exact strictFold_keeps s post hpost

/-- a voxel that no rotation lifts above the threshold keeps the threshold and the "no rotation" id `-1`
(a score equal to the threshold is not an improvement) -/
theorem strictFold_none (thr : Int) (subs : List (Int × Int)) (h : ∀ x ∈ subs, x.1 ≤ thr) :
    strictFold thr subs = (thr, -1) := by
  unfold strictFold
  exact strictFold_keeps (thr, -1) subs h

/-- the stored value is an upper bound of the threshold and of every submission -/
theorem strictFold_ge (thr : Int) (subs : List (Int × Int)) :
    thr ≤ (strictFold thr subs).1 ∧ ∀ x ∈ subs, x.1 ≤ (strictFold thr subs).1 := by
  unfold strictFold
  have mono : ∀ (l : List (Int × Int)) (c : Int × Int), c.1 ≤ (l.foldl strictStep c).1 := by
    intro l
    induction l with
    | nil => intro c; simp
    | cons y ys ih =>
      intro c
      rw [List.foldl_cons]
      exact le_trans (strictStep_fst_ge c y) (ih _)
  refine ⟨mono subs (thr, -1), ?_⟩
  have all : ∀ (l : List (Int × Int)) (c : Int × Int), ∀ x ∈ l, x.1 ≤ (l.foldl strictStep c).1 := by
    intro l
    induction l with
    | nil => intro c x hx; cases hx
    | cons y ys ih =>
      intro c x hx
      rw [List.foldl_cons]
      rcases List.mem_cons.mp hx with rfl | hx'
      · refine le_trans ?_ (mono ys _)
        unfold strictStep
        split <;> omega
      · exact ih _ x hx'
  exact all subs (thr, -1)

/-- the planted rotation scoring strictly higher than every other sampled rotation is the one reported,
wherever it stands in the rotation set -/
theorem strictFold_planted (thr : Int) (pre post : List (Int × Int)) (s : Int × Int)
    (hthr : thr < s.1) (hpre : ∀ x ∈ pre, x.1 < s.1) (hpost : ∀ x ∈ post, x.1 < s.1) :
    (strictFold thr (pre ++ s :: post)).2 = s.2 := by
  rw [strictFold_first_max thr pre post s hthr hpre (fun x hx => le_of_lt (hpost x hx))]

example : strictFold 0 ([(3, 0), (5, 1)] ++ (7, 2) :: [(7, 3), (2, 4)]) = (7, 2) := by decide
example : strictFold 5 [(5, 0), (1, 1)] = (5, -1) := by decide

/-! ### non-vacuity -/
example : (⟨[3], fun _ => (1 : ℚ), fun k => (k.headD 0 : ℚ), fun k => (k.headD 0 : ℚ)⟩ : Win ℚ).n = 3 := by
  simp [Win.n, sumShape, sumRange]; norm_num

/-! ### deepening 6: equality cases, antisymmetry, offsets, strict maxima, eps guard -/
section deepen6
variable {α : Type} [Field α] [LinearOrder α] [IsStrictOrderedRing α]
variable (W : Win α)

/-- **|score| ≤ 1 in absolute-value form** for arbitrary non-negative (doubly-)masked weights -/
theorem Win.score_abs_le_one (hw : ∀ k, inShape W.ms k = true → 0 ≤ W.w k) (hn : 0 < W.n)
    (σ sd : α) (hσ : 0 < σ) (hsd : 0 < sd) (eσ : σ * σ = W.B / W.n) (esd : sd * sd = W.A / W.n) :
    |(W.N / σ) / (sd * W.n)| ≤ 1 := by
  have h := W.score_sq_le_one hw hn σ sd hσ hsd eσ esd
  exact (sq_le_one_iff_abs_le_one _).mp h

/-- the lower half of the bound: a normalised score is never below `-1` -/
theorem Win.neg_one_le_score (hw : ∀ k, inShape W.ms k = true → 0 ≤ W.w k) (hn : 0 < W.n)
    (σ sd : α) (hσ : 0 < σ) (hsd : 0 < sd) (eσ : σ * σ = W.B / W.n) (esd : sd * sd = W.A / W.n) :
    -1 ≤ (W.N / σ) / (sd * W.n) :=
  (abs_le.mp (W.score_abs_le_one hw hn σ sd hσ hsd eσ esd)).1

/-- **the eps guard only shrinks**: dividing by `max(sd·n, eps)` instead of `sd·n` keeps `|score| ≤ 1` -/
theorem Win.score_eps_guard_abs_le_one (hw : ∀ k, inShape W.ms k = true → 0 ≤ W.w k) (hn : 0 < W.n)
    (σ sd eps : α) (hσ : 0 < σ) (hsd : 0 < sd) (eσ : σ * σ = W.B / W.n) (esd : sd * sd = W.A / W.n) :
    |(W.N / σ) / max (sd * W.n) eps| ≤ 1 := by
  have h := W.score_abs_le_one hw hn σ sd hσ hsd eσ esd
  have hd : 0 < sd * W.n := mul_pos hsd hn
  have hm : 0 < max (sd * W.n) eps := lt_of_lt_of_le hd (le_max_left _ _)
  rw [abs_div, abs_of_pos hd] at h
  rw [abs_div, abs_of_pos hm]
  refine le_trans ?_ h
  exact div_le_div_of_nonneg_left (abs_nonneg _) hd (le_max_left _ _)

/-- **strict maximum**: a window for which Cauchy–Schwarz is strict (not an affine image of the template under
the mask) scores strictly below the planted value 1 -/
theorem Win.score_lt_one_of_strict (hn : 0 < W.n)
    (σ sd : α) (hσ : 0 < σ) (hsd : 0 < sd) (eσ : σ * σ = W.B / W.n) (esd : sd * sd = W.A / W.n)
    (hlt : W.N ^ 2 < W.A * W.B) :
    (W.N / σ) / (sd * W.n) < 1 := by
  have hB : W.B = σ * σ * W.n := by rw [eσ]; field_simp
  have hA : W.A = sd * sd * W.n := by rw [esd]; field_simp
  rw [hA, hB] at hlt
  have hd : 0 < σ * (sd * W.n) := by positivity
  rw [div_div, div_lt_one hd]
  by_contra hge
  have hge := not_lt.mp hge
  have : (σ * (sd * W.n)) ^ 2 ≤ W.N ^ 2 := pow_le_pow_left₀ hd.le hge 2
  nlinarith

/-- **converse of the equality case**: a score of exactly 1 forces equality in Cauchy–Schwarz, `N² = A·B` -/
theorem Win.cs_eq_of_score_eq_one (hn : 0 < W.n)
    (σ sd : α) (hσ : 0 < σ) (hsd : 0 < sd) (eσ : σ * σ = W.B / W.n) (esd : sd * sd = W.A / W.n)
    (h1 : (W.N / σ) / (sd * W.n) = 1) :
    W.N ^ 2 = W.A * W.B := by
  have hB : W.B = σ * σ * W.n := by rw [eσ]; field_simp
  have hA : W.A = sd * sd * W.n := by rw [esd]; field_simp
  have hd : σ * (sd * W.n) ≠ 0 := by positivity
  rw [div_div, div_eq_one_iff_eq hd] at h1
  rw [hA, hB, h1]; ring

/-- **antisymmetry under template negation**: `h ↦ −h` flips the sign of the numerator and keeps both variances,
so the normalised score changes sign exactly -/
theorem Win.template_neg_antisymm (hn : W.n ≠ 0) (σ sd : α) :
    (W.affT (-1) 0).B = W.B ∧ (W.affT (-1) 0).A = W.A ∧
    ((W.affT (-1) 0).N / σ) / (sd * W.n) = -((W.N / σ) / (sd * W.n)) := by
  have h := W.template_affine (-1) 0 hn
  refine ⟨by rw [h.2.1]; ring, h.2.2, ?_⟩
  rw [h.1]; ring

/-- **negative template scaling**: `h ↦ c·h + d` with `c < 0` turns the score into its negative
(template sd becomes `−c·σ`) -/
theorem Win.template_neg_scale (c d : α) (hc : c < 0) (hn : W.n ≠ 0) (σ sd : α) (hσ : σ ≠ 0) :
    ((W.affT c d).N / (-c * σ)) / (sd * W.n) = -((W.N / σ) / (sd * W.n)) := by
  have h := W.template_affine c d hn
  rw [h.1]
  have : c ≠ 0 := ne_of_lt hc
  field_simp

/-- **target offset invariance** of the mean-subtracted scores: `a ↦ a + d` changes neither numerator nor variances -/
theorem Win.target_offset_invariant (d : α) (hn : W.n ≠ 0) :
    (W.affA 1 d).N = W.N ∧ (W.affA 1 d).A = W.A ∧ (W.affA 1 d).B = W.B := by
  have h := W.target_affine 1 d hn
  refine ⟨by rw [h.1]; ring, by rw [h.2.1]; ring, h.2.2⟩

/-- **a constant window scores exactly 0 through the guard**: `A = 0` puts it in the low-variance branch, whose value
`(N/σ)/n` is `0` — finite whatever `σ` is (even `σ = 0`, division by zero being `0` in the model field) -/
theorem Win.constant_window_score_zero (c : α) (hc : ∀ k, inShape W.ms k = true → W.a k = c) (hn : W.n ≠ 0)
    (σ : α) : (W.N / σ) / W.n = 0 ∧ W.A / W.n = 0 := by
  have h := W.constant_window c hc hn
  rw [h.1, h.2]; simp

/-- the window that is the affine image `c·h + d` of the template: sums in closed form -/
theorem Win.affine_image_sums (c d : α) (hn : W.n ≠ 0) :
    (({ W with a := W.h } : Win α).affA c d).N = c * W.B ∧
    (({ W with a := W.h } : Win α).affA c d).A = c * c * W.B ∧
    (({ W with a := W.h } : Win α).affA c d).B = W.B := by
  have hn' : ({ W with a := W.h } : Win α).n ≠ 0 := hn
  have h := ({ W with a := W.h } : Win α).target_affine c d hn'
  have hf : ({ W with a := W.h } : Win α).fbar = W.mu := rfl
  have hN : ({ W with a := W.h } : Win α).N = W.B := by
    rw [({ W with a := W.h } : Win α).N_centered hn', hf]; rfl
  have hA : ({ W with a := W.h } : Win α).A = W.B := by
    unfold Win.A; rw [hf]; rfl
  refine ⟨by rw [h.1, hN], by rw [h.2.1, hA], h.2.2⟩

/-- **equality in Cauchy–Schwarz** for every affine image of the template (any `c`, `d`) -/
theorem Win.affine_image_cs_eq (c d : α) (hn : W.n ≠ 0) :
    (({ W with a := W.h } : Win α).affA c d).N ^ 2 =
      (({ W with a := W.h } : Win α).affA c d).A * (({ W with a := W.h } : Win α).affA c d).B := by
  obtain ⟨h1, h2, h3⟩ := W.affine_image_sums c d hn
  rw [h1, h2, h3]; ring

/-- **score = 1 for a positive affine image of the template** (the 'if' half of the equality case) -/
theorem Win.affine_image_score_one (c d : α) (hc : 0 < c) (hn : 0 < W.n)
    (σ : α) (hσ : 0 < σ) (eσ : σ * σ = W.B / W.n) :
    ((({ W with a := W.h } : Win α).affA c d).N / σ) / ((c * σ) * W.n) = 1 ∧
    (c * σ) * (c * σ) = (({ W with a := W.h } : Win α).affA c d).A / W.n := by
  obtain ⟨h1, h2, _⟩ := W.affine_image_sums c d (ne_of_gt hn)
  have hB : W.B = σ * σ * W.n := by rw [eσ]; field_simp
  rw [h1, h2, hB]
  constructor <;> field_simp

/-- **score = −1 for a negative affine image of the template** (window sd is `−c·σ`) -/
theorem Win.affine_image_score_neg_one (c d : α) (hc : c < 0) (hn : 0 < W.n)
    (σ : α) (hσ : 0 < σ) (eσ : σ * σ = W.B / W.n) :
    ((({ W with a := W.h } : Win α).affA c d).N / σ) / ((-c * σ) * W.n) = -1 ∧
    (-c * σ) * (-c * σ) = (({ W with a := W.h } : Win α).affA c d).A / W.n := by
  obtain ⟨h1, h2, _⟩ := W.affine_image_sums c d (ne_of_gt hn)
  have hB : W.B = σ * σ * W.n := by rw [eσ]; field_simp
  have hc0 : c ≠ 0 := ne_of_lt hc
  rw [h1, h2, hB]
  constructor <;> field_simp

end deepen6

section deepen6_formulas
variable {α : Type} [Field α] [LinearOrder α] [IsStrictOrderedRing α]

/-- **FLC, absolute-value form of the bound**: `-1 ≤ score ≤ 1` for the value the code's formula yields, guard
branch included -/
theorem flc_formula_abs_le_one (sqrt : α → α) (hs : SqrtOk sqrt) (eps : α) (he0 : 0 < eps) (he1 : eps ≤ 1)
    (ms : List Nat) (t : List Int) (f f2 G Wm : List Int → α) (hf2 : ∀ x, f2 x = f x * f x)
    (hw : ∀ k, inShape ms k = true → 0 ≤ Wm (natsToInts k))
    (hn : 0 < sumShape ms (fun k => Wm (natsToInts k)))
    (hvar : 0 < (Win.mk ms (fun k => Wm (natsToInts k)) (fun k => f (specIdx ms t k)) (fun k => G (natsToInts k))).B) :
    |scoreFLC (ordOps sqrt eps) (fun a b => corrSpec ms a b t) ms f f2 G Wm| ≤ 1 :=
  (sq_le_one_iff_abs_le_one _).mp (flc_formula_sq_le_one sqrt hs eps he0 he1 ms t f f2 G Wm hf2 hw hn hvar)

/-- **FLCSphericalMask, absolute-value form of the bound** -/
theorem flcSph_formula_abs_le_one (sqrt : α → α) (hs : SqrtOk sqrt) (eps : α) (he0 : 0 < eps)
    (ms : List Nat) (t : List Int) (rot : (List Int → α) → (List Int → α)) (f f2 g Wm : List Int → α)
    (hf2 : ∀ x, f2 x = f x * f x)
    (hw : ∀ k, inShape ms k = true → 0 ≤ Wm (natsToInts k))
    (hn : 0 < sumShape ms (fun k => Wm (natsToInts k)))
    (hvar : 0 < (Win.mk ms (fun k => Wm (natsToInts k)) (fun k => f (specIdx ms t k))
        (fun k => rot (normT (ordOps sqrt eps) (normStats (ordOps sqrt eps) ms g Wm (maskSum (ordOps sqrt eps) ms Wm)) g Wm) (natsToInts k))).B) :
    |scoreFLCSph (ordOps sqrt eps) (fun a b => corrSpec ms a b t) ms rot f f2 g Wm| ≤ 1 :=
  (sq_le_one_iff_abs_le_one _).mp (flcSph_formula_sq_le_one sqrt hs eps he0 ms t rot f f2 g Wm hf2 hw hn hvar)

/-- **CORR (full-box mask), absolute-value form of the bound** -/
theorem corr_formula_abs_le_one_fullmask (sqrt : α → α) (hs : SqrtOk sqrt) (eps : α) (he0 : 0 < eps)
    (ms : List Nat) (t : List Int) (rot : (List Int → α) → (List Int → α)) (hr : RotSum ms rot)
    (f f2 g Wm : List Int → α) (hf2 : ∀ x, f2 x = f x * f x)
    (hfull : ∀ k, inShape ms k = true → Wm (natsToInts k) = 1) (hpos : 0 < prodL ms) :
    |scoreCORR (ordOps sqrt eps) (fun a b => corrSpec ms a b t) ms rot f f2 g Wm| ≤ 1 :=
  (sq_le_one_iff_abs_le_one _).mp (corr_formula_sq_le_one_fullmask sqrt hs eps he0 ms t rot hr f f2 g Wm hf2 hfull hpos)

/-- **planted-copy argmax for FLC, in the code's formula**: with the copy planted at translation `t` (score exactly 1),
the formula's value at every other translation `t'` of the same map is at most the planted one -/
theorem flc_formula_planted_is_argmax (sqrt : α → α) (hs : SqrtOk sqrt) (eps : α) (he0 : 0 < eps) (he1 : eps ≤ 1)
    (ms : List Nat) (t t' : List Int) (f G Wm : List Int → α)
    (hw : ∀ k, inShape ms k = true → 0 ≤ Wm (natsToInts k))
    (hn : 0 < sumShape ms (fun k => Wm (natsToInts k)))
    (hvar : 0 < (Win.mk ms (fun k => Wm (natsToInts k)) (fun k => f (specIdx ms t k)) (fun k => G (natsToInts k))).B)
    (hvar' : 0 < (Win.mk ms (fun k => Wm (natsToInts k)) (fun k => f (specIdx ms t' k)) (fun k => G (natsToInts k))).B)
    (hplant : ∀ k, inShape ms k = true → Wm (natsToInts k) * f (specIdx ms t k) = Wm (natsToInts k) * G (natsToInts k))
    (hg : ¬ sqrt ((Win.mk ms (fun k => Wm (natsToInts k)) (fun k => f (specIdx ms t k)) (fun k => G (natsToInts k))).B
                / (Win.mk ms (fun k => Wm (natsToInts k)) (fun k => f (specIdx ms t k)) (fun k => G (natsToInts k))).n) < eps) :
    scoreFLC (ordOps sqrt eps) (fun a b => corrSpec ms a b t') ms f (fun x => f x * f x) G Wm
      ≤ scoreFLC (ordOps sqrt eps) (fun a b => corrSpec ms a b t) ms f (fun x => f x * f x) G Wm := by
  rw [flc_formula_planted_eq_one sqrt hs eps ms t f G Wm hw hn hvar hplant hg]
  exact (abs_le.mp (flc_formula_abs_le_one sqrt hs eps he0 he1 ms t' f _ G Wm (fun _ => rfl) hw hn hvar')).2

end deepen6_formulas

section deepen6_more
variable {α : Type} [Field α] [LinearOrder α] [IsStrictOrderedRing α]
variable (W : Win α)

/-- **squared score without square roots**: `score² · (A·B) = N²`, i.e. `score² = N²/(A·B)` whatever roots `σ`, `sd`
of the two variances the code took -/
theorem Win.score_sq_closed_form (hn : 0 < W.n)
    (σ sd : α) (hσ : 0 < σ) (hsd : 0 < sd) (eσ : σ * σ = W.B / W.n) (esd : sd * sd = W.A / W.n) :
    ((W.N / σ) / (sd * W.n)) ^ 2 * (W.A * W.B) = W.N ^ 2 := by
  have hB : W.B = σ * σ * W.n := by rw [eσ]; field_simp
  have hA : W.A = sd * sd * W.n := by rw [esd]; field_simp
  rw [hA, hB]
  field_simp

/-- **antisymmetry under target negation**: `a ↦ −a` flips the numerator, keeps both variances -/
theorem Win.target_neg_antisymm (hn : W.n ≠ 0) (σ sd : α) :
    (W.affA (-1) 0).A = W.A ∧ (W.affA (-1) 0).B = W.B ∧
    ((W.affA (-1) 0).N / σ) / (sd * W.n) = -((W.N / σ) / (sd * W.n)) := by
  have h := W.target_affine (-1) 0 hn
  refine ⟨by rw [h.2.1]; ring, h.2.2, ?_⟩
  rw [h.1]; ring

/-- negating template and target together leaves the score unchanged (contrast inversion of both volumes) -/
theorem Win.both_neg_invariant (hn : W.n ≠ 0) (σ sd : α) :
    (((W.affT (-1) 0).affA (-1) 0).N / σ) / (sd * W.n) = (W.N / σ) / (sd * W.n) := by
  have h1 := (W.affT (-1) 0).target_affine (-1) 0 hn
  have h2 := W.template_affine (-1) 0 hn
  rw [h1.1, h2.1]; ring

end deepen6_more

/-- the reported (value, rotation id) is either the initial `(threshold, -1)` or one of the submissions: the
analyzer never invents a rotation -/
theorem strictFold_mem (thr : Int) (subs : List (Int × Int)) :
    strictFold thr subs = (thr, -1) ∨ strictFold thr subs ∈ subs := by
  unfold strictFold
  have gen : ∀ (l : List (Int × Int)) (c : Int × Int), l.foldl strictStep c = c ∨ l.foldl strictStep c ∈ l := by
    intro l
    induction l with
    | nil => intro c; left; rfl
    | cons y ys ih =>
      intro c
      rw [List.foldl_cons]
      rcases ih (strictStep c y) with h | h
      · rw [h]; unfold strictStep; split
        · right; exact List.mem_cons_self
        · left; rfl
      · right; exact List.mem_cons_of_mem _ h
  exact gen subs (thr, -1)

/-- the stored value exceeds the threshold exactly when some rotation was reported (id of a submission) -/
theorem strictFold_gt_thr_mem (thr : Int) (subs : List (Int × Int)) (h : thr < (strictFold thr subs).1) :
    strictFold thr subs ∈ subs := by
  rcases strictFold_mem thr subs with e | e
  · rw [e] at h; simp at h
  · exact e

example : strictFold 0 [(3, 0), (5, 1)] ∈ [((3 : Int), (0 : Int)), (5, 1)] := by decide


/-- non-vacuity of `Win.score_lt_one_of_strict` / `Win.affine_image_score_one`: a 4-voxel window with `σ = sd = 1`
that is not an affine image of the template (`N = 0`, `A = B = 4`) -/
example : ∃ W : Win ℚ, 0 < W.n ∧ (1 : ℚ) * 1 = W.B / W.n ∧ (1 : ℚ) * 1 = W.A / W.n ∧ W.N ^ 2 < W.A * W.B :=
  ⟨⟨[4], fun _ => 1, fun k => if k.headD 0 % 2 = 0 then 0 else 2, fun k => if k.headD 0 < 2 then 0 else 2⟩, by
    norm_num [Win.N, Win.A, Win.B, Win.mu, Win.fbar, Win.n, sumShape, sumRange]⟩

end Pm.C03
