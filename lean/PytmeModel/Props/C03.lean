import PytmeModel.Proofs.C03
import PytmeModel.Props.C01
import PytmeModel.Proofs.C01Field
import Mathlib.Tactic.Ring
import Mathlib.Tactic.Linarith
import Mathlib.Tactic.FieldSimp
import Mathlib.Tactic.Positivity

/-! # C03 — normalised scores stay within [-1, 1]; a planted template is recovered exactly
(exact arithmetic over any linearly ordered field; rounding is Leg B's business) -/
namespace Pm.C03
open Pm.C01

section core
variable {α : Type} [Field α] [LinearOrder α] [IsStrictOrderedRing α]
variable (W : Win α)

/-- **Core inequality (Cauchy–Schwarz under the mask).**  For any non-negative mask — binary, soft or
interpolated — `(Σ w a (h−μ))² ≤ (Σ w (a−ā)²)(Σ w (h−μ)²)`. -/
theorem Win.num_sq_le (hw : ∀ k, inShape W.ms k = true → 0 ≤ W.w k) (hn : W.n ≠ 0) :
    W.N ^ 2 ≤ W.A * W.B := by
  rw [W.N_centered hn]
  exact box_cauchy_schwarz W.ms W.w (fun k => W.a k - W.fbar) (fun k => W.h k - W.mu) hw

theorem Win.A_nonneg (hw : ∀ k, inShape W.ms k = true → 0 ≤ W.w k) : 0 ≤ W.A :=
  sumShape_nonneg _ _ (fun k hk => mul_nonneg (hw k hk) (mul_self_nonneg _))
theorem Win.B_nonneg (hw : ∀ k, inShape W.ms k = true → 0 ≤ W.w k) : 0 ≤ W.B :=
  sumShape_nonneg _ _ (fun k hk => mul_nonneg (hw k hk) (mul_self_nonneg _))

/-- **|score| ≤ 1** for every masked normalised correlation of the FLC family
(`score = (N/σ)/(sd·n)` with `σ² = B/n`, `sd² = A/n` — what `sqrt(max(var,0))` delivers). -/
theorem Win.score_sq_le_one (hw : ∀ k, inShape W.ms k = true → 0 ≤ W.w k) (hn : 0 < W.n)
    (σ sd : α) (hσ : 0 < σ) (hsd : 0 < sd) (eσ : σ * σ = W.B / W.n) (esd : sd * sd = W.A / W.n) :
    ((W.N / σ) / (sd * W.n)) ^ 2 ≤ 1 := by
  have hcs := W.num_sq_le hw (ne_of_gt hn)
  have hB : W.B = σ * σ * W.n := by rw [eσ]; field_simp
  have hA : W.A = sd * sd * W.n := by rw [esd]; field_simp
  rw [hA, hB] at hcs
  rw [div_pow, div_pow, div_le_one (by positivity)]
  have hσ2 : 0 < σ ^ 2 := by positivity
  rw [div_le_iff₀ hσ2]
  nlinarith [hcs]

/-- **guard branch**: where the window's standard deviation is below `eps` the code divides by `n` only;
the value is then bounded by that standard deviation, hence by `eps` — finite and tiny, never a division by ~0 -/
theorem Win.guard_branch_small (hw : ∀ k, inShape W.ms k = true → 0 ≤ W.w k) (hn : 0 < W.n)
    (σ sd : α) (hσ : 0 < σ) (hsd : 0 ≤ sd) (eσ : σ * σ = W.B / W.n) (esd : sd * sd = W.A / W.n) :
    ((W.N / σ) / W.n) ^ 2 ≤ sd ^ 2 := by
  have hcs := W.num_sq_le hw (ne_of_gt hn)
  have hB : W.B = σ * σ * W.n := by rw [eσ]; field_simp
  have hA : W.A = sd * sd * W.n := by rw [esd]; field_simp
  rw [hA, hB] at hcs
  rw [div_pow, div_pow, div_le_iff₀ (by positivity), div_le_iff₀ (by positivity)]
  nlinarith [hcs]

/-- a constant window (also an empty one: all zeros) has `A = 0`, so it lands in the guard branch with value 0 -/
theorem Win.constant_window (c : α) (hc : ∀ k, inShape W.ms k = true → W.a k = c) (hn : W.n ≠ 0) :
    W.A = 0 ∧ W.N = 0 := by
  have hs : sumShape W.ms (fun k => W.w k * W.a k) = c * W.n := by
    rw [Win.n, ← sumShape_mul_left]
    apply sumShape_congr; intro k hk; rw [hc k hk]; ring
  have hf : W.fbar = c := by unfold Win.fbar; rw [hs]; field_simp
  constructor
  · unfold Win.A
    rw [← sumShape_zero (α := α) W.ms]
    apply sumShape_congr; intro k hk; rw [hc k hk, hf]; ring
  · rw [W.N_centered hn]
    rw [← sumShape_zero (α := α) W.ms]
    apply sumShape_congr; intro k hk; rw [hc k hk, hf]; ring

/-- **A planted copy scores exactly 1**: if the window equals the template wherever the mask is non-zero,
then `N = A = B`, so `(N/σ)/(sd·n) = 1` with `σ = sd`. -/
theorem Win.planted_eq_one (hp : ∀ k, inShape W.ms k = true → W.w k * W.a k = W.w k * W.h k) (hn : 0 < W.n)
    (σ : α) (hσ : 0 < σ) (eσ : σ * σ = W.B / W.n) :
    W.N = W.B ∧ W.A = W.B ∧ (W.N / σ) / (σ * W.n) = 1 := by
  have hne := ne_of_gt hn
  have hf : W.fbar = W.mu := by
    unfold Win.fbar Win.mu
    congr 1
    apply sumShape_congr; intro k hk; exact hp k hk
  have hN : W.N = W.B := by
    rw [W.N_centered hne]
    unfold Win.B
    apply sumShape_congr; intro k hk
    have := hp k hk
    rw [hf]
    have e : W.w k * ((W.a k - W.mu) * (W.h k - W.mu)) = (W.w k * W.a k - W.w k * W.mu) * (W.h k - W.mu) := by ring
    rw [e, this]; ring
  have hA : W.A = W.B := by
    unfold Win.A Win.B
    apply sumShape_congr; intro k hk
    have := hp k hk
    rw [hf]
    have e : W.w k * ((W.a k - W.mu) * (W.a k - W.mu)) = (W.w k * W.a k - W.w k * W.mu) * (W.a k - W.mu) := by ring
    rw [e, this]
    have e2 : (W.w k * W.h k - W.w k * W.mu) * (W.a k - W.mu) = (W.h k - W.mu) * (W.w k * W.a k - W.w k * W.mu) := by ring
    rw [e2, this]; ring
  refine ⟨hN, hA, ?_⟩
  have hB : W.B = σ * σ * W.n := by rw [eσ]; field_simp
  rw [hN, hB]
  field_simp

/-- the planted position is a maximum of the whole map: every other value is at most the planted value 1 -/
theorem Win.planted_is_max (V : Win α) (hw : ∀ k, inShape V.ms k = true → 0 ≤ V.w k) (hn : 0 < V.n)
    (σ sd : α) (hσ : 0 < σ) (hsd : 0 < sd) (eσ : σ * σ = V.B / V.n) (esd : sd * sd = V.A / V.n) :
    (V.N / σ) / (sd * V.n) ≤ 1 := by
  have h := V.score_sq_le_one hw hn σ sd hσ hsd eσ esd
  nlinarith [sq_nonneg ((V.N / σ) / (sd * V.n) - 1), sq_nonneg ((V.N / σ) / (sd * V.n) + 1)]

/-! ### invariances (template: positive scale and offset; target: positive scale and offset) -/

/-- template `h ↦ c·h + d` -/
def Win.affT (c d : α) : Win α := { W with h := fun k => c * W.h k + d }
/-- target `a ↦ c·a + d` -/
def Win.affA (c d : α) : Win α := { W with a := fun k => c * W.a k + d }

theorem Win.affT_mu (c d : α) (hn : W.n ≠ 0) : (W.affT c d).mu = c * W.mu + d := by
  unfold Win.mu Win.affT Win.n
  simp only
  have e : (fun k => W.w k * (c * W.h k + d)) = fun k => c * (W.w k * W.h k) + d * W.w k := by funext k; ring
  rw [e, sumShape_add, sumShape_mul_left, sumShape_mul_left]
  have : sumShape W.ms W.w ≠ 0 := hn
  field_simp

theorem Win.affA_fbar (c d : α) (hn : W.n ≠ 0) : (W.affA c d).fbar = c * W.fbar + d := by
  unfold Win.fbar Win.affA Win.n
  simp only
  have e : (fun k => W.w k * (c * W.a k + d)) = fun k => c * (W.w k * W.a k) + d * W.w k := by funext k; ring
  rw [e, sumShape_add, sumShape_mul_left, sumShape_mul_left]
  have : sumShape W.ms W.w ≠ 0 := hn
  field_simp

/-- **Template scale/offset invariance**: `N` and `B` scale as `c` and `c²`, so `N/σ` is unchanged for `c > 0` -/
theorem Win.template_affine (c d : α) (hn : W.n ≠ 0) :
    (W.affT c d).N = c * W.N ∧ (W.affT c d).B = c * c * W.B ∧ (W.affT c d).A = W.A := by
  have hmu := W.affT_mu c d hn
  refine ⟨?_, ?_, rfl⟩
  · unfold Win.N
    rw [hmu, ← sumShape_mul_left]
    apply sumShape_congr; intro k _
    simp only [Win.affT]; ring
  · unfold Win.B
    rw [hmu, ← sumShape_mul_left]
    apply sumShape_congr; intro k _
    simp only [Win.affT]; ring

/-- **Target scale/offset invariance**: `N` and `A` scale as `c` and `c²` (the offset drops out), so
`N/(sd·n)` is unchanged for `c > 0` -/
theorem Win.target_affine (c d : α) (hn : W.n ≠ 0) :
    (W.affA c d).N = c * W.N ∧ (W.affA c d).A = c * c * W.A ∧ (W.affA c d).B = W.B := by
  have hf := W.affA_fbar c d hn
  refine ⟨?_, ?_, rfl⟩
  · rw [(W.affA c d).N_centered hn, W.N_centered hn, hf, ← sumShape_mul_left]
    apply sumShape_congr; intro k _
    have hm : (W.affA c d).mu = W.mu := rfl
    rw [hm]
    simp only [Win.affA]
    ring
  · unfold Win.A
    rw [hf, ← sumShape_mul_left]
    apply sumShape_congr; intro k _
    simp only [Win.affA]; ring

/-- putting the two together: the normalised value is the same for `(c·h+d, c'·a+d')`, `c, c' > 0` -/
theorem Win.score_invariant (c d c' d' : α) (hc : 0 < c) (hc' : 0 < c') (hn : W.n ≠ 0)
    (σ sd : α) (hσ : σ ≠ 0) (hsd : sd ≠ 0) :
    (((W.affT c d).affA c' d').N / (c * σ)) / ((c' * sd) * W.n) = (W.N / σ) / (sd * W.n) := by
  have h1 := (W.affT c d).target_affine c' d' hn
  have h2 := W.template_affine c d hn
  rw [h1.1, h2.1]
  have : c ≠ 0 := ne_of_gt hc
  have : c' ≠ 0 := ne_of_gt hc'
  field_simp

end core

/-! ### MCC is clipped; strict improvement keeps the first best rotation -/

section clip
variable {α : Type} [Field α] [LinearOrder α] [IsStrictOrderedRing α]

/-- whatever the numerator, denominator, overlap and thresholds: the reported MCC value lies in [-1, 1] -/
theorem mcc_clipped (sqrt : α → α) (eps thousand ratio : α) (parts : α × α × α) (maxDen maxOv : α) :
    -1 ≤ mccFinish (ordOps sqrt eps) thousand ratio parts maxDen maxOv ∧
    mccFinish (ordOps sqrt eps) thousand ratio parts maxDen maxOv ≤ 1 := by
  obtain ⟨num, den, ov⟩ := parts
  simp only [mccFinish, ordOps, decide_eq_true_eq]
  split_ifs <;> constructor <;> first | linarith | (simp; done) | (push_neg at *; linarith) | norm_num
end clip

/-! ### the FLC formula of the code, end to end -/

section flc
variable {α : Type} [Field α] [LinearOrder α] [IsStrictOrderedRing α]

/-- the pieces of the FLC-family formulas in terms of the masked window sums (`Win`) -/
theorem flc_core (sqrt : α → α) (hs : SqrtOk sqrt) (eps : α)
    (ms : List Nat) (t : List Int) (f f2 G Wm : List Int → α) (hf2 : ∀ x, f2 x = f x * f x)
    (hw : ∀ k, inShape ms k = true → 0 ≤ Wm (natsToInts k))
    (hn : 0 < sumShape ms (fun k => Wm (natsToInts k)))
    (hvar : 0 < (Win.mk ms (fun k => Wm (natsToInts k)) (fun k => f (specIdx ms t k)) (fun k => G (natsToInts k))).B) :
    let W : Win α := ⟨ms, fun k => Wm (natsToInts k), fun k => f (specIdx ms t k), fun k => G (natsToInts k)⟩
    let σ := sqrt (W.B / W.n)
    let sd0 := sqrt (W.A / W.n)
    maskSum (ordOps sqrt eps) ms Wm = W.n ∧
    normStats (ordOps sqrt eps) ms G Wm W.n = (W.mu, σ) ∧
    corrSpec ms f (normT (ordOps sqrt eps) (W.mu, σ) G Wm) t = W.N / σ ∧
    (ordOps sqrt eps).sqrt ((ordOps sqrt eps).max0 ((ordOps sqrt eps).sub
      ((ordOps sqrt eps).div (corrSpec ms f2 Wm t) W.n)
      ((ordOps sqrt eps).sq ((ordOps sqrt eps).div (corrSpec ms f Wm t) W.n)))) = sd0 ∧
    0 < σ ∧ 0 ≤ sd0 ∧ σ * σ = W.B / W.n ∧ sd0 * sd0 = W.A / W.n ∧
    (∀ k, inShape W.ms k = true → 0 ≤ W.w k) ∧ 0 < W.n := by
  intro W σ sd0
  have hWn : W.n = sumShape ms (fun k => Wm (natsToInts k)) := rfl
  have hnn : W.n ≠ 0 := ne_of_gt hn
  have hw' : ∀ k, inShape W.ms k = true → 0 ≤ W.w k := hw
  -- the pieces of the formula in terms of the window sums
  have e_n : maskSum (ordOps sqrt eps) ms Wm = W.n := by unfold maskSum; rw [boxSum_ord]; rfl
  have e_gw : boxSum (ordOps sqrt eps) ms (fun k => (ordOps sqrt eps).mul (G (natsToInts k)) (Wm (natsToInts k)))
      = sumShape ms (fun k => W.w k * W.h k) := by
    rw [boxSum_ord]; apply sumShape_congr; intro k _; simp [ordOps, W]; ring
  have e_g2w : boxSum (ordOps sqrt eps) ms
      (fun k => (ordOps sqrt eps).mul ((ordOps sqrt eps).sq (G (natsToInts k))) (Wm (natsToInts k)))
      = sumShape ms (fun k => W.w k * (W.h k * W.h k)) := by
    rw [boxSum_ord]; apply sumShape_congr; intro k _; simp [ordOps, Ops.sq, W]; ring
  have e_s1 : corrSpec ms f Wm t = sumShape ms (fun k => W.w k * W.a k) := by
    unfold corrSpec; apply sumShape_congr; intro k _; simp [W]; ring
  have e_s2 : corrSpec ms f2 Wm t = sumShape ms (fun k => W.w k * (W.a k * W.a k)) := by
    unfold corrSpec; apply sumShape_congr; intro k _; simp [W, hf2]; ring
  have hBn : 0 ≤ W.B / W.n := div_nonneg (W.B_nonneg hw') (le_of_lt hn)
  have hAn : 0 ≤ W.A / W.n := div_nonneg (W.A_nonneg hw') (le_of_lt hn)
  -- template statistics
  have e_st : normStats (ordOps sqrt eps) ms G Wm W.n = (W.mu, sqrt (W.B / W.n)) := by
    unfold normStats
    simp only [e_gw, e_g2w]
    have emu : (ordOps sqrt eps).div (sumShape ms (fun k => W.w k * W.h k)) W.n = W.mu := rfl
    rw [emu]
    have evar : (ordOps sqrt eps).sub ((ordOps sqrt eps).div (sumShape ms (fun k => W.w k * (W.h k * W.h k))) W.n)
        ((ordOps sqrt eps).sq W.mu) = W.B / W.n := by
      have := W.var_formula_h hnn
      simp only [ordOps, Ops.sq]
      rw [← this]; unfold Win.mu; ring
    rw [evar, max0_of_nonneg sqrt eps _ hBn]
    rfl
  have hσdef : σ = sqrt (W.B / W.n) := rfl
  have hσσ : σ * σ = W.B / W.n := hs.sq _ hBn
  have hσpos : 0 < σ := by
    have h0 := hs.nonneg (W.B / W.n)
    rcases h0.lt_or_eq with h | h
    · exact h
    · exfalso
      have hz : σ = 0 := by rw [hσdef]; exact h.symm
      have : W.B / W.n = 0 := by rw [← hσσ, hz]; ring
      have hB0 : W.B = 0 := by
        rcases div_eq_zero_iff.mp this with h' | h'
        · exact h'
        · exact absurd h' hnn
      rw [hB0] at hvar; exact lt_irrefl _ hvar
  -- numerator
  have e_num : corrSpec ms f (normT (ordOps sqrt eps) (W.mu, σ) G Wm) t = W.N / σ := by
    unfold corrSpec Win.N
    rw [div_eq_mul_inv, mul_comm, ← sumShape_mul_left]
    apply sumShape_congr; intro k _
    simp only [normT, normApply, ordOps, W]
    field_simp
  -- window standard deviation
  have e_sd : (ordOps sqrt eps).sqrt ((ordOps sqrt eps).max0 ((ordOps sqrt eps).sub
      ((ordOps sqrt eps).div (sumShape ms (fun k => W.w k * (W.a k * W.a k))) W.n)
      ((ordOps sqrt eps).sq ((ordOps sqrt eps).div (sumShape ms (fun k => W.w k * W.a k)) W.n)))) = sd0 := by
    have := W.var_formula_a hnn
    have e : (ordOps sqrt eps).sub ((ordOps sqrt eps).div (sumShape ms (fun k => W.w k * (W.a k * W.a k))) W.n)
        ((ordOps sqrt eps).sq ((ordOps sqrt eps).div (sumShape ms (fun k => W.w k * W.a k)) W.n)) = W.A / W.n := by
      simp only [ordOps, Ops.sq]; rw [← this]; ring
    rw [e, max0_of_nonneg sqrt eps _ hAn]
    rfl
  have hsd_sq : sd0 * sd0 = W.A / W.n := hs.sq _ hAn
  have hsd_nn : 0 ≤ sd0 := hs.nonneg _
  refine ⟨e_n, e_st, e_num, ?_, hσpos, hsd_nn, hσσ, hsd_sq, hw', hn⟩
  rw [e_s1, e_s2]; exact e_sd

/-- **The FLC value the code's formula yields is in [-1, 1]** (squared form), for every target field `f`, every
translation `t`, every template `G` and every non-negative mask `Wm` (binary, soft, interpolated) with positive
mass and a template that is not constant under it — including the guard branch for (near-)constant windows.
Together with C01's `flc_impl_eq_spec` this bounds what the FFT pipeline computes in exact arithmetic. -/
theorem flc_formula_sq_le_one (sqrt : α → α) (hs : SqrtOk sqrt) (eps : α) (he0 : 0 < eps) (he1 : eps ≤ 1)
    (ms : List Nat) (t : List Int) (f f2 G Wm : List Int → α) (hf2 : ∀ x, f2 x = f x * f x)
    (hw : ∀ k, inShape ms k = true → 0 ≤ Wm (natsToInts k))
    (hn : 0 < sumShape ms (fun k => Wm (natsToInts k)))
    (hvar : 0 < (Win.mk ms (fun k => Wm (natsToInts k)) (fun k => f (specIdx ms t k)) (fun k => G (natsToInts k))).B) :
    (scoreFLC (ordOps sqrt eps) (fun a b => corrSpec ms a b t) ms f f2 G Wm) ^ 2 ≤ 1 := by
  obtain ⟨e_n, e_st, e_num, e_sd, hσpos, hsd_nn, hσσ, hsd_sq, hw', hn'⟩ := flc_core sqrt hs eps ms t f f2 G Wm hf2 hw hn hvar
  set W : Win α := ⟨ms, fun k => Wm (natsToInts k), fun k => f (specIdx ms t k), fun k => G (natsToInts k)⟩
  set σ := sqrt (W.B / W.n)
  set sd0 := sqrt (W.A / W.n)
  unfold scoreFLC
  simp only [e_n, e_st, e_num, e_sd]
  by_cases hg : sd0 < eps
  · have : (ordOps sqrt eps).lt sd0 (ordOps sqrt eps).eps = true := by simp [ordOps, hg]
    simp only [this, if_true]
    have hb := W.guard_branch_small hw' hn' σ sd0 hσpos hsd_nn hσσ hsd_sq
    have e : (ordOps sqrt eps).div (W.N / σ) ((ordOps sqrt eps).mul (ordOps sqrt eps).one W.n) = (W.N / σ) / W.n := by
      simp [ordOps]
    rw [e]
    have : sd0 ^ 2 ≤ 1 := by nlinarith
    linarith
  · have : (ordOps sqrt eps).lt sd0 (ordOps sqrt eps).eps = false := by simp [ordOps, hg]
    simp only [this, if_false, Bool.false_eq_true]
    have hsdpos : 0 < sd0 := lt_of_lt_of_le he0 (not_lt.mp hg)
    have e : (ordOps sqrt eps).div (W.N / σ) ((ordOps sqrt eps).mul sd0 W.n) = (W.N / σ) / (sd0 * W.n) := by
      simp [ordOps]
    rw [e]
    exact W.score_sq_le_one hw' hn' σ sd0 hσpos hsdpos hσσ hsd_sq

/-- **FLCSphericalMask** (mask not rotated, template standardised at setup and again after rotation): the value of the
code's formula is in [-1, 1] as well; `G` is whatever the rotated, once-standardised template is. -/
theorem flcSph_formula_sq_le_one (sqrt : α → α) (hs : SqrtOk sqrt) (eps : α) (he0 : 0 < eps)
    (ms : List Nat) (t : List Int) (rot : (List Int → α) → (List Int → α)) (f f2 g Wm : List Int → α)
    (hf2 : ∀ x, f2 x = f x * f x)
    (hw : ∀ k, inShape ms k = true → 0 ≤ Wm (natsToInts k))
    (hn : 0 < sumShape ms (fun k => Wm (natsToInts k)))
    (hvar : 0 < (Win.mk ms (fun k => Wm (natsToInts k)) (fun k => f (specIdx ms t k))
        (fun k => rot (normT (ordOps sqrt eps) (normStats (ordOps sqrt eps) ms g Wm (maskSum (ordOps sqrt eps) ms Wm)) g Wm) (natsToInts k))).B) :
    (scoreFLCSph (ordOps sqrt eps) (fun a b => corrSpec ms a b t) ms rot f f2 g Wm) ^ 2 ≤ 1 := by
  set G := rot (normT (ordOps sqrt eps) (normStats (ordOps sqrt eps) ms g Wm (maskSum (ordOps sqrt eps) ms Wm)) g Wm) with hG
  obtain ⟨e_n, e_st, e_num, e_sd, hσpos, hsd_nn, hσσ, hsd_sq, hw', hn'⟩ := flc_core sqrt hs eps ms t f f2 G Wm hf2 hw hn hvar
  set W : Win α := ⟨ms, fun k => Wm (natsToInts k), fun k => f (specIdx ms t k), fun k => G (natsToInts k)⟩
  set σ := sqrt (W.B / W.n)
  set sd0 := sqrt (W.A / W.n)
  have hG2 : rot (normT (ordOps sqrt eps) (normStats (ordOps sqrt eps) ms g Wm W.n) g Wm) = G := by rw [hG, e_n]
  unfold scoreFLCSph
  simp only [e_n, hG2, e_st, e_num, e_sd]
  by_cases hg : eps < sd0
  · have : (ordOps sqrt eps).lt (ordOps sqrt eps).eps sd0 = true := by simp [ordOps, hg]
    simp only [this, if_true]
    have hsdpos : 0 < sd0 := lt_trans he0 hg
    have e : (ordOps sqrt eps).mul (W.N / σ) ((ordOps sqrt eps).div (ordOps sqrt eps).one ((ordOps sqrt eps).mul sd0 W.n))
        = (W.N / σ) / (sd0 * W.n) := by
      simp [ordOps]; ring
    rw [e]
    exact W.score_sq_le_one hw' hn' σ sd0 hσpos hsdpos hσσ hsd_sq
  · have : (ordOps sqrt eps).lt (ordOps sqrt eps).eps sd0 = false := by simp [ordOps, hg]
    simp only [this, if_false, Bool.false_eq_true]
    simp [ordOps]

end flc

/-- **strict improvement keeps the first best rotation**: a later submission that only ties does not replace
the stored rotation (one voxel, values as integers ranks; from the backend's strict `>` update) -/
theorem strictBest_keeps_first (cur : Int × Int) (v : Int) (id : Int) (h : v ≤ cur.1) :
    (if v > cur.1 then (v, id) else cur) = cur := by
  simp [not_lt.mpr h]

/-! ### non-vacuity -/
example : (⟨[3], fun _ => (1 : ℚ), fun k => (k.headD 0 : ℚ), fun k => (k.headD 0 : ℚ)⟩ : Win ℚ).n = 3 := by
  simp [Win.n, sumShape, sumRange]; norm_num

end Pm.C03
