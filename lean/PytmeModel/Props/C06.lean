import PytmeModel.Model.C06
import PytmeModel.Proofs.C06
import PytmeModel.Proofs.C06Examples
import PytmeModel.Proofs.C06Linear
import PytmeModel.Proofs.C06LinearMoment
import Mathlib.Algebra.BigOperators.Fin
import Mathlib.Algebra.BigOperators.Ring.Finset
import Mathlib.Tactic.Ring
import Mathlib.Tactic.Linarith
import Mathlib.Tactic.FieldSimp
import Mathlib.Algebra.Field.Rat
import Mathlib.Algebra.Order.Ring.Rat
import Mathlib.Tactic.NormNum
import Mathlib.Tactic.FinCases
import Mathlib.Algebra.Order.BigOperators.Group.Finset
import Mathlib.Data.Int.Interval
import Mathlib.Data.Fintype.Pi

/-! # C06 — rigid transforms move data forward about the centre, exactly on the grid group -/
set_option linter.unusedSimpArgs false
namespace Pm.C06
open Finset

/-! ## the homogeneous matrix is the pull-back `o ↦ R⁻¹(o − c) + c − t` -/

/-- the product `T(−t)·C(c)·R⁻¹·C(−c)` built by `_rigid_transform_matrix`, in block form -/
theorem rigidMatrixRaw_eq_aff {α : Type} [CommRing α] {d : Nat} (rinv : Mat d α) (t c : Vec d α) :
    rigidMatrixRaw rinv (some t) (some c) = aff rinv (fun i => c i - t i - matVec rinv c i) := by
  simp only [rigidMatrixRaw, ident_eq_aff, transMat_eq_aff, embedRot_eq_aff, matMul_aff,
    matMul_ident_left, matMul_ident_right]
  congr 1
  funext i
  simp only [matVec_ident, matVec_zero, matVec_neg]
  ring

/-- the corner entry is `1` and the bottom row `0`, so the final `matrix /= matrix[d, d]` changes nothing -/
theorem rigidMatrix_normalisation_noop {K : Type} [Field K] {d : Nat} (rinv : Mat d K) (t c : Vec d K) :
    rigidMatrix rinv (some t) (some c) = rigidMatrixRaw rinv (some t) (some c) := by
  funext i j
  simp only [rigidMatrix, rigidMatrixRaw_eq_aff, aff_corner, div_one]

/-- **matrix = pull-back.**  Feeding the matrix of `_rigid_transform_matrix` to a resampler with scipy's
coordinate contract reads output voxel `o` from `R⁻¹(o − c) + c − t` — any dimension, any centre
(geometric or centre of mass), any matrix. -/
theorem matrix_eq_pullback {K : Type} [Field K] {d : Nat} (rinv : Mat d K) (t c o : Vec d K) :
    affineSrc (rigidMatrix rinv (some t) (some c)) o = pullback rinv t c o := by
  funext i
  rw [rigidMatrix_normalisation_noop, rigidMatrixRaw_eq_aff, affineSrc_aff]
  simp only [pullback, matVec_sub]
  ring


/-- without a translation / without a centre the same holds with `t = 0` resp. `c = 0` -/
theorem matrix_eq_pullback_optional {K : Type} [Field K] {d : Nat} (rinv : Mat d K) (t c : Option (Vec d K))
    (o : Vec d K) :
    affineSrc (rigidMatrix rinv t c) o = pullback rinv (t.getD (fun _ => 0)) (c.getD (fun _ => 0)) o := by
  have key : rigidMatrixRaw rinv t c =
      rigidMatrixRaw rinv (some (t.getD (fun _ => 0))) (some (c.getD (fun _ => 0))) := by
    cases t <;> cases c <;>
      simp only [rigidMatrixRaw, Option.getD, ident_eq_aff, transMat_eq_aff, embedRot_eq_aff, matMul_aff,
        matMul_ident_left, matMul_ident_right] <;>
      (congr 1; funext i; simp [matVec_ident, matVec_zero, matVec_neg])
  have h2 : rigidMatrix rinv t c = rigidMatrix rinv (some (t.getD (fun _ => 0))) (some (c.getD (fun _ => 0))) := by
    funext i j; simp only [rigidMatrix, key]
  rw [h2, matrix_eq_pullback]

/-- the pull-back is the inverse of the forward map `x ↦ R(x + t − c) + c`: the value found at output
voxel `forward x` is the one read at `x`.  (`t = 0`: `x ↦ R(x − c) + c`; `R = 1`: `x ↦ x + t`.) -/
theorem pullback_forward {α : Type} [CommRing α] {d : Nat} (R rinv : Mat d α) (t c x : Vec d α)
    (hinv : matMul rinv R = ident d) : pullback rinv t c (forward R t c x) = x := by
  funext i
  simp only [pullback, forward]
  have : (fun j => matVec R (fun j => x j + t j - c j) j + c j - c j) = matVec R (fun j => x j + t j - c j) := by
    funext j; ring
  rw [this, matVec_matVec, hinv, matVec_ident]
  ring

theorem forward_pullback {α : Type} [CommRing α] {d : Nat} (R rinv : Mat d α) (t c o : Vec d α)
    (hinv : matMul R rinv = ident d) : forward R t c (pullback rinv t c o) = o := by
  funext i
  simp only [pullback, forward]
  have : (fun j => matVec rinv (fun j => o j - c j) j + c j - t j + t j - c j) = matVec rinv (fun j => o j - c j) := by
    funext j; ring
  rw [this, matVec_matVec, hinv, matVec_ident]
  ring

/-- with `t = 0` the forward map is literally `R(x − c) + c`, with `R = 1` it is `x + t` -/
theorem forward_rotation_only {α : Type} [CommRing α] {d : Nat} (R : Mat d α) (c x : Vec d α) (i : Fin d) :
    forward R (fun _ => 0) c x i = matVec R (fun j => x j - c j) i + c i := by
  simp [forward]

theorem forward_translation_only {α : Type} [CommRing α] {d : Nat} (t c x : Vec d α) (i : Fin d) :
    forward (ident d) t c x i = x i + t i := by
  simp only [forward, matVec_ident]; ring

/-- the doubled integer pull-back used for the grid group is twice the real pull-back about the
geometric centre `c = (n − 1)/2` -/
theorem pull2_eq_twice_pullback {K : Type} [Field K] [CharZero K] {d : Nat} (n : Fin d → Nat) (rinv : Mat d Int)
    (t o : Vec d Int) (i : Fin d) :
    ((pull2 n rinv t o i : Int) : K) =
      2 * pullback (fun a b => ((rinv a b : Int) : K)) (fun j => (t j : K)) (fun j => ((n j : K) - 1) / 2)
        (fun j => (o j : K)) i := by
  simp only [pull2, pullback, matVec_eq, Int.cast_add, Int.cast_sub, Int.cast_sum, Int.cast_mul, Int.cast_natCast,
    Int.cast_one, Int.cast_ofNat]
  rw [mul_sub, mul_add, Finset.mul_sum]
  congr 1
  · congr 1
    · exact Finset.sum_congr rfl (fun j _ => by ring)
    · ring


/-! ## the grid group: exact permutation of voxels -/

/-- if `R⁻¹·R = 1` and the doubled image of `x` under `x ↦ R(x + t − c) + c` is the grid point `y`, then
output voxel `y` is read from exactly `x` (integer matrices, any shape, any integer translation) -/
theorem pull2_push2 {d : Nat} (n : Fin d → Nat) (R rinv : Mat d Int) (t x y : Vec d Int)
    (hinv : matMul rinv R = ident d) (hy : ∀ i, push2 n R t x i = 2 * y i) :
    pull2 n rinv t y = fun i => 2 * x i := by
  funext i
  have h1 : (fun j => 2 * y j - ((n j : Int) - 1)) = matVec R (fun j => 2 * x j + 2 * t j - ((n j : Int) - 1)) := by
    funext j
    have := hy j
    simp only [push2] at this
    omega
  simp only [pull2]
  rw [h1, matVec_matVec, hinv, matVec_ident]
  ring

/-- **value at `x` lands at the image of `x`.**  Whenever the image is a grid point `y`, the output there
is the input at `x` (zero if `x` is outside the array: zero fill). -/
theorem grid_value_lands {α : Type} [Zero α] {d : Nat} (n : Fin d → Nat) (R rinv : Mat d Int) (t x y : Vec d Int)
    (f : Vec d Int → α) (hinv : matMul rinv R = ident d) (hy : ∀ i, push2 n R t x i = 2 * y i) :
    gridTransform n rinv t f y = some (if inBox n x then f x else 0) := by
  simp only [gridTransform, pull2_push2 n R rinv t x y hinv hy, resample_double]

/-- **grid rotations are exact permutations (into).**  For a signed permutation matrix `R` and a shape
invariant under it, every voxel `x` of the array is moved to a voxel `y` of the array,
`y = R(x − c) + c`, and the output holds exactly `f x` there — no interpolation, any dimension. -/
theorem grid_perm {α : Type} [Zero α] {d : Nat} (n : Fin d → Nat) (R rinv : Mat d Int)
    (q : Fin d → Fin d) (s : Fin d → Int) (hR : IsSignedPerm R q s) (hn : ∀ i, n (q i) = n i)
    (hinv : matMul rinv R = ident d) (f : Vec d Int → α) (x : Vec d Int) (hx : inBox n x = true) :
    ∃ y : Vec d Int, inBox n y = true ∧ (∀ i, push2 n R (fun _ => 0) x i = 2 * y i) ∧
      gridTransform n rinv (fun _ => 0) f y = some (f x) := by
  obtain ⟨y, hyb, hy⟩ := push2_signedPerm_box hR n hn x hx
  refine ⟨y, hyb, hy, ?_⟩
  rw [grid_value_lands n R rinv _ x y f hinv hy, hx]
  rfl

/-- **… and onto.**  Every output voxel `o` is read from a voxel `x` of the array whose image is `o`:
together with `grid_perm` the transform is a bijection of the index box carrying the values along. -/
theorem grid_perm_onto {α : Type} [Zero α] {d : Nat} (n : Fin d → Nat) (R rinv : Mat d Int)
    (q : Fin d → Fin d) (s : Fin d → Int) (hRi : IsSignedPerm rinv q s) (hn : ∀ i, n (q i) = n i)
    (hinv : matMul R rinv = ident d) (f : Vec d Int → α) (o : Vec d Int) (ho : inBox n o = true) :
    ∃ x : Vec d Int, inBox n x = true ∧ (∀ i, push2 n R (fun _ => 0) x i = 2 * o i) ∧
      gridTransform n rinv (fun _ => 0) f o = some (f x) := by
  obtain ⟨x, hxb, hx⟩ := push2_signedPerm_box hRi n hn o ho
  have hx' : pull2 n rinv (fun _ => 0) o = fun i => 2 * x i := by
    rw [pull2_eq_push2]; funext i; exact hx i
  refine ⟨x, hxb, ?_, ?_⟩
  · intro i
    have := congrFun (pull2_push2 n rinv R (fun _ => 0) o x hinv (fun i => hx i)) i
    rw [pull2_eq_push2] at this
    exact this
  · simp only [gridTransform, hx', resample_double, hxb]
    rfl

/-- for a grid rotation with a shape-invariant permutation and *any* integer translation no output voxel
is ever interpolated: every source position is a grid point (possibly outside the array → `0`) -/
theorem grid_never_interpolates {α : Type} [Zero α] {d : Nat} (n : Fin d → Nat) (rinv : Mat d Int)
    (q : Fin d → Fin d) (s : Fin d → Int) (hRi : IsSignedPerm rinv q s) (hn : ∀ i, n (q i) = n i)
    (t : Vec d Int) (f : Vec d Int → α) (o : Vec d Int) :
    ∃ src : Vec d Int, gridTransform n rinv t f o = some (if inBox n src then f src else 0) := by
  refine ⟨fun i => (if s i = 1 then o (q i) else (n i : Int) - 1 - o (q i)) - t i, ?_⟩
  have : pull2 n rinv t o = fun i => 2 * ((if s i = 1 then o (q i) else (n i : Int) - 1 - o (q i)) - t i) := by
    funext i
    have hq := hn i
    simp only [pull2, matVec_signedPerm hRi]
    rcases hRi.1 i with h1 | h1 <;> simp only [h1, hq] <;> norm_num <;> ring
  simp only [gridTransform, this, resample_double]

/-- **identity leaves the array unchanged** -/
theorem identity_id {α : Type} [Zero α] {d : Nat} (n : Fin d → Nat) (f : Vec d Int → α) (o : Vec d Int)
    (ho : inBox n o = true) : gridTransform n (ident d) (fun _ => 0) f o = some (f o) := by
  have : pull2 n (ident d) (fun _ => 0) o = fun i => 2 * o i := by
    funext i; simp only [pull2, matVec_ident]; ring
  simp only [gridTransform, this, resample_double, ho]
  rfl

/-- **integer translation with the identity is an exact shift with zero fill**: `out[o] = in[o − t]`,
i.e. the value at `x` moves to `x + t`, and voxels whose source is outside the array are `0`. -/
theorem int_translation_shift {α : Type} [Zero α] {d : Nat} (n : Fin d → Nat) (t : Vec d Int)
    (f : Vec d Int → α) (o : Vec d Int) :
    gridTransform n (ident d) t f o =
      some (if inBox n (fun i => o i - t i) then f (fun i => o i - t i) else 0) := by
  have : pull2 n (ident d) t o = fun i => 2 * (o i - t i) := by
    funext i; simp only [pull2, matVec_ident]; ring
  simp only [gridTransform, this, resample_double]

/-- **the mask is moved by the same map**: data and mask are read at the same source position for every
output voxel; in particular data supported inside the mask stays inside the transformed mask. -/
theorem mask_same_map {α : Type} [Zero α] {d : Nat} (n : Fin d → Nat) (rinv : Mat d Int) (t : Vec d Int)
    (f g : Vec d Int → α) :
    (rigidGrid n rinv t f (some g)).1 = gridTransform n rinv t f ∧
    (rigidGrid n rinv t f (some g)).2 = some (gridTransform n rinv t g) ∧
    (∀ o, (gridTransform n rinv t f o).isSome = (gridTransform n rinv t g o).isSome) ∧
    ((∀ x, g x = 0 → f x = 0) → ∀ o, gridTransform n rinv t g o = some 0 → gridTransform n rinv t f o = some 0) := by
  refine ⟨rfl, rfl, ?_, ?_⟩
  · intro o
    simp only [gridTransform, resample]
    split <;> rfl
  · intro hsupp o
    simp only [gridTransform, resample]
    split
    · intro h
      simp only [Option.some.injEq] at h ⊢
      split
      · rename_i hb
        rw [if_pos hb] at h
        exact hsupp _ h
      · rfl
    · intro h; exact h


/-- **… also where the mask is not prefiltered** (orders 2, 3): the mask output is the B-spline-smoothed mask
read at exactly the source position the data is read from; for orders 0 and 1 nothing is smoothed. -/
theorem mask_unprefiltered_same_map {d : Nat} (order : Nat) (n : Fin d → Nat) (rinv : Mat d Int) (t : Vec d Int)
    (f : Vec d Int → Rat) (m : Arr Rat) (o : Vec d Int) :
    (maskGrid order n rinv t m o).isSome = (gridTransform n rinv t f o).isSome ∧
    maskGrid order n rinv t m o = resample n (fun idx => (smoothMask order m).getI (List.ofFn idx) 0) (pull2 n rinv t o) ∧
    gridTransform n rinv t f o = resample n f (pull2 n rinv t o) := by
  refine ⟨?_, rfl, rfl⟩
  simp only [maskGrid, maskGridOf, gridTransform, resample]
  split <;> rfl

/-- the smoothing weights of every order sum to one (a constant mask stays constant) -/
theorem bspline_weights_sum_one (order : Nat) : ((bsplineTaps order).map (·.2)).sum = 1 := by
  unfold bsplineTaps
  split_ifs <;> norm_num

/-- **caller buffers**: with a larger output buffer the transformed array occupies exactly the leading corner
`[0, n)`, every other voxel of the buffer keeps its previous content -/
theorem buffer_corner {α : Type} [Zero α] {d : Nat} (n : Fin d → Nat) (rinv : Mat d Int) (t : Vec d Int)
    (f buf : Vec d Int → α) (o : Vec d Int) :
    (inBox n o = true → rigidGridInto n rinv t f buf o = gridTransform n rinv t f o) ∧
    (inBox n o = false → rigidGridInto n rinv t f buf o = some (buf o)) := by
  constructor <;> intro h <;> simp [rigidGridInto, writeCorner, h]

/-! ## coordinate version (`matching_utils.rigid_transform`, `Structure.rigid_transform`) -/

/-- the default branch with the centre made explicit -/
theorem coordsCore_fst {K : Type} [Field K] {N M d : Nat} (hN : (N : K) ≠ 0) (x : Fin N → Vec d K)
    (R : Mat d K) (t c : Vec d K) (mask : Fin M → Vec d K) (k : Fin N) (i : Fin d) :
    (coordsCore x R t c mask).1 k i = matVec R (fun j => x k j - mean x j) i + c i + t i := by
  have h1 := mean_rot hN R x c i
  have h2 := matVec_sub R (fun j => x k j - c j) (fun j => mean x j - c j) i
  have h3 : (fun j => (x k j - c j) - (mean x j - c j)) = fun j => x k j - mean x j := by funext j; ring
  rw [h3] at h2
  show matVec R (fun j => x k j - c j) i + (t i + (c i - mean (fun k => matVec R (fun j => x k j - c j)) i)) = _
  rw [h1, h2]; ring

theorem coordsCore_snd {K : Type} [Field K] {N M d : Nat} (hN : (N : K) ≠ 0) (x : Fin N → Vec d K)
    (R : Mat d K) (t c : Vec d K) (mask : Fin M → Vec d K) (k : Fin M) (i : Fin d) :
    (coordsCore x R t c mask).2 k i = matVec R (fun j => mask k j - mean x j) i + c i + t i := by
  have h1 := mean_rot hN R x c i
  have h2 := matVec_sub R (fun j => mask k j - c j) (fun j => mean x j - c j) i
  have h3 : (fun j => (mask k j - c j) - (mean x j - c j)) = fun j => mask k j - mean x j := by funext j; ring
  rw [h3] at h2
  show matVec R (fun j => mask k j - c j) i + (t i + (c i - mean (fun k => matVec R (fun j => x k j - c j)) i)) = _
  rw [h1, h2]; ring

/-- **coordinate formula.**  Default branch: every point is rotated about the centroid `x̄` of the set and
the centroid is then placed at `centre + t` (`centre = x̄` unless one is passed): `R(x − x̄) + centre + t`. -/
theorem coords_formula {K : Type} [Field K] {N M d : Nat} (hN : (N : K) ≠ 0) (x : Fin N → Vec d K)
    (R : Mat d K) (t : Vec d K) (center : Option (Vec d K)) (mask : Fin M → Vec d K) (k : Fin N) (i : Fin d) :
    (coordsTransform x R t center mask).1 k i =
      matVec R (fun j => x k j - mean x j) i + (center.getD (mean x)) i + t i :=
  coordsCore_fst hN x R t _ mask k i

/-- with the default centre this is the property's convention `R(x − x̄) + x̄ + t` -/
theorem coords_formula_default {K : Type} [Field K] {N M d : Nat} (hN : (N : K) ≠ 0) (x : Fin N → Vec d K)
    (R : Mat d K) (t : Vec d K) (mask : Fin M → Vec d K) (k : Fin N) (i : Fin d) :
    (coordsTransform x R t none mask).1 k i = matVec R (fun j => x k j - mean x j) i + mean x i + t i :=
  coordsCore_fst hN x R t _ mask k i

/-- the mask points are moved by the same affine map as the coordinates -/
theorem coords_mask_same_map {K : Type} [Field K] {N M d : Nat} (hN : (N : K) ≠ 0) (x : Fin N → Vec d K)
    (R : Mat d K) (t : Vec d K) (center : Option (Vec d K)) (mask : Fin M → Vec d K) (k : Fin M) (i : Fin d) :
    (coordsTransform x R t center mask).2 k i =
      matVec R (fun j => mask k j - mean x j) i + (center.getD (mean x)) i + t i :=
  coordsCore_snd hN x R t _ mask k i

/-- **the centroid is moved by exactly the translation** (to `centre + t`), for every matrix `R` -/
theorem centroid_moves_by_t {K : Type} [Field K] {N M d : Nat} (hN : (N : K) ≠ 0) (x : Fin N → Vec d K)
    (R : Mat d K) (t : Vec d K) (center : Option (Vec d K)) (mask : Fin M → Vec d K) (i : Fin d) :
    mean (coordsTransform x R t center mask).1 i = (center.getD (mean x)) i + t i := by
  have h : (coordsTransform x R t center mask).1 =
      fun k j => matVec R (fun l => x k l - mean x l) j + ((center.getD (mean x)) j + t j) := by
    funext k j; rw [coords_formula hN]; ring
  rw [h, mean_add_const hN (fun k => matVec R (fun l => x k l - mean x l)), mean_rot hN]
  have : (fun j => mean x j - mean x j) = fun _ => (0 : K) := by funext j; ring
  rw [this, matVec_zero]
  ring

/-- **distances are preserved** by the default branch when `RᵀR = 1` -/
theorem dist_preserved {K : Type} [Field K] {N M d : Nat} (x : Fin N → Vec d K)
    (R : Mat d K) (hR : matMul (transpose R) R = ident d) (t : Vec d K) (center : Option (Vec d K))
    (mask : Fin M → Vec d K) (k l : Fin N) :
    ∑ i, ((coordsTransform x R t center mask).1 k i - (coordsTransform x R t center mask).1 l i) *
         ((coordsTransform x R t center mask).1 k i - (coordsTransform x R t center mask).1 l i)
      = ∑ i, (x k i - x l i) * (x k i - x l i) := by
  have hd : ∀ i, (coordsTransform x R t center mask).1 k i - (coordsTransform x R t center mask).1 l i
      = matVec R (fun j => x k j - x l j) i := by
    intro i
    generalize hc : center.getD (mean x) = c
    have h2 := matVec_sub R (fun j => x k j - c j) (fun j => x l j - c j) i
    have h3 : (fun j => (x k j - c j) - (x l j - c j)) = fun j => x k j - x l j := by funext j; ring
    rw [h3] at h2
    show (matVec R (fun j => x k j - (center.getD (mean x)) j) i + _) - (matVec R (fun j => x l j - (center.getD (mean x)) j) i + _) = _
    rw [hc, h2]; ring
  simp only [hd]
  exact matVec_norm_sq R hR _

/-- … and by the `use_geometric_center=True` branch (which adds one common vector to `R x`) -/
theorem dist_preserved_geo {K : Type} [Field K] [Max K] [Min K] {N M d : Nat} (hf : K → K)
    (x : Fin (N+1) → Vec d K) (R : Mat d K) (hR : matMul (transpose R) R = ident d) (t : Vec d K)
    (center : Option (Vec d K)) (mask : Fin M → Vec d K) (k l : Fin (N+1)) :
    ∑ i, ((coordsTransformGeo hf x R t center mask).1 k i - (coordsTransformGeo hf x R t center mask).1 l i) *
         ((coordsTransformGeo hf x R t center mask).1 k i - (coordsTransformGeo hf x R t center mask).1 l i)
      = ∑ i, (x k i - x l i) * (x k i - x l i) := by
  have hd : ∀ i, (coordsTransformGeo hf x R t center mask).1 k i - (coordsTransformGeo hf x R t center mask).1 l i
      = matVec R (fun j => x k j - x l j) i := by
    intro i
    have h2 := matVec_sub R (x k) (x l) i
    show (matVec R (x k) i + _) - (matVec R (x l) i + _) = _
    rw [h2]; ring
  simp only [hd]
  exact matVec_norm_sq R hR _

/-- **array and coordinate versions agree**: on a point set whose centroid is the array centre `c` (e.g. the
full index grid, or any centred content) the coordinate version is the array's forward map for `t = 0`,
followed by the translation … -/
theorem array_coords_agree {K : Type} [Field K] {N M d : Nat} (hN : (N : K) ≠ 0) (x : Fin N → Vec d K)
    (R : Mat d K) (t c : Vec d K) (hc : mean x = c) (mask : Fin M → Vec d K) (k : Fin N) (i : Fin d) :
    (coordsTransform x R t none mask).1 k i = forward R (fun _ => 0) c (x k) i + t i := by
  rw [coords_formula_default hN, hc]
  simp [forward]

/-- … whereas the array version applies its translation *before* the rotation: the two conventions differ by
`R t − t`, so they coincide exactly when `R t = t` (in particular for `t = 0` and for `R = 1`, the cases the
property speaks of). -/
theorem array_translation_in_input_frame {α : Type} [CommRing α] {d : Nat} (R : Mat d α) (t c x : Vec d α)
    (i : Fin d) : forward R t c x i = forward R (fun _ => 0) c x i + matVec R t i := by
  simp only [forward]
  have : (fun j => x j + t j - c j) = fun j => (x j + 0 - c j) + t j := by funext j; ring
  rw [this, matVec_add]
  ring

/-! ## non-vacuity: the theorems applied to concrete instances (`Proofs/C06Examples.lean`) -/

-- grid_perm / grid_perm_onto / grid_never_interpolates / grid_value_lands / pull2_push2 on that instance
example : ∃ y : Vec 3 Int, inBox exN3 y = true ∧ (∀ i, push2 exN3 exR3 (fun _ => 0) exX3 i = 2 * y i) ∧
    gridTransform exN3 exR3inv (fun _ => 0) exF3 y = some (exF3 exX3) :=
  grid_perm exN3 exR3 exR3inv exQ3 exS3 exR3_signed exN3_inv exR3_inv exF3 exX3 (by decide)
example : ∃ x : Vec 3 Int, inBox exN3 x = true ∧ (∀ i, push2 exN3 exR3 (fun _ => 0) x i = 2 * exX3 i) ∧
    gridTransform exN3 exR3inv (fun _ => 0) exF3 exX3 = some (exF3 x) :=
  grid_perm_onto exN3 exR3 exR3inv exQ3 exS3inv exR3inv_signed exN3_inv exR3_inv' exF3 exX3 (by decide)
example : ∃ src : Vec 3 Int, gridTransform exN3 exR3inv (vecOfList 3 [1, -2, 0]) exF3 exX3 =
    some (if inBox exN3 src then exF3 src else 0) :=
  grid_never_interpolates exN3 exR3inv exQ3 exS3inv exR3inv_signed exN3_inv _ exF3 exX3
-- the image of voxel (1,5,4) under (x,y,z) ↦ (z,y,−x) about the centre (2, 2.5, 2) is (4,5,3), and the value is found there
example : gridTransform exN3 exR3inv (fun _ => 0) exF3 (vecOfList 3 [4, 5, 3]) = some (exF3 exX3) := by decide
example : gridTransform exN3 exR3inv (fun _ => 0) exF3 (vecOfList 3 [4, 5, 3]) = some (if inBox exN3 exX3 then exF3 exX3 else 0) :=
  grid_value_lands exN3 exR3 exR3inv (fun _ => 0) exX3 (vecOfList 3 [4, 5, 3]) exF3 exR3_inv (by intro i; fin_cases i <;> rfl)
example : pull2 exN3 exR3inv (fun _ => 0) (vecOfList 3 [4, 5, 3]) = fun i => 2 * exX3 i :=
  pull2_push2 exN3 exR3 exR3inv (fun _ => 0) exX3 (vecOfList 3 [4, 5, 3]) exR3_inv (by intro i; fin_cases i <;> rfl)
-- a shape that is *not* invariant (4 × 5 under a quarter turn) does interpolate: the hypothesis matters
example : gridTransform (fun i : Fin 2 => if i.val = 0 then 4 else 5) (matOfRows 2 [[0, 1], [-1, 0]]) (fun _ => 0)
    (fun x => x 0 + x 1) (vecOfList 2 [1, 1]) = none := by decide
-- identity / integer shift
example : gridTransform exN3 (ident 3) (fun _ => 0) exF3 exX3 = some (exF3 exX3) := identity_id exN3 exF3 exX3 (by decide)
example : gridTransform exN3 (ident 3) (vecOfList 3 [1, 2, 1]) exF3 exX3 = some (exF3 (vecOfList 3 [0, 3, 3])) := by decide
example : gridTransform exN3 (ident 3) (vecOfList 3 [2, 0, 0]) exF3 exX3 = some 0 := by decide   -- zero fill
example : gridTransform exN3 (ident 3) (vecOfList 3 [1, 2, -1]) exF3 exX3 =
    some (if inBox exN3 (fun i => exX3 i - vecOfList 3 [1, 2, -1] i) then exF3 (fun i => exX3 i - vecOfList 3 [1, 2, -1] i) else 0) :=
  int_translation_shift exN3 _ exF3 exX3
example : rigidGridInto exN3 exR3inv (fun _ => 0) exF3 (fun _ => 77) (vecOfList 3 [4, 5, 3]) = some (exF3 exX3) ∧
    rigidGridInto exN3 exR3inv (fun _ => 0) exF3 (fun _ => 77) (vecOfList 3 [4, 6, 3]) = some 77 := by decide
example : ((bsplineTaps 3).map (·.2)).sum = 1 := bspline_weights_sum_one 3
example := mask_unprefiltered_same_map 3 exN3 exR3inv (fun _ => 0) (fun x => ((exF3 x : Int) : Rat)) ⟨[5, 6, 5], Array.replicate 150 1⟩ exX3
-- mask: a data set supported in the mask
example : gridTransform exN3 exR3inv (fun _ => 0) (fun x => if x 0 = 1 then (1:Int) else 0) (vecOfList 3 [4, 5, 3]) = some 1 := by decide
example := (mask_same_map exN3 exR3inv (fun _ => 0) (fun x => if x 0 = 1 then exF3 x else 0) (fun x => if x 0 = 1 then (1:Int) else 0)).2.2.2
  (by intro x h; by_cases hx : x 0 = 1 <;> simp_all)

example : affineSrc (rigidMatrix exRqinv (some exT) (some exC)) (vecOfList 2 [1, 2]) = pullback exRqinv exT exC (vecOfList 2 [1, 2]) :=
  matrix_eq_pullback _ _ _ _
example : pullback exRqinv exT exC (forward exRq exT exC (vecOfList 2 [1, 2])) = vecOfList 2 [1, 2] := pullback_forward _ _ _ _ _ exRq_inv
example : forward exRq exT exC (pullback exRqinv exT exC (vecOfList 2 [1, 2])) = vecOfList 2 [1, 2] := forward_pullback _ _ _ _ _ exRq_inv'
example : (3 : Rat) ≠ 0 := by norm_num
example : ∀ k i, (coordsTransform exPts exRq exT none (fun _ : Fin 0 => exC)).1 k i =
    matVec exRq (fun j => exPts k j - mean exPts j) i + mean exPts i + exT i :=
  fun k i => coords_formula_default (by norm_num) exPts exRq exT _ k i
example : ∀ i, mean (coordsTransform exPts exRq exT (some exC) (fun _ : Fin 0 => exC)).1 i = exC i + exT i :=
  fun i => centroid_moves_by_t (by norm_num) exPts exRq exT (some exC) _ i
example := dist_preserved exPts exRq exRq_orth exT none (fun _ : Fin 0 => exC) 0 2
example := dist_preserved_geo halfFloorRat exPts exRq exRq_orth exT none (fun _ : Fin 0 => exC) 0 2

example : affineSrc (rigidMatrix exRqinv none (some exC)) (vecOfList 2 [1, 2]) =
    pullback exRqinv (fun _ => 0) exC (vecOfList 2 [1, 2]) := matrix_eq_pullback_optional _ none (some exC) _
example : rigidMatrix exRqinv (some exT) (some exC) = rigidMatrixRaw exRqinv (some exT) (some exC) :=
  rigidMatrix_normalisation_noop _ _ _
example : rigidMatrixRaw exRqinv (some exT) (some exC) = aff exRqinv (fun i => exC i - exT i - matVec exRqinv exC i) :=
  rigidMatrixRaw_eq_aff _ _ _
example : forward exRq (fun _ => 0) exC (vecOfList 2 [1, 2]) 0 = matVec exRq (fun j => vecOfList 2 [1, 2] j - exC j) 0 + exC 0 :=
  forward_rotation_only _ _ _ _
example : forward (ident 2) exT exC (vecOfList 2 [1, 2]) 1 = vecOfList 2 [1, 2] 1 + exT 1 := forward_translation_only _ _ _ _
example :=
  pull2_eq_twice_pullback (K := Rat) exN3 exR3inv (vecOfList 3 [1, 0, 0]) exX3 0
example : ∀ k i, (coordsTransform exPts exRq exT (some exC) (fun _ : Fin 1 => exC)).1 k i =
    matVec exRq (fun j => exPts k j - mean exPts j) i + exC i + exT i :=
  fun k i => coords_formula (by norm_num) exPts exRq exT (some exC) _ k i
example : ∀ k i, (coordsTransform exPts exRq exT (some exC) (fun _ : Fin 1 => exC)).2 k i =
    matVec exRq (fun j => exC j - mean exPts j) i + exC i + exT i :=
  fun k i => coords_mask_same_map (by norm_num) exPts exRq exT (some exC) _ k i
example := coordsCore_fst (K := Rat) (by norm_num) exPts exRq exT exC (fun _ : Fin 1 => exC) 1 0
example := coordsCore_snd (K := Rat) (by norm_num) exPts exRq exT exC (fun _ : Fin 1 => exC) 0 1
example : (3 : Rat) ≠ 0 ∧ mean exPts = mean exPts := ⟨by norm_num, rfl⟩
example : ∀ k i, (coordsTransform exPts exRq exT none (fun _ : Fin 0 => exC)).1 k i =
    forward exRq (fun _ => 0) (mean exPts) (exPts k) i + exT i :=
  fun k i => array_coords_agree (by norm_num) exPts exRq exT (mean exPts) rfl _ k i
example : forward exRq exT exC (vecOfList 2 [1, 2]) 0 = forward exRq (fun _ => 0) exC (vecOfList 2 [1, 2]) 0 + matVec exRq exT 0 :=
  array_translation_in_input_frame _ _ _ _ _
-- the two conventions really differ for a rotation with a translation: R t ≠ t
example : matVec (matOfRows 2 [[0, -1], [1, 0]] : Mat 2 Int) (vecOfList 2 [1, 0]) 0 ≠ vecOfList 2 [1, 0] 0 := by decide




/-! ## order-1 (linear) interpolation: `affine_transform(order=1, mode="constant", cval=0)` exactly

`linInterp a src` (`Model/C06.lean`) is what the resampler returns for one output voxel whose pulled-back position is
`src`: the `2^d` corners `⌊src_i⌋ + {0, 1}` weighted multilinearly, `0` as soon as one coordinate is outside
`[0, n_i − 1]`.  `rigidLinear a R⁻¹ t c o = linInterp a (affineSrc (rigidMatrix R⁻¹ t c) o)` is the order-1 transform at
voxel `o`, `rigidLinearArr` the whole output array; the driver evaluates exactly these functions (`c06.linear`,
`c06.lineararr`) and the harness compares them with the real `rigid_transform(order=1)`.

`InsideL src shape` is the guard of the model (`0 ≤ src_i ≤ n_i − 1`, ranks agreeing), `InBoxL shape idx` says that a signed
index addresses a voxel, `Relevant`, `hat`, `hatProd`, `boxSum`, `dotL`, `SuppOK` are defined in `Proofs/C06Linear*.lean`. -/

/-- `InsideL` is literally the branch condition of the executable model; outside it the model returns `cval = 0` -/
theorem linInterp_guard (a : Arr Rat) (src : List Rat) :
    (InsideL src a.shape ↔ (src.length = a.shape.length ∧
      (List.zip src a.shape).all (fun (xn : Rat × Nat) => decide (0 ≤ xn.1) && decide (xn.1 ≤ ((xn.2 : Int) - 1 : Int))) = true)) ∧
    (¬ InsideL src a.shape → linInterp a src = 0) :=
  ⟨insideL_iff src a.shape, linInterp_outside a src⟩

/-- **(a) partition of unity.**  For every position (any dimension) the model uses `2^d` corners, every corner is a grid
neighbour `⌊x_i⌋` or `⌊x_i⌋ + 1` on each axis, its weight is the tensor-product hat function `Π_i Λ(x_i − corner_i)`, the
weights are non-negative and sum to `1`. -/
theorem linear_weights_partition_of_unity (xs : List Rat) :
    (linCorners xs).length = 2 ^ xs.length ∧
    (∀ iw ∈ linCorners xs, List.Forall₂ (fun (x : Rat) (i : Int) => i = ⌊x⌋ ∨ i = ⌊x⌋ + 1) xs iw.1) ∧
    (∀ iw ∈ linCorners xs, iw.2 = hatProd xs iw.1) ∧
    (∀ iw ∈ linCorners xs, 0 ≤ iw.2) ∧
    ((linCorners xs).map (fun (iw : List Int × Rat) => iw.2)).sum = 1 :=
  ⟨linCorners_length xs, linCorners_neighbours xs, linCorners_weight_hat xs, linCorners_nonneg xs, linCorners_sum_one xs⟩

/-- inside the array the model is the iterated one-dimensional interpolation of the zero-extended array, and
equivalently the sum over **all** voxels against hat functions: `out = Σ_x a[x] · Π_i Λ(src_i − x_i)` -/
theorem linInterp_closed_forms (a : Arr Rat) (src : List Rat) (hin : InsideL src a.shape) :
    linInterp a src = interpRec src (fun is => a.getI is 0) ∧
    linInterp a src = boxSum a.shape (fun x => a.getI x 0 * hatProd src x) :=
  ⟨linInterp_inside a src hin, linInterp_eq_boxSum a src hin⟩

/-- **(a) range.**  Inside the array the interpolated value lies between the smallest and the largest voxel:
`min ≤ out ≤ max` (no overshoot at order 1; the corner with index `n_i` that the cell of a position on the last grid
plane formally has carries weight `0`). -/
theorem linInterp_range (a : Arr Rat) (src : List Rat) (lo hi : Rat) (hin : InsideL src a.shape)
    (hv : ∀ idx, inShape a.shape idx = true → lo ≤ a.getD idx 0 ∧ a.getD idx 0 ≤ hi) :
    lo ≤ linInterp a src ∧ linInterp a src ≤ hi :=
  linInterp_bounds a src lo hi hin hv

/-- **(a) constants are reproduced** everywhere inside the array -/
theorem linInterp_constant (a : Arr Rat) (src : List Rat) (k : Rat) (hin : InsideL src a.shape)
    (hv : ∀ idx, inShape a.shape idx = true → a.getD idx 0 = k) : linInterp a src = k := by
  have := linInterp_bounds a src k k hin (fun idx h => by rw [hv idx h]; exact ⟨le_refl _, le_refl _⟩)
  exact le_antisymm this.2 this.1

/-- **(a) at every position, inside or outside**: non-negative data stays non-negative and `|out| ≤ max |a|` (no
overshoot, no ringing at order 1) -/
theorem linInterp_global_bounds (a : Arr Rat) (src : List Rat) :
    ((∀ idx, inShape a.shape idx = true → 0 ≤ a.getD idx 0) → 0 ≤ linInterp a src) ∧
    (∀ M : Rat, 0 ≤ M → (∀ idx, inShape a.shape idx = true → |a.getD idx 0| ≤ M) → |linInterp a src| ≤ M) :=
  ⟨linInterp_nonneg a src, fun M hM hv => linInterp_abs_le a src M hM hv⟩

/-- **(b) grid points.**  At an integer position the model returns the voxel itself, for every integer position
(outside the array both sides are `0`): nothing is interpolated. -/
theorem linInterp_grid_point (a : Arr Rat) (ks : List Int) :
    linInterp a (ks.map (fun (z : Int) => (z : Rat))) = a.getI ks 0 :=
  linInterp_int a ks

/-- **(d) affine exactness.**  If the voxels are an affine function `α + Σ β_i x_i` of the voxel index, the model returns
`α + Σ β_i src_i` at every position inside the array. -/
theorem linInterp_affine_exact (a : Arr Rat) (src : List Rat) (α : Rat) (β : List Rat) (hin : InsideL src a.shape)
    (hv : ∀ idx, inShape a.shape idx = true → a.getD idx 0 = α + dotL β (ratIdx idx)) :
    linInterp a src = α + dotL β src :=
  linInterp_affine a src α β hin hv

/-- **the same over every ordered field with a floor function** (`interpRec` is the interpolant; at `K = ℚ` it is the
executable model by `linInterp_closed_forms`): range, affine exactness and exactness at grid points, where `Relevant xs is`
says that the corner `is` carries non-zero weight at `xs` -/
theorem linear_interpolation_any_field {K : Type} [Field K] [LinearOrder K] [IsStrictOrderedRing K] [FloorRing K]
    (xs : List K) (g : List Int → K) :
    (∀ lo hi : K, (∀ is, Relevant xs is → lo ≤ g is ∧ g is ≤ hi) → lo ≤ interpRec xs g ∧ interpRec xs g ≤ hi) ∧
    (∀ (α : K) (β : List K), (∀ is, Relevant xs is → g is = α + dotL β (is.map (fun (z : Int) => (z : K)))) →
      interpRec xs g = α + dotL β xs) ∧
    (∀ ks : List Int, xs = ks.map (fun (z : Int) => (z : K)) → interpRec xs g = g ks) ∧
    (∀ ns : List Nat, xs.length = ns.length → (∀ is, ¬ InBoxL ns is → g is = 0) →
      interpRec xs g = boxSum ns (fun x => g x * hatProd xs x)) :=
  ⟨fun lo hi h => interpRec_bounds lo hi xs g h, fun α β h => interpRec_affine xs g α β h,
   fun ks h => by rw [h]; exact interpRec_int ks g, fun ns h1 h2 => interpRec_eq_boxSum ns xs g h1 h2⟩

/-- … and the translation theorem over every such field: `out` is the order-1 resampling of `g` at `o − t` (zero where
the source is outside the box `ns`), the support of `g` shifted by `t` stays inside (`SuppL`: `SuppOK` on every axis);
then `Σ_o φ(o)·out(o) = Σ_x φ(x + t)·g(x)` for every affine `φ` -/
theorem translation_affine_functional_any_field {K : Type} [Field K] [LinearOrder K] [IsStrictOrderedRing K] [FloorRing K]
    (ns : List Nat) (ts : List K) (g out : List Int → K) (hlen : ts.length = ns.length)
    (hg0 : ∀ is, ¬ InBoxL ns is → g is = 0) (hsupp : ∀ x, g x ≠ 0 → SuppL ns ts x)
    (hin : ∀ o, InsideL (subL o ts) ns → out o = interpRec (subL o ts) g)
    (hout : ∀ o, ¬ InsideL (subL o ts) ns → out o = 0) (α : K) (β : List K) :
    boxSum ns (fun o => (α + dotL β (o.map (fun (z : Int) => (z : K)))) * out o) =
      boxSum ns (fun x => (α + dotL β (addL x ts)) * g x) :=
  shift_functional ns ts g out hlen hg0 hsupp hin hout α β

/-! ### the order-1 rigid transform `rigidLinear` -/

/-- the order-1 transform reads output voxel `o` at the pull-back `R⁻¹(o − c) + c − t` (every matrix, centre, translation) -/
theorem rigidLinear_eq_pullback {d : Nat} (a : Arr Rat) (rinv : Mat d Rat) (t c o : Vec d Rat) :
    rigidLinear a rinv t c o = linInterp a (List.ofFn (pullback rinv t c o)) := by
  simp only [rigidLinear, listOfVec, matrix_eq_pullback]

/-- (a), (d) for the transform: wherever the pulled-back position is inside the array, the output lies in the range
of the input, a constant array gives that constant, and an affine array `α + β·x` gives `α + β·(R⁻¹(o − c) + c − t)` -/
theorem rigidLinear_interior {d : Nat} (a : Arr Rat) (rinv : Mat d Rat) (t c o : Vec d Rat)
    (hin : InsideL (List.ofFn (pullback rinv t c o)) a.shape) :
    (∀ lo hi : Rat, (∀ idx, inShape a.shape idx = true → lo ≤ a.getD idx 0 ∧ a.getD idx 0 ≤ hi) →
      lo ≤ rigidLinear a rinv t c o ∧ rigidLinear a rinv t c o ≤ hi) ∧
    (∀ k : Rat, (∀ idx, inShape a.shape idx = true → a.getD idx 0 = k) → rigidLinear a rinv t c o = k) ∧
    (∀ (α : Rat) (β : List Rat), (∀ idx, inShape a.shape idx = true → a.getD idx 0 = α + dotL β (ratIdx idx)) →
      rigidLinear a rinv t c o = α + dotL β (List.ofFn (pullback rinv t c o))) := by
  rw [rigidLinear_eq_pullback]
  exact ⟨fun lo hi hv => linInterp_bounds a _ lo hi hin hv, fun k hv => linInterp_constant a _ k hin hv,
    fun α β hv => linInterp_affine a _ α β hin hv⟩

/-- **(b) for the transform**: whenever the pulled-back position of `o` is a grid point `s`, the output is the voxel
`a[s]` (`0` outside the array), whatever the matrix, centre and translation -/
theorem rigidLinear_grid_point {d : Nat} (a : Arr Rat) (rinv : Mat d Rat) (t c o : Vec d Rat) (s : Vec d Int)
    (hs : ∀ i, pullback rinv t c o i = ((s i : Int) : Rat)) :
    rigidLinear a rinv t c o = a.getI (List.ofFn s) 0 := by
  rw [rigidLinear_eq_pullback, show pullback rinv t c o = fun i => ((s i : Int) : Rat) from funext hs,
    show List.ofFn (fun i => ((s i : Int) : Rat)) = (List.ofFn s).map (fun (z : Int) => (z : Rat)) by
      rw [List.map_ofFn]; rfl]
  exact linInterp_int a _

/-- **the grid theorems are the special case**: whenever the exact grid model `gridTransform` (the object of
`grid_perm`, `grid_perm_onto`, `grid_never_interpolates`, `identity_id`, `int_translation_shift`) returns a value for
output voxel `o` — integer matrix and translation, geometric centre `(n − 1)/2` — the order-1 model returns the same -/
theorem rigidLinear_on_grid {d : Nat} (a : Arr Rat) (n : Fin d → Nat) (hshape : a.shape = List.ofFn n)
    (rinv : Mat d Int) (t o : Vec d Int) (v : Rat)
    (h : gridTransform n rinv t (fnOfArr a) o = some v) :
    rigidLinear a (fun i j => ((rinv i j : Int) : Rat)) (fun i => ((t i : Int) : Rat))
      (fun i => ((n i : Rat) - 1) / 2) (fun i => ((o i : Int) : Rat)) = v := by
  simp only [gridTransform, resample] at h
  split at h
  · rename_i hev
    rw [isEven_iff] at hev
    have hs : ∀ i, pull2 n rinv t o i = 2 * (pull2 n rinv t o i / 2) := fun i => by have := hev i; omega
    rw [rigidLinear_grid_point a _ _ _ _ (fun i => pull2 n rinv t o i / 2)]
    · simp only [Option.some.injEq, fnOfArr] at h
      rw [← h]
      split
      · rfl
      · rename_i hb
        exact getI_of_not_inBox a _ (by rw [hshape, inBoxL_ofFn]; exact hb)
    · intro i
      have h2 := pull2_eq_twice_pullback (K := Rat) n rinv t o i
      have h3 : ((pull2 n rinv t o i : Int) : Rat) = 2 * ((pull2 n rinv t o i / 2 : Int) : Rat) := by
        exact_mod_cast congrArg (fun (z : Int) => (z : Rat)) (hs i)
      linarith
  · cases h

/-- a **pure translation** does not depend on the centre (geometric or centre of mass): `out[o] = lin-interp(a, o − t)` -/
theorem rigidLinear_translation {d : Nat} (a : Arr Rat) (t c o : Vec d Rat) :
    rigidLinear a (ident d) t c o = linInterp a (List.ofFn (fun i => o i - t i)) := by
  rw [rigidLinear_eq_pullback]
  congr 2
  funext i
  simp only [pullback, matVec_ident]; ring

/-- **(c) integer translation with the identity is the exact zero-filled shift** `out[o] = a[o − t]`, for every centre
— the order-1 counterpart of `int_translation_shift` -/
theorem rigidLinear_int_translation {d : Nat} (a : Arr Rat) (t o : Vec d Int) (c : Vec d Rat) :
    rigidLinear a (ident d) (fun i => ((t i : Int) : Rat)) c (fun i => ((o i : Int) : Rat)) =
      a.getI (List.ofFn (fun i => o i - t i)) 0 := by
  apply rigidLinear_grid_point
  intro i
  simp only [pullback, matVec_ident]; push_cast; ring

/-- corollary: **at order 1 every grid rotation is the exact permutation of voxels** (`grid_perm` transferred): for a
signed permutation matrix and a shape it leaves invariant, each voxel `x` has its image `y = R(x − c) + c` inside the
array and the order-1 output there is exactly `a[x]` -/
theorem rigidLinear_grid_perm {d : Nat} (a : Arr Rat) (n : Fin d → Nat) (hshape : a.shape = List.ofFn n)
    (R rinv : Mat d Int) (q : Fin d → Fin d) (s : Fin d → Int) (hR : IsSignedPerm R q s) (hn : ∀ i, n (q i) = n i)
    (hinv : matMul rinv R = ident d) (x : Vec d Int) (hx : inBox n x = true) :
    ∃ y : Vec d Int, inBox n y = true ∧ (∀ i, push2 n R (fun _ => 0) x i = 2 * y i) ∧
      rigidLinear a (fun i j => ((rinv i j : Int) : Rat)) (fun _ => 0) (fun i => ((n i : Rat) - 1) / 2)
        (fun i => ((y i : Int) : Rat)) = a.getI (List.ofFn x) 0 := by
  obtain ⟨y, hy1, hy2, hy3⟩ := grid_perm n R rinv q s hR hn hinv (fnOfArr a) x hx
  refine ⟨y, hy1, hy2, ?_⟩
  have := rigidLinear_on_grid a n hshape rinv (fun _ => 0) y _ hy3
  simpa [fnOfArr] using this

/-- corollary: **the identity leaves the array unchanged at order 1**, for every centre -/
theorem rigidLinear_identity {d : Nat} (a : Arr Rat) (o : Vec d Int) (c : Vec d Rat) :
    rigidLinear a (ident d) (fun _ => 0) c (fun i => ((o i : Int) : Rat)) = a.getI (List.ofFn o) 0 := by
  have := rigidLinear_int_translation a (fun _ => 0) o c
  simpa using this

/-- the output array holds the per-voxel transform: every theorem about `rigidLinear` is a theorem about the voxels of
`rigidLinearArr` (the array the driver returns and the harness compares with `rigid_transform(order=1)`) -/
theorem rigidLinearArr_getD {d : Nat} (a : Arr Rat) (rinv : Mat d Rat) (t c : Vec d Rat) (idx : List Nat)
    (h : inShape a.shape idx = true) :
    (rigidLinearArr a rinv t c).shape = a.shape ∧
    (rigidLinearArr a rinv t c).getD idx 0 = rigidLinear a rinv t c (vecOfList d (ratIdx idx)) :=
  ⟨rfl, by rw [rigidLinearArr, Arr.getD_ofFn _ _ _ _ h]⟩

/-! ### what a translation does to mass and centre of mass -/

/-- the support condition of the next theorems on one axis, spelled out: the two grid neighbours `x + ⌊t⌋`, `x + ⌈t⌉`
of the shifted voxel are voxels of the output, and their sources lie inside `[0, n − 1]` (beyond the last sample
`mode="constant"` returns `cval`, it does not interpolate towards the edge) -/
theorem suppOK_iff (n : Nat) (t : Rat) (x : Int) :
    SuppOK n t x ↔ (0 ≤ x + ⌊t⌋ ∧ x + ⌈t⌉ ≤ (n : Int) - 1 ∧
      (0 : Rat) ≤ (x : Rat) + (⌊t⌋ : Rat) - t ∧ (x : Rat) + (⌈t⌉ : Rat) - t ≤ (((n : Int) - 1 : Int) : Rat)) := Iff.rfl

/-- voxel `idx` of the output array of a pure translation is the model at `idx − t` -/
theorem rigidLinearArr_translation {d : Nat} (a : Arr Rat) (t c : Vec d Rat) (hd : a.shape.length = d)
    (idx : List Nat) (h : inShape a.shape idx = true) :
    (rigidLinearArr a (ident d) t c).shape = a.shape ∧
    (rigidLinearArr a (ident d) t c).getD idx 0 =
      linInterp a (subL (idx.map (fun (z : Nat) => (z : Int))) (List.ofFn t)) := by
  refine ⟨rfl, ?_⟩
  rw [rigidLinearArr, Arr.getD_ofFn _ _ _ _ h, rigidLinear_translation,
    ofFn_sub_eq_subL d t idx ((inShape_length h).trans hd)]

/-- **(d') a sub-voxel translation moves every affine functional exactly.**  Pure translation by any rational `t`, any
centre, any dimension; if every voxel of the support, shifted by `t`, stays inside (`SuppOK` on every axis), then for
every affine weight `φ(o) = α + β·o`:  `Σ_o φ(o)·out[o] = Σ_x φ(x + t)·a[x]`. -/
theorem translation_affine_functional {d : Nat} (a : Arr Rat) (t c : Vec d Rat) (hd : a.shape.length = d)
    (hsupp : ∀ idx, inShape a.shape idx = true → a.getD idx 0 ≠ 0 →
      ∀ i : Fin d, SuppOK (a.shape.getD i.val 0) (t i) ((idx.getD i.val 0 : Nat) : Int))
    (α : Rat) (β : List Rat) :
    boxSum a.shape (fun o => (α + dotL β (o.map (fun (z : Int) => (z : Rat)))) * (rigidLinearArr a (ident d) t c).getI o 0) =
      boxSum a.shape (fun x => (α + dotL β (addL x (List.ofFn t))) * a.getI x 0) := by
  refine shift_functional_arr a (rigidLinearArr a (ident d) t c) (List.ofFn t) (by simp [hd]) rfl
    (fun idx h => (rigidLinearArr_translation a t c hd idx h).2) (fun idx h hne => ?_) α β
  refine suppL_ofFn d a.shape t _ hd (by simp [(inShape_length h).trans hd]) (fun i => ?_)
  have := hsupp idx h hne i
  have hi : i.val < idx.length := by rw [(inShape_length h).trans hd]; exact i.isLt
  simpa [List.getD_eq_getElem?_getD, List.getElem?_map, List.getElem?_eq_getElem hi] using this

/-- **(d') mass is conserved and the first moment moves by exactly `t`·mass** under a pure translation whose shifted
support stays inside: `Σ out = Σ a` and `Σ_o o_k·out[o] = Σ_x x_k·a[x] + t_k·Σ_x a[x]` on every axis `k` -/
theorem translation_mass_and_first_moment {d : Nat} (a : Arr Rat) (t c : Vec d Rat) (hd : a.shape.length = d)
    (hsupp : ∀ idx, inShape a.shape idx = true → a.getD idx 0 ≠ 0 →
      ∀ i : Fin d, SuppOK (a.shape.getD i.val 0) (t i) ((idx.getD i.val 0 : Nat) : Int))
    (k : Fin d) :
    mass (rigidLinearArr a (ident d) t c) = mass a ∧
    moment (rigidLinearArr a (ident d) t c) k.val = moment a k.val + t k * mass a := by
  have hs : ∀ idx, inShape a.shape idx = true → a.getD idx 0 ≠ 0 →
      SuppL a.shape (List.ofFn t) (idx.map (fun (z : Nat) => (z : Int))) := by
    intro idx h hne
    refine suppL_ofFn d a.shape t _ hd (by simp [(inShape_length h).trans hd]) (fun i => ?_)
    have := hsupp idx h hne i
    have hi : i.val < idx.length := by rw [(inShape_length h).trans hd]; exact i.isLt
    simpa [List.getD_eq_getElem?_getD, List.getElem?_map, List.getElem?_eq_getElem hi] using this
  have hout := fun idx h => (rigidLinearArr_translation a t c hd idx h).2
  refine ⟨shift_mass a (rigidLinearArr a (ident d) t c) (List.ofFn t) (by simp [hd]) rfl hout hs, ?_⟩
  have := shift_moment a (rigidLinearArr a (ident d) t c) (List.ofFn t) (by simp [hd]) rfl hout hs k.val (by rw [hd]; exact k.isLt)
  rw [this]
  congr 2
  simp [List.getD_eq_getElem?_getD]

/-- **the centre of mass moves by exactly `t`** (pure translation, shifted support inside, non-zero mass) -/
theorem translation_centre_of_mass {d : Nat} (a : Arr Rat) (t c : Vec d Rat) (hd : a.shape.length = d)
    (hsupp : ∀ idx, inShape a.shape idx = true → a.getD idx 0 ≠ 0 →
      ∀ i : Fin d, SuppOK (a.shape.getD i.val 0) (t i) ((idx.getD i.val 0 : Nat) : Int))
    (hm : mass a ≠ 0) (k : Fin d) :
    moment (rigidLinearArr a (ident d) t c) k.val / mass (rigidLinearArr a (ident d) t c) =
      moment a k.val / mass a + t k := by
  obtain ⟨h1, h2⟩ := translation_mass_and_first_moment a t c hd hsupp k
  rw [h1, h2]
  field_simp

/-- … stated for the model of the backend's own `center_of_mass(arr, cutoff=0)` (the centre `rigid_transform` uses by
default): on non-negative data with non-zero mass, `centerOfMass(out) = centerOfMass(a) + t` on every axis -/
theorem translation_centerOfMass {d : Nat} (a : Arr Rat) (t c : Vec d Rat) (hd : a.shape.length = d)
    (hsupp : ∀ idx, inShape a.shape idx = true → a.getD idx 0 ≠ 0 →
      ∀ i : Fin d, SuppOK (a.shape.getD i.val 0) (t i) ((idx.getD i.val 0 : Nat) : Int))
    (hpos : ∀ idx, inShape a.shape idx = true → 0 ≤ a.getD idx 0) (hm : mass a ≠ 0) (k : Fin d) :
    (centerOfMass (rigidLinearArr a (ident d) t c) 0).getD k.val 0 = (centerOfMass a 0).getD k.val 0 + t k := by
  have hpos' : ∀ idx, inShape (rigidLinearArr a (ident d) t c).shape idx = true →
      0 ≤ (rigidLinearArr a (ident d) t c).getD idx 0 := by
    intro idx h
    rw [(rigidLinearArr_translation a t c hd idx h).2]
    exact linInterp_nonneg a _ hpos
  rw [centerOfMass_eq a hpos, centerOfMass_eq _ hpos']
  have hsh : (rigidLinearArr a (ident d) t c).shape.length = a.shape.length := rfl
  have hk : k.val < a.shape.length := by rw [hd]; exact k.isLt
  have hget : ∀ f : Nat → Rat, ((List.range a.shape.length).map f).getD k.val 0 = f k.val := by
    intro f
    simp [List.getD_eq_getElem?_getD, List.getElem?_map, List.getElem?_range hk]
  rw [hsh, hget, hget]
  exact translation_centre_of_mass a t c hd hsupp hm k

/-! ### non-vacuity of the order-1 theorems (instances in `Proofs/C06Examples.lean`) -/

example := linInterp_guard exA2 [1/2, 9/4]
example : linInterp exA2 [-1/2, 1] = 0 ∧ linInterp exA2 [1/2, 17/4] = 0 ∧ linInterp exA2 [1/2, 9/4] = 15/8 := by decide +kernel
example := linear_weights_partition_of_unity [1/2, 9/4, -7/3]
example : linCorners [1/2, 9/4] = [([0, 2], 3/8), ([0, 3], 1/8), ([1, 2], 3/8), ([1, 3], 1/8)] := by decide +kernel
example := linInterp_closed_forms exRamp [1/2, 9/4] exInside
example : (0 : Rat) ≤ linInterp exA2 [3/2, 7/4] ∧ linInterp exA2 [3/2, 7/4] ≤ 7 :=
  linInterp_range exA2 [3/2, 7/4] 0 7 ((insideL_iff _ _).2 ⟨rfl, by decide +kernel⟩) exA2_range
example : linInterp exConst [1/2, 9/4] = 5 := linInterp_constant exConst _ 5 exInside exConst_const
example : linInterp exA2 ([2, 2].map (fun (z : Int) => (z : Rat))) = exA2.getI [2, 2] 0 := linInterp_grid_point exA2 [2, 2]
example : exA2.getI [2, 2] 0 = 7 ∧ exA2.getI [2, 5] 0 = 0 ∧ exA2.getI [-1, 2] 0 = 0 := by decide +kernel
example : linInterp exRamp [1/2, 9/4] = 2 + dotL [3, -1/2] [1/2, 9/4] :=
  linInterp_affine_exact exRamp _ 2 [3, -1/2] exInside exRamp_affine
example : linInterp exRamp [1/2, 9/4] = 19/8 := by decide +kernel
-- outside the array nothing of this holds (zero fill): the hypothesis `InsideL` matters
example : linInterp exConst [1/2, 7/2] = 0 := by decide +kernel
-- the 3-4-5 rotation about (5/2, 3) with a translation: output voxel (1, 2) is read at (4/5, 13/5), inside the ramp
example := rigidLinear_eq_pullback exRamp exRqinv (vecOfList 2 [0, 1]) exC (vecOfList 2 [1, 2])
example := rigidLinear_interior exRamp exRqinv (vecOfList 2 [0, 1]) exC (vecOfList 2 [1, 2])
  ((insideL_iff _ _).2 ⟨rfl, by decide +kernel⟩)
example : List.ofFn (pullback exRqinv (vecOfList 2 [0, 1]) exC (vecOfList 2 [1, 2])) = [4/5, 13/5] ∧
    rigidLinear exRamp exRqinv (vecOfList 2 [0, 1]) exC (vecOfList 2 [1, 2]) = 2 + 3 * (4/5) - (13/5) / 2 := by decide +kernel
-- the mirror of axis 0 with an integer translation on the 4 × 5 array: grid model and order-1 model agree
example : gridTransform (fun i : Fin 2 => if i.val = 0 then 4 else 5) (matOfRows 2 [[-1, 0], [0, 1]]) (vecOfList 2 [1, 0])
    (fnOfArr exA2) (vecOfList 2 [0, 2]) = some 7 := by decide +kernel
example := rigidLinear_on_grid exA2 (fun i : Fin 2 => if i.val = 0 then 4 else 5) (by decide) (matOfRows 2 [[-1, 0], [0, 1]])
  (vecOfList 2 [1, 0]) (vecOfList 2 [0, 2]) 7 (by decide +kernel)
example := rigidLinear_grid_point exA2 (ident 2) (vecOfList 2 [1/2, -3/4]) exC2 (vecOfList 2 [3/2, 5/4]) (vecOfList 2 [1, 2])
  (by intro i; fin_cases i <;> decide +kernel)
example := rigidLinear_grid_perm (Arr.ofFn [5, 6, 5] (fun idx => ((idx.getD 0 0 + 10 * idx.getD 1 0 + 100 * idx.getD 2 0 : Nat) : Rat)))
  exN3 (by decide) exR3 exR3inv exQ3 exS3 exR3_signed exN3_inv exR3_inv exX3 (by decide)
example : rigidLinear exA2 (ident 2) (fun _ => 0) exC2 (fun i => (((vecOfList 2 [2, 2] : Vec 2 Int) i : Int) : Rat)) =
    exA2.getI (List.ofFn (vecOfList 2 [2, 2] : Vec 2 Int)) 0 := rigidLinear_identity exA2 _ exC2
example := rigidLinearArr_getD exA2 exRqinv exT exC [1, 2] rfl
example := rigidLinear_translation exA2 exT2 exC2 (vecOfList 2 [2, 1])
example : rigidLinear exA2 (ident 2) (fun i => ((vecOfList 2 [1, -1] i : Int) : Rat)) exC2 (fun i => ((vecOfList 2 [2, 1] i : Int) : Rat)) =
    exA2.getI (List.ofFn (fun i => vecOfList 2 [2, 1] i - vecOfList 2 [1, -1] i)) 0 :=
  rigidLinear_int_translation exA2 (vecOfList 2 [1, -1]) (vecOfList 2 [2, 1]) exC2
example : exA2.getI (List.ofFn (fun i => (vecOfList 2 [2, 1] : Vec 2 Int) i - (vecOfList 2 [1, -1] : Vec 2 Int) i)) 0 = 5 := by decide +kernel
example : SuppOK 5 (-3/4 : Rat) 1 ∧ ¬ SuppOK 5 (-3/4 : Rat) 0 ∧ ¬ SuppOK 4 (1/2 : Rat) 0 := by decide +kernel
example := (suppOK_iff 5 (-3/4) 1).1 (by decide +kernel)
example := rigidLinearArr_translation exA2 exT2 exC2 rfl [1, 2] rfl
example : (rigidLinearArr exA2 (ident 2) exT2 exC2).toList =
    [0, 0, 0, 0, 0, 9/8, 9/4, 5/8, 0, 0, 15/8, 41/8, 3/2, 0, 0, 3/4, 23/8, 7/8, 0, 0] := by decide +kernel
example := translation_affine_functional exA2 exT2 exC2 rfl exA2_supp 1 [2, -1]
example : mass (rigidLinearArr exA2 (ident 2) exT2 exC2) = mass exA2 ∧
    moment (rigidLinearArr exA2 (ident 2) exT2 exC2) 1 = moment exA2 1 + exT2 1 * mass exA2 :=
  translation_mass_and_first_moment exA2 exT2 exC2 rfl exA2_supp 1
example : mass exA2 = 17 ∧ moment exA2 0 = 26 ∧ moment exA2 1 = 29 ∧
    moment (rigidLinearArr exA2 (ident 2) exT2 exC2) 0 = 26 + 17 / 2 ∧
    moment (rigidLinearArr exA2 (ident 2) exT2 exC2) 1 = 29 - 3 * 17 / 4 := by decide +kernel
example := translation_centre_of_mass exA2 exT2 exC2 rfl exA2_supp (by decide +kernel) 0
example := (linInterp_global_bounds exA2 [3/2, 7/4]).1 (fun idx h => (exA2_range idx h).1)
example : |linInterp exA2 [3/2, 17/4]| ≤ 7 := (linInterp_global_bounds exA2 [3/2, 17/4]).2 7 (by norm_num)
  (fun idx h => abs_le.2 ⟨by have := (exA2_range idx h).1; linarith, (exA2_range idx h).2⟩)
example := linear_interpolation_any_field (K := Rat) [1/2, 9/4] (fun is => exRamp.getI is 0)
example : Relevant [(1/2 : Rat), 2] [1, 2] ∧ ¬ Relevant [(1/2 : Rat), 2] [1, 3] := by
  constructor
  · exact List.Forall₂.cons (Or.inr ⟨by decide +kernel, by decide +kernel⟩) (List.Forall₂.cons (Or.inl (by decide +kernel)) List.Forall₂.nil)
  · intro h
    rcases (List.forall₂_cons.1 (List.forall₂_cons.1 h).2).1 with h1 | ⟨_, h2⟩
    · revert h1; decide +kernel
    · revert h2; decide +kernel
example : (centerOfMass (rigidLinearArr exA2 (ident 2) exT2 exC2) 0).getD 1 0 = (centerOfMass exA2 0).getD 1 0 + exT2 1 :=
  translation_centerOfMass exA2 exT2 exC2 rfl exA2_supp (fun idx h => (exA2_range idx h).1) (by decide +kernel) 1
example : centerOfMass exA2 0 = [26/17, 29/17] ∧
    centerOfMass (rigidLinearArr exA2 (ident 2) exT2 exC2) 0 = [26/17 + 1/2, 29/17 - 3/4] := by decide +kernel
-- a voxel on the border loses mass under a half-voxel shift (its lower neighbour is read at −1/2, outside): the
-- support hypothesis matters
example : mass (rigidLinearArr (⟨[3], #[4, 0, 0]⟩ : Arr Rat) (ident 1) (fun _ => 1/2) (fun _ => 1)) = 2 := by decide +kernel

/-! ## `Density.rigid_transform`: the clean-up of interpolation noise does not depend on the absolute intensity

The property is scale-free (the transform is linear: identity, grid permutation, shift and centre-of-mass rule hold for
`s·f` iff they hold for `f`).  The wrapper's clean-up step compared `|v|` with machine epsilon *in absolute terms*
(`cleanNoiseAbs`): maps of small absolute intensity were emptied (`cleanNoiseAbs_old_defect`).  After the repair the
threshold is `eps · max|out|` (`cleanNoise`). -/
section clean
variable {K : Type} [Field K] [LinearOrder K] [IsStrictOrderedRing K]

/-- the clean-up commutes with every positive rescaling of the map, for every threshold factor -/
theorem cleanNoise_scale (eps s : K) (hs : 0 < s) (l : List K) :
    cleanNoise eps (l.map (s * ·)) = (cleanNoise eps l).map (s * ·) := by
  simp only [cleanNoise, absMax_scale s hs.le, List.map_map]
  apply List.map_congr_left
  intro v _
  simp only [Function.comp]
  have h : absV (s * v) < eps * (s * absMax l) ↔ absV v < eps * absMax l := by
    rw [absV_eq_abs, absV_eq_abs, abs_mul, abs_of_pos hs, show eps * (s * absMax l) = s * (eps * absMax l) by ring]
    exact mul_lt_mul_iff_right₀ hs
  by_cases hv : absV v < eps * absMax l
  · rw [if_pos (h.mpr hv), if_pos hv, mul_zero]
  · rw [if_neg (fun h' => hv (h.mp h')), if_neg hv]

/-- no voxel changes by more than `eps · max|out|` (float resolution of the largest value) -/
theorem cleanNoise_error (eps : K) (h0 : 0 ≤ eps) (l : List K) (i : Nat) (h : i < l.length) :
    |(cleanNoise eps l)[i]'(by simpa [cleanNoise] using h) - l[i]| ≤ eps * absMax l := by
  simp only [cleanNoise, List.getElem_map]
  by_cases hv : absV l[i] < eps * absMax l
  · rw [if_pos hv, zero_sub, abs_neg, ← absV_eq_abs]; exact hv.le
  · rw [if_neg hv, sub_self, abs_zero]; exact mul_nonneg h0 (absMax_nonneg l)

omit [IsStrictOrderedRing K] in
/-- values that are `0` or at least `eps · max|out|` in magnitude are kept: on data whose dynamic range is below
`1/eps` the wrapper returns exactly what the backend wrote (so `grid_perm`, `identity_id`, `int_translation_shift`
transfer to `Density.rigid_transform` unchanged) -/
theorem cleanNoise_id (eps : K) (l : List K) (h : ∀ v ∈ l, v = 0 ∨ eps * absMax l ≤ absV v) : cleanNoise eps l = l := by
  simp only [cleanNoise]
  conv_rhs => rw [← List.map_id l]
  apply List.map_congr_left
  intro v hv
  rcases h v hv with rfl | h'
  · simp
  · rw [if_neg (not_lt.mpr h')]; rfl

end clean

/-- before the repair: a float32 map (`eps = 2⁻²³`) with values `1·2⁻³⁰ … 9·2⁻³⁰` came back empty from the identity
transform, although the backend had written it unchanged; the repaired step keeps it -/
theorem cleanNoiseAbs_old_defect :
    cleanNoiseAbs (1 / 8388608 : Rat) [1 / 1073741824, 9 / 1073741824] = [0, 0] ∧
    cleanNoise (1 / 8388608 : Rat) [1 / 1073741824, 9 / 1073741824] = [1 / 1073741824, 9 / 1073741824] := by
  constructor <;> decide +kernel

example : cleanNoise (1 / 8 : Rat) ([1, 9, -2].map ((3 : Rat) * ·)) = (cleanNoise (1 / 8 : Rat) [1, 9, -2]).map ((3 : Rat) * ·) :=
  cleanNoise_scale _ _ (by norm_num) _
example : cleanNoise (1 / 8 : Rat) [1, 9, -2] = [0, 9, -2] := by decide +kernel
example := cleanNoise_error (1 / 8 : Rat) (by norm_num) [1, 9, -2] 0 (by decide)
example : cleanNoise (1 / 8388608 : Rat) [0, 3, -5, 9] = [0, 3, -5, 9] :=
  cleanNoise_id _ _ (by decide +kernel)

/-! ## composition, round trip, injectivity, translation composition, mask / coordinate relatives (deepening) -/

/-- composition of the forward maps of two rotations about the same centre is the forward map of the product `R₂·R₁` -/
theorem forward_comp {α : Type} [CommRing α] {d : Nat} (R1 R2 : Mat d α) (c x : Vec d α) :
    forward R2 (fun _ => 0) c (forward R1 (fun _ => 0) c x) = forward (matMul R2 R1) (fun _ => 0) c x := by
  funext i
  simp only [forward]
  have : (fun j => matVec R1 (fun j => x j + 0 - c j) j + c j + 0 - c j) = matVec R1 (fun j => x j + 0 - c j) := by
    funext j; ring
  rw [this, matVec_matVec]

/-- two pure translations compose additively, whatever the centre: shift `a` then shift `b` is shift `a + b` -/
theorem forward_translation_comp {α : Type} [CommRing α] {d : Nat} (a b c x : Vec d α) :
    forward (ident d) b c (forward (ident d) a c x) = forward (ident d) (fun i => a i + b i) c x := by
  funext i
  simp only [forward_translation_only]
  ring

/-- the pull-backs (what the resampler evaluates) compose contravariantly: reading through `B` and then through `A` about
the same centre is reading through `A·B`, the inverse of the product rotation -/
theorem pullback_comp {α : Type} [CommRing α] {d : Nat} (A B : Mat d α) (c o : Vec d α) :
    pullback A (fun _ => 0) c (pullback B (fun _ => 0) c o) = pullback (matMul A B) (fun _ => 0) c o := by
  funext i
  simp only [pullback]
  have : (fun j => matVec B (fun j => o j - c j) j + c j - 0 - c j) = matVec B (fun j => o j - c j) := by
    funext j; ring
  rw [this, matVec_matVec]

/-- the same on the grid in doubled coordinates about the geometric centre: if the second transform reads output voxel `o`
at the grid point `m`, the first transform reads `m` where the transform of the product matrix reads `o` -/
theorem pull2_comp {d : Nat} (n : Fin d → Nat) (A B : Mat d Int) (o m : Vec d Int)
    (hm : ∀ i, pull2 n B (fun _ => 0) o i = 2 * m i) :
    pull2 n A (fun _ => 0) m = pull2 n (matMul A B) (fun _ => 0) o := by
  funext i
  have h1 : (fun j => 2 * m j - ((n j : Int) - 1)) = matVec B (fun j => 2 * o j - ((n j : Int) - 1)) := by
    funext j
    have := hm j
    simp only [pull2] at this
    omega
  simp only [pull2]
  rw [h1, matVec_matVec]

/-- **composition of two grid transforms is the transform of the product**: `g` is the output of the first transform
(inverse matrix `A`), the second (inverse matrix `B`) reads voxel `o` at the voxel `m` of the array; then transforming `g`
gives at `o` exactly what the single transform with inverse matrix `A·B` gives on the original data -/
theorem grid_compose {α : Type} [Zero α] {d : Nat} (n : Fin d → Nat) (A B : Mat d Int) (f g : Vec d Int → α)
    (o m : Vec d Int) (hm : ∀ i, pull2 n B (fun _ => 0) o i = 2 * m i) (hmb : inBox n m = true)
    (hg : ∀ y, inBox n y = true → gridTransform n A (fun _ => 0) f y = some (g y)) :
    gridTransform n B (fun _ => 0) g o = gridTransform n (matMul A B) (fun _ => 0) f o := by
  have h1 : pull2 n B (fun _ => 0) o = fun i => 2 * m i := funext hm
  have h2 := hg m hmb
  have h3 : gridTransform n B (fun _ => 0) g o = some (g m) := by
    simp only [gridTransform, h1, resample_double, hmb]
    rfl
  rw [h3, ← h2]
  simp only [gridTransform, pull2_comp n A B o m hm]

/-- **round trip**: transforming with a grid rotation and then with its inverse (signed permutation leaving the shape
invariant, e.g. any axis-aligned rotation of a cubic grid) returns the original array exactly, voxel by voxel -/
theorem grid_round_trip {α : Type} [Zero α] {d : Nat} (n : Fin d → Nat) (A B : Mat d Int)
    (q : Fin d → Fin d) (s : Fin d → Int) (hB : IsSignedPerm B q s) (hn : ∀ i, n (q i) = n i)
    (hAB : matMul A B = ident d) (f g : Vec d Int → α)
    (hg : ∀ y, inBox n y = true → gridTransform n A (fun _ => 0) f y = some (g y))
    (o : Vec d Int) (ho : inBox n o = true) :
    gridTransform n B (fun _ => 0) g o = some (f o) := by
  obtain ⟨m, hmb, hm⟩ := push2_signedPerm_box hB n hn o ho
  have hm' : ∀ i, pull2 n B (fun _ => 0) o i = 2 * m i := by
    intro i; rw [pull2_eq_push2]; exact hm i
  rw [grid_compose n A B f g o m hm' hmb hg, hAB]
  exact identity_id n f o ho

/-- **no value is duplicated**: for an invertible integer matrix (any integer translation) two different output voxels are
never read from the same source position; with `grid_perm` / `grid_perm_onto` the values of a grid rotation are a
rearrangement of the input values, so their total (mass) is unchanged -/
theorem pull2_injective {d : Nat} (n : Fin d → Nat) (R rinv : Mat d Int) (t o o' : Vec d Int)
    (hinv : matMul R rinv = ident d) (h : pull2 n rinv t o = pull2 n rinv t o') : o = o' := by
  have h1 : matVec rinv (fun j => 2 * o j - ((n j : Int) - 1)) = matVec rinv (fun j => 2 * o' j - ((n j : Int) - 1)) := by
    funext i
    have := congrFun h i
    simp only [pull2] at this
    omega
  have h2 : matVec R (matVec rinv (fun j => 2 * o j - ((n j : Int) - 1))) =
      matVec R (matVec rinv (fun j => 2 * o' j - ((n j : Int) - 1))) := by rw [h1]
  funext i
  have h3 := congrFun h2 i
  simp only [matVec_matVec, hinv, matVec_ident] at h3
  omega

/-- **translation composition with zero fill**: shifting by `a` and then by `b` (`g` = output of the first shift) gives
`f[o − b − a]` when both the intermediate position `o − b` and the source `o − b − a` are voxels of the array, else `0`:
data that left the grid at the intermediate step does not come back -/
theorem int_translation_compose {α : Type} [Zero α] {d : Nat} (n : Fin d → Nat) (a b : Vec d Int)
    (f g : Vec d Int → α) (hg : ∀ y, inBox n y = true → gridTransform n (ident d) a f y = some (g y)) (o : Vec d Int) :
    gridTransform n (ident d) b g o =
      some (if inBox n (fun i => o i - b i) then
        (if inBox n (fun i => o i - b i - a i) then f (fun i => o i - b i - a i) else 0) else 0) := by
  rw [int_translation_shift]
  split
  · rename_i hb
    have h2 := hg _ hb
    rw [int_translation_shift] at h2
    simp only [Option.some.injEq] at h2
    rw [← h2]
  · rfl

/-- … so wherever the intermediate position is inside the array the two shifts are the single shift by `a + b` -/
theorem int_translation_compose_add {α : Type} [Zero α] {d : Nat} (n : Fin d → Nat) (a b : Vec d Int)
    (f g : Vec d Int → α) (hg : ∀ y, inBox n y = true → gridTransform n (ident d) a f y = some (g y)) (o : Vec d Int)
    (hb : inBox n (fun i => o i - b i) = true) :
    gridTransform n (ident d) b g o = gridTransform n (ident d) (fun i => a i + b i) f o := by
  rw [int_translation_compose n a b f g hg o, if_pos hb, int_translation_shift]
  have : (fun i => o i - (a i + b i)) = fun i => o i - b i - a i := by funext i; omega
  rw [this]

/-- **the mask is moved by exactly the same index map, pointwise**: for every output voxel either both data and mask are
interpolated, or there is one source voxel `src` that both are read from (both zero-filled when `src` is outside) -/
theorem mask_pointwise_same_source {α : Type} [Zero α] {d : Nat} (n : Fin d → Nat) (rinv : Mat d Int) (t : Vec d Int)
    (f g : Vec d Int → α) (o : Vec d Int) :
    (gridTransform n rinv t f o = none ∧ gridTransform n rinv t g o = none) ∨
    ∃ src : Vec d Int, (∀ i, pull2 n rinv t o i = 2 * src i) ∧
      gridTransform n rinv t f o = some (if inBox n src then f src else 0) ∧
      gridTransform n rinv t g o = some (if inBox n src then g src else 0) := by
  by_cases hev : isEven (pull2 n rinv t o) = true
  · right
    obtain ⟨src, hs⟩ : ∃ src : Vec d Int, pull2 n rinv t o = fun i => 2 * src i := by
      refine ⟨fun i => pull2 n rinv t o i / 2, ?_⟩
      funext i
      have := (isEven_iff _).mp hev i
      show pull2 n rinv t o i = 2 * (pull2 n rinv t o i / 2)
      omega
    refine ⟨src, fun i => congrFun hs i, ?_, ?_⟩ <;> simp only [gridTransform, hs, resample_double]
  · left
    constructor <;> simp only [gridTransform, resample, hev] <;> rfl

/-- coordinate version, default branch: the translation enters additively for data and mask — transforming with `t` is
transforming with `0` and adding `t` to every point (any matrix, any centre) -/
theorem coords_translation_additive {K : Type} [Field K] {N M d : Nat} (x : Fin N → Vec d K)
    (R : Mat d K) (t : Vec d K) (center : Option (Vec d K)) (mask : Fin M → Vec d K) (i : Fin d) :
    (∀ k, (coordsTransform x R t center mask).1 k i = (coordsTransform x R (fun _ => 0) center mask).1 k i + t i) ∧
    (∀ k, (coordsTransform x R t center mask).2 k i = (coordsTransform x R (fun _ => 0) center mask).2 k i + t i) := by
  constructor <;> intro k <;> simp only [coordsTransform, coordsCore] <;> ring

/-- coordinate version, default branch: a mask point keeps its position relative to every coordinate point up to the
rotation, `mask'ₖ − x'ₗ = R(maskₖ − xₗ)` (the mask is moved by the same rigid map) -/
theorem coords_mask_relative {K : Type} [Field K] {N M d : Nat} (x : Fin N → Vec d K)
    (R : Mat d K) (t : Vec d K) (center : Option (Vec d K)) (mask : Fin M → Vec d K) (k : Fin M) (l : Fin N) (i : Fin d) :
    (coordsTransform x R t center mask).2 k i - (coordsTransform x R t center mask).1 l i =
      matVec R (fun j => mask k j - x l j) i := by
  generalize hc : center.getD (mean x) = c
  have h2 := matVec_sub R (fun j => mask k j - c j) (fun j => x l j - c j) i
  have h3 : (fun j => (mask k j - c j) - (x l j - c j)) = fun j => mask k j - x l j := by funext j; ring
  rw [h3] at h2
  show (matVec R (fun j => mask k j - (center.getD (mean x)) j) i + _) - (matVec R (fun j => x l j - (center.getD (mean x)) j) i + _) = _
  rw [hc, h2]; ring

/-- … hence squared distances between mask points and coordinate points are preserved when `RᵀR = 1` -/
theorem coords_mask_dist_preserved {K : Type} [Field K] {N M d : Nat} (x : Fin N → Vec d K)
    (R : Mat d K) (hR : matMul (transpose R) R = ident d) (t : Vec d K) (center : Option (Vec d K))
    (mask : Fin M → Vec d K) (k : Fin M) (l : Fin N) :
    ∑ i, ((coordsTransform x R t center mask).2 k i - (coordsTransform x R t center mask).1 l i) *
         ((coordsTransform x R t center mask).2 k i - (coordsTransform x R t center mask).1 l i)
      = ∑ i, (mask k i - x l i) * (mask k i - x l i) := by
  simp only [coords_mask_relative]
  exact matVec_norm_sq R hR _

/-- `use_geometric_center=True` branch: the mask is moved by the same map as the coordinates, `mask'ₖ − x'ₗ = R(maskₖ − xₗ)` -/
theorem coords_geo_mask_relative {K : Type} [Field K] [Max K] [Min K] {N M d : Nat} (hf : K → K)
    (x : Fin (N+1) → Vec d K) (R : Mat d K) (t : Vec d K) (center : Option (Vec d K)) (mask : Fin M → Vec d K)
    (k : Fin M) (l : Fin (N+1)) (i : Fin d) :
    (coordsTransformGeo hf x R t center mask).2 k i - (coordsTransformGeo hf x R t center mask).1 l i =
      matVec R (fun j => mask k j - x l j) i := by
  have h2 := matVec_sub R (mask k) (x l) i
  show (matVec R (mask k) i + _) - (matVec R (x l) i + _) = _
  rw [h2]; ring

/-- … and mask-to-coordinate squared distances are preserved by the `use_geometric_center=True` branch when `RᵀR = 1` -/
theorem coords_geo_mask_dist_preserved {K : Type} [Field K] [Max K] [Min K] {N M d : Nat} (hf : K → K)
    (x : Fin (N+1) → Vec d K) (R : Mat d K) (hR : matMul (transpose R) R = ident d) (t : Vec d K)
    (center : Option (Vec d K)) (mask : Fin M → Vec d K) (k : Fin M) (l : Fin (N+1)) :
    ∑ i, ((coordsTransformGeo hf x R t center mask).2 k i - (coordsTransformGeo hf x R t center mask).1 l i) *
         ((coordsTransformGeo hf x R t center mask).2 k i - (coordsTransformGeo hf x R t center mask).1 l i)
      = ∑ i, (mask k i - x l i) * (mask k i - x l i) := by
  simp only [coords_geo_mask_relative]
  exact matVec_norm_sq R hR _

/-- `use_geometric_center=True` branch: centre and translation enter additively — the output is the output for centre `0`
and translation `0`, moved by `centre + t` (data and mask alike) -/
theorem coords_geo_centre_translation_additive {K : Type} [Field K] [Max K] [Min K] {N M d : Nat} (hf : K → K)
    (x : Fin (N+1) → Vec d K) (R : Mat d K) (t c : Vec d K) (mask : Fin M → Vec d K) (i : Fin d) :
    (∀ k, (coordsTransformGeo hf x R t (some c) mask).1 k i =
      (coordsTransformGeo hf x R (fun _ => 0) (some (fun _ => 0)) mask).1 k i + c i + t i) ∧
    (∀ k, (coordsTransformGeo hf x R t (some c) mask).2 k i =
      (coordsTransformGeo hf x R (fun _ => 0) (some (fun _ => 0)) mask).2 k i + c i + t i) := by
  constructor <;> intro k <;> simp only [coordsTransformGeo, coordsGeoCore, Option.getD_some] <;> ring

/-! ### total mass (`S` is the index box as a finite set) -/

/-- **mass is never increased by an integer shift of non-negative data** (zero fill only removes what leaves the grid) -/
theorem shift_mass_le {K : Type} [Field K] [LinearOrder K] [IsStrictOrderedRing K] {d : Nat} (n : Fin d → Nat)
    (S : Finset (Vec d Int)) (hS : ∀ x, x ∈ S ↔ inBox n x = true) (f : Vec d Int → K) (hf : ∀ x, 0 ≤ f x)
    (t : Vec d Int) :
    ∑ o ∈ S, (gridTransform n (ident d) t f o).getD 0 ≤ ∑ x ∈ S, f x := by
  simp only [int_translation_shift, Option.getD_some]
  rw [← Finset.sum_filter]
  have hinj : Set.InjOn (fun (o : Vec d Int) => (fun i => o i - t i : Vec d Int))
      ↑(S.filter (fun o => inBox n (fun i => o i - t i) = true)) := by
    intro a _ b _ h
    funext i
    have := congrFun h i
    simp only at this
    omega
  rw [← Finset.sum_image (f := f) hinj]
  apply Finset.sum_le_sum_of_subset_of_nonneg
  · intro x hx
    obtain ⟨o, ho, rfl⟩ := Finset.mem_image.mp hx
    exact (hS _).mpr (Finset.mem_filter.mp ho).2
  · intro x _ _
    exact hf x

/-- **total mass is preserved by every grid rotation** (signed permutation leaving the shape invariant, e.g. any
axis-aligned rotation of a cubic grid): the output values are a rearrangement of the input values -/
theorem grid_mass_preserved {K : Type} [Field K] {d : Nat} (n : Fin d → Nat) (R rinv : Mat d Int)
    (q : Fin d → Fin d) (s : Fin d → Int) (hRi : IsSignedPerm rinv q s) (hn : ∀ i, n (q i) = n i)
    (hinv : matMul R rinv = ident d) (S : Finset (Vec d Int)) (hS : ∀ x, x ∈ S ↔ inBox n x = true)
    (f : Vec d Int → K) :
    ∑ o ∈ S, (gridTransform n rinv (fun _ => 0) f o).getD 0 = ∑ x ∈ S, f x := by
  have key : ∀ o, ∃ x, o ∈ S → (x ∈ S ∧ (∀ i, push2 n R (fun _ => 0) x i = 2 * o i) ∧
      gridTransform n rinv (fun _ => 0) f o = some (f x)) := by
    intro o
    by_cases ho : o ∈ S
    · obtain ⟨x, h1, h2, h3⟩ := grid_perm_onto n R rinv q s hRi hn hinv f o ((hS o).mp ho)
      exact ⟨x, fun _ => ⟨(hS x).mpr h1, h2, h3⟩⟩
    · exact ⟨o, fun h => absurd h ho⟩
  choose σ hσ using key
  have h1 : ∑ o ∈ S, (gridTransform n rinv (fun _ => 0) f o).getD 0 = ∑ o ∈ S, f (σ o) :=
    Finset.sum_congr rfl (fun o ho => by rw [(hσ o ho).2.2]; rfl)
  have hinj : Set.InjOn σ ↑S := by
    intro a ha b hb hab
    funext i
    have e1 := (hσ a (Finset.mem_coe.mp ha)).2.1 i
    have e2 := (hσ b (Finset.mem_coe.mp hb)).2.1 i
    rw [hab] at e1
    omega
  have himg : S.image σ = S :=
    Finset.eq_of_subset_of_card_le
      (by intro x hx; obtain ⟨o, ho, rfl⟩ := Finset.mem_image.mp hx; exact (hσ o ho).1)
      (by rw [Finset.card_image_of_injOn hinj])
  rw [h1, ← Finset.sum_image (f := f) hinj, himg]

/-- … and **exactly preserved** by an integer shift when no non-zero voxel leaves the grid (any sign of the data) -/
theorem shift_mass_eq {K : Type} [Field K] {d : Nat} (n : Fin d → Nat)
    (S : Finset (Vec d Int)) (hS : ∀ x, x ∈ S ↔ inBox n x = true) (f : Vec d Int → K) (t : Vec d Int)
    (hsupp : ∀ x, inBox n x = true → f x ≠ 0 → inBox n (fun i => x i + t i) = true) :
    ∑ o ∈ S, (gridTransform n (ident d) t f o).getD 0 = ∑ x ∈ S, f x := by
  simp only [int_translation_shift, Option.getD_some]
  rw [← Finset.sum_filter]
  have hinj : Set.InjOn (fun (o : Vec d Int) => (fun i => o i - t i : Vec d Int))
      ↑(S.filter (fun o => inBox n (fun i => o i - t i) = true)) := by
    intro a _ b _ h
    funext i
    have := congrFun h i
    simp only at this
    omega
  rw [← Finset.sum_image (f := f) hinj]
  apply Finset.sum_subset
  · intro x hx
    obtain ⟨o, ho, rfl⟩ := Finset.mem_image.mp hx
    exact (hS _).mpr (Finset.mem_filter.mp ho).2
  · intro x hx hnot
    by_contra hne
    apply hnot
    have hb := hsupp x ((hS x).mp hx) hne
    have hx' : (fun i => (fun i => x i + t i) i - t i) = x := by funext i; simp only; omega
    refine Finset.mem_image.mpr ⟨fun i => x i + t i, Finset.mem_filter.mpr ⟨(hS _).mpr hb, ?_⟩, hx'⟩
    rw [hx']; exact (hS x).mp hx

/-- **composition of two grid rotations, whole array**: when the second inverse matrix is a signed permutation leaving the
shape invariant, transforming the output `g` of the first transform equals, at every voxel, the single transform of the
original data with the product matrix (no interpolation at either step) -/
theorem grid_compose_signedPerm {α : Type} [Zero α] {d : Nat} (n : Fin d → Nat) (A B : Mat d Int)
    (q : Fin d → Fin d) (s : Fin d → Int) (hB : IsSignedPerm B q s) (hn : ∀ i, n (q i) = n i)
    (f g : Vec d Int → α) (hg : ∀ y, inBox n y = true → gridTransform n A (fun _ => 0) f y = some (g y))
    (o : Vec d Int) (ho : inBox n o = true) :
    gridTransform n B (fun _ => 0) g o = gridTransform n (matMul A B) (fun _ => 0) f o := by
  obtain ⟨m, hmb, hm⟩ := push2_signedPerm_box hB n hn o ho
  exact grid_compose n A B f g o m (fun i => by rw [pull2_eq_push2]; exact hm i) hmb hg

/-- `out.max(axis=1)` of a set shifted by a common vector -/
theorem maxFin_add_const {K : Type} [Field K] [LinearOrder K] [IsStrictOrderedRing K] :
    ∀ (N : Nat) (f : Fin (N+1) → K) (b : K), maxFin N (fun k => f k + b) = maxFin N f + b
  | 0, _, _ => rfl
  | N+1, f, b => by
      have ih : maxFin N (fun k => f k.castSucc + b) = maxFin N (fun k => f k.castSucc) + b :=
        maxFin_add_const N _ b
      show max (maxFin N (fun k => f k.castSucc + b)) (f (Fin.last (N+1)) + b) =
        max (maxFin N (fun k => f k.castSucc)) (f (Fin.last (N+1))) + b
      rw [ih, max_add_add_right]

/-- `out.min(axis=1)` of a set shifted by a common vector -/
theorem minFin_add_const {K : Type} [Field K] [LinearOrder K] [IsStrictOrderedRing K] :
    ∀ (N : Nat) (f : Fin (N+1) → K) (b : K), minFin N (fun k => f k + b) = minFin N f + b
  | 0, _, _ => rfl
  | N+1, f, b => by
      have ih : minFin N (fun k => f k.castSucc + b) = minFin N (fun k => f k.castSucc) + b :=
        minFin_add_const N _ b
      show min (minFin N (fun k => f k.castSucc + b)) (f (Fin.last (N+1)) + b) =
        min (minFin N (fun k => f k.castSucc)) (f (Fin.last (N+1))) + b
      rw [ih, min_add_add_right]

/-- **`use_geometric_center=True` places the bounding box**: with `ext` the extent of the rotated set along axis `i`, the
transformed set has its maximum at `centre + t + ext // 2` and its minimum at `centre + t + ext // 2 − ext`, i.e. the
box is centred on `centre + t` up to the floor division of the code -/
theorem coords_geo_bounding_box {K : Type} [Field K] [LinearOrder K] [IsStrictOrderedRing K] {N M d : Nat} (hf : K → K)
    (x : Fin (N+1) → Vec d K) (R : Mat d K) (t : Vec d K) (center : Option (Vec d K)) (mask : Fin M → Vec d K)
    (i : Fin d) :
    maxFin N (fun k => (coordsTransformGeo hf x R t center mask).1 k i) =
      (center.getD (mean x)) i + t i +
        hf (maxFin N (fun k => matVec R (x k) i) - minFin N (fun k => matVec R (x k) i)) ∧
    minFin N (fun k => (coordsTransformGeo hf x R t center mask).1 k i) =
      (center.getD (mean x)) i + t i +
        hf (maxFin N (fun k => matVec R (x k) i) - minFin N (fun k => matVec R (x k) i)) -
        (maxFin N (fun k => matVec R (x k) i) - minFin N (fun k => matVec R (x k) i)) := by
  have hout : (fun k => (coordsTransformGeo hf x R t center mask).1 k i) = fun k => matVec R (x k) i +
      (t i + ((center.getD (mean x)) i - maxFin N (fun k => matVec R (x k) i) +
        hf (maxFin N (fun k => matVec R (x k) i) - minFin N (fun k => matVec R (x k) i)))) := rfl
  rw [hout, maxFin_add_const, minFin_add_const]
  constructor <;> ring

/-- **shift there and back**: shifting by `t` and then by `−t` returns `f[o]` at every voxel whose intermediate position
`o + t` stayed on the grid, and `0` (zero fill, data lost) at the others -/
theorem int_translation_round_trip {α : Type} [Zero α] {d : Nat} (n : Fin d → Nat) (t : Vec d Int)
    (f g : Vec d Int → α) (hg : ∀ y, inBox n y = true → gridTransform n (ident d) t f y = some (g y)) (o : Vec d Int)
    (ho : inBox n o = true) :
    gridTransform n (ident d) (fun i => - t i) g o = some (if inBox n (fun i => o i + t i) then f o else 0) := by
  rw [int_translation_compose n t (fun i => - t i) f g hg o]
  have h1 : (fun i => o i - -t i) = fun i => o i + t i := by funext i; omega
  have h2 : (fun i => o i - -t i - t i) = o := by funext i; omega
  rw [h1, h2, ho]
  rfl

/-- **data and mask values land on the same voxel**: whenever the image of voxel `x` is the grid point `y`, the data
output at `y` is the data at `x` and the mask output at `y` is the mask at `x` (`rigid_transform` with `arr_mask`) -/
theorem mask_value_lands {α : Type} [Zero α] {d : Nat} (n : Fin d → Nat) (R rinv : Mat d Int) (t x y : Vec d Int)
    (f g : Vec d Int → α) (hinv : matMul rinv R = ident d) (hy : ∀ i, push2 n R t x i = 2 * y i) :
    (rigidGrid n rinv t f (some g)).1 y = some (if inBox n x then f x else 0) ∧
    (rigidGrid n rinv t f (some g)).2.map (fun G => G y) = some (some (if inBox n x then g x else 0)) := by
  refine ⟨grid_value_lands n R rinv t x y f hinv hy, ?_⟩
  simp only [rigidGrid, Option.map_some]
  rw [grid_value_lands n R rinv t x y g hinv hy]

/-- coordinate version with the identity matrix: a pure translation of every point and every mask point by `t`
(in particular the identity transform leaves coordinates and mask unchanged) -/
theorem coords_pure_translation {K : Type} [Field K] {N M d : Nat} (hN : (N : K) ≠ 0) (x : Fin N → Vec d K)
    (t : Vec d K) (mask : Fin M → Vec d K) (i : Fin d) :
    (∀ k, (coordsTransform x (ident d) t none mask).1 k i = x k i + t i) ∧
    (∀ k, (coordsTransform x (ident d) t none mask).2 k i = mask k i + t i) := by
  constructor <;> intro k
  · simp only [coords_formula_default hN, matVec_ident]; ring
  · simp only [coords_mask_same_map hN, matVec_ident, Option.getD_none]; ring

-- such an `S` exists for every shape
example {d : Nat} (n : Fin d → Nat) : ∃ S : Finset (Vec d Int), ∀ x, x ∈ S ↔ inBox n x = true :=
  ⟨Fintype.piFinset (fun i => Finset.Ico (0 : Int) (n i)), fun x => by
    rw [inBox_iff, Fintype.mem_piFinset]; simp only [Finset.mem_Ico]⟩

-- non-vacuity of the new hypotheses: the quarter-turn instance; `g` = output of the first transform
example : ∃ g : Vec 3 Int → Int, ∀ y, inBox exN3 y = true → gridTransform exN3 exR3 (fun _ => 0) exF3 y = some (g y) :=
  ⟨fun y => (gridTransform exN3 exR3 (fun _ => 0) exF3 y).getD 0, fun y _ => by
    obtain ⟨src, h⟩ := grid_never_interpolates exN3 exR3 exQ3 exS3 exR3_signed exN3_inv (fun _ => 0) exF3 y
    simp only [h, Option.getD_some]⟩
example : gridTransform exN3 exR3inv (fun _ => 0) (fun y => (gridTransform exN3 exR3 (fun _ => 0) exF3 y).getD 0) exX3 =
    some (exF3 exX3) :=
  grid_round_trip exN3 exR3 exR3inv exQ3 exS3inv exR3inv_signed exN3_inv exR3_inv' exF3 _ (fun y _ => by
    obtain ⟨src, h⟩ := grid_never_interpolates exN3 exR3 exQ3 exS3 exR3_signed exN3_inv (fun _ => 0) exF3 y
    simp only [h, Option.getD_some]) exX3 (by decide)
example : pull2 exN3 exR3inv (vecOfList 3 [1, 0, 2]) exX3 ≠ pull2 exN3 exR3inv (vecOfList 3 [1, 0, 2]) (vecOfList 3 [4, 5, 3]) :=
  fun h => absurd (congrFun (pull2_injective exN3 exR3 exR3inv _ _ _ exR3_inv' h) 0) (by decide)
example : gridTransform exN3 (ident 3) (vecOfList 3 [0, 1, 0])
      (fun y => (gridTransform exN3 (ident 3) (vecOfList 3 [1, 2, 1]) exF3 y).getD 0) exX3 =
    gridTransform exN3 (ident 3) (fun i => vecOfList 3 [1, 2, 1] i + vecOfList 3 [0, 1, 0] i) exF3 exX3 :=
  int_translation_compose_add exN3 _ _ exF3 _ (fun y _ => by rw [int_translation_shift]; rfl) exX3 (by decide)
example := coords_mask_dist_preserved exPts exRq exRq_orth exT none (fun _ : Fin 1 => exC) 0 2
example : ∀ x, inBox exN3 x = true → exF3 x ≠ 0 → inBox exN3 (fun i => x i + (fun _ => (0 : Int)) i) = true :=
  fun x h _ => by simpa using h
example := mask_value_lands exN3 exR3 exR3inv (fun _ => 0) exX3 (vecOfList 3 [4, 5, 3]) exF3 (fun _ => (1 : Int)) exR3_inv
  (by intro i; fin_cases i <;> rfl)
example := coords_pure_translation (K := Rat) (N := 3) (by norm_num) exPts exT (fun _ : Fin 1 => exC) 0
example := coords_geo_bounding_box halfFloorRat exPts exRq exT none (fun _ : Fin 1 => exC) 0
example := coords_geo_mask_dist_preserved halfFloorRat exPts exRq exRq_orth exT none (fun _ : Fin 1 => exC) 0 2


end Pm.C06
