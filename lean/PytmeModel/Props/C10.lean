import PytmeModel.Model.C10
import PytmeModel.Proofs.C10
import PytmeModel.Model.C10K
import PytmeModel.Proofs.C10K

/-! # C10 — atoms are deposited on the grid at the right voxel and no mass is lost

All statements are about the executable model `Model/C10.lean` (exact rationals for coordinates, origin,
sampling rate; integer weights), for every structure, rank, shape, origin, rate and chain subset. -/
namespace Pm.C10

/-! ## rounding: `rint` is the nearest integer, ties to even -/

/-- the voxel index is within half a voxel of the exact quotient -/
theorem rint_nearest (q : Rat) : q - 1/2 ≤ (rint q : Rat) ∧ (rint q : Rat) ≤ q + 1/2 := rint_bounds q

/-- … and it is *the* integer strictly within half a voxel whenever there is one (so `floor`, `ceil` or
truncation in its place would be a different function) -/
theorem rint_is_the_nearest (q : Rat) (z : Int) (h1 : q - 1/2 < (z : Rat)) (h2 : (z : Rat) < q + 1/2) :
    rint q = z := rint_unique q z h1 h2

/-- exactly between two integers the even one is taken -/
theorem rint_tie_even (q : Rat) (h : isTie q = true) : rint q % 2 = 0 := by
  have ht := (isTie_iff q).mp h
  rcases rint_cases q with ⟨c, _⟩ | ⟨c, _⟩ | ⟨_, p, e⟩ | ⟨_, p, e⟩
  · linarith
  · linarith
  · rw [e]; exact p
  · rw [e]; omega

example : rint (5/2) = 2 ∧ rint (7/2) = 4 ∧ rint (-5/2) = -2 ∧ rint (9/4) = 2 ∧ rint (-11/4) = -3 := by
  decide +kernel

/-! ## the accumulating deposit -/

/-- `np.add.at`: the value of a voxel is the summed weight of exactly the entries addressed to it
(duplicates accumulate, nothing else is touched) -/
theorem deposit_voxel (shape : List Nat) (ps : List (List Nat × Int))
    (hps : ∀ pw ∈ ps, inShape shape pw.1 = true) (v : List Nat) (hv : inShape shape v = true) :
    (deposit shape ps).getD v 0 = ((ps.filter (fun pw => pw.1 = v)).map (·.2)).sum := by
  rw [deposit_eq, foldl_getD ps (zeros shape) (zeros_size shape) hps v hv, zeros_getD]; simp

theorem deposit_total (shape : List Nat) (ps : List (List Nat × Int))
    (hps : ∀ pw ∈ ps, inShape shape pw.1 = true) :
    (deposit shape ps).data.toList.sum = (ps.map (·.2)).sum := by
  rw [deposit_eq, foldl_sum ps (zeros shape) (zeros_size shape) hps, zeros_sum]; simp

theorem deposit_shape (shape : List Nat) (ps : List (List Nat × Int)) : (deposit shape ps).shape = shape := by
  rw [deposit_eq, foldl_shape]; rfl

example : (deposit [2, 2] [([0, 1], 5), ([1, 1], 7), ([0, 1], 3)]).toList = [0, 8, 0, 7] := by decide

/-! ## `to_volume`: voxel clause, total, outside count -/

/-- the frame `to_volume` works in -/
def frameOf (nd : Nat) (sub : List Atom) (shape : Option (List Int)) (r : List Rat) (origin : Option (List Rat)) : Frame :=
  frame nd (sub.map (fun a => a.xyz.reverse)) shape r origin

theorem toVolume_voxel (nd : Nat) (sub : List Atom) (shape : Option (List Int)) (r : List Rat)
    (origin : Option (List Rat)) (wt : WType) (v : List Nat)
    (hv : inShape (toNats (toVolumeCore nd sub shape r origin wt).shape) v = true) :
    (toVolumeCore nd sub shape r origin wt).grid.getD v 0 =
      ((sub.filter (fun a => posOf r (frameOf nd sub shape r origin) a.xyz.reverse = v.map Int.ofNat)).map
        (fun a => weightOf wt a.elem)).sum := by
  unfold toVolumeCore at hv ⊢
  simp only at hv ⊢
  rw [deposit_voxel _ _ (kept_inShape _ _) v hv, sum_kept_eq _ _ _ hv]
  unfold placed frameOf
  rw [List.filter_map, List.map_map]
  rfl

theorem toVolume_total (nd : Nat) (sub : List Atom) (shape : Option (List Int)) (r : List Rat)
    (origin : Option (List Rat)) (wt : WType) :
    (toVolumeCore nd sub shape r origin wt).grid.data.toList.sum =
      ((sub.filter (fun a => inBox (toVolumeCore nd sub shape r origin wt).shape
          (posOf r (frameOf nd sub shape r origin) a.xyz.reverse))).map (fun a => weightOf wt a.elem)).sum := by
  unfold toVolumeCore
  simp only
  rw [deposit_total _ _ (kept_inShape _ _)]
  unfold placed frameOf
  rw [List.filter_map, List.map_map, List.map_map]
  rfl

theorem outside_count_exact (nd : Nat) (sub : List Atom) (shape : Option (List Int)) (r : List Rat)
    (origin : Option (List Rat)) (wt : WType) :
    (toVolumeCore nd sub shape r origin wt).outside =
      (sub.filter (fun a => !inBox (toVolumeCore nd sub shape r origin wt).shape
          (posOf r (frameOf nd sub shape r origin) a.xyz.reverse))).length := by
  unfold toVolumeCore
  simp only
  unfold placed frameOf
  rw [List.filter_map, List.length_map, length_filter_not]
  rfl


example :
    let sub : List Atom := [⟨[0, 0, 0], "C", "A"⟩, ⟨[1/4, 0, 0], "N", "B"⟩, ⟨[5, 1, 1], "O", "A"⟩, ⟨[0, 0, 9], "Xx", "A"⟩]
    let out := toVolumeCore 3 sub (some [2, 2, 2]) [1, 1, 1] (some [0, 0, 0]) .atomicNumber
    out.outside = 2 ∧ out.grid.toList = [13, 0, 0, 0, 0, 0, 0, 0] ∧ out.kept.map (·.1) = [[0, 0, 0], [0, 0, 0]] := by
  decide +kernel

/-! ## the returned origin and rate reproduce the placement -/

/-- origin given with a shape, or origin derived: no shift — the returned origin is the one used for rounding,
so the stored position of every atom IS `round((zyx − returned origin)/rate)`, ties included -/
theorem returned_origin_consistent_noshift (nd : Nat) (sub : List Atom) (shape : Option (List Int)) (r : List Rat)
    (origin : Option (List Rat)) (h : (origin.isSome && shape.isNone) = false) (c : List Rat) (hc : c.length ≤ nd) :
    idxOf (frameOf nd sub shape r origin).origin r c = posOf r (frameOf nd sub shape r origin) c := by
  unfold frameOf posOf
  obtain ⟨h1, h2⟩ := frame_noshift nd (sub.map (fun a => a.xyz.reverse)) shape r origin h
  rw [h1, h2, subPos_zeros]
  exact Nat.le_trans (zip3_length_le _ _ _ _) hc

/-- origin given, shape derived: positions are moved by `left_shift` whole voxels and the returned origin is
`origin + left_shift·rate`.  On every axis where the quotient is not exactly a half-integer, or the shift is even,
the stored position is `round((zyx − returned origin)/rate)`. -/
theorem derived_origin_consistent (nd : Nat) (sub : List Atom) (r o : List Rat) (c : List Rat)
    (hr : ∀ x ∈ r, x ≠ 0) (ht : tieFree c o (frameOf nd sub none r (some o)).shift r = true) :
    idxOf (frameOf nd sub none r (some o)).origin r c = posOf r (frameOf nd sub none r (some o)) c := by
  have e1 : (frameOf nd sub none r (some o)).origin0 = o := by simp [frameOf, frame]
  have e2 : (frameOf nd sub none r (some o)).origin =
      zip3 (fun (o : Rat) (l : Int) (r : Rat) => o + (l : Rat) * r) o (frameOf nd sub none r (some o)).shift r := by
    simp [frameOf, frame]
  unfold posOf
  rw [e2, e1]
  exact idx_shift c o _ r hr ht

/-- today's behaviour at an exact tie with an odd shift: atoms x = −6/5 and x = 1/2, origin 0, rate 1 — the second
atom is stored in voxel 1 of an axis of extent 2, but `round((1/2 − returned origin)/1) = round(3/2) = 2`. -/
theorem derived_origin_tie_current_defect :
    let sub : List Atom := [⟨[-6/5, 0, 0], "C", "A"⟩, ⟨[1/2, 1, 2], "N", "A"⟩]
    let out := toVolumeCore 3 sub none [1, 1, 1] (some [0, 0, 0]) .atomicWeight
    out.origin = [0, 0, -1] ∧ out.shape = [3, 2, 2] ∧ out.kept.map (·.1) = [[0, 0, 0], [2, 1, 1]] ∧
    idxOf out.origin out.rate [2, 1, 1/2] = [2, 1, 2] := by
  decide +kernel

/-- at exact ties, too, the stored index is *a* nearest integer w.r.t. the returned origin (never a voxel off) -/
theorem derived_origin_nearest (c o r : Rat) (l : Int) (hr : r ≠ 0) :
    (c - (o + (l : Rat) * r)) / r - 1/2 ≤ ((axisIdx c o r - l : Int) : Rat) ∧
    ((axisIdx c o r - l : Int) : Rat) ≤ (c - (o + (l : Rat) * r)) / r + 1/2 := axis_shift_nearest c o r l hr

example : tieFree [2, 1, 1/4] [0, 0, 0] [0, 0, -1] [1, 1, 1] = true ∧
    tieFree [2, 1, 1/2] [0, 0, 0] [0, 0, -2] [1, 1, 1] = true ∧
    tieFree [2, 1, 1/2] [0, 0, 0] [0, 0, -1] [1, 1, 1] = false := by decide +kernel

/-! ## chain / element restriction -/

/-- Restricting to a subset of the atoms (chains, elements — any predicate) with origin and shape given changes
every voxel by exactly the summed weight of the removed atoms mapped to it. -/
theorem chain_restriction_diff (nd : Nat) (sub : List Atom) (s : List Int) (r o : List Rat) (wt : WType)
    (p : Atom → Bool) (v : List Nat) (hv : inShape (toNats s) v = true) :
    (toVolumeCore nd sub (some s) r (some o) wt).grid.getD v 0 =
      (toVolumeCore nd (sub.filter p) (some s) r (some o) wt).grid.getD v 0 +
      (toVolumeCore nd (sub.filter (fun a => !p a)) (some s) r (some o) wt).grid.getD v 0 := by
  have hs : ∀ X, (toVolumeCore nd X (some s) r (some o) wt).shape = s := by
    intro X; simp [toVolumeCore, frame_given]
  have hf : ∀ X, frameOf nd X (some s) r (some o) = ⟨o, List.replicate nd 0, s, o⟩ := by
    intro X; simp [frameOf, frame_given]
  rw [toVolume_voxel _ _ _ _ _ _ v (by rw [hs]; exact hv), toVolume_voxel _ _ _ _ _ _ v (by rw [hs]; exact hv),
    toVolume_voxel _ _ _ _ _ _ v (by rw [hs]; exact hv)]
  simp only [hf]
  exact sum_filter_split sub p _ _

/-- the chain subset of `to_volume(chain=…)` is such a predicate -/
theorem subsetByChain_is_filter (c : String) (atoms : List Atom) :
    subsetByChain (some c) atoms = atoms.filter (fun a => (c.splitOn ",").contains a.chain) := rfl

example :
    let sub : List Atom := [⟨[0, 0, 0], "C", "A"⟩, ⟨[1/4, 0, 0], "N", "B"⟩, ⟨[1, 1, 1], "O", "A"⟩]
    (toVolumeCore 3 sub (some [2, 2, 2]) [1, 1, 1] (some [0, 0, 0]) .atomicNumber).grid.toList = [13, 0, 0, 0, 0, 0, 0, 8] ∧
    (toVolumeCore 3 (sub.filter (fun a => a.chain == "A")) (some [2, 2, 2]) [1, 1, 1] (some [0, 0, 0]) .atomicNumber).grid.toList
      = [6, 0, 0, 0, 0, 0, 0, 8] := by
  decide +kernel

/-! ## derived shape: nothing falls outside, no mass is lost -/

/-- shape derived (origin given or derived): every atom of the subset lies inside the grid -/
theorem derived_all_inside_pos (nd : Nat) (sub : List Atom) (r : List Rat) (origin : Option (List Rat))
    (hx : ∀ a ∈ sub, a.xyz.length = nd) (hrl : r.length = nd) (hol : ∀ o, origin = some o → o.length = nd)
    (hrp : ∀ k, k < nd → 0 < r.getD k 0) :
    ∀ a ∈ sub, inBox (frameOf nd sub none r origin).shape
      (posOf r (frameOf nd sub none r origin) a.xyz.reverse) = true := by
  intro a ha
  unfold frameOf posOf
  set coords := sub.map (fun a => a.xyz.reverse) with hcoords
  set fr := frame nd coords none r origin with hfr
  have hc : a.xyz.reverse ∈ coords := List.mem_map.mpr ⟨a, ha, rfl⟩
  have hcl : a.xyz.reverse.length = nd := by simp [hx a ha]
  -- lengths
  have ho0 : fr.origin0.length = nd := by
    cases origin with
    | none => rw [hfr, frame_origin0_none]; simp
    | some o => rw [hfr, frame_origin0_some]; exact hol o rfl
  have hsh : fr.shift.length = nd := by
    cases origin with
    | none => rw [hfr, frame_shift_none]; simp
    | some o => rw [hfr, frame_shift_some]; simp
  have hp0l : (idxOf fr.origin0 r a.xyz.reverse).length = nd := zip3_length _ _ _ _ nd hcl ho0 hrl
  have hpl : (subPos (idxOf fr.origin0 r a.xyz.reverse) fr.shift).length = nd := subPos_length _ _ nd hp0l hsh
  have hpmem : subPos (idxOf fr.origin0 r a.xyz.reverse) fr.shift ∈
      (coords.map (idxOf fr.origin0 r)).map (fun p => subPos p fr.shift) :=
    List.mem_map.mpr ⟨_, List.mem_map.mpr ⟨_, hc, rfl⟩, rfl⟩
  have hshape := frame_shape_none nd coords r origin
  rw [← hfr] at hshape
  apply inBox_of_forall
  · rw [hshape, hpl]; simp
  · intro k hk
    rw [hpl] at hk
    constructor
    · rw [subPos_getD _ _ k (by omega) (by omega)]
      cases origin with
      | some o =>
        have e1 : fr.shift = _ := frame_shift_some nd coords r o
        have e0 : fr.origin0 = o := frame_origin0_some nd coords r o
        rw [e1, range_map_getD _ _ _ _ hk, e0]
        have := minL_le _ _ (mem_col 0 k (coords.map (idxOf o r)) (idxOf o r a.xyz.reverse)
          (List.mem_map.mpr ⟨_, hc, rfl⟩))
        omega
      | none =>
        have e1 : fr.shift = List.replicate nd 0 := frame_shift_none nd coords r
        have e0 : fr.origin0 = _ := frame_origin0_none nd coords r
        rw [e1, e0]
        have hz : (List.replicate nd (0 : Int)).getD k 0 = 0 := by
          simp [List.getD_eq_getElem?_getD, hk]
        rw [hz]
        unfold idxOf
        rw [zip3_getD axisIdx 0 0 0 0 _ _ _ k (by omega) (by simp; omega) (by omega),
          range_map_getD _ _ _ _ hk]
        have hmin := minQ_le _ _ (mem_col (0 : Rat) k coords a.xyz.reverse hc)
        have hr := hrp k hk
        unfold axisIdx
        have : 0 ≤ rint ((a.xyz.reverse.getD k 0 - minQ (col 0 k coords)) / r.getD k 0) :=
          rint_nonneg _ (div_nonneg (by linarith) (le_of_lt hr))
        omega
    · rw [hshape, range_map_getD _ _ _ _ hk]
      have := le_maxL _ _ (mem_col 0 k _ _ hpmem)
      omega


/-- … hence the reported outside count is 0 and the grid total is the summed weight of ALL atoms of the subset -/
theorem derived_all_inside (nd : Nat) (sub : List Atom) (r : List Rat) (origin : Option (List Rat)) (wt : WType)
    (hx : ∀ a ∈ sub, a.xyz.length = nd) (hrl : r.length = nd) (hol : ∀ o, origin = some o → o.length = nd)
    (hrp : ∀ k, k < nd → 0 < r.getD k 0) :
    (toVolumeCore nd sub none r origin wt).outside = 0 ∧
    (toVolumeCore nd sub none r origin wt).grid.data.toList.sum = (sub.map (fun a => weightOf wt a.elem)).sum := by
  have h := derived_all_inside_pos nd sub r origin hx hrl hol hrp
  have hs : (toVolumeCore nd sub none r origin wt).shape = (frameOf nd sub none r origin).shape := rfl
  constructor
  · rw [outside_count_exact, hs, List.length_eq_zero_iff, List.filter_eq_nil_iff]
    intro a ha; simp [h a ha]
  · rw [toVolume_total, hs, List.filter_eq_self.mpr (fun a ha => h a ha)]

example :
    let sub : List Atom := [⟨[-6/5, 0, 0], "C", "A"⟩, ⟨[1/2, 1, 2], "N", "A"⟩, ⟨[3, -7/2, 9/4], "S", "B"⟩]
    (toVolumeCore 3 sub none [1, 2, 1/2] none .atomicNumber).outside = 0 ∧
    (toVolumeCore 3 sub none [1, 2, 1/2] none .atomicNumber).shape = [3, 3, 9] ∧
    (toVolumeCore 3 sub none [1, 2, 1/2] (some [-1, 0, 1/3]) .atomicNumber).shape = [3, 3, 9] := by
  decide +kernel

/-! ## the head of `to_volume` and the weight table -/

/-- `to_volume` returns only when the rate is well-formed and (the chain subset is non-empty, or origin and shape
are both given), and then it is `toVolumeCore` on the subset with the normalised rate — which is also the returned rate -/
theorem toVolume_ok (nd : Nat) (atoms : List Atom) (shape : Option (List Int)) (rate : Option (List Rat))
    (origin : Option (List Rat)) (chain : Option String) (wt : WType) (out : Out)
    (h : toVolume nd atoms shape rate origin chain wt = .ok out) :
    ∃ r, resolveRate nd rate = some r ∧
      (subsetByChain chain atoms ≠ [] ∨ (origin.isSome = true ∧ shape.isSome = true)) ∧
      out = toVolumeCore nd (subsetByChain chain atoms) shape r origin wt ∧ out.rate = r := by
  unfold toVolume at h
  split at h
  · cases h
  · rename_i r hr
    simp only at h
    split at h
    · cases h
    · rename_i hne
      refine ⟨r, hr, ?_, ?_, ?_⟩
      · by_cases he : subsetByChain chain atoms = []
        · right
          cases origin <;> cases shape <;> simp_all
        · left; exact he
      · cases h; rfl
      · cases h; rfl

/-- an empty subset with origin and shape given yields the all-zero grid and count 0 -/
theorem toVolume_empty_subset (nd : Nat) (s : List Int) (r o : List Rat) (wt : WType) :
    (toVolumeCore nd [] (some s) r (some o) wt).outside = 0 ∧
    (toVolumeCore nd [] (some s) r (some o) wt).grid = zeros (toNats s) ∧
    (toVolumeCore nd [] (some s) r (some o) wt).origin = o := by
  simp [toVolumeCore, placed, deposit, frame_given]

/-- sampling rate normalisation: absent → ones, one value → repeated per axis, `nd` values → unchanged -/
theorem resolveRate_spec (nd : Nat) (x : Rat) (l : List Rat) (hl : l.length = nd) (h2 : l.length ≠ 1) :
    resolveRate nd none = some (List.replicate nd 1) ∧ resolveRate nd (some [x]) = some (List.replicate nd x) ∧
    resolveRate nd (some l) = some l := by
  refine ⟨rfl, rfl, ?_⟩
  match l, h2 with
  | [], _ => simp [resolveRate, ← hl]
  | [_], h2 => simp at h2
  | _ :: _ :: _, _ => simp [resolveRate, hl]

/-- unknown element symbols (anything that is not an exact key of the table) weigh nothing -/
theorem weightOf_unknown (wt : WType) (sym : String) (h : lookup sym = none) : weightOf wt sym = 0 := by
  unfold weightOf; rw [h]

/-- the table has 118 distinct keys (a Python dict has no duplicates; `find?` takes the first) -/
theorem elementTable_keys_nodup : (elementTable.map (·.1)).Nodup ∧ elementTable.length = 118 := by
  decide +kernel

/-- whatever weight a symbol gets is the entry stored under *exactly* that symbol (no case folding, no truncation,
no prefix match): `lookup` only ever returns an entry whose key equals the symbol -/
theorem lookup_exact (sym : String) (v : Nat × Nat) (h : lookup sym = some v) : (sym, v) ∈ elementTable := by
  unfold lookup at h
  cases hf : elementTable.find? (fun e => e.1 == sym) with
  | none => rw [hf] at h; simp at h
  | some e =>
    rw [hf] at h
    have hv : e.2 = v := by simpa using h
    have hk : e.1 = sym := by simpa using List.find?_some hf
    have hm : e ∈ elementTable := List.mem_of_find?_eq_some hf
    rw [← hk, ← hv]
    exact hm

/-- and every entry of the table is found under its key: an atom whose symbol is a key weighs that entry -/
theorem weightOf_table_entry (sym : String) (z w : Nat) (h : (sym, z, w) ∈ elementTable) :
    weightOf .atomicWeight sym = (w : Int) ∧ weightOf .atomicNumber sym = (z : Int) := by
  have hl : lookup sym = some (z, w) := by
    unfold lookup
    rw [find_key_of_mem elementTable elementTable_keys_nodup.1 sym (z, w) h]
    rfl
  simp [weightOf, hl]

example : ("ZN", 30, 65380000000) ∈ elementTable ∧ lookup "Zn" = none ∧ lookup "Z" = none ∧ lookup "ZNN" = none := by
  decide +kernel

example : weightOf .atomicWeight "C" = 12011000000 ∧ weightOf .atomicNumber "FE" = 26 ∧
    weightOf .atomicWeight "Fe" = 0 ∧ weightOf .atomicNumber "" = 0 := by decide +kernel

/-! # Kernels: the weight types that are not point weights (Model/C10K.lean)

`van_der_waals_radius`: everything is integer and is proved.  `scattering_factors`, `lowpass_scattering_factors`,
`gaussian`: the float VALUES (spline profile, Gaussian filter) are not modelled; what is proved is the SUPPORT — which
voxels receive a contribution — and the deposit that precedes the Gaussian filter. -/

/-! ## van der Waals spheres -/

/-- every element with a positive radius gets a radius of at least one voxel on every axis, whatever the sampling rate -/
theorem vdw_radius_positive (vdwr : Nat) (rate : List Rat) (hv : 0 < vdwr) (hr : ∀ x ∈ rate, 0 < x) :
    ∀ k ∈ vdwRadius vdwr rate, 0 < k := vdwRadius_pos vdwr rate hv hr

example : vdwRadius 170 [1, 1/2, 17/10] = [2, 4, 1] ∧ vdwRadius 170 [2, 3, 10] = [1, 1, 1] ∧ vdwRadius 0 [1, 1, 1] = [0, 0, 0] := by
  decide +kernel

/-- the sphere contains the atom's own voxel as soon as the radius is at least one voxel on every axis … -/
theorem sphere_contains_centre (k : List Int) (hk : ∀ x ∈ k, 0 < x) :
    inSphere k (List.replicate k.length 0) = true := by
  unfold inSphere
  rw [sphereSum_zero]
  simp only [Bool.and_eq_true, List.all_eq_true, decide_eq_true_eq]
  exact ⟨fun x hx => hk x hx, by norm_num⟩

/-- … and is EMPTY when a radius is zero (symbols that are no table key have `vdwr = 0`: they deposit nothing) -/
theorem sphere_empty_of_zero_radius (k d : List Int) (x : Int) (hx : x ∈ k) (h0 : x ≤ 0) : inSphere k d = false := by
  unfold inSphere
  rw [Bool.and_eq_false_iff]
  left
  rw [List.all_eq_false]
  exact ⟨x, hx, by simp; omega⟩

example : inSphere [2, 4, 1] [0, 0, 0] = true ∧ inSphere [0, 0, 0] [0, 0, 0] = false := by decide +kernel

/-- the sphere is symmetric about the atom's voxel -/
theorem sphere_symmetric (k d : List Int) : inSphere k (d.map (fun x => -x)) = inSphere k d := by
  unfold inSphere
  rw [sphereSum_neg]

example : inSphere [2, 4, 1] [1, -3, 0] = true ∧ inSphere [2, 4, 1] [-1, 3, 0] = true ∧
    inSphere [2, 4, 1] [2, 1, 0] = false ∧ inSphere [2, 4, 1] [-2, -1, 0] = false := by decide +kernel

/-- a voxel of the sphere is at most `k` voxels from the centre on every axis, so the footprint array
`np.mgrid[-k:k+1]` the code allocates contains the whole sphere -/
theorem sphere_within_radius (p k v : List Int) (hk : k.length = p.length) (hv : p.length = v.length)
    (h : inSphere k (offs v p) = true) : inWin p k v = true := inSphere_inWin p k v hk hv h

example : inSphere [2, 4, 1] (offs [6, 2, 3] [5, 5, 3]) = true ∧ inWin [5, 5, 3] [2, 4, 1] [6, 2, 3] = true := by
  decide +kernel

/-- the two slices `volume[start:stop]` and `footprint[start_index:stop_index]` have equal lengths and non-negative
bounds on every axis for every atom inside the box, every radius and every shape: `+=` never raises, nothing is written
outside the array, nothing wraps around -/
theorem vdw_slices_never_fail (shape : List Int) (placedK : List (List Int × List Int))
    (hp : ∀ pk ∈ placedK, inBox shape pk.1 = true) (hk : ∀ pk ∈ placedK, ∀ x ∈ pk.2, 0 ≤ x) :
    ∃ g, vdwDeposit shape placedK = .ok g ∧ g.shape = toNats shape :=
  ⟨_, vdwDeposit_ok shape placedK hp hk, rfl⟩

/-- the van der Waals volume: voxel `v` holds the NUMBER of atoms whose sphere contains it (overlapping atoms add up,
the map is not binary), clipped to the box and to nothing else -/
theorem vdw_voxel (shape : List Int) (placedK : List (List Int × List Int)) (g : Arr Int)
    (hp : ∀ pk ∈ placedK, inBox shape pk.1 = true) (hk : ∀ pk ∈ placedK, ∀ x ∈ pk.2, 0 ≤ x)
    (hl : ∀ pk ∈ placedK, pk.2.length = pk.1.length) (hg : vdwDeposit shape placedK = .ok g)
    (v : List Nat) (hv : inShape (toNats shape) v = true) :
    g.getD v 0 = ((placedK.filter (fun pk => inSphere pk.2 (offs (v.map Int.ofNat) pk.1))).length : Int) := by
  rw [vdwDeposit_ok shape placedK hp hk] at hg
  cases hg
  rw [Arr.getD_ofFn _ _ _ _ hv, ← sum_ite_eq_length]
  congr 1
  apply List.map_congr_left
  intro pk hpk
  rw [vdwContribution_eq shape pk.1 pk.2 _ (hl pk hpk) (inBox_length (hp pk hpk)), inBox_of_inShape hv, Bool.true_and]

/-- total mass: the sum of the volume is, atom by atom, the number of voxels of its sphere that lie in the box -/
theorem vdw_total (shape : List Int) (placedK : List (List Int × List Int)) (g : Arr Int)
    (hp : ∀ pk ∈ placedK, inBox shape pk.1 = true) (hk : ∀ pk ∈ placedK, ∀ x ∈ pk.2, 0 ≤ x)
    (hl : ∀ pk ∈ placedK, pk.2.length = pk.1.length) (hg : vdwDeposit shape placedK = .ok g) :
    g.data.toList.sum = (placedK.map (fun pk =>
      (((allIdx (toNats shape)).filter (fun v => inSphere pk.2 (offs (v.map Int.ofNat) pk.1))).length : Int))).sum := by
  rw [vdwDeposit_ok shape placedK hp hk] at hg
  cases hg
  rw [ofFn_sum, sum_map_sum_comm (allIdx (toNats shape)) placedK (fun pk v => vdwContribution shape pk.1 pk.2 (v.map Int.ofNat))]
  congr 1
  apply List.map_congr_left
  intro pk hpk
  rw [← sum_ite_eq_length]
  congr 1
  apply List.map_congr_left
  intro v hv
  have hin : inShape (toNats shape) v = true := by
    simp only [allIdx, List.mem_map, List.mem_range] at hv
    obtain ⟨i, hi, rfl⟩ := hv
    exact inShape_unflat _ _ hi
  rw [vdwContribution_eq shape pk.1 pk.2 _ (hl pk hpk) (inBox_length (hp pk hpk)), inBox_of_inShape hin, Bool.true_and]

example : (vdwDeposit [3, 4] [([0, 1], [1, 1]), ([1, 1], [1, 2])]).map (·.toList) =
    .ok [1, 2, 1, 0, 1, 2, 1, 1, 0, 1, 0, 0] := by decide +kernel

/-! ## scattering factors: the support (values are floats and are left to the correspondence) -/

/-- one axis: the voxels that receive a contribution are exactly the integers `v` of the axis with
`p - R ≤ v` and `v + 1 ≤ p + R` (`range(ceil(p - R), floor(p + R))` clipped to `[0, n)`) -/
theorem scat_axis_exact (p : Int) (R : Rat) (n v : Int) :
    ((scatRange p R n).1 ≤ v ∧ v < (scatRange p R n).2) ↔
      (0 ≤ v ∧ v < n) ∧ ((p : Rat) - R ≤ (v : Rat) ∧ (v : Rat) + 1 ≤ (p : Rat) + R) := scatRange_spec p R n v

/-- the atom's own voxel is in the range iff the radius is at least one voxel -/
theorem scat_axis_centre_iff (p : Int) (R : Rat) (n : Int) (hp : 0 ≤ p ∧ p < n) :
    ((scatRange p R n).1 ≤ p ∧ p < (scatRange p R n).2) ↔ 1 ≤ R := by
  rw [scatRange_spec]
  constructor
  · rintro ⟨_, _, h⟩; linarith
  · intro h; exact ⟨hp, by linarith, by linarith⟩

example : scatRange 5 (3/2) 20 = (4, 6) ∧ scatRange 5 (1/2) 20 = (5, 5) ∧ scatRange 0 (5/2) 2 = (0, 2) := by decide +kernel

/-- TODAY's support is NOT symmetric about the atom's voxel `p`: it is symmetric about `p - 1/2` (the mirror image of
`v` is `2p - 1 - v`), because `range(start, stop)` leaves out `stop = floor(p + R)` -/
theorem scat_axis_mirror (p : Int) (R : Rat) (n v : Int) (hv : 0 ≤ v ∧ v < n) (hm : 0 ≤ 2 * p - 1 - v ∧ 2 * p - 1 - v < n) :
    ((scatRange p R n).1 ≤ v ∧ v < (scatRange p R n).2) ↔
      ((scatRange p R n).1 ≤ 2 * p - 1 - v ∧ 2 * p - 1 - v < (scatRange p R n).2) := by
  rw [scatRange_spec, scatRange_spec]
  push_cast
  constructor
  · rintro ⟨_, a, b⟩; exact ⟨hm, by linarith, by linarith⟩
  · rintro ⟨_, a, b⟩; exact ⟨hv, by linarith, by linarith⟩

/-- witness: radius 3/2 voxels around voxel 5 — voxels 4 and 5 receive a contribution, voxel 6 does not -/
theorem scat_support_halfopen_current : scatRange 5 (3/2) 20 = (4, 6) ∧
    scatCovers [5, 5, 5] [3/2, 3/2, 3/2] [20, 20, 20] [4, 5, 5] = true ∧
    scatCovers [5, 5, 5] [3/2, 3/2, 3/2] [20, 20, 20] [6, 5, 5] = false := by decide +kernel

/-- no index out of bounds: whatever the radius, every voxel that receives a contribution from an atom inside the box
is inside the box (product of ranges, or the fallback to the atom's own voxel) -/
theorem scat_support_inBox (p : List Int) (R : List Rat) (shape v : List Int) (hp : inBox shape p = true)
    (hR : R.length = shape.length) (h : scatCovers p R shape v = true) : inBox shape v = true := by
  unfold scatCovers at h
  split at h
  · exact inRanges_inBox p R shape v (inBox_length hp) hR (by
      rename_i rs hs
      unfold scatSupport at hs
      simp only at hs
      split at hs
      · cases hs
      · split at hs
        · cases hs
        · cases hs; exact h)
  · have : v = p := by simpa using h
    rw [this]; exact hp
  · cases h

/-- the fallback of the code (`if not len(distances)`): when the range of the SECOND axis is empty the value at
distance 0 goes to the atom's own voxel, and only there -/
theorem scat_point_fallback (p : List Int) (R : List Rat) (shape v : List Int)
    (h : rangeEmpty ((zip3 scatRange p R shape).getD 1 (0, 0)) = true) :
    scatCovers p R shape v = (v == p) := by
  unfold scatCovers scatSupport
  simp only [h, if_true]

example : scatCovers [5, 5, 5] [3/2, 1/2, 3/2] [20, 20, 20] [5, 5, 5] = true ∧
    scatCovers [5, 5, 5] [3/2, 1/2, 3/2] [20, 20, 20] [4, 5, 5] = false ∧
    (scatCount [20, 20, 20] [([5, 5, 5], [1/2, 3/2, 3/2])]).toOption.isNone = true := by decide +kernel

/-! ## gaussian: the deposit that precedes the Gaussian filter -/

/-- `_position_to_molmap` derives its own origin `min - pad·rate` and shape `max + pad + 1`: every atom is stored at
least `pad` voxels away from every face of the array, for every padding, rate and structure -/
theorem molmap_pad_margin (nd pad : Nat) (rate : List Rat) (coords : List (List Rat)) (w : List Int)
    (hrl : rate.length = nd) (hrp : ∀ k, k < nd → 0 < rate.getD k 0) (c : List Rat) (hc : c ∈ coords)
    (hcl : c.length = nd) (k : Nat) (hk : k < nd) :
    (pad : Int) ≤ (idxOf (molmap nd pad rate coords w).origin rate c).getD k 0 ∧
    (idxOf (molmap nd pad rate coords w).origin rate c).getD k 0 + (pad : Int) < (molmap nd pad rate coords w).shape.getD k 0 :=
  molmap_margin nd pad rate coords w hrl hrp c hc hcl k hk

/-- … the stored positions are `round((zyx − returned origin)/rate)`, all inside, and no mass is lost: the array handed
to the Gaussian filter sums to the summed weight of ALL atoms -/
theorem molmap_total (nd pad : Nat) (rate : List Rat) (coords : List (List Rat)) (w : List Int)
    (hrl : rate.length = nd) (hrp : ∀ k, k < nd → 0 < rate.getD k 0) (hcl : ∀ c ∈ coords, c.length = nd)
    (hw : w.length = coords.length) :
    (molmap nd pad rate coords w).positions = coords.map (idxOf (molmap nd pad rate coords w).origin rate) ∧
    (∀ p ∈ (molmap nd pad rate coords w).positions, inBox (molmap nd pad rate coords w).shape p = true) ∧
    (molmap nd pad rate coords w).grid.data.toList.sum = w.sum := by
  have hin : ∀ p ∈ (molmap nd pad rate coords w).positions, inBox (molmap nd pad rate coords w).shape p = true := by
    intro p hp
    rw [molmap_positions] at hp
    obtain ⟨c, hc, rfl⟩ := List.mem_map.mp hp
    exact molmap_inBox nd pad rate coords w hrl hrp c hc (hcl c hc)
  refine ⟨rfl, hin, ?_⟩
  have hg : (molmap nd pad rate coords w).grid = deposit (toNats (molmap nd pad rate coords w).shape)
      (List.zipWith (fun p w => (toNats p, w)) (molmap nd pad rate coords w).positions w) := rfl
  rw [hg, deposit_total, zipWith_snd _ _ (by rw [molmap_positions]; simpa using hw)]
  intro pw hpw
  obtain ⟨q, hq, e⟩ := zipWith_mem _ _ pw hpw
  rw [e]
  exact inBox_toNats (hin q hq)

example : (molmap 2 3 [1, 1/2] [[0, 0], [5/2, 1]] [6, 8]).origin.map (fun q => (q.num, q.den)) = [(-3, 1), (-3, 2)] ∧
    (molmap 2 3 [1, 1/2] [[0, 0], [5/2, 1]] [6, 8]).shape = [10, 9] ∧
    (molmap 2 3 [1, 1/2] [[0, 0], [5/2, 1]] [6, 8]).positions = [[3, 3], [6, 5]] := by decide +kernel

/-! ## `Structure.from_file` filters and the box given by the caller -/

/-- the `keep` mask: element in the set (absent / EMPTY set = no filter), residue in the set (same), record `ATOM` -/
theorem fileKeep_spec (e r : Option (List String)) (x : Rec) :
    fileKeep e r false x = true ↔
      setFilter e x.atom.elem = true ∧ setFilter r x.resname = true ∧ x.record = "ATOM" := by
  simp [fileKeep, and_assoc]

theorem setFilter_spec (l : List String) (hl : l ≠ []) (x : String) :
    setFilter none x = true ∧ setFilter (some []) x = true ∧ (setFilter (some l) x = true ↔ x ∈ l) := by
  refine ⟨rfl, rfl, ?_⟩
  cases l with
  | nil => exact absurd rfl hl
  | cons a t => simp [setFilter]

/-- `Density.from_structure(path, …, chain, filter_by_elements, filter_by_residues)` is `to_volume` of exactly the
selected records (glue) -/
theorem fromFileK_selected (nd : Nat) (recs : List Rec) (e r : Option (List String)) (shape : Option (List Int))
    (rate origin : Option (List Rat)) (chain : Option String) (wk : WKind) :
    fromFileK nd recs e r shape rate origin chain wk =
      toVolumeK nd ((recs.filter (fun x => fileKeep e r false x)).map (·.atom)) shape rate origin chain wk := rfl

/-- filtering records (by element, residue, record type — any predicate on the records) with origin and shape given
changes every voxel by exactly the summed weight of the removed records mapped to it -/
theorem file_filter_diff {β : Type} (f : β → Atom) (nd : Nat) (l : List β) (s : List Int) (r o : List Rat) (wt : WType)
    (keep : β → Bool) (v : List Nat) (hv : inShape (toNats s) v = true) :
    (toVolumeCore nd (l.map f) (some s) r (some o) wt).grid.getD v 0 =
      (toVolumeCore nd ((l.filter keep).map f) (some s) r (some o) wt).grid.getD v 0 +
      (toVolumeCore nd ((l.filter (fun x => !keep x)).map f) (some s) r (some o) wt).grid.getD v 0 := by
  have hs : ∀ X, (toVolumeCore nd X (some s) r (some o) wt).shape = s := by
    intro X; simp [toVolumeCore, frame_given]
  have hf : ∀ X, frameOf nd X (some s) r (some o) = ⟨o, List.replicate nd 0, s, o⟩ := by
    intro X; simp [frameOf, frame_given]
  rw [toVolume_voxel _ _ _ _ _ _ v (by rw [hs]; exact hv), toVolume_voxel _ _ _ _ _ _ v (by rw [hs]; exact hv),
    toVolume_voxel _ _ _ _ _ _ v (by rw [hs]; exact hv)]
  simp only [hf, List.filter_map, List.map_map]
  exact sum_filter_split l keep _ _

example :
    let recs : List Rec := [⟨⟨[0, 0, 0], "C", "A"⟩, "GLY", "ATOM"⟩, ⟨⟨[1, 1, 1], "O", "A"⟩, "SER", "ATOM"⟩,
      ⟨⟨[1, 0, 0], "ZN", "A"⟩, "ZN", "HETATM"⟩]
    (recs.filter (fun x => fileKeep (some []) (some ["SER", "ZN"]) false x)).map (·.atom.elem) = ["O"] ∧
    (recs.filter (fun x => fileKeep (some ["C", "ZN"]) none false x)).map (·.atom.elem) = ["C"] := by decide +kernel

/-- origin AND shape given by the caller: the frame is the caller's, the position of every atom is exactly
`rint((zyx − origin)/rate)`, the atoms kept are exactly those whose position is inside the shape — none outside is
kept, none inside is lost, in input order -/
theorem given_box_kept (nd : Nat) (sub : List Atom) (s : List Int) (r o : List Rat) (wt : WType)
    (hx : ∀ a ∈ sub, a.xyz.length ≤ nd) :
    (toVolumeCore nd sub (some s) r (some o) wt).shape = s ∧
    (toVolumeCore nd sub (some s) r (some o) wt).origin = o ∧
    (toVolumeCore nd sub (some s) r (some o) wt).kept =
      (sub.filter (fun a => inBox s (idxOf o r a.xyz.reverse))).map
        (fun a => (idxOf o r a.xyz.reverse, weightOf wt a.elem)) := by
  have hpos : ∀ a ∈ sub, posOf r ⟨o, List.replicate nd 0, s, o⟩ a.xyz.reverse = idxOf o r a.xyz.reverse := by
    intro a ha
    unfold posOf
    simp only
    apply subPos_zeros
    exact Nat.le_trans (zip3_length_le _ _ _ _) (by simpa using hx a ha)
  refine ⟨by simp [toVolumeCore, frame_given], by simp [toVolumeCore, frame_given], ?_⟩
  unfold toVolumeCore placed
  simp only [frame_given, List.filter_map]
  rw [List.map_congr_left (g := fun a => (idxOf o r a.xyz.reverse, weightOf wt a.elem))]
  · congr 1
    apply List.filter_congr
    intro a ha
    simp only [Function.comp]
    rw [hpos a ha]
  · intro a ha
    rw [hpos a (List.mem_of_mem_filter ha)]

example :
    let sub : List Atom := [⟨[0, 0, 0], "C", "A"⟩, ⟨[5, 1, 1], "O", "A"⟩, ⟨[3/2, 1, 0], "N", "A"⟩]
    (toVolumeCore 3 sub (some [2, 2, 3]) [1, 1, 1] (some [0, 0, 0]) .atomicNumber).kept = [([0, 0, 0], 6), ([0, 1, 2], 7)] ∧
    (toVolumeCore 3 sub (some [2, 2, 2]) [1, 1, 1] (some [0, 0, 0]) .atomicNumber).kept = [([0, 0, 0], 6)] := by decide +kernel

/-! ## the whole of `to_volume` for the sphere / support weight types -/

/-- `to_volume(weight_type="van_der_waals_radius" | "scattering_factors" | "lowpass_scattering_factors")`: shape,
origin, rate, out-of-bounds count and the kept positions are those of the point-weight conversion of the same arguments
(so every frame theorem above applies to these weight types, too) -/
theorem toVolumeK_frame (nd : Nat) (atoms : List Atom) (shape : Option (List Int)) (rate origin : Option (List Rat))
    (chain : Option String) (wk : WKind) (hwk : wk = .vdw ∨ wk = .scattering) (out : OutK)
    (h : toVolumeK nd atoms shape rate origin chain wk = .ok out) :
    ∃ r, resolveRate nd rate = some r ∧
      out.shape = (toVolumeCore nd (subsetByChain chain atoms) shape r origin .atomicNumber).shape ∧
      out.origin = (toVolumeCore nd (subsetByChain chain atoms) shape r origin .atomicNumber).origin ∧
      out.rate = r ∧
      out.outside = (toVolumeCore nd (subsetByChain chain atoms) shape r origin .atomicNumber).outside ∧
      out.positions = (toVolumeCore nd (subsetByChain chain atoms) shape r origin .atomicNumber).kept.map (·.1) := by
  rcases hwk with rfl | rfl
  all_goals
    unfold toVolumeK at h
    simp only at h
    split at h
    · cases h
    · rename_i r hr
      refine ⟨r, hr, ?_⟩
      split at h
      · cases h
      · split at h
        · cases h
        · split at h
          · cases h
          · cases h
            refine ⟨rfl, rfl, rfl, ?_, ?_⟩
            · unfold toVolumeCore
              simp only
              rw [keptK_length _ _ .atomicNumber]
            · unfold toVolumeCore
              simp only
              exact keptK_positions _ _ .atomicNumber _

/-- end to end: with positive rates, a voxel of the van der Waals volume holds the number of atoms of the chain subset
that lie inside the grid and whose sphere (radius `ceil(vdwr/(100·rate))` voxels per axis around the atom's voxel)
contains it -/
theorem toVolumeK_vdw_voxel (nd : Nat) (atoms : List Atom) (shape : Option (List Int)) (rate origin : Option (List Rat))
    (chain : Option String) (out : OutK) (h : toVolumeK nd atoms shape rate origin chain .vdw = .ok out)
    (hs : ∀ s, shape = some s → s.length = nd) (hpos : ∀ r, resolveRate nd rate = some r → ∀ x ∈ r, 0 < x)
    (v : List Nat) (hv : inShape (toNats out.shape) v = true) :
    ∃ r, resolveRate nd rate = some r ∧
      out.grid.getD v 0 = (((subsetByChain chain atoms).filter (fun a =>
        inBox out.shape (posOf r (frameOf nd (subsetByChain chain atoms) shape r origin) a.xyz.reverse) &&
        inSphere (vdwRadius (vdwrD a.elem) r)
          (offs (v.map Int.ofNat) (posOf r (frameOf nd (subsetByChain chain atoms) shape r origin) a.xyz.reverse)))).length : Int) := by
  unfold toVolumeK at h
  simp only at h
  split at h
  · cases h
  · rename_i r hr
    refine ⟨r, hr, ?_⟩
    have hrl := resolveRate_length nd rate r hr
    have hrp := hpos r hr
    split at h
    · cases h
    · split at h
      · cases h
      · split at h
        · cases h
        · rename_i g hg
          cases h
          simp only at hv ⊢
          set sub := subsetByChain chain atoms with hsub
          set fr := frame nd (sub.map (fun a => a.xyz.reverse)) shape r origin with hfr
          have hshl : fr.shape.length = nd := frame_shape_length nd _ shape r origin hs
          set kept := (sub.map (fun a => (posOf r fr a.xyz.reverse, a.elem))).filter (fun pe => inBox fr.shape pe.1) with hkept
          have hp : ∀ pk ∈ kept.map (fun pe => (pe.1, vdwRadius (vdwrD pe.2) r)), inBox fr.shape pk.1 = true := by
            intro pk hpk
            obtain ⟨pe, hpe, rfl⟩ := List.mem_map.mp hpk
            exact (List.mem_filter.mp hpe).2
          have hk : ∀ pk ∈ kept.map (fun pe => (pe.1, vdwRadius (vdwrD pe.2) r)), ∀ x ∈ pk.2, 0 ≤ x := by
            intro pk hpk
            obtain ⟨pe, _, rfl⟩ := List.mem_map.mp hpk
            exact vdwRadius_nonneg _ r hrp
          have hl : ∀ pk ∈ kept.map (fun pe => (pe.1, vdwRadius (vdwrD pe.2) r)), pk.2.length = pk.1.length := by
            intro pk hpk
            obtain ⟨pe, hpe, rfl⟩ := List.mem_map.mp hpk
            have := inBox_length (List.mem_filter.mp hpe).2
            simp only [vdwRadius, List.length_map]
            omega
          rw [vdw_voxel fr.shape _ g hp hk hl hg v hv]
          congr 1
          simp only [hkept, List.filter_map, List.length_map, List.filter_filter]
          unfold frameOf
          congr 1
          apply List.filter_congr
          intro a _
          simp only [Function.comp, Bool.and_comm]
          rfl

example :
    let atoms : List Atom := [⟨[0, 0, 0], "C", "A"⟩, ⟨[2, 0, 1], "N", "A"⟩, ⟨[9, 9, 9], "O", "A"⟩, ⟨[1, 1, 1], "Xx", "B"⟩]
    (toVolumeK 3 atoms (some [2, 2, 3]) (some [2]) (some [0, 0, 0]) none .vdw).toOption.map
      (fun o => (o.outside, o.positions, o.grid.toList)) =
      some (1, [[0, 0, 0], [0, 0, 1], [0, 0, 0]], [2, 2, 1, 1, 1, 0, 1, 1, 0, 0, 0, 0]) := by decide +kernel

/-- the support-count array: a voxel holds the number of atoms whose support covers it; it exists unless some atom
runs into the `IndexError` of an empty range on the first / last axis -/
theorem scatCount_voxel (shape : List Int) (placedR : List (List Int × List Rat)) (g : Arr Int)
    (hg : scatCount shape placedR = .ok g) (v : List Nat) (hv : inShape (toNats shape) v = true) :
    g.getD v 0 = ((placedR.filter (fun pr => scatCovers pr.1 pr.2 shape (v.map Int.ofNat))).length : Int) := by
  unfold scatCount at hg
  split at hg
  · cases hg
  · cases hg
    rw [Arr.getD_ofFn _ _ _ _ hv, ← sum_ite_eq_length]

/-- end to end for `scattering_factors` / `lowpass_scattering_factors`: a voxel receives a contribution from exactly
the atoms of the chain subset inside the grid whose support `range(ceil(p − R), floor(p + R))` (per axis,
`R = vdwr/(100·rate)`; the atom's own voxel when the range of the second axis is empty) covers it -/
theorem toVolumeK_scat_voxel (nd : Nat) (atoms : List Atom) (shape : Option (List Int)) (rate origin : Option (List Rat))
    (chain : Option String) (out : OutK) (h : toVolumeK nd atoms shape rate origin chain .scattering = .ok out)
    (v : List Nat) (hv : inShape (toNats out.shape) v = true) :
    ∃ r, resolveRate nd rate = some r ∧
      out.grid.getD v 0 = (((subsetByChain chain atoms).filter (fun a =>
        inBox out.shape (posOf r (frameOf nd (subsetByChain chain atoms) shape r origin) a.xyz.reverse) &&
        scatCovers (posOf r (frameOf nd (subsetByChain chain atoms) shape r origin) a.xyz.reverse)
          (scatRadius (vdwrD a.elem) r) out.shape (v.map Int.ofNat))).length : Int) := by
  unfold toVolumeK at h
  simp only at h
  split at h
  · cases h
  · rename_i r hr
    refine ⟨r, hr, ?_⟩
    split at h
    · cases h
    · split at h
      · cases h
      · split at h
        · cases h
        · rename_i g hg
          cases h
          simp only at hv ⊢
          rw [scatCount_voxel _ _ g hg v hv]
          congr 1
          simp only [List.filter_map, List.length_map, List.filter_filter]
          unfold frameOf
          congr 1
          apply List.filter_congr
          intro a _
          simp only [Function.comp, Bool.and_comm]

example :
    let atoms : List Atom := [⟨[0, 0, 0], "C", "A"⟩, ⟨[2, 1, 1], "N", "A"⟩]
    (toVolumeK 3 atoms none none none none .scattering).toOption.map (fun o => (o.shape, o.grid.toList)) =
      some ([2, 2, 3], [1, 1, 1, 0, 1, 1, 0, 1, 1, 0, 1, 1]) ∧
    (toVolumeK 3 atoms none (some [2, 1, 1]) none none .scattering).toOption.isNone = true ∧
    (toVolumeK 3 atoms none (some [1, 2, 1]) none none .scattering).toOption.map (fun o => (o.shape, o.grid.toList)) =
      some ([2, 1, 3], [1, 0, 0, 0, 0, 1]) := by decide +kernel

/-- `to_volume(weight_type="gaussian")` returns only when the chain subset is non-empty and the atoms inside the
requested box are all of them, or exactly one (whose weight numpy then broadcasts to every atom); the array handed to the
Gaussian filter, its origin and its shape are `_position_to_molmap`'s own (`molmap`), NOT the requested ones -/
theorem toVolumeK_gaussian_ok (nd pad : Nat) (atoms : List Atom) (shape : Option (List Int)) (rate origin : Option (List Rat))
    (chain : Option String) (out : OutK) (h : toVolumeK nd atoms shape rate origin chain (.gaussian pad) = .ok out) :
    ∃ r ws, resolveRate nd rate = some r ∧ subsetByChain chain atoms ≠ [] ∧
      ws.length = (subsetByChain chain atoms).length ∧
      out.shape = (molmap nd pad r ((subsetByChain chain atoms).map (fun a => a.xyz.reverse)) ws).shape ∧
      out.origin = (molmap nd pad r ((subsetByChain chain atoms).map (fun a => a.xyz.reverse)) ws).origin ∧
      out.positions = (molmap nd pad r ((subsetByChain chain atoms).map (fun a => a.xyz.reverse)) ws).positions ∧
      out.grid = (molmap nd pad r ((subsetByChain chain atoms).map (fun a => a.xyz.reverse)) ws).grid ∧
      (out.outside = 0 ∨ ∃ w, ws = List.replicate (subsetByChain chain atoms).length w) := by
  unfold toVolumeK at h
  simp only at h
  split at h
  · cases h
  · rename_i r hr
    split at h
    · cases h
    · split at h
      · cases h
      · rename_i ws hws
        split at h
        · cases h
        · rename_i hne
          cases h
          refine ⟨r, ws, hr, by simpa using hne, ?_, rfl, rfl, rfl, rfl, ?_⟩
          · split at hws
            · rename_i hlen
              cases hws
              rw [List.length_map, hlen]
            · split at hws
              · cases hws; simp
              · cases hws
          · split at hws
            · rename_i hlen
              left
              simp only
              omega
            · split at hws
              · cases hws; exact Or.inr ⟨_, rfl⟩
              · cases hws

example :
    let atoms : List Atom := [⟨[0, 0, 0], "C", "A"⟩, ⟨[2, 1, 1], "N", "A"⟩, ⟨[9, 9, 9], "O", "A"⟩]
    (toVolumeK 3 atoms (some [3, 3, 3]) none (some [0, 0, 0]) none (.gaussian 2)).toOption.isNone = true ∧
    (toVolumeK 3 atoms (some [1, 1, 1]) none (some [0, 0, 0]) none (.gaussian 2)).toOption.map
      (fun o => (o.shape, o.positions, o.grid.toList.sum)) = some ([14, 14, 14], [[2, 2, 2], [3, 3, 4], [11, 11, 11]], 18) ∧
    (toVolumeK 3 atoms none none none none (.gaussian 2)).toOption.map (fun o => o.grid.toList.sum) = some 21 := by
  decide +kernel

/-- … and when no left shift happens (origin derived, or given together with the shape) this is the clause the
harness evaluates on the real outputs (`specVdw` with the RETURNED origin, rate and shape) -/
theorem toVolumeK_vdw_spec (nd : Nat) (atoms : List Atom) (shape : Option (List Int)) (rate origin : Option (List Rat))
    (chain : Option String) (out : OutK) (h : toVolumeK nd atoms shape rate origin chain .vdw = .ok out)
    (hs : ∀ s, shape = some s → s.length = nd) (hpos : ∀ r, resolveRate nd rate = some r → ∀ x ∈ r, 0 < x)
    (hns : (origin.isSome && shape.isNone) = false) (hx : ∀ a ∈ atoms, a.xyz.length ≤ nd)
    (v : List Nat) (hv : inShape (toNats out.shape) v = true) :
    out.grid.getD v 0 = specVdw out.origin out.rate out.shape
      ((subsetByChain chain atoms).map (fun a => (a.xyz, vdwrD a.elem))) (v.map Int.ofNat) := by
  obtain ⟨r, hr, e⟩ := toVolumeK_vdw_voxel nd atoms shape rate origin chain out h hs hpos v hv
  obtain ⟨r', hr', _, ho, hrate, _, _⟩ := toVolumeK_frame nd atoms shape rate origin chain .vdw (Or.inl rfl) out h
  have : r' = r := by rw [hr] at hr'; cases hr'; rfl
  subst this
  rw [e, hrate]
  unfold specVdw
  simp only [List.filter_map, List.length_map]
  congr 2
  apply List.filter_congr
  intro a ha
  have hc : a.xyz.reverse.length ≤ nd := by simpa using hx a (mem_subsetByChain ha)
  have hpo := returned_origin_consistent_noshift nd (subsetByChain chain atoms) shape r' origin hns a.xyz.reverse hc
  have ho' : out.origin = (frameOf nd (subsetByChain chain atoms) shape r' origin).origin := ho
  simp only [Function.comp, ho', hpo]
  rfl

/-- `Density.from_structure(path, chain, filter_by_elements, filter_by_residues)` with point weights: every voxel holds
the summed weight of exactly the records that pass the file filters, belong to the chain selection and are mapped to it -/
theorem fromFile_voxel (nd : Nat) (recs : List Rec) (e rs : Option (List String)) (shape : Option (List Int))
    (r : List Rat) (origin : Option (List Rat)) (chain : Option String) (wt : WType) (v : List Nat)
    (hv : inShape (toNats (toVolumeCore nd (subsetByChain chain ((recs.filter (fun x => fileKeep e rs false x)).map (·.atom)))
      shape r origin wt).shape) v = true) :
    (toVolumeCore nd (subsetByChain chain ((recs.filter (fun x => fileKeep e rs false x)).map (·.atom))) shape r origin wt).grid.getD v 0 =
      ((recs.filter (fun x => (fileKeep e rs false x && chainSel chain x.atom) &&
          decide (posOf r (frameOf nd (subsetByChain chain ((recs.filter (fun x => fileKeep e rs false x)).map (·.atom))) shape r origin)
            x.atom.xyz.reverse = v.map Int.ofNat))).map (fun x => weightOf wt x.atom.elem)).sum := by
  rw [toVolume_voxel _ _ _ _ _ _ v hv]
  generalize frameOf nd (subsetByChain chain ((recs.filter (fun x => fileKeep e rs false x)).map (·.atom))) shape r origin = fr
  rw [subsetByChain_eq_filter]
  simp only [List.filter_map, List.filter_filter, List.map_map]
  congr 1
  congr 1
  apply List.filter_congr
  intro x _
  simp only [Function.comp, Bool.and_comm, Bool.and_assoc]

example :
    let recs : List Rec := [⟨⟨[0, 0, 0], "C", "A"⟩, "GLY", "ATOM"⟩, ⟨⟨[1, 1, 1], "O", "A"⟩, "SER", "ATOM"⟩,
      ⟨⟨[1, 1, 1], "N", "B"⟩, "SER", "ATOM"⟩, ⟨⟨[1, 0, 0], "ZN", "A"⟩, "ZN", "HETATM"⟩]
    (fromFileK 3 recs none (some ["SER", "ZN"]) (some [2, 2, 2]) none (some [0, 0, 0]) none (.point .atomicNumber)).toOption.map
      (fun o => o.grid.toList) = some [0, 0, 0, 0, 0, 0, 0, 15] := by decide +kernel

/-- grid level symmetry: an atom contributes the same to a voxel and to its mirror image about the atom's voxel,
whenever both are inside the box (the only asymmetry of the van der Waals volume is the clipping by the faces) -/
theorem vdw_contribution_mirror (shape p k v : List Int) (hk : k.length = p.length) (hp : p.length = shape.length)
    (hv : inBox shape v = true) (hm : inBox shape (mirror p v) = true) :
    vdwContribution shape p k (mirror p v) = vdwContribution shape p k v := by
  rw [vdwContribution_eq shape p k _ hk hp, vdwContribution_eq shape p k _ hk hp, hv, hm, offs_mirror, sphere_symmetric]

example : mirror [5, 5] [6, 3] = [4, 7] ∧ vdwContribution [10, 10] [5, 5] [2, 3] [6, 3] = 1 ∧
    vdwContribution [10, 10] [5, 5] [2, 3] [4, 7] = 1 := by decide +kernel

/-- shape derived: also for the sphere / support weight types no atom is outside -/
theorem toVolumeK_derived_all_inside (nd : Nat) (atoms : List Atom) (rate origin : Option (List Rat))
    (chain : Option String) (wk : WKind) (hwk : wk = .vdw ∨ wk = .scattering) (out : OutK)
    (h : toVolumeK nd atoms none rate origin chain wk = .ok out)
    (hx : ∀ a ∈ atoms, a.xyz.length = nd) (hol : ∀ o, origin = some o → o.length = nd)
    (hrp : ∀ r, resolveRate nd rate = some r → ∀ k, k < nd → 0 < r.getD k 0) : out.outside = 0 := by
  obtain ⟨r, hr, _, _, _, ho, _⟩ := toVolumeK_frame nd atoms none rate origin chain wk hwk out h
  rw [ho]
  exact (derived_all_inside nd (subsetByChain chain atoms) r origin .atomicNumber
    (fun a ha => hx a (mem_subsetByChain ha)) (resolveRate_length nd rate r hr) hol (hrp r hr)).1

example :
    let atoms : List Atom := [⟨[0, 0, 0], "C", "A"⟩, ⟨[2, 1, 1], "N", "A"⟩, ⟨[-3, 5/2, 7], "S", "B"⟩]
    (toVolumeK 3 atoms none (some [1, 2, 1/2]) (some [1, 1, 1]) none .vdw).toOption.map (fun o => (o.outside, o.shape)) =
      some (0, [8, 2, 11]) := by decide +kernel

/-- an atom inside the box whose radius is at least one voxel on every axis marks its own voxel -/
theorem vdw_centre_covered (shape p k : List Int) (hk : k.length = p.length) (hp : inBox shape p = true)
    (hpos : ∀ x ∈ k, 0 < x) : vdwContribution shape p k p = 1 := by
  rw [vdwContribution_eq shape p k p hk (inBox_length hp), hp, offs_self, ← hk, sphere_contains_centre k hpos]
  rfl

example : vdwContribution [4, 4] [0, 3] [1, 2] [0, 3] = 1 ∧ vdwContribution [4, 4] [0, 3] [0, 0] [0, 3] = 0 := by decide +kernel

/-- (helper) every range contains the atom's voxel and none is empty when every radius is at least one voxel -/
theorem inRanges_centre : ∀ (p : List Int) (R : List Rat) (shape : List Int), inBox shape p = true →
    R.length = shape.length → (∀ x ∈ R, 1 ≤ x) →
    inRanges (zip3 scatRange p R shape) p = true ∧ (zip3 scatRange p R shape).any rangeEmpty = false
  | [], [], [], _, _, _ => by simp [zip3, inRanges]
  | [], _ :: _, [], _, hl, _ => by simp at hl
  | [], _ :: _, _ :: _, h, _, _ => by simp [inBox] at h
  | _ :: _, _, [], h, _, _ => by simp [inBox] at h
  | _ :: _, [], _ :: _, _, h, _ => by simp at h
  | [], [], _ :: _, h, _, _ => by simp [inBox] at h
  | p :: ps, R :: Rs, n :: ns, h, hl, hR => by
      obtain ⟨hb, hr⟩ := inBox_cons.mp h
      obtain ⟨ih1, ih2⟩ := inRanges_centre ps Rs ns hr (by simpa using hl) (fun x hx => hR x (by simp [hx]))
      have hc := (scat_axis_centre_iff p R n hb).mpr (hR R (by simp))
      refine ⟨?_, ?_⟩
      · simp only [zip3, inRanges, Bool.and_eq_true, decide_eq_true_eq]
        exact ⟨hc, ih1⟩
      · simp only [zip3, List.any_cons, Bool.or_eq_false_iff]
        refine ⟨?_, ih2⟩
        simp only [rangeEmpty, decide_eq_false_iff_not]
        omega

/-- an atom inside the box whose radius is at least one voxel on every axis contributes to its own voxel (and the
conversion does not raise on its account) -/
theorem scat_centre_covered (p : List Int) (R : List Rat) (shape : List Int) (hp : inBox shape p = true)
    (hl : R.length = shape.length) (hR : ∀ x ∈ R, 1 ≤ x) : scatCovers p R shape p = true := by
  obtain ⟨h1, h2⟩ := inRanges_centre p R shape hp hl hR
  unfold scatCovers scatSupport
  by_cases hc : rangeEmpty ((zip3 scatRange p R shape).getD 1 (0, 0)) = true
  · simp only
    rw [if_pos hc]
    simp
  · simp only
    rw [if_neg hc, if_neg (by rw [h2]; simp)]
    exact h1

example : scatCovers [0, 3, 1] [1, 3/2, 2] [1, 4, 2] [0, 3, 1] = true := by decide +kernel

/-- `to_volume(weight_type="gaussian")` when no atom is outside the requested box (in particular when none is
requested): the array handed to the Gaussian filter sums to the summed atomic number of the chain subset -/
theorem toVolumeK_gaussian_total (nd pad : Nat) (atoms : List Atom) (shape : Option (List Int)) (rate origin : Option (List Rat))
    (chain : Option String) (out : OutK) (h : toVolumeK nd atoms shape rate origin chain (.gaussian pad) = .ok out)
    (hx : ∀ a ∈ atoms, a.xyz.length = nd)
    (hrp : ∀ r, resolveRate nd rate = some r → ∀ k, k < nd → 0 < r.getD k 0) (hout : out.outside = 0) :
    out.grid.data.toList.sum = ((subsetByChain chain atoms).map (fun a => weightOf .atomicNumber a.elem)).sum := by
  unfold toVolumeK at h
  simp only at h
  split at h
  · cases h
  · rename_i r hr
    have hrl := resolveRate_length nd rate r hr
    split at h
    · cases h
    · split at h
      · cases h
      · rename_i ws hws
        split at h
        · cases h
        · cases h
          simp only at hout ⊢
          set sub := subsetByChain chain atoms with hsub
          set fr := frame nd (sub.map (fun a => a.xyz.reverse)) shape r origin with hfr
          set all := sub.map (fun a => (posOf r fr a.xyz.reverse, a.elem)) with hall
          have hle : (all.filter (fun pe => inBox fr.shape pe.1)).length ≤ all.length := List.length_filter_le _ _
          have hal : all.length = sub.length := by simp [hall]
          have hlen : (all.filter (fun pe => inBox fr.shape pe.1)).length = sub.length := by omega
          have hkeep : all.filter (fun pe => inBox fr.shape pe.1) = all :=
            filter_eq_self_of_length _ _ (by omega)
          rw [if_pos hlen] at hws
          cases hws
          have hcl : ∀ c ∈ sub.map (fun a => a.xyz.reverse), c.length = nd := by
            intro c hc
            obtain ⟨a, ha, rfl⟩ := List.mem_map.mp hc
            simpa using hx a (mem_subsetByChain ha)
          rw [(molmap_total nd pad r _ _ hrl (hrp r hr) hcl (by rw [List.length_map, List.length_map]; exact hlen)).2.2, hkeep, hall, List.map_map]
          rfl

example :
    let atoms : List Atom := [⟨[0, 0, 0], "C", "A"⟩, ⟨[2, 1, 1], "N", "B"⟩, ⟨[4, 4, 4], "O", "A"⟩]
    (toVolumeK 3 atoms (some [11, 11, 11]) (some [1/2]) (some [-1, -1, -1]) none (.gaussian 3)).toOption.map
      (fun o => (o.outside, o.grid.toList.sum)) = some (0, 21) := by decide +kernel

/-! ## the radius table -/


/-- the radius table has the keys of the weight table, in the same order (one `Elements._elements` dict) -/
theorem vdwrTable_keys : vdwrTable.map (·.1) = elementTable.map (·.1) := by decide +kernel

/-- a symbol that is no table key has radius 0 (`Elements._default`), every axis radius is then 0 voxels and the atom
deposits nothing, whatever the sampling rate -/
theorem unknown_symbol_deposits_nothing (sym : String) (h : vdwrTable.find? (fun e => e.1 == sym) = none)
    (rate : List Rat) (hr : rate ≠ []) (d : List Int) :
    vdwrOf sym = some 0 ∧ inSphere (vdwRadius (vdwrD sym) rate) d = false := by
  have h0 : vdwrOf sym = some 0 := by unfold vdwrOf; rw [h]
  refine ⟨h0, ?_⟩
  cases rate with
  | nil => exact absurd rfl hr
  | cons r rs =>
    apply sphere_empty_of_zero_radius _ d (ceilQ (((vdwrD sym : Nat) : Rat) / (r * 100))) (by simp [vdwRadius])
    unfold vdwrD
    rw [h0]
    simp [ceilQ, floor_eq]

example : vdwrTable.find? (fun e => e.1 == "Xx") = none ∧ vdwrOf "Zn" = some 0 ∧ vdwrOf "ZN" = some 201 ∧ vdwrOf "OG" = none := by
  decide +kernel


/-! ## deepening: additivity, order independence, counts, boundary, covariance -/

/-- `np.add.at` is additive over concatenation of the entry lists: every voxel of `deposit (a ++ b)` is the sum of the
voxels of `deposit a` and `deposit b` -/
theorem deposit_append_voxel (shape : List Nat) (a b : List (List Nat × Int))
    (ha : ∀ pw ∈ a, inShape shape pw.1 = true) (hb : ∀ pw ∈ b, inShape shape pw.1 = true)
    (v : List Nat) (hv : inShape shape v = true) :
    (deposit shape (a ++ b)).getD v 0 = (deposit shape a).getD v 0 + (deposit shape b).getD v 0 := by
  have hab : ∀ pw ∈ a ++ b, inShape shape pw.1 = true := by
    intro pw h; rcases List.mem_append.mp h with h | h
    · exact ha pw h
    · exact hb pw h
  rw [deposit_voxel _ _ hab v hv, deposit_voxel _ _ ha v hv, deposit_voxel _ _ hb v hv]
  simp [List.filter_append]

/-- the summed weight of the entries selected by any predicate does not depend on the order of the list -/
theorem perm_sum_filter {α : Type} (w : α → Int) (q : α → Bool) {a b : List α} (h : a.Perm b) :
    ((a.filter q).map w).sum = ((b.filter q).map w).sum := by
  induction h with
  | nil => rfl
  | cons x _ ih => by_cases hq : q x = true <;> simp [hq, ih]
  | swap x y l => by_cases hx : q x = true <;> by_cases hy : q y = true <;> (simp [hx, hy]; try omega)
  | trans _ _ ih1 ih2 => exact ih1.trans ih2

/-- `np.add.at` does not depend on the order of the entries: any permutation gives the same voxel values -/
theorem deposit_perm_voxel (shape : List Nat) (a b : List (List Nat × Int)) (h : a.Perm b)
    (ha : ∀ pw ∈ a, inShape shape pw.1 = true) (v : List Nat) (hv : inShape shape v = true) :
    (deposit shape a).getD v 0 = (deposit shape b).getD v 0 := by
  have hb : ∀ pw ∈ b, inShape shape pw.1 = true := fun pw hp => ha pw (h.mem_iff.mpr hp)
  rw [deposit_voxel _ _ ha v hv, deposit_voxel _ _ hb v hv]
  exact perm_sum_filter _ _ h

/-- all weights zero ⇒ every voxel of the deposit is zero -/
theorem deposit_zero_weights (shape : List Nat) (ps : List (List Nat × Int))
    (hps : ∀ pw ∈ ps, inShape shape pw.1 = true) (hw : ∀ pw ∈ ps, pw.2 = 0)
    (v : List Nat) (hv : inShape shape v = true) : (deposit shape ps).getD v 0 = 0 := by
  rw [deposit_voxel _ _ hps v hv]
  apply List.sum_eq_zero
  intro x hx
  obtain ⟨pw, hpw, rfl⟩ := List.mem_map.mp hx
  exact hw pw (List.mem_of_mem_filter hpw)

/-- a structure whose atoms all weigh nothing (e.g. only unknown element symbols) gives the all-zero grid, whatever
shape / origin are given or derived -/
theorem toVolume_zero_weights (nd : Nat) (sub : List Atom) (shape : Option (List Int)) (r : List Rat)
    (origin : Option (List Rat)) (wt : WType) (hw : ∀ a ∈ sub, weightOf wt a.elem = 0) (v : List Nat)
    (hv : inShape (toNats (toVolumeCore nd sub shape r origin wt).shape) v = true) :
    (toVolumeCore nd sub shape r origin wt).grid.getD v 0 = 0 := by
  rw [toVolume_voxel _ _ _ _ _ _ v hv]
  apply List.sum_eq_zero
  intro x hx
  obtain ⟨a, ha, rfl⟩ := List.mem_map.mp hx
  exact hw a (List.mem_of_mem_filter ha)

/-- the grid always has the returned shape -/
theorem toVolume_grid_shape (nd : Nat) (sub : List Atom) (shape : Option (List Int)) (r : List Rat)
    (origin : Option (List Rat)) (wt : WType) :
    (toVolumeCore nd sub shape r origin wt).grid.shape = toNats (toVolumeCore nd sub shape r origin wt).shape := by
  unfold toVolumeCore
  simp only
  rw [deposit_shape]

/-- every atom is counted exactly once: reported outside count + number of atoms kept = number of atoms -/
theorem outside_plus_inside (nd : Nat) (sub : List Atom) (shape : Option (List Int)) (r : List Rat)
    (origin : Option (List Rat)) (wt : WType) :
    (toVolumeCore nd sub shape r origin wt).outside + (toVolumeCore nd sub shape r origin wt).kept.length = sub.length := by
  unfold toVolumeCore
  simp only
  have h := List.length_filter_le (fun pw : List Int × Int =>
    inBox (frame nd (sub.map (fun a => a.xyz.reverse)) shape r origin).shape pw.1)
    (placed r (frame nd (sub.map (fun a => a.xyz.reverse)) shape r origin) wt sub)
  have h2 : (placed r (frame nd (sub.map (fun a => a.xyz.reverse)) shape r origin) wt sub).length = sub.length := by
    simp [placed]
  omega

/-- origin and shape given: sampling the concatenation of two atom lists gives, voxel by voxel, the sum of the two grids -/
theorem given_box_append_voxel (nd : Nat) (a b : List Atom) (s : List Int) (r o : List Rat) (wt : WType)
    (v : List Nat) (hv : inShape (toNats s) v = true) :
    (toVolumeCore nd (a ++ b) (some s) r (some o) wt).grid.getD v 0 =
      (toVolumeCore nd a (some s) r (some o) wt).grid.getD v 0 + (toVolumeCore nd b (some s) r (some o) wt).grid.getD v 0 := by
  have hs : ∀ X, (toVolumeCore nd X (some s) r (some o) wt).shape = s := by
    intro X; simp [toVolumeCore, frame_given]
  have hf : ∀ X, frameOf nd X (some s) r (some o) = ⟨o, List.replicate nd 0, s, o⟩ := by
    intro X; simp [frameOf, frame_given]
  rw [toVolume_voxel _ _ _ _ _ _ v (by rw [hs]; exact hv), toVolume_voxel _ _ _ _ _ _ v (by rw [hs]; exact hv),
    toVolume_voxel _ _ _ _ _ _ v (by rw [hs]; exact hv)]
  simp only [hf, List.filter_append, List.map_append, List.sum_append]

/-- origin and shape given: the grid does not depend on the order of the atoms -/
theorem given_box_perm_voxel (nd : Nat) (a b : List Atom) (h : a.Perm b) (s : List Int) (r o : List Rat) (wt : WType)
    (v : List Nat) (hv : inShape (toNats s) v = true) :
    (toVolumeCore nd a (some s) r (some o) wt).grid.getD v 0 = (toVolumeCore nd b (some s) r (some o) wt).grid.getD v 0 := by
  have hs : ∀ X, (toVolumeCore nd X (some s) r (some o) wt).shape = s := by
    intro X; simp [toVolumeCore, frame_given]
  have hf : ∀ X, frameOf nd X (some s) r (some o) = ⟨o, List.replicate nd 0, s, o⟩ := by
    intro X; simp [frameOf, frame_given]
  rw [toVolume_voxel _ _ _ _ _ _ v (by rw [hs]; exact hv), toVolume_voxel _ _ _ _ _ _ v (by rw [hs]; exact hv)]
  simp only [hf]
  exact perm_sum_filter _ _ h

/-- origin and shape given: the grid total (in any rank) does not depend on the order of the atoms -/
theorem given_box_perm_total (nd : Nat) (a b : List Atom) (h : a.Perm b) (s : List Int) (r o : List Rat) (wt : WType) :
    (toVolumeCore nd a (some s) r (some o) wt).grid.data.toList.sum =
      (toVolumeCore nd b (some s) r (some o) wt).grid.data.toList.sum := by
  have hs : ∀ X, (toVolumeCore nd X (some s) r (some o) wt).shape = s := by
    intro X; simp [toVolumeCore, frame_given]
  have hf : ∀ X, frameOf nd X (some s) r (some o) = ⟨o, List.replicate nd 0, s, o⟩ := by
    intro X; simp [frameOf, frame_given]
  rw [toVolume_total, toVolume_total]
  simp only [hf, hs]
  exact perm_sum_filter _ _ h

/-- origin and shape given: the grid total is additive over concatenation of atom lists -/
theorem given_box_append_total (nd : Nat) (a b : List Atom) (s : List Int) (r o : List Rat) (wt : WType) :
    (toVolumeCore nd (a ++ b) (some s) r (some o) wt).grid.data.toList.sum =
      (toVolumeCore nd a (some s) r (some o) wt).grid.data.toList.sum +
      (toVolumeCore nd b (some s) r (some o) wt).grid.data.toList.sum := by
  have hs : ∀ X, (toVolumeCore nd X (some s) r (some o) wt).shape = s := by
    intro X; simp [toVolumeCore, frame_given]
  have hf : ∀ X, frameOf nd X (some s) r (some o) = ⟨o, List.replicate nd 0, s, o⟩ := by
    intro X; simp [frameOf, frame_given]
  rw [toVolume_total, toVolume_total, toVolume_total]
  simp only [hf, hs, List.filter_append, List.map_append, List.sum_append]

/-- origin and shape given: the outside count is additive over concatenation of atom lists -/
theorem given_box_outside_append (nd : Nat) (a b : List Atom) (s : List Int) (r o : List Rat) (wt : WType) :
    (toVolumeCore nd (a ++ b) (some s) r (some o) wt).outside =
      (toVolumeCore nd a (some s) r (some o) wt).outside + (toVolumeCore nd b (some s) r (some o) wt).outside := by
  have hs : ∀ X, (toVolumeCore nd X (some s) r (some o) wt).shape = s := by
    intro X; simp [toVolumeCore, frame_given]
  have hf : ∀ X, frameOf nd X (some s) r (some o) = ⟨o, List.replicate nd 0, s, o⟩ := by
    intro X; simp [frameOf, frame_given]
  rw [outside_count_exact, outside_count_exact, outside_count_exact]
  simp only [hf, hs, List.filter_append, List.length_append]

/-- origin and shape given: the outside count does not depend on the order of the atoms -/
theorem given_box_outside_perm (nd : Nat) (a b : List Atom) (h : a.Perm b) (s : List Int) (r o : List Rat) (wt : WType) :
    (toVolumeCore nd a (some s) r (some o) wt).outside = (toVolumeCore nd b (some s) r (some o) wt).outside := by
  have hs : ∀ X, (toVolumeCore nd X (some s) r (some o) wt).shape = s := by
    intro X; simp [toVolumeCore, frame_given]
  have hf : ∀ X, frameOf nd X (some s) r (some o) = ⟨o, List.replicate nd 0, s, o⟩ := by
    intro X; simp [frameOf, frame_given]
  rw [outside_count_exact, outside_count_exact]
  simp only [hf, hs]
  exact (h.filter _).length_eq

example : ([⟨[0, 0, 0], "C", "A"⟩, ⟨[1, 1, 1], "O", "A"⟩] : List Atom).Perm [⟨[1, 1, 1], "O", "A"⟩, ⟨[0, 0, 0], "C", "A"⟩] :=
  List.Perm.swap _ _ _


/-- the bounds filter, axis by axis: a position is inside iff it has the rank of the shape and `0 ≤ p_k < shape_k` on
every axis -/
theorem inBox_iff : ∀ (s p : List Int), inBox s p = true ↔
    (s.length = p.length ∧ ∀ k, k < p.length → 0 ≤ p.getD k 0 ∧ p.getD k 0 < s.getD k 0)
  | [], [] => by simp [inBox]
  | [], _ :: _ => by simp [inBox]
  | _ :: _, [] => by simp [inBox]
  | s :: ss, x :: xs => by
      rw [inBox_cons, inBox_iff ss xs]
      constructor
      · rintro ⟨h0, hl, h⟩
        refine ⟨by simp [hl], ?_⟩
        intro k hk
        cases k with
        | zero => simpa using h0
        | succ k => simpa using h k (by simpa using hk)
      · rintro ⟨hl, h⟩
        refine ⟨by simpa using h 0 (by simp), by simpa using hl, ?_⟩
        intro k hk
        simpa using h (k + 1) (by simpa using hk)

/-- an atom whose index equals the extent on some axis (exactly on the upper boundary) is OUTSIDE … -/
theorem upper_boundary_outside (s p : List Int) (k : Nat) (hk : k < p.length) (h : p.getD k 0 = s.getD k 0) :
    inBox s p = false := by
  cases hb : inBox s p with
  | false => rfl
  | true =>
    have := ((inBox_iff s p).mp hb).2 k hk
    omega

/-- … and so is one with a negative index on some axis (no wrap-around to the far side of the array) -/
theorem negative_index_outside (s p : List Int) (k : Nat) (hk : k < p.length) (h : p.getD k 0 < 0) :
    inBox s p = false := by
  cases hb : inBox s p with
  | false => rfl
  | true =>
    have := ((inBox_iff s p).mp hb).2 k hk
    omega

/-- the last voxel of every axis (index = extent − 1) is inside, for every shape with positive extents -/
theorem last_voxel_inside (s : List Int) (hs : ∀ x ∈ s, 0 < x) : inBox s (s.map (· - 1)) = true := by
  induction s with
  | nil => rfl
  | cons x xs ih =>
    rw [List.map_cons, inBox_cons]
    have hx := hs x (by simp)
    exact ⟨by omega, ih (fun y hy => hs y (by simp [hy]))⟩

example : inBox [2, 3] [1, 2] = true ∧ inBox [2, 3] [2, 0] = false ∧ inBox [2, 3] [0, 3] = false ∧
    inBox [2, 3] [0, -1] = false := by decide +kernel

/-- translation covariance, one axis: shifting coordinate and origin by the same amount leaves the index unchanged -/
theorem axisIdx_translate (c o r t : Rat) : axisIdx (c + t) (o + t) r = axisIdx c o r := by
  unfold axisIdx
  congr 1
  ring

/-- translation covariance: shifting all coordinates and the origin by the same vector leaves every voxel index unchanged -/
theorem idxOf_translate : ∀ (c o r t : List Rat), c.length ≤ t.length →
    idxOf (List.zipWith (· + ·) o t) r (List.zipWith (· + ·) c t) = idxOf o r c
  | [], _, _, _, _ => by simp [idxOf, zip3]
  | _ :: _, _, _, [], h => by simp at h
  | _ :: _, [], _, _ :: _, _ => by simp [idxOf, zip3]
  | _ :: _, _ :: _, [], _ :: _, _ => by simp [idxOf, zip3]
  | c :: cs, o :: os, r :: rs, t :: ts, h => by
      have ih := idxOf_translate cs os rs ts (by simpa using h)
      unfold idxOf at ih ⊢
      simp only [List.zipWith_cons_cons, zip3]
      rw [ih, axisIdx_translate]

/-- scaling covariance, one axis: multiplying coordinate, origin and sampling rate by the same non-zero factor (a change
of length unit) leaves the index unchanged -/
theorem axisIdx_scale (c o r k : Rat) (hk : k ≠ 0) : axisIdx (k * c) (k * o) (k * r) = axisIdx c o r := by
  unfold axisIdx
  congr 1
  rw [← mul_sub, mul_div_mul_left _ _ hk]

/-- scaling covariance: a change of length unit applied to coordinates, origin and sampling rate leaves every voxel
index unchanged -/
theorem idxOf_scale (k : Rat) (hk : k ≠ 0) : ∀ (c o r : List Rat),
    idxOf (o.map (k * ·)) (r.map (k * ·)) (c.map (k * ·)) = idxOf o r c
  | [], _, _ => by simp [idxOf, zip3]
  | _ :: _, [], _ => by simp [idxOf, zip3]
  | _ :: _, _ :: _, [] => by simp [idxOf, zip3]
  | c :: cs, o :: os, r :: rs => by
      have ih := idxOf_scale k hk cs os rs
      unfold idxOf at ih ⊢
      simp only [List.map_cons, zip3]
      rw [ih, axisIdx_scale _ _ _ _ hk]

example : idxOf [1/2, 0] [1, 2] [3, 5/2] = [2, 1] ∧ idxOf [1/2 + 7, 0 - 3] [1, 2] [3 + 7, 5/2 - 3] = [2, 1] ∧
    idxOf [10 * (1/2), 0] [10, 20] [30, 25] = [2, 1] := by decide +kernel

/-- the property as a function: the spec voxel is additive over concatenation of atom lists -/
theorem specVoxel_append (o r : List Rat) (a b : List (List Rat × Int)) (v : List Int) :
    specVoxel o r (a ++ b) v = specVoxel o r a v + specVoxel o r b v := by
  simp [specVoxel, List.filter_append]

/-- … and independent of the order of the atoms -/
theorem specVoxel_perm (o r : List Rat) (a b : List (List Rat × Int)) (h : a.Perm b) (v : List Int) :
    specVoxel o r a v = specVoxel o r b v := perm_sum_filter _ _ h

/-- the spec total is independent of the order of the atoms and additive over concatenation -/
theorem specTotal_perm_append (o r : List Rat) (s : List Int) (a b c : List (List Rat × Int)) (h : a.Perm b) :
    specTotal o r s a = specTotal o r s b ∧ specTotal o r s (a ++ c) = specTotal o r s a + specTotal o r s c :=
  ⟨perm_sum_filter _ _ h, by simp [specTotal, List.filter_append]⟩

/-- the spec outside count is additive over concatenation, order independent, and complements the inside count -/
theorem specOutside_append_perm (o r : List Rat) (s : List Int) (a b c : List (List Rat × Int)) (h : a.Perm b) :
    specOutside o r s (a ++ c) = specOutside o r s a + specOutside o r s c ∧
    specOutside o r s a = specOutside o r s b ∧
    specOutside o r s a + (a.filter (fun x => inBox s (idxOf o r x.1.reverse))).length = a.length := by
  refine ⟨by simp [specOutside, List.filter_append], (h.filter _).length_eq, ?_⟩
  unfold specOutside
  have := length_filter_not a (fun x => inBox s (idxOf o r x.1.reverse))
  have h2 := List.length_filter_le (fun x : List Rat × Int => inBox s (idxOf o r x.1.reverse)) a
  omega

/-- the spec total is the sum of the spec voxels' atoms: an atom contributes to the total iff its voxel is inside -/
theorem specTotal_zero_weights (o r : List Rat) (s : List Int) (a : List (List Rat × Int)) (hw : ∀ x ∈ a, x.2 = 0) :
    specTotal o r s a = 0 := by
  unfold specTotal
  apply List.sum_eq_zero
  intro x hx
  obtain ⟨y, hy, rfl⟩ := List.mem_map.mp hx
  exact hw y (List.mem_of_mem_filter hy)

/-- chain / element restriction as a difference: the grid of the kept atoms is the full grid minus the grid of the
removed atoms, voxel by voxel (origin and shape given) -/
theorem restriction_is_full_minus_removed (nd : Nat) (sub : List Atom) (s : List Int) (r o : List Rat) (wt : WType)
    (p : Atom → Bool) (v : List Nat) (hv : inShape (toNats s) v = true) :
    (toVolumeCore nd (sub.filter p) (some s) r (some o) wt).grid.getD v 0 =
      (toVolumeCore nd sub (some s) r (some o) wt).grid.getD v 0 -
      (toVolumeCore nd (sub.filter (fun a => !p a)) (some s) r (some o) wt).grid.getD v 0 := by
  have := chain_restriction_diff nd sub s r o wt p v hv
  omega

/-- `chain=None` restricts nothing; a chain string keeps exactly the atoms whose chain is one of its comma-separated
parts, so chains not named contribute to no voxel -/
theorem subsetByChain_mem (c : String) (atoms : List Atom) (a : Atom) :
    subsetByChain none atoms = atoms ∧
    (a ∈ subsetByChain (some c) atoms ↔ a ∈ atoms ∧ a.chain ∈ c.splitOn ",") := by
  refine ⟨rfl, ?_⟩
  simp [subsetByChain, List.mem_filter]


/-- origin and shape given: the stored position of an atom is `rint((zyx − origin)/rate)` -/
theorem given_box_pos (nd : Nat) (s : List Int) (r o : List Rat) (c : List Rat) (hc : c.length ≤ nd) :
    posOf r ⟨o, List.replicate nd 0, s, o⟩ c = idxOf o r c := by
  unfold posOf
  simp only
  apply subPos_zeros
  exact Nat.le_trans (zip3_length_le _ _ _ _) hc

/-- origin and shape given: every voxel of the grid is the property's spec function `specVoxel` (summed weight of the
atoms with `round((zyx − origin)/rate) = v`) of the atom list -/
theorem given_box_voxel_is_spec (nd : Nat) (sub : List Atom) (s : List Int) (r o : List Rat) (wt : WType)
    (hx : ∀ a ∈ sub, a.xyz.length ≤ nd) (v : List Nat) (hv : inShape (toNats s) v = true) :
    (toVolumeCore nd sub (some s) r (some o) wt).grid.getD v 0 =
      specVoxel o r (sub.map (fun a => (a.xyz, weightOf wt a.elem))) (v.map Int.ofNat) := by
  have hs : (toVolumeCore nd sub (some s) r (some o) wt).shape = s := by simp [toVolumeCore, frame_given]
  have hf : frameOf nd sub (some s) r (some o) = ⟨o, List.replicate nd 0, s, o⟩ := by simp [frameOf, frame_given]
  rw [toVolume_voxel _ _ _ _ _ _ v (by rw [hs]; exact hv), hf]
  unfold specVoxel
  rw [List.filter_map, List.map_map]
  have : sub.filter (fun a => decide (posOf r ⟨o, List.replicate nd 0, s, o⟩ a.xyz.reverse = v.map Int.ofNat)) =
      sub.filter ((fun a : List Rat × Int => idxOf o r a.1.reverse == v.map Int.ofNat) ∘
        (fun a : Atom => (a.xyz, weightOf wt a.elem))) :=
    List.filter_congr (fun a ha => by
      simp only [Function.comp, given_box_pos nd s r o a.xyz.reverse (by simpa using hx a ha), beq_eq_decide])
  rw [this]
  rfl

/-- origin and shape given: the grid total is the spec function `specTotal`, the reported outside count is `specOutside` -/
theorem given_box_total_outside_is_spec (nd : Nat) (sub : List Atom) (s : List Int) (r o : List Rat) (wt : WType)
    (hx : ∀ a ∈ sub, a.xyz.length ≤ nd) :
    (toVolumeCore nd sub (some s) r (some o) wt).grid.data.toList.sum =
      specTotal o r s (sub.map (fun a => (a.xyz, weightOf wt a.elem))) ∧
    (toVolumeCore nd sub (some s) r (some o) wt).outside =
      specOutside o r s (sub.map (fun a => (a.xyz, weightOf wt a.elem))) := by
  have hs : (toVolumeCore nd sub (some s) r (some o) wt).shape = s := by simp [toVolumeCore, frame_given]
  have hf : frameOf nd sub (some s) r (some o) = ⟨o, List.replicate nd 0, s, o⟩ := by simp [frameOf, frame_given]
  constructor
  · rw [toVolume_total, hf, hs]
    unfold specTotal
    rw [List.filter_map, List.map_map]
    have : sub.filter (fun a => inBox s (posOf r ⟨o, List.replicate nd 0, s, o⟩ a.xyz.reverse)) =
        sub.filter ((fun a : List Rat × Int => inBox s (idxOf o r a.1.reverse)) ∘
          (fun a : Atom => (a.xyz, weightOf wt a.elem))) :=
      List.filter_congr (fun a ha => by
        simp [given_box_pos nd s r o a.xyz.reverse (by simpa using hx a ha)])
    rw [this]
    rfl
  · rw [outside_count_exact, hf, hs]
    unfold specOutside
    rw [List.filter_map, List.length_map]
    congr 1
    exact List.filter_congr (fun a ha => by
      simp [given_box_pos nd s r o a.xyz.reverse (by simpa using hx a ha)])

/-- translation covariance end to end (origin and shape given): moving every atom and the origin by the same vector `t`
(z,y,x order) gives the same positions, the same outside count and the same grid -/
theorem given_box_translate (nd : Nat) (sub : List Atom) (s : List Int) (r o t : List Rat) (wt : WType)
    (ht : ∀ a ∈ sub, a.xyz.length ≤ t.length) :
    let sub' := sub.map (fun a => (⟨(List.zipWith (· + ·) a.xyz.reverse t).reverse, a.elem, a.chain⟩ : Atom))
    let o' := List.zipWith (· + ·) o t
    (toVolumeCore nd sub' (some s) r (some o') wt).kept = (toVolumeCore nd sub (some s) r (some o) wt).kept ∧
    (toVolumeCore nd sub' (some s) r (some o') wt).outside = (toVolumeCore nd sub (some s) r (some o) wt).outside ∧
    (toVolumeCore nd sub' (some s) r (some o') wt).grid = (toVolumeCore nd sub (some s) r (some o) wt).grid := by
  intro sub' o'
  have hp : placed r ⟨o', List.replicate nd 0, s, o'⟩ wt sub' = placed r ⟨o, List.replicate nd 0, s, o⟩ wt sub := by
    unfold placed
    rw [List.map_map]
    apply List.map_congr_left
    intro a ha
    simp only [Function.comp, posOf, List.reverse_reverse]
    rw [idxOf_translate _ _ _ _ (by simpa using ht a ha)]
  have hl : sub'.length = sub.length := by simp [sub']
  unfold toVolumeCore
  simp only [frame_given, hp, hl, and_self]

/-- scaling covariance end to end (origin and shape given): a change of length unit (coordinates, origin and sampling
rate multiplied by the same non-zero factor) gives the same positions, the same outside count and the same grid -/
theorem given_box_scale (nd : Nat) (sub : List Atom) (s : List Int) (r o : List Rat) (k : Rat) (hk : k ≠ 0) (wt : WType) :
    let sub' := sub.map (fun a => (⟨a.xyz.map (k * ·), a.elem, a.chain⟩ : Atom))
    let o' := o.map (k * ·)
    let r' := r.map (k * ·)
    (toVolumeCore nd sub' (some s) r' (some o') wt).kept = (toVolumeCore nd sub (some s) r (some o) wt).kept ∧
    (toVolumeCore nd sub' (some s) r' (some o') wt).outside = (toVolumeCore nd sub (some s) r (some o) wt).outside ∧
    (toVolumeCore nd sub' (some s) r' (some o') wt).grid = (toVolumeCore nd sub (some s) r (some o) wt).grid := by
  intro sub' o' r'
  have hp : placed r' ⟨o', List.replicate nd 0, s, o'⟩ wt sub' = placed r ⟨o, List.replicate nd 0, s, o⟩ wt sub := by
    unfold placed
    rw [List.map_map]
    apply List.map_congr_left
    intro a ha
    simp only [Function.comp, posOf, ← List.map_reverse]
    rw [idxOf_scale k hk]
  have hl : sub'.length = sub.length := by simp [sub']
  unfold toVolumeCore
  simp only [frame_given, hp, hl, and_self]

example :
    let sub : List Atom := [⟨[0, 0, 0], "C", "A"⟩, ⟨[5, 1, 1], "O", "A"⟩, ⟨[3/2, 1, 0], "N", "A"⟩]
    let sub' : List Atom := [⟨[7, 0, -2], "C", "A"⟩, ⟨[12, 1, -1], "O", "A"⟩, ⟨[17/2, 1, -2], "N", "A"⟩]
    (toVolumeCore 3 sub' (some [2, 2, 3]) [1, 1, 1] (some [-2, 0, 7]) .atomicNumber).grid.toList =
    (toVolumeCore 3 sub (some [2, 2, 3]) [1, 1, 1] (some [0, 0, 0]) .atomicNumber).grid.toList := by decide +kernel


/-- `to_volume(chain=c)` is `to_volume` of the chain subset with no chain argument: the restriction acts on the atom list
and on nothing else (shape / origin derivation, rate, weights all see only the subset) -/
theorem toVolume_chain_is_subset (nd : Nat) (atoms : List Atom) (shape : Option (List Int)) (rate : Option (List Rat))
    (origin : Option (List Rat)) (c : String) (wt : WType) :
    toVolume nd atoms shape rate origin (some c) wt =
      toVolume nd (subsetByChain (some c) atoms) shape rate origin none wt := rfl

/-- shape derived: all atoms are kept (none dropped), in any rank -/
theorem derived_all_kept (nd : Nat) (sub : List Atom) (r : List Rat) (origin : Option (List Rat)) (wt : WType)
    (hx : ∀ a ∈ sub, a.xyz.length = nd) (hrl : r.length = nd) (hol : ∀ o, origin = some o → o.length = nd)
    (hrp : ∀ k, k < nd → 0 < r.getD k 0) :
    (toVolumeCore nd sub none r origin wt).kept.length = sub.length := by
  have h1 := (derived_all_inside nd sub r origin wt hx hrl hol hrp).1
  have h2 := outside_plus_inside nd sub none r origin wt
  omega

/-- shape derived: although the derived frame depends on the atoms, the grid total is additive over concatenation and
independent of the order of the atoms (no mass is lost in either) -/
theorem derived_total_append_perm (nd : Nat) (a b c : List Atom) (hp : a.Perm c) (r : List Rat)
    (origin : Option (List Rat)) (wt : WType)
    (ha : ∀ x ∈ a, x.xyz.length = nd) (hb : ∀ x ∈ b, x.xyz.length = nd) (hrl : r.length = nd)
    (hol : ∀ o, origin = some o → o.length = nd) (hrp : ∀ k, k < nd → 0 < r.getD k 0) :
    (toVolumeCore nd (a ++ b) none r origin wt).grid.data.toList.sum =
      (toVolumeCore nd a none r origin wt).grid.data.toList.sum + (toVolumeCore nd b none r origin wt).grid.data.toList.sum ∧
    (toVolumeCore nd a none r origin wt).grid.data.toList.sum = (toVolumeCore nd c none r origin wt).grid.data.toList.sum := by
  have hab : ∀ x ∈ a ++ b, x.xyz.length = nd := by
    intro x h; rcases List.mem_append.mp h with h | h
    · exact ha x h
    · exact hb x h
  have hc : ∀ x ∈ c, x.xyz.length = nd := fun x hx => ha x (hp.mem_iff.mpr hx)
  rw [(derived_all_inside nd (a ++ b) r origin wt hab hrl hol hrp).2, (derived_all_inside nd a r origin wt ha hrl hol hrp).2,
    (derived_all_inside nd b r origin wt hb hrl hol hrp).2, (derived_all_inside nd c r origin wt hc hrl hol hrp).2]
  refine ⟨by simp, ?_⟩
  have := perm_sum_filter (fun x : Atom => weightOf wt x.elem) (fun _ => true) hp
  simpa using this

/-- origin and shape both derived: the returned origin is, axis by axis, the smallest z,y,x coordinate of the subset -/
theorem derived_origin_is_min (nd : Nat) (sub : List Atom) (r : List Rat) (wt : WType) :
    (toVolumeCore nd sub none r none wt).origin =
      (List.range nd).map (fun k => minQ (col 0 k (sub.map (fun a => a.xyz.reverse)))) := by
  have h := frame_noshift nd (sub.map (fun a => a.xyz.reverse)) none r none rfl
  have h0 := frame_origin0_none nd (sub.map (fun a => a.xyz.reverse)) r
  unfold toVolumeCore
  simp only
  rw [h.2, h0]


/-- chain / element restriction (origin and shape given): the grid total splits into the total of the kept atoms and the
total of the removed atoms, and so does the outside count -/
theorem restriction_total_outside_split (nd : Nat) (sub : List Atom) (s : List Int) (r o : List Rat) (wt : WType)
    (p : Atom → Bool) :
    (toVolumeCore nd sub (some s) r (some o) wt).grid.data.toList.sum =
      (toVolumeCore nd (sub.filter p) (some s) r (some o) wt).grid.data.toList.sum +
      (toVolumeCore nd (sub.filter (fun a => !p a)) (some s) r (some o) wt).grid.data.toList.sum ∧
    (toVolumeCore nd sub (some s) r (some o) wt).outside =
      (toVolumeCore nd (sub.filter p) (some s) r (some o) wt).outside +
      (toVolumeCore nd (sub.filter (fun a => !p a)) (some s) r (some o) wt).outside := by
  have hs : ∀ X, (toVolumeCore nd X (some s) r (some o) wt).shape = s := by
    intro X; simp [toVolumeCore, frame_given]
  have hf : ∀ X, frameOf nd X (some s) r (some o) = ⟨o, List.replicate nd 0, s, o⟩ := by
    intro X; simp [frameOf, frame_given]
  have hlen : ∀ (l : List Atom) (q : Atom → Bool), (l.filter q).length =
      ((l.filter p).filter q).length + ((l.filter (fun a => !p a)).filter q).length := by
    intro l q
    induction l with
    | nil => rfl
    | cons a t ih =>
      by_cases hp : p a = true <;> by_cases hq : q a = true <;> simp [hp, hq, ih] <;> omega
  constructor
  · rw [toVolume_total, toVolume_total, toVolume_total]
    simp only [hf, hs]
    exact sum_filter_split sub p _ _
  · rw [outside_count_exact, outside_count_exact, outside_count_exact]
    simp only [hf, hs]
    exact hlen sub _

end Pm.C10
