import PytmeModel.Model.C10
import PytmeModel.Proofs.C10

/-! # C10 — atoms are deposited on the grid at the right voxel and no mass is lost

All statements are about the executable model `Model/C10.lean` (exact rationals for coordinates, origin,
sampling rate; integer weights), for every structure, rank, shape, origin, rate and chain subset. -/
namespace Pm.C10

/-! ## rounding: `rint` is the nearest integer, ties to even -/

/-- the voxel index is within half a voxel of the exact quotient -/
theorem rint_nearest (q : Rat) : q - 1/2 ≤ (rint q : Rat) ∧ (rint q : Rat) ≤ q + 1/2 := rint_bounds q

/-- … and it is *the* integer strictly within half a voxel whenever there is one (so `floor`, `ceil` or
truncation in its place would be a different function) -/
theorem rint_is_the_nearest (q : Rat) (z : Int) (h1 : q - 1/2 < (z : Rat)) (h2 : (z : Rat) < q + 1/2) :
    rint q = z := rint_unique q z h1 h2

/-- exactly between two integers the even one is taken -/
theorem rint_tie_even (q : Rat) (h : isTie q = true) : rint q % 2 = 0 := by
  have ht := (isTie_iff q).mp h
  rcases rint_cases q with ⟨c, _⟩ | ⟨c, _⟩ | ⟨_, p, e⟩ | ⟨_, p, e⟩
  · linarith
  · linarith
  · rw [e]; exact p
  · rw [e]; omega

example : rint (5/2) = 2 ∧ rint (7/2) = 4 ∧ rint (-5/2) = -2 ∧ rint (9/4) = 2 ∧ rint (-11/4) = -3 := by
  decide +kernel

/-! ## the accumulating deposit -/

/-- `np.add.at`: the value of a voxel is the summed weight of exactly the entries addressed to it
(duplicates accumulate, nothing else is touched) -/
theorem deposit_voxel (shape : List Nat) (ps : List (List Nat × Int))
    (hps : ∀ pw ∈ ps, inShape shape pw.1 = true) (v : List Nat) (hv : inShape shape v = true) :
    (deposit shape ps).getD v 0 = ((ps.filter (fun pw => pw.1 = v)).map (·.2)).sum := by
  rw [deposit_eq, foldl_getD ps (zeros shape) (zeros_size shape) hps v hv, zeros_getD]; simp

theorem deposit_total (shape : List Nat) (ps : List (List Nat × Int))
    (hps : ∀ pw ∈ ps, inShape shape pw.1 = true) :
    (deposit shape ps).data.toList.sum = (ps.map (·.2)).sum := by
  rw [deposit_eq, foldl_sum ps (zeros shape) (zeros_size shape) hps, zeros_sum]; simp

theorem deposit_shape (shape : List Nat) (ps : List (List Nat × Int)) : (deposit shape ps).shape = shape := by
  rw [deposit_eq, foldl_shape]; rfl

example : (deposit [2, 2] [([0, 1], 5), ([1, 1], 7), ([0, 1], 3)]).toList = [0, 8, 0, 7] := by decide

/-! ## `to_volume`: voxel clause, total, outside count -/

/-- the frame `to_volume` works in -/
def frameOf (nd : Nat) (sub : List Atom) (shape : Option (List Int)) (r : List Rat) (origin : Option (List Rat)) : Frame :=
  frame nd (sub.map (fun a => a.xyz.reverse)) shape r origin

theorem toVolume_voxel (nd : Nat) (sub : List Atom) (shape : Option (List Int)) (r : List Rat)
    (origin : Option (List Rat)) (wt : WType) (v : List Nat)
    (hv : inShape (toNats (toVolumeCore nd sub shape r origin wt).shape) v = true) :
    (toVolumeCore nd sub shape r origin wt).grid.getD v 0 =
      ((sub.filter (fun a => posOf r (frameOf nd sub shape r origin) a.xyz.reverse = v.map Int.ofNat)).map
        (fun a => weightOf wt a.elem)).sum := by
  unfold toVolumeCore at hv ⊢
  simp only at hv ⊢
  rw [deposit_voxel _ _ (kept_inShape _ _) v hv, sum_kept_eq _ _ _ hv]
  unfold placed frameOf
  rw [List.filter_map, List.map_map]
  rfl

theorem toVolume_total (nd : Nat) (sub : List Atom) (shape : Option (List Int)) (r : List Rat)
    (origin : Option (List Rat)) (wt : WType) :
    (toVolumeCore nd sub shape r origin wt).grid.data.toList.sum =
      ((sub.filter (fun a => inBox (toVolumeCore nd sub shape r origin wt).shape
          (posOf r (frameOf nd sub shape r origin) a.xyz.reverse))).map (fun a => weightOf wt a.elem)).sum := by
  unfold toVolumeCore
  simp only
  rw [deposit_total _ _ (kept_inShape _ _)]
  unfold placed frameOf
  rw [List.filter_map, List.map_map, List.map_map]
  rfl

theorem outside_count_exact (nd : Nat) (sub : List Atom) (shape : Option (List Int)) (r : List Rat)
    (origin : Option (List Rat)) (wt : WType) :
    (toVolumeCore nd sub shape r origin wt).outside =
      (sub.filter (fun a => !inBox (toVolumeCore nd sub shape r origin wt).shape
          (posOf r (frameOf nd sub shape r origin) a.xyz.reverse))).length := by
  unfold toVolumeCore
  simp only
  unfold placed frameOf
  rw [List.filter_map, List.length_map, length_filter_not]
  rfl


example :
    let sub : List Atom := [⟨[0, 0, 0], "C", "A"⟩, ⟨[1/4, 0, 0], "N", "B"⟩, ⟨[5, 1, 1], "O", "A"⟩, ⟨[0, 0, 9], "Xx", "A"⟩]
    let out := toVolumeCore 3 sub (some [2, 2, 2]) [1, 1, 1] (some [0, 0, 0]) .atomicNumber
    out.outside = 2 ∧ out.grid.toList = [13, 0, 0, 0, 0, 0, 0, 0] ∧ out.kept.map (·.1) = [[0, 0, 0], [0, 0, 0]] := by
  decide +kernel

/-! ## the returned origin and rate reproduce the placement -/

/-- origin given with a shape, or origin derived: no shift — the returned origin is the one used for rounding,
so the stored position of every atom IS `round((zyx − returned origin)/rate)`, ties included -/
theorem returned_origin_consistent_noshift (nd : Nat) (sub : List Atom) (shape : Option (List Int)) (r : List Rat)
    (origin : Option (List Rat)) (h : (origin.isSome && shape.isNone) = false) (c : List Rat) (hc : c.length ≤ nd) :
    idxOf (frameOf nd sub shape r origin).origin r c = posOf r (frameOf nd sub shape r origin) c := by
  unfold frameOf posOf
  obtain ⟨h1, h2⟩ := frame_noshift nd (sub.map (fun a => a.xyz.reverse)) shape r origin h
  rw [h1, h2, subPos_zeros]
  exact Nat.le_trans (zip3_length_le _ _ _ _) hc

/-- origin given, shape derived: positions are moved by `left_shift` whole voxels and the returned origin is
`origin + left_shift·rate`.  On every axis where the quotient is not exactly a half-integer, or the shift is even,
the stored position is `round((zyx − returned origin)/rate)`. -/
theorem derived_origin_consistent (nd : Nat) (sub : List Atom) (r o : List Rat) (c : List Rat)
    (hr : ∀ x ∈ r, x ≠ 0) (ht : tieFree c o (frameOf nd sub none r (some o)).shift r = true) :
    idxOf (frameOf nd sub none r (some o)).origin r c = posOf r (frameOf nd sub none r (some o)) c := by
  have e1 : (frameOf nd sub none r (some o)).origin0 = o := by simp [frameOf, frame]
  have e2 : (frameOf nd sub none r (some o)).origin =
      zip3 (fun (o : Rat) (l : Int) (r : Rat) => o + (l : Rat) * r) o (frameOf nd sub none r (some o)).shift r := by
    simp [frameOf, frame]
  unfold posOf
  rw [e2, e1]
  exact idx_shift c o _ r hr ht

/-- today's behaviour at an exact tie with an odd shift: atoms x = −6/5 and x = 1/2, origin 0, rate 1 — the second
atom is stored in voxel 1 of an axis of extent 2, but `round((1/2 − returned origin)/1) = round(3/2) = 2`. -/
theorem derived_origin_tie_current_defect :
    let sub : List Atom := [⟨[-6/5, 0, 0], "C", "A"⟩, ⟨[1/2, 1, 2], "N", "A"⟩]
    let out := toVolumeCore 3 sub none [1, 1, 1] (some [0, 0, 0]) .atomicWeight
    out.origin = [0, 0, -1] ∧ out.shape = [3, 2, 2] ∧ out.kept.map (·.1) = [[0, 0, 0], [2, 1, 1]] ∧
    idxOf out.origin out.rate [2, 1, 1/2] = [2, 1, 2] := by
  decide +kernel

/-- at exact ties, too, the stored index is *a* nearest integer w.r.t. the returned origin (never a voxel off) -/
theorem derived_origin_nearest (c o r : Rat) (l : Int) (hr : r ≠ 0) :
    (c - (o + (l : Rat) * r)) / r - 1/2 ≤ ((axisIdx c o r - l : Int) : Rat) ∧
    ((axisIdx c o r - l : Int) : Rat) ≤ (c - (o + (l : Rat) * r)) / r + 1/2 := axis_shift_nearest c o r l hr

example : tieFree [2, 1, 1/4] [0, 0, 0] [0, 0, -1] [1, 1, 1] = true ∧
    tieFree [2, 1, 1/2] [0, 0, 0] [0, 0, -2] [1, 1, 1] = true ∧
    tieFree [2, 1, 1/2] [0, 0, 0] [0, 0, -1] [1, 1, 1] = false := by decide +kernel

/-! ## chain / element restriction -/

/-- Restricting to a subset of the atoms (chains, elements — any predicate) with origin and shape given changes
every voxel by exactly the summed weight of the removed atoms mapped to it. -/
theorem chain_restriction_diff (nd : Nat) (sub : List Atom) (s : List Int) (r o : List Rat) (wt : WType)
    (p : Atom → Bool) (v : List Nat) (hv : inShape (toNats s) v = true) :
    (toVolumeCore nd sub (some s) r (some o) wt).grid.getD v 0 =
      (toVolumeCore nd (sub.filter p) (some s) r (some o) wt).grid.getD v 0 +
      (toVolumeCore nd (sub.filter (fun a => !p a)) (some s) r (some o) wt).grid.getD v 0 := by
  have hs : ∀ X, (toVolumeCore nd X (some s) r (some o) wt).shape = s := by
    intro X; simp [toVolumeCore, frame_given]
  have hf : ∀ X, frameOf nd X (some s) r (some o) = ⟨o, List.replicate nd 0, s, o⟩ := by
    intro X; simp [frameOf, frame_given]
  rw [toVolume_voxel _ _ _ _ _ _ v (by rw [hs]; exact hv), toVolume_voxel _ _ _ _ _ _ v (by rw [hs]; exact hv),
    toVolume_voxel _ _ _ _ _ _ v (by rw [hs]; exact hv)]
  simp only [hf]
  exact sum_filter_split sub p _ _

/-- the chain subset of `to_volume(chain=…)` is such a predicate -/
theorem subsetByChain_is_filter (c : String) (atoms : List Atom) :
    subsetByChain (some c) atoms = atoms.filter (fun a => (c.splitOn ",").contains a.chain) := rfl

example :
    let sub : List Atom := [⟨[0, 0, 0], "C", "A"⟩, ⟨[1/4, 0, 0], "N", "B"⟩, ⟨[1, 1, 1], "O", "A"⟩]
    (toVolumeCore 3 sub (some [2, 2, 2]) [1, 1, 1] (some [0, 0, 0]) .atomicNumber).grid.toList = [13, 0, 0, 0, 0, 0, 0, 8] ∧
    (toVolumeCore 3 (sub.filter (fun a => a.chain == "A")) (some [2, 2, 2]) [1, 1, 1] (some [0, 0, 0]) .atomicNumber).grid.toList
      = [6, 0, 0, 0, 0, 0, 0, 8] := by
  decide +kernel

/-! ## derived shape: nothing falls outside, no mass is lost -/

/-- shape derived (origin given or derived): every atom of the subset lies inside the grid -/
theorem derived_all_inside_pos (nd : Nat) (sub : List Atom) (r : List Rat) (origin : Option (List Rat))
    (hx : ∀ a ∈ sub, a.xyz.length = nd) (hrl : r.length = nd) (hol : ∀ o, origin = some o → o.length = nd)
    (hrp : ∀ k, k < nd → 0 < r.getD k 0) :
    ∀ a ∈ sub, inBox (frameOf nd sub none r origin).shape
      (posOf r (frameOf nd sub none r origin) a.xyz.reverse) = true := by
  intro a ha
  unfold frameOf posOf
  set coords := sub.map (fun a => a.xyz.reverse) with hcoords
  set fr := frame nd coords none r origin with hfr
  have hc : a.xyz.reverse ∈ coords := List.mem_map.mpr ⟨a, ha, rfl⟩
  have hcl : a.xyz.reverse.length = nd := by simp [hx a ha]
  -- lengths
  have ho0 : fr.origin0.length = nd := by
    cases origin with
    | none => rw [hfr, frame_origin0_none]; simp
    | some o => rw [hfr, frame_origin0_some]; exact hol o rfl
  have hsh : fr.shift.length = nd := by
    cases origin with
    | none => rw [hfr, frame_shift_none]; simp
    | some o => rw [hfr, frame_shift_some]; simp
  have hp0l : (idxOf fr.origin0 r a.xyz.reverse).length = nd := zip3_length _ _ _ _ nd hcl ho0 hrl
  have hpl : (subPos (idxOf fr.origin0 r a.xyz.reverse) fr.shift).length = nd := subPos_length _ _ nd hp0l hsh
  have hpmem : subPos (idxOf fr.origin0 r a.xyz.reverse) fr.shift ∈
      (coords.map (idxOf fr.origin0 r)).map (fun p => subPos p fr.shift) :=
    List.mem_map.mpr ⟨_, List.mem_map.mpr ⟨_, hc, rfl⟩, rfl⟩
  have hshape := frame_shape_none nd coords r origin
  rw [← hfr] at hshape
  apply inBox_of_forall
  · rw [hshape, hpl]; simp
  · intro k hk
    rw [hpl] at hk
    constructor
    · rw [subPos_getD _ _ k (by omega) (by omega)]
      cases origin with
      | some o =>
        have e1 : fr.shift = _ := frame_shift_some nd coords r o
        have e0 : fr.origin0 = o := frame_origin0_some nd coords r o
        rw [e1, range_map_getD _ _ _ _ hk, e0]
        have := minL_le _ _ (mem_col 0 k (coords.map (idxOf o r)) (idxOf o r a.xyz.reverse)
          (List.mem_map.mpr ⟨_, hc, rfl⟩))
        omega
      | none =>
        have e1 : fr.shift = List.replicate nd 0 := frame_shift_none nd coords r
        have e0 : fr.origin0 = _ := frame_origin0_none nd coords r
        rw [e1, e0]
        have hz : (List.replicate nd (0 : Int)).getD k 0 = 0 := by
          simp [List.getD_eq_getElem?_getD, hk]
        rw [hz]
        unfold idxOf
        rw [zip3_getD axisIdx 0 0 0 0 _ _ _ k (by omega) (by simp; omega) (by omega),
          range_map_getD _ _ _ _ hk]
        have hmin := minQ_le _ _ (mem_col (0 : Rat) k coords a.xyz.reverse hc)
        have hr := hrp k hk
        unfold axisIdx
        have : 0 ≤ rint ((a.xyz.reverse.getD k 0 - minQ (col 0 k coords)) / r.getD k 0) :=
          rint_nonneg _ (div_nonneg (by linarith) (le_of_lt hr))
        omega
    · rw [hshape, range_map_getD _ _ _ _ hk]
      have := le_maxL _ _ (mem_col 0 k _ _ hpmem)
      omega


/-- … hence the reported outside count is 0 and the grid total is the summed weight of ALL atoms of the subset -/
theorem derived_all_inside (nd : Nat) (sub : List Atom) (r : List Rat) (origin : Option (List Rat)) (wt : WType)
    (hx : ∀ a ∈ sub, a.xyz.length = nd) (hrl : r.length = nd) (hol : ∀ o, origin = some o → o.length = nd)
    (hrp : ∀ k, k < nd → 0 < r.getD k 0) :
    (toVolumeCore nd sub none r origin wt).outside = 0 ∧
    (toVolumeCore nd sub none r origin wt).grid.data.toList.sum = (sub.map (fun a => weightOf wt a.elem)).sum := by
  have h := derived_all_inside_pos nd sub r origin hx hrl hol hrp
  have hs : (toVolumeCore nd sub none r origin wt).shape = (frameOf nd sub none r origin).shape := rfl
  constructor
  · rw [outside_count_exact, hs, List.length_eq_zero_iff, List.filter_eq_nil_iff]
    intro a ha; simp [h a ha]
  · rw [toVolume_total, hs, List.filter_eq_self.mpr (fun a ha => h a ha)]

example :
    let sub : List Atom := [⟨[-6/5, 0, 0], "C", "A"⟩, ⟨[1/2, 1, 2], "N", "A"⟩, ⟨[3, -7/2, 9/4], "S", "B"⟩]
    (toVolumeCore 3 sub none [1, 2, 1/2] none .atomicNumber).outside = 0 ∧
    (toVolumeCore 3 sub none [1, 2, 1/2] none .atomicNumber).shape = [3, 3, 9] ∧
    (toVolumeCore 3 sub none [1, 2, 1/2] (some [-1, 0, 1/3]) .atomicNumber).shape = [3, 3, 9] := by
  decide +kernel

/-! ## the head of `to_volume` and the weight table -/

/-- `to_volume` returns only when the rate is well-formed and (the chain subset is non-empty, or origin and shape
are both given), and then it is `toVolumeCore` on the subset with the normalised rate — which is also the returned rate -/
theorem toVolume_ok (nd : Nat) (atoms : List Atom) (shape : Option (List Int)) (rate : Option (List Rat))
    (origin : Option (List Rat)) (chain : Option String) (wt : WType) (out : Out)
    (h : toVolume nd atoms shape rate origin chain wt = .ok out) :
    ∃ r, resolveRate nd rate = some r ∧
      (subsetByChain chain atoms ≠ [] ∨ (origin.isSome = true ∧ shape.isSome = true)) ∧
      out = toVolumeCore nd (subsetByChain chain atoms) shape r origin wt ∧ out.rate = r := by
  unfold toVolume at h
  split at h
  · cases h
  · rename_i r hr
    simp only at h
    split at h
    · cases h
    · rename_i hne
      refine ⟨r, hr, ?_, ?_, ?_⟩
      · by_cases he : subsetByChain chain atoms = []
        · right
          cases origin <;> cases shape <;> simp_all
        · left; exact he
      · cases h; rfl
      · cases h; rfl

/-- an empty subset with origin and shape given yields the all-zero grid and count 0 -/
theorem toVolume_empty_subset (nd : Nat) (s : List Int) (r o : List Rat) (wt : WType) :
    (toVolumeCore nd [] (some s) r (some o) wt).outside = 0 ∧
    (toVolumeCore nd [] (some s) r (some o) wt).grid = zeros (toNats s) ∧
    (toVolumeCore nd [] (some s) r (some o) wt).origin = o := by
  simp [toVolumeCore, placed, deposit, frame_given]

/-- sampling rate normalisation: absent → ones, one value → repeated per axis, `nd` values → unchanged -/
theorem resolveRate_spec (nd : Nat) (x : Rat) (l : List Rat) (hl : l.length = nd) (h2 : l.length ≠ 1) :
    resolveRate nd none = some (List.replicate nd 1) ∧ resolveRate nd (some [x]) = some (List.replicate nd x) ∧
    resolveRate nd (some l) = some l := by
  refine ⟨rfl, rfl, ?_⟩
  match l, h2 with
  | [], _ => simp [resolveRate, ← hl]
  | [_], h2 => simp at h2
  | _ :: _ :: _, _ => simp [resolveRate, hl]

/-- unknown element symbols (anything that is not an exact key of the table) weigh nothing -/
theorem weightOf_unknown (wt : WType) (sym : String) (h : lookup sym = none) : weightOf wt sym = 0 := by
  unfold weightOf; rw [h]

/-- the table has 118 distinct keys (a Python dict has no duplicates; `find?` takes the first) -/
theorem elementTable_keys_nodup : (elementTable.map (·.1)).Nodup ∧ elementTable.length = 118 := by
  decide +kernel

/-- whatever weight a symbol gets is the entry stored under *exactly* that symbol (no case folding, no truncation,
no prefix match): `lookup` only ever returns an entry whose key equals the symbol -/
theorem lookup_exact (sym : String) (v : Nat × Nat) (h : lookup sym = some v) : (sym, v) ∈ elementTable := by
  unfold lookup at h
  cases hf : elementTable.find? (fun e => e.1 == sym) with
  | none => rw [hf] at h; simp at h
  | some e =>
    rw [hf] at h
    have hv : e.2 = v := by simpa using h
    have hk : e.1 = sym := by simpa using List.find?_some hf
    have hm : e ∈ elementTable := List.mem_of_find?_eq_some hf
    rw [← hk, ← hv]
    exact hm

/-- and every entry of the table is found under its key: an atom whose symbol is a key weighs that entry -/
theorem weightOf_table_entry (sym : String) (z w : Nat) (h : (sym, z, w) ∈ elementTable) :
    weightOf .atomicWeight sym = (w : Int) ∧ weightOf .atomicNumber sym = (z : Int) := by
  have hl : lookup sym = some (z, w) := by
    unfold lookup
    rw [find_key_of_mem elementTable elementTable_keys_nodup.1 sym (z, w) h]
    rfl
  simp [weightOf, hl]

example : ("ZN", 30, 65380000000) ∈ elementTable ∧ lookup "Zn" = none ∧ lookup "Z" = none ∧ lookup "ZNN" = none := by
  decide +kernel

example : weightOf .atomicWeight "C" = 12011000000 ∧ weightOf .atomicNumber "FE" = 26 ∧
    weightOf .atomicWeight "Fe" = 0 ∧ weightOf .atomicNumber "" = 0 := by decide +kernel

end Pm.C10
