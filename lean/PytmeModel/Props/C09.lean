import PytmeModel.Model.C09
import PytmeModel.Proofs.C09
import PytmeModel.Proofs.C09Cif
import PytmeModel.Proofs.C09Reuse

/-! # C09 — atomic structures round-trip through PDB and mmCIF and the two formats agree

Statements are about the model of `Model/C09.lean`, which the harness compares with the real
`Structure.to_file` / `Structure.from_file` on every run (file text and typed tables).  Numbers are
validated decimal text (`Dec`); CPython's float ↔ decimal conversions stay in the harness.

Main statements: `pdb_roundtrip` (PDB, whole file), `cif_roundtrip` (mmCIF, whole file, through the block
splitter; `parse_written_loop` is the general statement about the file-level reader), `reuse_when` /
`reuse_row_unique` / `cif_reuse_roundtrip` / `cif_cif_roundtrip` (the writer re-using the records of the
original mmCIF file), `cross_format_files`, `roundtrip_chains`, `filter_exact`. -/
namespace Pm.C09

/-! ## the column table (extracted from the source on every run and compared with these constants) -/

/-- what makes a reader/writer column pair sound: writer columns are well-formed, inside the line,
pairwise disjoint; every reader column lies inside the writer column of the same field; each field
has exactly one column on each side.  A moved column breaks this (or the extraction obligation). -/
theorem cols_consistent :
    (∀ c ∈ pdbWriterCols, c.lo ≤ c.hi ∧ c.hi ≤ pdbWidth) ∧
    pdbWriterCols.Pairwise Disjoint ∧
    (∀ r ∈ pdbReaderCols, ∃ w ∈ pdbWriterCols, w.f = r.f ∧ w.lo ≤ r.lo ∧ r.lo ≤ r.hi ∧ r.hi ≤ w.hi) ∧
    pdbWriterCols.map (·.f) = F.all ∧ pdbReaderCols.map (·.f) = F.all ∧
    -- every field the property names is read from *exactly* the columns it is written to
    (∀ r ∈ pdbReaderCols, r.f ≠ F.seg → r ∈ pdbWriterCols) := by
  refine ⟨by decide, by decide, by decide, by decide, by decide, by decide⟩

example : (⟨.charge, 78, 80⟩ : Col) ∈ pdbReaderCols ∧ (⟨.charge, 78, 80⟩ : Col) ∈ pdbWriterCols := by decide

/-! ## PDB round trip -/

/-- "representable in fixed-width PDB columns": every text fits its column and contains no white
space; numbers fit as decimal text; record type is one the reader recognises -/
structure WfPdb (a : Atom) : Prop where
  record : a.record = "ATOM".toList ∨ a.record = "HETATM".toList
  serial : (showInt a.serial).length ≤ 5
  name : Clean a.name ∧ a.name.length ≤ 4
  alt : Clean a.alt ∧ a.alt.length ≤ 1
  resName : Clean a.resName ∧ a.resName.length ≤ 3
  chain : Clean a.chain ∧ a.chain.length = 1
  resSeq : (showInt a.resSeq).length ≤ 4
  ins : Clean a.ins ∧ a.ins.length ≤ 1
  x : DecOk a.x ∧ (showDec a.x).length ≤ 8
  y : DecOk a.y ∧ (showDec a.y).length ≤ 8
  z : DecOk a.z ∧ (showDec a.z).length ≤ 8
  occ : DecOk a.occ ∧ (showDec a.occ).length ≤ 6
  b : DecOk a.b ∧ (showDec a.b).length ≤ 6
  seg : Clean a.seg ∧ a.seg.length ≤ 2
  elem : Clean a.elem ∧ a.elem.length ≤ 2
  charge : Clean a.charge ∧ a.charge.length ≤ 2

/-! the numeric ranges of the property's quantifier give the width conditions of `WfPdb` -/

/-- serial numbers −9999 … 99999 fit the five serial columns -/
theorem serial_fits (i : Int) (h : -9999 ≤ i ∧ i ≤ 99999) : (showInt i).length ≤ 5 := by
  unfold showInt
  split
  · have := showNat_length i.natAbs 4 (by decide) (by omega)
    simp; omega
  · exact showNat_length i.natAbs 5 (by decide) (by omega)

/-- residue numbers −999 … 9999 fit the four residue-number columns -/
theorem resSeq_fits (i : Int) (h : -999 ≤ i ∧ i ≤ 9999) : (showInt i).length ≤ 4 := by
  unfold showInt
  split
  · have := showNat_length i.natAbs 3 (by decide) (by omega)
    simp; omega
  · exact showNat_length i.natAbs 4 (by decide) (by omega)

/-- coordinates −999.999 … 9999.999 with three decimals fit `%8.3f` -/
theorem coord_fits (d : Dec) (hf : d.frac.length = 3) (h : if d.neg then d.ip ≤ 999 else d.ip ≤ 9999) :
    (showDec d).length ≤ 8 := by
  unfold showDec
  cases hn : d.neg <;> simp only [hn, if_true, Bool.false_eq_true, if_false] at h ⊢
  · have := showNat_length d.ip 4 (by decide) (by omega)
    simp [hf]; omega
  · have := showNat_length d.ip 3 (by decide) (by omega)
    simp [hf]; omega

/-- occupancy / B-factor −99.99 … 999.99 with two decimals fit `%6.2f` -/
theorem occ_fits (d : Dec) (hf : d.frac.length = 2) (h : if d.neg then d.ip ≤ 99 else d.ip ≤ 999) :
    (showDec d).length ≤ 6 := by
  unfold showDec
  cases hn : d.neg <;> simp only [hn, if_true, Bool.false_eq_true, if_false] at h ⊢
  · have := showNat_length d.ip 3 (by decide) (by omega)
    simp [hf]; omega
  · have := showNat_length d.ip 2 (by decide) (by omega)
    simp [hf]; omega

example : (showInt (-9999)).length = 5 ∧ (showDec ⟨true, 999, [9, 9, 9]⟩).length = 8 := by decide

/-- the sixteen padded texts the reader cuts out of a written line -/
def rawOf (a : Atom) : Raw :=
  ⟨ljust 6 a.record, rjust 5 (showInt a.serial), ljust 4 a.name, ljust 1 a.alt, ljust 3 a.resName,
   ljust 1 (a.chain.take 1), rjust 4 (showInt a.resSeq), ljust 1 a.ins, rjust 8 (showDec a.x),
   rjust 8 (showDec a.y), rjust 8 (showDec a.z), rjust 6 (showDec a.occ), rjust 6 (showDec a.b),
   rjust 2 a.seg, ljust 2 a.elem, rjust 2 a.charge⟩

theorem record_length {a : Atom} (h : WfPdb a) : a.record.length ≤ 6 := by
  rcases h.record with e | e <;> (rw [e]; try simp)

theorem widths_ok {a : Atom} (h : WfPdb a) : ColsOk pdbWidth (fieldText a) pdbWriterCols := by
  have hr := record_length h
  have hc : (a.chain.take 1).length ≤ 1 := by rw [List.length_take]; omega
  intro c hc'
  simp only [pdbWriterCols, List.mem_cons, List.not_mem_nil, or_false] at hc'
  rcases hc' with rfl | rfl | rfl | rfl | rfl | rfl | rfl | rfl | rfl | rfl | rfl | rfl | rfl | rfl | rfl | rfl <;>
    refine ⟨by decide, by decide, ?_⟩ <;> simp only [fieldText]
  · exact length_ljust 6 _ hr
  · exact length_rjust 5 _ h.serial
  · exact length_ljust 4 _ h.name.2
  · exact length_ljust 1 _ h.alt.2
  · exact length_ljust 3 _ h.resName.2
  · exact length_ljust 1 _ hc
  · exact length_rjust 4 _ h.resSeq
  · exact length_ljust 1 _ h.ins.2
  · exact length_rjust 8 _ h.x.2
  · exact length_rjust 8 _ h.y.2
  · exact length_rjust 8 _ h.z.2
  · exact length_rjust 6 _ h.occ.2
  · exact length_rjust 6 _ h.b.2
  · exact length_rjust 4 _ (by have := h.seg.2; omega)
  · exact length_ljust 2 _ h.elem.2
  · exact length_rjust 2 _ h.charge.2

theorem pdbLine_length {a : Atom} (h : WfPdb a) : (pdbLine a).length = 80 := by
  unfold pdbLine
  rw [length_writeCols _ _ _ (by simpa [spaces, pdbWidth] using widths_ok h)]
  simp [spaces, pdbWidth]

/-- reading reader column `rc` of a written line gives the matching part of the text written into
writer column `wc` -/
theorem read_pdbLine {a : Atom} (h : WfPdb a) (rc wc : Col) (hwc : wc ∈ pdbWriterCols) (hf : wc.f = rc.f)
    (h1 : wc.lo ≤ rc.lo) (h2 : rc.lo ≤ rc.hi) (h3 : rc.hi ≤ wc.hi) :
    slice (pdbLine a) rc.lo rc.hi = slice (fieldText a rc.f) (rc.lo - wc.lo) (rc.hi - wc.lo) := by
  unfold pdbLine
  rw [slice_writeCols_mem pdbWriterCols (fieldText a) (spaces pdbWidth) wc rc.lo rc.hi
    (by simpa [spaces] using widths_ok h) cols_consistent.2.1 hwc h1 h2 h3, hf]

theorem slice_rjust_seg (s : Str) (h : s.length ≤ 2) : slice (rjust 4 s) 2 4 = rjust 2 s := by
  unfold slice rjust spaces
  have h1 : 4 - s.length = 2 + (2 - s.length) := by omega
  rw [h1, ← List.replicate_append_replicate, List.append_assoc, List.drop_append_of_le_length (by simp)]
  simp only [List.drop_replicate, Nat.add_sub_cancel_left, Nat.sub_self, Nat.add_zero]
  apply List.take_of_length_le
  simp; omega

theorem readPdbLine_pdbLine {a : Atom} (h : WfPdb a) : readPdbLine (pdbLine a) = some (rawOf a) := by
  have hw := widths_ok h
  have L := pdbLine_length h
  have full : ∀ (f : F) (lo hi : Nat), (⟨f, lo, hi⟩ : Col) ∈ pdbWriterCols →
      slice (pdbLine a) lo hi = fieldText a f := by
    intro f lo hi hm
    obtain ⟨h1, _, h3⟩ := hw _ hm
    have := read_pdbLine h ⟨f, lo, hi⟩ ⟨f, lo, hi⟩ hm rfl (Nat.le_refl _) h1 (Nat.le_refl _)
    simp only [Nat.sub_self] at this
    rw [this]; exact slice_full _ _ (by simp only at h3; omega)
  have hseg : slice (pdbLine a) 74 76 = rjust 2 a.seg := by
    have := read_pdbLine h ⟨.seg, 74, 76⟩ ⟨.seg, 72, 76⟩ (by decide) rfl (by decide) (by decide) (by decide)
    simp only at this
    rw [this]; exact slice_rjust_seg _ h.seg.2
  unfold readPdbLine
  rw [if_neg (by omega)]
  simp only [readField, colOf, pdbReaderCols, List.find?, rawOf, Option.getD, decide_true, decide_false,
    Option.some.injEq, reduceCtorEq]
  simp only [full .record 0 6 (by decide), full .serial 6 11 (by decide), full .name 12 16 (by decide),
    full .alt 16 17 (by decide), full .resName 17 20 (by decide), full .chain 21 22 (by decide),
    full .resSeq 22 26 (by decide), full .ins 26 27 (by decide), full .x 30 38 (by decide),
    full .y 38 46 (by decide), full .z 46 54 (by decide), full .occ 54 60 (by decide),
    full .b 60 66 (by decide), full .elem 76 78 (by decide), full .charge 78 80 (by decide), hseg, fieldText]

theorem record_clean {a : Atom} (h : WfPdb a) : Clean a.record := by
  rcases h.record with e | e <;> rw [e] <;> intro c hc <;> simp at hc <;>
    rcases hc with rfl | rfl | rfl | rfl | rfl | rfl <;> decide

theorem zipAtoms_rawOf (as : List Atom) (h : ∀ a ∈ as, WfPdb a) :
    zipAtoms (as.map rawOf) (as.map (·.serial)) (as.map (·.resSeq)) (as.map (·.x)) (as.map (·.y))
      (as.map (·.z)) (as.map (·.occ)) (as.map (·.b)) = as := by
  induction as with
  | nil => rfl
  | cons a rest ih =>
    have w := h a (List.mem_cons_self ..)
    have hch : a.chain.take 1 = a.chain := List.take_of_length_le (by have := w.chain.2; omega)
    simp only [List.map_cons, zipAtoms, ih (fun b hb => h b (List.mem_cons_of_mem _ hb))]
    congr 1
    cases a
    simp only [rawOf] at *
    simp only [strip_ljust (record_clean w), strip_ljust w.name.1, strip_ljust w.alt.1,
      strip_ljust w.resName.1, hch, strip_ljust w.chain.1, strip_ljust w.ins.1, strip_rjust w.seg.1,
      strip_ljust w.elem.1, strip_rjust w.charge.1]

/-- typing the texts cut out of written lines gives the atoms back, exactly -/
theorem convert_rawOf (as : List Atom) (h : ∀ a ∈ as, WfPdb a) : convert (as.map rawOf) = some as := by
  have dec8 : ∀ (d : Dec) (w : Nat), DecOk d → parseDec (strip (rjust w (showDec d))) = some d := by
    intro d w hd; rw [strip_rjust (showDec_clean d hd), parseDec_showDec d hd]
  unfold convert
  rw [mapM_map_some as rawOf (fun r => intCell r.serial) (·.serial)
        (fun a _ => intCell_showInt_rjust a.serial 5),
      mapM_map_some as rawOf (fun r => intCell r.resSeq) (·.resSeq)
        (fun a _ => intCell_showInt_rjust a.resSeq 4),
      mapM_map_some as rawOf (fun r => parseDec (strip r.x)) (·.x) (fun a ha => dec8 a.x 8 (h a ha).x.1),
      mapM_map_some as rawOf (fun r => parseDec (strip r.y)) (·.y) (fun a ha => dec8 a.y 8 (h a ha).y.1),
      mapM_map_some as rawOf (fun r => parseDec (strip r.z)) (·.z) (fun a ha => dec8 a.z 8 (h a ha).z.1)]
  have ho : floatColumn ((as.map rawOf).map (·.occ)) = as.map (·.occ) := by
    rw [List.map_map]; exact floatColumn_map as _ _ (fun a ha => dec8 a.occ 6 (h a ha).occ.1)
  have hb : floatColumn ((as.map rawOf).map (·.b)) = as.map (·.b) := by
    rw [List.map_map]; exact floatColumn_map as _ _ (fun a ha => dec8 a.b 6 (h a ha).b.1)
  simp only [Option.bind_eq_bind, Option.bind_some, ho, hb, zipAtoms_rawOf as h]
  rfl

/-- one written line, read and typed alone -/
theorem pdb_line_roundtrip {a : Atom} (h : WfPdb a) :
    (readPdbLine (pdbLine a)).bind (fun r => convert [r]) = some [a] := by
  rw [readPdbLine_pdbLine h]
  exact convert_rawOf [a] (by intro b hb; simp at hb; subst hb; exact h)

/-! ### whole files -/

theorem pdbLine_take6 {a : Atom} (h : WfPdb a) : (pdbLine a).take 6 = ljust 6 a.record := by
  have := read_pdbLine h ⟨.record, 0, 6⟩ ⟨.record, 0, 6⟩ (by decide) rfl (by decide) (by decide) (by decide)
  simp only [slice, List.drop_zero, Nat.sub_zero, fieldText] at this
  rw [this]; exact List.take_of_length_le (by rw [length_ljust 6 _ (record_length h)])

theorem pdbLine_shape {a : Atom} (h : WfPdb a) :
    ∃ rest, pdbLine a = "ATOM".toList ++ rest ∨ pdbLine a = "HETATM".toList ++ rest := by
  have e := List.take_append_drop 6 (pdbLine a)
  rw [pdbLine_take6 h] at e
  generalize (pdbLine a).drop 6 = X at e
  generalize pdbLine a = L at e
  have e1 : ljust 6 "ATOM".toList = "ATOM".toList ++ "  ".toList := by decide
  have e2 : ljust 6 "HETATM".toList = "HETATM".toList := by decide
  rcases h.record with r | r
  · refine ⟨"  ".toList ++ X, Or.inl ?_⟩
    rw [← e, r, e1, List.append_assoc]
  · refine ⟨X, Or.inr ?_⟩
    rw [← e, r, e2]

theorem pdbLine_kept {a : Atom} (h : WfPdb a) :
    (!(pdbLine a).isEmpty && (pdbLine a).head? != some '#') = true ∧ isAtomLine (pdbLine a) = true := by
  obtain ⟨rest, e | e⟩ := pdbLine_shape h <;> generalize pdbLine a = L at e <;> subst e <;>
    constructor <;> rfl

theorem pdbLine_no_newline {a : Atom} (h : WfPdb a) : '\n' ∉ pdbLine a := by
  intro hm
  unfold pdbLine at hm
  rcases mem_writeCols hm with hm | ⟨col, _, hm⟩
  · simp [spaces] at hm
  · have mild : ∀ (s : Str) (w : Nat), Clean s → ('\n' ∉ ljust w s ∧ '\n' ∉ rjust w s) := by
      intro s w hs
      have : '\n' ∉ s := fun hh => by have := hs _ hh; simp [isWs] at this
      constructor <;> simp [ljust, rjust, spaces, this]
    have hch : Clean (a.chain.take 1) := fun c hc => h.chain.1 c (List.mem_of_mem_take hc)
    cases hf : col.f <;> rw [hf] at hm <;> simp only [fieldText] at hm
    · exact (mild _ 6 (record_clean h)).1 hm
    · exact (mild _ 5 (showInt_clean _)).2 hm
    · exact (mild _ 4 h.name.1).1 hm
    · exact (mild _ 1 h.alt.1).1 hm
    · exact (mild _ 3 h.resName.1).1 hm
    · exact (mild _ 1 hch).1 hm
    · exact (mild _ 4 (showInt_clean _)).2 hm
    · exact (mild _ 1 h.ins.1).1 hm
    · exact (mild _ 8 (showDec_clean _ h.x.1)).2 hm
    · exact (mild _ 8 (showDec_clean _ h.y.1)).2 hm
    · exact (mild _ 8 (showDec_clean _ h.z.1)).2 hm
    · exact (mild _ 6 (showDec_clean _ h.occ.1)).2 hm
    · exact (mild _ 6 (showDec_clean _ h.b.1)).2 hm
    · exact (mild _ 4 h.seg.1).2 hm
    · exact (mild _ 2 h.elem.1).1 hm
    · exact (mild _ 2 h.charge.1).2 hm

/-- the non-comment lines of a written file are exactly the written lines and `END` -/
theorem fileLines_writePdb (as : List Atom) (h : ∀ a ∈ as, WfPdb a) :
    fileLines (joinWith ['\n'] (as.map pdbLine ++ ["END".toList])) = as.map pdbLine ++ ["END".toList] := by
  unfold fileLines
  rw [splitOn_joinWith '\n' _ (by simp)]
  · rw [List.filter_append]
    congr 1
    rw [List.filter_eq_self]
    intro l hl
    obtain ⟨a, ha, rfl⟩ := List.mem_map.mp hl
    exact (pdbLine_kept (h a ha)).1
  · intro l hl
    rcases List.mem_append.mp hl with hl | hl
    · obtain ⟨a, ha, rfl⟩ := List.mem_map.mp hl
      exact pdbLine_no_newline (h a ha)
    · simp at hl; subst hl; decide

/-- **PDB round trip, whole file.**  For every list of atoms representable in the fixed columns
(any length, any order), reading the written file returns the same atoms in the same order with
every field — record type, serial, names, chain, residue number, insertion code, alt-loc, element,
charge, segment, coordinates, occupancy, B-factor — identical. -/
theorem pdb_roundtrip (as : List Atom) (h : ∀ a ∈ as, WfPdb a) :
    (writePdb as).bind loadPdb = some as := by
  have hw : as.all pdbWritable = true := by
    rw [List.all_eq_true]; intro a ha
    have := (h a ha).chain.2
    unfold pdbWritable
    cases hc : a.chain with
    | nil => rw [hc] at this; simp at this
    | cons _ _ => rfl
  unfold writePdb
  rw [if_pos hw, Option.bind_some]
  unfold loadPdb readPdbRaw
  rw [fileLines_writePdb as h, List.filter_append]
  have h1 : (as.map pdbLine).filter isAtomLine = as.map pdbLine := by
    rw [List.filter_eq_self]; intro l hl
    obtain ⟨a, ha, rfl⟩ := List.mem_map.mp hl
    exact (pdbLine_kept (h a ha)).2
  have h2 : ["END".toList].filter isAtomLine = [] := by decide
  rw [h1, h2, List.append_nil,
    mapM_map_some as pdbLine readPdbLine rawOf (fun a ha => readPdbLine_pdbLine (h a ha))]
  exact convert_rawOf as h

/-! ## mmCIF: no column can shift -/

/-- **tokens of a written loop row.**  For any columns whose values contain no white space and no
double quote (empty values allowed), every line the writer emits splits — in *both* branches of
`_split_line`, after `_consolidate_strings` removed the double quotes — into exactly one token per
column, and the tokens are the values of one row, with "." standing for an empty value. -/
theorem cif_row_tokens (cols : List (List Str)) (hv : ∀ c ∈ cols, ∀ v ∈ c, TokOk v)
    (line : Str) (h : line ∈ loopRows cols) :
    ∃ i, (∀ c ∈ cols, i < c.length) ∧
      splitLine (removeDq line) = cols.map (fun c => tok (c.getD i [])) := by
  obtain ⟨i, hi, rfl⟩ := mem_loopRows h
  refine ⟨i, hi, ?_⟩
  have hmem : ∀ c ∈ cols, c.getD i [] ∈ c := by
    intro c hc
    have := hi c hc
    simp only [List.getD_eq_getElem?_getD, List.getElem?_eq_getElem this, Option.getD_some]
    exact List.getElem_mem _
  rw [removeDq_rowOf, List.map_map, splitLine_rowOf]
  · rw [List.map_map]
    apply List.map_congr_left
    intro c hc
    exact removeDq_formatString (hv c hc _ (hmem c hc))
  · intro cell hcell
    obtain ⟨c, hc, rfl⟩ := List.mem_map.mp hcell
    have ht := hv c hc _ (hmem c hc)
    simp only [Function.comp]
    rw [removeDq_formatString ht]
    refine ⟨tok_ok ht, tok_ne_nil _, ?_⟩
    have : (formatString (c.getD i [])).length ≤ maxLen (c.map formatString) :=
      length_le_maxLen (List.mem_map.mpr ⟨_, hmem c hc, rfl⟩)
    omega

/-- the column-shift guard: as many tokens as column names, on every row -/
theorem cif_token_count (cols : List (List Str)) (hv : ∀ c ∈ cols, ∀ v ∈ c, TokOk v)
    (line : Str) (h : line ∈ loopRows cols) : (splitLine (removeDq line)).length = cols.length := by
  obtain ⟨i, _, e⟩ := cif_row_tokens cols hv line h
  rw [e, List.length_map]

example : loopRows [["ATOM".toList, "ATOM".toList], [[], "A".toList], ["O5'".toList, "CA".toList]]
    = ["ATOM . \"O5'\" ".toList, "ATOM A CA    ".toList] := by decide

/-- `_format_string` before the `fix:` commit: an empty value was written as nothing -/
def formatStringOld (s : Str) : Str :=
  if s.contains ' ' then '\'' :: (s ++ ['\''])
  else if s.count '\'' = 1 then '"' :: (s ++ ['"'])
  else s

/-- negation witness for the code as it was: a PDB-read atom (empty alt-loc) written with the old
quoting gives a row with a token missing, so every later column shifts (the reader then fed
`'-15.127'` to `int`) — while the repaired function keeps all three tokens -/
theorem formatString_current_defect :
    (splitLine (ljust 5 "ATOM".toList ++ ljust 2 (formatStringOld []) ++ ljust 4 "1.5".toList)).length = 2 ∧
    (splitLine (ljust 5 "ATOM".toList ++ ljust 2 (formatString []) ++ ljust 4 "1.5".toList)).length = 3 := by
  decide

/-- rows that all carry a full set of tokens are never merged by "reunites broken lines" -/
theorem reunite_full_rows (n : Nat) (rows : List (List Str)) (hn : 0 < n) (h : ∀ r ∈ rows, r.length = n) :
    reunite n rows = rows := by
  cases rows with
  | nil => rfl
  | cons a rest =>
    simp only [reunite]
    induction rest generalizing a with
    | nil => rfl
    | cons b rest' ih =>
      have ha := h a (List.mem_cons_self ..)
      have hb := h b (List.mem_cons_of_mem _ (List.mem_cons_self ..))
      simp only [reuniteAux]
      rw [if_neg (by omega)]
      congr 1
      exact ih b (fun r hr => h r (List.mem_cons_of_mem _ hr))

example : reunite 2 [["a".toList, "b".toList], ["c".toList, "d".toList]] =
    [["a".toList, "b".toList], ["c".toList, "d".toList]] := by decide

/-- "reunites broken lines", the case it exists for (files of other programs): loop rows of `n`
values that a file breaks over several lines - every row given as its non-empty pieces, in order, any
number of pieces - are put together again row by row, whatever the number of rows -/
theorem reunite_broken_rows (n : Nat) (rows : List (List (List Str)))
    (hne : ∀ ps ∈ rows, ps ≠ [] ∧ ∀ p ∈ ps, p ≠ []) (hlen : ∀ ps ∈ rows, ps.flatten.length = n) :
    reunite n rows.flatten = rows.map List.flatten := by
  induction rows with
  | nil => rfl
  | cons ps rs ih =>
    have hps := hne ps (List.mem_cons_self ..)
    have hl := hlen ps (List.mem_cons_self ..)
    have ih' := ih (fun q hq => hne q (List.mem_cons_of_mem _ hq)) (fun q hq => hlen q (List.mem_cons_of_mem _ hq))
    have hrest : ∀ q ∈ rs.flatten, q ≠ [] := by
      intro q hq
      rcases List.mem_flatten.mp hq with ⟨l, hl1, hl2⟩
      exact (hne l (List.mem_cons_of_mem _ hl1)).2 q hl2
    cases ps with
    | nil => exact absurd rfl hps.1
    | cons p ps' =>
      have hl' : p.length + ps'.flatten.length = n := by
        simpa [List.flatten_cons, List.length_append] using hl
      simp only [List.flatten_cons, List.cons_append, reunite, List.map_cons]
      rw [reuniteAux_pieces n p ps' rs.flatten (by omega),
        reuniteAux_full n (p ++ ps'.flatten) rs.flatten (by simp only [List.length_append]; omega) hrest, ih']

example : reunite 3 [["a".toList], ["b".toList, "c".toList], ["d".toList, "e".toList, "f".toList],
      ["g".toList, "h".toList], ["i".toList]] =
    [["a".toList, "b".toList, "c".toList], ["d".toList, "e".toList, "f".toList], ["g".toList, "h".toList, "i".toList]] := by
  decide

/-! ## mmCIF files of other programs: columns are read by name -/

/-- `_load_mmcif` sees the file's `atom_site` table only through look-ups of sixteen names -/
theorem loadCifTable_congr {t t' : Table} (h : ∀ k ∈ cifReadNames, lookup t k = lookup t' k) :
    loadCifTable t = loadCifTable t' := by
  simp only [cifReadNames, List.map_cons, List.map_nil, List.forall_mem_cons] at h
  obtain ⟨h1, h2, h3, h4, h5, h6, h7, h8, h9, h10, h11, h12, h13, h14, h15, h16, -⟩ := h
  simp only [loadCifTable, List.map_cons, List.map_nil, cifCol, h1, h2, h3, h4, h5, h6, h7, h8, h9, h10, h11, h12,
    h13, h14, h15, h16]

/-- the order of the `_atom_site.*` columns in a file is irrelevant (any permutation, any atoms) -/
theorem loadCifTable_perm {t t' : Table} (hp : t.Perm t') (hn : (t.map (·.1)).Nodup) :
    loadCifTable t = loadCifTable t' :=
  loadCifTable_congr (fun k _ => lookup_perm hp hn k)

/-- columns the reader does not know (`auth_*`, `*_esd`, `label_entity_id`, ...) change nothing -/
theorem loadCifTable_extra (kv : Str × List Str) (t : Table) (h : kv.1 ∉ cifReadNames) :
    loadCifTable (kv :: t) = loadCifTable t :=
  loadCifTable_congr (fun k hk => lookup_cons_ne kv t k (fun e => h (e ▸ hk)))

example : ("auth_atom_id".toList, [["CA".toList]]).1 ∉ cifReadNames := by decide
example : [("id".toList, [["1".toList]]), ("Cartn_x".toList, [["2.5".toList]])].Perm
    [("Cartn_x".toList, [["2.5".toList]]), ("id".toList, [["1".toList]])] := List.Perm.swap ..

/-! ## mmCIF: typing the tokens gives the atoms back -/

/-- values an mmCIF loop can carry; numbers are decimal text -/
structure WfCif (a : Atom) : Prop where
  record : TokOk a.record
  name : TokOk a.name
  alt : TokOk a.alt
  resName : TokOk a.resName
  chain : TokOk a.chain ∧ a.chain.length ≤ 1
  ins : TokOk a.ins
  elem : TokOk a.elem
  charge : TokOk a.charge
  x : DecOk a.x
  y : DecOk a.y
  z : DecOk a.z
  occ : DecOk a.occ
  b : DecOk a.b

/-- what reading returns for a written atom: empty text fields come back as the placeholder ".",
the segment identifier is the constant model number "1"; everything else is unchanged -/
def normCif (a : Atom) : Atom :=
  { a with record := tok a.record, name := tok a.name, alt := tok a.alt, resName := tok a.resName,
           chain := tok a.chain, ins := tok a.ins, seg := ['1'], elem := tok a.elem, charge := tok a.charge }

/-- the table `_loop_block_to_dict` builds from the written rows (by `cif_row_tokens`: one token
per column and row, `tok` of the written value) -/
def readBack (atoms : List Atom) : Table := (cifColumns atoms).map (fun kv => (kv.1, kv.2.map tok))

theorem readBack_eq (atoms : List Atom) :
    readBack atoms = (List.range 21).map (fun j =>
      ((cifNames.getD j "").toList, atoms.map (fun a => tok ((cifRow a).getD j [])))) := by
  unfold readBack cifColumns
  rw [List.map_map]
  have : cifNames.length = 21 := rfl
  rw [this]
  apply List.map_congr_left
  intro j _
  simp [nthCol, List.map_map]

theorem lookup_readBack (atoms : List Atom) (j : Nat) (hj : j < 21) :
    lookup (readBack atoms) (cifNames.getD j "").toList =
      some (atoms.map (fun a => tok ((cifRow a).getD j []))) := by
  rw [readBack_eq]
  unfold lookup
  interval_cases j <;> rfl

theorem cifCol_eq {t : Table} {k : String} {c : List Str} {n : Nat} (h : lookup t k.toList = some c)
    (hn : c.length = n) : cifCol t n k = c := by
  unfold cifCol
  rw [h]
  simp only [Option.getD_some]
  split
  · rename_i h1
    cases c with
    | nil => simp at h1
    | cons x xs =>
      cases xs with
      | nil => subst hn; rfl
      | cons _ _ => simp at h1
  · rfl

theorem tok_clean_ne {v : Str} (h : Clean v) (hne : v ≠ []) : tok v = v := by
  unfold tok; cases v with
  | nil => exact absurd rfl hne
  | cons _ _ => rfl

theorem tok_showInt (i : Int) : tok (showInt i) = showInt i := by
  unfold tok showInt
  split
  · rfl
  · obtain ⟨c, t, h, _⟩ := showNat_head i.natAbs
    rw [h]; rfl

theorem tok_showDec (d : Dec) : tok (showDec d) = showDec d := by
  unfold tok showDec
  cases d.neg
  · obtain ⟨c, t, h, _⟩ := showNat_head d.ip
    simp [h]
  · simp

theorem strip_tok {v : Str} (h : TokOk v) : strip (tok v) = tok v := strip_clean (tok_ok h).1

/-- the sixteen tokens `_load_mmcif` picks (by column name) for one atom -/
def rawCif (a : Atom) : Raw :=
  let g := fun j => tok ((cifRow a).getD j [])
  ⟨g 0, g 1, g 3, g 4, g 5, g 6, g 8, g 9, g 10, g 11, g 12, g 13, g 14, g 20, g 2, g 15⟩

theorem zipRaw_map (as : List Atom) (f0 f1 f2 f3 f4 f5 f6 f7 f8 f9 f10 f11 f12 f13 f14 f15 : Atom → Str) :
    zipRaw (as.map f0) (as.map f1) (as.map f2) (as.map f3) (as.map f4) (as.map f5) (as.map f6) (as.map f7)
      (as.map f8) (as.map f9) (as.map f10) (as.map f11) (as.map f12) (as.map f13) (as.map f14) (as.map f15)
    = as.map (fun a => ⟨f0 a, f1 a, f2 a, f3 a, f4 a, f5 a, f6 a, f7 a, f8 a, f9 a, f10 a, f11 a, f12 a,
        f13 a, f14 a, f15 a⟩) := by
  induction as with
  | nil => simp [zipRaw]
  | cons a rest ih => simp only [List.map_cons, zipRaw, ih]

theorem zipAtoms_cif (as : List Atom) (h : ∀ a ∈ as, WfCif a) :
    zipAtoms (as.map rawCif) (as.map (·.serial)) (as.map (·.resSeq)) (as.map (·.x)) (as.map (·.y))
      (as.map (·.z)) (as.map (·.occ)) (as.map (·.b)) = as.map normCif := by
  induction as with
  | nil => simp [zipAtoms]
  | cons a rest ih =>
    have w := h a (List.mem_cons_self ..)
    have hch : a.chain.take 1 = a.chain := List.take_of_length_le w.chain.2
    simp only [List.map_cons, zipAtoms, ih (fun b hb => h b (List.mem_cons_of_mem _ hb))]
    congr 1
    simp only [rawCif, cifRow, List.getD_eq_getElem?_getD, List.getElem?_cons_zero, List.getElem?_cons_succ,
      Option.getD_some, hch, normCif, strip_tok w.record, strip_tok w.name, strip_tok w.alt,
      strip_tok w.resName, strip_tok w.chain.1, strip_tok w.ins, strip_tok w.elem, strip_tok w.charge]
    rfl

theorem intCell_showInt (i : Int) : intCell (showInt i) = some i := by
  have := intCell_showInt_rjust i 0
  simpa [rjust, spaces] using this

theorem convert_rawCif (as : List Atom) (h : ∀ a ∈ as, WfCif a) : convert (as.map rawCif) = some (as.map normCif) := by
  have dec : ∀ (d : Dec), DecOk d → parseDec (strip (tok (showDec d))) = some d := by
    intro d hd; rw [tok_showDec, strip_clean (showDec_clean d hd), parseDec_showDec d hd]
  have int : ∀ (i : Int), intCell (tok (showInt i)) = some i := by
    intro i; rw [tok_showInt, intCell_showInt]
  unfold convert
  rw [mapM_map_some as rawCif (fun r => intCell r.serial) (·.serial) (fun a _ => int a.serial),
      mapM_map_some as rawCif (fun r => intCell r.resSeq) (·.resSeq) (fun a _ => int a.resSeq),
      mapM_map_some as rawCif (fun r => parseDec (strip r.x)) (·.x) (fun a ha => dec a.x (h a ha).x),
      mapM_map_some as rawCif (fun r => parseDec (strip r.y)) (·.y) (fun a ha => dec a.y (h a ha).y),
      mapM_map_some as rawCif (fun r => parseDec (strip r.z)) (·.z) (fun a ha => dec a.z (h a ha).z)]
  have ho : floatColumn ((as.map rawCif).map (·.occ)) = as.map (·.occ) := by
    rw [List.map_map]; exact floatColumn_map as _ _ (fun a ha => dec a.occ (h a ha).occ)
  have hb : floatColumn ((as.map rawCif).map (·.b)) = as.map (·.b) := by
    rw [List.map_map]; exact floatColumn_map as _ _ (fun a ha => dec a.b (h a ha).b)
  simp only [Option.bind_eq_bind, Option.bind_some, ho, hb, zipAtoms_cif as h]
  rfl

/-- **typing what was read back.**  `_load_mmcif` applied to the table of tokens of a written loop
(one `tok` per written value — that this *is* the table is `cif_row_tokens` + `reunite_full_rows`)
returns the atoms in order with serial, residue number, coordinates, occupancy and B-factor
identical, text fields identical except that an empty field reads as ".", and the constant "1" as
segment.  The column-name → attribute mapping of reader and writer are mutually consistent. -/
theorem loadCifTable_readBack (as : List Atom) (h : ∀ a ∈ as, WfCif a) :
    loadCifTable (readBack as) = some (as.map normCif) := by
  have L : ∀ j, (as.map (fun a => tok ((cifRow a).getD j []))).length = as.length := fun j => by simp
  have k0 : lookup (readBack as) "group_PDB".toList = _ := lookup_readBack as 0 (by decide)
  have k1 : lookup (readBack as) "id".toList = _ := lookup_readBack as 1 (by decide)
  have k2 : lookup (readBack as) "type_symbol".toList = _ := lookup_readBack as 2 (by decide)
  have k3 : lookup (readBack as) "label_atom_id".toList = _ := lookup_readBack as 3 (by decide)
  have k4 : lookup (readBack as) "label_alt_id".toList = _ := lookup_readBack as 4 (by decide)
  have k5 : lookup (readBack as) "label_comp_id".toList = _ := lookup_readBack as 5 (by decide)
  have k6 : lookup (readBack as) "label_asym_id".toList = _ := lookup_readBack as 6 (by decide)
  have k8 : lookup (readBack as) "label_seq_id".toList = _ := lookup_readBack as 8 (by decide)
  have k9 : lookup (readBack as) "pdbx_PDB_ins_code".toList = _ := lookup_readBack as 9 (by decide)
  have k10 : lookup (readBack as) "Cartn_x".toList = _ := lookup_readBack as 10 (by decide)
  have k11 : lookup (readBack as) "Cartn_y".toList = _ := lookup_readBack as 11 (by decide)
  have k12 : lookup (readBack as) "Cartn_z".toList = _ := lookup_readBack as 12 (by decide)
  have k13 : lookup (readBack as) "occupancy".toList = _ := lookup_readBack as 13 (by decide)
  have k14 : lookup (readBack as) "B_iso_or_equiv".toList = _ := lookup_readBack as 14 (by decide)
  have k15 : lookup (readBack as) "pdbx_formal_charge".toList = _ := lookup_readBack as 15 (by decide)
  have k20 : lookup (readBack as) "pdbx_PDB_model_num".toList = _ := lookup_readBack as 20 (by decide)
  unfold loadCifTable
  simp only [k0, k1, k2, k3, k4, k5, k6, k8, k9, k10, k11, k12, k13, k14, k15, k20, Option.bind_eq_bind,
    Option.bind_some, List.map_cons, List.map_nil, Option.getD_some, L, List.foldl_cons, List.foldl_nil,
    Nat.max_self, Nat.zero_max, Nat.max_zero]
  simp only [cifCol_eq k0 (L 0), cifCol_eq k1 (L 1), cifCol_eq k2 (L 2), cifCol_eq k3 (L 3), cifCol_eq k4 (L 4),
    cifCol_eq k5 (L 5), cifCol_eq k6 (L 6), cifCol_eq k8 (L 8), cifCol_eq k9 (L 9), cifCol_eq k13 (L 13),
    cifCol_eq k14 (L 14), cifCol_eq k15 (L 15), cifCol_eq k20 (L 20), L, List.all_cons, List.all_nil,
    decide_true, Bool.and_self, and_self, not_true_eq_false, if_false]
  rw [zipRaw_map]
  exact convert_rawCif as h

/-- every value `_write_mmcif` collects for well-formed atoms survives the loop syntax -/
theorem cifColumns_tokOk (as : List Atom) (h : ∀ a ∈ as, WfCif a) :
    ∀ c ∈ (cifColumns as).map (·.2), ∀ v ∈ c, TokOk v := by
  have hcols : (cifColumns as).map (·.2) = (List.range 21).map (fun j => nthCol (as.map cifRow) j) := by
    unfold cifColumns; rw [List.map_map]; rfl
  rw [hcols]
  intro c hc v hv
  obtain ⟨j, hj, rfl⟩ := List.mem_map.mp hc
  simp only [nthCol, List.map_map, List.mem_map, Function.comp] at hv
  obtain ⟨a, ha, rfl⟩ := hv
  have w := h a ha
  have hch : TokOk (a.chain.take 1) :=
    ⟨fun c hc => w.chain.1.1 c (List.mem_of_mem_take hc), fun hm => w.chain.1.2 (List.mem_of_mem_take hm)⟩
  have hint : ∀ i : Int, TokOk (showInt i) := fun i => ⟨showInt_clean i, by
    unfold showInt; split
    · intro hm; rcases List.mem_cons.mp hm with e | hm
      · exact absurd e (by decide)
      · obtain ⟨d, hd, e⟩ := showNat_digits _ _ hm; revert e; interval_cases d <;> decide
    · intro hm; obtain ⟨d, hd, e⟩ := showNat_digits _ _ hm; revert e; interval_cases d <;> decide⟩
  have hdec : ∀ d : Dec, DecOk d → TokOk (showDec d) := fun d hd => ⟨showDec_clean d hd, by
    unfold showDec
    simp only [List.mem_append, List.mem_map, not_or]
    refine ⟨⟨⟨by split <;> simp, ?_⟩, by simp⟩, ?_⟩
    · intro hm; obtain ⟨k, hk, e⟩ := showNat_digits _ _ hm; revert e; interval_cases k <;> decide
    · rintro ⟨x, hx, e⟩; have := hd x hx; revert e; interval_cases x <;> decide⟩
  have h1 : TokOk ['1'] := by decide
  simp only [List.mem_range] at hj
  interval_cases j <;> simp only [cifRow, List.getD_eq_getElem?_getD, List.getElem?_cons_zero,
    List.getElem?_cons_succ, Option.getD_some] <;>
    first | exact w.record | exact w.name | exact w.alt | exact w.resName | exact w.ins | exact w.elem
          | exact w.charge | exact hch | exact hint _ | exact hdec _ w.x | exact hdec _ w.y
          | exact hdec _ w.z | exact hdec _ w.occ | exact hdec _ w.b | exact h1

/-- **mmCIF round trip, row level** (superseded by `cif_roundtrip` below, which is the full statement
`(writeCif none as).bind loadCif = some (as.map normCif)` through the block splitter; kept as the row-level
corollary).  For atoms whose text fields contain
no white space and no double quote: (1) every line of the written `atom_site` loop tokenises into
exactly the 21 values of one atom (empty ↦ "."), so no row is ever merged with its neighbour and no
column shifts; (2) typing that table returns the atoms in order, every named field preserved up to
"" ≡ ".".  That `_consolidate_strings` / `_split_in_blocks` / `_loop_block_to_dict` hand exactly these
lines and the 21 names to (1) is `parseCif_writeLoop` (Proofs/C09Cif.lean), used by `cif_roundtrip`. -/
theorem cif_roundtrip_partial (as : List Atom) (h : ∀ a ∈ as, WfCif a) :
    (∀ line ∈ loopRows ((cifColumns as).map (·.2)),
        ∃ i, i < as.length ∧ splitLine (removeDq line) = (cifRow (as.getD i default)).map tok) ∧
    (∀ line ∈ loopRows ((cifColumns as).map (·.2)), (splitLine (removeDq line)).length = cifNames.length) ∧
    loadCifTable (readBack as) = some (as.map normCif) := by
  have hcols : (cifColumns as).map (·.2) = (List.range 21).map (fun j => nthCol (as.map cifRow) j) := by
    unfold cifColumns; rw [List.map_map]; rfl
  have hv := cifColumns_tokOk as h
  have rows : ∀ line ∈ loopRows ((cifColumns as).map (·.2)),
      ∃ i, i < as.length ∧ splitLine (removeDq line) = (cifRow (as.getD i default)).map tok := by
    intro line hl
    obtain ⟨i, hi, e⟩ := cif_row_tokens _ hv line hl
    have hi' : i < as.length := by
      have := hi (nthCol (as.map cifRow) 0) (by rw [hcols]; exact List.mem_map.mpr ⟨0, by simp, rfl⟩)
      simpa [nthCol] using this
    refine ⟨i, hi', ?_⟩
    rw [e, hcols, List.map_map]
    have hget : as.getD i default = as[i] := by simp [List.getD_eq_getElem?_getD, hi']
    have hrow : ∀ j, (nthCol (as.map cifRow) j).getD i [] = (cifRow as[i]).getD j [] := by
      intro j; simp [nthCol, List.getD_eq_getElem?_getD, hi']
    rw [hget]
    simp only [Function.comp_def, hrow]
    have r21 : List.range 21 = [0, 1, 2, 3, 4, 5, 6, 7, 8, 9, 10, 11, 12, 13, 14, 15, 16, 17, 18, 19, 20] := by decide
    rw [r21]
    simp [cifRow]
  refine ⟨rows, ?_, loadCifTable_readBack as h⟩
  intro line hl
  obtain ⟨i, _, e⟩ := rows line hl
  rw [e]; simp [cifRow, cifNames]

/-! ## mmCIF: the whole file -/

/-- atoms `_write_mmcif` accepts and whose rows survive the *file* syntax: the values of `WfCif`, a
non-empty chain identifier (`chain_identifier[index][0]`), and a record type — the first value of every
row — that does not make the line look like a comment (`#`), a text field (`;`), a header (`_`) or a
keyword (`data_`, `loop_`).  `ATOM` and `HETATM` qualify. -/
structure WfCifFile (a : Atom) : Prop extends WfCif a where
  chainNe : a.chain ≠ []
  start : lineStartOk a.record = true

theorem cifColumns_loopOk (as : List Atom) (hne : as ≠ []) (h : ∀ a ∈ as, WfCifFile a) :
    LoopOk (cifColumns as) as.length := by
  have hcols : (cifColumns as).map (·.2) = (List.range 21).map (fun j => nthCol (as.map cifRow) j) := by
    unfold cifColumns; rw [List.map_map]; rfl
  refine ⟨List.length_pos_iff.mpr hne, by simp [cifColumns, cifNames], ?_, ?_, ?_, ?_, ?_⟩
  · intro kv hkv
    simp only [cifColumns, List.mem_map, List.mem_range] at hkv
    obtain ⟨j, hj, rfl⟩ := hkv
    have : cifNames.length = 21 := rfl
    rw [this] at hj
    show NameOk (cifNames.getD j "").toList
    interval_cases j <;> decide
  · have : (cifColumns as).map (·.1) = cifNames.map String.toList := by
      unfold cifColumns; rw [List.map_map]; rfl
    rw [this]; decide
  · intro kv hkv
    simp only [cifColumns, List.mem_map, List.mem_range] at hkv
    obtain ⟨j, _, rfl⟩ := hkv
    simp [nthCol]
  · intro kv hkv v hv
    exact cifColumns_tokOk as (fun a ha => (h a ha).toWfCif) kv.2 (List.mem_map.mpr ⟨kv, hkv, rfl⟩) v hv
  · intro v hv
    have : ((cifColumns as).headD default).2 = as.map (·.record) := by
      simp [cifColumns, cifNames, List.range_succ_eq_map, nthCol, cifRow]
    rw [this] at hv
    obtain ⟨a, ha, rfl⟩ := List.mem_map.mp hv
    exact (h a ha).start

/-- **the file-level reader on any written loop** (the general statement behind `cif_roundtrip` and the
re-use theorems).  For every loop table `t` with at least one column and `n ≥ 1` complete rows, distinct
header-safe column names, values without white space or double quote (empty allowed) and first-column
values that do not start like file syntax (`LoopOk t n`): `Parser.__init__`'s line filter,
`_consolidate_strings`, `_split_in_blocks` and `_loop_block_to_dict` applied to the text `_write_mmcif`
prints for `t` return `t` itself - the columns under their names and in their order, the rows in their
order, one token per value, the empty value as ".". -/
theorem parse_written_loop (t : Table) (n : Nat) (h : LoopOk t n) :
    parseCif (writeLoop "atom_site".toList t) = some (t.map (fun kv => (kv.1, kv.2.map tok))) :=
  parseCif_writeLoop t n h

example : LoopOk [("group".toList, ["ATOM".toList, "O5'".toList]), ("val".toList, [[], "-1.5".toList])] 2 := by
  constructor <;> decide

/-- what the file-level reader returns for a written structure is the table of `loadCifTable_readBack` -/
theorem parseCif_writeCif (as : List Atom) (hne : as ≠ []) (h : ∀ a ∈ as, WfCifFile a) :
    (writeCif none as).bind parseCif = some (readBack as) := by
  have hw : as.all pdbWritable = true := by
    rw [List.all_eq_true]; intro a ha
    have := (h a ha).chainNe
    unfold pdbWritable
    cases hc : a.chain with
    | nil => exact absurd hc this
    | cons _ _ => rfl
  unfold writeCif
  simp only [hw, Bool.not_true, Bool.false_eq_true, if_false, Option.bind_some]
  exact parseCif_writeLoop (cifColumns as) as.length (cifColumns_loopOk as hne h)

/-- **mmCIF round trip, whole file.**  For every non-empty list of atoms (any length, any order) whose
text fields contain no white space and no double quote, with a non-empty chain identifier and a record
type that does not start like file syntax: writing the structure with `_write_mmcif` and reading the
text with `MMCIFParser` (line filter, `_consolidate_strings`, `_split_in_blocks`, `_loop_block_to_dict`,
`_split_line`) and `_load_mmcif` returns the same atoms in the same order - serial, residue number,
coordinates, occupancy and B-factor identical, text fields identical except that an empty field reads as
".", and the constant "1" as segment identifier. -/
theorem cif_roundtrip (as : List Atom) (hne : as ≠ []) (h : ∀ a ∈ as, WfCifFile a) :
    (writeCif none as).bind loadCif = some (as.map normCif) := by
  have hp := parseCif_writeCif as hne h
  cases hw : writeCif none as with
  | none => rw [hw] at hp; cases hp
  | some text =>
    rw [hw, Option.bind_some] at hp
    simp only [Option.bind_some, loadCif, hp, Option.bind_eq_bind]
    exact loadCifTable_readBack as (fun a ha => (h a ha).toWfCif)

/-- the guard `as ≠ []` is necessary: a structure without atoms is written (header lines only), but the
reader then takes the header lines for the body, finds no column and `_load_mmcif` raises (`KeyError`) -/
theorem cif_roundtrip_empty : (writeCif none []).isSome = true ∧ (writeCif none []).bind loadCif = none := by
  constructor <;> decide +kernel

/-! ## mmCIF: a structure read from mmCIF is written from the records of its original file -/

/-- **when `_write_mmcif` re-uses the original records, and which.**  `orig` is the `atom_site` table of
the file named in `metadata["filepath"]` (rows complete), `oids` its `id` column.  The writer re-uses
exactly when (1) the ids of the file are pairwise distinct, (2) `atom_serial_number - 1` is a valid
(Python, possibly negative) index into the file for every atom, and (3) the id found in that row is the
atom's serial number; it then prints those rows, in the order of the atoms, with the three coordinate
columns replaced by the structure's coordinates.  In every other case it prints the freshly built
columns (`writeCif_fallback`). -/
theorem reuse_when (orig : Table) (n : Nat) (hr : Rect orig n) (oids : List Str)
    (hid : lookup orig "id".toList = some oids) (atoms : List Atom) (data : Table) :
    reuseOriginal orig atoms data =
      if ¬ oids.Nodup then none else
      match (atoms.map (fun a => a.serial - 1)).mapM (resolve n) with
      | none => none
      | some js =>
        if js.map (fun j => oids.getD j []) ≠ atoms.map (fun a => showInt a.serial) then none
        else some (reuseTable orig js data) :=
  reuseOriginal_rect orig n hr oids hid atoms data

theorem writeCif_fallback (orig : Table) (as : List Atom) (h : reuseOriginal orig as (cifColumns as) = none) :
    writeCif (some orig) as = writeCif none as := by
  unfold writeCif; simp only [h, Option.getD_none]

/-- what a successful re-use consists of -/
theorem reuse_some {orig : Table} {n : Nat} (hr : Rect orig n) {oids : List Str}
    (hid : lookup orig "id".toList = some oids) {atoms : List Atom} {data t : Table}
    (h : reuseOriginal orig atoms data = some t) :
    oids.Nodup ∧ ∃ js, js.length = atoms.length ∧ (∀ j ∈ js, j < n) ∧
      js.map (fun j => oids.getD j []) = atoms.map (fun a => showInt a.serial) ∧ t = reuseTable orig js data := by
  rw [reuseOriginal_rect orig n hr oids hid] at h
  by_cases hnd : oids.Nodup
  · simp only [hnd, not_true_eq_false, if_false] at h
    cases hjs : (atoms.map (fun a => a.serial - 1)).mapM (resolve n) with
    | none => rw [hjs] at h; cases h
    | some js =>
      rw [hjs] at h
      simp only at h
      split at h
      · cases h
      · rename_i hids
        simp only [ne_eq, not_not] at hids
        refine ⟨hnd, js, ?_, ?_, hids, (Option.some.inj h).symm⟩
        · have := (mapM_some_getD hjs 0 0).1; simpa using this
        · intro j hj
          obtain ⟨i, _, e⟩ := mapM_some_mem hjs j hj
          exact resolve_lt e
  · simp only [hnd, not_false_eq_true, if_true] at h; cases h

/-- **the re-used record of an atom is *the* record of the file with the atom's id**: row `j` printed for
atom `a` carries the id `str(a.serial)`, and no other row of the file does -/
theorem reuse_row_unique {orig : Table} {n : Nat} (hr : Rect orig n) {oids : List Str}
    (hid : lookup orig "id".toList = some oids) {atoms : List Atom} {data t : Table}
    (h : reuseOriginal orig atoms data = some t) :
    ∃ js, t = reuseTable orig js data ∧ js.length = atoms.length ∧ ∀ p ∈ js.zip atoms,
      p.1 < n ∧ oids.getD p.1 [] = showInt p.2.serial ∧
      ∀ i, i < n → oids.getD i [] = showInt p.2.serial → i = p.1 := by
  obtain ⟨hnd, js, hl, hlt, hids, ht⟩ := reuse_some hr hid h
  have hon : oids.length = n := lookup_length hr hid
  refine ⟨js, ht, hl, ?_⟩
  intro p hp
  have hp1 := hlt _ (List.of_mem_zip hp).1
  have e := map_eq_zip hids p hp
  refine ⟨hp1, e, ?_⟩
  intro i hi hi2
  have h1 : oids[i]'(by omega) = oids[p.1]'(by omega) := by
    have a1 : oids.getD i [] = oids[i]'(by omega) := by simp [List.getD_eq_getElem?_getD, hon, hi]
    have a2 : oids.getD p.1 [] = oids[p.1]'(by omega) := by simp [List.getD_eq_getElem?_getD, hon, hp1]
    rw [← a1, ← a2, hi2, e]
  exact (List.Nodup.getElem_inj_iff hnd).mp h1

/-- **typing commutes with selecting rows** (the general statement behind `cif_reuse_roundtrip`): if the rows
`raws` of a file type to the atoms `os`, any non-empty selection of rows (any order, repetitions), each with
new coordinates written into it, types to the corresponding atoms of `os` at the new coordinates - provided
the occupancy and B columns are uniform (all numbers or none); with a mixed column `_load_mmcif`'s
whole-column fall-back makes the typing of a row depend on which other rows are present (known finding). -/
theorem typing_commutes_with_selection (raws : List Raw) (os : List Atom) (h : convert raws = some os)
    (ho : Uniform (raws.map (·.occ))) (hb : Uniform (raws.map (·.b)))
    (sel : List (Nat × Atom)) (hne : sel ≠ []) (hlt : ∀ p ∈ sel, p.1 < raws.length)
    (hdec : ∀ p ∈ sel, DecOk p.2.x ∧ DecOk p.2.y ∧ DecOk p.2.z) :
    convert (sel.map (movedRaw raws)) = some (sel.map (fun p => withCoords (os.getD p.1 default) p.2)) :=
  convert_sel raws os h ho hb sel hne hlt hdec

/-- the uniformity hypothesis cannot be dropped: with a mixed occupancy column the file types every
occupancy as 0, the selection of its numeric row alone types it as the number -/
theorem mixed_float_column_witness :
    floatColumn ["1.00".toList, "?".toList] = [Dec.zero, Dec.zero] ∧
    floatColumn ["1.00".toList] = [⟨false, 1, [0, 0]⟩] ∧ ¬ Uniform ["1.00".toList, "?".toList] := by
  refine ⟨by decide, by decide, by decide⟩

/-- **re-use returns exactly the atoms of the structure.**  Let `orig` be the `atom_site` table of the
original file - a loop that survives the file syntax (`LoopOk`: complete rows, header-safe distinct
column names, values without white space / double quote), no empty value (what the parser produces) -
and `os` the atoms `_load_mmcif` types from it, their serial numbers pairwise distinct, the occupancy and
B columns uniform (all numbers or none: the reader's whole-column fall-back is not in play).  Let `as` be
any non-empty list of atoms of that file - any subset, order, repetition - with coordinates changed at
will.  If the writer re-uses the original records (`reuse_when` says when), reading the written text
returns exactly `as`: every field of every atom, in order. -/
theorem cif_reuse_roundtrip (orig : Table) (n : Nat) (os as : List Atom)
    (hfile : LoopOk orig n) (hnev : ∀ kv ∈ orig, ∀ v ∈ kv.2, v ≠ [])
    (hload : loadCifTable orig = some os) (hser : (os.map (·.serial)).Nodup)
    (ho : Uniform (colOr orig n "occupancy")) (hb : Uniform (colOr orig n "B_iso_or_equiv"))
    (hne : as ≠ []) (hsrc : ∀ a ∈ as, ∃ o ∈ os, a = withCoords o a)
    (hdec : ∀ a ∈ as, DecOk a.x ∧ DecOk a.y ∧ DecOk a.z) (hchain : ∀ a ∈ as, a.chain ≠ [])
    (hreuse : (reuseOriginal orig as (cifColumns as)).isSome = true) :
    (writeCif (some orig) as).bind loadCif = some as := by
  have hr : Rect orig n := hfile.len
  obtain ⟨xs, ys, zs, hx, hy, hz⟩ := loadCifTable_some_xyz hload
  obtain ⟨t, ht⟩ := Option.isSome_iff_exists.mp hreuse
  obtain ⟨oids, hid⟩ : ∃ oids, lookup orig "id".toList = some oids := by
    cases hid : lookup orig "id".toList with
    | none => unfold reuseOriginal at ht; rw [hid] at ht; cases ht
    | some oids => exact ⟨oids, rfl⟩
  obtain ⟨js, rfl, hl, hrows⟩ := reuse_row_unique hr hid ht
  have hlt : ∀ j ∈ js, j < n := by
    intro j hj
    obtain ⟨i, hi, e⟩ := List.mem_iff_getElem.mp hj
    have hz : (j, as[i]'(by omega)) ∈ js.zip as := by
      rw [← e]
      exact List.mem_iff_getElem.mpr ⟨i, by simp [List.length_zip, hl, hi]; omega, by simp⟩
    exact (hrows _ hz).1
  -- the text
  have hw : as.all pdbWritable = true := by
    rw [List.all_eq_true]; intro a ha
    have := hchain a ha
    unfold pdbWritable
    cases hc : a.chain with
    | nil => exact absurd hc this
    | cons _ _ => rfl
  obtain ⟨hok, hnev'⟩ := loopOk_reuse orig n hfile hnev xs ys zs hx hy hz js as hl hne hlt hdec
  have htext : writeCif (some orig) as = some (writeLoop atomSite (reuseTable orig js (cifColumns as))) := by
    unfold writeCif
    simp only [hw, Bool.not_true, Bool.false_eq_true, if_false, ht, Option.getD_some]
  rw [htext, Option.bind_some]
  unfold loadCif
  rw [parseCif_writeLoop _ _ hok, map_tok_id _ hnev']
  simp only [Option.bind_eq_bind, Option.bind_some]
  rw [loadCifTable_reuse orig n hfile.rows hr oids xs ys zs hid hx hy hz os hload ho hb js as hl hne hlt hdec]
  -- every selected atom of the file is the atom of the structure it is printed for
  have hconv : convert (rawsOf orig n) = some os := by
    rw [← loadCifTable_rawsOf orig n hfile.rows hr oids xs ys zs hid hx hy hz]; exact hload
  obtain ⟨hosl, pw⟩ := convert_some_pointwise hconv
  rw [rawsOf_length orig n hr] at hosl pw
  congr 1
  have eas : as = (js.zip as).map (fun p => p.2) := by
    have := map_zip_right js as hl id
    simpa using this
  conv_rhs => rw [eas]
  apply List.map_congr_left
  intro p hp
  obtain ⟨hp1, hpid, -⟩ := hrows p hp
  -- the serial number typed from row `p.1`
  have hs : (os.getD p.1 default).serial = p.2.serial := by
    have h1 := (pw p.1 hp1).1
    rw [rawsOf_getD orig n hr p.1 hp1] at h1
    have h2 : (rawRow orig n p.1).serial = oids.getD p.1 [] := by
      simp only [rawRow, colOr, hid]
    rw [h2, hpid, intCell_showInt] at h1
    exact (Option.some.inj h1).symm
  obtain ⟨o, ho', ea⟩ := hsrc p.2 (List.of_mem_zip hp).2
  obtain ⟨i, hi, rfl⟩ := List.mem_iff_getElem.mp ho'
  have hsi : (os[i]).serial = p.2.serial := by
    have := congrArg Atom.serial ea
    rw [withCoords_serial] at this
    exact this.symm
  have hij : i = p.1 := by
    have hj : p.1 < os.length := by omega
    have e1 : (os.map (·.serial))[i]'(by simpa using hi) = (os.map (·.serial))[p.1]'(by simpa using hj) := by
      simp only [List.getElem_map]
      have : os.getD p.1 default = os[p.1] := by simp [List.getD_eq_getElem?_getD, hj]
      rw [hsi, ← hs, this]
    exact (List.Nodup.getElem_inj_iff hser).mp e1
  have : os.getD p.1 default = os[i] := by
    subst hij; simp [List.getD_eq_getElem?_getD, hi]
  rw [this]
  exact ea.symm

/-! ## mmCIF → mmCIF: a structure read from a file pyTME wrote, written again -/

theorem loopOk_map_tok {t : Table} {n : Nat} (h : LoopOk t n) :
    LoopOk (t.map (fun kv => (kv.1, kv.2.map tok))) n ∧
    ∀ kv ∈ t.map (fun kv => (kv.1, kv.2.map tok)), ∀ v ∈ kv.2, v ≠ [] := by
  refine ⟨⟨h.rows, by simpa using h.cols, ?_, ?_, ?_, ?_, ?_⟩, ?_⟩
  · intro kv' hkv'; obtain ⟨kv, hkv, rfl⟩ := List.mem_map.mp hkv'; exact h.names kv hkv
  · rw [List.map_map]; exact h.nodup
  · intro kv' hkv'; obtain ⟨kv, hkv, rfl⟩ := List.mem_map.mp hkv'; simpa using h.len kv hkv
  · intro kv' hkv' v hv
    obtain ⟨kv, hkv, rfl⟩ := List.mem_map.mp hkv'
    obtain ⟨w, hw, rfl⟩ := List.mem_map.mp hv
    exact tok_ok (h.vals kv hkv w hw)
  · cases ht : t with
    | nil => exact absurd ht h.cols
    | cons kv0 rest =>
      have hs := h.start
      rw [ht] at hs
      simp only [List.map_cons, List.headD_cons] at hs ⊢
      intro v hv
      obtain ⟨w, hw, rfl⟩ := List.mem_map.mp hv
      exact tok_lineStartOk (hs w hw)
  · intro kv' hkv' v hv
    obtain ⟨kv, hkv, rfl⟩ := List.mem_map.mp hkv'
    obtain ⟨w, hw, rfl⟩ := List.mem_map.mp hv
    exact tok_ne_nil w

theorem tok_tok (v : Str) : tok (tok v) = tok v := by
  unfold tok; cases v <;> rfl

theorem normCif_withCoords_normCif (a b : Atom) :
    normCif (withCoords (normCif a) b) = withCoords (normCif a) b := by
  simp only [normCif, withCoords, tok_tok]

theorem wfCifFile_moved {a b : Atom} (h : WfCifFile a) (hd : DecOk b.x ∧ DecOk b.y ∧ DecOk b.z) :
    WfCifFile (withCoords (normCif a) b) := by
  have hch : tok a.chain = a.chain := by
    unfold tok; cases hc : a.chain with
    | nil => exact absurd hc h.chainNe
    | cons _ _ => rfl
  exact { record := tok_ok h.record, name := tok_ok h.name, alt := tok_ok h.alt, resName := tok_ok h.resName,
          chain := by simp only [withCoords, normCif, hch]; exact h.chain
          ins := tok_ok h.ins, elem := tok_ok h.elem, charge := tok_ok h.charge,
          x := hd.1, y := hd.2.1, z := hd.2.2, occ := h.occ, b := h.b,
          chainNe := by simp only [withCoords, normCif, hch]; exact h.chainNe
          start := tok_lineStartOk h.start }

/-- **mmCIF → mmCIF.**  Write a structure (`as`, well-formed, non-empty) as mmCIF, read the file, keep any
non-empty selection `r` of the atoms read (any subset, order, repetition), move them at will, and write
`r` as mmCIF again with the first file still in place.  Whether `_write_mmcif` re-uses the records of the
first file (ids unique and addressed by `serial - 1`) or falls back to freshly built columns, reading the
second file returns exactly `r`, every field of every atom, in order. -/
theorem cif_cif_roundtrip (as r : List Atom) (h : ∀ a ∈ as, WfCifFile a) (hr : r ≠ [])
    (hsrc : ∀ b ∈ r, ∃ a ∈ as, b = withCoords (normCif a) b) (hdec : ∀ b ∈ r, DecOk b.x ∧ DecOk b.y ∧ DecOk b.z) :
    (writeCif (some (readBack as)) r).bind loadCif = some r := by
  have hne : as ≠ [] := by
    intro e; subst e
    cases r with
    | nil => exact hr rfl
    | cons b _ => obtain ⟨a, ha, _⟩ := hsrc b (List.mem_cons_self ..); cases ha
  have hwf : ∀ b ∈ r, WfCifFile b := by
    intro b hb
    obtain ⟨a, ha, e⟩ := hsrc b hb
    rw [e]; exact wfCifFile_moved (h a ha) (hdec b hb)
  have hnorm : r.map normCif = r := by
    have : ∀ b ∈ r, normCif b = id b := by
      intro b hb
      obtain ⟨a, _, e⟩ := hsrc b hb
      rw [e]; exact normCif_withCoords_normCif a b
    rw [List.map_congr_left this, List.map_id]
  cases hre : reuseOriginal (readBack as) r (cifColumns r) with
  | none =>
    rw [writeCif_fallback _ _ hre, cif_roundtrip r hr hwf, hnorm]
  | some t =>
    obtain ⟨hok, hnev⟩ := loopOk_map_tok (cifColumns_loopOk as hne h)
    have hwfc : ∀ a ∈ as, WfCif a := fun a ha => (h a ha).toWfCif
    have hid : lookup (readBack as) "id".toList = some (as.map (fun a => showInt a.serial)) := by
      have k1 : lookup (readBack as) "id".toList = _ := lookup_readBack as 1 (by decide)
      simp only [cifRow, List.getD_eq_getElem?_getD, List.getElem?_cons_succ, List.getElem?_cons_zero,
        Option.getD_some, tok_showInt] at k1
      exact k1
    obtain ⟨hnd, -⟩ := reuse_some hok.len hid hre
    have hser : ((as.map normCif).map (·.serial)).Nodup := by
      rw [List.map_map]
      have e : as.map (fun a => showInt a.serial) = (as.map ((·.serial) ∘ normCif)).map showInt := by
        rw [List.map_map]; rfl
      rw [e] at hnd
      exact List.Nodup.of_map _ hnd
    have hu : ∀ (k : String) (j : Nat) (f : Atom → Dec), (∀ a ∈ as, DecOk (f a)) →
        lookup (readBack as) k.toList = some (as.map (fun a => tok (showDec (f a)))) →
        Uniform (colOr (readBack as) as.length k) := by
      intro k j f hf hl
      left
      unfold colOr
      rw [hl]
      intro v hv
      obtain ⟨a, ha, rfl⟩ := List.mem_map.mp hv
      rw [tok_showDec, strip_clean (showDec_clean _ (hf a ha)), parseDec_showDec _ (hf a ha)]; rfl
    have ho : Uniform (colOr (readBack as) as.length "occupancy") := by
      apply hu "occupancy" 13 (·.occ) (fun a ha => (h a ha).occ)
      have k13 : lookup (readBack as) "occupancy".toList = _ := lookup_readBack as 13 (by decide)
      simp only [cifRow, List.getD_eq_getElem?_getD, List.getElem?_cons_succ, List.getElem?_cons_zero,
        Option.getD_some] at k13
      exact k13
    have hb : Uniform (colOr (readBack as) as.length "B_iso_or_equiv") := by
      apply hu "B_iso_or_equiv" 14 (·.b) (fun a ha => (h a ha).b)
      have k14 : lookup (readBack as) "B_iso_or_equiv".toList = _ := lookup_readBack as 14 (by decide)
      simp only [cifRow, List.getD_eq_getElem?_getD, List.getElem?_cons_succ, List.getElem?_cons_zero,
        Option.getD_some] at k14
      exact k14
    exact cif_reuse_roundtrip (readBack as) as.length (as.map normCif) r hok hnev
      (loadCifTable_readBack as hwfc) hser ho hb hr
      (by
        intro b hb'
        obtain ⟨a, ha, e⟩ := hsrc b hb'
        exact ⟨normCif a, List.mem_map.mpr ⟨a, ha, rfl⟩, e⟩)
      hdec (fun b hb' => (hwf b hb').chainNe) (by rw [hre]; rfl)

/-! ## filters -/

theorem keepAtom_iff (k : Bool) (es rs : List Str) (a : Atom) :
    keepAtom k es rs a = true ↔
      (es = [] ∨ a.elem ∈ es) ∧ (rs = [] ∨ a.resName ∈ rs) ∧ (k = true ∨ a.record = "ATOM".toList) := by
  simp [keepAtom, List.isEmpty_iff, and_assoc]

/-- **filters keep exactly the matching atoms**, in their original order: the result is a
sub-list of the input, and an atom is in it iff it was in the input and matches the element set,
the residue set (an empty set meaning "all") and the record rule -/
theorem filter_exact (k : Bool) (es rs : List Str) (as : List Atom) :
    (filterAtoms k es rs as).Sublist as ∧
    (∀ a, a ∈ filterAtoms k es rs as ↔ a ∈ as ∧
      (es = [] ∨ a.elem ∈ es) ∧ (rs = [] ∨ a.resName ∈ rs) ∧ (k = true ∨ a.record = "ATOM".toList)) ∧
    (∀ a, (filterAtoms k es rs as).count a = if keepAtom k es rs a then as.count a else 0) := by
  refine ⟨List.filter_sublist, ?_, ?_⟩
  · intro a; simp only [filterAtoms, List.mem_filter, keepAtom_iff]
  · intro a
    unfold filterAtoms
    split
    · rename_i hk; exact List.count_filter hk
    · rename_i hk
      apply List.count_eq_zero.mpr
      intro hm; exact hk (List.mem_filter.mp hm).2

/-! ## the two formats agree -/

/-- equality on everything the property names, with "", "." and "?" identified -/
def sameNamed (p q : Atom) : Prop :=
  normStr p.record = normStr q.record ∧ p.serial = q.serial ∧ normStr p.name = normStr q.name ∧
  normStr p.alt = normStr q.alt ∧ normStr p.resName = normStr q.resName ∧ normStr p.chain = normStr q.chain ∧
  p.resSeq = q.resSeq ∧ normStr p.ins = normStr q.ins ∧ normStr p.elem = normStr q.elem ∧
  normStr p.charge = normStr q.charge ∧ p.x = q.x ∧ p.y = q.y ∧ p.z = q.z ∧ p.occ = q.occ ∧ p.b = q.b

theorem normStr_tok (v : Str) : normStr (tok v) = normStr v := by
  unfold tok; cases v <;> rfl

theorem sameNamed_normCif (a : Atom) : sameNamed a (normCif a) := by
  simp only [sameNamed, normCif, normStr_tok, and_self]

theorem forall₂_sameNamed_normCif (as : List Atom) : List.Forall₂ sameNamed as (as.map normCif) := by
  induction as with
  | nil => exact List.Forall₂.nil
  | cons a rest ih => exact List.Forall₂.cons (sameNamed_normCif a) ih

/-- no text field contains a double quote (the mmCIF reader deletes double quotes: known finding) -/
def NoDq (a : Atom) : Prop :=
  '"' ∉ a.name ∧ '"' ∉ a.alt ∧ '"' ∉ a.resName ∧ '"' ∉ a.chain ∧ '"' ∉ a.ins ∧ '"' ∉ a.elem ∧ '"' ∉ a.charge

instance (a : Atom) : Decidable (NoDq a) := by unfold NoDq; infer_instance

/-- an atom representable in the fixed PDB columns is, double quotes aside, one the mmCIF file syntax
carries: `ATOM` / `HETATM` start a row safely, the chain identifier is one character -/
theorem wfCifFile_of_wfPdb {a : Atom} (h : WfPdb a) (hq : NoDq a) : WfCifFile a := by
  obtain ⟨q1, q2, q3, q4, q5, q6, q7⟩ := hq
  have hrec : TokOk a.record ∧ lineStartOk a.record = true := by
    rcases h.record with e | e <;> rw [e] <;> decide
  have hc1 := h.chain.2
  exact { record := hrec.1, name := ⟨h.name.1, q1⟩, alt := ⟨h.alt.1, q2⟩, resName := ⟨h.resName.1, q3⟩,
          chain := ⟨⟨h.chain.1, q4⟩, by omega⟩, ins := ⟨h.ins.1, q5⟩, elem := ⟨h.elem.1, q6⟩,
          charge := ⟨h.charge.1, q7⟩, x := h.x.1, y := h.y.1, z := h.z.1, occ := h.occ.1, b := h.b.1,
          chainNe := by intro e; rw [e] at hc1; simp at hc1
          start := hrec.2 }

/-- **cross-format, file to file.**  The PDB text and the mmCIF text `to_file` writes for the same atoms
(representable in the PDB columns, no double quote) are read back by `from_file` - PDB reader resp.
the whole mmCIF reader - as the same atoms in the same order: record type, serial, names, chain, residue
number, insertion code, alt-loc, element, charge (no-value forms identified), coordinates, occupancy and
B-factor.  (`cross_format` below is the corollary for the token table.) -/
theorem cross_format_files (as : List Atom) (hne : as ≠ []) (hp : ∀ a ∈ as, WfPdb a) (hq : ∀ a ∈ as, NoDq a) :
    ∃ viaPdb viaCif, (writePdb as).bind loadPdb = some viaPdb ∧ (writeCif none as).bind loadCif = some viaCif ∧
      List.Forall₂ sameNamed viaPdb viaCif :=
  ⟨as, as.map normCif, pdb_roundtrip as hp,
    cif_roundtrip as hne (fun a ha => wfCifFile_of_wfPdb (hp a ha) (hq a ha)), forall₂_sameNamed_normCif as⟩

theorem tok_length_le (v : Str) (w : Nat) (hw : 1 ≤ w) (h : v.length ≤ w) : (tok v).length ≤ w := by
  unfold tok; cases v with
  | nil => simpa using hw
  | cons _ _ => exact h

/-- what the mmCIF reader returns for an atom representable in the PDB columns is representable again -/
theorem wfPdb_normCif {a : Atom} (h : WfPdb a) (hq : NoDq a) : WfPdb (normCif a) := by
  obtain ⟨q1, q2, q3, q4, q5, q6, q7⟩ := hq
  have t : ∀ {v : Str}, Clean v → '"' ∉ v → Clean (tok v) := fun hc hd => (tok_ok ⟨hc, hd⟩).1
  have hch : tok a.chain = a.chain := by
    unfold tok; cases hc : a.chain with
    | nil => have := h.chain.2; rw [hc] at this; simp at this
    | cons _ _ => rfl
  have hrec : tok a.record = a.record := by rcases h.record with e | e <;> rw [e] <;> rfl
  exact { record := by simp only [normCif, hrec]; exact h.record
          serial := h.serial
          name := ⟨t h.name.1 q1, tok_length_le _ 4 (by decide) h.name.2⟩
          alt := ⟨t h.alt.1 q2, tok_length_le _ 1 (by decide) h.alt.2⟩
          resName := ⟨t h.resName.1 q3, tok_length_le _ 3 (by decide) h.resName.2⟩
          chain := by simp only [normCif, hch]; exact h.chain
          resSeq := h.resSeq
          ins := ⟨t h.ins.1 q5, tok_length_le _ 1 (by decide) h.ins.2⟩
          x := h.x, y := h.y, z := h.z, occ := h.occ, b := h.b
          seg := by simp only [normCif]; decide
          elem := ⟨t h.elem.1 q6, tok_length_le _ 2 (by decide) h.elem.2⟩
          charge := ⟨t h.charge.1 q7, tok_length_le _ 2 (by decide) h.charge.2⟩ }

/-- **structures read from the other format.**  A structure read from a PDB file and written as mmCIF, and a
structure read from an mmCIF file and written as PDB, read back as the same atoms in the same order, every
named field preserved (no-value forms identified): both chains return `as.map normCif`. -/
theorem roundtrip_chains (as : List Atom) (hne : as ≠ []) (hp : ∀ a ∈ as, WfPdb a) (hq : ∀ a ∈ as, NoDq a) :
    ((writePdb as).bind loadPdb).bind (fun r => (writeCif none r).bind loadCif) = some (as.map normCif) ∧
    ((writeCif none as).bind loadCif).bind (fun r => (writePdb r).bind loadPdb) = some (as.map normCif) ∧
    List.Forall₂ sameNamed as (as.map normCif) := by
  have hc := cif_roundtrip as hne (fun a ha => wfCifFile_of_wfPdb (hp a ha) (hq a ha))
  refine ⟨?_, ?_, forall₂_sameNamed_normCif as⟩
  · rw [pdb_roundtrip as hp, Option.bind_some]; exact hc
  · rw [hc, Option.bind_some]
    apply pdb_roundtrip
    intro b hb
    obtain ⟨a, ha, rfl⟩ := List.mem_map.mp hb
    exact wfPdb_normCif (hp a ha) (hq a ha)

/-- **cross-format.**  The same atoms written as PDB and as mmCIF read back, atom by atom and in
the same order, with the same record type, serial, names, chain, residue number, insertion code,
alt-loc, element, charge (no-value forms identified), coordinates, occupancy and B-factor
(mmCIF side: from the token table; corollary of the file-to-file statement `cross_format_files`). -/
theorem cross_format (as : List Atom) (hp : ∀ a ∈ as, WfPdb a) (hc : ∀ a ∈ as, WfCif a) :
    ∃ viaPdb viaCif, (writePdb as).bind loadPdb = some viaPdb ∧ loadCifTable (readBack as) = some viaCif ∧
      List.Forall₂ sameNamed viaPdb viaCif := by
  refine ⟨as, as.map normCif, pdb_roundtrip as hp, loadCifTable_readBack as hc, ?_⟩
  induction as with
  | nil => exact List.Forall₂.nil
  | cons a rest ih =>
    exact List.Forall₂.cons (sameNamed_normCif a)
      (ih (fun b hb => hp b (List.mem_cons_of_mem _ hb)) (fun b hb => hc b (List.mem_cons_of_mem _ hb)))

/-! ## non-vacuity: a primed name, negative residue number, empty optional fields, "-0.000" -/

def sampleAtom : Atom :=
  { record := "HETATM".toList, serial := 99999, name := "O5'".toList, alt := [], resName := "DA".toList,
    chain := "B".toList, resSeq := -12, ins := [], x := ⟨true, 15, [1, 2, 7]⟩, y := ⟨true, 0, [0, 0, 0]⟩,
    z := ⟨false, 9999, [9, 9, 9]⟩, occ := ⟨false, 1, [0, 0]⟩, b := ⟨false, 159, [4, 8]⟩, seg := [],
    elem := "O".toList, charge := [] }

theorem sample_wfPdb : WfPdb sampleAtom := by constructor <;> decide
theorem sample_wfCif : WfCif sampleAtom := by constructor <;> decide

example : (writePdb [sampleAtom, sampleAtom]).bind loadPdb = some [sampleAtom, sampleAtom] :=
  pdb_roundtrip _ (by intro a ha; simp at ha; subst ha; exact sample_wfPdb)
example : pdbLine sampleAtom =
    "HETATM99999 O5'  DA  B -12     -15.127  -0.0009999.999  1.00159.48          O   ".toList := by decide
example : loadCifTable (readBack [sampleAtom]) = some [normCif sampleAtom] :=
  loadCifTable_readBack _ (by intro a ha; simp at ha; subst ha; exact sample_wfCif)
example : (normCif sampleAtom).alt = ".".toList ∧ (normCif sampleAtom).name = "O5'".toList := by decide
example : filterAtoms false ["O".toList] [] [sampleAtom, { sampleAtom with record := "ATOM".toList }]
    = [{ sampleAtom with record := "ATOM".toList }] := by decide
example := cross_format [sampleAtom] (by intro a ha; simp at ha; subst ha; exact sample_wfPdb)
    (by intro a ha; simp at ha; subst ha; exact sample_wfCif)
example : loopRows ((cifColumns [sampleAtom]).map (·.2)) =
    ["HETATM 99999 O \"O5'\" . DA B 1 -12 . -15.127 -0.000 9999.999 1.00 159.48 . -12 DA B \"O5'\" 1 ".toList] := by
  decide

/-! ### the whole mmCIF file, both formats, structures read from the other format -/

theorem sample_wfCifFile : WfCifFile sampleAtom :=
  { toWfCif := sample_wfCif, chainNe := by decide, start := by decide }

def sampleAtom2 : Atom :=
  { sampleAtom with record := "ATOM".toList, serial := 2, name := "CA".toList, alt := "A".toList, resSeq := 7,
                    x := ⟨false, 1, [5, 0, 0]⟩, elem := "C".toList, charge := "1-".toList }

theorem sample2_wfPdb : WfPdb sampleAtom2 := by constructor <;> decide
theorem sample2_wfCifFile : WfCifFile sampleAtom2 :=
  { toWfCif := by constructor <;> decide, chainNe := by decide, start := by decide }

example : (writeCif none [sampleAtom, sampleAtom2]).bind loadCif = some [normCif sampleAtom, normCif sampleAtom2] :=
  cif_roundtrip _ (by simp) (by
    intro a ha; simp at ha; rcases ha with rfl | rfl
    · exact sample_wfCifFile
    · exact sample2_wfCifFile)
example : NoDq sampleAtom ∧ NoDq sampleAtom2 := by decide
example := cross_format_files [sampleAtom, sampleAtom2] (by simp)
  (by intro a ha; simp at ha; rcases ha with rfl | rfl; exacts [sample_wfPdb, sample2_wfPdb])
  (by intro a ha; simp at ha; rcases ha with rfl | rfl <;> decide)
example := roundtrip_chains [sampleAtom, sampleAtom2] (by simp)
  (by intro a ha; simp at ha; rcases ha with rfl | rfl; exacts [sample_wfPdb, sample2_wfPdb])
  (by intro a ha; simp at ha; rcases ha with rfl | rfl <;> decide)

/-! ### re-use of the original file: a file of another program (columns in its own order, an unknown
column, a two-character chain, no occupancy / B column), of which the structure keeps the second atom
only, moved -/

def sampleOrig : Table :=
  [("id".toList, ["1".toList, "2".toList]),
   ("group_PDB".toList, ["ATOM".toList, "HETATM".toList]),
   ("label_atom_id".toList, ["CA".toList, "O5'".toList]),
   ("label_asym_id".toList, ["A".toList, "BB".toList]),
   ("label_seq_id".toList, ["7".toList, ".".toList]),
   ("Cartn_x".toList, ["1.500".toList, "-15.127".toList]),
   ("Cartn_y".toList, ["0.000".toList, "2.5".toList]),
   ("Cartn_z".toList, ["3.250".toList, "+4".toList]),
   ("pdbx_x_esd".toList, ["?".toList, "0.1".toList])]

def sampleOs : List Atom := (convert ((List.range 2).map (rawRow sampleOrig 2))).getD []
def sampleKept : List Atom :=
  [{ sampleOs.getD 1 default with x := ⟨false, 7, [1, 2, 5]⟩, z := ⟨true, 0, [5, 0, 0]⟩ }]

theorem sampleOrig_loopOk : LoopOk sampleOrig 2 := by constructor <;> decide
theorem sampleOrig_load : loadCifTable sampleOrig = some sampleOs := by
  rw [loadCifTable_rawsOf sampleOrig 2 (by decide) (by decide) ["1".toList, "2".toList]
    ["1.500".toList, "-15.127".toList] ["0.000".toList, "2.5".toList] ["3.250".toList, "+4".toList]
    (by decide) (by decide) (by decide) (by decide), rawsOf_eq sampleOrig 2 (by decide)]
  decide +kernel

example : Rect sampleOrig 2 ∧ lookup sampleOrig "id".toList = some ["1".toList, "2".toList] := by
  constructor <;> decide
example : (sampleOs.getD 1 default).chain = "BB".toList ∧ (sampleOs.getD 1 default).resSeq = 0 ∧
    (sampleOs.getD 1 default).occ = Dec.zero ∧ (sampleOs.getD 1 default).z = ⟨false, 4, []⟩ := by decide +kernel
example : (writeCif (some sampleOrig) sampleKept).bind loadCif = some sampleKept :=
  cif_reuse_roundtrip sampleOrig 2 sampleOs sampleKept sampleOrig_loopOk (by decide) sampleOrig_load
    (by decide +kernel) (Or.inr (by decide)) (Or.inr (by decide)) (by decide) (by decide +kernel)
    (by decide +kernel) (by decide +kernel) (by decide +kernel)
example : ∃ t, reuseOriginal sampleOrig sampleKept (cifColumns sampleKept) = some t ∧
    lookup t "label_asym_id".toList = some ["BB".toList] ∧ lookup t "Cartn_x".toList = some ["7.125".toList] :=
  ⟨(reuseOriginal sampleOrig sampleKept (cifColumns sampleKept)).getD [], by decide +kernel, by decide +kernel,
    by decide +kernel⟩

/-! ### mmCIF → mmCIF: of the two atoms written, the second is kept, moved, and written again -/

def sampleMoved : Atom := { normCif sampleAtom2 with y := ⟨true, 3, [0, 0, 1]⟩ }

example : (writeCif (some (readBack [sampleAtom, sampleAtom2])) [sampleMoved]).bind loadCif = some [sampleMoved] :=
  cif_cif_roundtrip [sampleAtom, sampleAtom2] [sampleMoved]
    (by intro a ha; simp at ha; rcases ha with rfl | rfl; exacts [sample_wfCifFile, sample2_wfCifFile])
    (by simp) (by intro b hb; simp at hb; subst hb; exact ⟨sampleAtom2, by simp, by decide⟩)
    (by intro b hb; simp at hb; subst hb; decide)

example : reuseOriginal sampleOrig [sampleAtom] (cifColumns [sampleAtom]) = none := by decide +kernel
example : writeCif (some sampleOrig) [sampleAtom] = writeCif none [sampleAtom] :=
  writeCif_fallback _ _ (by decide +kernel)
example : WfPdb (normCif sampleAtom) ∧ WfCifFile sampleAtom :=
  ⟨wfPdb_normCif sample_wfPdb (by decide), wfCifFile_of_wfPdb sample_wfPdb (by decide)⟩
example : convert ((List.range 2).map (rawRow sampleOrig 2)) = some sampleOs ∧
    Uniform (((List.range 2).map (rawRow sampleOrig 2)).map (·.occ)) := by
  constructor <;> decide +kernel

/-! ## deepen7: filter algebra, round-trip corollaries, "no value" normalisation, field widths -/

/-- filtering twice with the same sets is the same as filtering once (idempotence of `from_file` filters) -/
theorem filter_idem (k : Bool) (es rs : List Str) (as : List Atom) :
    filterAtoms k es rs (filterAtoms k es rs as) = filterAtoms k es rs as := by
  simp [filterAtoms, List.filter_filter]

/-- composing two filters keeps exactly the atoms matching the conjunction of both predicates -/
theorem filter_comp (k k' : Bool) (es rs es' rs' : List Str) (as : List Atom) :
    filterAtoms k es rs (filterAtoms k' es' rs' as) =
      as.filter (fun a => keepAtom k es rs a && keepAtom k' es' rs' a) := by
  simp [filterAtoms, List.filter_filter]

/-- two filters commute -/
theorem filter_comm (k k' : Bool) (es rs es' rs' : List Str) (as : List Atom) :
    filterAtoms k es rs (filterAtoms k' es' rs' as) = filterAtoms k' es' rs' (filterAtoms k es rs as) := by
  rw [filter_comp, filter_comp]
  apply List.filter_congr
  intro a _; exact Bool.and_comm _ _

/-- no element set, no residue set and keeping non-ATOM records: the filter is the identity -/
theorem filter_all (as : List Atom) : filterAtoms true [] [] as = as := by
  simp [filterAtoms, keepAtom]

/-- a filter never increases the number of atoms -/
theorem filter_length_le (k : Bool) (es rs : List Str) (as : List Atom) :
    (filterAtoms k es rs as).length ≤ as.length := List.length_filter_le _ _

/-- filtering is atom-wise: it distributes over concatenation of structures -/
theorem filter_append (k : Bool) (es rs : List Str) (as bs : List Atom) :
    filterAtoms k es rs (as ++ bs) = filterAtoms k es rs as ++ filterAtoms k es rs bs := by
  simp [filterAtoms]

/-- a filter preserves order: any relation holding pairwise (earlier, later) before holds after -/
theorem filter_pairwise (R : Atom → Atom → Prop) (k : Bool) (es rs : List Str) (as : List Atom)
    (h : as.Pairwise R) : (filterAtoms k es rs as).Pairwise R :=
  h.sublist List.filter_sublist

/-- filtering commutes with the PDB round trip: writing and reading the filtered structure gives the
filter of the written-and-read structure -/
theorem filter_pdb_roundtrip (k : Bool) (es rs : List Str) (as : List Atom) (h : ∀ a ∈ as, WfPdb a) :
    (writePdb (filterAtoms k es rs as)).bind loadPdb =
      ((writePdb as).bind loadPdb).map (filterAtoms k es rs) := by
  have hf : ∀ a ∈ filterAtoms k es rs as, WfPdb a := fun a ha => h a (List.filter_sublist.subset ha)
  rw [pdb_roundtrip as h, pdb_roundtrip _ hf]
  rfl

/-- the PDB round trip preserves the number of atoms -/
theorem pdb_roundtrip_length (as r : List Atom) (h : ∀ a ∈ as, WfPdb a)
    (hr : (writePdb as).bind loadPdb = some r) : r.length = as.length := by
  rw [pdb_roundtrip as h] at hr; cases hr; rfl

/-- the PDB round trip maps index `i` to index `i` -/
theorem pdb_roundtrip_index (as r : List Atom) (h : ∀ a ∈ as, WfPdb a)
    (hr : (writePdb as).bind loadPdb = some r) (i : Nat) : r[i]? = as[i]? := by
  rw [pdb_roundtrip as h] at hr; cases hr; rfl

/-- a second PDB round trip changes nothing (write-read is idempotent) -/
theorem pdb_roundtrip_twice (as : List Atom) (h : ∀ a ∈ as, WfPdb a) :
    ((writePdb as).bind loadPdb).bind (fun r => (writePdb r).bind loadPdb) = (writePdb as).bind loadPdb := by
  rw [pdb_roundtrip as h]; exact pdb_roundtrip as h

/-- the mmCIF round trip preserves the number of atoms -/
theorem cif_roundtrip_length (as r : List Atom) (hne : as ≠ []) (h : ∀ a ∈ as, WfCifFile a)
    (hr : (writeCif none as).bind loadCif = some r) : r.length = as.length := by
  rw [cif_roundtrip as hne h] at hr; cases hr; simp

/-- the mmCIF round trip maps index `i` to index `i` (up to the "." written for an empty field) -/
theorem cif_roundtrip_index (as r : List Atom) (hne : as ≠ []) (h : ∀ a ∈ as, WfCifFile a)
    (hr : (writeCif none as).bind loadCif = some r) (i : Nat) : r[i]? = as[i]?.map normCif := by
  rw [cif_roundtrip as hne h] at hr; cases hr; simp

/-- the normalisation the mmCIF reader applies to an atom ("." for empty) is idempotent -/
theorem normCif_idem (a : Atom) : normCif (normCif a) = normCif a := by
  simp [normCif, tok_tok]

/-- "no value" normalisation is idempotent -/
theorem normStr_idem (s : Str) : normStr (normStr s) = normStr s := by
  unfold normStr; split <;> simp_all [noVal]

/-- the three spellings of "no value" normalise to the same thing, and anything else is unchanged -/
theorem normStr_spec (s : Str) :
    normStr [] = [] ∧ normStr ['.'] = [] ∧ normStr ['?'] = [] ∧
    (s ≠ [] → s ≠ ['.'] → s ≠ ['?'] → normStr s = s) := by
  refine ⟨by decide, by decide, by decide, ?_⟩
  intro h1 h2 h3
  simp [normStr, noVal, h1, h2, h3]

/-- equality up to "no value" is reflexive -/
theorem sameNamed_refl (a : Atom) : sameNamed a a :=
  ⟨rfl, rfl, rfl, rfl, rfl, rfl, rfl, rfl, rfl, rfl, rfl, rfl, rfl, rfl, rfl⟩

/-- equality up to "no value" is symmetric -/
theorem sameNamed_symm {a b : Atom} (h : sameNamed a b) : sameNamed b a := by
  obtain ⟨h1, h2, h3, h4, h5, h6, h7, h8, h9, h10, h11, h12, h13, h14, h15⟩ := h
  exact ⟨h1.symm, h2.symm, h3.symm, h4.symm, h5.symm, h6.symm, h7.symm, h8.symm, h9.symm, h10.symm,
    h11.symm, h12.symm, h13.symm, h14.symm, h15.symm⟩

/-- equality up to "no value" is transitive -/
theorem sameNamed_trans {a b c : Atom} (h : sameNamed a b) (g : sameNamed b c) : sameNamed a c := by
  obtain ⟨h1, h2, h3, h4, h5, h6, h7, h8, h9, h10, h11, h12, h13, h14, h15⟩ := h
  obtain ⟨g1, g2, g3, g4, g5, g6, g7, g8, g9, g10, g11, g12, g13, g14, g15⟩ := g
  exact ⟨h1.trans g1, h2.trans g2, h3.trans g3, h4.trans g4, h5.trans g5, h6.trans g6, h7.trans g7,
    h8.trans g8, h9.trans g9, h10.trans g10, h11.trans g11, h12.trans g12, h13.trans g13, h14.trans g14,
    h15.trans g15⟩

/-- `f"{s:<w}"` of a value that fits is exactly `w` characters wide -/
theorem ljust_length_eq (w : Nat) (s : Str) (h : s.length ≤ w) : (ljust w s).length = w := by
  simp [ljust, spaces]; omega

/-- `f"{s:>w}"` of a value that fits is exactly `w` characters wide -/
theorem rjust_length_eq (w : Nat) (s : Str) (h : s.length ≤ w) : (rjust w s).length = w := by
  simp [rjust, spaces]; omega

/-- a value wider than its column is not truncated by the f-string: the field overflows -/
theorem ljust_overflow (w : Nat) (s : Str) (h : w ≤ s.length) : ljust w s = s ∧ rjust w s = s := by
  have : w - s.length = 0 := by omega
  simp [ljust, rjust, spaces, this]

example : (writePdb [sampleAtom]).bind loadPdb = some [sampleAtom] :=
  pdb_roundtrip _ (by intro a ha; simp at ha; subst ha; exact sample_wfPdb)
example : (writeCif none [sampleAtom]).bind loadCif = some [normCif sampleAtom] :=
  cif_roundtrip _ (by simp) (by intro a ha; simp at ha; subst ha; exact sample_wfCifFile)

/-- fixed-width text field: a whitespace-free value that fits is written at exactly the column width and
`strip` of the written field (left- or right-justified) gives the value back -/
theorem field_write_read (w : Nat) (s : Str) (hc : Clean s) (h : s.length ≤ w) :
    (ljust w s).length = w ∧ (rjust w s).length = w ∧ strip (ljust w s) = s ∧ strip (rjust w s) = s :=
  ⟨length_ljust w s h, length_rjust w s h, strip_ljust hc w, strip_rjust hc w⟩

/-- fixed-width integer field: whatever the column width, `int(field.strip())` of a right-justified
`str(i)` is `i` -/
theorem int_field_write_read (i : Int) (w : Nat) : intCell (rjust w (showInt i)) = some i :=
  intCell_showInt_rjust i w

/-- the mmCIF round trip of a filtered structure returns exactly the filtered atoms, in order -/
theorem filter_cif_roundtrip (k : Bool) (es rs : List Str) (as : List Atom) (h : ∀ a ∈ as, WfCifFile a)
    (hne : filterAtoms k es rs as ≠ []) :
    (writeCif none (filterAtoms k es rs as)).bind loadCif = some ((filterAtoms k es rs as).map normCif) :=
  cif_roundtrip _ hne (fun a ha => h a (List.filter_sublist.subset ha))

example : Clean "CA".toList ∧ "CA".toList.length ≤ 4 := by decide
example : filterAtoms true [] [] [sampleAtom] ≠ [] := by decide

end Pm.C09
