import PytmeModel.Model.C09
import PytmeModel.Proofs.C09

/-! # C09 — atomic structures round-trip through PDB and mmCIF and the two formats agree

Statements are about the model of `Model/C09.lean`, which the harness compares with the real
`Structure.to_file` / `Structure.from_file` on every run (file text and typed tables).  Numbers are
validated decimal text (`Dec`); CPython's float ↔ decimal conversions stay in the harness. -/
namespace Pm.C09

/-! ## the column table (extracted from the source on every run and compared with these constants) -/

/-- what makes a reader/writer column pair sound: writer columns are well-formed, inside the line,
pairwise disjoint; every reader column lies inside the writer column of the same field; each field
has exactly one column on each side.  A moved column breaks this (or the extraction obligation). -/
theorem cols_consistent :
    (∀ c ∈ pdbWriterCols, c.lo ≤ c.hi ∧ c.hi ≤ pdbWidth) ∧
    pdbWriterCols.Pairwise Disjoint ∧
    (∀ r ∈ pdbReaderCols, ∃ w ∈ pdbWriterCols, w.f = r.f ∧ w.lo ≤ r.lo ∧ r.lo ≤ r.hi ∧ r.hi ≤ w.hi) ∧
    pdbWriterCols.map (·.f) = F.all ∧ pdbReaderCols.map (·.f) = F.all ∧
    -- every field the property names is read from *exactly* the columns it is written to
    (∀ r ∈ pdbReaderCols, r.f ≠ F.seg → r ∈ pdbWriterCols) := by
  refine ⟨by decide, by decide, by decide, by decide, by decide, by decide⟩

example : (⟨.charge, 78, 80⟩ : Col) ∈ pdbReaderCols ∧ (⟨.charge, 78, 80⟩ : Col) ∈ pdbWriterCols := by decide

/-! ## PDB round trip -/

/-- "representable in fixed-width PDB columns": every text fits its column and contains no white
space; numbers fit as decimal text; record type is one the reader recognises -/
structure WfPdb (a : Atom) : Prop where
  record : a.record = "ATOM".toList ∨ a.record = "HETATM".toList
  serial : (showInt a.serial).length ≤ 5
  name : Clean a.name ∧ a.name.length ≤ 4
  alt : Clean a.alt ∧ a.alt.length ≤ 1
  resName : Clean a.resName ∧ a.resName.length ≤ 3
  chain : Clean a.chain ∧ a.chain.length = 1
  resSeq : (showInt a.resSeq).length ≤ 4
  ins : Clean a.ins ∧ a.ins.length ≤ 1
  x : DecOk a.x ∧ (showDec a.x).length ≤ 8
  y : DecOk a.y ∧ (showDec a.y).length ≤ 8
  z : DecOk a.z ∧ (showDec a.z).length ≤ 8
  occ : DecOk a.occ ∧ (showDec a.occ).length ≤ 6
  b : DecOk a.b ∧ (showDec a.b).length ≤ 6
  seg : Clean a.seg ∧ a.seg.length ≤ 2
  elem : Clean a.elem ∧ a.elem.length ≤ 2
  charge : Clean a.charge ∧ a.charge.length ≤ 2

/-! the numeric ranges of the property's quantifier give the width conditions of `WfPdb` -/

/-- serial numbers −9999 … 99999 fit the five serial columns -/
theorem serial_fits (i : Int) (h : -9999 ≤ i ∧ i ≤ 99999) : (showInt i).length ≤ 5 := by
  unfold showInt
  split
  · have := showNat_length i.natAbs 4 (by decide) (by omega)
    simp; omega
  · exact showNat_length i.natAbs 5 (by decide) (by omega)

/-- residue numbers −999 … 9999 fit the four residue-number columns -/
theorem resSeq_fits (i : Int) (h : -999 ≤ i ∧ i ≤ 9999) : (showInt i).length ≤ 4 := by
  unfold showInt
  split
  · have := showNat_length i.natAbs 3 (by decide) (by omega)
    simp; omega
  · exact showNat_length i.natAbs 4 (by decide) (by omega)

/-- coordinates −999.999 … 9999.999 with three decimals fit `%8.3f` -/
theorem coord_fits (d : Dec) (hf : d.frac.length = 3) (h : if d.neg then d.ip ≤ 999 else d.ip ≤ 9999) :
    (showDec d).length ≤ 8 := by
  unfold showDec
  cases hn : d.neg <;> simp only [hn, if_true, Bool.false_eq_true, if_false] at h ⊢
  · have := showNat_length d.ip 4 (by decide) (by omega)
    simp [hf]; omega
  · have := showNat_length d.ip 3 (by decide) (by omega)
    simp [hf]; omega

/-- occupancy / B-factor −99.99 … 999.99 with two decimals fit `%6.2f` -/
theorem occ_fits (d : Dec) (hf : d.frac.length = 2) (h : if d.neg then d.ip ≤ 99 else d.ip ≤ 999) :
    (showDec d).length ≤ 6 := by
  unfold showDec
  cases hn : d.neg <;> simp only [hn, if_true, Bool.false_eq_true, if_false] at h ⊢
  · have := showNat_length d.ip 3 (by decide) (by omega)
    simp [hf]; omega
  · have := showNat_length d.ip 2 (by decide) (by omega)
    simp [hf]; omega

example : (showInt (-9999)).length = 5 ∧ (showDec ⟨true, 999, [9, 9, 9]⟩).length = 8 := by decide

/-- the sixteen padded texts the reader cuts out of a written line -/
def rawOf (a : Atom) : Raw :=
  ⟨ljust 6 a.record, rjust 5 (showInt a.serial), ljust 4 a.name, ljust 1 a.alt, ljust 3 a.resName,
   ljust 1 (a.chain.take 1), rjust 4 (showInt a.resSeq), ljust 1 a.ins, rjust 8 (showDec a.x),
   rjust 8 (showDec a.y), rjust 8 (showDec a.z), rjust 6 (showDec a.occ), rjust 6 (showDec a.b),
   rjust 2 a.seg, ljust 2 a.elem, rjust 2 a.charge⟩

theorem record_length {a : Atom} (h : WfPdb a) : a.record.length ≤ 6 := by
  rcases h.record with e | e <;> (rw [e]; try simp)

theorem widths_ok {a : Atom} (h : WfPdb a) : ColsOk pdbWidth (fieldText a) pdbWriterCols := by
  have hr := record_length h
  have hc : (a.chain.take 1).length ≤ 1 := by rw [List.length_take]; omega
  intro c hc'
  simp only [pdbWriterCols, List.mem_cons, List.not_mem_nil, or_false] at hc'
  rcases hc' with rfl | rfl | rfl | rfl | rfl | rfl | rfl | rfl | rfl | rfl | rfl | rfl | rfl | rfl | rfl | rfl <;>
    refine ⟨by decide, by decide, ?_⟩ <;> simp only [fieldText]
  · exact length_ljust 6 _ hr
  · exact length_rjust 5 _ h.serial
  · exact length_ljust 4 _ h.name.2
  · exact length_ljust 1 _ h.alt.2
  · exact length_ljust 3 _ h.resName.2
  · exact length_ljust 1 _ hc
  · exact length_rjust 4 _ h.resSeq
  · exact length_ljust 1 _ h.ins.2
  · exact length_rjust 8 _ h.x.2
  · exact length_rjust 8 _ h.y.2
  · exact length_rjust 8 _ h.z.2
  · exact length_rjust 6 _ h.occ.2
  · exact length_rjust 6 _ h.b.2
  · exact length_rjust 4 _ (by have := h.seg.2; omega)
  · exact length_ljust 2 _ h.elem.2
  · exact length_rjust 2 _ h.charge.2

theorem pdbLine_length {a : Atom} (h : WfPdb a) : (pdbLine a).length = 80 := by
  unfold pdbLine
  rw [length_writeCols _ _ _ (by simpa [spaces, pdbWidth] using widths_ok h)]
  simp [spaces, pdbWidth]

/-- reading reader column `rc` of a written line gives the matching part of the text written into
writer column `wc` -/
theorem read_pdbLine {a : Atom} (h : WfPdb a) (rc wc : Col) (hwc : wc ∈ pdbWriterCols) (hf : wc.f = rc.f)
    (h1 : wc.lo ≤ rc.lo) (h2 : rc.lo ≤ rc.hi) (h3 : rc.hi ≤ wc.hi) :
    slice (pdbLine a) rc.lo rc.hi = slice (fieldText a rc.f) (rc.lo - wc.lo) (rc.hi - wc.lo) := by
  unfold pdbLine
  rw [slice_writeCols_mem pdbWriterCols (fieldText a) (spaces pdbWidth) wc rc.lo rc.hi
    (by simpa [spaces] using widths_ok h) cols_consistent.2.1 hwc h1 h2 h3, hf]

theorem slice_rjust_seg (s : Str) (h : s.length ≤ 2) : slice (rjust 4 s) 2 4 = rjust 2 s := by
  unfold slice rjust spaces
  have h1 : 4 - s.length = 2 + (2 - s.length) := by omega
  rw [h1, ← List.replicate_append_replicate, List.append_assoc, List.drop_append_of_le_length (by simp)]
  simp only [List.drop_replicate, Nat.add_sub_cancel_left, Nat.sub_self, Nat.add_zero]
  apply List.take_of_length_le
  simp; omega

theorem readPdbLine_pdbLine {a : Atom} (h : WfPdb a) : readPdbLine (pdbLine a) = some (rawOf a) := by
  have hw := widths_ok h
  have L := pdbLine_length h
  have full : ∀ (f : F) (lo hi : Nat), (⟨f, lo, hi⟩ : Col) ∈ pdbWriterCols →
      slice (pdbLine a) lo hi = fieldText a f := by
    intro f lo hi hm
    obtain ⟨h1, _, h3⟩ := hw _ hm
    have := read_pdbLine h ⟨f, lo, hi⟩ ⟨f, lo, hi⟩ hm rfl (Nat.le_refl _) h1 (Nat.le_refl _)
    simp only [Nat.sub_self] at this
    rw [this]; exact slice_full _ _ (by simp only at h3; omega)
  have hseg : slice (pdbLine a) 74 76 = rjust 2 a.seg := by
    have := read_pdbLine h ⟨.seg, 74, 76⟩ ⟨.seg, 72, 76⟩ (by decide) rfl (by decide) (by decide) (by decide)
    simp only at this
    rw [this]; exact slice_rjust_seg _ h.seg.2
  unfold readPdbLine
  rw [if_neg (by omega)]
  simp only [readField, colOf, pdbReaderCols, List.find?, rawOf, Option.getD, decide_true, decide_false,
    Option.some.injEq, reduceCtorEq]
  simp only [full .record 0 6 (by decide), full .serial 6 11 (by decide), full .name 12 16 (by decide),
    full .alt 16 17 (by decide), full .resName 17 20 (by decide), full .chain 21 22 (by decide),
    full .resSeq 22 26 (by decide), full .ins 26 27 (by decide), full .x 30 38 (by decide),
    full .y 38 46 (by decide), full .z 46 54 (by decide), full .occ 54 60 (by decide),
    full .b 60 66 (by decide), full .elem 76 78 (by decide), full .charge 78 80 (by decide), hseg, fieldText]

theorem record_clean {a : Atom} (h : WfPdb a) : Clean a.record := by
  rcases h.record with e | e <;> rw [e] <;> intro c hc <;> simp at hc <;>
    rcases hc with rfl | rfl | rfl | rfl | rfl | rfl <;> decide

theorem zipAtoms_rawOf (as : List Atom) (h : ∀ a ∈ as, WfPdb a) :
    zipAtoms (as.map rawOf) (as.map (·.serial)) (as.map (·.resSeq)) (as.map (·.x)) (as.map (·.y))
      (as.map (·.z)) (as.map (·.occ)) (as.map (·.b)) = as := by
  induction as with
  | nil => rfl
  | cons a rest ih =>
    have w := h a (List.mem_cons_self ..)
    have hch : a.chain.take 1 = a.chain := List.take_of_length_le (by have := w.chain.2; omega)
    simp only [List.map_cons, zipAtoms, ih (fun b hb => h b (List.mem_cons_of_mem _ hb))]
    congr 1
    cases a
    simp only [rawOf] at *
    simp only [strip_ljust (record_clean w), strip_ljust w.name.1, strip_ljust w.alt.1,
      strip_ljust w.resName.1, hch, strip_ljust w.chain.1, strip_ljust w.ins.1, strip_rjust w.seg.1,
      strip_ljust w.elem.1, strip_rjust w.charge.1]

/-- typing the texts cut out of written lines gives the atoms back, exactly -/
theorem convert_rawOf (as : List Atom) (h : ∀ a ∈ as, WfPdb a) : convert (as.map rawOf) = some as := by
  have dec8 : ∀ (d : Dec) (w : Nat), DecOk d → parseDec (strip (rjust w (showDec d))) = some d := by
    intro d w hd; rw [strip_rjust (showDec_clean d hd), parseDec_showDec d hd]
  unfold convert
  rw [mapM_map_some as rawOf (fun r => intCell r.serial) (·.serial)
        (fun a _ => intCell_showInt_rjust a.serial 5),
      mapM_map_some as rawOf (fun r => intCell r.resSeq) (·.resSeq)
        (fun a _ => intCell_showInt_rjust a.resSeq 4),
      mapM_map_some as rawOf (fun r => parseDec (strip r.x)) (·.x) (fun a ha => dec8 a.x 8 (h a ha).x.1),
      mapM_map_some as rawOf (fun r => parseDec (strip r.y)) (·.y) (fun a ha => dec8 a.y 8 (h a ha).y.1),
      mapM_map_some as rawOf (fun r => parseDec (strip r.z)) (·.z) (fun a ha => dec8 a.z 8 (h a ha).z.1)]
  have ho : floatColumn ((as.map rawOf).map (·.occ)) = as.map (·.occ) := by
    rw [List.map_map]; exact floatColumn_map as _ _ (fun a ha => dec8 a.occ 6 (h a ha).occ.1)
  have hb : floatColumn ((as.map rawOf).map (·.b)) = as.map (·.b) := by
    rw [List.map_map]; exact floatColumn_map as _ _ (fun a ha => dec8 a.b 6 (h a ha).b.1)
  simp only [Option.bind_eq_bind, Option.bind_some, ho, hb, zipAtoms_rawOf as h]
  rfl

/-- one written line, read and typed alone -/
theorem pdb_line_roundtrip {a : Atom} (h : WfPdb a) :
    (readPdbLine (pdbLine a)).bind (fun r => convert [r]) = some [a] := by
  rw [readPdbLine_pdbLine h]
  exact convert_rawOf [a] (by intro b hb; simp at hb; subst hb; exact h)

/-! ### whole files -/

theorem pdbLine_take6 {a : Atom} (h : WfPdb a) : (pdbLine a).take 6 = ljust 6 a.record := by
  have := read_pdbLine h ⟨.record, 0, 6⟩ ⟨.record, 0, 6⟩ (by decide) rfl (by decide) (by decide) (by decide)
  simp only [slice, List.drop_zero, Nat.sub_zero, fieldText] at this
  rw [this]; exact List.take_of_length_le (by rw [length_ljust 6 _ (record_length h)])

theorem pdbLine_shape {a : Atom} (h : WfPdb a) :
    ∃ rest, pdbLine a = "ATOM".toList ++ rest ∨ pdbLine a = "HETATM".toList ++ rest := by
  have e := List.take_append_drop 6 (pdbLine a)
  rw [pdbLine_take6 h] at e
  generalize (pdbLine a).drop 6 = X at e
  generalize pdbLine a = L at e
  have e1 : ljust 6 "ATOM".toList = "ATOM".toList ++ "  ".toList := by decide
  have e2 : ljust 6 "HETATM".toList = "HETATM".toList := by decide
  rcases h.record with r | r
  · refine ⟨"  ".toList ++ X, Or.inl ?_⟩
    rw [← e, r, e1, List.append_assoc]
  · refine ⟨X, Or.inr ?_⟩
    rw [← e, r, e2]

theorem pdbLine_kept {a : Atom} (h : WfPdb a) :
    (!(pdbLine a).isEmpty && (pdbLine a).head? != some '#') = true ∧ isAtomLine (pdbLine a) = true := by
  obtain ⟨rest, e | e⟩ := pdbLine_shape h <;> generalize pdbLine a = L at e <;> subst e <;>
    constructor <;> rfl

theorem pdbLine_no_newline {a : Atom} (h : WfPdb a) : '\n' ∉ pdbLine a := by
  intro hm
  unfold pdbLine at hm
  rcases mem_writeCols hm with hm | ⟨col, _, hm⟩
  · simp [spaces] at hm
  · have mild : ∀ (s : Str) (w : Nat), Clean s → ('\n' ∉ ljust w s ∧ '\n' ∉ rjust w s) := by
      intro s w hs
      have : '\n' ∉ s := fun hh => by have := hs _ hh; simp [isWs] at this
      constructor <;> simp [ljust, rjust, spaces, this]
    have hch : Clean (a.chain.take 1) := fun c hc => h.chain.1 c (List.mem_of_mem_take hc)
    cases hf : col.f <;> rw [hf] at hm <;> simp only [fieldText] at hm
    · exact (mild _ 6 (record_clean h)).1 hm
    · exact (mild _ 5 (showInt_clean _)).2 hm
    · exact (mild _ 4 h.name.1).1 hm
    · exact (mild _ 1 h.alt.1).1 hm
    · exact (mild _ 3 h.resName.1).1 hm
    · exact (mild _ 1 hch).1 hm
    · exact (mild _ 4 (showInt_clean _)).2 hm
    · exact (mild _ 1 h.ins.1).1 hm
    · exact (mild _ 8 (showDec_clean _ h.x.1)).2 hm
    · exact (mild _ 8 (showDec_clean _ h.y.1)).2 hm
    · exact (mild _ 8 (showDec_clean _ h.z.1)).2 hm
    · exact (mild _ 6 (showDec_clean _ h.occ.1)).2 hm
    · exact (mild _ 6 (showDec_clean _ h.b.1)).2 hm
    · exact (mild _ 4 h.seg.1).2 hm
    · exact (mild _ 2 h.elem.1).1 hm
    · exact (mild _ 2 h.charge.1).2 hm

/-- the non-comment lines of a written file are exactly the written lines and `END` -/
theorem fileLines_writePdb (as : List Atom) (h : ∀ a ∈ as, WfPdb a) :
    fileLines (joinWith ['\n'] (as.map pdbLine ++ ["END".toList])) = as.map pdbLine ++ ["END".toList] := by
  unfold fileLines
  rw [splitOn_joinWith '\n' _ (by simp)]
  · rw [List.filter_append]
    congr 1
    rw [List.filter_eq_self]
    intro l hl
    obtain ⟨a, ha, rfl⟩ := List.mem_map.mp hl
    exact (pdbLine_kept (h a ha)).1
  · intro l hl
    rcases List.mem_append.mp hl with hl | hl
    · obtain ⟨a, ha, rfl⟩ := List.mem_map.mp hl
      exact pdbLine_no_newline (h a ha)
    · simp at hl; subst hl; decide

/-- **PDB round trip, whole file.**  For every list of atoms representable in the fixed columns
(any length, any order), reading the written file returns the same atoms in the same order with
every field — record type, serial, names, chain, residue number, insertion code, alt-loc, element,
charge, segment, coordinates, occupancy, B-factor — identical. -/
theorem pdb_roundtrip (as : List Atom) (h : ∀ a ∈ as, WfPdb a) :
    (writePdb as).bind loadPdb = some as := by
  have hw : as.all pdbWritable = true := by
    rw [List.all_eq_true]; intro a ha
    have := (h a ha).chain.2
    unfold pdbWritable
    cases hc : a.chain with
    | nil => rw [hc] at this; simp at this
    | cons _ _ => rfl
  unfold writePdb
  rw [if_pos hw, Option.bind_some]
  unfold loadPdb readPdbRaw
  rw [fileLines_writePdb as h, List.filter_append]
  have h1 : (as.map pdbLine).filter isAtomLine = as.map pdbLine := by
    rw [List.filter_eq_self]; intro l hl
    obtain ⟨a, ha, rfl⟩ := List.mem_map.mp hl
    exact (pdbLine_kept (h a ha)).2
  have h2 : ["END".toList].filter isAtomLine = [] := by decide
  rw [h1, h2, List.append_nil,
    mapM_map_some as pdbLine readPdbLine rawOf (fun a ha => readPdbLine_pdbLine (h a ha))]
  exact convert_rawOf as h

/-! ## mmCIF: no column can shift -/

/-- **tokens of a written loop row.**  For any columns whose values contain no white space and no
double quote (empty values allowed), every line the writer emits splits — in *both* branches of
`_split_line`, after `_consolidate_strings` removed the double quotes — into exactly one token per
column, and the tokens are the values of one row, with "." standing for an empty value. -/
theorem cif_row_tokens (cols : List (List Str)) (hv : ∀ c ∈ cols, ∀ v ∈ c, TokOk v)
    (line : Str) (h : line ∈ loopRows cols) :
    ∃ i, (∀ c ∈ cols, i < c.length) ∧
      splitLine (removeDq line) = cols.map (fun c => tok (c.getD i [])) := by
  obtain ⟨i, hi, rfl⟩ := mem_loopRows h
  refine ⟨i, hi, ?_⟩
  have hmem : ∀ c ∈ cols, c.getD i [] ∈ c := by
    intro c hc
    have := hi c hc
    simp only [List.getD_eq_getElem?_getD, List.getElem?_eq_getElem this, Option.getD_some]
    exact List.getElem_mem _
  rw [removeDq_rowOf, List.map_map, splitLine_rowOf]
  · rw [List.map_map]
    apply List.map_congr_left
    intro c hc
    exact removeDq_formatString (hv c hc _ (hmem c hc))
  · intro cell hcell
    obtain ⟨c, hc, rfl⟩ := List.mem_map.mp hcell
    have ht := hv c hc _ (hmem c hc)
    simp only [Function.comp]
    rw [removeDq_formatString ht]
    refine ⟨tok_ok ht, tok_ne_nil _, ?_⟩
    have : (formatString (c.getD i [])).length ≤ maxLen (c.map formatString) :=
      length_le_maxLen (List.mem_map.mpr ⟨_, hmem c hc, rfl⟩)
    omega

/-- the column-shift guard: as many tokens as column names, on every row -/
theorem cif_token_count (cols : List (List Str)) (hv : ∀ c ∈ cols, ∀ v ∈ c, TokOk v)
    (line : Str) (h : line ∈ loopRows cols) : (splitLine (removeDq line)).length = cols.length := by
  obtain ⟨i, _, e⟩ := cif_row_tokens cols hv line h
  rw [e, List.length_map]

example : loopRows [["ATOM".toList, "ATOM".toList], [[], "A".toList], ["O5'".toList, "CA".toList]]
    = ["ATOM . \"O5'\" ".toList, "ATOM A CA    ".toList] := by decide

/-- `_format_string` before the `fix:` commit: an empty value was written as nothing -/
def formatStringOld (s : Str) : Str :=
  if s.contains ' ' then '\'' :: (s ++ ['\''])
  else if s.count '\'' = 1 then '"' :: (s ++ ['"'])
  else s

/-- negation witness for the code as it was: a PDB-read atom (empty alt-loc) written with the old
quoting gives a row with a token missing, so every later column shifts (the reader then fed
`'-15.127'` to `int`) — while the repaired function keeps all three tokens -/
theorem formatString_current_defect :
    (splitLine (ljust 5 "ATOM".toList ++ ljust 2 (formatStringOld []) ++ ljust 4 "1.5".toList)).length = 2 ∧
    (splitLine (ljust 5 "ATOM".toList ++ ljust 2 (formatString []) ++ ljust 4 "1.5".toList)).length = 3 := by
  decide

/-- rows that all carry a full set of tokens are never merged by "reunites broken lines" -/
theorem reunite_full_rows (n : Nat) (rows : List (List Str)) (hn : 0 < n) (h : ∀ r ∈ rows, r.length = n) :
    reunite n rows = rows := by
  cases rows with
  | nil => rfl
  | cons a rest =>
    simp only [reunite]
    induction rest generalizing a with
    | nil => rfl
    | cons b rest' ih =>
      have ha := h a (List.mem_cons_self ..)
      have hb := h b (List.mem_cons_of_mem _ (List.mem_cons_self ..))
      simp only [reuniteAux]
      rw [if_neg (by omega)]
      congr 1
      exact ih b (fun r hr => h r (List.mem_cons_of_mem _ hr))

example : reunite 2 [["a".toList, "b".toList], ["c".toList, "d".toList]] =
    [["a".toList, "b".toList], ["c".toList, "d".toList]] := by decide

/-- "reunites broken lines", the case it exists for (files of other programs): loop rows of `n`
values that a file breaks over several lines - every row given as its non-empty pieces, in order, any
number of pieces - are put together again row by row, whatever the number of rows -/
theorem reunite_broken_rows (n : Nat) (rows : List (List (List Str)))
    (hne : ∀ ps ∈ rows, ps ≠ [] ∧ ∀ p ∈ ps, p ≠ []) (hlen : ∀ ps ∈ rows, ps.flatten.length = n) :
    reunite n rows.flatten = rows.map List.flatten := by
  induction rows with
  | nil => rfl
  | cons ps rs ih =>
    have hps := hne ps (List.mem_cons_self ..)
    have hl := hlen ps (List.mem_cons_self ..)
    have ih' := ih (fun q hq => hne q (List.mem_cons_of_mem _ hq)) (fun q hq => hlen q (List.mem_cons_of_mem _ hq))
    have hrest : ∀ q ∈ rs.flatten, q ≠ [] := by
      intro q hq
      rcases List.mem_flatten.mp hq with ⟨l, hl1, hl2⟩
      exact (hne l (List.mem_cons_of_mem _ hl1)).2 q hl2
    cases ps with
    | nil => exact absurd rfl hps.1
    | cons p ps' =>
      have hl' : p.length + ps'.flatten.length = n := by
        simpa [List.flatten_cons, List.length_append] using hl
      simp only [List.flatten_cons, List.cons_append, reunite, List.map_cons]
      rw [reuniteAux_pieces n p ps' rs.flatten (by omega),
        reuniteAux_full n (p ++ ps'.flatten) rs.flatten (by simp only [List.length_append]; omega) hrest, ih']

example : reunite 3 [["a".toList], ["b".toList, "c".toList], ["d".toList, "e".toList, "f".toList],
      ["g".toList, "h".toList], ["i".toList]] =
    [["a".toList, "b".toList, "c".toList], ["d".toList, "e".toList, "f".toList], ["g".toList, "h".toList, "i".toList]] := by
  decide

/-! ## mmCIF files of other programs: columns are read by name -/

/-- `_load_mmcif` sees the file's `atom_site` table only through look-ups of sixteen names -/
theorem loadCifTable_congr {t t' : Table} (h : ∀ k ∈ cifReadNames, lookup t k = lookup t' k) :
    loadCifTable t = loadCifTable t' := by
  simp only [cifReadNames, List.map_cons, List.map_nil, List.forall_mem_cons] at h
  obtain ⟨h1, h2, h3, h4, h5, h6, h7, h8, h9, h10, h11, h12, h13, h14, h15, h16, -⟩ := h
  simp only [loadCifTable, List.map_cons, List.map_nil, cifCol, h1, h2, h3, h4, h5, h6, h7, h8, h9, h10, h11, h12,
    h13, h14, h15, h16]

/-- the order of the `_atom_site.*` columns in a file is irrelevant (any permutation, any atoms) -/
theorem loadCifTable_perm {t t' : Table} (hp : t.Perm t') (hn : (t.map (·.1)).Nodup) :
    loadCifTable t = loadCifTable t' :=
  loadCifTable_congr (fun k _ => lookup_perm hp hn k)

/-- columns the reader does not know (`auth_*`, `*_esd`, `label_entity_id`, ...) change nothing -/
theorem loadCifTable_extra (kv : Str × List Str) (t : Table) (h : kv.1 ∉ cifReadNames) :
    loadCifTable (kv :: t) = loadCifTable t :=
  loadCifTable_congr (fun k hk => lookup_cons_ne kv t k (fun e => h (e ▸ hk)))

example : ("auth_atom_id".toList, [["CA".toList]]).1 ∉ cifReadNames := by decide
example : [("id".toList, [["1".toList]]), ("Cartn_x".toList, [["2.5".toList]])].Perm
    [("Cartn_x".toList, [["2.5".toList]]), ("id".toList, [["1".toList]])] := List.Perm.swap ..

/-! ## mmCIF: typing the tokens gives the atoms back -/

/-- values an mmCIF loop can carry; numbers are decimal text -/
structure WfCif (a : Atom) : Prop where
  record : TokOk a.record
  name : TokOk a.name
  alt : TokOk a.alt
  resName : TokOk a.resName
  chain : TokOk a.chain ∧ a.chain.length ≤ 1
  ins : TokOk a.ins
  elem : TokOk a.elem
  charge : TokOk a.charge
  x : DecOk a.x
  y : DecOk a.y
  z : DecOk a.z
  occ : DecOk a.occ
  b : DecOk a.b

/-- what reading returns for a written atom: empty text fields come back as the placeholder ".",
the segment identifier is the constant model number "1"; everything else is unchanged -/
def normCif (a : Atom) : Atom :=
  { a with record := tok a.record, name := tok a.name, alt := tok a.alt, resName := tok a.resName,
           chain := tok a.chain, ins := tok a.ins, seg := ['1'], elem := tok a.elem, charge := tok a.charge }

/-- the table `_loop_block_to_dict` builds from the written rows (by `cif_row_tokens`: one token
per column and row, `tok` of the written value) -/
def readBack (atoms : List Atom) : Table := (cifColumns atoms).map (fun kv => (kv.1, kv.2.map tok))

theorem readBack_eq (atoms : List Atom) :
    readBack atoms = (List.range 21).map (fun j =>
      ((cifNames.getD j "").toList, atoms.map (fun a => tok ((cifRow a).getD j [])))) := by
  unfold readBack cifColumns
  rw [List.map_map]
  have : cifNames.length = 21 := rfl
  rw [this]
  apply List.map_congr_left
  intro j _
  simp [nthCol, List.map_map]

theorem lookup_readBack (atoms : List Atom) (j : Nat) (hj : j < 21) :
    lookup (readBack atoms) (cifNames.getD j "").toList =
      some (atoms.map (fun a => tok ((cifRow a).getD j []))) := by
  rw [readBack_eq]
  unfold lookup
  interval_cases j <;> rfl

theorem cifCol_eq {t : Table} {k : String} {c : List Str} {n : Nat} (h : lookup t k.toList = some c)
    (hn : c.length = n) : cifCol t n k = c := by
  unfold cifCol
  rw [h]
  simp only [Option.getD_some]
  split
  · rename_i h1
    cases c with
    | nil => simp at h1
    | cons x xs =>
      cases xs with
      | nil => subst hn; rfl
      | cons _ _ => simp at h1
  · rfl

theorem tok_clean_ne {v : Str} (h : Clean v) (hne : v ≠ []) : tok v = v := by
  unfold tok; cases v with
  | nil => exact absurd rfl hne
  | cons _ _ => rfl

theorem tok_showInt (i : Int) : tok (showInt i) = showInt i := by
  unfold tok showInt
  split
  · rfl
  · obtain ⟨c, t, h, _⟩ := showNat_head i.natAbs
    rw [h]; rfl

theorem tok_showDec (d : Dec) : tok (showDec d) = showDec d := by
  unfold tok showDec
  cases d.neg
  · obtain ⟨c, t, h, _⟩ := showNat_head d.ip
    simp [h]
  · simp

theorem strip_tok {v : Str} (h : TokOk v) : strip (tok v) = tok v := strip_clean (tok_ok h).1

/-- the sixteen tokens `_load_mmcif` picks (by column name) for one atom -/
def rawCif (a : Atom) : Raw :=
  let g := fun j => tok ((cifRow a).getD j [])
  ⟨g 0, g 1, g 3, g 4, g 5, g 6, g 8, g 9, g 10, g 11, g 12, g 13, g 14, g 20, g 2, g 15⟩

theorem zipRaw_map (as : List Atom) (f0 f1 f2 f3 f4 f5 f6 f7 f8 f9 f10 f11 f12 f13 f14 f15 : Atom → Str) :
    zipRaw (as.map f0) (as.map f1) (as.map f2) (as.map f3) (as.map f4) (as.map f5) (as.map f6) (as.map f7)
      (as.map f8) (as.map f9) (as.map f10) (as.map f11) (as.map f12) (as.map f13) (as.map f14) (as.map f15)
    = as.map (fun a => ⟨f0 a, f1 a, f2 a, f3 a, f4 a, f5 a, f6 a, f7 a, f8 a, f9 a, f10 a, f11 a, f12 a,
        f13 a, f14 a, f15 a⟩) := by
  induction as with
  | nil => simp [zipRaw]
  | cons a rest ih => simp only [List.map_cons, zipRaw, ih]

theorem zipAtoms_cif (as : List Atom) (h : ∀ a ∈ as, WfCif a) :
    zipAtoms (as.map rawCif) (as.map (·.serial)) (as.map (·.resSeq)) (as.map (·.x)) (as.map (·.y))
      (as.map (·.z)) (as.map (·.occ)) (as.map (·.b)) = as.map normCif := by
  induction as with
  | nil => simp [zipAtoms]
  | cons a rest ih =>
    have w := h a (List.mem_cons_self ..)
    have hch : a.chain.take 1 = a.chain := List.take_of_length_le w.chain.2
    simp only [List.map_cons, zipAtoms, ih (fun b hb => h b (List.mem_cons_of_mem _ hb))]
    congr 1
    simp only [rawCif, cifRow, List.getD_eq_getElem?_getD, List.getElem?_cons_zero, List.getElem?_cons_succ,
      Option.getD_some, hch, normCif, strip_tok w.record, strip_tok w.name, strip_tok w.alt,
      strip_tok w.resName, strip_tok w.chain.1, strip_tok w.ins, strip_tok w.elem, strip_tok w.charge]
    rfl

theorem intCell_showInt (i : Int) : intCell (showInt i) = some i := by
  have := intCell_showInt_rjust i 0
  simpa [rjust, spaces] using this

theorem convert_rawCif (as : List Atom) (h : ∀ a ∈ as, WfCif a) : convert (as.map rawCif) = some (as.map normCif) := by
  have dec : ∀ (d : Dec), DecOk d → parseDec (strip (tok (showDec d))) = some d := by
    intro d hd; rw [tok_showDec, strip_clean (showDec_clean d hd), parseDec_showDec d hd]
  have int : ∀ (i : Int), intCell (tok (showInt i)) = some i := by
    intro i; rw [tok_showInt, intCell_showInt]
  unfold convert
  rw [mapM_map_some as rawCif (fun r => intCell r.serial) (·.serial) (fun a _ => int a.serial),
      mapM_map_some as rawCif (fun r => intCell r.resSeq) (·.resSeq) (fun a _ => int a.resSeq),
      mapM_map_some as rawCif (fun r => parseDec (strip r.x)) (·.x) (fun a ha => dec a.x (h a ha).x),
      mapM_map_some as rawCif (fun r => parseDec (strip r.y)) (·.y) (fun a ha => dec a.y (h a ha).y),
      mapM_map_some as rawCif (fun r => parseDec (strip r.z)) (·.z) (fun a ha => dec a.z (h a ha).z)]
  have ho : floatColumn ((as.map rawCif).map (·.occ)) = as.map (·.occ) := by
    rw [List.map_map]; exact floatColumn_map as _ _ (fun a ha => dec a.occ (h a ha).occ)
  have hb : floatColumn ((as.map rawCif).map (·.b)) = as.map (·.b) := by
    rw [List.map_map]; exact floatColumn_map as _ _ (fun a ha => dec a.b (h a ha).b)
  simp only [Option.bind_eq_bind, Option.bind_some, ho, hb, zipAtoms_cif as h]
  rfl

/-- **typing what was read back.**  `_load_mmcif` applied to the table of tokens of a written loop
(one `tok` per written value — that this *is* the table is `cif_row_tokens` + `reunite_full_rows`)
returns the atoms in order with serial, residue number, coordinates, occupancy and B-factor
identical, text fields identical except that an empty field reads as ".", and the constant "1" as
segment.  The column-name → attribute mapping of reader and writer are mutually consistent. -/
theorem loadCifTable_readBack (as : List Atom) (h : ∀ a ∈ as, WfCif a) :
    loadCifTable (readBack as) = some (as.map normCif) := by
  have L : ∀ j, (as.map (fun a => tok ((cifRow a).getD j []))).length = as.length := fun j => by simp
  have k0 : lookup (readBack as) "group_PDB".toList = _ := lookup_readBack as 0 (by decide)
  have k1 : lookup (readBack as) "id".toList = _ := lookup_readBack as 1 (by decide)
  have k2 : lookup (readBack as) "type_symbol".toList = _ := lookup_readBack as 2 (by decide)
  have k3 : lookup (readBack as) "label_atom_id".toList = _ := lookup_readBack as 3 (by decide)
  have k4 : lookup (readBack as) "label_alt_id".toList = _ := lookup_readBack as 4 (by decide)
  have k5 : lookup (readBack as) "label_comp_id".toList = _ := lookup_readBack as 5 (by decide)
  have k6 : lookup (readBack as) "label_asym_id".toList = _ := lookup_readBack as 6 (by decide)
  have k8 : lookup (readBack as) "label_seq_id".toList = _ := lookup_readBack as 8 (by decide)
  have k9 : lookup (readBack as) "pdbx_PDB_ins_code".toList = _ := lookup_readBack as 9 (by decide)
  have k10 : lookup (readBack as) "Cartn_x".toList = _ := lookup_readBack as 10 (by decide)
  have k11 : lookup (readBack as) "Cartn_y".toList = _ := lookup_readBack as 11 (by decide)
  have k12 : lookup (readBack as) "Cartn_z".toList = _ := lookup_readBack as 12 (by decide)
  have k13 : lookup (readBack as) "occupancy".toList = _ := lookup_readBack as 13 (by decide)
  have k14 : lookup (readBack as) "B_iso_or_equiv".toList = _ := lookup_readBack as 14 (by decide)
  have k15 : lookup (readBack as) "pdbx_formal_charge".toList = _ := lookup_readBack as 15 (by decide)
  have k20 : lookup (readBack as) "pdbx_PDB_model_num".toList = _ := lookup_readBack as 20 (by decide)
  unfold loadCifTable
  simp only [k0, k1, k2, k3, k4, k5, k6, k8, k9, k10, k11, k12, k13, k14, k15, k20, Option.bind_eq_bind,
    Option.bind_some, List.map_cons, List.map_nil, Option.getD_some, L, List.foldl_cons, List.foldl_nil,
    Nat.max_self, Nat.zero_max, Nat.max_zero]
  simp only [cifCol_eq k0 (L 0), cifCol_eq k1 (L 1), cifCol_eq k2 (L 2), cifCol_eq k3 (L 3), cifCol_eq k4 (L 4),
    cifCol_eq k5 (L 5), cifCol_eq k6 (L 6), cifCol_eq k8 (L 8), cifCol_eq k9 (L 9), cifCol_eq k13 (L 13),
    cifCol_eq k14 (L 14), cifCol_eq k15 (L 15), cifCol_eq k20 (L 20), L, List.all_cons, List.all_nil,
    decide_true, Bool.and_self, and_self, not_true_eq_false, if_false]
  rw [zipRaw_map]
  exact convert_rawCif as h

/-- **mmCIF round trip, everything but the block splitter.**  For atoms whose text fields contain
no white space and no double quote: (1) every line of the written `atom_site` loop tokenises into
exactly the 21 values of one atom (empty ↦ "."), so no row is ever merged with its neighbour and no
column shifts; (2) typing that table returns the atoms in order, every named field preserved up to
"" ≡ ".".  *Not* proved (validated against the real parser on every run instead): that
`_consolidate_strings` / `_split_in_blocks` / `_loop_block_to_dict` hand exactly these lines and
the 21 names to (1) — the full statement would be
`loadCif (writeCif none as) = some (as.map normCif)`. -/
theorem cif_roundtrip_partial (as : List Atom) (h : ∀ a ∈ as, WfCif a) :
    (∀ line ∈ loopRows ((cifColumns as).map (·.2)),
        ∃ i, i < as.length ∧ splitLine (removeDq line) = (cifRow (as.getD i default)).map tok) ∧
    (∀ line ∈ loopRows ((cifColumns as).map (·.2)), (splitLine (removeDq line)).length = cifNames.length) ∧
    loadCifTable (readBack as) = some (as.map normCif) := by
  have hcols : (cifColumns as).map (·.2) = (List.range 21).map (fun j => nthCol (as.map cifRow) j) := by
    unfold cifColumns; rw [List.map_map]; rfl
  have hv : ∀ c ∈ (cifColumns as).map (·.2), ∀ v ∈ c, TokOk v := by
    rw [hcols]
    intro c hc v hv
    obtain ⟨j, hj, rfl⟩ := List.mem_map.mp hc
    simp only [nthCol, List.map_map, List.mem_map, Function.comp] at hv
    obtain ⟨a, ha, rfl⟩ := hv
    have w := h a ha
    have hch : TokOk (a.chain.take 1) :=
      ⟨fun c hc => w.chain.1.1 c (List.mem_of_mem_take hc), fun hm => w.chain.1.2 (List.mem_of_mem_take hm)⟩
    have hint : ∀ i : Int, TokOk (showInt i) := fun i => ⟨showInt_clean i, by
      unfold showInt; split
      · intro hm; rcases List.mem_cons.mp hm with e | hm
        · exact absurd e (by decide)
        · obtain ⟨d, hd, e⟩ := showNat_digits _ _ hm; revert e; interval_cases d <;> decide
      · intro hm; obtain ⟨d, hd, e⟩ := showNat_digits _ _ hm; revert e; interval_cases d <;> decide⟩
    have hdec : ∀ d : Dec, DecOk d → TokOk (showDec d) := fun d hd => ⟨showDec_clean d hd, by
      unfold showDec
      simp only [List.mem_append, List.mem_map, not_or]
      refine ⟨⟨⟨by split <;> simp, ?_⟩, by simp⟩, ?_⟩
      · intro hm; obtain ⟨k, hk, e⟩ := showNat_digits _ _ hm; revert e; interval_cases k <;> decide
      · rintro ⟨x, hx, e⟩; have := hd x hx; revert e; interval_cases x <;> decide⟩
    have h1 : TokOk ['1'] := by decide
    simp only [List.mem_range] at hj
    interval_cases j <;> simp only [cifRow, List.getD_eq_getElem?_getD, List.getElem?_cons_zero,
      List.getElem?_cons_succ, Option.getD_some] <;>
      first | exact w.record | exact w.name | exact w.alt | exact w.resName | exact w.ins | exact w.elem
            | exact w.charge | exact hch | exact hint _ | exact hdec _ w.x | exact hdec _ w.y
            | exact hdec _ w.z | exact hdec _ w.occ | exact hdec _ w.b | exact h1
  have rows : ∀ line ∈ loopRows ((cifColumns as).map (·.2)),
      ∃ i, i < as.length ∧ splitLine (removeDq line) = (cifRow (as.getD i default)).map tok := by
    intro line hl
    obtain ⟨i, hi, e⟩ := cif_row_tokens _ hv line hl
    have hi' : i < as.length := by
      have := hi (nthCol (as.map cifRow) 0) (by rw [hcols]; exact List.mem_map.mpr ⟨0, by simp, rfl⟩)
      simpa [nthCol] using this
    refine ⟨i, hi', ?_⟩
    rw [e, hcols, List.map_map]
    have hget : as.getD i default = as[i] := by simp [List.getD_eq_getElem?_getD, hi']
    have hrow : ∀ j, (nthCol (as.map cifRow) j).getD i [] = (cifRow as[i]).getD j [] := by
      intro j; simp [nthCol, List.getD_eq_getElem?_getD, hi']
    rw [hget]
    simp only [Function.comp_def, hrow]
    have r21 : List.range 21 = [0, 1, 2, 3, 4, 5, 6, 7, 8, 9, 10, 11, 12, 13, 14, 15, 16, 17, 18, 19, 20] := by decide
    rw [r21]
    simp [cifRow]
  refine ⟨rows, ?_, loadCifTable_readBack as h⟩
  intro line hl
  obtain ⟨i, _, e⟩ := rows line hl
  rw [e]; simp [cifRow, cifNames]

/-! ## filters -/

theorem keepAtom_iff (k : Bool) (es rs : List Str) (a : Atom) :
    keepAtom k es rs a = true ↔
      (es = [] ∨ a.elem ∈ es) ∧ (rs = [] ∨ a.resName ∈ rs) ∧ (k = true ∨ a.record = "ATOM".toList) := by
  simp [keepAtom, List.isEmpty_iff, and_assoc]

/-- **filters keep exactly the matching atoms**, in their original order: the result is a
sub-list of the input, and an atom is in it iff it was in the input and matches the element set,
the residue set (an empty set meaning "all") and the record rule -/
theorem filter_exact (k : Bool) (es rs : List Str) (as : List Atom) :
    (filterAtoms k es rs as).Sublist as ∧
    (∀ a, a ∈ filterAtoms k es rs as ↔ a ∈ as ∧
      (es = [] ∨ a.elem ∈ es) ∧ (rs = [] ∨ a.resName ∈ rs) ∧ (k = true ∨ a.record = "ATOM".toList)) ∧
    (∀ a, (filterAtoms k es rs as).count a = if keepAtom k es rs a then as.count a else 0) := by
  refine ⟨List.filter_sublist, ?_, ?_⟩
  · intro a; simp only [filterAtoms, List.mem_filter, keepAtom_iff]
  · intro a
    unfold filterAtoms
    split
    · rename_i hk; exact List.count_filter hk
    · rename_i hk
      apply List.count_eq_zero.mpr
      intro hm; exact hk (List.mem_filter.mp hm).2

/-! ## the two formats agree -/

/-- equality on everything the property names, with "", "." and "?" identified -/
def sameNamed (p q : Atom) : Prop :=
  normStr p.record = normStr q.record ∧ p.serial = q.serial ∧ normStr p.name = normStr q.name ∧
  normStr p.alt = normStr q.alt ∧ normStr p.resName = normStr q.resName ∧ normStr p.chain = normStr q.chain ∧
  p.resSeq = q.resSeq ∧ normStr p.ins = normStr q.ins ∧ normStr p.elem = normStr q.elem ∧
  normStr p.charge = normStr q.charge ∧ p.x = q.x ∧ p.y = q.y ∧ p.z = q.z ∧ p.occ = q.occ ∧ p.b = q.b

theorem normStr_tok (v : Str) : normStr (tok v) = normStr v := by
  unfold tok; cases v <;> rfl

theorem sameNamed_normCif (a : Atom) : sameNamed a (normCif a) := by
  simp only [sameNamed, normCif, normStr_tok, and_self]

/-- **cross-format.**  The same atoms written as PDB and as mmCIF read back, atom by atom and in
the same order, with the same record type, serial, names, chain, residue number, insertion code,
alt-loc, element, charge (no-value forms identified), coordinates, occupancy and B-factor
(mmCIF side: from the table of `cif_roundtrip_partial`). -/
theorem cross_format (as : List Atom) (hp : ∀ a ∈ as, WfPdb a) (hc : ∀ a ∈ as, WfCif a) :
    ∃ viaPdb viaCif, (writePdb as).bind loadPdb = some viaPdb ∧ loadCifTable (readBack as) = some viaCif ∧
      List.Forall₂ sameNamed viaPdb viaCif := by
  refine ⟨as, as.map normCif, pdb_roundtrip as hp, loadCifTable_readBack as hc, ?_⟩
  induction as with
  | nil => exact List.Forall₂.nil
  | cons a rest ih =>
    exact List.Forall₂.cons (sameNamed_normCif a)
      (ih (fun b hb => hp b (List.mem_cons_of_mem _ hb)) (fun b hb => hc b (List.mem_cons_of_mem _ hb)))

/-! ## non-vacuity: a primed name, negative residue number, empty optional fields, "-0.000" -/

def sampleAtom : Atom :=
  { record := "HETATM".toList, serial := 99999, name := "O5'".toList, alt := [], resName := "DA".toList,
    chain := "B".toList, resSeq := -12, ins := [], x := ⟨true, 15, [1, 2, 7]⟩, y := ⟨true, 0, [0, 0, 0]⟩,
    z := ⟨false, 9999, [9, 9, 9]⟩, occ := ⟨false, 1, [0, 0]⟩, b := ⟨false, 159, [4, 8]⟩, seg := [],
    elem := "O".toList, charge := [] }

theorem sample_wfPdb : WfPdb sampleAtom := by constructor <;> decide
theorem sample_wfCif : WfCif sampleAtom := by constructor <;> decide

example : (writePdb [sampleAtom, sampleAtom]).bind loadPdb = some [sampleAtom, sampleAtom] :=
  pdb_roundtrip _ (by intro a ha; simp at ha; subst ha; exact sample_wfPdb)
example : pdbLine sampleAtom =
    "HETATM99999 O5'  DA  B -12     -15.127  -0.0009999.999  1.00159.48          O   ".toList := by decide
example : loadCifTable (readBack [sampleAtom]) = some [normCif sampleAtom] :=
  loadCifTable_readBack _ (by intro a ha; simp at ha; subst ha; exact sample_wfCif)
example : (normCif sampleAtom).alt = ".".toList ∧ (normCif sampleAtom).name = "O5'".toList := by decide
example : filterAtoms false ["O".toList] [] [sampleAtom, { sampleAtom with record := "ATOM".toList }]
    = [{ sampleAtom with record := "ATOM".toList }] := by decide
example := cross_format [sampleAtom] (by intro a ha; simp at ha; subst ha; exact sample_wfPdb)
    (by intro a ha; simp at ha; subst ha; exact sample_wfCif)
example : loopRows ((cifColumns [sampleAtom]).map (·.2)) =
    ["HETATM 99999 O \"O5'\" . DA B 1 -12 . -15.127 -0.000 9999.999 1.00 159.48 . -12 DA B \"O5'\" 1 ".toList] := by
  decide

end Pm.C09
