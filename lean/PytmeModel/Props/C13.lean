import PytmeModel.Model.C13
import PytmeModel.Proofs.Common
import PytmeModel.Proofs.DftRoundTrip
import Mathlib.Tactic.Ring
import Mathlib.Tactic.Linarith

/-! # C13 — FFT shapes, padding and cropping helpers are exact for every shape -/
namespace Pm.C13

/-! ## planned transform shape ≥ linear-convolution shape; half-spectrum shape -/

theorem le_nextFastFrom (f n : Nat) : n ≤ nextFastFrom f n := by
  induction f generalizing n with
  | zero => simp [nextFastFrom]
  | succ f ih =>
    unfold nextFastFrom
    split
    · exact Nat.le_refl _
    · exact Nat.le_trans (Nat.le_succ n) (ih (n + 1))

/-- the planned length is never below the requested one -/
theorem le_nextFastLen (n : Nat) : n ≤ nextFastLen n := by
  unfold nextFastLen; split
  · omega
  · exact le_nextFastFrom _ _

/-- whatever the search returns inside its fuel is an FFTW-fast length -/
theorem nextFastFrom_fast_or_exhausted (f n : Nat) :
    isFast (nextFastFrom f n) = true ∨ nextFastFrom f n = n + f := by
  induction f generalizing n with
  | zero => right; simp [nextFastFrom]
  | succ f ih =>
    unfold nextFastFrom
    split
    · left; assumption
    · rcases ih (n + 1) with h | h
      · left; exact h
      · right; omega

/-- the linear convolution extent contains both operands -/
theorem convLen_ge (a b : Nat) (hb : 1 ≤ b) (ha : 1 ≤ a) : a ≤ convLen a b ∧ b ≤ convLen a b := by
  unfold convLen; omega

/-- every axis of the planned (fast) shape is at least the linear-convolution extent -/
theorem fast_ge_conv (s1 s2 : List Nat) :
    List.Forall₂ (· ≤ ·) (convShape s1 s2) (fastShape s1 s2) := by
  unfold fastShape
  generalize convShape s1 s2 = c
  induction c with
  | nil => exact List.Forall₂.nil
  | cons x xs ih => exact List.Forall₂.cons (le_nextFastLen x) ih

theorem convShape_length (s1 s2 : List Nat) (h : s1.length = s2.length) :
    (convShape s1 s2).length = s1.length ∧ (fastShape s1 s2).length = s1.length := by
  simp [convShape, fastShape, h]

/-- the half-spectrum shape: same leading axes, last axis `N/2+1` -/
theorem fastFtShape_snoc (init : List Nat) (l : Nat) :
    fastFtShape (init ++ [l]) = init ++ [l / 2 + 1] := by
  simp [fastFtShape, halfLen]

/-- Hermitian symmetry: every frequency `k < N` is stored in the half spectrum either directly
or as the conjugate of `N - k` — the half spectrum determines the full one. -/
theorem hermitian_half_determines (N k : Nat) (hk : k < N) :
    k < halfLen N ∨ (0 < N - k ∧ N - k < halfLen N) := by
  unfold halfLen; omega

/-- an odd and an even real length share the same half length: this is why the inverse
transform is built with an explicit real shape. -/
theorem half_ambiguous (h : Nat) (hh : 2 ≤ h) : halfLen (2 * h - 2) = h ∧ halfLen (2 * h - 1) = h := by
  unfold halfLen; omega

/-- and given the half length *and the parity* the real length is unique -/
theorem half_with_parity_unique (N M : Nat) (hl : halfLen N = halfLen M) (hp : N % 2 = M % 2) : N = M := by
  unfold halfLen at hl; omega

/-! ## corner padding -/

theorem topleftPad_shape {α : Type} (a : Arr α) (shape : List Nat) (pad : α) :
    (topleftPad a shape pad).shape = shape := rfl

/-- corner padding keeps the data in the leading corner and fills the rest with the pad value
(an input larger than the target shape is cropped to its leading corner) -/
theorem topleftPad_spec {α : Type} (a : Arr α) (shape idx : List Nat) (pad d : α)
    (h : inShape shape idx = true) :
    (topleftPad a shape pad).getD idx d = if inShape a.shape idx then a.getD idx pad else pad := by
  unfold topleftPad
  rw [Arr.getD_ofFn _ _ _ _ h]

/-- values of a crop are the values of the source at the shifted index -/
theorem crop_spec {α : Type} (a : Arr α) (starts exts idx : List Nat) (d : α)
    (h : inShape exts idx = true) :
    (crop a starts exts d).getD idx d = a.getD (List.zipWith (· + ·) starts idx) d := by
  unfold crop
  rw [Arr.getD_ofFn _ _ _ _ h]

/-! ## centre extraction -/

/-- the centre slice has exactly the requested extent and lies inside the array -/
theorem centerSlice_extent (cur new : Nat) (h : new ≤ cur) :
    0 ≤ centerStart cur new ∧ centerStop cur new ≤ cur ∧
    centerStop cur new - centerStart cur new = new := by
  unfold centerStop centerStart; omega

/-- it is taken symmetrically about the centre: the margins differ by at most one voxel,
the extra one (odd difference) going to the far side -/
theorem centerSlice_symmetric (cur new : Nat) (h : new ≤ cur) :
    let left := centerStart cur new
    let right := (cur : Int) - centerStop cur new
    left ≤ right ∧ right ≤ left + 1 := by
  unfold centerStop centerStart; omega

/-- `extract_center` (truncating) and `_center_slice` (flooring) agree when shrinking -/
theorem extractCenter_eq_centerSlice (cur new : Nat) (h : new ≤ cur) :
    extractStart cur new = centerStart cur new ∧ extractStop cur new = centerStop cur new := by
  unfold extractStop centerStop extractStart centerStart
  have : (0:Int) ≤ (cur:Int) - new := by omega
  rw [Int.tdiv_eq_ediv_of_nonneg this]; simp

/-- a python slice with in-range bounds selects exactly `[start, stop)` -/
theorem pySlice_inbounds (n : Nat) (start stop : Int) (h0 : 0 ≤ start) (h1 : start ≤ stop)
    (h2 : stop ≤ n) : pySlice n start stop = (start.toNat, stop.toNat) := by
  unfold pySlice
  simp only
  have a : ¬ start < 0 := by omega
  have b : ¬ stop < 0 := by omega
  simp only [a, b, if_false]
  have : min start.toNat n = start.toNat := by omega
  have : min stop.toNat n = stop.toNat := by omega
  simp_all

/-! ## full / same / valid crops of a linear convolution -/

theorem convCrop_full (conv s1 s2 : Nat) : convCrop .full conv s1 s2 = some (0, conv) := rfl

/-- `same`: extent `s1`, starting `(s2-1)/2` into the full convolution -/
theorem convCrop_same (s1 s2 : Nat) (h1 : 1 ≤ s1) (h2 : 1 ≤ s2) :
    convCrop .same (convLen s1 s2) s1 s2 = some ((s2 - 1) / 2, s1) := by
  unfold convCrop
  simp only
  have hs : centerStart (convLen s1 s2) s1 = (((s2 - 1) / 2 : Nat) : Int) := by
    unfold centerStart convLen; omega
  have he : centerStop (convLen s1 s2) s1 = (((s2 - 1) / 2 + s1 : Nat) : Int) := by
    unfold centerStop; rw [hs]; push_cast; ring
  rw [pySlice_inbounds _ _ _ (by rw [hs]; omega) (by rw [hs, he]; omega)
    (by rw [he]; unfold convLen; omega)]
  rw [hs, he]; simp only [Int.toNat_natCast]; congr 2; omega

/-- `valid`: extent `s1 - s2 + s2 % 2`, taken centrally out of the full convolution -/
theorem convCrop_valid (s1 s2 : Nat) (h2 : 1 ≤ s2) (h : s2 ≤ s1) :
    convCrop .valid (convLen s1 s2) s1 s2 =
      some ((convLen s1 s2 - (s1 - s2 + s2 % 2)) / 2, s1 - s2 + s2 % 2) := by
  unfold convCrop
  simp only
  have hv : validLen s1 s2 = ((s1 - s2 + s2 % 2 : Nat) : Int) := by unfold validLen; omega
  rw [hv]
  have hneg : ¬ (((s1 - s2 + s2 % 2 : Nat) : Int) < 0) := by omega
  simp only [hneg, if_false, Int.toNat_natCast]
  set v := s1 - s2 + s2 % 2 with hvdef
  have hvc : v ≤ convLen s1 s2 := by unfold convLen; omega
  have hs : centerStart (convLen s1 s2) v = (((convLen s1 s2 - v) / 2 : Nat) : Int) := by
    unfold centerStart; omega
  have he : centerStop (convLen s1 s2) v = (((convLen s1 s2 - v) / 2 + v : Nat) : Int) := by
    unfold centerStop; rw [hs]; push_cast; ring
  rw [pySlice_inbounds _ _ _ (by rw [hs]; omega) (by rw [hs, he]; omega) (by rw [he]; omega)]
  rw [hs, he]; simp only [Int.toNat_natCast]; congr 2; omega

/-- the `valid` window is central: margins differ by at most one -/
theorem convCrop_valid_centered (s1 s2 : Nat) (h2 : 1 ≤ s2) (h : s2 ≤ s1) :
    let ext := s1 - s2 + s2 % 2
    let lo := (convLen s1 s2 - ext) / 2
    let hiMargin := convLen s1 s2 - (lo + ext)
    lo ≤ hiMargin ∧ hiMargin ≤ lo + 1 := by
  unfold convLen; omega

/-! ## n-D boxes, an explicitly given convolution shape, the masking form -/

/-- one axis of `centered`: when shrinking (or keeping) the extent the python slice is exactly
`[(c-n)/2, (c-n)/2 + n)` — also for `n = c` (no reduction at all) and `n = 0` -/
theorem centered_axis (c n : Nat) (h : n ≤ c) :
    pySlice c (centerStart c n) (centerStop c n) = ((c - n) / 2, (c - n) / 2 + n) := by
  have hs : centerStart c n = (((c - n) / 2 : Nat) : Int) := by unfold centerStart; omega
  have he : centerStop c n = (((c - n) / 2 + n : Nat) : Int) := by
    unfold centerStop; rw [hs]; push_cast; ring
  rw [pySlice_inbounds _ _ _ (by rw [hs]; omega) (by rw [hs, he]; omega) (by rw [he]; omega)]
  rw [hs, he]; simp only [Int.toNat_natCast]

/-- every axis of the n-D centre box has the requested extent, starting `(c-n)/2` in -/
theorem centeredBox_eq (cur new : List Nat) (h : List.Forall₂ (fun c n => n ≤ c) cur new) :
    centeredBox cur new = List.zipWith (fun c n => ((c - n) / 2, (c - n) / 2 + n)) cur new := by
  induction h with
  | nil => rfl
  | cons hcn _ ih =>
    unfold centeredBox at ih ⊢
    simp only [List.zipWith_cons_cons]
    rw [centered_axis _ _ hcn, ih]

/-- the backend's `extract_center` (truncating) cuts the same n-D box as `centered` (flooring) -/
theorem extractBox_eq_centeredBox (cur new : List Nat) (h : List.Forall₂ (fun c n => n ≤ c) cur new) :
    extractBox cur new = centeredBox cur new := by
  induction h with
  | nil => rfl
  | cons hcn _ ih =>
    unfold extractBox centeredBox at ih ⊢
    simp only [List.zipWith_cons_cons]
    rw [(extractCenter_eq_centerSlice _ _ hcn).1, (extractCenter_eq_centerSlice _ _ hcn).2, ih]

/-- `same` out of an explicitly given convolution extent `conv ≥ s1`: extent `s1`, central in `conv` -/
theorem convCrop_same_conv (conv s1 s2 : Nat) (h : s1 ≤ conv) :
    convCrop .same conv s1 s2 = some ((conv - s1) / 2, s1) := by
  unfold convCrop
  simp only
  rw [centered_axis conv s1 h]
  simp

/-- `valid` out of an explicitly given convolution extent -/
theorem convCrop_valid_conv (conv s1 s2 : Nat) (h : s2 ≤ s1) (hv : s1 - s2 + s2 % 2 ≤ conv) :
    convCrop .valid conv s1 s2 =
      some ((conv - (s1 - s2 + s2 % 2)) / 2, s1 - s2 + s2 % 2) := by
  unfold convCrop
  simp only
  have hvl : validLen s1 s2 = ((s1 - s2 + s2 % 2 : Nat) : Int) := by unfold validLen; omega
  rw [hvl]
  have hneg : ¬ (((s1 - s2 + s2 % 2 : Nat) : Int) < 0) := by omega
  simp only [hneg, if_false, Int.toNat_natCast]
  rw [centered_axis conv _ hv]
  simp

/-- any central window `[(conv-ext)/2, (conv-ext)/2+ext)` has margins that differ by at most one,
the extra voxel on the far side -/
theorem central_window_margins (conv ext : Nat) (h : ext ≤ conv) :
    let lo := (conv - ext) / 2
    let hiMargin := conv - (lo + ext)
    lo ≤ hiMargin ∧ hiMargin ≤ lo + 1 := by
  omega

theorem inBox_cons (lo hi i : Nat) (bs : List (Nat × Nat)) (is : List Nat) :
    inBox ((lo, hi) :: bs) (i :: is) = true ↔ lo ≤ i ∧ i < hi ∧ inBox bs is = true := by
  simp [inBox, and_assoc]

/-- the masking form keeps the shape -/
theorem centeredMask_shape (a : Arr Int) (new : List Nat) : (centeredMask a new).shape = a.shape := rfl

/-- the masking form keeps the values inside the centre box and zeroes everything else -/
theorem centeredMask_spec (a : Arr Int) (new idx : List Nat) (h : inShape a.shape idx = true) :
    (centeredMask a new).getD idx 0 =
      if inBox (centeredBox a.shape new) idx then a.getD idx 0 else 0 := by
  unfold centeredMask
  rw [Arr.getD_ofFn _ _ _ _ h]

/-! ## non-vacuity -/
example : nextFastLen 17 = 18 ∧ nextFastLen 23 = 24 ∧ nextFastLen 11 = 11 := by decide
example : convCrop .valid (convLen 10 4) 10 4 = some (3, 6) := by decide
example : convCrop .same (convLen 10 5) 10 5 = some (2, 10) := by decide
example : (topleftPad (⟨[2,2], #[1,2,3,4]⟩ : Arr Int) [3,3] 9).toList = [1,2,9,3,4,9,9,9,9] := by decide
example : centerStart 9 4 = 2 ∧ centerStop 9 4 = 6 := by decide
example : centeredBox [9, 6, 5] [4, 6, 2] = [(2, 6), (0, 6), (1, 3)] := by decide
example : convCrop .same 16 10 5 = some (3, 10) := by decide
example : (centeredMask (⟨[4], #[5,6,7,8]⟩ : Arr Int) [2]).toList = [0,6,7,0] := by decide

/-! ## the transform pair the helpers plan for is an inverse pair (exact arithmetic, every shape) -/

/-- **Round trip of the planned transform, for every shape, parity and dimension.**  For the separable n-D DFT on a box
(primitive root of unity and invertible length per axis — ℂ), the un-normalised inverse transform of the transform
returns `|box| ·` the array at every voxel: what `irfftn(rfftn(x)) = x` means before rounding, for odd and even
extents alike.  (That pyFFTW computes this pair, and the half-spectrum storage of `rfftn`, are exercised by Leg B.) -/
theorem fft_roundtrip_nd {K : Type} [Field K] (Ns : List Nat) (ωs : List K) (hp : Pm.C01.RootsPrim Ns ωs)
    (F : List Int → K) (js : List Nat) (hjs : inShape Ns js = true) :
    Pm.C01.idftS Ns ωs (fun ks => Pm.C01.dftS Ns ωs F ks) js = Pm.C01.boxCard Ns * F (Pm.C01.natsToInts js) :=
  Pm.C01.idftS_dftS Ns ωs hp F js hjs

end Pm.C13
