import PytmeModel.Model.C13
import PytmeModel.Proofs.Common
import PytmeModel.Proofs.DftRoundTrip
import PytmeModel.Proofs.C13Pad
import PytmeModel.Proofs.C13Fast
import PytmeModel.Proofs.C13Window
import PytmeModel.Proofs.C13Roll
import PytmeModel.Proofs.C13Post
import PytmeModel.Proofs.C13Dims
import PytmeModel.Model.C04
import PytmeModel.Proofs.C13TopK
import PytmeModel.Proofs.C13Misc
import Mathlib.Tactic.Ring
import Mathlib.Tactic.Linarith

/-! # C13 — FFT shapes, padding and cropping helpers are exact for every shape -/
namespace Pm.C13

/-! ## planned transform shape ≥ linear-convolution shape; half-spectrum shape -/

theorem le_nextFastFrom (f n : Nat) : n ≤ nextFastFrom f n := by
  induction f generalizing n with
  | zero => simp [nextFastFrom]
  | succ f ih =>
    unfold nextFastFrom
    split
    · exact Nat.le_refl _
    · exact Nat.le_trans (Nat.le_succ n) (ih (n + 1))

/-- the planned length is never below the requested one -/
theorem le_nextFastLen (n : Nat) : n ≤ nextFastLen n := by
  unfold nextFastLen; split
  · omega
  · exact le_nextFastFrom _ _

/-- whatever the search returns inside its fuel is an FFTW-fast length -/
theorem nextFastFrom_fast_or_exhausted (f n : Nat) :
    isFast (nextFastFrom f n) = true ∨ nextFastFrom f n = n + f := by
  induction f generalizing n with
  | zero => right; simp [nextFastFrom]
  | succ f ih =>
    unfold nextFastFrom
    split
    · left; assumption
    · rcases ih (n + 1) with h | h
      · left; exact h
      · right; omega

/-- the linear convolution extent contains both operands -/
theorem convLen_ge (a b : Nat) (hb : 1 ≤ b) (ha : 1 ≤ a) : a ≤ convLen a b ∧ b ≤ convLen a b := by
  unfold convLen; omega

/-- every axis of the planned (fast) shape is at least the linear-convolution extent -/
theorem fast_ge_conv (s1 s2 : List Nat) :
    List.Forall₂ (· ≤ ·) (convShape s1 s2) (fastShape s1 s2) := by
  unfold fastShape
  generalize convShape s1 s2 = c
  induction c with
  | nil => exact List.Forall₂.nil
  | cons x xs ih => exact List.Forall₂.cons (le_nextFastLen x) ih

theorem convShape_length (s1 s2 : List Nat) (h : s1.length = s2.length) :
    (convShape s1 s2).length = s1.length ∧ (fastShape s1 s2).length = s1.length := by
  simp [convShape, fastShape, h]

/-- the half-spectrum shape: same leading axes, last axis `N/2+1` -/
theorem fastFtShape_snoc (init : List Nat) (l : Nat) :
    fastFtShape (init ++ [l]) = init ++ [l / 2 + 1] := by
  simp [fastFtShape, halfLen]

/-- Hermitian symmetry: every frequency `k < N` is stored in the half spectrum either directly
or as the conjugate of `N - k` — the half spectrum determines the full one. -/
theorem hermitian_half_determines (N k : Nat) (hk : k < N) :
    k < halfLen N ∨ (0 < N - k ∧ N - k < halfLen N) := by
  unfold halfLen; omega

/-- an odd and an even real length share the same half length: this is why the inverse
transform is built with an explicit real shape. -/
theorem half_ambiguous (h : Nat) (hh : 2 ≤ h) : halfLen (2 * h - 2) = h ∧ halfLen (2 * h - 1) = h := by
  unfold halfLen; omega

/-- and given the half length *and the parity* the real length is unique -/
theorem half_with_parity_unique (N M : Nat) (hl : halfLen N = halfLen M) (hp : N % 2 = M % 2) : N = M := by
  unfold halfLen at hl; omega


/-! ## `next_fast_len` is the *least* FFTW-fast length at or above the request -/

/-- the fast-length test is exactly "`2^a 3^b 5^c 7^d · r` with `r ∈ {1, 11, 13}`" (FFTW's efficiently handled sizes) -/
theorem isFast_iff (n : Nat) :
    isFast n = true ↔ ∃ a b c d r, (r = 1 ∨ r = 11 ∨ r = 13) ∧ n = 2 ^ a * 3 ^ b * 5 ^ c * 7 ^ d * r := by
  constructor
  · exact isFast_sound n
  · rintro ⟨a, b, c, d, r, hr, rfl⟩
    exact isFast_complete a b c d r hr
example : isFast 2340 = true ∧ isFast 143 = false ∧ isFast 17 = false := by decide

/-- **the planned length is fast** (the search never runs out of fuel: a power of two lies in `[n, 2n]`) — supersedes
`nextFastFrom_fast_or_exhausted`, which is kept as the inductive step -/
theorem nextFastLen_isFast (n : Nat) (hn : 1 ≤ n) : isFast (nextFastLen n) = true := nextFastLen_fast n hn
example : isFast (nextFastLen 17) = true ∧ isFast (nextFastLen 1025) = true := by decide

/-- **and it is the least one**: nothing in `[n, nextFastLen n)` is fast -/
theorem nextFastLen_least (n k : Nat) (h1 : n ≤ k) (h2 : k < nextFastLen n) : isFast k = false :=
  nextFastLen_minimal n k h1 h2
example : 17 ≤ 17 ∧ 17 < nextFastLen 17 ∧ isFast 17 = false := by decide

/-- the padding never doubles an axis: `n ≤ nextFastLen n ≤ 2n` -/
theorem nextFastLen_bounds (n : Nat) : n ≤ nextFastLen n ∧ nextFastLen n ≤ 2 * n :=
  ⟨le_nextFastLen n, nextFastLen_le_two_mul n⟩
example : nextFastLen 17 = 18 ∧ nextFastLen 1025 = 1029 ∧ nextFastLen 131 = 132 := by decide

/-- specification of `next_fast_len`: any `v ≥ n` that is fast and has nothing fast below it down to `n` is the result -/
theorem nextFastLen_unique (n v : Nat) (hn : 1 ≤ n) (h1 : n ≤ v) (hv : isFast v = true)
    (hmin : ∀ k, n ≤ k → k < v → isFast k = false) : nextFastLen n = v := by
  rcases Nat.lt_trichotomy (nextFastLen n) v with h | h | h
  · have := hmin _ (le_nextFastLen n) h
    rw [nextFastLen_fast n hn] at this; cases this
  · exact h
  · have := nextFastLen_minimal n v h1 h
    rw [hv] at this; cases this
example : nextFastLen 17 = 18 := by
  refine nextFastLen_unique 17 18 (by decide) (by decide) (by decide) ?_
  intro k h1 h2
  have hk : k = 17 := by omega
  subst hk
  decide

/-! ## corner padding -/

theorem topleftPad_shape {α : Type} (a : Arr α) (shape : List Nat) (pad : α) :
    (topleftPad a shape pad).shape = shape := rfl

/-- corner padding keeps the data in the leading corner and fills the rest with the pad value
(an input larger than the target shape is cropped to its leading corner) -/
theorem topleftPad_spec {α : Type} (a : Arr α) (shape idx : List Nat) (pad d : α)
    (h : inShape shape idx = true) :
    (topleftPad a shape pad).getD idx d = if inShape a.shape idx then a.getD idx pad else pad := by
  unfold topleftPad
  rw [Arr.getD_ofFn _ _ _ _ h]

/-- values of a crop are the values of the source at the shifted index -/
theorem crop_spec {α : Type} (a : Arr α) (starts exts idx : List Nat) (d : α)
    (h : inShape exts idx = true) :
    (crop a starts exts d).getD idx d = a.getD (List.zipWith (· + ·) starts idx) d := by
  unfold crop
  rw [Arr.getD_ofFn _ _ _ _ h]

/-! ## centre extraction -/

/-- the centre slice has exactly the requested extent and lies inside the array -/
theorem centerSlice_extent (cur new : Nat) (h : new ≤ cur) :
    0 ≤ centerStart cur new ∧ centerStop cur new ≤ cur ∧
    centerStop cur new - centerStart cur new = new := by
  unfold centerStop centerStart; omega

/-- it is taken symmetrically about the centre: the margins differ by at most one voxel,
the extra one (odd difference) going to the far side -/
theorem centerSlice_symmetric (cur new : Nat) (h : new ≤ cur) :
    let left := centerStart cur new
    let right := (cur : Int) - centerStop cur new
    left ≤ right ∧ right ≤ left + 1 := by
  unfold centerStop centerStart; omega

/-- `extract_center` (truncating) and `_center_slice` (flooring) agree when shrinking -/
theorem extractCenter_eq_centerSlice (cur new : Nat) (h : new ≤ cur) :
    extractStart cur new = centerStart cur new ∧ extractStop cur new = centerStop cur new := by
  unfold extractStop centerStop extractStart centerStart
  have : (0:Int) ≤ (cur:Int) - new := by omega
  rw [Int.tdiv_eq_ediv_of_nonneg this]; simp

/-- a python slice with in-range bounds selects exactly `[start, stop)` -/
theorem pySlice_inbounds (n : Nat) (start stop : Int) (h0 : 0 ≤ start) (h1 : start ≤ stop)
    (h2 : stop ≤ n) : pySlice n start stop = (start.toNat, stop.toNat) := by
  unfold pySlice
  simp only
  have a : ¬ start < 0 := by omega
  have b : ¬ stop < 0 := by omega
  simp only [a, b, if_false]
  have : min start.toNat n = start.toNat := by omega
  have : min stop.toNat n = stop.toNat := by omega
  simp_all

/-! ## full / same / valid crops of a linear convolution -/

theorem convCrop_full (conv s1 s2 : Nat) : convCrop .full conv s1 s2 = some (0, conv) := rfl

/-- `same`: extent `s1`, starting `(s2-1)/2` into the full convolution -/
theorem convCrop_same (s1 s2 : Nat) (h1 : 1 ≤ s1) (h2 : 1 ≤ s2) :
    convCrop .same (convLen s1 s2) s1 s2 = some ((s2 - 1) / 2, s1) := by
  unfold convCrop
  simp only
  have hs : centerStart (convLen s1 s2) s1 = (((s2 - 1) / 2 : Nat) : Int) := by
    unfold centerStart convLen; omega
  have he : centerStop (convLen s1 s2) s1 = (((s2 - 1) / 2 + s1 : Nat) : Int) := by
    unfold centerStop; rw [hs]; push_cast; ring
  rw [pySlice_inbounds _ _ _ (by rw [hs]; omega) (by rw [hs, he]; omega)
    (by rw [he]; unfold convLen; omega)]
  rw [hs, he]; simp only [Int.toNat_natCast]; congr 2; omega

/-- `valid`: extent `s1 - s2 + s2 % 2`, taken centrally out of the full convolution -/
theorem convCrop_valid (s1 s2 : Nat) (h2 : 1 ≤ s2) (h : s2 ≤ s1) :
    convCrop .valid (convLen s1 s2) s1 s2 =
      some ((convLen s1 s2 - (s1 - s2 + s2 % 2)) / 2, s1 - s2 + s2 % 2) := by
  unfold convCrop
  simp only
  have hv : validLen s1 s2 = ((s1 - s2 + s2 % 2 : Nat) : Int) := by unfold validLen; omega
  rw [hv]
  have hneg : ¬ (((s1 - s2 + s2 % 2 : Nat) : Int) < 0) := by omega
  simp only [hneg, if_false, Int.toNat_natCast]
  set v := s1 - s2 + s2 % 2 with hvdef
  have hvc : v ≤ convLen s1 s2 := by unfold convLen; omega
  have hs : centerStart (convLen s1 s2) v = (((convLen s1 s2 - v) / 2 : Nat) : Int) := by
    unfold centerStart; omega
  have he : centerStop (convLen s1 s2) v = (((convLen s1 s2 - v) / 2 + v : Nat) : Int) := by
    unfold centerStop; rw [hs]; push_cast; ring
  rw [pySlice_inbounds _ _ _ (by rw [hs]; omega) (by rw [hs, he]; omega) (by rw [he]; omega)]
  rw [hs, he]; simp only [Int.toNat_natCast]; congr 2; omega

/-- the `valid` window is central: margins differ by at most one -/
theorem convCrop_valid_centered (s1 s2 : Nat) (h2 : 1 ≤ s2) (h : s2 ≤ s1) :
    let ext := s1 - s2 + s2 % 2
    let lo := (convLen s1 s2 - ext) / 2
    let hiMargin := convLen s1 s2 - (lo + ext)
    lo ≤ hiMargin ∧ hiMargin ≤ lo + 1 := by
  unfold convLen; omega

/-! ## n-D boxes, an explicitly given convolution shape, the masking form -/

/-- one axis of `centered`: when shrinking (or keeping) the extent the python slice is exactly
`[(c-n)/2, (c-n)/2 + n)` — also for `n = c` (no reduction at all) and `n = 0` -/
theorem centered_axis (c n : Nat) (h : n ≤ c) :
    pySlice c (centerStart c n) (centerStop c n) = ((c - n) / 2, (c - n) / 2 + n) := by
  have hs : centerStart c n = (((c - n) / 2 : Nat) : Int) := by unfold centerStart; omega
  have he : centerStop c n = (((c - n) / 2 + n : Nat) : Int) := by
    unfold centerStop; rw [hs]; push_cast; ring
  rw [pySlice_inbounds _ _ _ (by rw [hs]; omega) (by rw [hs, he]; omega) (by rw [he]; omega)]
  rw [hs, he]; simp only [Int.toNat_natCast]

/-- every axis of the n-D centre box has the requested extent, starting `(c-n)/2` in -/
theorem centeredBox_eq (cur new : List Nat) (h : List.Forall₂ (fun c n => n ≤ c) cur new) :
    centeredBox cur new = List.zipWith (fun c n => ((c - n) / 2, (c - n) / 2 + n)) cur new := by
  induction h with
  | nil => rfl
  | cons hcn _ ih =>
    unfold centeredBox at ih ⊢
    simp only [List.zipWith_cons_cons]
    rw [centered_axis _ _ hcn, ih]

/-- the backend's `extract_center` (truncating) cuts the same n-D box as `centered` (flooring) -/
theorem extractBox_eq_centeredBox (cur new : List Nat) (h : List.Forall₂ (fun c n => n ≤ c) cur new) :
    extractBox cur new = centeredBox cur new := by
  induction h with
  | nil => rfl
  | cons hcn _ ih =>
    unfold extractBox centeredBox at ih ⊢
    simp only [List.zipWith_cons_cons]
    rw [(extractCenter_eq_centerSlice _ _ hcn).1, (extractCenter_eq_centerSlice _ _ hcn).2, ih]

/-- `same` out of an explicitly given convolution extent `conv ≥ s1`: extent `s1`, central in `conv` -/
theorem convCrop_same_conv (conv s1 s2 : Nat) (h : s1 ≤ conv) :
    convCrop .same conv s1 s2 = some ((conv - s1) / 2, s1) := by
  unfold convCrop
  simp only
  rw [centered_axis conv s1 h]
  simp

/-- `valid` out of an explicitly given convolution extent -/
theorem convCrop_valid_conv (conv s1 s2 : Nat) (h : s2 ≤ s1) (hv : s1 - s2 + s2 % 2 ≤ conv) :
    convCrop .valid conv s1 s2 =
      some ((conv - (s1 - s2 + s2 % 2)) / 2, s1 - s2 + s2 % 2) := by
  unfold convCrop
  simp only
  have hvl : validLen s1 s2 = ((s1 - s2 + s2 % 2 : Nat) : Int) := by unfold validLen; omega
  rw [hvl]
  have hneg : ¬ (((s1 - s2 + s2 % 2 : Nat) : Int) < 0) := by omega
  simp only [hneg, if_false, Int.toNat_natCast]
  rw [centered_axis conv _ hv]
  simp

/-- any central window `[(conv-ext)/2, (conv-ext)/2+ext)` has margins that differ by at most one,
the extra voxel on the far side -/
theorem central_window_margins (conv ext : Nat) (h : ext ≤ conv) :
    let lo := (conv - ext) / 2
    let hiMargin := conv - (lo + ext)
    lo ≤ hiMargin ∧ hiMargin ≤ lo + 1 := by
  omega

theorem inBox_cons (lo hi i : Nat) (bs : List (Nat × Nat)) (is : List Nat) :
    inBox ((lo, hi) :: bs) (i :: is) = true ↔ lo ≤ i ∧ i < hi ∧ inBox bs is = true := by
  simp [inBox, and_assoc]

/-- the masking form keeps the shape -/
theorem centeredMask_shape (a : Arr Int) (new : List Nat) : (centeredMask a new).shape = a.shape := rfl

/-- the masking form keeps the values inside the centre box and zeroes everything else -/
theorem centeredMask_spec (a : Arr Int) (new idx : List Nat) (h : inShape a.shape idx = true) :
    (centeredMask a new).getD idx 0 =
      if inBox (centeredBox a.shape new) idx then a.getD idx 0 else 0 := by
  unfold centeredMask
  rw [Arr.getD_ofFn _ _ _ _ h]


/-! ## `MatchingData._fourier_padding`: the four results, every branch, tied to the numbers C01 assumes -/

/-- the three shapes: `conv` is the linear-convolution shape of `max(target, template)` with the per-axis pad extent
(template extent with Fourier padding, 1 without, 1 on batch axes), `fast` its planned shape (never smaller),
`ft` the half-spectrum shape of `fast` -/
theorem fourierPadding_shapes (tg tp : List Nat) (bm : List Bool) (pad : Bool) :
    (fourierPadding tg tp bm pad).conv
        = convShape (List.zipWith max tg tp) (List.zipWith (fourierPadAxis pad) tp bm) ∧
    (fourierPadding tg tp bm pad).fast = (fourierPadding tg tp bm pad).conv.map nextFastLen ∧
    (fourierPadding tg tp bm pad).ft = fastFtShape (fourierPadding tg tp bm pad).fast ∧
    List.Forall₂ (· ≤ ·) (fourierPadding tg tp bm pad).conv (fourierPadding tg tp bm pad).fast := by
  refine ⟨rfl, rfl, rfl, ?_⟩
  show List.Forall₂ (· ≤ ·) (convShape (List.zipWith max tg tp) (List.zipWith (fourierPadAxis pad) tp bm))
    (List.map nextFastLen (convShape (List.zipWith max tg tp) (List.zipWith (fourierPadAxis pad) tp bm)))
  generalize convShape (List.zipWith max tg tp) (List.zipWith (fourierPadAxis pad) tp bm) = c
  induction c with
  | nil => exact List.Forall₂.nil
  | cons x xs ih => exact List.Forall₂.cons (le_nextFastLen x) ih
example : fourierPadding [5, 8] [7, 3] [false, false] true = ⟨[13, 10], [13, 10], [13, 6], [1, 0]⟩ := by decide

/-- without batch axes `conv_shape` is, axis by axis, the `convLen` of C01's frame analysis -/
theorem fourierPadding_conv_eq_C01 (tg tp : List Nat) (bm : List Bool) (pad : Bool) (h : NoBatch tg tp bm) :
    (fourierPadding tg tp bm pad).conv = List.zipWith (fun n m => Pm.C01.convLen n m pad) tg tp :=
  conv_eq_C01 pad tg tp bm h
example : NoBatch [5, 8] [7, 3] [false, false] := ⟨rfl, rfl, trivial⟩

/-- **`fourier_shift` is exactly the vector C01 assumes, for every pair of shapes** (template larger than the target on
any subset of axes included, with and without Fourier padding): the vector code with its global gate
`np.sum(shape_mask)`, true divisions and final truncation computes C01's per-axis `fourierShiftFull`. -/
theorem fourierPadding_shift_eq_C01 (tg tp : List Nat) (bm : List Bool) (pad : Bool) (h : NoBatch tg tp bm) :
    (fourierPadding tg tp bm pad).shift = Pm.C01.shiftsOfFull pad tg tp :=
  shifts_eq_C01_aux pad _ tg tp bm h (anyNeg_of_someLarger tg tp bm h)
example : (fourierPadding [5, 8, 4] [7, 3, 9] [false, false, false] false).shift = Pm.C01.shiftsOfFull false [5, 8, 4] [7, 3, 9] := by decide

/-- when the template fits on every axis this is `shiftsOf` (zeros with padding, `1 - m/2 - m%2` without) -/
theorem fourierPadding_shift_fits (tg tp : List Nat) (bm : List Bool) (pad : Bool) (h : NoBatch tg tp bm)
    (hf : Fits tg tp) : (fourierPadding tg tp bm pad).shift = Pm.C01.shiftsOf pad tp := by
  rw [fourierPadding_shift_eq_C01 tg tp bm pad h, shiftsOfFull_fits pad tg tp hf]
example : Fits [5, 8] [4, 3] := ⟨by decide, by decide, trivial⟩

/-- batch axes (and axes on which the template fits) are never corrected, whatever happens on the other axes -/
theorem fourierPadding_shift_batch (tg tp : List Nat) (bm : List Bool) (pad : Bool)
    (h : ∀ n m b, (n, m, b) ∈ tg.zip (tp.zip bm) → b = true ∨ m ≤ n) :
    (fourierPadding tg tp bm pad).shift = zip3With (fun _ m _ => baseShift pad m) tg tp bm :=
  shifts_any_batch pad _ tg tp bm h
example : (fourierPadding [5, 8] [7, 3] [true, false] false).shift = [-3, -1] := by decide

/-- one axis, any gate: a batch axis / an axis where the template fits keeps the uncorrected shift -/
theorem shiftAxis_uncorrected (pad g : Bool) (n m : Nat) (b : Bool) (h : b = true ∨ m ≤ n) :
    shiftAxis pad g n m b = baseShift pad m := by
  rcases h with rfl | h
  · exact shiftAxis_batch pad g n m
  · exact shiftAxis_fits pad g n m b h
example : shiftAxis false true 8 3 false = baseShift false 3 ∧ shiftAxis true true 2 9 true = baseShift true 9 := by decide


/-- `target_padding`: with `pad_target` the target grows by `m - m%2` per axis (nothing on batch axes, nothing without it),
and then the `valid` output of the padded target has the original target extent again -/
theorem targetPadding_spec (pad : Bool) (tp : List Nat) (bm : List Bool) :
    targetPadding pad tp bm = List.zipWith (fun m b => if pad ∧ b = false then m - m % 2 else 0) tp bm := by
  unfold targetPadding
  congr 1
  funext m b
  cases pad <;> cases b <;> simp
example : targetPadding true [7, 4, 5] [false, false, true] = [6, 4, 0] := by decide

theorem targetPadding_restores_valid (n m : Nat) (h : 1 ≤ m) :
    validLen (n + (m - m % 2)) m = n := by
  unfold validLen; omega
example : validLen (10 + (5 - 5 % 2)) 5 = 10 := by decide

/-! ## `_set_matching_dimension`: what `fourier_padding()` hands to `_fourier_padding` -/

/-- **no batch axes** (`MatchingData(target, template)` as constructed): the target's shape as it is, the template's shape
cut / filled with ones to the target's rank, and a batch mask of zeros — so `NoBatch` holds and every theorem about
`_fourier_padding` above applies to what `fourier_padding()` computes -/
theorem matchingDims_plain (ts ps : List Nat) :
    matchingDims ts ps [] [] = .ok ⟨ts, (List.range' 0 ts.length).map (fun j => ps.getD j 1),
      List.replicate ts.length false⟩ := by
  unfold matchingDims
  simp only [List.any_nil, Bool.false_eq_true, or_self, if_false, List.length_nil, Nat.sub_zero, Nat.add_zero]
  rw [matchLoop_plain ts ps [] [] ts.length 0 0 0 _ (fun j _ _ => ⟨rfl, rfl⟩)]
  simp only [List.map_map, Nat.sub_zero]
  show Except.ok _ = _
  congr 2
  · exact map_getD_range' 1 ts
  · exact map_const_range' false ts.length 0
example : matchingDims [5, 8, 4] [7, 3] [] [] = .ok ⟨[5, 8, 4], [7, 3, 1], [false, false, false]⟩ := by decide

/-- equal ranks: both shapes unchanged -/
theorem matchingDims_plain_same_rank (ts ps : List Nat) (h : ps.length = ts.length) :
    matchingDims ts ps [] [] = .ok ⟨ts, ps, List.replicate ts.length false⟩ := by
  rw [matchingDims_plain, ← h, map_getD_range' 1 ps]
example : matchingDims [5, 8] [7, 3] [] [] = .ok ⟨[5, 8], [7, 3], [false, false]⟩ := by decide

theorem matchLoop_stack (B : Nat) (ts ps : List Nat) :
    matchLoop (B :: ts) ps [0] [] (ts.length + 1) 0 0 0 0
      = some ((B, 1, true) :: (List.range' 1 ts.length).map fun j => ((B :: ts).getD j 1, ps.getD (j - 1) 1, false)) := by
  unfold matchLoop
  have hp := matchLoop_plain (B :: ts) ps [0] [] ts.length 1 0 1 0 (fun j hj _ => ⟨by
    simp only [Nat.sub_zero, List.contains_cons, List.contains_nil, Bool.or_false, beq_eq_false_iff_ne]; omega, rfl⟩)
  simp only [Nat.sub_zero] at hp
  simp [hp]
example : matchLoop [9, 5] [3] [0] [] 2 0 0 0 0 = some [(9, 1, true), (5, 3, false)] := by decide

/-- **a stack of targets** (`target_dims = 0`, template of the measurement rank): the stack axis is flagged as batch axis
and gets template extent 1, the remaining axes keep both shapes in order -/
theorem matchingDims_target_stack (B : Nat) (ts ps : List Nat) (h : ps.length = ts.length) :
    matchingDims (B :: ts) ps [0] [] = .ok ⟨B :: ts, 1 :: ps, true :: List.replicate ts.length false⟩ := by
  have hrem : ((B :: ts).length - [0].length) + ([0].length + ([] : List Nat).length) = ts.length + 1 := by simp
  have hcol : ps.length - ([] : List Nat).length - ((B :: ts).length - [0].length) = 0 := by simp [h]
  have hv : ¬ (([0].any fun x => decide ((B :: ts).length ≤ x)) = true ∨
      (([] : List Nat).any fun x => decide (ps.length ≤ x)) = true) := by simp
  unfold matchingDims
  simp only [hv, if_false, hrem, hcol, matchLoop_stack]
  show Except.ok _ = _
  simp only [List.map_cons, List.map_map]
  congr 2
  · congr 1
    rw [map_range'_succ]
    simpa using map_getD_range' 1 ts
  · congr 1
    rw [map_range'_succ]
    simpa [h] using map_getD_range' 1 ps
  · congr 1
    exact map_const_range' false ts.length 1
example : matchingDims [9, 5, 8] [3, 4] [0] [] = .ok ⟨[9, 5, 8], [1, 3, 4], [true, false, false]⟩ := by decide



theorem matchLoop_template_stack (B : Nat) (ts ps : List Nat) :
    matchLoop ts (B :: ps) [] [0] (ts.length + 1) 0 0 0 0
      = some ((1, B, true) :: (List.range' 1 ts.length).map fun j => (ts.getD (j - 1) 1, (B :: ps).getD j 1, false)) := by
  unfold matchLoop
  have hp := matchLoop_plain ts (B :: ps) [] [0] ts.length 1 1 0 0 (fun j hj _ => ⟨rfl, by
    simp only [Nat.sub_zero, List.contains_cons, List.contains_nil, Bool.or_false, beq_eq_false_iff_ne]; omega⟩)
  simp only [Nat.sub_zero] at hp
  simp [hp]
example : matchLoop [5] [9, 3] [] [0] 2 0 0 0 0 = some [(1, 9, true), (5, 3, false)] := by decide

/-- **a stack of templates** (`template_dims = 0`, target of the measurement rank): a leading batch axis of target extent 1 -/
theorem matchingDims_template_stack (B : Nat) (ts ps : List Nat) (h : ps.length = ts.length) :
    matchingDims ts (B :: ps) [] [0] = .ok ⟨1 :: ts, B :: ps, true :: List.replicate ts.length false⟩ := by
  have hrem : (ts.length - ([] : List Nat).length) + (([] : List Nat).length + [0].length) = ts.length + 1 := by simp
  have hcol : (B :: ps).length - [0].length - (ts.length - ([] : List Nat).length) = 0 := by simp [h]
  have hv : ¬ ((([] : List Nat).any fun x => decide (ts.length ≤ x)) = true ∨
      ([0].any fun x => decide ((B :: ps).length ≤ x)) = true) := by simp
  unfold matchingDims
  simp only [hv, if_false, hrem, hcol, matchLoop_template_stack]
  show Except.ok _ = _
  simp only [List.map_cons, List.map_map]
  congr 2
  · congr 1
    rw [map_range'_succ]
    simpa using map_getD_range' 1 ts
  · congr 1
    rw [map_range'_succ]
    simpa [h] using map_getD_range' 1 ps
  · congr 1
    exact map_const_range' false ts.length 1
example : matchingDims [5, 8] [9, 3, 4] [] [0] = .ok ⟨[1, 5, 8], [9, 3, 4], [true, false, false]⟩ := by decide

/-- **the object-level chain**: for a `MatchingData(target, template)` of equal ranks, what `fourier_padding(pad)` returns
(`_set_matching_dimension` → `_fourier_padding`) has C01's convolution shape and C01's shift vector -/
theorem object_fourier_padding (ts ps : List Nat) (h : ps.length = ts.length) (pad : Bool) (r : MatchDims)
    (hr : matchingDims ts ps [] [] = .ok r) :
    (fourierPadding r.target r.template r.batch pad).shift = Pm.C01.shiftsOfFull pad ts ps ∧
    (fourierPadding r.target r.template r.batch pad).conv = List.zipWith (fun n m => Pm.C01.convLen n m pad) ts ps := by
  rw [matchingDims_plain_same_rank ts ps h] at hr
  cases hr
  have hb := noBatch_replicate ts ps h.symm
  exact ⟨fourierPadding_shift_eq_C01 ts ps _ pad hb, fourierPadding_conv_eq_C01 ts ps _ pad hb⟩
example : matchingDims [5, 8] [7, 3] [] [] = .ok ⟨[5, 8], [7, 3], [false, false]⟩ := by decide

/-! ## roll by the Fourier shift, then crop: the window the analyzers report (ties to C01 and C05) -/

/-- the executable read position is C01's `rawIdx` -/
theorem postSrc_is_rawIdx (N : Nat) (shift : Int) (start t : Nat) :
    postSrc N shift start t = (Pm.C01.rawIdx N shift (start : Int) (t : Int)).toNat :=
  postSrc_eq_rawIdx N shift start t
example : postSrc 16 (-2) 0 14 = 0 := by decide

/-- and C05's `mapSrc` (where `MaxScoreOverRotations._postprocess` reads the value it reports) -/
theorem postSrc_is_mapSrc (ax : Pm.C05.Axis) (t : Nat) (h : 0 ≤ Pm.C05.cropStart ax) :
    Pm.C05.mapSrc ax t = postSrc ax.fast ax.shift (Pm.C05.cropStart ax).toNat t :=
  mapSrc_eq_postSrc ax t h
example : Pm.C05.mapSrc ⟨16, 16, 16, -2⟩ 14 = postSrc 16 (-2) 0 14 := by decide


/-- the three crop-start conventions in the code base — flooring (`_center_slice`, this model), C01's `cropStart`, and the
truncating `astype(int)` of the peak callers' `_postprocess` (C05) — are the same number whenever the output fits -/
theorem cropStart_conventions_agree (conv ext : Nat) (h : ext ≤ conv) (fast : Nat) (shift : Int) :
    centerStart conv ext = (((conv - ext) / 2 : Nat) : Int) ∧
    Pm.C01.cropStart conv ext = (((conv - ext) / 2 : Nat) : Int) ∧
    Pm.C05.cropStart ⟨fast, conv, (ext : Int), shift⟩ = (((conv - ext) / 2 : Nat) : Int) := by
  refine ⟨by unfold centerStart; omega, cropStart_nat conv ext h, ?_⟩
  unfold Pm.C05.cropStart
  simp only
  rw [Int.tdiv_eq_ediv_of_nonneg (by omega)]
  omega
example : centerStart 13 5 = 4 ∧ Pm.C01.cropStart 13 5 = 4 ∧ Pm.C05.cropStart ⟨13, 13, 5, 1⟩ = 4 := by decide

/-- **full Fourier padding, `same` crop, any pair of extents**: with the shift `_fourier_padding` returns and the crop
start `apply_convolution_mode` uses, output voxel `t` shows raw voxel `t + (m-1)/2` — the window C01 assumes -/
theorem postSrc_same_pad (g : Bool) (n m N t : Nat) (hm : 0 < m) (hn : 0 < n) (ht : t < n)
    (hN : max n m + m - 1 ≤ N) (hg : n < m → g = true) :
    postSrc N (shiftAxis true g n m false) ((max n m + m - 1 - n) / 2) t = t + (m - 1) / 2 :=
  window_same_pad g n m N t hm hn ht hN hg
example : postSrc 13 (shiftAxis true true 5 7 false) ((max 5 7 + 7 - 1 - 5) / 2) 4 = 4 + (7 - 1) / 2 := by decide

/-- without Fourier padding (template fits): the same window for every voxel whose window lies inside the target -/
theorem postSrc_same_nopad (g : Bool) (n m N t : Nat) (b : Bool) (hm : 0 < m) (hmn : m ≤ n) (hN : n ≤ N)
    (h0 : m / 2 ≤ t) (h1 : t + (m - 1) / 2 ≤ n - 1) :
    postSrc N (shiftAxis false g n m b) 0 t = t + (m - 1) / 2 :=
  window_same_nopad g n m N t b hm hmn hN h0 h1
example : postSrc 8 (shiftAxis false false 8 3 false) 0 5 = 5 + (3 - 1) / 2 := by decide

/-- `valid` crop: output voxel `j` shows raw voxel `j + m/2 + (m-1)/2`, with and without padding -/
theorem postSrc_valid (pad g : Bool) (n m N j : Nat) (b : Bool) (hm : 0 < m) (hmn : m ≤ n)
    (hN : Pm.C01.convLen n m pad ≤ N) (hj : j < n - m + m % 2) :
    postSrc N (shiftAxis pad g n m b) ((Pm.C01.convLen n m pad - (n - m + m % 2)) / 2) j = j + m / 2 + (m - 1) / 2 :=
  window_valid pad g n m N j b hm hmn hN hj
example : postSrc 10 (shiftAxis true false 8 3 false) ((Pm.C01.convLen 8 3 true - (8 - 3 + 3 % 2)) / 2) 2 = 2 + 3 / 2 + (3 - 1) / 2 := by decide

/-- side conditions of C01's n-D frame lemma follow from positivity alone when the planned shape is the one
`_fourier_padding` returns -/
theorem sameFullOk_of_fourierPadding : ∀ (ns ms : List Nat) (ts : List Int),
    List.Forall₂ (fun n t => (0 : Nat) < n ∧ 0 ≤ t ∧ t < (n : Int)) ns ts → List.Forall₂ (fun (_ : Nat) m => 0 < m) ns ms →
    Pm.C01.SameFullOk ns ms ((List.zipWith (fun n m => Pm.C01.convLen n m true) ns ms).map nextFastLen) ts
  | [], [], [], _, _ => trivial
  | n :: ns, m :: ms, t :: ts, .cons ⟨hn, h0, h1⟩ hr, .cons hm hmr =>
    ⟨⟨hm, hn, le_nextFastLen _, h0, h1⟩, sameFullOk_of_fourierPadding ns ms ts hr hmr⟩
example : List.Forall₂ (fun n t => (0 : Nat) < n ∧ 0 ≤ t ∧ t < (n : Int)) [5, 8] [4, 0] := by
  repeat constructor

/-- **n-D, full Fourier padding, every pair of shapes**: with the planned shape and the shift vector returned by
`_fourier_padding` and the `same` crop, the frame index the pipeline reads for a target voxel `t` is C01's `rawPos`
(`t + (m-1)/2` per axis) — the premise of C01's `implCorr_same_full`, now derived from the executable planner. -/
theorem fourierPadding_frame_same (tg tp : List Nat) (bm : List Bool) (t : List Int) (h : NoBatch tg tp bm)
    (ht : List.Forall₂ (fun n t => (0 : Nat) < n ∧ 0 ≤ t ∧ t < (n : Int)) tg t)
    (hm : List.Forall₂ (fun (_ : Nat) m => 0 < m) tg tp) :
    Pm.C01.frameIdx (fourierPadding tg tp bm true).fast (fourierPadding tg tp bm true).shift
      (Pm.C01.sameCrops true tg tp) t = Pm.C01.rawPos tp t := by
  have hs := fourierPadding_shift_eq_C01 tg tp bm true h
  have hf : (fourierPadding tg tp bm true).fast
      = (List.zipWith (fun n m => Pm.C01.convLen n m true) tg tp).map nextFastLen := by
    rw [(fourierPadding_shapes tg tp bm true).2.1, fourierPadding_conv_eq_C01 tg tp bm true h]
  rw [hs, hf]
  exact (Pm.C01.frame_same_full tg tp _ t (sameFullOk_of_fourierPadding tg tp t ht hm)).1
example : Pm.C01.frameIdx (fourierPadding [5, 8] [7, 3] [false, false] true).fast (fourierPadding [5, 8] [7, 3] [false, false] true).shift
    (Pm.C01.sameCrops true [5, 8] [7, 3]) [4, 0] = Pm.C01.rawPos [7, 3] [4, 0] := by decide

/-- array level: the post-processed map (roll, cut, crop) at `idx` is the raw map at the rolled, shifted index -/
theorem postMap_spec {α : Type} (a : Arr α) (shift : List Int) (mode : Mode) (conv s1 s2 : List Nat) (d : α)
    (boxes : List (Nat × Nat)) (hb : convCrops mode conv s1 s2 = some boxes) (idx : List Nat)
    (h1 : inShape (boxes.map (·.2)) idx = true)
    (h2 : inShape a.shape (List.zipWith (· + ·) (boxes.map (·.1)) idx) = true) :
    ∃ r, postMap a shift mode conv s1 s2 d = some r ∧
      r.getD idx d = a.getD (rollIdx a.shape shift (List.zipWith (· + ·) (boxes.map (·.1)) idx)) d := by
  refine ⟨_, by unfold postMap; rw [hb], ?_⟩
  rw [crop_spec _ _ _ _ _ h1]
  unfold rollArr
  rw [Arr.getD_ofFn _ _ _ _ h2]
example : (postMap (⟨[4], #[10, 11, 12, 13]⟩ : Arr Int) [-1] .same [4] [2] [3] 0).map (·.toList) = some [12, 13] := by decide

/-- per axis the rolled index is `postSrc` -/
theorem rollIdx_cons (N : Nat) (Ns : List Nat) (s : Int) (ss : List Int) (st t : Nat) (is : List Nat) :
    rollIdx (N :: Ns) (s :: ss) ((st + t) :: is) = postSrc N s st t :: rollIdx Ns ss is := rfl
example : rollIdx [7, 4] [2, -1] [1 + 3, 0 + 2] = [postSrc 7 2 1 3, postSrc 4 (-1) 0 2] := by decide


/-- n-D, template fits, with or without Fourier padding, `same` crop: the planner's shift and planned shape give
C01's `rawPos` (premise of C01's `implCorr_same`) -/
theorem fourierPadding_frame_same_fits (pad : Bool) (tg tp : List Nat) (bm : List Bool) (t : List Int)
    (h : NoBatch tg tp bm) (ht : FitsAt pad tg tp t) :
    Pm.C01.frameIdx (fourierPadding tg tp bm pad).fast (fourierPadding tg tp bm pad).shift
      (Pm.C01.sameCrops pad tg tp) t = Pm.C01.rawPos tp t := by
  rw [fourierPadding_shift_fits tg tp bm pad h (fitsAt_fits pad tg tp t ht),
    (fourierPadding_shapes tg tp bm pad).2.1, fourierPadding_conv_eq_C01 tg tp bm pad h]
  refine (Pm.C01.frame_same pad tg tp _ t ?_).1
  clear h
  induction tg generalizing tp t with
  | nil => cases tp <;> cases t <;> first | trivial | cases ht
  | cons n ns ih =>
    cases tp with
    | nil => cases ht
    | cons m ms =>
      cases t with
      | nil => cases ht
      | cons t ts =>
        obtain ⟨⟨hm, hmn, h0, h1, hw⟩, hr⟩ := ht
        exact ⟨⟨hm, hmn, le_nextFastLen _, h0, h1, hw⟩, ih ms ts hr⟩
example : FitsAt false [8, 5] [3, 2] [5, 1] := by
  refine ⟨⟨by decide, by decide, by decide, by decide, fun _ => by decide⟩, ⟨by decide, by decide, by decide, by decide, fun _ => by decide⟩, trivial⟩

/-- n-D, `valid` crop: output voxel `j` reads C01's `rawPos` of translation `validT j` (premise of `implCorr_valid`) -/
theorem fourierPadding_frame_valid (pad : Bool) (tg tp : List Nat) (bm : List Bool) (j : List Int)
    (h : NoBatch tg tp bm) (hj : ValidAt tg tp j) :
    Pm.C01.frameIdx (fourierPadding tg tp bm pad).fast (fourierPadding tg tp bm pad).shift
      (Pm.C01.validCrops pad tg tp) j = Pm.C01.rawPos tp (Pm.C01.validT tp j) := by
  rw [fourierPadding_shift_fits tg tp bm pad h (validAt_fits tg tp j hj),
    (fourierPadding_shapes tg tp bm pad).2.1, fourierPadding_conv_eq_C01 tg tp bm pad h]
  refine (Pm.C01.frame_valid pad tg tp _ j ?_).1
  clear h
  induction tg generalizing tp j with
  | nil => cases tp <;> cases j <;> first | trivial | cases hj
  | cons n ns ih =>
    cases tp with
    | nil => cases hj
    | cons m ms =>
      cases j with
      | nil => cases hj
      | cons j js =>
        obtain ⟨⟨hm, hmn, h0, h1⟩, hr⟩ := hj
        exact ⟨⟨hm, hmn, le_nextFastLen _, h0, h1⟩, ih ms js hr⟩
example : ValidAt [8, 5] [3, 2] [5, 1] := by
  refine ⟨⟨by decide, by decide, by decide, by decide⟩, ⟨by decide, by decide, by decide, by decide⟩, trivial⟩

/-- **array level, every pair of shapes, full Fourier padding, `same` mode** — the executable pipeline
`roll(shift) → [:conv] → centre crop` applied to a raw map `a` with the shift vector computed by the vector code of
`_fourier_padding` (gate `g`): the result has the target's shape and its voxel `t` is the raw voxel
`t + (m-1)/2` on every axis (the template's centre voxel placed at `t`), whether or not the template is larger than the
target on some axes. -/
theorem postMap_same_pad {α : Type} (a : Arr α) (d : α) (g : Bool) (tg tp : List Nat) (bm : List Bool) (t : List Nat)
    (h : NoBatch tg tp bm) (hg : SomeLarger tg tp → g = true) (hok : SamePadOk tg tp a.shape t) :
    ∃ r, postMap a (zip3With (shiftAxis true g) tg tp bm) .same (padConv tg tp) tg tp d = some r ∧
      r.shape = tg ∧ r.getD t d = a.getD (List.zipWith (fun t m => t + (m - 1) / 2) t tp) d := by
  obtain ⟨e1, e2, e3, e4, e5⟩ := same_pad_lists g tg tp bm a.shape t h hg hok
  have hb := convCrops_same_pad tg tp a.shape t hok
  obtain ⟨r, hr, hv⟩ := postMap_spec a (zip3With (shiftAxis true g) tg tp bm) .same (padConv tg tp) tg tp d _ hb t
    (by rw [e5]; exact e3) (by rw [e4]; exact e2)
  refine ⟨r, hr, ?_, ?_⟩
  · unfold postMap at hr
    rw [hb] at hr
    simp only [Option.some.injEq] at hr
    rw [← hr, e5]; rfl
  · rw [hv, e4, e1]
example : SamePadOk [5, 8] [7, 3] [13, 10] [4, 0] := by
  refine ⟨⟨by decide, by decide, by decide, by decide⟩, ⟨by decide, by decide, by decide, by decide⟩, trivial⟩

/-- … in particular for the planned shape and the shift vector `_fourier_padding` itself returns -/
theorem postMap_fourierPadding_same {α : Type} (a : Arr α) (d : α) (tg tp : List Nat) (bm : List Bool) (t : List Nat)
    (h : NoBatch tg tp bm) (hok : SamePadOk tg tp a.shape t) :
    ∃ r, postMap a (fourierPadding tg tp bm true).shift .same (padConv tg tp) tg tp d = some r ∧
      r.shape = tg ∧ r.getD t d = a.getD (List.zipWith (fun t m => t + (m - 1) / 2) t tp) d :=
  postMap_same_pad a d _ tg tp bm t h (anyNeg_of_someLarger tg tp bm h) hok
example : NoBatch [5, 8] [7, 3] [false, false] ∧ SamePadOk [5, 8] [7, 3] [13, 10] [4, 0] :=
  ⟨⟨rfl, rfl, trivial⟩, ⟨by decide, by decide, by decide, by decide⟩, ⟨by decide, by decide, by decide, by decide⟩, trivial⟩

/-- and `padConv` is the `conv_shape` it returns -/
theorem fourierPadding_conv_pad (tg tp : List Nat) (bm : List Bool) (h : NoBatch tg tp bm) :
    (fourierPadding tg tp bm true).conv = padConv tg tp := by
  rw [fourierPadding_conv_eq_C01 tg tp bm true h]
  unfold padConv Pm.C01.convLen
  simp
example : (postMap (Arr.ofFn [13] (fun i => (i.getD 0 0 : Nat))) (fourierPadding [5] [7] [false] true).shift .same
    (padConv [5] [7]) [5] [7] 0).map (·.toList) = some [3, 4, 5, 6, 7] := by decide



/-- **array level, `valid` mode, with or without Fourier padding, template fits (batch axes allowed)**: the result has
shape `n - m + m%2` per axis and its voxel `j` is the raw voxel `j + m/2 + (m-1)/2` — translation `j + m/2` in C01's frame -/
theorem postMap_valid {α : Type} (a : Arr α) (d : α) (pad g : Bool) (tg tp : List Nat) (bm : List Bool) (j : List Nat)
    (hok : ValidOkN pad tg tp bm a.shape j) :
    ∃ r, postMap a (zip3With (shiftAxis pad g) tg tp bm) .valid (convOf pad tg tp) tg tp d = some r ∧
      r.shape = validExts tg tp ∧
      r.getD j d = a.getD (List.zipWith (fun j m => j + m / 2 + (m - 1) / 2) j tp) d := by
  obtain ⟨hf, hb⟩ := valid_facts pad g hok
  exact axisFacts_read a d .valid (convOf pad tg tp) tg tp hf hb
example : ValidOkN true [8, 5] [3, 2] [false, false] [10, 6] [5, 1] :=
  .cons (by decide) (by decide) (by decide) (by decide) (.cons (by decide) (by decide) (by decide) (by decide) .nil)
example : (postMap (Arr.ofFn [10] (fun i => (i.getD 0 0 : Nat))) (fourierPadding [8] [3] [false] true).shift .valid
    (convOf true [8] [3]) [8] [3] 0).map (·.toList) = some [2, 3, 4, 5, 6, 7] := by decide

/-- **array level, `same` mode without Fourier padding, template fits**: the result has the target's shape and every voxel
whose window lies inside the target is the raw voxel `t + (m-1)/2` -/
theorem postMap_same_nopad {α : Type} (a : Arr α) (d : α) (g : Bool) (tg tp : List Nat) (bm : List Bool) (t : List Nat)
    (hok : SameNoPadOk tg tp bm a.shape t) :
    ∃ r, postMap a (zip3With (shiftAxis false g) tg tp bm) .same tg tg tp d = some r ∧
      r.shape = tg ∧ r.getD t d = a.getD (List.zipWith (fun t m => t + (m - 1) / 2) t tp) d := by
  obtain ⟨hf, hb⟩ := same_nopad_facts g hok
  exact axisFacts_read a d .same tg tg tp hf hb
example : SameNoPadOk [8, 5] [3, 2] [false, false] [8, 5] [5, 1] :=
  .cons (by decide) (by decide) (by decide) (by decide) (by decide)
    (.cons (by decide) (by decide) (by decide) (by decide) (by decide) .nil)

/-- the convolution shape used there is the one `_fourier_padding` returns -/
theorem fourierPadding_conv_convOf (tg tp : List Nat) (bm : List Bool) (pad : Bool) (h : NoBatch tg tp bm) :
    (fourierPadding tg tp bm pad).conv = convOf pad tg tp := fourierPadding_conv_eq_C01 tg tp bm pad h
example : (fourierPadding [5, 8] [7, 3] [false, false] false).conv = convOf false [5, 8] [7, 3] := by decide

/-- C04's model of the analyzer post-processing reads the same source index as this model (roll undone after the crop start is added) -/
theorem C04_postSrc_eq_rollIdx : ∀ (shape : List Nat) (shift : List Int) (starts idx : List Nat),
    Pm.C04.postSrc shape shift starts idx = rollIdx shape shift (List.zipWith (· + ·) starts idx)
  | [], _, _, _ => by simp [Pm.C04.postSrc, rollIdx, zip3With]
  | _ :: _, [], _, _ => by simp [Pm.C04.postSrc, rollIdx, zip3With]
  | _ :: _, _ :: _, [], _ => by simp [Pm.C04.postSrc, rollIdx, zip3With]
  | _ :: _, _ :: _, _ :: _, [] => by simp [Pm.C04.postSrc, rollIdx, zip3With]
  | n :: ns, s :: ss, st :: sts, i :: is => by
    have ih := C04_postSrc_eq_rollIdx ns ss sts is
    unfold rollIdx at ih ⊢
    simp only [Pm.C04.postSrc, List.zipWith_cons_cons, zip3With, ih, Nat.add_comm i st]
example : Pm.C04.postSrc [7, 4] [2, -1] [1, 0] [3, 2] = rollIdx [7, 4] [2, -1] [1 + 3, 0 + 2] := by decide

/-- … hence C04's post-processed array is this model's `crop ∘ roll`, voxel for voxel -/
theorem C04_postArr_eq (a : Arr Int) (shift : List Int) (starts exts idx : List Nat)
    (h1 : inShape exts idx = true) (h2 : inShape a.shape (List.zipWith (· + ·) starts idx) = true) :
    (Pm.C04.postArr a shift starts exts).getD idx 0 = (crop (rollArr a shift 0) starts exts 0).getD idx 0 := by
  unfold Pm.C04.postArr
  rw [Arr.getD_ofFn _ _ _ _ h1, crop_spec _ _ _ _ _ h1]
  unfold rollArr
  rw [Arr.getD_ofFn _ _ _ _ h2, C04_postSrc_eq_rollIdx]
example : (Pm.C04.postArr (⟨[5], #[1, 2, 3, 4, 5]⟩ : Arr Int) [1] [1] [3]).toList
    = (crop (rollArr (⟨[5], #[1, 2, 3, 4, 5]⟩ : Arr Int) [1] 0) [1] [3] 0).toList := by decide

/-! ## modular roll: composition, inverse, range -/

/-- rolling by `s'` and then by `s` is rolling by `s + s'` (per axis, any signs, any size of the shifts) -/
theorem roll_compose (N : Nat) (s s' : Int) (i : Nat) (hN : 0 < N) :
    rollSrc N s (rollSrc N s' i) = rollSrc N (s + s') i := rollSrc_rollSrc N s s' i hN
example : rollSrc 7 (-2) (rollSrc 7 16 3) = rollSrc 7 14 3 := by decide

/-- n-D: the source index of two successive rolls is the source index of one roll by the summed shift vector;
a rolled index stays inside the array; rolling by zero reads the voxel itself -/
theorem rollIdx_compose (shape : List Nat) (s s' : List Int) (idx : List Nat) (h : inShape shape idx = true)
    (h1 : s.length = shape.length) (h2 : s'.length = shape.length) :
    rollIdx shape s (rollIdx shape s' idx) = rollIdx shape (List.zipWith (· + ·) s s') idx ∧
    inShape shape (rollIdx shape s idx) = true ∧
    rollIdx shape (shape.map fun _ => (0 : Int)) idx = idx :=
  ⟨rollIdx_rollIdx shape s s' idx h h1 h2, rollIdx_inShape shape s idx h h1, rollIdx_zero shape idx h⟩
example : rollIdx [4, 5] [1, -2] (rollIdx [4, 5] [-1, 2] [3, 0]) = [3, 0] := by decide

/-- array level: rolling back undoes the roll (`roll(roll(a, s), -s) = a`), voxel for voxel -/
theorem rollArr_inverse {α : Type} (a : Arr α) (s : List Int) (d : α) (idx : List Nat)
    (h : inShape a.shape idx = true) (hs : s.length = a.shape.length) :
    (rollArr (rollArr a s d) (s.map (- ·)) d).getD idx d = a.getD idx d := by
  have hl : (s.map (- ·)).length = a.shape.length := by simpa using hs
  have h' := rollIdx_inShape a.shape (s.map (- ·)) idx h hl
  show (Arr.ofFn a.shape _).getD idx d = _
  rw [Arr.getD_ofFn _ _ _ _ h]
  show (Arr.ofFn a.shape _).getD (rollIdx a.shape (s.map (- ·)) idx) d = _
  rw [Arr.getD_ofFn _ _ _ _ h', rollIdx_rollIdx a.shape s (s.map (- ·)) idx h hs hl]
  have : List.zipWith (· + ·) s (s.map (- ·)) = a.shape.map fun _ => (0 : Int) := by
    clear h h' hl
    generalize a.shape = sh at hs
    induction s generalizing sh with
    | nil => cases sh <;> simp_all
    | cons x xs ih =>
      cases sh with
      | nil => simp at hs
      | cons y ys =>
        simp only [List.map_cons, List.zipWith_cons_cons]
        rw [ih ys (by simpa using hs)]
        simp
  rw [this, rollIdx_zero a.shape idx h]
example : (rollArr (rollArr (⟨[5], #[1, 2, 3, 4, 5]⟩ : Arr Int) [2] 0) [-2] 0).toList = [1, 2, 3, 4, 5] := by decide

/-- `full` mode with a zero shift reads the raw map unchanged -/
theorem postSrc_full (N t : Nat) (h : t < N) : postSrc N 0 0 t = t := by
  unfold postSrc; rw [Nat.zero_add]; exact rollSrc_zero N t h
example : postSrc 10 0 0 7 = 7 := by decide

/-- closed form of the template-larger-than-target correction with full padding: the shift is the difference of the
`same` crop start in the enlarged convolution shape and the template's half width -/
theorem shiftAxis_larger_closed (n m : Nat) (h : n < m) :
    shiftAxis true true n m false = (((2 * m - 1 - n) / 2 : Nat) : Int) - (((m - 1) / 2 : Nat) : Int) :=
  shiftAxis_larger_pad n m h
example : shiftAxis true true 5 7 false = 1 ∧ shiftAxis true true 4 7 false = 1 ∧ shiftAxis true true 4 8 false = 2 := by decide

/-- all four results have one entry per axis -/
theorem fourierPadding_lengths (tg tp : List Nat) (bm : List Bool) (pad : Bool) (h : NoBatch tg tp bm) :
    (fourierPadding tg tp bm pad).conv.length = tg.length ∧ (fourierPadding tg tp bm pad).fast.length = tg.length ∧
    (fourierPadding tg tp bm pad).shift.length = tg.length := by
  have hc : (fourierPadding tg tp bm pad).conv.length = tg.length := by
    rw [fourierPadding_conv_eq_C01 tg tp bm pad h]
    induction tg generalizing tp bm with
    | nil => simp
    | cons n ns ih =>
      cases tp with
      | nil => cases bm <;> cases h
      | cons m ms =>
        cases bm with
        | nil => cases h
        | cons b bs => simp only [List.zipWith_cons_cons, List.length_cons]; rw [ih ms bs h.2]
  refine ⟨hc, by rw [(fourierPadding_shapes tg tp bm pad).2.1, List.length_map, hc], ?_⟩
  rw [fourierPadding_shift_eq_C01 tg tp bm pad h]
  clear hc
  induction tg generalizing tp bm with
  | nil => cases tp <;> simp [Pm.C01.shiftsOfFull]
  | cons n ns ih =>
    cases tp with
    | nil => cases bm <;> cases h
    | cons m ms =>
      cases bm with
      | nil => cases h
      | cons b bs => simp only [Pm.C01.shiftsOfFull, List.length_cons]; rw [ih ms bs h.2]
example : (fourierPadding [5, 8, 4] [7, 3, 2] [false, false, false] true).shift.length = 3 := by decide

/-! ## `apply_convolution_mode`: the cropping form and the masking form agree on the kept box -/

theorem centeredBox_hit : ∀ (cur new idx : List Nat), List.Forall₂ (fun c n => n ≤ c) cur new →
    inShape new idx = true →
    inBox (List.zipWith (fun c n => ((c - n) / 2, (c - n) / 2 + n)) cur new)
      (List.zipWith (· + ·) (List.zipWith (fun c n => (c - n) / 2) cur new) idx) = true ∧
    inShape cur (List.zipWith (· + ·) (List.zipWith (fun c n => (c - n) / 2) cur new) idx) = true
  | [], [], [], _, _ => by simp [inBox, inShape]
  | c :: cs, n :: ns, i :: is, .cons hcn hr, hi => by
    rw [inShape_cons] at hi
    obtain ⟨ih1, ih2⟩ := centeredBox_hit cs ns is hr hi.2
    simp only [List.zipWith_cons_cons]
    rw [inBox_cons, inShape_cons]
    exact ⟨⟨by omega, by omega, ih1⟩, by omega, ih2⟩
  | [], [], _ :: _, _, hi => by simp [inShape] at hi
  | _ :: _, _ :: _, [], _, hi => by simp [inShape] at hi
example : List.Forall₂ (fun c n => n ≤ c) [9, 6] [4, 6] ∧ inShape [4, 6] [3, 5] = true :=
  ⟨.cons (by decide) (.cons (by decide) .nil), by decide⟩

/-- **both forms of `apply_convolution_mode` agree**: inside the centre box the masking form (`mask_output=True`,
shape kept, rest zeroed) holds exactly the values the cropping form returns, voxel for voxel -/
theorem mask_agrees_crop (a : Arr Int) (new idx : List Nat) (h : List.Forall₂ (fun c n => n ≤ c) a.shape new)
    (hi : inShape new idx = true) :
    (centeredMask a new).getD (List.zipWith (· + ·) (List.zipWith (fun c n => (c - n) / 2) a.shape new) idx) 0
      = (crop a (List.zipWith (fun c n => (c - n) / 2) a.shape new) new 0).getD idx 0 := by
  obtain ⟨hb, hs⟩ := centeredBox_hit a.shape new idx h hi
  rw [centeredMask_spec a new _ hs, centeredBox_eq a.shape new h, hb, crop_spec _ _ _ _ _ hi]
  simp
example : (centeredMask (⟨[5], #[5,6,7,8,9]⟩ : Arr Int) [2]).getD [1 + 1] 0 = (crop (⟨[5], #[5,6,7,8,9]⟩ : Arr Int) [1] [2] 0).getD [1] 0 := by decide



theorem zipWith_zero_add : ∀ (conv idx : List Nat), idx.length ≤ conv.length →
    List.zipWith (· + ·) (conv.map fun _ => 0) idx = idx
  | _, [], _ => by simp
  | [], _ :: _, h => by simp at h
  | c :: cs, i :: is, h => by
    simp only [List.map_cons, List.zipWith_cons_cons, Nat.zero_add]
    rw [zipWith_zero_add cs is (by simpa using h)]
example : List.zipWith (· + ·) ([5, 6, 7].map fun _ => 0) [2, 3] = [2, 3] := by decide

/-- the leading-corner cut to the convolution shape reads the array itself -/
theorem convCut_spec (a : Arr Int) (conv idx : List Nat) (h : inShape (List.zipWith min conv a.shape) idx = true) :
    (crop a (conv.map fun _ => 0) (List.zipWith min conv a.shape) 0).getD idx 0 = a.getD idx 0 := by
  rw [crop_spec _ _ _ _ _ h, zipWith_zero_add]
  have := inShape_length h
  rw [this, List.length_zipWith]
  omega
example : (crop (⟨[6], #[1, 2, 3, 4, 5, 6]⟩ : Arr Int) [0] [5] 0).getD [4] 0 = 5 := by decide

/-- **masking form, all three modes**: the result has the shape of the array cut to the convolution shape; `full` keeps
every value, `same` / `valid` keep the values inside the centre box of the mode and zero the rest -/
theorem convMask_spec (mode : Mode) (a : Arr Int) (conv s1 s2 idx : List Nat)
    (h : inShape (List.zipWith min conv a.shape) idx = true)
    (hv : mode = .valid → (List.zipWith validLen s1 s2).any (· < 0) = false) :
    ∃ r, convMask mode a conv s1 s2 = some r ∧ r.shape = List.zipWith min conv a.shape ∧
      r.getD idx 0 = match mode with
        | .full => a.getD idx 0
        | .same => if inBox (centeredBox (List.zipWith min conv a.shape) s1) idx then a.getD idx 0 else 0
        | .valid => if inBox (centeredBox (List.zipWith min conv a.shape)
            ((List.zipWith validLen s1 s2).map Int.toNat)) idx then a.getD idx 0 else 0 := by
  have hc := convCut_spec a conv idx h
  cases mode with
  | full => exact ⟨_, rfl, rfl, hc⟩
  | same =>
    refine ⟨_, rfl, rfl, ?_⟩
    rw [centeredMask_spec _ _ _ h, hc]; rfl
  | valid =>
    have hv' := hv rfl
    refine ⟨centeredMask (crop a (conv.map fun _ => 0) (List.zipWith min conv a.shape) 0)
      ((List.zipWith validLen s1 s2).map Int.toNat), ?_, rfl, ?_⟩
    · unfold convMask; simp [hv']
    · rw [centeredMask_spec _ _ _ h, hc]; rfl
example : (convMask .same (⟨[6], #[1, 2, 3, 4, 5, 6]⟩ : Arr Int) [5] [3] [3]).map (·.toList) = some [0, 2, 3, 4, 0] := by decide

/-! ## `topk_indices` -/

/-- accepted exactly when `k` does not exceed the number of elements (and there is an element) -/
theorem topkFlat_isSome (vals : List Int) (k : Nat) :
    (topkFlat vals k).isSome = true ↔ k ≤ vals.length ∧ 0 < vals.length := by
  unfold topkFlat
  by_cases h : vals.length < k ∨ vals.length = 0
  · rw [if_pos h]; simp only [Option.isSome_none, Bool.false_eq_true, false_iff]; omega
  · rw [if_neg h]; simp only [Option.isSome_some, true_iff]; omega
example : topkFlat [3, 1, 2] 4 = none ∧ (topkFlat [3, 1, 2] 3).isSome = true := by decide

/-- `k` positions are returned, all different, all inside the array -/
theorem topkFlat_positions (vals : List Int) (k : Nat) (fl : List Nat) (h : topkFlat vals k = some fl) :
    fl.length = k ∧ fl.Nodup ∧ ∀ i ∈ fl, i < vals.length := by
  obtain ⟨rfl, hk, _⟩ := topkFlat_eq vals k fl h
  refine ⟨by rw [List.length_map, topkPairs_length vals k hk], topkPairs_nodup vals k, ?_⟩
  intro i hi
  obtain ⟨p, hp, rfl⟩ := List.mem_map.mp hi
  have := topkPairs_mem vals k p hp
  exact (List.getElem?_eq_some_iff.mp this).1
example : topkFlat [3, 9, 9, 0] 2 = some [1, 2] := by
  simp [topkFlat, valIdx, geVal, List.mergeSort, List.zipIdx, List.MergeSort.Internal.splitInTwo]

/-- the values at the returned positions are in descending order (largest first) -/
theorem topkFlat_sorted (vals : List Int) (k : Nat) (fl : List Nat) (h : topkFlat vals k = some fl) :
    (fl.map fun i => vals.getD i 0).Pairwise (fun a b => b ≤ a) := by
  obtain ⟨rfl, _, _⟩ := topkFlat_eq vals k fl h
  rw [List.map_map, List.pairwise_map]
  refine (List.Pairwise.and_mem.mp (topkPairs_sorted vals k)).imp ?_
  rintro a b ⟨ha, hb, hab⟩
  have ea := topkPairs_mem vals k a ha
  have eb := topkPairs_mem vals k b hb
  simp only [Function.comp, List.getD_eq_getElem?_getD, ea, eb, Option.getD_some]
  exact hab
example : topkFlat [3, 1, 2] 3 = some [0, 2, 1] := by
  simp [topkFlat, valIdx, geVal, List.mergeSort, List.zipIdx, List.MergeSort.Internal.splitInTwo]

/-- **the `k` largest**: no position that was left out holds a value above any returned one (ties included) -/
theorem topkFlat_dominates (vals : List Int) (k : Nat) (fl : List Nat) (h : topkFlat vals k = some fl)
    (i : Nat) (hi : i ∈ fl) (j : Nat) (hj : j < vals.length) (hn : j ∉ fl) :
    vals.getD j 0 ≤ vals.getD i 0 := by
  obtain ⟨rfl, _, _⟩ := topkFlat_eq vals k fl h
  obtain ⟨p, hp, rfl⟩ := List.mem_map.mp hi
  have ep := topkPairs_mem vals k p hp
  have ej : vals[j]? = some vals[j] := List.getElem?_eq_getElem hj
  have := topkPairs_dominates vals k p hp j vals[j] ej hn
  simp only [List.getD_eq_getElem?_getD, ep, ej, Option.getD_some]
  exact this
example : topkFlat [3, 1, 2, 3] 2 = some [0, 3] := by
  simp [topkFlat, valIdx, geVal, List.mergeSort, List.zipIdx, List.MergeSort.Internal.splitInTwo]

/-- the n-D result lists, per axis, the unravelled coordinates of those flat positions -/
theorem topkIndices_spec (a : Arr Int) (k : Nat) (fl : List Nat) (h : topkFlat a.toList k = some fl) :
    topkIndices a k = some ((List.range a.shape.length).map fun ax => fl.map fun f => (unflat a.shape f).getD ax 0) := by
  unfold topkIndices; rw [h]; rfl
example : ∃ fl, topkFlat (⟨[2, 3], #[3, 1, 2, 9, 8, 0]⟩ : Arr Int).toList 2 = some fl :=
  Option.isSome_iff_exists.mp ((topkFlat_isSome _ _).mpr (by decide))

/-! ## `indices` -/

theorem indicesArr_spec (shape : List Nat) (a : Nat) (idx : List Nat) (d : Nat)
    (h : inShape (shape.length :: shape) (a :: idx) = true) :
    (indicesArr shape).getD (a :: idx) d = idx.getD a 0 := by
  unfold indicesArr
  rw [Arr.getD_ofFn _ _ _ _ h]
example : (indicesArr [2, 3]).toList = [0, 0, 0, 1, 1, 1, 0, 1, 2, 0, 1, 2] := by decide

/-! ## `center_of_mass` with integer weights: numerator and denominator of the rational coordinate -/

/-- per axis the result is (Σ w·x, Σ w) over the voxels that pass the cutoff -/
theorem centerOfMass_spec (a : Arr Int) (cut : Option Int) (ax : Nat) (h : ax < a.shape.length) :
    (centerOfMass a cut)[ax]? = some (wMoment cut (axisEntries a ax), wSum cut (axisEntries a ax)) := by
  unfold centerOfMass
  simp [List.getElem?_map, List.getElem?_range h]
example : centerOfMass (⟨[2, 2], #[1, 2, 3, 4]⟩ : Arr Int) none = [(7, 10), (6, 10)] := by decide

/-- cutoff semantics: voxels at or below the cutoff contribute nothing — same as leaving them out -/
theorem centerOfMass_cutoff (c : Int) (es : List (Nat × Int)) :
    wSum (some c) es = wSum none (es.filter fun e => decide (c < e.2)) ∧
    wMoment (some c) es = wMoment none (es.filter fun e => decide (c < e.2)) :=
  ⟨wSum_cut c es, wMoment_cut c es⟩
example : centerOfMass (⟨[2, 2], #[1, 2, 3, 4]⟩ : Arr Int) (some 2) = [(7, 7), (4, 7)] := by decide

/-- **translation covariance**: moving every point by `s` moves the centre of mass by `s`
(`num' / den' = num / den + s` as `num' = num + s · den`, `den' = den`) -/
theorem centerOfMass_translate (cut : Option Int) (s : Nat) (es : List (Nat × Int)) :
    wSum cut (shiftEntries s es) = wSum cut es ∧
    wMoment cut (shiftEntries s es) = wMoment cut es + (s : Int) * wSum cut es :=
  ⟨wSum_shift cut s es, wMoment_shift cut s es⟩
example : wMoment none (shiftEntries 3 [(0, 2), (4, 1)]) = wMoment none [(0, 2), (4, 1)] + 3 * wSum none [(0, 2), (4, 1)] := by decide

/-- scale invariance: multiplying every weight by `q` multiplies numerator and denominator by `q` -/
theorem centerOfMass_scale (q : Int) (es : List (Nat × Int)) :
    wSum none (scaleEntries q es) = q * wSum none es ∧ wMoment none (scaleEntries q es) = q * wMoment none es :=
  ⟨wSum_scale q es, wMoment_scale q es⟩
example : wMoment none (scaleEntries 3 [(0, 2), (4, 1)]) = 3 * wMoment none [(0, 2), (4, 1)] := by decide

/-- with a non-negative cutoff (the searches use `cutoff = 0`) the centre of mass lies between the smallest and the
largest coordinate: `lo · den ≤ num ≤ hi · den` -/
theorem centerOfMass_in_hull (c : Int) (hc : 0 ≤ c) (lo hi : Nat) (es : List (Nat × Int))
    (h : ∀ e ∈ es, lo ≤ e.1 ∧ e.1 ≤ hi) :
    (lo : Int) * wSum (some c) es ≤ wMoment (some c) es ∧ wMoment (some c) es ≤ (hi : Int) * wSum (some c) es :=
  wMoment_bounds (some c) lo hi es (fun e he => ⟨(h e he).1, (h e he).2, keepW_nonneg c e.2 hc⟩)
example : ∀ e ∈ [((0 : Nat), (2 : Int)), (4, 1)], 0 ≤ e.1 ∧ e.1 ≤ 4 := by decide

/-! ## `max_filter_coordinates` -/

/-- a voxel is reported exactly when it lies in the array and no voxel of its (border-clamped) window exceeds it -/
theorem mem_maxFilterCoordinates (a : Arr Int) (s : Nat) (idx : List Nat) :
    idx ∈ maxFilterCoordinates a s ↔
      inShape a.shape idx = true ∧ ∀ j ∈ windowIdx a.shape s idx, a.getD j 0 ≤ a.getD idx 0 := by
  unfold maxFilterCoordinates isPeak
  rw [List.mem_filter, mem_allIdx, List.all_eq_true]
  simp only [decide_eq_true_eq]
example : maxFilterCoordinates (⟨[6], #[1, 3, 2, 3, 0, 5]⟩ : Arr Int) 2 = [[0], [1], [3], [5]] := by decide

/-- a global maximum is always reported -/
theorem globalMax_reported (a : Arr Int) (s : Nat) (idx : List Nat) (h : inShape a.shape idx = true)
    (hmax : ∀ j, a.getD j 0 ≤ a.getD idx 0) : idx ∈ maxFilterCoordinates a s :=
  (mem_maxFilterCoordinates a s idx).mpr ⟨h, fun j _ => hmax j⟩
example : [5] ∈ maxFilterCoordinates (⟨[6], #[1, 3, 2, 3, 0, 5]⟩ : Arr Int) 4 := by decide

/-- the window of a voxel contains the voxel itself and stays inside the array (`mode="nearest"`):
a reported voxel holds the maximum of its window -/
theorem window_self_and_inside (shape idx : List Nat) (s : Nat) (hs : 0 < s) (h : inShape shape idx = true) :
    idx ∈ windowIdx shape s idx ∧ ∀ j ∈ windowIdx shape s idx, inShape shape j = true :=
  ⟨self_mem_windowIdx s hs shape idx h, fun j hj => windowIdx_inShape s shape idx j h hj⟩
example : windowIdx [6] 3 [0] = [[0], [0], [1]] ∧ windowIdx [6] 2 [5] = [[4], [5]] := by decide


/-- two voxels within Chebyshev distance `(s-1)/2` lie in each other's window, so **two reported voxels that close hold
the same score**: distinct reported scores are more than `(s-1)/2` apart -/
theorem reported_near_equal (a : Arr Int) (s : Nat) (hs : 0 < s) (p q : List Nat)
    (hp : p ∈ maxFilterCoordinates a s) (hq : q ∈ maxFilterCoordinates a s) (hn : Near ((s - 1) / 2) p q) :
    a.getD p 0 = a.getD q 0 := by
  obtain ⟨hp1, hp2⟩ := (mem_maxFilterCoordinates a s p).mp hp
  obtain ⟨hq1, hq2⟩ := (mem_maxFilterCoordinates a s q).mp hq
  have h1 := hp2 q (mem_windowIdx_of_near s hs a.shape p q hp1 hq1 hn)
  have h2 := hq2 p (mem_windowIdx_of_near s hs a.shape q p hq1 hp1 (near_symm _ p q hn))
  omega
example : Near ((3 - 1) / 2) [1, 4] [2, 3] := ⟨⟨by decide, by decide⟩, ⟨by decide, by decide⟩, trivial⟩

/-! ## `_rigid_transform_matrix` (integer part) -/

/-- **composition law**: the affine map the matrix stands for is "rotate about the centre, then translate":
`R⁻¹ x + (c - t - R⁻¹ c) = R⁻¹ (x - c) + c - t`, any dimension -/
theorem rigidApply_eq (rinv : List (List Int)) (c t x : List Int) (hx : x.length = c.length) :
    rigidApply rinv c t x
      = zip3With (fun v ci ti => v + ci - ti) (matVec rinv (List.zipWith (· - ·) x c)) c t := by
  unfold rigidApply rigidOffset matVec
  exact rigidApply_aux x c hx rinv t c
example : rigidApply [[0, 1], [-1, 0]] [3, 4] [1, 2] [5, 6] = [4, 0] := by decide

/-- the centre is a fixed point up to the translation: `x = c ↦ c - t` -/
theorem rigidApply_center (rinv : List (List Int)) (c t : List Int) :
    rigidApply rinv c t c = zip3With (fun v ci ti => v + ci - ti) (matVec rinv (List.zipWith (· - ·) c c)) c t :=
  rigidApply_eq rinv c t c rfl
example : rigidApply [[0, 1], [-1, 0]] [3, 4] [1, 2] [3, 4] = [2, 2] := by decide

/-- the homogeneous matrix the code multiplies together, 2-D: linear part `R⁻¹`, last column the offset -/
theorem rigidMatrix_2d (a b c d c0 c1 t0 t1 : Int) :
    rigidMatrix [[a, b], [c, d]] [c0, c1] [t0, t1]
      = [[a, b, -t0 + c0 - (a * c0 + b * c1)], [c, d, -t1 + c1 - (c * c0 + d * c1)], [0, 0, 1]] := by
  simp [rigidMatrix, matMul, identM, translM, linM, List.range, List.range.loop]
  refine ⟨?_, ?_⟩ <;> ring
example : rigidMatrix [[0, 1], [-1, 0]] [3, 4] [1, 2] = [[0, 1, -2], [-1, 0, 5], [0, 0, 1]] := by decide

/-- … and 3-D -/
theorem rigidMatrix_3d' (a b c d e f g h i c0 c1 c2 t0 t1 t2 : Int) :
    rigidMatrix [[a, b, c], [d, e, f], [g, h, i]] [c0, c1, c2] [t0, t1, t2]
      = [[a, b, c, -t0 + c0 - (a * c0 + b * c1 + c * c2)], [d, e, f, -t1 + c1 - (d * c0 + e * c1 + f * c2)],
         [g, h, i, -t2 + c2 - (g * c0 + h * c1 + i * c2)], [0, 0, 0, 1]] :=
  rigidMatrix_3d a b c d e f g h i c0 c1 c2 t0 t1 t2
example : rigidMatrix [[0, 1, 0], [-1, 0, 0], [0, 0, 1]] [3, 4, 5] [1, 2, 0] = [[0, 1, 0, -2], [-1, 0, 0, 5], [0, 0, 1, 0], [0, 0, 0, 1]] := by decide

/-- the last column of the matrix the code builds is the offset vector of the affine map (2-D and 3-D) -/
theorem rigidMatrix_offset_2d (a b c d c0 c1 t0 t1 : Int) :
    ((rigidMatrix [[a, b], [c, d]] [c0, c1] [t0, t1]).take 2).map (·.getD 2 0)
      = rigidOffset [[a, b], [c, d]] [c0, c1] [t0, t1] := by
  rw [rigidMatrix_2d]
  simp [rigidOffset, matVec, dot, zip3With]
example : rigidOffset [[0, 1], [-1, 0]] [3, 4] [1, 2] = [-2, 5] := by decide


/-- composition law, 2-D: two rigid maps about the same centre compose to the rigid map with the product rotation and
translation `t + R₁⁻¹ u` -/
theorem rigidApply_compose_2d (a b c d e f g h c0 c1 t0 t1 u0 u1 x0 x1 : Int) :
    rigidApply [[a, b], [c, d]] [c0, c1] [t0, t1] (rigidApply [[e, f], [g, h]] [c0, c1] [u0, u1] [x0, x1])
      = rigidApply [[a * e + b * g, a * f + b * h], [c * e + d * g, c * f + d * h]] [c0, c1]
          [t0 + (a * u0 + b * u1), t1 + (c * u0 + d * u1)] [x0, x1] := by
  simp [rigidApply, rigidOffset, matVec, dot, zip3With]
  constructor <;> ring
example : rigidApply [[0, 1], [-1, 0]] [3, 4] [1, 2] (rigidApply [[1, 1], [0, 1]] [3, 4] [2, 0] [5, 6]) = [4, 0] := by decide

theorem rigidApply_compose_3d (a b c d e f g h i a' b' c' d' e' f' g' h' i' c0 c1 c2 t0 t1 t2 u0 u1 u2 x0 x1 x2 : Int) :
    rigidApply [[a, b, c], [d, e, f], [g, h, i]] [c0, c1, c2] [t0, t1, t2]
        (rigidApply [[a', b', c'], [d', e', f'], [g', h', i']] [c0, c1, c2] [u0, u1, u2] [x0, x1, x2])
      = rigidApply [[a * a' + b * d' + c * g', a * b' + b * e' + c * h', a * c' + b * f' + c * i'],
                    [d * a' + e * d' + f * g', d * b' + e * e' + f * h', d * c' + e * f' + f * i'],
                    [g * a' + h * d' + i * g', g * b' + h * e' + i * h', g * c' + h * f' + i * i']] [c0, c1, c2]
          [t0 + (a * u0 + b * u1 + c * u2), t1 + (d * u0 + e * u1 + f * u2), t2 + (g * u0 + h * u1 + i * u2)] [x0, x1, x2] := by
  simp [rigidApply, rigidOffset, matVec, dot, zip3With]
  refine ⟨?_, ?_, ?_⟩ <;> ring
example : rigidApply [[0, 1], [-1, 0]] [3, 4] [1, 2] (rigidApply [[0, 1], [-1, 0]] [3, 4] [0, 0] [5, 6]) = [0, 0] := by decide

/-! ## `build_fft`: shapes and axes of the two plans -/

/-- default call: the forward plan reads the planned real shape and writes its half spectrum, the inverse plan reads
that half spectrum and writes the planned real shape, both over all axes -/
theorem buildFft_default (fast : List Nat) :
    buildFft fast (fastFtShape fast) none
      = some ⟨fast, fastFtShape fast, List.range fast.length, fastFtShape fast, fast, List.range fast.length⟩ := by
  simp [buildFft]
example : buildFft [6, 7] [6, 4] none = some ⟨[6, 7], [6, 4], [0, 1], [6, 4], [6, 7], [0, 1]⟩ := by decide

/-- an explicit inverse shape is accepted exactly when its half spectrum is the complex buffer's shape -/
theorem buildFft_isSome (fast ft : List Nat) (inverse : Option (List Nat)) :
    (buildFft fast ft inverse).isSome = true ↔ fastFtShape (inverse.getD fast) = ft := by
  unfold buildFft
  simp only
  split <;> simp_all
example : (buildFft [6, 7] [6, 4] (some [6, 6])).isSome = true ∧ (buildFft [6, 7] [6, 4] (some [6, 8])).isSome = false := by decide

/-- the even and the odd real length that share a half spectrum are *both* accepted as inverse shape — the complex
buffer alone does not determine the real shape, which is why `build_fft` passes `s = inverse_fast_shape` explicitly -/
theorem buildFft_both_parities (init : List Nat) (h : Nat) (hh : 1 ≤ h) :
    (buildFft (init ++ [2 * h]) (init ++ [h + 1]) (some (init ++ [2 * h]))).isSome = true ∧
    (buildFft (init ++ [2 * h]) (init ++ [h + 1]) (some (init ++ [2 * h + 1]))).isSome = true := by
  rw [buildFft_isSome, buildFft_isSome]
  simp only [Option.getD_some, fastFtShape_snoc]
  constructor <;> congr 2 <;> omega
example : (buildFft [6, 6] [6, 4] (some [6, 7])).map (·.invOut) = some [6, 7] ∧ buildFft [6, 6] [6, 4] (some [6, 8]) = none := by decide

/-! ## shared-memory hand-off as a (buffer, shape, item size) triple -/

/-- **round trip**: whatever the size of the block the OS hands out (`slack` extra bytes), reading
`prod(shape) · itemsize` bytes from its start returns the array's bytes -/
theorem fromShared_toShared (shape : List Nat) (itemsize : Nat) (bytes : List Nat) (slack : Nat)
    (h : bytes.length = prodL shape * itemsize) :
    fromShared (toShared shape itemsize bytes slack) = bytes := by
  unfold fromShared toShared
  simp only
  rw [← h, List.take_left']
  rfl
example : fromShared (toShared [2, 1] 2 [1, 2, 3, 4] 4092) = [1, 2, 3, 4] := by decide

/-- shape and item size travel unchanged -/
theorem toShared_meta (shape : List Nat) (itemsize : Nat) (bytes : List Nat) (slack : Nat) :
    (toShared shape itemsize bytes slack).shape = shape ∧ (toShared shape itemsize bytes slack).itemsize = itemsize ∧
    (toShared shape itemsize bytes slack).buf.length = bytes.length + slack := by
  simp [toShared]

/-! ## non-vacuity -/
example : nextFastLen 17 = 18 ∧ nextFastLen 23 = 24 ∧ nextFastLen 11 = 11 := by decide
example : convCrop .valid (convLen 10 4) 10 4 = some (3, 6) := by decide
example : convCrop .same (convLen 10 5) 10 5 = some (2, 10) := by decide
example : (topleftPad (⟨[2,2], #[1,2,3,4]⟩ : Arr Int) [3,3] 9).toList = [1,2,9,3,4,9,9,9,9] := by decide
example : centerStart 9 4 = 2 ∧ centerStop 9 4 = 6 := by decide
example : centeredBox [9, 6, 5] [4, 6, 2] = [(2, 6), (0, 6), (1, 3)] := by decide
example : convCrop .same 16 10 5 = some (3, 10) := by decide
example : (centeredMask (⟨[4], #[5,6,7,8]⟩ : Arr Int) [2]).toList = [0,6,7,0] := by decide

/-! ## deepen8: symmetry, ordering of the mode extents, identity crops -/

/-- the per-axis convolution extent does not depend on the order of the two shapes -/
theorem convLen_comm (a b : Nat) : convLen a b = convLen b a := by
  unfold convLen; omega

/-- `compute_convolution_shapes`: the convolution shape is symmetric in its two arguments -/
theorem convShape_comm : ∀ (s1 s2 : List Nat), convShape s1 s2 = convShape s2 s1
  | [], [] => rfl
  | [], _ :: _ => rfl
  | _ :: _, [] => rfl
  | a :: as, b :: bs => by
    have ih := convShape_comm as bs
    simp only [convShape, List.zipWith_cons_cons] at ih ⊢
    rw [ih, convLen_comm]

/-- the planned (fast) shape has one entry per common axis -/
theorem fastShape_length (s1 s2 : List Nat) : (fastShape s1 s2).length = min s1.length s2.length := by
  simp [fastShape, convShape]

/-- the half spectrum is never empty, and never longer than the real axis once that has two samples -/
theorem halfLen_bounds (n : Nat) (h : 2 ≤ n) : 1 ≤ halfLen n ∧ halfLen n ≤ n := by
  unfold halfLen; omega

/-- a longer real axis never has a shorter half spectrum -/
theorem halfLen_mono (a b : Nat) (h : a ≤ b) : halfLen a ≤ halfLen b := by
  unfold halfLen; omega

/-- crop extents are ordered `valid ≤ same ≤ full`; `valid` is never negative when the template fits and keeps at
least one sample when it is strictly smaller or odd (an even template of the target's size leaves none) -/
theorem mode_extents_ordered (s1 s2 : Nat) (h2 : 1 ≤ s2) (h : s2 ≤ s1) :
    0 ≤ validLen s1 s2 ∧ (s2 < s1 ∨ s2 % 2 = 1 → 1 ≤ validLen s1 s2) ∧ validLen s1 s2 ≤ (s1 : Int) ∧ s1 ≤ convLen s1 s2 := by
  unfold validLen convLen; omega

example : 1 ≤ validLen 10 4 ∧ validLen 10 4 ≤ (10 : Int) ∧ 10 ≤ convLen 10 4 ∧ validLen 4 4 = 0 := by decide

/-- `valid` extent in closed form: `s1 - s2 + 1` for an odd template, `s1 - s2` for an even one -/
theorem validLen_parity (s1 s2 : Nat) :
    (s2 % 2 = 1 → validLen s1 s2 = (s1 : Int) - s2 + 1) ∧ (s2 % 2 = 0 → validLen s1 s2 = (s1 : Int) - s2) := by
  unfold validLen; omega

/-- the centre slice of the full extent is the whole axis (start 0, stop `n`) -/
theorem centerSlice_self (n : Nat) : centerStart n n = 0 ∧ centerStop n n = n := by
  unfold centerStop centerStart; omega

/-- centre of a centre: the two nested offsets add up to the direct offset, short by at most the one sample lost
when both differences are odd; exact when either difference is even -/
theorem centerStart_compose (c b a : Nat) (h1 : a ≤ b) (h2 : b ≤ c) :
    centerStart c b + centerStart b a ≤ centerStart c a ∧ centerStart c a ≤ centerStart c b + centerStart b a + 1 ∧
    ((c - b) % 2 = 0 ∨ (b - a) % 2 = 0 → centerStart c b + centerStart b a = centerStart c a) := by
  unfold centerStart; omega

example : centerStart 9 5 + centerStart 5 3 = centerStart 9 3 := by decide

/-- the margins left and right of the centre slice differ by at most one sample, the surplus on the right -/
theorem centerSlice_margins (cur new : Nat) (h : new ≤ cur) :
    0 ≤ centerStart cur new ∧ centerStart cur new ≤ (cur : Int) - centerStop cur new ∧
    (cur : Int) - centerStop cur new ≤ centerStart cur new + 1 := by
  unfold centerStop centerStart; omega


/-! ## the transform pair the helpers plan for is an inverse pair (exact arithmetic, every shape) -/

/-- **Round trip of the planned transform, for every shape, parity and dimension.**  For the separable n-D DFT on a box
(primitive root of unity and invertible length per axis — ℂ), the un-normalised inverse transform of the transform
returns `|box| ·` the array at every voxel: what `irfftn(rfftn(x)) = x` means before rounding, for odd and even
extents alike.  (That pyFFTW computes this pair, and the half-spectrum storage of `rfftn`, are exercised by Leg B.) -/
theorem fft_roundtrip_nd {K : Type} [Field K] (Ns : List Nat) (ωs : List K) (hp : Pm.C01.RootsPrim Ns ωs)
    (F : List Int → K) (js : List Nat) (hjs : inShape Ns js = true) :
    Pm.C01.idftS Ns ωs (fun ks => Pm.C01.dftS Ns ωs F ks) js = Pm.C01.boxCard Ns * F (Pm.C01.natsToInts js) :=
  Pm.C01.idftS_dftS Ns ωs hp F js hjs

end Pm.C13
