import PytmeModel.Model.C15
import PytmeModel.Proofs.C15
import PytmeModel.Proofs.C15Nd
import PytmeModel.Proofs.C15Geo
import Mathlib.Tactic.Ring
import Mathlib.Tactic.Linarith

/-! # C15 — Density box operations preserve the physical position of every voxel -/
namespace Pm.C15

/-! ## one axis of `adjust_box` -/

/-- **extents** — for a box whose stop is not negative the new axis has exactly the requested
extent `max (stop - start) 0` (negative starts, stops beyond the data, empty and inverted boxes). -/
theorem adjustAxis_extent (n : Nat) (start stop : Int) (h : 0 ≤ stop) :
    ((adjustAxis n start stop).newLen : Int) = max (stop - start) 0 :=
  adjustAxis_newLen n start stop h

/-- **data** — `new[j] = old[j + start]` when that index exists, the pad value otherwise. -/
theorem adjustAxis_data (n : Nat) (start stop : Int) (h : 0 ≤ stop) (j : Nat)
    (hj : j < (adjustAxis n start stop).newLen) :
    (adjustAxis n start stop).srcOf j =
      if 0 ≤ (j : Int) + start ∧ (j : Int) + start < n then some ((j : Int) + start).toNat else none :=
  adjustAxis_srcOf n start stop h j hj

/-- a retained voxel always comes from index `j + start` of the old axis — for *every* box, also
the undocumented negative stops. -/
theorem adjustAxis_retained (n : Nat) (start stop : Int) (j s : Nat)
    (h : (adjustAxis n start stop).srcOf j = some s) : (s : Int) = j + start ∧ s < n :=
  adjustAxis_srcOf_some n start stop j s h

/-- **physical position, one axis** — with `origin' = origin + start·rate` the coordinate
`origin' + j·rate` of new index `j` is the coordinate `origin + (j+start)·rate` of its source. -/
theorem adjustBox_physical {β : Type} [CommRing β] (origin rate : β) (start j : Int) :
    (origin + (start : β) * rate) + (j : β) * rate = origin + ((j + start : Int) : β) * rate := by
  push_cast; ring

/-- what negative stops do today (documented as unsupported): `slice(-3,-1)` on 8 voxels keeps
them all and prepends 3 — extent 11, not 2. -/
theorem adjustAxis_negative_stop_quirk : (adjustAxis 8 (-3) (-1)).newLen = 10 := by decide

/-! ## n-D `adjust_box` -/

/-- shape of the result: per axis the requested extent -/
theorem adjustData_shape {α : Type} (a : Arr α) (box : Box) (pad : α) :
    (adjustData a box pad).shape = (plans a.shape box).map AxisPlan.newLen := rfl

theorem adjustBox_extents {α : Type} (a : Arr α) (box : Box) (pad : α)
    (hlen : box.length = a.shape.length) (hstop : ∀ b ∈ box, 0 ≤ b.2) :
    (adjustData a box pad).shape = box.map (fun b => (max (b.2 - b.1) 0).toNat) :=
  adjustData_shape_eq a box pad hlen hstop

/-- **values inside are conserved, new voxels hold the pad value** (n-D): reading the result at
`idx` gives the old array at `idx + start` if that voxel exists, else the pad value. -/
theorem adjustBox_data {α : Type} (a : Arr α) (box : Box) (pad d : α) (idx : List Nat)
    (hlen : box.length = a.shape.length) (hstop : ∀ b ∈ box, 0 ≤ b.2)
    (hin : inShape (adjustData a box pad).shape idx = true) :
    (adjustData a box pad).getD idx d = readSrc a pad (shiftIdx a.shape box idx) := by
  rw [adjustData_getD a box pad d idx hin, srcIdx_eq_shiftIdx a.shape box idx hlen hstop hin]

/-- the shifted index of the specification really is `idx + start`, inside the old array -/
theorem shiftIdx_spec (shape : List Nat) (box : Box) (idx s : List Nat)
    (h : shiftIdx shape box idx = some s) :
    inShape shape s = true ∧ s.map (fun (x : Nat) => (x : Int)) = List.zipWith (fun (j : Nat) (b : Int × Int) => (j : Int) + b.1) idx box :=
  shiftIdx_some shape box idx s h

/-- conversely every old voxel whose index lies inside the box is found in the result
(nothing inside is lost) -/
theorem adjustBox_conserves {α : Type} (a : Arr α) (box : Box) (pad d : α) (s : List Nat)
    (hlen : box.length = a.shape.length) (hstop : ∀ b ∈ box, 0 ≤ b.2)
    (hs : inShape a.shape s = true)
    (hbox : List.Forall₂ (fun (x : Nat) (b : Int × Int) => b.1 ≤ (x : Int) ∧ (x : Int) < b.2) s box) :
    ∃ idx, inShape (adjustData a box pad).shape idx = true ∧
      idx.map (fun (x : Nat) => (x : Int)) = List.zipWith (fun (x : Nat) (b : Int × Int) => (x : Int) - b.1) s box ∧
      (adjustData a box pad).getD idx d = a.getD s pad :=
  adjustData_conserves a box pad d s hlen hstop hs hbox

/-- conservation and position together: an old voxel inside the box is found in the result with its
value, at its physical coordinate -/
theorem adjustBox_conserves_physical {α β : Type} [CommRing β] (d : Dens α β) (box : Box) (pad dflt : α)
    (s : List Nat) (hlen : box.length = d.data.shape.length) (hstop : ∀ b ∈ box, 0 ≤ b.2)
    (hs : inShape d.data.shape s = true)
    (hbox : List.Forall₂ (fun (x : Nat) (b : Int × Int) => b.1 ≤ (x : Int) ∧ (x : Int) < b.2) s box) :
    ∃ idx, inShape (d.adjustBox box pad).data.shape idx = true ∧
      (d.adjustBox box pad).data.getD idx dflt = d.data.getD s pad ∧
      phys (d.adjustBox box pad).frame idx = phys d.frame s :=
  adjustBox_conserves_phys d box pad dflt s hlen hstop hs hbox

/-- **physical position** (n-D, every box): a retained value sits at the physical coordinate it
had before — `origin' + idx·rate = origin + src·rate` on every axis. -/
theorem adjustBox_physical_nd {β : Type} [CommRing β] (shape : List Nat) (box : Box) (f : Frame β)
    (idx s : List Nat) (h : srcIdx (plans shape box) idx = some s) :
    phys (adjustFrame f box) idx = phys f s :=
  phys_adjust shape box f idx s h

/-- sampling rates are untouched -/
theorem adjustFrame_rate {β : Type} [CommRing β] (f : Frame β) (box : Box) (h : box.length = f.length) :
    (adjustFrame f box).map Prod.snd = f.map Prod.snd :=
  adjustFrame_snd f box h

/-! ## `pad` -/

/-- **pad: exactly the requested extent**, centred or appended, growing or shrinking -/
theorem pad_extents (center : Bool) (n new : Nat) :
    (adjustAxis n (padBoxAxis center n new).1 (padBoxAxis center n new).2).newLen = new :=
  pad_newLen center n new

/-- **centred split, growing**: `(new-n)/2` voxels in front, the rest behind; the extra voxel of an
odd difference goes behind. -/
theorem pad_centered_split (n new : Nat) (h : n ≤ new) :
    let p := adjustAxis n (padBoxAxis true n new).1 (padBoxAxis true n new).2
    p.left = (new - n) / 2 ∧ p.right = (new - n) - (new - n) / 2 ∧ p.len = n ∧ p.src = 0 ∧
      p.left ≤ p.right ∧ p.right ≤ p.left + 1 :=
  pad_split_grow n new h

/-- **centred split, shrinking**: `⌈(n-new)/2⌉` voxels cut in front, `⌊(n-new)/2⌋` behind, nothing added -/
theorem pad_centered_split_shrink (n new : Nat) (h : new ≤ n) :
    let p := adjustAxis n (padBoxAxis true n new).1 (padBoxAxis true n new).2
    p.left = 0 ∧ p.right = 0 ∧ p.len = new ∧ p.src = (n - new + 1) / 2 :=
  pad_split_shrink n new h

/-- **appended**: data stays at index 0 -/
theorem pad_appended (n new : Nat) :
    let p := adjustAxis n (padBoxAxis false n new).1 (padBoxAxis false n new).2
    p.left = 0 ∧ p.src = 0 ∧ p.len = min n new ∧ p.right = new - n :=
  pad_append n new

/-- n-D: `pad` returns the requested shape -/
theorem pad_shape {α β : Type} [CommRing β] (d : Dens α β) (newShape : List Nat) (center : Bool) (v : α)
    (h : newShape.length = d.data.shape.length) :
    (d.pad newShape center v).data.shape = newShape :=
  pad_shape_eq d newShape center v h

/-! ## `trim_box` -/

/-- **a trim box contains every voxel above the cut-off** (any rank, any margin ≥ 0) -/
theorem trimBox_contains_above_cutoff {α : Type} [LT α] [DecidableLT α] (a : Arr α) (cutoff : α)
    (margin : Int) (box : Box) (idx : List Nat) (hm : 0 ≤ margin)
    (hbox : trimBox a cutoff margin = some box) (hin : inShape a.shape idx = true)
    (habove : cutoff < a.getD idx cutoff) :
    List.Forall₂ (fun (x : Nat) (b : Int × Int) => b.1 ≤ (x : Int) ∧ (x : Int) < b.2) idx box :=
  trimBox_contains a cutoff margin box idx hm hbox hin habove

/-- the trim box lies inside the data (so trimming is a pure crop) -/
theorem trimBox_inside {α : Type} [LT α] [DecidableLT α] (a : Arr α) (cutoff : α)
    (margin : Int) (box : Box) (hm : 0 ≤ margin) (hbox : trimBox a cutoff margin = some box) :
    List.Forall₂ (fun (n : Nat) (b : Int × Int) => 0 ≤ b.1 ∧ b.1 < b.2 ∧ b.2 ≤ (n : Int)) a.shape box :=
  trimBox_within a cutoff margin box hm hbox

/-- `trim_box` raises only if nothing is above the cut-off -/
theorem trimBox_returns_if_above {α : Type} [LT α] [DecidableLT α] (a : Arr α) (cutoff : α) (margin : Int)
    (idx : List Nat) (hin : inShape a.shape idx = true) (habove : cutoff < a.getD idx cutoff) :
    (trimBox a cutoff margin).isSome = true :=
  trimBox_isSome a cutoff margin idx hin habove

/-- **trimming keeps every voxel above the cut-off at its physical coordinate** (`adjust_box(trim_box(…))`) -/
theorem trim_keeps_above_cutoff {α β : Type} [LT α] [DecidableLT α] [CommRing β] (d : Dens α β)
    (cutoff pad dflt : α) (margin : Int) (box : Box) (idx : List Nat) (hm : 0 ≤ margin)
    (hbox : trimBox d.data cutoff margin = some box) (hin : inShape d.data.shape idx = true)
    (habove : cutoff < d.data.getD idx cutoff) :
    ∃ idx', inShape (d.adjustBox box pad).data.shape idx' = true ∧
      (d.adjustBox box pad).data.getD idx' dflt = d.data.getD idx pad ∧
      phys (d.adjustBox box pad).frame idx' = phys d.frame idx :=
  trim_keeps d cutoff pad dflt margin box idx hm hbox hin habove

/-! ## `minimum_enclosing_box` (cube side = recorded value with contract `side ≥ hi - lo + 1`) -/

theorem meboxAxis_contains (side lo hi : Nat) (hlh : lo ≤ hi) (hc : hi - lo + 1 ≤ side) :
    (meboxAxis side lo hi).1 ≤ lo ∧ (hi : Int) < (meboxAxis side lo hi).2 ∧
      (meboxAxis side lo hi).2 - (meboxAxis side lo hi).1 = side := by
  unfold meboxAxis; simp only; omega

/-- n-D: the enclosing box contains every voxel above the cut-off, for every recorded side that
satisfies the contract -/
theorem mebox_contains {α : Type} [LT α] [DecidableLT α] (a : Arr α) (cutoff : α) (side : Nat) (box : Box)
    (idx : List Nat) (hbox : mebox a cutoff side = some box)
    (hc : ∀ e, extentAux a cutoff 0 a.shape = some e → ∀ lh ∈ e, lh.2 - lh.1 + 1 ≤ side)
    (hin : inShape a.shape idx = true) (habove : cutoff < a.getD idx cutoff) :
    List.Forall₂ (fun (x : Nat) (b : Int × Int) => b.1 ≤ (x : Int) ∧ (x : Int) < b.2) idx box :=
  mebox_contains_aux a cutoff side box idx hbox hc hin habove

/-- `centered` pads to an odd extent that is at least the source box and the enclosing box -/
theorem centeredShape_axis (a b : Nat) :
    let m := max a b
    (m + (1 - m % 2)) % 2 = 1 ∧ a ≤ m + (1 - m % 2) ∧ b ≤ m + (1 - m % 2) :=
  centeredAxis_spec a b

/-! ## `resample` -/

/-- **extents implied by the ratio of sampling rates**: the returned extent is the integer nearest to
`n·a/b` (within one half) -/
theorem resample_shape (n a b : Nat) (hb : 0 < b) :
    2 * (n * a) ≤ 2 * (b * resampleLen n a b) + b ∧ 2 * (b * resampleLen n a b) ≤ 2 * (n * a) + b :=
  resampleLen_near n a b hb

/-- an exact ratio is returned exactly; in particular equal rates keep the extent -/
theorem resample_shape_exact (n a b : Nat) (hb : 0 < b) (k : Nat) (h : n * a = k * b) :
    resampleLen n a b = k :=
  resampleLen_exact n a b hb k h

theorem resample_rate {β : Type} (g : Geo β) (newRate : List Nat) : (resample g newRate).rate = newRate := rfl
theorem resample_origin {β : Type} (g : Geo β) (newRate : List Nat) : (resample g newRate).origin = g.origin := rfl

/-! ## histories of the geometry that contain resampling -/

/-- a box operation after any earlier operations (resamplings included) keeps every position of the
grid at its physical coordinate **under the rate then in force**: new index `i` has the coordinate of
old index `i + start` on every axis. -/
theorem geoStep_box_physical (g : Geo Int) (b : Box) (idx : List Int) :
    gphys (geoStep g (.box b)) idx = gphys g (List.zipWith (fun (i : Int) (p : Int × Int) => i + p.1) idx b) :=
  gphys_box g b idx

/-- a box operation yields the requested extents and leaves the rate alone; resampling keeps the origin and
records the new rate, whatever happened before -/
theorem geoStep_bookkeeping (g : Geo Int) (b : Box) (nr : List Nat) :
    (geoStep g (.box b)).shape = b.map (fun p => (max (p.2 - p.1) 0).toNat) ∧ (geoStep g (.box b)).rate = g.rate ∧
    (geoStep g (.resample nr)).origin = g.origin ∧ (geoStep g (.resample nr)).rate = nr ∧ geoStep g .copy = g :=
  ⟨rfl, rfl, rfl, rfl, rfl⟩

/-- **all sequences** of box operations and copies between two resamplings: a position of the final grid has
the physical coordinate of the position of the initial grid it is traced to (induction over the history) -/
theorem geoRun_physical (g : Geo Int) (ops : List GOp) (idx : List Int)
    (h : ∀ op ∈ ops, op.isResample = false) :
    gphys (geoRun g ops) idx = gphys g (gtrace ops idx) :=
  geoRun_gphys g ops idx h

/-- histories compose, so the statement above applies to every stretch between resamplings, starting from
the geometry the resampling left (`resample_origin`, `resample_rate`, `resample_shape`) -/
theorem geoRun_compose (g : Geo Int) (ops1 ops2 : List GOp) (nr : List Nat) :
    geoRun g (ops1 ++ .resample nr :: ops2) = geoRun (resample (geoRun g ops1) nr) ops2 := by
  rw [geoRun_append]; rfl

/-- after any history the recorded rate is the one asked for by the last resampling (the initial one if none) -/
theorem geoRun_rate (g : Geo Int) (ops : List GOp) : (geoRun g ops).rate = lastRate g.rate ops :=
  geoRun_rate_eq g ops

/-! ## per-axis arguments (`origin`, `sampling_rate`, `new_sampling_rate`) -/

/-- whatever is accepted has one entry per axis; a scalar is repeated, a full tuple kept -/
theorem broadcastAxes_spec {β : Type} (ndim : Nat) (l r : List β) (x : β) :
    (broadcastAxes ndim l = some r → r.length = ndim) ∧
    broadcastAxes ndim [x] = some (List.replicate ndim x) ∧
    (l ≠ [] → broadcastAxes l.length l = some l) :=
  ⟨broadcastAxes_length ndim l r, broadcastAxes_scalar ndim x, broadcastAxes_full l⟩

/-! ## histories -/

/-- **all sequences of operations**: whatever survives a history of box operations (adjust, pad,
trim, copy — any length) holds the value of the initial voxel it is traced to, and sits at that
voxel's physical coordinate. -/
theorem history_physical {α β : Type} [LT α] [DecidableLT α] [CommRing β]
    (ops : List (Op α)) (d d' : Dens α β) (idx idx0 : List Nat) (x : α)
    (hwf : d.data.data.size = prodL d.data.shape)
    (hrun : runFrom d ops = some d') (htr : traceFrom d ops idx = some idx0)
    (hin : inShape d'.data.shape idx = true) :
    d'.data.getD idx x = d.data.getD idx0 x ∧ phys d'.frame idx = phys d.frame idx0 ∧
      inShape d.data.shape idx0 = true :=
  history_trace ops d d' idx idx0 x hwf hrun htr hin

/-! ## copies -/

/-- **a copy shares no buffer with its source**: all four buffers are fresh, hold equal content,
and a write through any reference of one object is invisible through the other. -/
theorem copy_no_alias {γ : Type} [Inhabited γ] (h : Heap γ) (d : DRef) (hwf : ∀ r ∈ d.refs, r < h.cells.length) :
    let c := (copyD h d).2
    let h' := (copyD h d).1
    (∀ r ∈ c.refs, ∀ s ∈ d.refs, r ≠ s) ∧
    (h'.read c.data = h.read d.data ∧ h'.read c.origin = h.read d.origin ∧
      h'.read c.rate = h.read d.rate ∧ h'.read c.md = h.read d.md) ∧
    (∀ r ∈ c.refs, ∀ v, ∀ s ∈ d.refs, (h'.write r v).read s = h.read s) ∧
    (∀ s ∈ d.refs, ∀ v, ∀ r ∈ c.refs, (h'.write s v).read r = h'.read r) :=
  copyD_fresh h d hwf

/-- `Density.empty` likewise -/
theorem empty_no_alias {γ : Type} [Inhabited γ] (h : Heap γ) (d : DRef) (hwf : ∀ r ∈ d.refs, r < h.cells.length) :
    ∀ r ∈ (emptyD h d).2.refs, ∀ s ∈ d.refs, r ≠ s :=
  emptyD_fresh h d hwf

/-- whereas the constructor keeps the caller's data array (documented behaviour the harness pins) -/
theorem construct_keeps_data {γ : Type} [Inhabited γ] (h : Heap γ) (a b c e : Nat) :
    (construct h a b c e).2.data = a ∧ (construct h a b c e).2.md = e := by
  simp [construct, Heap.alloc]

/-! ## non-vacuity -/
example : adjustAxis 8 (-2) 5 = ⟨0, 5, 2, 0⟩ ∧ (adjustAxis 8 (-2) 5).newLen = 7 := by decide
example : adjustAxis 8 3 12 = ⟨3, 5, 0, 4⟩ ∧ (adjustAxis 8 9 12).newLen = 3 := by decide
example : (adjustAxis 8 (-2) 5).srcOf 1 = none ∧ (adjustAxis 8 (-2) 5).srcOf 2 = some 0 := by decide
example : (adjustData (⟨[2,2], #[1,2,3,4]⟩ : Arr Int) [(-1, 2), (1, 3)] 9).toList = [9,9,2,9,4,9] := by decide
example : padBoxAxis true 3 6 = (-1, 5) ∧ padBoxAxis true 5 2 = (2, 4) ∧ padBoxAxis false 3 6 = (0, 6) := by decide
example : trimBox (⟨[2,3], #[0,1,0,0,5,0]⟩ : Arr Int) 0 0 = some [(0,2),(1,2)] := by decide
example : trimBox (⟨[5], #[0,1,1,1,0]⟩ : Arr Int) 0 0 = some [(1,4)] ∧ trimBox (⟨[5], #[0,1,1,1,0]⟩ : Arr Int) 1 0 = none := by decide
example : meboxAxis 5 1 3 = (0, 5) ∧ meboxAxis 3 0 2 = (0, 3) := by decide
example : mebox (⟨[6], #[0,1,1,1,0,0]⟩ : Arr Int) 0 5 = some [(0, 5)] := by decide
example : centeredShape [6,7,5] [5,5,5] = [7,7,5] := by decide
example : broadcastAxes 3 [(7 : Int)] = some [7,7,7] ∧ broadcastAxes 3 [(1 : Int), 2] = none ∧
    broadcastAxes 2 [(1 : Int), 2] = some [1, 2] ∧ broadcastAxes 4 [(1 : Int), 2] = some [1,1,2,2] := by decide
example : resampleLen 11 2 4 = 6 ∧ resampleLen 5 3 6 = 2 ∧ resampleLen 11 2 1 = 22 := by decide
example : (copyD (⟨[10,11,12,13]⟩ : Heap Nat) ⟨0,1,2,3⟩).2 = ⟨4,7,8,6⟩ := by decide
example :
    let d : Dens Int Int := ⟨⟨[4], #[1,2,3,4]⟩, [(0, 1)]⟩
    let ops : List (Op Int) := [.adjust [(-1, 3)] 0, .pad [7] true (-1), .trim 1 0 0]
    (runFrom d ops).map (fun r => (r.data.toList, r.frame)) = some ([2,3], [(1,1)]) ∧
    traceFrom d ops [1] = some [2] := by decide


example :
    let g : Geo Int := ⟨[11, 11], [0, 0], [8, 8]⟩
    let ops : List GOp := [.resample [16, 4], .box [(-1, 4), (2, 30)], .copy, .resample [8, 4], .box [(1, 3), (0, 5)]]
    geoStates g ops = [⟨[6, 22], [0, 0], [16, 4]⟩, ⟨[5, 28], [-16, 8], [16, 4]⟩, ⟨[5, 28], [-16, 8], [16, 4]⟩,
                       ⟨[10, 28], [-16, 8], [8, 4]⟩, ⟨[2, 5], [-8, 8], [8, 4]⟩] ∧
    lastRate g.rate ops = [8, 4] := by decide
/-- the hypothesis of `geoRun_physical` is satisfiable by a history that moves the grid -/
example :
    let g : Geo Int := ⟨[6, 22], [0, 0], [16, 4]⟩
    let ops : List GOp := [.box [(-1, 4), (2, 30)], .copy, .box [(1, 3), (0, 5)]]
    (∀ op ∈ ops, op.isResample = false) ∧ gtrace ops [0, 0] = [0, 2] ∧ gphys (geoRun g ops) [0, 0] = [0, 8] := by decide

/-- hypotheses of `adjustBox_conserves_physical` are satisfiable: voxel `[0,1]` of a 2×2 array lies in
the box `[-1,2)×[1,3)` and is found again -/
example :
    let d : Dens Int Int := ⟨⟨[2,2], #[1,2,3,4]⟩, [(10, 2), (20, 3)]⟩
    ∃ idx, inShape (d.adjustBox [(-1, 2), (1, 3)] 9).data.shape idx = true ∧
      (d.adjustBox [(-1, 2), (1, 3)] 9).data.getD idx 0 = d.data.getD [0, 1] 9 ∧
      phys (d.adjustBox [(-1, 2), (1, 3)] 9).frame idx = phys d.frame [0, 1] :=
  adjustBox_conserves_physical _ _ _ _ [0, 1] rfl (by decide) (by decide)
    (List.Forall₂.cons ⟨by decide, by decide⟩ (List.Forall₂.cons ⟨by decide, by decide⟩ List.Forall₂.nil))

/-- hypotheses of the trim theorems are satisfiable -/
example :
    List.Forall₂ (fun (x : Nat) (b : Int × Int) => b.1 ≤ (x : Int) ∧ (x : Int) < b.2) [1, 1] [(0, 2), (1, 2)] :=
  trimBox_contains_above_cutoff (⟨[2,3], #[0,1,0,0,5,0]⟩ : Arr Int) 0 0 _ [1, 1] (by decide) (by decide) (by decide) (by decide)

/-- … and of `mebox_contains` (side 5 for a cloud of extent 3) -/
example :
    List.Forall₂ (fun (x : Nat) (b : Int × Int) => b.1 ≤ (x : Int) ∧ (x : Int) < b.2) [3] [(0, 5)] :=
  mebox_contains (⟨[6], #[0,1,1,1,0,0]⟩ : Arr Int) 0 5 _ [3] (by decide)
    (by intro e he; have : e = [(1, 3)] := by
          have h : extentAux (⟨[6], #[0,1,1,1,0,0]⟩ : Arr Int) 0 0 [6] = some [(1, 3)] := by decide
          rw [h] at he; exact (Option.some.inj he).symm
        subst this; intro lh hl; simp at hl; subst hl; decide)
    (by decide) (by decide)

/-- well-formedness hypothesis of `copy_no_alias` is satisfiable -/
example : ∀ r ∈ (⟨0, 1, 2, 3⟩ : DRef).refs, r < (⟨[10, 11, 12, 13]⟩ : Heap Nat).cells.length := by decide

end Pm.C15
