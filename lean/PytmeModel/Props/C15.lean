import PytmeModel.Model.C15
import PytmeModel.Proofs.C15
import PytmeModel.Proofs.C15Nd
import PytmeModel.Proofs.C15Geo
import PytmeModel.Proofs.C15Cloud
import Mathlib.Tactic.Ring
import Mathlib.Tactic.Linarith

/-! # C15 — Density box operations preserve the physical position of every voxel -/
namespace Pm.C15

/-! ## one axis of `adjust_box` -/

/-- **extents** — for a box whose stop is not negative the new axis has exactly the requested
extent `max (stop - start) 0` (negative starts, stops beyond the data, empty and inverted boxes). -/
theorem adjustAxis_extent (n : Nat) (start stop : Int) (h : 0 ≤ stop) :
    ((adjustAxis n start stop).newLen : Int) = max (stop - start) 0 :=
  adjustAxis_newLen n start stop h

/-- **data** — `new[j] = old[j + start]` when that index exists, the pad value otherwise. -/
theorem adjustAxis_data (n : Nat) (start stop : Int) (h : 0 ≤ stop) (j : Nat)
    (hj : j < (adjustAxis n start stop).newLen) :
    (adjustAxis n start stop).srcOf j =
      if 0 ≤ (j : Int) + start ∧ (j : Int) + start < n then some ((j : Int) + start).toNat else none :=
  adjustAxis_srcOf n start stop h j hj

/-- a retained voxel always comes from index `j + start` of the old axis — for *every* box, also
the undocumented negative stops. -/
theorem adjustAxis_retained (n : Nat) (start stop : Int) (j s : Nat)
    (h : (adjustAxis n start stop).srcOf j = some s) : (s : Int) = j + start ∧ s < n :=
  adjustAxis_srcOf_some n start stop j s h

/-- **physical position, one axis** — with `origin' = origin + start·rate` the coordinate
`origin' + j·rate` of new index `j` is the coordinate `origin + (j+start)·rate` of its source. -/
theorem adjustBox_physical {β : Type} [CommRing β] (origin rate : β) (start j : Int) :
    (origin + (start : β) * rate) + (j : β) * rate = origin + ((j + start : Int) : β) * rate := by
  push_cast; ring

/-- what negative stops do today (documented as unsupported): `slice(-3,-1)` on 8 voxels keeps
them all and prepends 3 — extent 11, not 2. -/
theorem adjustAxis_negative_stop_quirk : (adjustAxis 8 (-3) (-1)).newLen = 10 := by decide

/-! ## n-D `adjust_box` -/

/-- shape of the result: per axis the requested extent -/
theorem adjustData_shape {α : Type} (a : Arr α) (box : Box) (pad : α) :
    (adjustData a box pad).shape = (plans a.shape box).map AxisPlan.newLen := rfl

theorem adjustBox_extents {α : Type} (a : Arr α) (box : Box) (pad : α)
    (hlen : box.length = a.shape.length) (hstop : ∀ b ∈ box, 0 ≤ b.2) :
    (adjustData a box pad).shape = box.map (fun b => (max (b.2 - b.1) 0).toNat) :=
  adjustData_shape_eq a box pad hlen hstop

/-- **values inside are conserved, new voxels hold the pad value** (n-D): reading the result at
`idx` gives the old array at `idx + start` if that voxel exists, else the pad value. -/
theorem adjustBox_data {α : Type} (a : Arr α) (box : Box) (pad d : α) (idx : List Nat)
    (hlen : box.length = a.shape.length) (hstop : ∀ b ∈ box, 0 ≤ b.2)
    (hin : inShape (adjustData a box pad).shape idx = true) :
    (adjustData a box pad).getD idx d = readSrc a pad (shiftIdx a.shape box idx) := by
  rw [adjustData_getD a box pad d idx hin, srcIdx_eq_shiftIdx a.shape box idx hlen hstop hin]

/-- the shifted index of the specification really is `idx + start`, inside the old array -/
theorem shiftIdx_spec (shape : List Nat) (box : Box) (idx s : List Nat)
    (h : shiftIdx shape box idx = some s) :
    inShape shape s = true ∧ s.map (fun (x : Nat) => (x : Int)) = List.zipWith (fun (j : Nat) (b : Int × Int) => (j : Int) + b.1) idx box :=
  shiftIdx_some shape box idx s h

/-- conversely every old voxel whose index lies inside the box is found in the result
(nothing inside is lost) -/
theorem adjustBox_conserves {α : Type} (a : Arr α) (box : Box) (pad d : α) (s : List Nat)
    (hlen : box.length = a.shape.length) (hstop : ∀ b ∈ box, 0 ≤ b.2)
    (hs : inShape a.shape s = true)
    (hbox : List.Forall₂ (fun (x : Nat) (b : Int × Int) => b.1 ≤ (x : Int) ∧ (x : Int) < b.2) s box) :
    ∃ idx, inShape (adjustData a box pad).shape idx = true ∧
      idx.map (fun (x : Nat) => (x : Int)) = List.zipWith (fun (x : Nat) (b : Int × Int) => (x : Int) - b.1) s box ∧
      (adjustData a box pad).getD idx d = a.getD s pad :=
  adjustData_conserves a box pad d s hlen hstop hs hbox

/-- conservation and position together: an old voxel inside the box is found in the result with its
value, at its physical coordinate -/
theorem adjustBox_conserves_physical {α β : Type} [CommRing β] (d : Dens α β) (box : Box) (pad dflt : α)
    (s : List Nat) (hlen : box.length = d.data.shape.length) (hstop : ∀ b ∈ box, 0 ≤ b.2)
    (hs : inShape d.data.shape s = true)
    (hbox : List.Forall₂ (fun (x : Nat) (b : Int × Int) => b.1 ≤ (x : Int) ∧ (x : Int) < b.2) s box) :
    ∃ idx, inShape (d.adjustBox box pad).data.shape idx = true ∧
      (d.adjustBox box pad).data.getD idx dflt = d.data.getD s pad ∧
      phys (d.adjustBox box pad).frame idx = phys d.frame s :=
  adjustBox_conserves_phys d box pad dflt s hlen hstop hs hbox

/-- **physical position** (n-D, every box): a retained value sits at the physical coordinate it
had before — `origin' + idx·rate = origin + src·rate` on every axis. -/
theorem adjustBox_physical_nd {β : Type} [CommRing β] (shape : List Nat) (box : Box) (f : Frame β)
    (idx s : List Nat) (h : srcIdx (plans shape box) idx = some s) :
    phys (adjustFrame f box) idx = phys f s :=
  phys_adjust shape box f idx s h

/-- sampling rates are untouched -/
theorem adjustFrame_rate {β : Type} [CommRing β] (f : Frame β) (box : Box) (h : box.length = f.length) :
    (adjustFrame f box).map Prod.snd = f.map Prod.snd :=
  adjustFrame_snd f box h

/-! ## `pad` -/

/-- **pad: exactly the requested extent**, centred or appended, growing or shrinking -/
theorem pad_extents (center : Bool) (n new : Nat) :
    (adjustAxis n (padBoxAxis center n new).1 (padBoxAxis center n new).2).newLen = new :=
  pad_newLen center n new

/-- **centred split, growing**: `(new-n)/2` voxels in front, the rest behind; the extra voxel of an
odd difference goes behind. -/
theorem pad_centered_split (n new : Nat) (h : n ≤ new) :
    let p := adjustAxis n (padBoxAxis true n new).1 (padBoxAxis true n new).2
    p.left = (new - n) / 2 ∧ p.right = (new - n) - (new - n) / 2 ∧ p.len = n ∧ p.src = 0 ∧
      p.left ≤ p.right ∧ p.right ≤ p.left + 1 :=
  pad_split_grow n new h

/-- **centred split, shrinking**: `⌈(n-new)/2⌉` voxels cut in front, `⌊(n-new)/2⌋` behind, nothing added -/
theorem pad_centered_split_shrink (n new : Nat) (h : new ≤ n) :
    let p := adjustAxis n (padBoxAxis true n new).1 (padBoxAxis true n new).2
    p.left = 0 ∧ p.right = 0 ∧ p.len = new ∧ p.src = (n - new + 1) / 2 :=
  pad_split_shrink n new h

/-- **appended**: data stays at index 0 -/
theorem pad_appended (n new : Nat) :
    let p := adjustAxis n (padBoxAxis false n new).1 (padBoxAxis false n new).2
    p.left = 0 ∧ p.src = 0 ∧ p.len = min n new ∧ p.right = new - n :=
  pad_append n new

/-- n-D: `pad` returns the requested shape -/
theorem pad_shape {α β : Type} [CommRing β] (d : Dens α β) (newShape : List Nat) (center : Bool) (v : α)
    (h : newShape.length = d.data.shape.length) :
    (d.pad newShape center v).data.shape = newShape :=
  pad_shape_eq d newShape center v h

/-! ## `trim_box` -/

/-- **a trim box contains every voxel above the cut-off** (any rank, any margin ≥ 0) -/
theorem trimBox_contains_above_cutoff {α : Type} [LT α] [DecidableLT α] (a : Arr α) (cutoff : α)
    (margin : Int) (box : Box) (idx : List Nat) (hm : 0 ≤ margin)
    (hbox : trimBox a cutoff margin = some box) (hin : inShape a.shape idx = true)
    (habove : cutoff < a.getD idx cutoff) :
    List.Forall₂ (fun (x : Nat) (b : Int × Int) => b.1 ≤ (x : Int) ∧ (x : Int) < b.2) idx box :=
  trimBox_contains a cutoff margin box idx hm hbox hin habove

/-- the trim box lies inside the data (so trimming is a pure crop) -/
theorem trimBox_inside {α : Type} [LT α] [DecidableLT α] (a : Arr α) (cutoff : α)
    (margin : Int) (box : Box) (hm : 0 ≤ margin) (hbox : trimBox a cutoff margin = some box) :
    List.Forall₂ (fun (n : Nat) (b : Int × Int) => 0 ≤ b.1 ∧ b.1 < b.2 ∧ b.2 ≤ (n : Int)) a.shape box :=
  trimBox_within a cutoff margin box hm hbox

/-- `trim_box` raises only if nothing is above the cut-off -/
theorem trimBox_returns_if_above {α : Type} [LT α] [DecidableLT α] (a : Arr α) (cutoff : α) (margin : Int)
    (idx : List Nat) (hin : inShape a.shape idx = true) (habove : cutoff < a.getD idx cutoff) :
    (trimBox a cutoff margin).isSome = true :=
  trimBox_isSome a cutoff margin idx hin habove

/-- **trimming keeps every voxel above the cut-off at its physical coordinate** (`adjust_box(trim_box(…))`) -/
theorem trim_keeps_above_cutoff {α β : Type} [LT α] [DecidableLT α] [CommRing β] (d : Dens α β)
    (cutoff pad dflt : α) (margin : Int) (box : Box) (idx : List Nat) (hm : 0 ≤ margin)
    (hbox : trimBox d.data cutoff margin = some box) (hin : inShape d.data.shape idx = true)
    (habove : cutoff < d.data.getD idx cutoff) :
    ∃ idx', inShape (d.adjustBox box pad).data.shape idx' = true ∧
      (d.adjustBox box pad).data.getD idx' dflt = d.data.getD idx pad ∧
      phys (d.adjustBox box pad).frame idx' = phys d.frame idx :=
  trim_keeps d cutoff pad dflt margin box idx hm hbox hin habove

/-! ## `minimum_enclosing_box` (cube side = recorded value with contract `side ≥ hi - lo + 1`) -/

theorem meboxAxis_contains (side lo hi : Nat) (hlh : lo ≤ hi) (hc : hi - lo + 1 ≤ side) :
    (meboxAxis side lo hi).1 ≤ lo ∧ (hi : Int) < (meboxAxis side lo hi).2 ∧
      (meboxAxis side lo hi).2 - (meboxAxis side lo hi).1 = side := by
  unfold meboxAxis; simp only; omega

/-- n-D: the enclosing box contains every voxel above the cut-off, for every recorded side that
satisfies the contract -/
theorem mebox_contains {α : Type} [LT α] [DecidableLT α] (a : Arr α) (cutoff : α) (side : Nat) (box : Box)
    (idx : List Nat) (hbox : mebox a cutoff side = some box)
    (hc : ∀ e, extentAux a cutoff 0 a.shape = some e → ∀ lh ∈ e, lh.2 - lh.1 + 1 ≤ side)
    (hin : inShape a.shape idx = true) (habove : cutoff < a.getD idx cutoff) :
    List.Forall₂ (fun (x : Nat) (b : Int × Int) => b.1 ≤ (x : Int) ∧ (x : Int) < b.2) idx box :=
  mebox_contains_aux a cutoff side box idx hbox hc hin habove

/-- `centered` pads to an odd extent that is at least the source box and the enclosing box -/
theorem centeredShape_axis (a b : Nat) :
    let m := max a b
    (m + (1 - m % 2)) % 2 = 1 ∧ a ≤ m + (1 - m % 2) ∧ b ≤ m + (1 - m % 2) :=
  centeredAxis_spec a b

/-! ## `resample` -/

/-- **extents implied by the ratio of sampling rates**: the returned extent is the integer nearest to
`n·a/b` (within one half) -/
theorem resample_shape (n a b : Nat) (hb : 0 < b) :
    2 * (n * a) ≤ 2 * (b * resampleLen n a b) + b ∧ 2 * (b * resampleLen n a b) ≤ 2 * (n * a) + b :=
  resampleLen_near n a b hb

/-- an exact ratio is returned exactly; in particular equal rates keep the extent -/
theorem resample_shape_exact (n a b : Nat) (hb : 0 < b) (k : Nat) (h : n * a = k * b) :
    resampleLen n a b = k :=
  resampleLen_exact n a b hb k h

theorem resample_rate {β : Type} (g : Geo β) (newRate : List Nat) : (resample g newRate).rate = newRate := rfl
theorem resample_origin {β : Type} (g : Geo β) (newRate : List Nat) : (resample g newRate).origin = g.origin := rfl

/-! ## histories of the geometry that contain resampling -/

/-- a box operation after any earlier operations (resamplings included) keeps every position of the
grid at its physical coordinate **under the rate then in force**: new index `i` has the coordinate of
old index `i + start` on every axis. -/
theorem geoStep_box_physical (g : Geo Int) (b : Box) (idx : List Int) :
    gphys (geoStep g (.box b)) idx = gphys g (List.zipWith (fun (i : Int) (p : Int × Int) => i + p.1) idx b) :=
  gphys_box g b idx

/-- a box operation yields the requested extents and leaves the rate alone; resampling keeps the origin and
records the new rate, whatever happened before -/
theorem geoStep_bookkeeping (g : Geo Int) (b : Box) (nr : List Nat) :
    (geoStep g (.box b)).shape = b.map (fun p => (max (p.2 - p.1) 0).toNat) ∧ (geoStep g (.box b)).rate = g.rate ∧
    (geoStep g (.resample nr)).origin = g.origin ∧ (geoStep g (.resample nr)).rate = nr ∧ geoStep g .copy = g :=
  ⟨rfl, rfl, rfl, rfl, rfl⟩

/-- **all sequences** of box operations and copies between two resamplings: a position of the final grid has
the physical coordinate of the position of the initial grid it is traced to (induction over the history) -/
theorem geoRun_physical (g : Geo Int) (ops : List GOp) (idx : List Int)
    (h : ∀ op ∈ ops, op.isResample = false) :
    gphys (geoRun g ops) idx = gphys g (gtrace ops idx) :=
  geoRun_gphys g ops idx h

/-- histories compose, so the statement above applies to every stretch between resamplings, starting from
the geometry the resampling left (`resample_origin`, `resample_rate`, `resample_shape`) -/
theorem geoRun_compose (g : Geo Int) (ops1 ops2 : List GOp) (nr : List Nat) :
    geoRun g (ops1 ++ .resample nr :: ops2) = geoRun (resample (geoRun g ops1) nr) ops2 := by
  rw [geoRun_append]; rfl

/-- after any history the recorded rate is the one asked for by the last resampling (the initial one if none) -/
theorem geoRun_rate (g : Geo Int) (ops : List GOp) : (geoRun g ops).rate = lastRate g.rate ops :=
  geoRun_rate_eq g ops

/-! ## per-axis arguments (`origin`, `sampling_rate`, `new_sampling_rate`) -/

/-- whatever is accepted has one entry per axis; a scalar is repeated, a full tuple kept -/
theorem broadcastAxes_spec {β : Type} (ndim : Nat) (l r : List β) (x : β) :
    (broadcastAxes ndim l = some r → r.length = ndim) ∧
    broadcastAxes ndim [x] = some (List.replicate ndim x) ∧
    (l ≠ [] → broadcastAxes l.length l = some l) :=
  ⟨broadcastAxes_length ndim l r, broadcastAxes_scalar ndim x, broadcastAxes_full l⟩

/-- **the setters of an existing object skip the constructor's size test**: they store `np.repeat(x, ndim // x.size)` whatever its
length.  Whenever the constructor would accept the argument the setter stores the same per-axis values; the stored value has one
entry per axis exactly in those cases, otherwise it has `len·(ndim div len)` entries (an object the box operations cannot use) -/
theorem setterAxes_spec {β : Type} (ndim : Nat) (l r : List β) :
    (broadcastAxes ndim l = some r → setterAxes ndim l = some r) ∧
    (setterAxes ndim l = some r → (r.length = ndim ↔ broadcastAxes ndim l = some r)) ∧
    (setterAxes ndim l = some r → r.length = l.length * (ndim / l.length)) :=
  setterAxes_props ndim l r

/-! ## histories -/

/-- **all sequences of operations**: whatever survives a history of box operations (adjust, pad,
trim, copy — any length) holds the value of the initial voxel it is traced to, and sits at that
voxel's physical coordinate. -/
theorem history_physical {α β : Type} [LT α] [DecidableLT α] [CommRing β]
    (ops : List (Op α)) (d d' : Dens α β) (idx idx0 : List Nat) (x : α)
    (hwf : d.data.data.size = prodL d.data.shape)
    (hrun : runFrom d ops = some d') (htr : traceFrom d ops idx = some idx0)
    (hin : inShape d'.data.shape idx = true) :
    d'.data.getD idx x = d.data.getD idx0 x ∧ phys d'.frame idx = phys d.frame idx0 ∧
      inShape d.data.shape idx0 = true :=
  history_trace ops d d' idx idx0 x hwf hrun htr hin

/-! ## copies -/

/-- **a copy shares no buffer with its source**: all four buffers are fresh, hold equal content,
and a write through any reference of one object is invisible through the other. -/
theorem copy_no_alias {γ : Type} [Inhabited γ] (h : Heap γ) (d : DRef) (hwf : ∀ r ∈ d.refs, r < h.cells.length) :
    let c := (copyD h d).2
    let h' := (copyD h d).1
    (∀ r ∈ c.refs, ∀ s ∈ d.refs, r ≠ s) ∧
    (h'.read c.data = h.read d.data ∧ h'.read c.origin = h.read d.origin ∧
      h'.read c.rate = h.read d.rate ∧ h'.read c.md = h.read d.md) ∧
    (∀ r ∈ c.refs, ∀ v, ∀ s ∈ d.refs, (h'.write r v).read s = h.read s) ∧
    (∀ s ∈ d.refs, ∀ v, ∀ r ∈ c.refs, (h'.write s v).read r = h'.read r) :=
  copyD_fresh h d hwf

/-- `Density.empty` likewise -/
theorem empty_no_alias {γ : Type} [Inhabited γ] (h : Heap γ) (d : DRef) (hwf : ∀ r ∈ d.refs, r < h.cells.length) :
    ∀ r ∈ (emptyD h d).2.refs, ∀ s ∈ d.refs, r ≠ s :=
  emptyD_fresh h d hwf

/-- whereas the constructor keeps the caller's data array (documented behaviour the harness pins) -/
theorem construct_keeps_data {γ : Type} [Inhabited γ] (h : Heap γ) (a b c e : Nat) :
    (construct h a b c e).2.data = a ∧ (construct h a b c e).2.md = e := by
  simp [construct, Heap.alloc]

/-! ## `to_pointcloud` (deepen3) -/

/-- **`to_pointcloud(threshold)` lists exactly the voxels above the threshold** … -/
theorem toPointcloud_mem {α : Type} [LT α] [DecidableLT α] (a : Arr α) (thr : α) (idx : List Nat) :
    idx ∈ toPointcloud a thr ↔ inShape a.shape idx = true ∧ thr < a.getD idx thr :=
  toPointcloud_mem_iff a thr idx

/-- … each of them once -/
theorem toPointcloud_nodup {α : Type} [LT α] [DecidableLT α] (a : Arr α) (thr : α) : (toPointcloud a thr).Nodup :=
  toPointcloud_nodup' a thr

/-- **the point cloud moves with the box**: after `adjust_box` with a pad value that is not above the threshold
(every box, also negative stops) each point of the new cloud is a point of the old cloud, with the same value, at
the same physical coordinate `origin + index·rate` -/
theorem pointcloud_adjust_physical {α β : Type} [LT α] [DecidableLT α] [CommRing β] (d : Dens α β)
    (hwf : d.data.data.size = prodL d.data.shape) (box : Box) (pad thr : α) (hpad : ¬ thr < pad)
    (hlen : box.length = d.data.shape.length) (idx : List Nat)
    (h : idx ∈ toPointcloud (d.adjustBox box pad).data thr) :
    ∃ s ∈ toPointcloud d.data thr, (d.adjustBox box pad).data.getD idx thr = d.data.getD s thr ∧
      phys (d.adjustBox box pad).frame idx = phys d.frame s := by
  obtain ⟨s, hs, hmem, hv⟩ := cloud_adjust_sound d.data hwf box pad thr hpad hlen idx h
  exact ⟨s, hmem, hv, phys_adjust d.data.shape box d.frame idx s hs⟩

/-- … and conversely every point of the old cloud that lies inside the box is a point of the new cloud, same value,
same physical coordinate (nothing above the threshold is lost) -/
theorem pointcloud_adjust_complete {α β : Type} [LT α] [DecidableLT α] [CommRing β] (d : Dens α β)
    (hwf : d.data.data.size = prodL d.data.shape) (box : Box) (pad thr : α)
    (hlen : box.length = d.data.shape.length) (hstop : ∀ b ∈ box, 0 ≤ b.2) (s : List Nat)
    (hs : s ∈ toPointcloud d.data thr)
    (hbox : List.Forall₂ (fun (x : Nat) (b : Int × Int) => b.1 ≤ (x : Int) ∧ (x : Int) < b.2) s box) :
    ∃ idx ∈ toPointcloud (d.adjustBox box pad).data thr,
      (d.adjustBox box pad).data.getD idx thr = d.data.getD s thr ∧
      phys (d.adjustBox box pad).frame idx = phys d.frame s := by
  rw [toPointcloud_mem] at hs
  obtain ⟨idx, h1, h2, h3⟩ := adjustBox_conserves_phys d box pad thr s hlen hstop hs.1 hbox
  have e : d.data.getD s pad = d.data.getD s thr := getD_default_irrel d.data hwf s hs.1 pad thr
  refine ⟨idx, ?_, h2.trans e, h3⟩
  rw [toPointcloud_mem]
  exact ⟨h1, by rw [h2, e]; exact hs.2⟩

/-- **trimming keeps the whole point cloud**: every point above the cut-off is a point of the cloud of the trimmed
density, same value, same physical coordinate -/
theorem pointcloud_trim_complete {α β : Type} [LT α] [DecidableLT α] [CommRing β] (d : Dens α β)
    (hwf : d.data.data.size = prodL d.data.shape) (cutoff pad : α) (margin : Int) (box : Box) (hm : 0 ≤ margin)
    (hbox : trimBox d.data cutoff margin = some box) (s : List Nat) (hs : s ∈ toPointcloud d.data cutoff) :
    ∃ idx ∈ toPointcloud (d.adjustBox box pad).data cutoff,
      (d.adjustBox box pad).data.getD idx cutoff = d.data.getD s cutoff ∧
      phys (d.adjustBox box pad).frame idx = phys d.frame s := by
  have hs' := (toPointcloud_mem d.data cutoff s).mp hs
  have hw := trimBox_within d.data cutoff margin box hm hbox
  have hstop : ∀ b ∈ box, 0 ≤ b.2 :=
    forall₂_right_mem (P := fun b : Int × Int => 0 ≤ b.2) hw (fun n b h => by omega)
  exact pointcloud_adjust_complete d hwf box pad cutoff (trimBox_length d.data cutoff margin box hbox) hstop s hs
    (trimBox_contains d.data cutoff margin box s hm hbox hs'.1 hs'.2)

/-- **a growing `pad` keeps the whole point cloud**: for every target shape that is at least the source shape (centred or
appended) every point of the cloud is found again, same value, same physical coordinate -/
theorem pointcloud_pad_complete {α β : Type} [LT α] [DecidableLT α] [CommRing β] (d : Dens α β)
    (hwf : d.data.data.size = prodL d.data.shape) (newShape : List Nat) (center : Bool) (v thr : α)
    (hg : List.Forall₂ (fun n m => n ≤ m) d.data.shape newShape) (s : List Nat) (hs : s ∈ toPointcloud d.data thr) :
    ∃ idx ∈ toPointcloud (d.pad newShape center v).data thr,
      (d.pad newShape center v).data.getD idx thr = d.data.getD s thr ∧
      phys (d.pad newShape center v).frame idx = phys d.frame s :=
  pointcloud_adjust_complete d hwf _ v thr (padBox_length center d.data.shape newShape hg.length_eq.symm)
    (padBox_stop_nonneg center d.data.shape newShape hg) s hs
    (padBox_contains center d.data.shape newShape hg s ((toPointcloud_mem d.data thr s).mp hs).1)

/-- **the cloud is carried over one to one**: the points of the new cloud are sent to pairwise different points of the old
cloud (so, with `pointcloud_adjust_complete`, the new cloud is in bijection with the part of the old cloud inside the box) -/
theorem pointcloud_adjust_injective {α : Type} [LT α] [DecidableLT α] (a : Arr α) (box : Box) (i1 i2 s : List Nat)
    (h1 : srcIdx (plans a.shape box) i1 = some s) (h2 : srcIdx (plans a.shape box) i2 = some s) : i1 = i2 :=
  srcIdx_inj _ i1 i2 s h1 h2

/-! ## `empty` and the box bookkeeping of `rigid_transform` (which starts from `self.empty`) -/

/-- **`empty` keeps the box**: same extents, same origin and sampling rate (so every index keeps its physical
coordinate), every voxel zero; a new object whose data do not depend on the source's values -/
theorem empty_bookkeeping {α β : Type} [Zero α] [CommRing β] (d : Dens α β) :
    d.empty.data.shape = d.data.shape ∧ d.empty.frame = d.frame ∧
    (∀ idx, phys d.empty.frame idx = phys d.frame idx) ∧
    (∀ idx x, inShape d.data.shape idx = true → d.empty.data.getD idx x = 0) ∧
    d.empty.data.data.size = prodL d.data.shape :=
  ⟨rfl, rfl, fun _ => rfl, fun _ _ h => Arr.getD_ofFn _ _ _ _ h, Arr.size_ofFn _ _⟩

/-- the cloud of an empty density is empty -/
theorem empty_pointcloud {β : Type} (d : Dens Int β) : toPointcloud d.empty.data 0 = [] := by
  rw [List.eq_nil_iff_forall_not_mem]
  intro idx h
  rw [toPointcloud_mem] at h
  have := Arr.getD_ofFn d.data.shape idx (fun _ => (0 : Int)) 0 h.1
  have h2 := h.2
  simp only [Dens.empty] at h2
  rw [this] at h2
  exact absurd h2 (by decide)

/-! ## `center_of_mass` (integer data: exact fractions `comNum / comDen`) -/

/-- **cut-off semantics**: a voxel weighs its value if that is above the cut-off, else nothing; without a cut-off
every voxel weighs its value -/
theorem com_cutoff_semantics (a : Arr Int) (c : Int) (idx : List Nat) :
    comW a (some c) idx = (if c < a.getD idx 0 then a.getD idx 0 else 0) ∧ comW a none idx = a.getD idx 0 :=
  ⟨rfl, rfl⟩

/-- with a cut-off the sums run over the point cloud: `denominator = Σ_{p ∈ to_pointcloud(c)} data[p]`,
`numerator_ax = Σ_{p ∈ to_pointcloud(c)} data[p]·p[ax]` -/
theorem com_eq_cloud_sums (a : Arr Int) (hwf : a.data.size = prodL a.shape) (c : Int) (ax : Nat) :
    comDen a (some c) = ((toPointcloud a c).map (fun p => a.getD p 0)).sum ∧
    comNum a (some c) ax = ((toPointcloud a c).map (fun p => a.getD p 0 * ((p.getD ax 0 : Nat) : Int))).sum := by
  have hf : toPointcloud a c = (allIdx a.shape).filter (fun idx => decide (c < a.getD idx 0)) := by
    unfold toPointcloud
    refine List.filter_congr ?_
    intro x hx
    rw [getD_default_irrel a hwf x ((mem_allIdx_iff _ _).mp hx) c 0]
  constructor
  · unfold comDen
    rw [sum_map_filter_zero (allIdx a.shape) (fun idx => decide (c < a.getD idx 0)) (comW a (some c))
          (by intro x _ hx; simp only [decide_eq_false_iff_not] at hx; simp [comW, comV, hx]), hf]
    congr 1
    refine List.map_congr_left ?_
    intro x hx
    have := (List.mem_filter.mp hx).2
    simp only [decide_eq_true_eq] at this
    simp [comW, comV, this]
  · unfold comNum
    rw [sum_map_filter_zero (allIdx a.shape) (fun idx => decide (c < a.getD idx 0))
          (fun idx => comW a (some c) idx * ((idx.getD ax 0 : Nat) : Int))
          (by intro x _ hx; simp only [decide_eq_false_iff_not] at hx; simp [comW, comV, hx]), hf]
    congr 1
    refine List.map_congr_left ?_
    intro x hx
    have := (List.mem_filter.mp hx).2
    simp only [decide_eq_true_eq] at this
    simp [comW, comV, this]

/-- **covariance of the centre of mass under `adjust_box`** (hence `pad`, trimming): when the pad value weighs
nothing and every voxel that weighs lies inside the box, the denominator is unchanged and every numerator moves by
`start·denominator` — the centre of mass in voxels moves by exactly `-start` -/
theorem com_adjust_covariant (a : Arr Int) (hwf : a.data.size = prodL a.shape) (box : Box) (pad : Int)
    (cutoff : Option Int) (hlen : box.length = a.shape.length) (hstop : ∀ b ∈ box, 0 ≤ b.2)
    (hpad : comV cutoff pad = 0)
    (hsupp : ∀ s, inShape a.shape s = true → comW a cutoff s ≠ 0 →
      List.Forall₂ (fun (x : Nat) (b : Int × Int) => b.1 ≤ (x : Int) ∧ (x : Int) < b.2) s box) :
    comDen (adjustData a box pad) cutoff = comDen a cutoff ∧
    ∀ ax, ax < box.length →
      comNum (adjustData a box pad) cutoff ax = comNum a cutoff ax - (box.getD ax (0, 0)).1 * comDen a cutoff := by
  have hden := sum_adjust a hwf box pad cutoff hlen hstop hpad hsupp (fun _ => 1) (fun _ => 1) (fun _ _ _ => rfl)
  simp only [mul_one] at hden
  refine ⟨hden, ?_⟩
  intro ax hax
  have hnum := sum_adjust a hwf box pad cutoff hlen hstop hpad hsupp
    (fun s => ((s.getD ax 0 : Nat) : Int) - (box.getD ax (0, 0)).1) (fun idx => ((idx.getD ax 0 : Nat) : Int))
    (fun idx s h => by have := srcIdx_getD a.shape box idx s ax hlen h hax; omega)
  unfold comNum comDen
  rw [hnum]
  exact sum_map_mul_sub _ _ _ _

/-- **the physical centre of mass is unchanged**: with the origin `o' = o + start·rate` that `adjust_box` records,
`den·(o' + com'·rate) = den·(o + com·rate)` on every axis, over every commutative ring of coordinates -/
theorem com_adjust_physical {β : Type} [CommRing β] (a : Arr Int) (hwf : a.data.size = prodL a.shape) (box : Box)
    (pad : Int) (cutoff : Option Int) (hlen : box.length = a.shape.length) (hstop : ∀ b ∈ box, 0 ≤ b.2)
    (hpad : comV cutoff pad = 0)
    (hsupp : ∀ s, inShape a.shape s = true → comW a cutoff s ≠ 0 →
      List.Forall₂ (fun (x : Nat) (b : Int × Int) => b.1 ≤ (x : Int) ∧ (x : Int) < b.2) s box)
    (ax : Nat) (hax : ax < box.length) (o r : β) :
    (o + (((box.getD ax (0, 0)).1 : Int) : β) * r) * ((comDen (adjustData a box pad) cutoff : Int) : β) +
        ((comNum (adjustData a box pad) cutoff ax : Int) : β) * r =
      o * ((comDen a cutoff : Int) : β) + ((comNum a cutoff ax : Int) : β) * r := by
  obtain ⟨h1, h2⟩ := com_adjust_covariant a hwf box pad cutoff hlen hstop hpad hsupp
  rw [h1, h2 ax hax]
  push_cast
  ring

/-- trimming at the cut-off of the centre of mass never moves it: the trim box contains every voxel that weighs -/
theorem com_trim_covariant (a : Arr Int) (hwf : a.data.size = prodL a.shape) (c pad : Int) (margin : Int) (box : Box)
    (hm : 0 ≤ margin) (hbox : trimBox a c margin = some box) (hpad : comV (some c) pad = 0) :
    comDen (adjustData a box pad) (some c) = comDen a (some c) ∧
    ∀ ax, ax < box.length →
      comNum (adjustData a box pad) (some c) ax = comNum a (some c) ax - (box.getD ax (0, 0)).1 * comDen a (some c) := by
  have hw := trimBox_within a c margin box hm hbox
  have hstop : ∀ b ∈ box, 0 ≤ b.2 :=
    forall₂_right_mem (P := fun b : Int × Int => 0 ≤ b.2) hw (fun n b h => by omega)
  refine com_adjust_covariant a hwf box pad (some c) (trimBox_length a c margin box hbox) hstop hpad ?_
  intro s hs hne
  refine trimBox_contains a c margin box s hm hbox hs ?_
  rw [getD_default_irrel a hwf s hs c 0]
  by_contra hlt
  exact hne (by simp [comW, comV, hlt])

/-- **growing `pad` (centred or appended) never moves the centre of mass**: for every target shape that is at least the
source shape and a padding value that weighs nothing, the denominator is unchanged and the numerators move by
`start·denominator`, `start` the (non-positive) start of the box `pad` hands to `adjust_box` -/
theorem com_pad_covariant (a : Arr Int) (hwf : a.data.size = prodL a.shape) (newShape : List Nat) (center : Bool)
    (v : Int) (cutoff : Option Int) (hg : List.Forall₂ (fun n m => n ≤ m) a.shape newShape) (hpad : comV cutoff v = 0) :
    let box := Dens.padBox center a.shape newShape
    comDen (adjustData a box v) cutoff = comDen a cutoff ∧
    ∀ ax, ax < box.length →
      comNum (adjustData a box v) cutoff ax = comNum a cutoff ax - (box.getD ax (0, 0)).1 * comDen a cutoff :=
  com_adjust_covariant a hwf _ v cutoff (padBox_length center a.shape newShape hg.length_eq.symm)
    (padBox_stop_nonneg center a.shape newShape hg) hpad
    (fun s hs _ => padBox_contains center a.shape newShape hg s hs)

/-- **the point cloud through a whole history**: a point of the cloud of the final density that is traced to a voxel of
the initial density is a point of the initial cloud, and sits at the same physical coordinate (any sequence of adjust /
pad / trim / copy) -/
theorem pointcloud_history {α β : Type} [LT α] [DecidableLT α] [CommRing β]
    (ops : List (Op α)) (d d' : Dens α β) (idx idx0 : List Nat) (thr : α)
    (hwf : d.data.data.size = prodL d.data.shape)
    (hrun : runFrom d ops = some d') (htr : traceFrom d ops idx = some idx0)
    (h : idx ∈ toPointcloud d'.data thr) :
    idx0 ∈ toPointcloud d.data thr ∧ phys d'.frame idx = phys d.frame idx0 := by
  rw [toPointcloud_mem] at h
  obtain ⟨h1, h2, h3⟩ := history_physical ops d d' idx idx0 thr hwf hrun htr h.1
  refine ⟨?_, h2⟩
  rw [toPointcloud_mem]
  exact ⟨h3, by rw [← h1]; exact h.2⟩

/-! ## `core_mask` -/

/-- **`core_mask` is aligned with the data**: it has the extents of the data (so index `i` of the mask sits at the physical
coordinate of index `i` of the data) and is positive exactly on the voxels with `data > 0` -/
theorem coreMask_aligned (a : Arr Int) :
    (coreMask a).shape = a.shape ∧
    ∀ idx, inShape a.shape idx = true → (0 < (coreMask a).getD idx 0 ↔ 0 < a.getD idx 0) := by
  refine ⟨coreLoop_shape _ _ _, ?_⟩
  intro idx hin
  obtain ⟨_, h2, h3⟩ := coreLoop_spec (prodL a.shape + 1) (Arr.ofFn a.shape (fun idx => decide (0 < a.getD idx 0)))
    (Arr.ofFn a.shape (fun _ => 0)) rfl idx hin
  have e0 : (Arr.ofFn a.shape (fun _ => (0 : Nat))).getD idx 0 = 0 := Arr.getD_ofFn _ _ _ _ hin
  have em : (Arr.ofFn a.shape (fun idx => decide (0 < a.getD idx 0))).getD idx false = decide (0 < a.getD idx 0) :=
    Arr.getD_ofFn _ _ _ _ hin
  rw [e0, em] at h2 h3
  unfold coreMask
  constructor
  · intro h; simpa using h2 h
  · intro h; exact h3 (Nat.succ_pos _) (by simpa using h)

/-- every round of the loop only adds: a voxel that survives a further erosion was in the mask before (erosion shrinks) -/
theorem erode_shrinks (m : Arr Bool) (idx : List Nat) (hin : inShape m.shape idx = true)
    (h : (erode m).getD idx false = true) : m.getD idx false = true :=
  erode_sub m idx hin h

/-- **`core_mask` counts the erosions a voxel survives, and the bound on the number of rounds never cuts the count short**
(ranks ≥ 1): the value is the number of `k` — among the first `K` for *every* `K` beyond the number of voxels — such that the
voxel is still in the mask after `k` erosions of `data > 0` -/
theorem coreMask_counts (a : Arr Int) (idx : List Nat) (hin : inShape a.shape idx = true) (hrank : 0 < a.shape.length)
    (K : Nat) (hK : prodL a.shape + 1 ≤ K) :
    (coreMask a).getD idx 0 =
      ((List.range K).filter (fun k =>
        (erode^[k] (Arr.ofFn a.shape (fun i => decide (0 < a.getD i 0)))).getD idx false)).length := by
  have hc := coreLoop_count (prodL a.shape + 1) (Arr.ofFn a.shape (fun i => decide (0 < a.getD i 0)))
    (Arr.ofFn a.shape (fun _ => 0)) rfl idx hin
  have e0 : (Arr.ofFn a.shape (fun _ => (0 : Nat))).getD idx 0 = 0 := Arr.getD_ofFn _ _ _ _ hin
  rw [e0, Nat.zero_add] at hc
  unfold coreMask
  rw [hc]
  refine (filter_range_stable _ (prodL a.shape + 1) ?_ K hK).symm
  intro k hk
  cases hp : (erode^[k] (Arr.ofFn a.shape (fun i => decide (0 < a.getD i 0)))).getD idx false with
  | false => rfl
  | true =>
    exfalso
    have hb := iter_erode_border k (Arr.ofFn a.shape (fun i => decide (0 < a.getD i 0))) idx 0 hrank hp
    cases hs : a.shape with
    | nil => rw [hs] at hrank; simp at hrank
    | cons n ns =>
      have hle := first_le_prodL n ns idx (by rw [← hs]; exact hin)
      have hb2 : idx.getD 0 0 + k < n := by
        have := hb.2
        simpa [Arr.ofFn, hs] using this
      rw [hs] at hk
      omega

/-- a voxel survives at most as many erosions as it is away from the nearer end of any axis (plus one): the mask never exceeds
the distance to the border of the box -/
theorem coreMask_le_border (a : Arr Int) (idx : List Nat) (hin : inShape a.shape idx = true) (ax : Nat)
    (hax : ax < a.shape.length) :
    (coreMask a).getD idx 0 ≤ min (idx.getD ax 0 + 1) (a.shape.getD ax 0 - idx.getD ax 0) := by
  have hc := coreLoop_count (prodL a.shape + 1) (Arr.ofFn a.shape (fun i => decide (0 < a.getD i 0)))
    (Arr.ofFn a.shape (fun _ => 0)) rfl idx hin
  have e0 : (Arr.ofFn a.shape (fun _ => (0 : Nat))).getD idx 0 = 0 := Arr.getD_ofFn _ _ _ _ hin
  rw [e0, Nat.zero_add] at hc
  unfold coreMask
  rw [hc]
  refine filter_range_length_le _ _ ?_ _
  intro k hp
  have hb := iter_erode_border k (Arr.ofFn a.shape (fun i => decide (0 < a.getD i 0))) idx ax hax hp
  have h2 : idx.getD ax 0 + k < a.shape.getD ax 0 := hb.2
  omega

/-- **`core_mask` moves with a box that only adds zeros** (`adjust_box` with non-positive starts and stops at or beyond the
data, hence every growing `pad`; library default pad value 0): the mask of the padded density holds, at every voxel, the old
mask's value of the voxel with the same physical coordinate (`pointcloud_adjust_physical` / `adjustBox_physical_nd`: the source
index has the same `origin + index·rate`), and 0 on the added voxels -/
theorem coreMask_zero_pad (a : Arr Int) (box : Box) (hrank : 0 < a.shape.length)
    (hext : List.Forall₂ (fun (n : Nat) (b : Int × Int) => b.1 ≤ 0 ∧ (n : Int) ≤ b.2) a.shape box)
    (idx : List Nat) (hin : inShape (adjustData a box 0).shape idx = true) :
    (coreMask (adjustData a box 0)).getD idx 0 =
      match srcIdx (plans a.shape box) idx with
      | some s => (coreMask a).getD s 0
      | none => 0 := by
  have hlen : box.length = a.shape.length := hext.length_eq.symm
  have hps := plans_extending a.shape box hext
  -- the masks `data > 0` correspond
  have R0 : ∀ i, (Arr.ofFn (adjustData a box 0).shape (fun i => decide (0 < (adjustData a box 0).getD i 0))).getD i false =
      embB (Arr.ofFn a.shape (fun i => decide (0 < a.getD i 0))) (plans a.shape box) i := by
    intro i
    by_cases hi : inShape (adjustData a box 0).shape i = true
    · rw [Arr.getD_ofFn _ _ _ _ hi, adjustData_getD a box 0 0 i hi]
      unfold embB
      cases hs : srcIdx (plans a.shape box) i with
      | none => simp [readSrc]
      | some s =>
        have hsin := srcIdx_inShape a.shape box i s hlen hs
        simp only [readSrc]
        exact (Arr.getD_ofFn a.shape s (fun i => decide (0 < a.getD i 0)) false hsin).symm
    · have h1 : (Arr.ofFn (adjustData a box 0).shape (fun i => decide (0 < (adjustData a box 0).getD i 0))).getD i false = false :=
        getD_out _ i false (by show inShape (adjustData a box 0).shape i = false; simpa using hi)
      rw [h1]
      unfold embB
      cases hs : srcIdx (plans a.shape box) i with
      | none => rfl
      | some s => exact absurd (srcIdx_new_inShape _ i s hs) hi
  have Rk := fun k => iter_erode_emb a.shape (plans a.shape box) hps _ _ rfl rfl R0 k idx
  have hrank' : 0 < (adjustData a box 0).shape.length := by
    show 0 < ((plans a.shape box).map AxisPlan.newLen).length
    rw [List.length_map, ← hps.length_eq]; exact hrank
  rw [coreMask_counts (adjustData a box 0) idx hin hrank'
        (max (prodL (adjustData a box 0).shape + 1) (prodL a.shape + 1)) (Nat.le_max_left _ _)]
  simp only [Rk]
  cases hs : srcIdx (plans a.shape box) idx with
  | none => simp [embB, hs]
  | some s =>
    have hsin := srcIdx_inShape a.shape box idx s hlen hs
    show _ = (coreMask a).getD s 0
    rw [coreMask_counts a s hsin hrank
        (max (prodL (adjustData a box 0).shape + 1) (prodL a.shape + 1)) (Nat.le_max_right _ _)]
    simp [embB, hs]

/-! ## `to_memmap` / `to_numpy` -/

/-- **`to_memmap` / `to_numpy` change nothing but where the data live**: equal content in a buffer that is not one
of the source's, `origin`, `sampling_rate`, `metadata` the very same objects with unchanged content; a no-op when the
data already are of the requested kind -/
theorem remap_keeps {γ : Type} [Inhabited γ] (h : Heap γ) (d : DRef) (fresh : Bool)
    (hwf : ∀ r ∈ d.refs, r < h.cells.length) :
    let r := (remapD h d fresh).2
    let h' := (remapD h d fresh).1
    (r.origin = d.origin ∧ r.rate = d.rate ∧ r.md = d.md) ∧
    h'.read r.data = h.read d.data ∧
    (∀ s ∈ d.refs, h'.read s = h.read s) ∧
    (fresh = true → ∀ s ∈ d.refs, r.data ≠ s) ∧ (fresh = false → r = d ∧ h'.cells = h.cells) :=
  remapD_spec h d fresh hwf

/-! ## non-vacuity -/
example : adjustAxis 8 (-2) 5 = ⟨0, 5, 2, 0⟩ ∧ (adjustAxis 8 (-2) 5).newLen = 7 := by decide
example : adjustAxis 8 3 12 = ⟨3, 5, 0, 4⟩ ∧ (adjustAxis 8 9 12).newLen = 3 := by decide
example : (adjustAxis 8 (-2) 5).srcOf 1 = none ∧ (adjustAxis 8 (-2) 5).srcOf 2 = some 0 := by decide
example : (adjustData (⟨[2,2], #[1,2,3,4]⟩ : Arr Int) [(-1, 2), (1, 3)] 9).toList = [9,9,2,9,4,9] := by decide
example : padBoxAxis true 3 6 = (-1, 5) ∧ padBoxAxis true 5 2 = (2, 4) ∧ padBoxAxis false 3 6 = (0, 6) := by decide
example : trimBox (⟨[2,3], #[0,1,0,0,5,0]⟩ : Arr Int) 0 0 = some [(0,2),(1,2)] := by decide
example : trimBox (⟨[5], #[0,1,1,1,0]⟩ : Arr Int) 0 0 = some [(1,4)] ∧ trimBox (⟨[5], #[0,1,1,1,0]⟩ : Arr Int) 1 0 = none := by decide
example : meboxAxis 5 1 3 = (0, 5) ∧ meboxAxis 3 0 2 = (0, 3) := by decide
example : mebox (⟨[6], #[0,1,1,1,0,0]⟩ : Arr Int) 0 5 = some [(0, 5)] := by decide
example : centeredShape [6,7,5] [5,5,5] = [7,7,5] := by decide
example : broadcastAxes 3 [(7 : Int)] = some [7,7,7] ∧ broadcastAxes 3 [(1 : Int), 2] = none ∧
    broadcastAxes 2 [(1 : Int), 2] = some [1, 2] ∧ broadcastAxes 4 [(1 : Int), 2] = some [1,1,2,2] := by decide
example : resampleLen 11 2 4 = 6 ∧ resampleLen 5 3 6 = 2 ∧ resampleLen 11 2 1 = 22 := by decide
example : (copyD (⟨[10,11,12,13]⟩ : Heap Nat) ⟨0,1,2,3⟩).2 = ⟨4,7,8,6⟩ := by decide
example :
    let d : Dens Int Int := ⟨⟨[4], #[1,2,3,4]⟩, [(0, 1)]⟩
    let ops : List (Op Int) := [.adjust [(-1, 3)] 0, .pad [7] true (-1), .trim 1 0 0]
    (runFrom d ops).map (fun r => (r.data.toList, r.frame)) = some ([2,3], [(1,1)]) ∧
    traceFrom d ops [1] = some [2] := by decide


example :
    let g : Geo Int := ⟨[11, 11], [0, 0], [8, 8]⟩
    let ops : List GOp := [.resample [16, 4], .box [(-1, 4), (2, 30)], .copy, .resample [8, 4], .box [(1, 3), (0, 5)]]
    geoStates g ops = [⟨[6, 22], [0, 0], [16, 4]⟩, ⟨[5, 28], [-16, 8], [16, 4]⟩, ⟨[5, 28], [-16, 8], [16, 4]⟩,
                       ⟨[10, 28], [-16, 8], [8, 4]⟩, ⟨[2, 5], [-8, 8], [8, 4]⟩] ∧
    lastRate g.rate ops = [8, 4] := by decide
/-- the hypothesis of `geoRun_physical` is satisfiable by a history that moves the grid -/
example :
    let g : Geo Int := ⟨[6, 22], [0, 0], [16, 4]⟩
    let ops : List GOp := [.box [(-1, 4), (2, 30)], .copy, .box [(1, 3), (0, 5)]]
    (∀ op ∈ ops, op.isResample = false) ∧ gtrace ops [0, 0] = [0, 2] ∧ gphys (geoRun g ops) [0, 0] = [0, 8] := by decide

/-- hypotheses of `adjustBox_conserves_physical` are satisfiable: voxel `[0,1]` of a 2×2 array lies in
the box `[-1,2)×[1,3)` and is found again -/
example :
    let d : Dens Int Int := ⟨⟨[2,2], #[1,2,3,4]⟩, [(10, 2), (20, 3)]⟩
    ∃ idx, inShape (d.adjustBox [(-1, 2), (1, 3)] 9).data.shape idx = true ∧
      (d.adjustBox [(-1, 2), (1, 3)] 9).data.getD idx 0 = d.data.getD [0, 1] 9 ∧
      phys (d.adjustBox [(-1, 2), (1, 3)] 9).frame idx = phys d.frame [0, 1] :=
  adjustBox_conserves_physical _ _ _ _ [0, 1] rfl (by decide) (by decide)
    (List.Forall₂.cons ⟨by decide, by decide⟩ (List.Forall₂.cons ⟨by decide, by decide⟩ List.Forall₂.nil))

/-- hypotheses of the trim theorems are satisfiable -/
example :
    List.Forall₂ (fun (x : Nat) (b : Int × Int) => b.1 ≤ (x : Int) ∧ (x : Int) < b.2) [1, 1] [(0, 2), (1, 2)] :=
  trimBox_contains_above_cutoff (⟨[2,3], #[0,1,0,0,5,0]⟩ : Arr Int) 0 0 _ [1, 1] (by decide) (by decide) (by decide) (by decide)

/-- … and of `mebox_contains` (side 5 for a cloud of extent 3) -/
example :
    List.Forall₂ (fun (x : Nat) (b : Int × Int) => b.1 ≤ (x : Int) ∧ (x : Int) < b.2) [3] [(0, 5)] :=
  mebox_contains (⟨[6], #[0,1,1,1,0,0]⟩ : Arr Int) 0 5 _ [3] (by decide)
    (by intro e he; have : e = [(1, 3)] := by
          have h : extentAux (⟨[6], #[0,1,1,1,0,0]⟩ : Arr Int) 0 0 [6] = some [(1, 3)] := by decide
          rw [h] at he; exact (Option.some.inj he).symm
        subst this; intro lh hl; simp at hl; subst hl; decide)
    (by decide) (by decide)

/-- well-formedness hypothesis of `copy_no_alias` is satisfiable -/
example : ∀ r ∈ (⟨0, 1, 2, 3⟩ : DRef).refs, r < (⟨[10, 11, 12, 13]⟩ : Heap Nat).cells.length := by decide

/-! ### non-vacuity of the deepen3 theorems -/
example : toPointcloud (⟨[2,3], #[0,1,0,0,5,0]⟩ : Arr Int) 0 = [[0,1],[1,1]] ∧
    toPointcloud (⟨[2,3], #[0,1,0,0,5,0]⟩ : Arr Int) 1 = [[1,1]] := by decide
/-- hypotheses of `pointcloud_adjust_physical` / `_complete` are satisfiable: a 2×3 density with anisotropic rates and a
negative origin, a box with a negative start and a stop beyond the data -/
example :
    let d : Dens Int Int := ⟨⟨[2,3], #[0,1,0,0,5,0]⟩, [(-10, 2), (20, 3)]⟩
    d.data.data.size = prodL d.data.shape ∧ ¬ (0 : Int) < 0 ∧
    toPointcloud (d.adjustBox [(-1, 2), (1, 5)] 0).data 0 = [[1,0],[2,0]] ∧
    phys (d.adjustBox [(-1, 2), (1, 5)] 0).frame [2,0] = phys d.frame [1,1] ∧
    [1,1] ∈ toPointcloud d.data 0 := by decide
example :
    let d : Dens Int Int := ⟨⟨[2,3], #[0,1,0,0,5,0]⟩, [(-10, 2), (20, 3)]⟩
    trimBox d.data 0 0 = some [(0,2),(1,2)] ∧ toPointcloud (d.adjustBox [(0,2),(1,2)] 0).data 0 = [[0,0],[1,0]] := by decide
example :
    let d : Dens Int Int := ⟨⟨[2,3], #[0,1,0,0,5,0]⟩, [(-10, 2), (20, 3)]⟩
    d.empty.data.toList = [0,0,0,0,0,0] ∧ d.empty.frame = [(-10, 2), (20, 3)] := by decide
example : centerOfMass (⟨[2,3], #[0,1,0,0,5,0]⟩ : Arr Int) none = ([5, 6], 6) ∧
    centerOfMass (⟨[2,3], #[0,1,0,0,5,0]⟩ : Arr Int) (some 1) = ([5, 5], 5) ∧
    centerOfMass (⟨[3], #[-2,1,4]⟩ : Arr Int) none = ([9], 3) ∧ centerOfMass (⟨[3], #[-2,1,4]⟩ : Arr Int) (some 0) = ([9], 5) := by decide
/-- hypotheses of `com_adjust_covariant` are satisfiable (box with negative start that cuts zeros away): the numerators move by
`start·den` -/
example :
    let a : Arr Int := ⟨[2,3], #[0,1,0,0,5,0]⟩
    comV (some 0) 0 = 0 ∧ centerOfMass (adjustData a [(-1, 2), (1, 5)] 0) (some 0) = ([5 + 1 * 6, 6 - 1 * 6], 6) := by decide
example :
    let a : Arr Int := ⟨[2,3], #[0,1,0,0,5,0]⟩
    ∀ s, inShape a.shape s = true → comW a (some 0) s ≠ 0 →
      List.Forall₂ (fun (x : Nat) (b : Int × Int) => b.1 ≤ (x : Int) ∧ (x : Int) < b.2) s [(-1, 2), (1, 5)] := by
  intro a s hs hne
  have hm := (mem_allIdx_iff a.shape s).mpr hs
  have : allIdx a.shape = [[0,0],[0,1],[0,2],[1,0],[1,1],[1,2]] := by decide
  rw [this] at hm
  simp only [List.mem_cons, List.not_mem_nil, or_false] at hm
  rcases hm with rfl | rfl | rfl | rfl | rfl | rfl
  · exact absurd (by decide) hne
  · exact List.Forall₂.cons ⟨by decide, by decide⟩ (List.Forall₂.cons ⟨by decide, by decide⟩ List.Forall₂.nil)
  · exact absurd (by decide) hne
  · exact absurd (by decide) hne
  · exact List.Forall₂.cons ⟨by decide, by decide⟩ (List.Forall₂.cons ⟨by decide, by decide⟩ List.Forall₂.nil)
  · exact absurd (by decide) hne
example : (remapD (⟨[10,11,12,13]⟩ : Heap Nat) ⟨0,1,2,3⟩ true).2 = ⟨4,1,2,3⟩ ∧
    (remapD (⟨[10,11,12,13]⟩ : Heap Nat) ⟨0,1,2,3⟩ false).2 = ⟨0,1,2,3⟩ := by decide

/-- hypotheses of `com_pad_covariant` are satisfiable: centred padding of a 2×3 array to 5×4 -/
example :
    let a : Arr Int := ⟨[2,3], #[0,1,0,0,5,0]⟩
    List.Forall₂ (fun n m => n ≤ m) a.shape [5, 4] ∧ Dens.padBox true a.shape [5, 4] = [(-1, 4), (0, 4)] ∧
    centerOfMass (adjustData a (Dens.padBox true a.shape [5, 4]) 0) none = ([5 + 1 * 6, 6], 6) := by
  refine ⟨List.Forall₂.cons (by decide) (List.Forall₂.cons (by decide) List.Forall₂.nil), by decide, by decide⟩
/-- … and of `pointcloud_history` -/
example :
    let d : Dens Int Int := ⟨⟨[4], #[1,2,3,4]⟩, [(0, 1)]⟩
    let ops : List (Op Int) := [.adjust [(-1, 3)] 0, .pad [7] true (-1), .trim 1 0 0]
    (runFrom d ops).map (fun r => toPointcloud r.data 2) = some [[1]] ∧ traceFrom d ops [1] = some [2] ∧
    [2] ∈ toPointcloud d.data 2 := by decide

example : (coreMask (⟨[7], #[1,1,1,1,1,1,1]⟩ : Arr Int)).toList = [1,2,3,4,3,2,1] ∧
    (coreMask (⟨[3,3], #[2,5,1, 1,3,1, 0,1,-4]⟩ : Arr Int)).toList = [1,1,1, 1,2,1, 0,1,0] ∧
    (coreMask (⟨[3,3], #[2,5,1, 1,3,1, 7,1,4]⟩ : Arr Int)).toList = [1,1,1, 1,2,1, 1,1,1] := by decide
example : (erode (⟨[5], #[true,true,true,false,true]⟩ : Arr Bool)).toList = [false,true,false,false,false] := by decide

/-- hypotheses of `pointcloud_pad_complete`: appended padding of a 2×3 density to 4×3 -/
example :
    let d : Dens Int Int := ⟨⟨[2,3], #[0,1,0,0,5,0]⟩, [(-10, 2), (20, 3)]⟩
    List.Forall₂ (fun n m => n ≤ m) d.data.shape [4, 3] ∧ toPointcloud (d.pad [4, 3] false 0).data 0 = [[0,1],[1,1]] ∧
    toPointcloud (d.pad [5, 5] true 0).data 0 = [[1,2],[2,2]] ∧ phys (d.pad [5, 5] true 0).frame [1,2] = phys d.frame [0,1] := by
  refine ⟨List.Forall₂.cons (by decide) (List.Forall₂.cons (by decide) List.Forall₂.nil), by decide, by decide, by decide⟩
example : srcIdx (plans [2,3] [(-1, 2), (1, 5)]) [1,0] = some [0,1] ∧ srcIdx (plans [2,3] [(-1, 2), (1, 5)]) [2,0] = some [1,1] := by decide

/-- `coreMask_counts` / `coreMask_le_border` on a 1-D array of 7: the middle voxel survives 4 rounds = distance to the border + 1 -/
example :
    let a : Arr Int := ⟨[7], #[1,1,1,1,1,1,1]⟩
    inShape a.shape [3] = true ∧ 0 < a.shape.length ∧ (coreMask a).getD [3] 0 = 4 ∧
    min (([3] : List Nat).getD 0 0 + 1) (a.shape.getD 0 0 - ([3] : List Nat).getD 0 0) = 4 := by decide

/-- hypotheses of `coreMask_zero_pad`: a 1-D array of 5 padded by one voxel in front and two behind -/
example :
    let a : Arr Int := ⟨[5], #[1,1,1,1,1]⟩
    List.Forall₂ (fun (n : Nat) (b : Int × Int) => b.1 ≤ 0 ∧ (n : Int) ≤ b.2) a.shape [(-1, 7)] ∧
    (coreMask (adjustData a [(-1, 7)] 0)).toList = [0,1,2,3,2,1,0,0] ∧ (coreMask a).toList = [1,2,3,2,1] ∧
    srcIdx (plans a.shape [(-1, 7)]) [3] = some [2] := by
  refine ⟨List.Forall₂.cons (by decide) List.Forall₂.nil, by decide, by decide, by decide⟩

example : setterAxes 3 [(7 : Int)] = some [7,7,7] ∧ setterAxes 3 [(1 : Int), 2] = some [1, 2] ∧ broadcastAxes 3 [(1 : Int), 2] = none ∧
    setterAxes 3 ([] : List Int) = none ∧ setterAxes 2 [(1 : Int), 2, 3] = some [] ∧ setterAxes 4 [(1 : Int), 2] = some [1,1,2,2] := by decide

/-! ## deepen6: compositions, identities, minimality, resampling round trips -/

/-- **`adjust_box` with the full box is the identity** on one axis: everything kept, nothing added -/
theorem adjustAxis_full_box (n : Nat) :
    let p := adjustAxis n 0 n
    p.src = 0 ∧ p.len = n ∧ p.left = 0 ∧ p.right = 0 ∧ p.newLen = n ∧ ∀ j, j < n → p.srcOf j = some j := by
  obtain ⟨f1, f2, _⟩ := adjustAxis_fields n 0 n
  obtain ⟨f2, f3, f4⟩ := f2 (by omega)
  simp only
  refine ⟨by omega, by omega, by omega, by omega, by unfold AxisPlan.newLen; omega, ?_⟩
  intro j hj
  unfold AxisPlan.srcOf
  rw [if_pos (by omega)]
  congr 1; omega

/-- **`pad` to the present extent hands `adjust_box` the full box** (centred or appended): zero widths = identity -/
theorem pad_zero_width (center : Bool) (n : Nat) : padBoxAxis center n n = (0, (n : Int)) := by
  cases center <;> simp [padBoxAxis]

/-- the full box leaves the origin and the rate of every axis alone -/
theorem adjustFrame_zero_start {β : Type} [CommRing β] (o r : β) (stop : Int) :
    adjustFrame [(o, r)] [(0, stop)] = [(o, r)] := by
  simp [adjustFrame]

/-- **crop then crop = crop by the composed box** (one axis): the plan of the second crop on the result of the
first is the plan of the box shifted by the first start; nothing is padded -/
theorem adjustAxis_crop_crop (n N : Nat) (s1 e1 s2 e2 : Int) (h1 : 0 ≤ s1) (h2 : s1 ≤ e1) (h3 : e1 ≤ n)
    (h4 : 0 ≤ s2) (h5 : s2 ≤ e2) (h6 : e2 ≤ e1 - s1) (hN : N = (adjustAxis n s1 e1).newLen) :
    (adjustAxis n (s1 + s2) (s1 + e2)).src = (adjustAxis n s1 e1).src + (adjustAxis N s2 e2).src ∧
      (adjustAxis n (s1 + s2) (s1 + e2)).len = (adjustAxis N s2 e2).len ∧
      (adjustAxis n (s1 + s2) (s1 + e2)).left = 0 ∧ (adjustAxis n (s1 + s2) (s1 + e2)).right = 0 ∧
      (adjustAxis N s2 e2).left = 0 ∧ (adjustAxis N s2 e2).right = 0 := by
  have hn1 := adjustAxis_newLen n s1 e1 (by omega)
  rw [← hN] at hn1
  have a := (adjustAxis_fields n s1 e1).2.1 (by omega)
  have b0 := (adjustAxis_fields N s2 e2).1
  have b := (adjustAxis_fields N s2 e2).2.1 (by omega)
  have c0 := (adjustAxis_fields n (s1 + s2) (s1 + e2)).1
  have c := (adjustAxis_fields n (s1 + s2) (s1 + e2)).2.1 (by omega)
  clear hN
  generalize adjustAxis n s1 e1 = p1 at *
  generalize adjustAxis N s2 e2 = p2 at *
  generalize adjustAxis n (s1 + s2) (s1 + e2) = p3 at *
  omega

/-- origins compose: shifting by `s1` and then by `s2` records the origin of the composed box -/
theorem adjustBox_origin_compose {β : Type} [CommRing β] (origin rate : β) (s1 s2 : Int) :
    (origin + (s1 : β) * rate) + (s2 : β) * rate = origin + ((s1 + s2 : Int) : β) * rate := by
  push_cast; ring

/-- **extend then crop back = identity** (one axis): after extending by a box containing the data, the box
`(-start, n - start)` selects exactly the old voxels, in order, and the origin returns to the old one -/
theorem adjustAxis_extend_crop_back (n : Nat) (s e : Int) (hs : s ≤ 0) (he : (n : Int) ≤ e) :
    let p1 := adjustAxis n s e
    let p2 := adjustAxis p1.newLen (-s) (n - s)
    p2.newLen = n ∧ p2.left = 0 ∧ p2.right = 0 ∧
      ∀ j, j < n → (p2.srcOf j).bind p1.srcOf = some j := by
  have hn1 := adjustAxis_newLen n s e (by omega)
  obtain ⟨a1, a2, _⟩ := adjustAxis_fields n s e
  obtain ⟨a2, a3, a4⟩ := a2 (by omega)
  obtain ⟨b1, b2, _⟩ := adjustAxis_fields (adjustAxis n s e).newLen (-s) (n - s)
  obtain ⟨b2, b3, b4⟩ := b2 (by omega)
  simp only
  refine ⟨by unfold AxisPlan.newLen at *; omega, by omega, by unfold AxisPlan.newLen at *; omega, ?_⟩
  intro j hj
  unfold AxisPlan.newLen at *
  unfold AxisPlan.srcOf
  rw [if_pos (by omega)]
  simp only [Option.bind_some]
  rw [if_pos (by omega)]
  congr 1; omega

/-- the origin comes back after extending by `start` and cropping by `-start` -/
theorem adjustBox_origin_round_trip {β : Type} [CommRing β] (origin rate : β) (s : Int) :
    (origin + (s : β) * rate) + ((-s : Int) : β) * rate = origin := by
  push_cast; ring

/-- **physical coordinate through two box operations**: new index `j` after boxes starting at `s1` then `s2`
sits at the coordinate of old index `j + s2 + s1` -/
theorem adjustBox_physical_compose {β : Type} [CommRing β] (origin rate : β) (s1 s2 j : Int) :
    ((origin + (s1 : β) * rate) + (s2 : β) * rate) + (j : β) * rate = origin + ((j + s2 + s1 : Int) : β) * rate := by
  push_cast; ring

/-- **minimality of the trim box** (margin 0): on every axis the first kept slab and the last kept slab each
contain a voxel above the cut-off, so no face can be moved inwards -/
theorem trimAxis_tight {α : Type} [LT α] [DecidableLT α] (a : Arr α) (cutoff : α) (ax n : Nat) (b : Int × Int)
    (h : trimAxis a cutoff 0 ax n = some b) :
    0 ≤ b.1 ∧ b.1 < b.2 ∧ b.2 ≤ n ∧ axisHit a cutoff ax b.1.toNat = true ∧ axisHit a cutoff ax (b.2 - 1).toNat = true ∧
      ∀ i : Nat, i < n → axisHit a cutoff ax i = true → b.1 ≤ i ∧ (i : Int) < b.2 := by
  unfold trimAxis at h
  cases hf : firstHit (axisHit a cutoff ax) n with
  | none => rw [hf] at h; simp at h
  | some f =>
    cases hl : lastHit (axisHit a cutoff ax) n with
    | none => rw [hf, hl] at h; simp at h
    | some l =>
      rw [hf, hl] at h
      simp only [Option.some.injEq] at h
      subst h
      obtain ⟨l1, l2⟩ := lastHit_some _ _ _ hl
      unfold firstHit at hf
      obtain ⟨f1, f2, f3⟩ := firstHitFrom_some _ _ _ _ hf
      obtain ⟨s, e1, _, e3, _⟩ := firstHitFrom_spec (axisHit a cutoff ax) n 0 l (by omega) (by omega) l2
      rw [hf] at e1; simp only [Option.some.injEq] at e1
      have q1 : (max (0 : Int) ((f : Int) - 0)).toNat = f := by omega
      have q2 : (min (n : Int) ((l : Int) + 0 + 1) - 1).toNat = l := by omega
      simp only
      refine ⟨by omega, by omega, by omega, by rw [q1]; exact f3, by rw [q2]; exact l2, ?_⟩
      intro i hi hp
      obtain ⟨s', e1', _, e3', _⟩ := firstHitFrom_spec (axisHit a cutoff ax) n 0 i (by omega) (by omega) hp
      obtain ⟨l', g1, g2, _, _⟩ := lastHit_spec (axisHit a cutoff ax) n i hi hp
      rw [hf] at e1'; rw [hl] at g1
      simp only [Option.some.injEq] at e1' g1
      omega

/-- **a larger margin gives a larger trim box** (one axis), and both stay inside the data -/
theorem trimAxis_margin_mono {α : Type} [LT α] [DecidableLT α] (a : Arr α) (cutoff : α) (m1 m2 : Int) (ax n : Nat)
    (b1 b2 : Int × Int) (hm : m1 ≤ m2) (h1 : trimAxis a cutoff m1 ax n = some b1)
    (h2 : trimAxis a cutoff m2 ax n = some b2) : b2.1 ≤ b1.1 ∧ b1.2 ≤ b2.2 ∧ 0 ≤ b2.1 ∧ b2.2 ≤ n := by
  unfold trimAxis at h1 h2
  cases hf : firstHit (axisHit a cutoff ax) n with
  | none => rw [hf] at h1; simp at h1
  | some f =>
    cases hl : lastHit (axisHit a cutoff ax) n with
    | none => rw [hf, hl] at h1; simp at h1
    | some l =>
      rw [hf, hl] at h1 h2
      simp only [Option.some.injEq] at h1 h2
      subst h1; subst h2
      simp only
      omega

/-- **equal rates keep the extent** (ratio 1) -/
theorem resample_same_rate (n a : Nat) (ha : 0 < a) : resampleLen n a a = n :=
  resampleLen_exact n a a ha n rfl

/-- **resampling there and back** with inverse ratios returns the original extent when the ratio divides -/
theorem resample_round_trip (n a b k : Nat) (ha : 0 < a) (hb : 0 < b) (h : n * a = k * b) :
    resampleLen (resampleLen n a b) b a = n := by
  rw [resampleLen_exact n a b hb k h]
  exact resampleLen_exact k b a ha n h.symm

/-- n-D: resampling to the rate already recorded returns the same extents, origin and rate -/
theorem resample_same_rate_geo {β : Type} (g : Geo β) (hpos : ∀ r ∈ g.rate, 0 < r) (hlen : g.rate.length = g.shape.length) :
    resample g g.rate = g := by
  obtain ⟨shape, origin, rate⟩ := g
  simp only [resample, Geo.mk.injEq, and_true]
  simp only at hpos hlen
  induction shape generalizing rate with
  | nil => simp
  | cons n ns ih =>
    cases rate with
    | nil => simp at hlen
    | cons r rs =>
      simp only [List.zip_cons_cons, List.zipWith_cons_cons, List.cons.injEq]
      refine ⟨resampleLen_exact n r r (hpos r (by simp)) n rfl, ih rs (fun x hx => hpos x (by simp [hx])) (by simpa using hlen)⟩

/-- **total mass is conserved by extending with pad value 0** (any box that contains the whole array) -/
theorem mass_extend_zero (a : Arr Int) (hwf : a.data.size = prodL a.shape) (box : Box)
    (hlen : box.length = a.shape.length)
    (hsupp : ∀ s, inShape a.shape s = true →
      List.Forall₂ (fun (x : Nat) (b : Int × Int) => b.1 ≤ (x : Int) ∧ (x : Int) < b.2) s box)
    (hstop : ∀ b ∈ box, 0 ≤ b.2) :
    comDen (adjustData a box 0) none = comDen a none :=
  (com_adjust_covariant a hwf box 0 none hlen hstop rfl (fun s hs _ => hsupp s hs)).1

/-- **total mass is conserved by cropping to a box that contains the support** (every non-zero voxel) -/
theorem mass_crop_support (a : Arr Int) (hwf : a.data.size = prodL a.shape) (box : Box) (pad : Int)
    (hlen : box.length = a.shape.length) (hstop : ∀ b ∈ box, 0 ≤ b.2) (hpad : pad = 0)
    (hsupp : ∀ s, inShape a.shape s = true → a.getD s 0 ≠ 0 →
      List.Forall₂ (fun (x : Nat) (b : Int × Int) => b.1 ≤ (x : Int) ∧ (x : Int) < b.2) s box) :
    comDen (adjustData a box pad) none = comDen a none :=
  (com_adjust_covariant a hwf box pad none hlen hstop (by subst hpad; rfl) (fun s hs hw => hsupp s hs hw)).1

/-- hypotheses of the deepen6 theorems are satisfiable -/
example : (0 : Int) ≤ 2 ∧ (2 : Int) ≤ 7 ∧ (7 : Int) ≤ (8 : Nat) ∧ (0 : Int) ≤ 1 ∧ (1 : Int) ≤ 4 ∧ (4 : Int) ≤ 7 - 2 ∧
    (adjustAxis 8 3 6).src = (adjustAxis 8 2 7).src + (adjustAxis 5 1 4).src ∧ 5 = (adjustAxis 8 2 7).newLen ∧
    resampleLen 6 2 3 = 4 ∧ resampleLen 4 3 2 = 6 ∧ 6 * 2 = 4 * 3 := by decide


end Pm.C15
