import PytmeModel.Model.C04
import PytmeModel.Proofs.C04Rep
import PytmeModel.Proofs.C04Lock

/-! # C04 — aggregation over rotations equals the element-wise maximum, also after merging

Model: `PytmeModel/Model/C04.lean` (mirrors `MaxScoreOverRotations` and
`NumpyFFTWBackend.max_score_over_rotations`).  Every statement is for all shapes, thresholds,
histories, tilings and schedules; the `example`s show the hypotheses are satisfiable.
-/
namespace Pm.C04
set_option linter.unusedSectionVars false
variable {K : Type} [DecidableEq K]

/-! ## what "the largest submitted value that exceeds the threshold, else the threshold" means -/

/-- `specMax thr vals` is an upper bound of the threshold and of every value, and it is the threshold
or one of the values — i.e. the largest value exceeding the threshold, the threshold where none does. -/
theorem specMax_is_max (thr : Int) (vals : List Int) :
    thr ≤ specMax thr vals ∧ (∀ x ∈ vals, x ≤ specMax thr vals) ∧
    (specMax thr vals = thr ∨ specMax thr vals ∈ vals) ∧
    (specMax thr vals = thr ↔ ∀ x ∈ vals, x ≤ thr) :=
  ⟨le_specMax _ _, fun _ h => mem_le_specMax h, specMax_eq_or_mem _ _, specMax_eq_thr_iff _ _⟩

example : specMax 2 [1, 5, -3, 5] = 5 ∧ specMax 2 [1, -3] = 2 ∧ specMax (-4) [] = -4 := by decide

/-! ## one analyzer, any history -/

/-- After any history the aggregated map equals, voxel by voxel, the largest submitted value exceeding
the threshold (the threshold where none does). -/
theorem scores_eq_max_threshold (shape : List Nat) (thr : Int) (h : List (Arr Int × K)) (idx : List Nat)
    (hin : inShape shape idx = true) :
    (run shape thr h).scores.getD idx 0 = specMax thr (valsAt h idx) :=
  (inv_run shape thr h).score idx hin

/-- the aggregated arrays keep the analyzer's shape -/
theorem run_shape (shape : List Nat) (thr : Int) (h : List (Arr Int × K)) :
    (run shape thr h).scores.shape = shape := (inv_run shape thr h).shape_sc

/-- The stored identifier, when it is not the marker, maps back through the table to a rotation that was
submitted with an array attaining the stored value at that voxel (and that value exceeds the threshold). -/
theorem rot_attains (shape : List Nat) (thr : Int) (h : List (Arr Int × K)) (idx : List Nat)
    (hin : inShape shape idx = true) (hr : (run shape thr h).rots.getD idx 0 ≠ -1) :
    ∃ a k i, (a, k) ∈ h ∧ lookup k (run shape thr h).table = some i ∧
      (run shape thr h).rots.getD idx 0 = (i : Int) ∧
      a.getD idx 0 = (run shape thr h).scores.getD idx 0 ∧ thr < (run shape thr h).scores.getD idx 0 := by
  rcases (inv_run shape thr h).rot idx hin with ⟨h1, _⟩ | h2
  · exact absurd h1 hr
  · exact h2

/-- Voxels never improved — no submitted value exceeds the threshold there — are exactly the voxels that
keep the 'no rotation' marker `-1`. -/
theorem untouched_marker (shape : List Nat) (thr : Int) (h : List (Arr Int × K)) (idx : List Nat)
    (hin : inShape shape idx = true) :
    (run shape thr h).rots.getD idx 0 = -1 ↔ ∀ x ∈ valsAt h idx, x ≤ thr := by
  rw [← specMax_eq_thr_iff, ← scores_eq_max_threshold shape thr h idx hin]
  rcases (inv_run shape thr h).rot idx hin with ⟨h1, h2⟩ | ⟨a, k, i, _, _, hr, _, ht⟩
  · exact ⟨fun _ => h2, fun _ => h1⟩
  · constructor
    · intro e; rw [hr] at e; omega
    · intro e; omega

/-- identifiers are `0, 1, …` in order of first submission -/
theorem ids_contiguous (shape : List Nat) (thr : Int) (h : List (Arr Int × K)) :
    (run shape thr h).table.map Prod.snd = List.range (run shape thr h).table.length :=
  (inv_run shape thr h).table_ok.1

/-- identifiers and rotations are in one-to-one correspondence: a rotation has one identifier (it is a
function), two rotations never share one, and the rotations with an identifier are exactly the submitted ones -/
theorem table_injective (shape : List Nat) (thr : Int) (h : List (Arr Int × K)) :
    (∀ k k' i, lookup k (run shape thr h).table = some i → lookup k' (run shape thr h).table = some i → k = k') ∧
    (∀ k, (lookup k (run shape thr h).table).isSome ↔ ∃ a, (a, k) ∈ h) ∧
    ((run shape thr h).table.map Prod.fst).Nodup :=
  ⟨fun _ _ _ h1 h2 => (inv_run shape thr h).table_ok.injective h1 h2, (inv_run shape thr h).keys,
   (inv_run shape thr h).table_ok.2⟩

/-- the aggregated map does not depend on the order of the submissions -/
theorem scores_order_free (shape : List Nat) (thr : Int) (h h' : List (Arr Int × K)) (hp : h.Perm h')
    (idx : List Nat) (hin : inShape shape idx = true) :
    (run shape thr h).scores.getD idx 0 = (run shape thr h').scores.getD idx 0 := by
  rw [scores_eq_max_threshold _ _ _ _ hin, scores_eq_max_threshold _ _ _ _ hin]
  exact specMax_perm (hp.map _)

section examples
def exA : Arr Int := ⟨[2], #[3, -1]⟩
def exB : Arr Int := ⟨[2], #[3, -5]⟩
def exC : Arr Int := ⟨[2], #[7, 0]⟩
/-- ties, a repeated rotation, a voxel that is never improved (threshold 0, values -1, -5, 0) -/
example : let s := run [2] 0 [(exA, "r0"), (exB, "r1"), (exC, "r0")]
    s.scores.toList = [7, 0] ∧ s.rots.toList = [0, -1] ∧ s.table = [("r0", 0), ("r1", 1)] := by decide
example : (run [2] 0 [(exA, "r0"), (exB, "r1")]).rots.toList = [0, -1] := by decide   -- tie keeps the first
example : inShape [2] [1] = true ∧ (run [2] 0 [(exA, "r0"), (exC, "r1")]).rots.getD [0] 0 ≠ -1 := by decide
end examples

/-! ## post-processing (roll by the Fourier shift, crop) is a re-indexing of both arrays -/

/-- the post-processed maps read the aggregated maps at the same source voxel … -/
theorem postprocess_reindex (s : State K) (shift : List Int) (starts exts idx : List Nat)
    (hin : inShape exts idx = true) :
    (postprocess s shift starts exts).scores.getD idx 0 = s.scores.getD (postSrc s.scores.shape shift starts idx) 0 ∧
    (postprocess s shift starts exts).rots.getD idx 0 = s.rots.getD (postSrc s.rots.shape shift starts idx) 0 ∧
    (postprocess s shift starts exts).table = s.table := by
  refine ⟨?_, ?_, rfl⟩
  · simp only [postprocess, postArr]; rw [Arr.getD_ofFn _ _ _ _ hin]
  · simp only [postprocess, postArr]; rw [Arr.getD_ofFn _ _ _ _ hin]

/-- the source voxel lies inside the aggregated array (ranks agree, no empty axis) -/
theorem postSrc_inShape : ∀ (shape : List Nat) (shift : List Int) (starts idx : List Nat),
    shift.length = shape.length → starts.length = shape.length → idx.length = shape.length →
    (∀ n ∈ shape, 0 < n) → inShape shape (postSrc shape shift starts idx) = true
  | [], [], [], [], _, _, _, _ => rfl
  | n :: ns, s :: ss, st :: sts, i :: is, h1, h2, h3, hpos => by
      simp only [postSrc, inShape_cons]
      refine ⟨?_, postSrc_inShape ns ss sts is (by simpa using h1) (by simpa using h2) (by simpa using h3)
        (fun m hm => hpos m (List.mem_cons_of_mem _ hm))⟩
      have hn : (0 : Int) < (n : Int) := by have := hpos n List.mem_cons_self; omega
      unfold rollSrc
      have a := Int.emod_nonneg (((i + st : Nat) : Int) - s) (by omega : (n : Int) ≠ 0)
      have b := Int.emod_lt_of_pos (((i + st : Nat) : Int) - s) hn
      omega
  | [], _ :: _, _, _, h1, _, _, _ => by simp at h1
  | [], [], _ :: _, _, _, h2, _, _ => by simp at h2
  | [], [], [], _ :: _, _, _, h3, _ => by simp at h3
  | _ :: _, [], _, _, h1, _, _, _ => by simp at h1
  | _ :: _, _ :: _, [], _, _, h2, _, _ => by simp at h2
  | _ :: _, _ :: _, _ :: _, [], _, _, h3, _ => by simp at h3

/-- … hence a post-processed voxel holds the maximum over the history at its source voxel -/
theorem postprocess_eq_max (shape : List Nat) (thr : Int) (h : List (Arr Int × K))
    (shift : List Int) (starts exts idx : List Nat) (hin : inShape exts idx = true)
    (hsrc : inShape shape (postSrc shape shift starts idx) = true) :
    (postprocess (run shape thr h) shift starts exts).scores.getD idx 0 =
      specMax thr (valsAt h (postSrc shape shift starts idx)) := by
  rw [(postprocess_reindex _ shift starts exts idx hin).1, run_shape, scores_eq_max_threshold _ _ _ _ hsrc]

example : inShape [2] [1] = true ∧ inShape [3] (postSrc [3] [-1] [1] [1]) = true ∧ postSrc [3] [-1] [1] [1] = [0] := by decide
example : ([-1] : List Int).length = [3].length ∧ [1].length = [3].length ∧ (∀ n ∈ [3], 0 < n) := by decide

/-! ## merging partial results -/

/-- value a store holds for the absolute voxel `p`; the threshold outside its box -/
def Store.valOr (S : Store K) (thr : Int) (p : List Nat) : Int := (S.valAt? p).getD thr

/-- `merge` (same threshold as the stores) of any number of stores, each a correct aggregate of some
collection of partial problems, is a correct aggregate of all of them together: the score map is the
maximum of everything submitted anywhere at that voxel, the identifier maps through the merged table to a
rotation attaining it, the marker stays where nothing exceeded the threshold, the merged table is a
bijection onto the submitted rotations.  Covers the single-store shortcut and any nesting of merges. -/
theorem merge_represents {thr : Int} {d : Nat} (pairs : List (Store K × List (Tile K)))
    (hrep : ∀ pr ∈ pairs, Represents thr pr.1 pr.2) (hd : SameDim d (pairs.map Prod.fst))
    {M : Store K} (hM : merge thr (pairs.map Prod.fst) = some M) :
    Represents thr M (pairs.map Prod.snd).flatten := by
  match pairs, hrep, hd, hM with
  | [], _, _, hM => simp [merge] at hM
  | [pr], hrep, _, hM =>
    simp [merge] at hM; subst hM
    simpa using hrep pr (List.mem_singleton.mpr rfl)
  | pr1 :: pr2 :: rest, hrep, hd, hM =>
    simp only [List.map_cons, merge, Option.some.injEq] at hM
    subst hM
    exact mergeMany_represents (pr1 :: pr2 :: rest) hrep hd

/-- the same for `merge` as it is called, with `None` entries in the list (they are skipped; the single-entry
shortcut looks at the raw list length) -/
theorem mergeOpt_represents {thr : Int} {d : Nat} (pairs : List (Store K × List (Tile K)))
    (hrep : ∀ pr ∈ pairs, Represents thr pr.1 pr.2) (hd : SameDim d (pairs.map Prod.fst))
    (ps : List (Option (Store K))) (hps : ps.filterMap id = pairs.map Prod.fst)
    {M : Store K} (hM : mergeOpt thr ps = some M) :
    Represents thr M (pairs.map Prod.snd).flatten := by
  have general : ∀ {N : Store K}, (match pairs.map Prod.fst with
      | [] => none
      | ss => some (mergeMany thr ss)) = some N → Represents thr N (pairs.map Prod.snd).flatten := by
    intro N hN
    cases hp : pairs.map Prod.fst with
    | nil => rw [hp] at hN; cases hN
    | cons S ss =>
      rw [hp] at hN
      simp only [Option.some.injEq] at hN
      subst hN
      rw [← hp]
      exact mergeMany_represents pairs hrep hd
  match ps, hps, hM with
  | [], _, hM => simp [mergeOpt] at hM
  | [none], _, hM => simp [mergeOpt] at hM
  | [some S], hps, hM =>
    simp [mergeOpt] at hM; subst hM
    match pairs, hps, hrep with
    | [pr], hps, hrep =>
      simp at hps; subst hps
      simpa using hrep pr (List.mem_singleton.mpr rfl)
  | p1 :: p2 :: rest, hps, hM =>
    simp only [mergeOpt] at hM
    rw [hps] at hM
    exact general hM

/-- every tile's own analyzer is a correct aggregate of that tile -/
theorem tileStore_represents (thr : Int) (t : Tile K) : Represents thr (tileStore thr t) [t] :=
  tile_represents thr t

/-- merging the analyzers of any tiling yields a correct aggregate of the whole tiling -/
theorem merge_tiles_represents {thr : Int} {d : Nat} (ts : List (Tile K))
    (hd : ∀ t ∈ ts, t.offset.length = d ∧ t.shape.length = d)
    {M : Store K} (hM : merge thr (ts.map (tileStore thr)) = some M) : Represents thr M ts := by
  have hrep : ∀ pr ∈ ts.map (fun t => (tileStore thr t, [t])), Represents thr pr.1 pr.2 := by
    intro pr hpr
    obtain ⟨t, _, rfl⟩ := List.mem_map.mp hpr
    exact tile_represents thr t
  have e1 : (ts.map (fun t => (tileStore thr t, [t]))).map Prod.fst = ts.map (tileStore thr) := by
    simp [List.map_map, Function.comp_def]
  have e2 : ((ts.map (fun t => (tileStore thr t, [t]))).map Prod.snd).flatten = ts := by
    simp [List.map_map, Function.comp_def, flatten_map_singleton]
  have hd' : SameDim d ((ts.map (fun t => (tileStore thr t, [t]))).map Prod.fst) := by
    rw [e1]
    intro S hS
    obtain ⟨t, ht, rfl⟩ := List.mem_map.mp hS
    have := (inv_run t.shape thr t.hist).shape_sc
    simp only [tileStore, State.toStore]
    rw [this]; exact hd t ht
  have R := merge_represents (ts.map (fun t => (tileStore thr t, [t]))) hrep hd' (by rw [e1]; exact hM)
  rwa [e2] at R

/-- Merging the partial results of any tiling (boxes at arbitrary, possibly overlapping offsets) gives at
every voxel of the merged volume exactly the result of aggregating everything at once, and nothing was
submitted outside the merged volume. -/
theorem merge_eq_aggregate_all {thr : Int} {d : Nat} (ts : List (Tile K))
    (hd : ∀ t ∈ ts, t.offset.length = d ∧ t.shape.length = d)
    {M : Store K} (hM : merge thr (ts.map (tileStore thr)) = some M) :
    (∀ p q, localIdx M.offset M.scores.shape p = some q →
        M.scores.getD q 0 = specMax thr (allVals ts p) ∧
        (M.rots.getD q 0 = -1 ↔ ∀ x ∈ allVals ts p, x ≤ thr) ∧
        (M.rots.getD q 0 ≠ -1 → ∃ k i, lookup k M.table = some i ∧ M.rots.getD q 0 = (i : Int) ∧
            Attains ts p k (M.scores.getD q 0))) ∧
    (∀ p, localIdx M.offset M.scores.shape p = none → allVals ts p = []) ∧
    (∀ k k' i, lookup k M.table = some i → lookup k' M.table = some i → k = k') ∧
    (∀ k, (lookup k M.table).isSome ↔ ∃ t ∈ ts, ∃ a, (a, k) ∈ t.hist) := by
  have R := merge_tiles_represents ts hd hM
  refine ⟨?_, R.outside, fun _ _ _ h1 h2 => R.table_ok.injective h1 h2, R.keys⟩
  intro p q hl
  obtain ⟨cv, cr⟩ := R.cell p q hl
  refine ⟨cv, ?_, ?_⟩
  · rw [← specMax_eq_thr_iff, ← cv]
    rcases cr with ⟨h1, h2⟩ | ⟨k, i, _, hr, _, ht⟩
    · exact ⟨fun _ => h2, fun _ => h1⟩
    · constructor
      · intro e; rw [hr] at e; omega
      · intro e; omega
  · intro hne
    rcases cr with ⟨h1, _⟩ | ⟨k, i, hk, hr, hat, _⟩
    · exact absurd h1 hne
    · exact ⟨k, i, hk, hr, hat⟩

/-- being a correct aggregate does not depend on the order in which the partial problems are listed -/
theorem represents_perm {thr : Int} {S : Store K} {ts ts' : List (Tile K)} (hp : ts.Perm ts')
    (R : Represents thr S ts) : Represents thr S ts' := by
  have hv : ∀ p, (allVals ts p).Perm (allVals ts' p) := fun p => hp.flatMap_right _
  have hat : ∀ p k v, Attains ts p k v → Attains ts' p k v :=
    fun p k v h => h.mono (fun t ht => hp.mem_iff.mp ht)
  refine ⟨R.table_ok, ?_, ?_, ?_⟩
  · intro k; rw [R.keys k]
    constructor <;> rintro ⟨t, ht, r⟩
    · exact ⟨t, hp.mem_iff.mp ht, r⟩
    · exact ⟨t, hp.mem_iff.mpr ht, r⟩
  · intro p h
    have := hv p; rw [R.outside p h] at this
    exact this.symm.eq_nil
  · intro p q h
    obtain ⟨cv, cr⟩ := R.cell p q h
    refine ⟨by rw [cv]; exact specMax_perm (hv p), ?_⟩
    rcases cr with c | ⟨k, i, a, b, c, d⟩
    · exact Or.inl c
    · exact Or.inr ⟨k, i, a, b, hat _ _ _ c, d⟩

/-- two correct aggregates of the same partial problems (in any order) hold the same value at every
absolute voxel (outside its box a store is read as the threshold) -/
theorem represents_valOr_eq {thr : Int} {S S' : Store K} {ts ts' : List (Tile K)} (hp : ts.Perm ts')
    (R : Represents thr S ts) (R' : Represents thr S' ts') (p : List Nat) :
    S.valOr thr p = S'.valOr thr p := by
  have key : ∀ {T : Store K} {us : List (Tile K)}, Represents thr T us → T.valOr thr p = specMax thr (allVals us p) := by
    intro T us RT
    simp only [Store.valOr, Store.valAt?]
    cases hl : localIdx T.offset T.scores.shape p with
    | none => simp [RT.outside p hl, specMax_nil]
    | some q => simpa using (RT.cell p q hl).1
  rw [key R, key R']
  exact specMax_perm (hp.flatMap_right _)

/-- Any order: merging the partial results of a tiling in a permuted order gives the same score map. -/
theorem merge_any_order {thr : Int} {d : Nat} (ts ts' : List (Tile K)) (hp : ts.Perm ts')
    (hd : ∀ t ∈ ts, t.offset.length = d ∧ t.shape.length = d)
    {M M' : Store K} (hM : merge thr (ts.map (tileStore thr)) = some M)
    (hM' : merge thr (ts'.map (tileStore thr)) = some M') (p : List Nat) :
    M.valOr thr p = M'.valOr thr p := by
  exact represents_valOr_eq hp (merge_tiles_represents ts hd hM)
    (merge_tiles_represents ts' (fun t ht => hd t (hp.mem_iff.mpr ht)) hM') p

/-- Any grouping: merging two already merged groups represents the union of the groups, so it holds the same
value at every voxel as merging everything in one call. -/
theorem merge_any_grouping {thr : Int} {d : Nat} {A B : Store K} {as bs : List (Tile K)}
    (RA : Represents thr A as) (RB : Represents thr B bs)
    (hA : A.offset.length = d ∧ A.scores.shape.length = d) (hB : B.offset.length = d ∧ B.scores.shape.length = d)
    {M N : Store K} (hM : merge thr [A, B] = some M) (RN : Represents thr N (as ++ bs)) (p : List Nat) :
    Represents thr M (as ++ bs) ∧ M.valOr thr p = N.valOr thr p := by
  have hrep : ∀ pr ∈ [(A, as), (B, bs)], Represents thr pr.1 pr.2 := by
    intro pr hpr
    simp at hpr
    rcases hpr with rfl | rfl
    · exact RA
    · exact RB
  have hd : SameDim d ([(A, as), (B, bs)].map Prod.fst) := by
    intro S hS
    simp at hS
    rcases hS with rfl | rfl
    · exact hA
    · exact hB
  have R := merge_represents [(A, as), (B, bs)] hrep hd (by simpa using hM)
  have R' : Represents thr M (as ++ bs) := by simpa using R
  exact ⟨R', represents_valOr_eq (List.Perm.refl _) R' RN p⟩

section examples
def tA : Tile String := ⟨[0], [2], [(⟨[2], #[3, 1]⟩, "r0")]⟩
def tB : Tile String := ⟨[1], [2], [(⟨[2], #[4, -2]⟩, "r1"), (⟨[2], #[0, 9]⟩, "r0")]⟩
/-- overlapping offsets, tables with different local identifiers -/
example : ((merge 0 [tileStore 0 tA, tileStore 0 tB]).map (fun M => (M.scores.toList, M.rots.toList, M.table, M.offset)))
    = some ([3, 4, 9], [0, 1, 0], [("r0", 0), ("r1", 1)], [0]) := by decide
example : ((merge 0 [tileStore 0 tB, tileStore 0 tA]).map (fun M => (M.scores.toList, M.rots.toList, M.table)))
    = some ([3, 4, 9], [1, 0, 1], [("r1", 0), ("r0", 1)]) := by decide
example : ∀ t ∈ [tA, tB], t.offset.length = 1 ∧ t.shape.length = 1 := by decide
/-- the hypotheses of the merge theorems are satisfiable: a tile's analyzer represents the tile, and the merge of
two overlapping tiles exists and represents both -/
example : Represents 0 (tileStore 0 tA) [tA] := tileStore_represents 0 tA
example : ∃ M, merge 0 ([tA, tB].map (tileStore 0)) = some M ∧ Represents 0 M [tA, tB] :=
  ⟨_, rfl, merge_tiles_represents (d := 1) [tA, tB] (by decide) rfl⟩
/-- `None` entries are skipped, but two raw entries mean the general path: offset zero, threshold fill -/
example : ((mergeOpt 0 [none, some (tileStore 0 tB)]).map (fun M => (M.scores.toList, M.rots.toList, M.offset)))
    = some ([0, 4, 9], [-1, 0, 1], [0]) ∧
    ((mergeOpt 0 [some (tileStore 0 tB)]).map (fun M => (M.scores.toList, M.offset))) = some ([4, 9], [1]) ∧
    (mergeOpt 0 [none, (none : Option (Store String))]).isNone = true := by decide
end examples

/-! ## several submitters, one shared analyzer

`step` runs one of the five steps of `__call__` (take the lock, `setdefault`, read `scores > max_scores`,
write scores, write identifiers and release) of one process; a schedule is any list of process numbers.
With the lock a process that finds it taken does not move. -/

/-- With the lock, after *any* schedule the shared analyzer is exactly a single analyzer fed a serial history
`log` (the submissions in the order the lock was released), and that history is an order-preserving
interleaving of the processes' work: process `j`'s part of `log`, followed by what it has not done yet, is
its work list.  (When the lock is held the statement is about the state before the in-flight submission.) -/
theorem interleave_eq_some_sequential (shape : List Nat) (thr : Int) (work : List (List (Arr Int × K)))
    (sched : List Nat) :
    ∃ log : List (Nat × Arr Int × K),
      (∀ j, consumed log j ++ ((runSched true (sysInit shape thr work) sched).procs j).todo = work.getD j []) ∧
      ((runSched true (sysInit shape thr work) sched).lock = none →
        (runSched true (sysInit shape thr work) sched).shared = run shape thr (log.map Prod.snd)) ∧
      (∀ h, (runSched true (sysInit shape thr work) sched).lock = some h →
        ((runSched true (sysInit shape thr work) sched).procs h).todo ≠ []) := by
  obtain ⟨log, inv⟩ := linv_sched sched _ _ (linv_init shape thr work)
  refine ⟨log, inv.acct, fun h => (inv.free h).2, ?_⟩
  intro h hh
  obtain ⟨_, a, k, rest, ht, _⟩ := inv.held h hh
  rw [ht]; simp

/-- No update is lost: once every process has finished, whatever the schedule was, the shared map holds at
every voxel the largest value submitted by *any* process above the threshold (the threshold where none is),
and the shared analyzer is a single analyzer fed a serial history containing exactly the submitted work. -/
theorem concurrent_no_lost_update (shape : List Nat) (thr : Int) (work : List (List (Arr Int × K)))
    (sched : List Nat)
    (hdone : ∀ j, ((runSched true (sysInit shape thr work) sched).procs j).todo = []) :
    (∃ serial : List (Arr Int × K), (∀ x, x ∈ serial ↔ x ∈ work.flatten) ∧
        (runSched true (sysInit shape thr work) sched).shared = run shape thr serial) ∧
    ∀ idx, inShape shape idx = true →
      (runSched true (sysInit shape thr work) sched).shared.scores.getD idx 0 = specMax thr (valsAt work.flatten idx) := by
  obtain ⟨log, acct, free, held⟩ := interleave_eq_some_sequential shape thr work sched
  have hlock : (runSched true (sysInit shape thr work) sched).lock = none := by
    cases hl : (runSched true (sysInit shape thr work) sched).lock with
    | none => rfl
    | some h => exact absurd (hdone h) (held h hl)
  have hshared := free hlock
  have hcons : ∀ j, consumed log j = work.getD j [] := by
    intro j; have := acct j; rw [hdone j, List.append_nil] at this; exact this
  have hmem : ∀ x, x ∈ log.map Prod.snd ↔ x ∈ work.flatten := by
    intro x
    constructor
    · intro hx
      obtain ⟨e, he, rfl⟩ := List.mem_map.mp hx
      have h1 : e.2 ∈ consumed log e.1 := by
        simp only [consumed]
        exact List.mem_map.mpr ⟨e, List.mem_filter.mpr ⟨he, by simp⟩, rfl⟩
      rw [hcons] at h1
      have hj : e.1 < work.length := by
        by_contra hge
        have : work.getD e.1 [] = [] := by simp [List.getD, List.getElem?_eq_none (by omega : work.length ≤ e.1)]
        rw [this] at h1; cases h1
      have : work.getD e.1 [] = work[e.1] := by simp [List.getD, hj]
      rw [this] at h1
      exact List.mem_flatten.mpr ⟨_, List.getElem_mem hj, h1⟩
    · intro hx
      obtain ⟨l, hl, hxl⟩ := List.mem_flatten.mp hx
      obtain ⟨j, hj, rfl⟩ := List.getElem_of_mem hl
      have : work.getD j [] = work[j] := by simp [List.getD, hj]
      rw [← this, ← hcons] at hxl
      simp only [consumed] at hxl
      obtain ⟨e, he, rfl⟩ := List.mem_map.mp hxl
      exact List.mem_map.mpr ⟨e, (List.mem_filter.mp he).1, rfl⟩
  refine ⟨⟨log.map Prod.snd, hmem, hshared⟩, ?_⟩
  intro idx hin
  rw [hshared, scores_eq_max_threshold _ _ _ _ hin]
  apply specMax_congr_mem
  intro v
  generalize log.map Prod.snd = L at hmem
  simp only [valsAt, List.mem_map]
  constructor
  · rintro ⟨x, hx, rfl⟩; exact ⟨x, (hmem x).mp hx, rfl⟩
  · rintro ⟨x, hx, rfl⟩; exact ⟨x, (hmem x).mpr hx, rfl⟩

section examples
def w5 : Arr Int := ⟨[1], #[5]⟩
def w7 : Arr Int := ⟨[1], #[7]⟩
/-- process 0 reads, process 1 runs its whole submission, process 0 writes -/
def raceSched : List Nat := [0, 0, 0, 1, 1, 1, 1, 1, 0, 0]

/-- Without the lock an update is lost: both processes finish, 7 was submitted, the map holds 5.
This is what a removed lock looks like. -/
theorem lost_update_without_lock :
    ∃ sched : List Nat,
      allDone (runSched false (sysInit [1] 0 [[(w5, 0)], [(w7, 1)]]) sched) 2 = true ∧
      (runSched false (sysInit [1] 0 [[(w5, 0)], [(w7, 1)]]) sched).shared.scores.toList = [5] ∧
      specMax 0 (valsAt [(w5, 0), (w7, 1)] [0]) = 7 :=
  ⟨raceSched, by decide⟩

/-- the same schedule with the lock (process 1 is refused until process 0 is through; it then needs five
more steps): nothing is lost — the hypotheses of `concurrent_no_lost_update` are satisfiable -/
example : allDone (runSched true (sysInit [1] 0 [[(w5, 0)], [(w7, 1)]]) (raceSched ++ [1, 1, 1, 1, 1])) 2 = true ∧
    (runSched true (sysInit [1] 0 [[(w5, 0)], [(w7, 1)]]) (raceSched ++ [1, 1, 1, 1, 1])).shared.scores.toList = [7] ∧
    (runSched true (sysInit [1] 0 [[(w5, 0)], [(w7, 1)]]) (raceSched ++ [1, 1, 1, 1, 1])).shared.rots.toList = [1] := by decide
end examples

end Pm.C04
