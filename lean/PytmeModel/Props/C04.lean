import PytmeModel.Model.C04
import PytmeModel.Proofs.C04Rep
import PytmeModel.Proofs.C04Lock
import PytmeModel.Proofs.C04Ext
import PytmeModel.Proofs.C04Once

/-! # C04 — aggregation over rotations equals the element-wise maximum, also after merging

Model: `PytmeModel/Model/C04.lean` (mirrors `MaxScoreOverRotations` and
`NumpyFFTWBackend.max_score_over_rotations`).  Every statement is for all shapes, thresholds,
histories, tilings and schedules; the `example`s show the hypotheses are satisfiable.
-/
namespace Pm.C04
set_option linter.unusedSectionVars false
variable {K : Type} [DecidableEq K]

/-! ## what "the largest submitted value that exceeds the threshold, else the threshold" means -/

/-- `specMax thr vals` is an upper bound of the threshold and of every value, and it is the threshold
or one of the values — i.e. the largest value exceeding the threshold, the threshold where none does. -/
theorem specMax_is_max (thr : Int) (vals : List Int) :
    thr ≤ specMax thr vals ∧ (∀ x ∈ vals, x ≤ specMax thr vals) ∧
    (specMax thr vals = thr ∨ specMax thr vals ∈ vals) ∧
    (specMax thr vals = thr ↔ ∀ x ∈ vals, x ≤ thr) :=
  ⟨le_specMax _ _, fun _ h => mem_le_specMax h, specMax_eq_or_mem _ _, specMax_eq_thr_iff _ _⟩

example : specMax 2 [1, 5, -3, 5] = 5 ∧ specMax 2 [1, -3] = 2 ∧ specMax (-4) [] = -4 := by decide

/-! ## one analyzer, any history -/

/-- After any history the aggregated map equals, voxel by voxel, the largest submitted value exceeding
the threshold (the threshold where none does). -/
theorem scores_eq_max_threshold (shape : List Nat) (thr : Int) (h : List (Arr Int × K)) (idx : List Nat)
    (hin : inShape shape idx = true) :
    (run shape thr h).scores.getD idx 0 = specMax thr (valsAt h idx) :=
  (inv_run shape thr h).score idx hin

/-- the aggregated arrays keep the analyzer's shape -/
theorem run_shape (shape : List Nat) (thr : Int) (h : List (Arr Int × K)) :
    (run shape thr h).scores.shape = shape := (inv_run shape thr h).shape_sc

/-- The stored identifier, when it is not the marker, maps back through the table to a rotation that was
submitted with an array attaining the stored value at that voxel (and that value exceeds the threshold). -/
theorem rot_attains (shape : List Nat) (thr : Int) (h : List (Arr Int × K)) (idx : List Nat)
    (hin : inShape shape idx = true) (hr : (run shape thr h).rots.getD idx 0 ≠ -1) :
    ∃ a k i, (a, k) ∈ h ∧ lookup k (run shape thr h).table = some i ∧
      (run shape thr h).rots.getD idx 0 = (i : Int) ∧
      a.getD idx 0 = (run shape thr h).scores.getD idx 0 ∧ thr < (run shape thr h).scores.getD idx 0 := by
  rcases (inv_run shape thr h).rot idx hin with ⟨h1, _⟩ | h2
  · exact absurd h1 hr
  · exact h2

/-- Voxels never improved — no submitted value exceeds the threshold there — are exactly the voxels that
keep the 'no rotation' marker `-1`. -/
theorem untouched_marker (shape : List Nat) (thr : Int) (h : List (Arr Int × K)) (idx : List Nat)
    (hin : inShape shape idx = true) :
    (run shape thr h).rots.getD idx 0 = -1 ↔ ∀ x ∈ valsAt h idx, x ≤ thr := by
  rw [← specMax_eq_thr_iff, ← scores_eq_max_threshold shape thr h idx hin]
  rcases (inv_run shape thr h).rot idx hin with ⟨h1, h2⟩ | ⟨a, k, i, _, _, hr, _, ht⟩
  · exact ⟨fun _ => h2, fun _ => h1⟩
  · constructor
    · intro e; rw [hr] at e; omega
    · intro e; omega

/-- identifiers are `0, 1, …` in order of first submission -/
theorem ids_contiguous (shape : List Nat) (thr : Int) (h : List (Arr Int × K)) :
    (run shape thr h).table.map Prod.snd = List.range (run shape thr h).table.length :=
  (inv_run shape thr h).table_ok.1

/-- identifiers and rotations are in one-to-one correspondence: a rotation has one identifier (it is a
function), two rotations never share one, and the rotations with an identifier are exactly the submitted ones -/
theorem table_injective (shape : List Nat) (thr : Int) (h : List (Arr Int × K)) :
    (∀ k k' i, lookup k (run shape thr h).table = some i → lookup k' (run shape thr h).table = some i → k = k') ∧
    (∀ k, (lookup k (run shape thr h).table).isSome ↔ ∃ a, (a, k) ∈ h) ∧
    ((run shape thr h).table.map Prod.fst).Nodup :=
  ⟨fun _ _ _ h1 h2 => (inv_run shape thr h).table_ok.injective h1 h2, (inv_run shape thr h).keys,
   (inv_run shape thr h).table_ok.2⟩

/-- the aggregated map does not depend on the order of the submissions -/
theorem scores_order_free (shape : List Nat) (thr : Int) (h h' : List (Arr Int × K)) (hp : h.Perm h')
    (idx : List Nat) (hin : inShape shape idx = true) :
    (run shape thr h).scores.getD idx 0 = (run shape thr h').scores.getD idx 0 := by
  rw [scores_eq_max_threshold _ _ _ _ hin, scores_eq_max_threshold _ _ _ _ hin]
  exact specMax_perm (hp.map _)

section examples
def exA : Arr Int := ⟨[2], #[3, -1]⟩
def exB : Arr Int := ⟨[2], #[3, -5]⟩
def exC : Arr Int := ⟨[2], #[7, 0]⟩
/-- ties, a repeated rotation, a voxel that is never improved (threshold 0, values -1, -5, 0) -/
example : let s := run [2] 0 [(exA, "r0"), (exB, "r1"), (exC, "r0")]
    s.scores.toList = [7, 0] ∧ s.rots.toList = [0, -1] ∧ s.table = [("r0", 0), ("r1", 1)] := by decide
example : (run [2] 0 [(exA, "r0"), (exB, "r1")]).rots.toList = [0, -1] := by decide   -- tie keeps the first
example : inShape [2] [1] = true ∧ (run [2] 0 [(exA, "r0"), (exC, "r1")]).rots.getD [0] 0 ≠ -1 := by decide
end examples

/-! ## post-processing (roll by the Fourier shift, crop) is a re-indexing of both arrays -/

/-- the post-processed maps read the aggregated maps at the same source voxel … -/
theorem postprocess_reindex (s : State K) (shift : List Int) (starts exts idx : List Nat)
    (hin : inShape exts idx = true) :
    (postprocess s shift starts exts).scores.getD idx 0 = s.scores.getD (postSrc s.scores.shape shift starts idx) 0 ∧
    (postprocess s shift starts exts).rots.getD idx 0 = s.rots.getD (postSrc s.rots.shape shift starts idx) 0 ∧
    (postprocess s shift starts exts).table = s.table := by
  refine ⟨?_, ?_, rfl⟩
  · simp only [postprocess, postArr]; rw [Arr.getD_ofFn _ _ _ _ hin]
  · simp only [postprocess, postArr]; rw [Arr.getD_ofFn _ _ _ _ hin]

/-- the source voxel lies inside the aggregated array (ranks agree, no empty axis) -/
theorem postSrc_inShape : ∀ (shape : List Nat) (shift : List Int) (starts idx : List Nat),
    shift.length = shape.length → starts.length = shape.length → idx.length = shape.length →
    (∀ n ∈ shape, 0 < n) → inShape shape (postSrc shape shift starts idx) = true
  | [], [], [], [], _, _, _, _ => rfl
  | n :: ns, s :: ss, st :: sts, i :: is, h1, h2, h3, hpos => by
      simp only [postSrc, inShape_cons]
      refine ⟨?_, postSrc_inShape ns ss sts is (by simpa using h1) (by simpa using h2) (by simpa using h3)
        (fun m hm => hpos m (List.mem_cons_of_mem _ hm))⟩
      have hn : (0 : Int) < (n : Int) := by have := hpos n List.mem_cons_self; omega
      unfold rollSrc
      have a := Int.emod_nonneg (((i + st : Nat) : Int) - s) (by omega : (n : Int) ≠ 0)
      have b := Int.emod_lt_of_pos (((i + st : Nat) : Int) - s) hn
      omega
  | [], _ :: _, _, _, h1, _, _, _ => by simp at h1
  | [], [], _ :: _, _, _, h2, _, _ => by simp at h2
  | [], [], [], _ :: _, _, _, h3, _ => by simp at h3
  | _ :: _, [], _, _, h1, _, _, _ => by simp at h1
  | _ :: _, _ :: _, [], _, _, h2, _, _ => by simp at h2
  | _ :: _, _ :: _, _ :: _, [], _, _, h3, _ => by simp at h3

/-- … hence a post-processed voxel holds the maximum over the history at its source voxel -/
theorem postprocess_eq_max (shape : List Nat) (thr : Int) (h : List (Arr Int × K))
    (shift : List Int) (starts exts idx : List Nat) (hin : inShape exts idx = true)
    (hsrc : inShape shape (postSrc shape shift starts idx) = true) :
    (postprocess (run shape thr h) shift starts exts).scores.getD idx 0 =
      specMax thr (valsAt h (postSrc shape shift starts idx)) := by
  rw [(postprocess_reindex _ shift starts exts idx hin).1, run_shape, scores_eq_max_threshold _ _ _ _ hsrc]

example : inShape [2] [1] = true ∧ inShape [3] (postSrc [3] [-1] [1] [1]) = true ∧ postSrc [3] [-1] [1] [1] = [0] := by decide
example : ([-1] : List Int).length = [3].length ∧ [1].length = [3].length ∧ (∀ n ∈ [3], 0 < n) := by decide

/-! ## merging partial results -/

/-- value a store holds for the absolute voxel `p`; the threshold outside its box -/
def Store.valOr (S : Store K) (thr : Int) (p : List Nat) : Int := (S.valAt? p).getD thr

/-- `merge` (same threshold as the stores) of any number of stores, each a correct aggregate of some
collection of partial problems, is a correct aggregate of all of them together: the score map is the
maximum of everything submitted anywhere at that voxel, the identifier maps through the merged table to a
rotation attaining it, the marker stays where nothing exceeded the threshold, the merged table is a
bijection onto the submitted rotations.  Covers the single-store shortcut and any nesting of merges. -/
theorem merge_represents {thr : Int} {d : Nat} (pairs : List (Store K × List (Tile K)))
    (hrep : ∀ pr ∈ pairs, Represents thr pr.1 pr.2) (hd : SameDim d (pairs.map Prod.fst))
    {M : Store K} (hM : merge thr (pairs.map Prod.fst) = some M) :
    Represents thr M (pairs.map Prod.snd).flatten := by
  match pairs, hrep, hd, hM with
  | [], _, _, hM => simp [merge] at hM
  | [pr], hrep, _, hM =>
    simp [merge] at hM; subst hM
    simpa using hrep pr (List.mem_singleton.mpr rfl)
  | pr1 :: pr2 :: rest, hrep, hd, hM =>
    simp only [List.map_cons, merge, Option.some.injEq] at hM
    subst hM
    exact mergeMany_represents (pr1 :: pr2 :: rest) hrep hd

/-- the same for `merge` as it is called, with `None` entries in the list (they are skipped; the single-entry
shortcut looks at the raw list length) -/
theorem mergeOpt_represents {thr : Int} {d : Nat} (pairs : List (Store K × List (Tile K)))
    (hrep : ∀ pr ∈ pairs, Represents thr pr.1 pr.2) (hd : SameDim d (pairs.map Prod.fst))
    (ps : List (Option (Store K))) (hps : ps.filterMap id = pairs.map Prod.fst)
    {M : Store K} (hM : mergeOpt thr ps = some M) :
    Represents thr M (pairs.map Prod.snd).flatten := by
  have general : ∀ {N : Store K}, (match pairs.map Prod.fst with
      | [] => none
      | ss => some (mergeMany thr ss)) = some N → Represents thr N (pairs.map Prod.snd).flatten := by
    intro N hN
    cases hp : pairs.map Prod.fst with
    | nil => rw [hp] at hN; cases hN
    | cons S ss =>
      rw [hp] at hN
      simp only [Option.some.injEq] at hN
      subst hN
      rw [← hp]
      exact mergeMany_represents pairs hrep hd
  match ps, hps, hM with
  | [], _, hM => simp [mergeOpt] at hM
  | [none], _, hM => simp [mergeOpt] at hM
  | [some S], hps, hM =>
    simp [mergeOpt] at hM; subst hM
    match pairs, hps, hrep with
    | [pr], hps, hrep =>
      simp at hps; subst hps
      simpa using hrep pr (List.mem_singleton.mpr rfl)
  | p1 :: p2 :: rest, hps, hM =>
    simp only [mergeOpt] at hM
    rw [hps] at hM
    exact general hM

/-- every tile's own analyzer is a correct aggregate of that tile -/
theorem tileStore_represents (thr : Int) (t : Tile K) : Represents thr (tileStore thr t) [t] :=
  tile_represents thr t

/-- merging the analyzers of any tiling yields a correct aggregate of the whole tiling -/
theorem merge_tiles_represents {thr : Int} {d : Nat} (ts : List (Tile K))
    (hd : ∀ t ∈ ts, t.offset.length = d ∧ t.shape.length = d)
    {M : Store K} (hM : merge thr (ts.map (tileStore thr)) = some M) : Represents thr M ts := by
  have hrep : ∀ pr ∈ ts.map (fun t => (tileStore thr t, [t])), Represents thr pr.1 pr.2 := by
    intro pr hpr
    obtain ⟨t, _, rfl⟩ := List.mem_map.mp hpr
    exact tile_represents thr t
  have e1 : (ts.map (fun t => (tileStore thr t, [t]))).map Prod.fst = ts.map (tileStore thr) := by
    simp [List.map_map, Function.comp_def]
  have e2 : ((ts.map (fun t => (tileStore thr t, [t]))).map Prod.snd).flatten = ts := by
    simp [List.map_map, Function.comp_def, flatten_map_singleton]
  have hd' : SameDim d ((ts.map (fun t => (tileStore thr t, [t]))).map Prod.fst) := by
    rw [e1]
    intro S hS
    obtain ⟨t, ht, rfl⟩ := List.mem_map.mp hS
    have := (inv_run t.shape thr t.hist).shape_sc
    simp only [tileStore, State.toStore]
    rw [this]; exact hd t ht
  have R := merge_represents (ts.map (fun t => (tileStore thr t, [t]))) hrep hd' (by rw [e1]; exact hM)
  rwa [e2] at R

/-- Merging the partial results of any tiling (boxes at arbitrary, possibly overlapping offsets) gives at
every voxel of the merged volume exactly the result of aggregating everything at once, and nothing was
submitted outside the merged volume. -/
theorem merge_eq_aggregate_all {thr : Int} {d : Nat} (ts : List (Tile K))
    (hd : ∀ t ∈ ts, t.offset.length = d ∧ t.shape.length = d)
    {M : Store K} (hM : merge thr (ts.map (tileStore thr)) = some M) :
    (∀ p q, localIdx M.offset M.scores.shape p = some q →
        M.scores.getD q 0 = specMax thr (allVals ts p) ∧
        (M.rots.getD q 0 = -1 ↔ ∀ x ∈ allVals ts p, x ≤ thr) ∧
        (M.rots.getD q 0 ≠ -1 → ∃ k i, lookup k M.table = some i ∧ M.rots.getD q 0 = (i : Int) ∧
            Attains ts p k (M.scores.getD q 0))) ∧
    (∀ p, localIdx M.offset M.scores.shape p = none → allVals ts p = []) ∧
    (∀ k k' i, lookup k M.table = some i → lookup k' M.table = some i → k = k') ∧
    (∀ k, (lookup k M.table).isSome ↔ ∃ t ∈ ts, ∃ a, (a, k) ∈ t.hist) := by
  have R := merge_tiles_represents ts hd hM
  refine ⟨?_, R.outside, fun _ _ _ h1 h2 => R.table_ok.injective h1 h2, R.keys⟩
  intro p q hl
  obtain ⟨cv, cr⟩ := R.cell p q hl
  refine ⟨cv, ?_, ?_⟩
  · rw [← specMax_eq_thr_iff, ← cv]
    rcases cr with ⟨h1, h2⟩ | ⟨k, i, _, hr, _, ht⟩
    · exact ⟨fun _ => h2, fun _ => h1⟩
    · constructor
      · intro e; rw [hr] at e; omega
      · intro e; omega
  · intro hne
    rcases cr with ⟨h1, _⟩ | ⟨k, i, hk, hr, hat, _⟩
    · exact absurd h1 hne
    · exact ⟨k, i, hk, hr, hat⟩

/-- being a correct aggregate does not depend on the order in which the partial problems are listed -/
theorem represents_perm {thr : Int} {S : Store K} {ts ts' : List (Tile K)} (hp : ts.Perm ts')
    (R : Represents thr S ts) : Represents thr S ts' := by
  have hv : ∀ p, (allVals ts p).Perm (allVals ts' p) := fun p => hp.flatMap_right _
  have hat : ∀ p k v, Attains ts p k v → Attains ts' p k v :=
    fun p k v h => h.mono (fun t ht => hp.mem_iff.mp ht)
  refine ⟨R.table_ok, ?_, ?_, ?_⟩
  · intro k; rw [R.keys k]
    constructor <;> rintro ⟨t, ht, r⟩
    · exact ⟨t, hp.mem_iff.mp ht, r⟩
    · exact ⟨t, hp.mem_iff.mpr ht, r⟩
  · intro p h
    have := hv p; rw [R.outside p h] at this
    exact this.symm.eq_nil
  · intro p q h
    obtain ⟨cv, cr⟩ := R.cell p q h
    refine ⟨by rw [cv]; exact specMax_perm (hv p), ?_⟩
    rcases cr with c | ⟨k, i, a, b, c, d⟩
    · exact Or.inl c
    · exact Or.inr ⟨k, i, a, b, hat _ _ _ c, d⟩

/-- two correct aggregates of the same partial problems (in any order) hold the same value at every
absolute voxel (outside its box a store is read as the threshold) -/
theorem represents_valOr_eq {thr : Int} {S S' : Store K} {ts ts' : List (Tile K)} (hp : ts.Perm ts')
    (R : Represents thr S ts) (R' : Represents thr S' ts') (p : List Nat) :
    S.valOr thr p = S'.valOr thr p := by
  have key : ∀ {T : Store K} {us : List (Tile K)}, Represents thr T us → T.valOr thr p = specMax thr (allVals us p) := by
    intro T us RT
    simp only [Store.valOr, Store.valAt?]
    cases hl : localIdx T.offset T.scores.shape p with
    | none => simp [RT.outside p hl, specMax_nil]
    | some q => simpa using (RT.cell p q hl).1
  rw [key R, key R']
  exact specMax_perm (hp.flatMap_right _)

/-- Any order: merging the partial results of a tiling in a permuted order gives the same score map. -/
theorem merge_any_order {thr : Int} {d : Nat} (ts ts' : List (Tile K)) (hp : ts.Perm ts')
    (hd : ∀ t ∈ ts, t.offset.length = d ∧ t.shape.length = d)
    {M M' : Store K} (hM : merge thr (ts.map (tileStore thr)) = some M)
    (hM' : merge thr (ts'.map (tileStore thr)) = some M') (p : List Nat) :
    M.valOr thr p = M'.valOr thr p := by
  exact represents_valOr_eq hp (merge_tiles_represents ts hd hM)
    (merge_tiles_represents ts' (fun t ht => hd t (hp.mem_iff.mpr ht)) hM') p

/-- Any grouping: merging two already merged groups represents the union of the groups, so it holds the same
value at every voxel as merging everything in one call. -/
theorem merge_any_grouping {thr : Int} {d : Nat} {A B : Store K} {as bs : List (Tile K)}
    (RA : Represents thr A as) (RB : Represents thr B bs)
    (hA : A.offset.length = d ∧ A.scores.shape.length = d) (hB : B.offset.length = d ∧ B.scores.shape.length = d)
    {M N : Store K} (hM : merge thr [A, B] = some M) (RN : Represents thr N (as ++ bs)) (p : List Nat) :
    Represents thr M (as ++ bs) ∧ M.valOr thr p = N.valOr thr p := by
  have hrep : ∀ pr ∈ [(A, as), (B, bs)], Represents thr pr.1 pr.2 := by
    intro pr hpr
    simp at hpr
    rcases hpr with rfl | rfl
    · exact RA
    · exact RB
  have hd : SameDim d ([(A, as), (B, bs)].map Prod.fst) := by
    intro S hS
    simp at hS
    rcases hS with rfl | rfl
    · exact hA
    · exact hB
  have R := merge_represents [(A, as), (B, bs)] hrep hd (by simpa using hM)
  have R' : Represents thr M (as ++ bs) := by simpa using R
  exact ⟨R', represents_valOr_eq (List.Perm.refl _) R' RN p⟩

section examples
def tA : Tile String := ⟨[0], [2], [(⟨[2], #[3, 1]⟩, "r0")]⟩
def tB : Tile String := ⟨[1], [2], [(⟨[2], #[4, -2]⟩, "r1"), (⟨[2], #[0, 9]⟩, "r0")]⟩
/-- overlapping offsets, tables with different local identifiers -/
example : ((merge 0 [tileStore 0 tA, tileStore 0 tB]).map (fun M => (M.scores.toList, M.rots.toList, M.table, M.offset)))
    = some ([3, 4, 9], [0, 1, 0], [("r0", 0), ("r1", 1)], [0]) := by decide
example : ((merge 0 [tileStore 0 tB, tileStore 0 tA]).map (fun M => (M.scores.toList, M.rots.toList, M.table)))
    = some ([3, 4, 9], [1, 0, 1], [("r1", 0), ("r0", 1)]) := by decide
example : ∀ t ∈ [tA, tB], t.offset.length = 1 ∧ t.shape.length = 1 := by decide
/-- the hypotheses of the merge theorems are satisfiable: a tile's analyzer represents the tile, and the merge of
two overlapping tiles exists and represents both -/
example : Represents 0 (tileStore 0 tA) [tA] := tileStore_represents 0 tA
example : ∃ M, merge 0 ([tA, tB].map (tileStore 0)) = some M ∧ Represents 0 M [tA, tB] :=
  ⟨_, rfl, merge_tiles_represents (d := 1) [tA, tB] (by decide) rfl⟩
/-- `None` entries are skipped, but two raw entries mean the general path: offset zero, threshold fill -/
example : ((mergeOpt 0 [none, some (tileStore 0 tB)]).map (fun M => (M.scores.toList, M.rots.toList, M.offset)))
    = some ([0, 4, 9], [-1, 0, 1], [0]) ∧
    ((mergeOpt 0 [some (tileStore 0 tB)]).map (fun M => (M.scores.toList, M.offset))) = some ([4, 9], [1]) ∧
    (mergeOpt 0 [none, (none : Option (Store String))]).isNone = true := by decide
end examples

/-! ## several submitters, one shared analyzer

`step` runs one of the five steps of `__call__` (take the lock, `setdefault`, read `scores > max_scores`,
write scores, write identifiers and release) of one process; a schedule is any list of process numbers.
With the lock a process that finds it taken does not move. -/

/-- With the lock, after *any* schedule the shared analyzer is exactly a single analyzer fed a serial history
`log` (the submissions in the order the lock was released), and that history is an order-preserving
interleaving of the processes' work: process `j`'s part of `log`, followed by what it has not done yet, is
its work list.  (When the lock is held the statement is about the state before the in-flight submission.) -/
theorem interleave_eq_some_sequential (shape : List Nat) (thr : Int) (work : List (List (Arr Int × K)))
    (sched : List Nat) :
    ∃ log : List (Nat × Arr Int × K),
      (∀ j, consumed log j ++ ((runSched true (sysInit shape thr work) sched).procs j).todo = work.getD j []) ∧
      ((runSched true (sysInit shape thr work) sched).lock = none →
        (runSched true (sysInit shape thr work) sched).shared = run shape thr (log.map Prod.snd)) ∧
      (∀ h, (runSched true (sysInit shape thr work) sched).lock = some h →
        ((runSched true (sysInit shape thr work) sched).procs h).todo ≠ []) := by
  obtain ⟨log, inv⟩ := linv_sched sched _ _ (linv_init shape thr work)
  refine ⟨log, inv.acct, fun h => (inv.free h).2, ?_⟩
  intro h hh
  obtain ⟨_, a, k, rest, ht, _⟩ := inv.held h hh
  rw [ht]; simp

/-- No update is lost: once every process has finished, whatever the schedule was, the shared map holds at
every voxel the largest value submitted by *any* process above the threshold (the threshold where none is),
and the shared analyzer is a single analyzer fed a serial history containing exactly the submitted work. -/
theorem concurrent_no_lost_update (shape : List Nat) (thr : Int) (work : List (List (Arr Int × K)))
    (sched : List Nat)
    (hdone : ∀ j, ((runSched true (sysInit shape thr work) sched).procs j).todo = []) :
    (∃ serial : List (Arr Int × K), (∀ x, x ∈ serial ↔ x ∈ work.flatten) ∧
        (runSched true (sysInit shape thr work) sched).shared = run shape thr serial) ∧
    ∀ idx, inShape shape idx = true →
      (runSched true (sysInit shape thr work) sched).shared.scores.getD idx 0 = specMax thr (valsAt work.flatten idx) := by
  obtain ⟨log, acct, free, held⟩ := interleave_eq_some_sequential shape thr work sched
  have hlock : (runSched true (sysInit shape thr work) sched).lock = none := by
    cases hl : (runSched true (sysInit shape thr work) sched).lock with
    | none => rfl
    | some h => exact absurd (hdone h) (held h hl)
  have hshared := free hlock
  have hcons : ∀ j, consumed log j = work.getD j [] := by
    intro j; have := acct j; rw [hdone j, List.append_nil] at this; exact this
  have hmem : ∀ x, x ∈ log.map Prod.snd ↔ x ∈ work.flatten := by
    intro x
    constructor
    · intro hx
      obtain ⟨e, he, rfl⟩ := List.mem_map.mp hx
      have h1 : e.2 ∈ consumed log e.1 := by
        simp only [consumed]
        exact List.mem_map.mpr ⟨e, List.mem_filter.mpr ⟨he, by simp⟩, rfl⟩
      rw [hcons] at h1
      have hj : e.1 < work.length := by
        by_contra hge
        have : work.getD e.1 [] = [] := by simp [List.getD, List.getElem?_eq_none (by omega : work.length ≤ e.1)]
        rw [this] at h1; cases h1
      have : work.getD e.1 [] = work[e.1] := by simp [List.getD, hj]
      rw [this] at h1
      exact List.mem_flatten.mpr ⟨_, List.getElem_mem hj, h1⟩
    · intro hx
      obtain ⟨l, hl, hxl⟩ := List.mem_flatten.mp hx
      obtain ⟨j, hj, rfl⟩ := List.getElem_of_mem hl
      have : work.getD j [] = work[j] := by simp [List.getD, hj]
      rw [← this, ← hcons] at hxl
      simp only [consumed] at hxl
      obtain ⟨e, he, rfl⟩ := List.mem_map.mp hxl
      exact List.mem_map.mpr ⟨e, (List.mem_filter.mp he).1, rfl⟩
  refine ⟨⟨log.map Prod.snd, hmem, hshared⟩, ?_⟩
  intro idx hin
  rw [hshared, scores_eq_max_threshold _ _ _ _ hin]
  apply specMax_congr_mem
  intro v
  generalize log.map Prod.snd = L at hmem
  simp only [valsAt, List.mem_map]
  constructor
  · rintro ⟨x, hx, rfl⟩; exact ⟨x, (hmem x).mp hx, rfl⟩
  · rintro ⟨x, hx, rfl⟩; exact ⟨x, (hmem x).mpr hx, rfl⟩

section examples
def w5 : Arr Int := ⟨[1], #[5]⟩
def w7 : Arr Int := ⟨[1], #[7]⟩
/-- process 0 reads, process 1 runs its whole submission, process 0 writes -/
def raceSched : List Nat := [0, 0, 0, 1, 1, 1, 1, 1, 0, 0]

/-- Without the lock an update is lost: both processes finish, 7 was submitted, the map holds 5.
This is what a removed lock looks like. -/
theorem lost_update_without_lock :
    ∃ sched : List Nat,
      allDone (runSched false (sysInit [1] 0 [[(w5, 0)], [(w7, 1)]]) sched) 2 = true ∧
      (runSched false (sysInit [1] 0 [[(w5, 0)], [(w7, 1)]]) sched).shared.scores.toList = [5] ∧
      specMax 0 (valsAt [(w5, 0), (w7, 1)] [0]) = 7 :=
  ⟨raceSched, by decide⟩

/-- the same schedule with the lock (process 1 is refused until process 0 is through; it then needs five
more steps): nothing is lost — the hypotheses of `concurrent_no_lost_update` are satisfiable -/
example : allDone (runSched true (sysInit [1] 0 [[(w5, 0)], [(w7, 1)]]) (raceSched ++ [1, 1, 1, 1, 1])) 2 = true ∧
    (runSched true (sysInit [1] 0 [[(w5, 0)], [(w7, 1)]]) (raceSched ++ [1, 1, 1, 1, 1])).shared.scores.toList = [7] ∧
    (runSched true (sysInit [1] 0 [[(w5, 0)], [(w7, 1)]]) (raceSched ++ [1, 1, 1, 1, 1])).shared.rots.toList = [1] := by decide
end examples

/-! # second layer: the options and paths around the aggregator

Everything below is about further executable functions of `Model/C04.lean` that the driver runs against the real
class: the path without a lock, `only_unique_rotations`, rotation keys as the bytes of the matrix and the way a
caller reads a rotation back from a result, results behind memory maps (`use_memmap`), `merge` on stores with
different tables. -/

/-! ## the path without a lock (`lock_is_nullcontext`) is the same function of the history -/

/-- `rotation_index = len(mapping); mapping.setdefault(bytes, rotation_index)` without the lock gives, after any
history, the same scores, identifiers and table as the lock path — every theorem about `run` holds for it. -/
theorem nolock_path_eq (shape : List Nat) (thr : Int) (h : List (Arr Int × K)) :
    runNoLock shape thr h = run shape thr h := runNoLock_eq shape thr h

example : (runNoLock [2] 0 [(exA, "r0"), (exB, "r1"), (exC, "r0")]).rots.toList = [0, -1] := by decide

/-! ## `only_unique_rotations` (identifier → matrix dict, inverted by `__iter__`) -/

/-- The score map of the `only_unique_rotations` path is the maximum for *every* history, unique rotations or not. -/
theorem unique_rotations_scores_eq_max (shape : List Nat) (thr : Int) (h : List (Arr Int × K)) (idx : List Nat)
    (hin : inShape shape idx = true) :
    (iterInv (runInv shape thr h) (List.replicate shape.length 0)).scores.getD idx 0 = specMax thr (valsAt h idx) := by
  simp only [iterInv]
  rw [runInv_scores, scores_eq_max_threshold _ _ _ _ hin]

/-- When the submitted rotations are pairwise different — what the option's name promises — `tuple(analyzer)` on
the `only_unique_rotations` path is *equal* (scores, identifiers, table with its order) to the standard path. -/
theorem unique_rotations_eq_standard (shape : List Nat) (thr : Int) (h : List (Arr Int × K)) (offset : List Nat)
    (hn : (h.map Prod.snd).Nodup) :
    iterInv (runInv shape thr h) offset = (run shape thr h).toStore offset :=
  iterInv_eq_of_nodup shape thr h offset hn

example : ([(exA, "r0"), (exB, "r1")].map Prod.snd).Nodup ∧
    (iterInv (runInv [2] 0 [(exA, "r0"), (exC, "r1")]) [0]).table = [("r0", 0), ("r1", 1)] := by decide

/-- The hypothesis is needed: when a rotation is submitted twice the inverted dict keeps the later identifier
only, and a voxel can hold an identifier that the reported mapping does not contain (here `0` at voxel 0). -/
theorem unique_rotations_needs_unique :
    let S := iterInv (runInv [2] 0 [(⟨[2], #[5, 0]⟩, "r0"), (⟨[2], #[0, 7]⟩, "r0")]) [0]
    S.rots.toList = [0, 1] ∧ S.table = [("r0", 1)] ∧ keyOf S.table 0 = none := by decide

/-! ## reading a rotation back from a result

`keyOf t r` is the key whose value is `r` (the loop of the class docstring); keys are `rotation_matrix.tobytes()`,
`keyMat n` is `np.frombuffer(key, dtype).reshape(n, n)`. -/

/-- `frombuffer(tobytes(m)).reshape(n, n) = m` for every `n × n` matrix, hence keys identify matrices -/
theorem frombuffer_tobytes {W : Type} {n : Nat} {m m' : List (List W)} (hm : IsMat n m) (hm' : IsMat n m') :
    keyMat n (matKey m) = m ∧ (matKey m = matKey m' → m = m') :=
  ⟨keyMat_matKey hm, matKey_injective hm hm'⟩

example : IsMat 2 [[1, 2], [3, 4]] ∧ keyMat 2 (matKey [[1, 2], [3, 4]]) = [[1, 2], [3, 4]] := by decide

/-- Decoding the reported identifier through the reported mapping returns a rotation that was submitted with an
array attaining the reported score at that voxel — for every history. -/
theorem rot_decodes_attains (shape : List Nat) (thr : Int) (h : List (Arr Int × K)) (idx : List Nat)
    (hin : inShape shape idx = true) (hr : (run shape thr h).rots.getD idx 0 ≠ -1) :
    ∃ a k, (a, k) ∈ h ∧ keyOf (run shape thr h).table ((run shape thr h).rots.getD idx 0) = some k ∧
      a.getD idx 0 = (run shape thr h).scores.getD idx 0 := by
  obtain ⟨a, k, i, hm, hl, hri, hv, _⟩ := rot_attains shape thr h idx hin hr
  exact ⟨a, k, hm, by rw [hri]; exact keyOf_of_lookup (inv_run shape thr h).table_ok hl, hv⟩

/-- The same with the keys produced from matrices: the key found for the identifier, cut into rows, *is* one of
the submitted matrices, and its array attains the score. -/
theorem matrix_decode_attains {W : Type} [DecidableEq W] (n : Nat) (shape : List Nat) (thr : Int)
    (h : List (Arr Int × List (List W))) (hmat : ∀ am ∈ h, IsMat n am.2) (idx : List Nat)
    (hin : inShape shape idx = true) :
    let S := run shape thr (h.map (fun am => (am.1, matKey am.2)))
    S.rots.getD idx 0 ≠ -1 →
    ∃ a m, (a, m) ∈ h ∧ decodeRot n S.table (S.rots.getD idx 0) = some m ∧ a.getD idx 0 = S.scores.getD idx 0 := by
  intro S hr
  obtain ⟨a, k, hm, hk, hv⟩ := rot_decodes_attains shape thr _ idx hin hr
  obtain ⟨am, ham, e⟩ := List.mem_map.mp hm
  cases e
  refine ⟨am.1, am.2, ham, ?_, hv⟩
  simp only [decodeRot]
  rw [hk]
  simp [keyMat_matKey (hmat am ham)]

example : let h : List (Arr Int × List (List Nat)) := [(exA, [[1, 0], [0, 1]]), (exC, [[0, 1], [1, 0]])]
    (∀ am ∈ h, IsMat 2 am.2) ∧
    decodeRot 2 (run [2] 0 (h.map (fun am => (am.1, matKey am.2)))).table 1 = some [[0, 1], [1, 0]] := by decide

/-- … on the `only_unique_rotations` path (pairwise different rotations) -/
theorem unique_rotations_decode_attains (shape : List Nat) (thr : Int) (h : List (Arr Int × K)) (offset idx : List Nat)
    (hn : (h.map Prod.snd).Nodup) (hin : inShape shape idx = true)
    (hr : (iterInv (runInv shape thr h) offset).rots.getD idx 0 ≠ -1) :
    ∃ a k, (a, k) ∈ h ∧
      keyOf (iterInv (runInv shape thr h) offset).table ((iterInv (runInv shape thr h) offset).rots.getD idx 0) = some k ∧
      a.getD idx 0 = (iterInv (runInv shape thr h) offset).scores.getD idx 0 := by
  rw [unique_rotations_eq_standard shape thr h offset hn] at hr ⊢
  exact rot_decodes_attains shape thr h idx hin hr

/-- … after `merge`, for any store that is a correct aggregate of some partial problems (so: merged once or
repeatedly, from stores whose tables number the same rotation differently) -/
theorem represents_decode_attains {thr : Int} {M : Store K} {ts : List (Tile K)} (R : Represents thr M ts)
    (p q : List Nat) (hl : localIdx M.offset M.scores.shape p = some q) (hr : M.rots.getD q 0 ≠ -1) :
    ∃ k, keyOf M.table (M.rots.getD q 0) = some k ∧ Attains ts p k (M.scores.getD q 0) := by
  rcases (R.cell p q hl).2 with ⟨h1, _⟩ | ⟨k, i, hk, hri, hat, _⟩
  · exact absurd h1 hr
  · exact ⟨k, by rw [hri]; exact keyOf_of_lookup R.table_ok hk, hat⟩

theorem merge_decode_attains {thr : Int} {d : Nat} (ts : List (Tile K))
    (hd : ∀ t ∈ ts, t.offset.length = d ∧ t.shape.length = d)
    {M : Store K} (hM : merge thr (ts.map (tileStore thr)) = some M)
    (p q : List Nat) (hl : localIdx M.offset M.scores.shape p = some q) (hr : M.rots.getD q 0 ≠ -1) :
    ∃ k, keyOf M.table (M.rots.getD q 0) = some k ∧ Attains ts p k (M.scores.getD q 0) :=
  represents_decode_attains (merge_tiles_represents ts hd hM) p q hl hr

example : ∃ M, merge 0 ([tA, tB].map (tileStore 0)) = some M ∧ localIdx M.offset M.scores.shape [2] = some [2] ∧
    M.rots.getD [2] 0 ≠ -1 ∧ keyOf M.table (M.rots.getD [2] 0) = some "r0" := ⟨_, rfl, by decide⟩

/-- … after `merge`, with matrix keys: the decoded matrix is a submitted matrix attaining the merged score -/
theorem merge_matrix_decode_attains {W : Type} [DecidableEq W] {thr : Int} (n : Nat) {M : Store (List W)}
    {ts : List (Tile (List W))} (R : Represents thr M ts)
    (hmat : ∀ t ∈ ts, ∀ ak ∈ t.hist, ∃ m, IsMat n m ∧ ak.2 = matKey m)
    (p q : List Nat) (hl : localIdx M.offset M.scores.shape p = some q) (hr : M.rots.getD q 0 ≠ -1) :
    ∃ m, IsMat n m ∧ decodeRot n M.table (M.rots.getD q 0) = some m ∧ Attains ts p (matKey m) (M.scores.getD q 0) := by
  obtain ⟨k, hk, hat⟩ := represents_decode_attains R p q hl hr
  obtain ⟨t, ht, q', a, hq', ha, hv⟩ := hat
  obtain ⟨m, hm, e⟩ := hmat t ht (a, k) ha
  simp only at e
  subst e
  refine ⟨m, hm, ?_, ⟨t, ht, q', a, hq', ha, hv⟩⟩
  simp only [decodeRot, hk, Option.map_some, keyMat_matKey hm]

/-! ## `merge` on arbitrary stores: the new table, and identifiers re-mapped into it -/

/-- Whatever the stores are, the merged table numbers its rotations `0, 1, …` without repetition: identifiers and
rotations of a merged result are in one-to-one correspondence. -/
theorem merged_table_injective_any (thr : Int) (ss : List (Store K)) :
    (mergeMany thr ss).table.map Prod.snd = List.range (mergeMany thr ss).table.length ∧
    ((mergeMany thr ss).table.map Prod.fst).Nodup ∧
    (∀ k k' i, lookup k (mergeMany thr ss).table = some i → lookup k' (mergeMany thr ss).table = some i → k = k') ∧
    (∀ k, (lookup k (mergeMany thr ss).table).isSome ↔ ∃ S ∈ ss, (lookup k S.table).isSome) :=
  ⟨(newTable_ok ss).1, (newTable_ok ss).2, fun _ _ _ h1 h2 => (newTable_ok ss).injective h1 h2, newTable_keys ss⟩

/-- The same rotation may carry different identifiers in different stores: the `lookup_table` of a store sends
each of its identifiers to an identifier that decodes, in the merged table, to the same rotation. -/
theorem merge_remap_decode {ss : List (Store K)} {S : Store K} (hS : S ∈ ss) (ok : TableOK S.table)
    {k : K} {i : Nat} (hk : lookup k S.table = some i) :
    keyOf (newTable ss) (lutGet (lookupTable S.table (newTable ss)) (i : Int)) = some k ∧
    keyOf S.table (i : Int) = some k := by
  have hs : (lookup k (newTable ss)).isSome := (newTable_keys ss k).mpr ⟨S, hS, by simp [hk]⟩
  obtain ⟨j, hj⟩ := Option.isSome_iff_exists.mp hs
  rw [lutGet_lookupTable ok hk hj]
  exact ⟨keyOf_of_lookup (newTable_ok ss) hj, keyOf_of_lookup ok hk⟩

example : let ss := [tileStore 0 tB, tileStore 0 tA]
    lookup "r0" (tileStore 0 tA).table = some 0 ∧ lookup "r0" (tileStore 0 tB).table = some 1 ∧
    lookup "r0" (newTable ss) = some 1 ∧ TableOK (tileStore 0 tA).table :=
  ⟨by decide, by decide, by decide, (tileStore_represents 0 tA).table_ok⟩

/-- `None` entries never matter for the values: two calls whose lists hold the same partial results (with `None`
entries anywhere, so possibly one through the single-entry shortcut and one through the general path) give the
same value at every absolute voxel. -/
theorem mergeOpt_none_entries_irrelevant {thr : Int} {d : Nat} (pairs : List (Store K × List (Tile K)))
    (hrep : ∀ pr ∈ pairs, Represents thr pr.1 pr.2) (hd : SameDim d (pairs.map Prod.fst))
    (ps ps' : List (Option (Store K))) (hps : ps.filterMap id = pairs.map Prod.fst)
    (hps' : ps'.filterMap id = pairs.map Prod.fst)
    {M M' : Store K} (hM : mergeOpt thr ps = some M) (hM' : mergeOpt thr ps' = some M') (p : List Nat) :
    M.valOr thr p = M'.valOr thr p :=
  represents_valOr_eq (List.Perm.refl _) (mergeOpt_represents pairs hrep hd ps hps hM)
    (mergeOpt_represents pairs hrep hd ps' hps' hM') p

/-! ## results behind memory maps (`use_memmap`) -/

/-- `tuple(analyzer)` with `use_memmap`: what is read through the two memory maps is the in-memory result; two
files are created, no existing file changes. -/
theorem iter_memmap_eq (fs : FS) (s : State K) (offset : List Nat) :
    (iterMem fs s offset).2.load (iterMem fs s offset).1 = s.toStore offset ∧
    (iterMem fs s offset).1.length = fs.length + 2 ∧
    ∀ q < fs.length, (iterMem fs s offset).1.read q = fs.read q :=
  ⟨(iterMem_spec fs s offset).1, (iterMem_spec fs s offset).2.2.1, (iterMem_spec fs s offset).2.2.2⟩

/-- `merge(use_memmap=True)` of memory-mapped stores: read through its memory maps, the result is exactly the
in-memory `merge` of what the input maps hold (single-entry shortcut and `None` entries included); the input
files are left as they were. -/
theorem merge_memmap_eq (thr : Int) (fs : FS) (ps : List (Option (MStore K)))
    (hv : ∀ m, some m ∈ ps → m.Valid fs) :
    (mergeOptMem thr fs ps).2.map (MStore.load (mergeOptMem thr fs ps).1) =
      mergeOpt thr (ps.map (Option.map (MStore.load fs))) ∧
    (∀ q < fs.length, (mergeOptMem thr fs ps).1.read q = fs.read q) :=
  mergeOptMem_spec thr fs ps hv

theorem mergeOpt_map_some (thr : Int) (ss : List (Store K)) : mergeOpt thr (ss.map some) = merge thr ss := by
  match ss with
  | [] => rfl
  | [_] => rfl
  | s1 :: s2 :: rest =>
    have : ((s1 :: s2 :: rest).map some).filterMap id = s1 :: s2 :: rest := by simp
    simp only [mergeOpt, merge, List.map_cons]
    simp

/-- End to end on disk: analyzers of a tiling hand out memory maps, `merge(use_memmap=True)` combines them; what
the merged memory maps hold is a correct aggregate of the whole tiling (so every statement proved for the
in-memory merge — maximum, marker, attaining rotation, bijective table, order and grouping — holds for it). -/
theorem merge_memmap_represents {thr : Int} {d : Nat} (ts : List (Tile K))
    (hd : ∀ t ∈ ts, t.offset.length = d ∧ t.shape.length = d)
    (fs : FS) (ms : List (MStore K)) (hv : ∀ m ∈ ms, m.Valid fs)
    (hload : ms.map (MStore.load fs) = ts.map (tileStore thr))
    {M : MStore K} (hM : (mergeOptMem thr fs (ms.map some)).2 = some M) :
    Represents thr (M.load (mergeOptMem thr fs (ms.map some)).1) ts := by
  have sp := (merge_memmap_eq thr fs (ms.map some) (by
    intro m hm
    obtain ⟨m', hm', e⟩ := List.mem_map.mp hm
    cases e
    exact hv m hm')).1
  rw [hM] at sp
  have e : (ms.map some).map (Option.map (MStore.load fs)) = (ms.map (MStore.load fs)).map some := by
    simp [List.map_map, Function.comp_def]
  rw [e, hload, mergeOpt_map_some] at sp
  exact merge_tiles_represents ts hd sp.symm

section examples
/-- two analyzers write their results to files 0‥3, the merge creates files 4 and 5 -/
def fsEx : FS × List (MStore String) :=
  let a := iterMem [] (run tA.shape 0 tA.hist) tA.offset
  let b := iterMem a.1 (run tB.shape 0 tB.hist) tB.offset
  (b.1, [a.2, b.2])
example : fsEx.2.map (MStore.load fsEx.1) = [tA, tB].map (tileStore 0) := by rfl
example : (∀ m ∈ fsEx.2, m.Valid fsEx.1) ∧
    ((mergeOptMem 0 fsEx.1 (fsEx.2.map some)).2.map (fun M => (M.scores, M.rots))) = some (4, 5) ∧
    ((mergeOptMem 0 fsEx.1 (fsEx.2.map some)).1.read 4).toList = [3, 4, 9] ∧
    ((mergeOptMem 0 fsEx.1 (fsEx.2.map some)).1.read 5).toList = [0, 1, 0] := by decide
end examples

/-! ## `MemmapHandler`: one file per rotation, submissions are added to a box of that file -/

/-- After any history whose rotations all have a file, every file holds, voxel by voxel, what it held before plus
everything submitted for *its* rotation (placed at the box `starts`), files keep their shape, none is created. -/
theorem memmap_handler_file_eq_sum (paths : Table K) (starts : List Nat) (h : List (Arr Int × K)) (fs : FS)
    (hk : ∀ ak ∈ h, (lookup ak.2 paths).isSome) :
    ∃ fs', memmapHandlerRun paths starts fs h = some fs' ∧ fs'.length = fs.length ∧
      ∀ p, (fs'.read p).shape = (fs.read p).shape ∧
        ∀ idx, p < fs.length → inShape (fs.read p).shape idx = true →
          (fs'.read p).getD idx 0 = (fs.read p).getD idx 0 + handlerAdded paths starts h p idx :=
  memmapHandler_spec paths starts h fs hk

/-- a rotation without a file stops the run (`KeyError`) -/
theorem memmap_handler_unknown_rotation (paths : Table K) (starts : List Nat) :
    ∀ (h : List (Arr Int × K)) (fs : FS), (∃ ak ∈ h, lookup ak.2 paths = none) →
      memmapHandlerRun paths starts fs h = none
  | [], _, hex => by obtain ⟨_, hm, _⟩ := hex; cases hm
  | ak :: t, fs, hex => by
      rw [memmapHandlerRun_cons]
      cases hc : memmapHandlerCall paths starts fs ak.1 ak.2 with
      | none => rfl
      | some fs1 =>
        simp only [Option.bind_some]
        apply memmap_handler_unknown_rotation paths starts t fs1
        obtain ⟨x, hx, hn⟩ := hex
        rcases List.mem_cons.mp hx with e | hx'
        · subst e
          simp [memmapHandlerCall, hn] at hc
        · exact ⟨x, hx', hn⟩

section examples
/-- two rotations, two files of shape [3]; arrays of shape [2] are added at position 1 -/
example : (memmapHandlerRun [("r0", 0), ("r1", 1)] [1] [⟨[3], #[1, 1, 1]⟩, ⟨[3], #[0, 0, 0]⟩]
      [(⟨[2], #[5, 6]⟩, "r0"), (⟨[2], #[1, 2]⟩, "r1"), (⟨[2], #[10, 20]⟩, "r0")]).map (fun fs => fs.map Arr.toList)
    = some [[1, 16, 27], [0, 1, 2]] ∧
    handlerAdded [("r0", 0), ("r1", 1)] [1] [(⟨[2], #[5, 6]⟩, "r0"), (⟨[2], #[1, 2]⟩, "r1"), (⟨[2], #[10, 20]⟩, "r0")] 0 [2] = 26 ∧
    (memmapHandlerRun [("r0", 0)] [1] [⟨[3], #[1, 1, 1]⟩] [(⟨[2], #[5, 6]⟩, "r7")]).isNone = true := by decide
end examples

/-! ## the `score_threshold` handed to `merge` -/

/-- `merge(stores, score_threshold=thr')` through its general path (two or more entries, `None`s allowed): when
every store is a correct aggregate for a threshold of its own that is not above `thr'`, the result is a correct
aggregate *for `thr'`* of everything — maximum above `thr'`, else `thr'`; marker exactly where nothing exceeds `thr'`;
attaining rotation; bijective table.  (`merge_represents` is the case of equal thresholds.) -/
theorem merge_threshold_raise {thr' : Int} {d : Nat} (pairs : List (Store K × List (Tile K)))
    (hrep : ∀ pr ∈ pairs, ∃ thr, thr ≤ thr' ∧ Represents thr pr.1 pr.2) (hd : SameDim d (pairs.map Prod.fst))
    (ps : List (Option (Store K))) (hps : ps.filterMap id = pairs.map Prod.fst) (hlen : 2 ≤ ps.length)
    {M : Store K} (hM : mergeOpt thr' ps = some M) :
    Represents thr' M (pairs.map Prod.snd).flatten := by
  match ps, hps, hlen, hM with
  | [], _, hlen, _ => simp at hlen
  | [_], _, hlen, _ => simp at hlen
  | p1 :: p2 :: rest, hps, _, hM =>
    simp only [mergeOpt] at hM
    rw [hps] at hM
    cases hp : pairs.map Prod.fst with
    | nil => rw [hp] at hM; cases hM
    | cons S ss =>
      rw [hp] at hM
      simp only [Option.some.injEq] at hM
      subst hM
      rw [← hp]
      exact mergeMany_represents_raise pairs hrep hd

example : ∃ M, mergeOpt 3 [some (tileStore 0 tA), some (tileStore 1 tB)] = some M ∧
    M.scores.toList = [3, 4, 9] ∧ M.rots.toList = [-1, 1, 0] := ⟨_, rfl, by decide⟩
example : (0 : Int) ≤ 3 ∧ (1 : Int) ≤ 3 ∧ Represents 1 (tileStore 1 tB) [tB] := ⟨by decide, by decide, tileStore_represents 1 tB⟩

/-- The hypothesis is needed: with a threshold *below* the stores' a voxel that was never improved (value = the
stores' threshold 5, marker) wins against the lower fill value, its marker `-1` is sent through `lookup_table[-1]`,
the spare last entry, and comes out as identifier 1 — the rotation "r1", which held 1 there, not 5. -/
theorem merge_lower_threshold_marker_lost :
    let A := tileStore 5 (⟨[0], [2], [(⟨[2], #[7, 1]⟩, "r0")]⟩ : Tile String)
    let B := tileStore 5 (⟨[0], [2], [(⟨[2], #[1, 1]⟩, "r1")]⟩ : Tile String)
    A.rots.toList = [0, -1] ∧ (mergeMany 0 [A, B]).scores.toList = [7, 5] ∧ (mergeMany 0 [A, B]).rots.toList = [0, 1] ∧
    keyOf (mergeMany 0 [A, B]).table 1 = some "r1" := by decide

/-! ## `only_unique_rotations`, any history -/

/-- For *every* history — rotations repeated or not — on the `only_unique_rotations` path the identifier stored at
a voxel is the position in the history of a submission that attains the stored score there, and the analyzer's own
identifier → matrix dict (before `__iter__` inverts it) sends that identifier to the rotation of that submission.
(What can get lost with repeated rotations is only the inverted dict's entry, `unique_rotations_needs_unique`.) -/
theorem unique_rotations_id_is_position (shape : List Nat) (thr : Int) (h : List (Arr Int × K)) (idx : List Nat)
    (hin : inShape shape idx = true) (hr : (runInv shape thr h).rots.getD idx 0 ≠ -1) :
    ∃ (i : Nat) (a : Arr Int) (k : K), h[i]? = some (a, k) ∧ (runInv shape thr h).rots.getD idx 0 = (i : Int) ∧
      (i, k) ∈ (runInv shape thr h).imap ∧ a.getD idx 0 = (runInv shape thr h).scores.getD idx 0 ∧
      thr < (runInv shape thr h).scores.getD idx 0 := by
  have inv := invI_run shape thr h
  rcases inv.rot idx hin with ⟨h1, _⟩ | ⟨i, a, k, hm, hri, hv, ht⟩
  · exact absurd h1 hr
  · exact ⟨i, a, k, hm, hri, by rw [inv.imap_eq]; exact mem_imap_of_getElem? hm, hv, ht⟩

example : (runInv [2] 0 [((⟨[2], #[5, 0]⟩ : Arr Int), "r0"), (⟨[2], #[0, 7]⟩, "r0")]).rots.toList = [0, 1] ∧
    (runInv [2] 0 [((⟨[2], #[5, 0]⟩ : Arr Int), "r0"), (⟨[2], #[0, 7]⟩, "r0")]).imap = [(0, "r0"), (1, "r0")] := by decide

theorem handlerAdded_perm (paths : Table K) (starts : List Nat) (p : Nat) (idx : List Nat)
    {h h' : List (Arr Int × K)} (hp : h.Perm h') :
    handlerAdded paths starts h p idx = handlerAdded paths starts h' p idx := by
  induction hp with
  | nil => rfl
  | cons x _ ih => simp only [handlerAdded, ih]
  | swap x y l => simp only [handlerAdded]; omega
  | trans _ _ ih1 ih2 => rw [ih1, ih2]

/-- `MemmapHandler`: the files do not depend on the order in which the submissions arrive (the comment in the code
says the lock is not really needed because processes work on different rotations; as atomic actions the
submissions commute even for the same rotation). -/
theorem memmap_handler_order_free (paths : Table K) (starts : List Nat) (h h' : List (Arr Int × K)) (fs : FS)
    (hp : h.Perm h') (hk : ∀ ak ∈ h, (lookup ak.2 paths).isSome) :
    ∃ fs1 fs2, memmapHandlerRun paths starts fs h = some fs1 ∧ memmapHandlerRun paths starts fs h' = some fs2 ∧
      ∀ p idx, p < fs.length → inShape (fs.read p).shape idx = true →
        (fs1.read p).getD idx 0 = (fs2.read p).getD idx 0 := by
  obtain ⟨fs1, r1, _, f1⟩ := memmap_handler_file_eq_sum paths starts h fs hk
  obtain ⟨fs2, r2, _, f2⟩ := memmap_handler_file_eq_sum paths starts h' fs
    (fun ak hak => hk ak (hp.mem_iff.mpr hak))
  refine ⟨fs1, fs2, r1, r2, ?_⟩
  intro p idx hlt hin
  rw [(f1 p).2 idx hlt hin, (f2 p).2 idx hlt hin, handlerAdded_perm paths starts p idx hp]

example : ([((⟨[2], #[5, 6]⟩ : Arr Int), "r0"), (⟨[2], #[1, 2]⟩, "r1")]).Perm [(⟨[2], #[1, 2]⟩, "r1"), (⟨[2], #[5, 6]⟩, "r0")] :=
  List.Perm.swap _ _ _

/-! ## the whole disk pipeline, no hypotheses about files -/

/-- Analyzers of any tiling write their results to files one after the other (`use_memmap`), starting from any file
system; `merge(use_memmap=True)` combines the memory maps.  What the merged memory maps hold is a correct aggregate
of the whole tiling, and every file that existed before (and every analyzer's file) is left as it was. -/
theorem memmap_pipeline_represents {thr : Int} {d : Nat} (ts : List (Tile K))
    (hd : ∀ t ∈ ts, t.offset.length = d ∧ t.shape.length = d) (fs : FS) :
    let w := iterMemAll fs (ts.map (tileStore thr))
    let r := mergeOptMem thr w.1 (w.2.map some)
    (∀ M, r.2 = some M → Represents thr (M.load r.1) ts) ∧
    (∀ q < w.1.length, r.1.read q = w.1.read q) ∧ (∀ q < fs.length, r.1.read q = fs.read q) ∧
    w.2.map (MStore.load w.1) = ts.map (tileStore thr) := by
  intro w r
  obtain ⟨hl, hold, hload, hv⟩ := iterMemAll_spec (ts.map (tileStore thr)) fs
  have hsame := (merge_memmap_eq thr w.1 (w.2.map some) (by
    intro m hm
    obtain ⟨m', hm', e⟩ := List.mem_map.mp hm
    cases e
    exact hv m hm')).2
  refine ⟨?_, hsame, ?_, hload⟩
  · intro M hM
    exact merge_memmap_represents ts hd w.1 w.2 hv hload hM
  · intro q hq
    have hq' : q < w.1.length := by
      have : w.1.length = fs.length + 2 * (ts.map (tileStore thr)).length := hl
      omega
    rw [hsame q hq', hold q hq]

example : let w := iterMemAll ([] : FS) ([tA, tB].map (tileStore 0))
    w.2.map (fun m => (m.scores, m.rots)) = [(0, 1), (2, 3)] ∧
    ((mergeOptMem 0 w.1 (w.2.map some)).2.map (fun M => (M.scores, M.rots))) = some (4, 5) := by decide

/-- What `__iter__` reports on the `only_unique_rotations` path, for every history: the identifier of a rotation is
the position of its *last* submission (`lastId`: last entry of the identifier → matrix dict carrying that rotation);
rotations never submitted have none.  Together with `unique_rotations_id_is_position`: an identifier stored at a
voxel can be read back through the reported mapping exactly when its rotation was not submitted again later. -/
theorem inverted_map_last_position (shape : List Nat) (thr : Int) (h : List (Arr Int × K)) (offset : List Nat) (k : K) :
    lookup k (iterInv (runInv shape thr h) offset).table =
      lastId ((List.range h.length).zip (h.map Prod.snd)) k := by
  simp only [iterInv]
  rw [invertMap_lookup, (invI_run shape thr h).imap_eq]

example : lastId ((List.range 3).zip ["r0", "r1", "r0"]) "r0" = some 2 ∧
    lastId ((List.range 3).zip ["r0", "r1", "r0"]) "r1" = some 1 ∧
    lastId ((List.range 3).zip ["r0", "r1", "r0"]) "r2" = none := by decide

/-- … and on disk: the identifier read through the merged memory maps decodes, through the merged mapping, to a
rotation attaining the value read through the merged score map. -/
theorem memmap_merge_decode_attains {thr : Int} {d : Nat} (ts : List (Tile K))
    (hd : ∀ t ∈ ts, t.offset.length = d ∧ t.shape.length = d) (fs : FS)
    {M : MStore K} (hM : (mergeOptMem thr (iterMemAll fs (ts.map (tileStore thr))).1
        ((iterMemAll fs (ts.map (tileStore thr))).2.map some)).2 = some M)
    (p q : List Nat) :
    let S := M.load (mergeOptMem thr (iterMemAll fs (ts.map (tileStore thr))).1
        ((iterMemAll fs (ts.map (tileStore thr))).2.map some)).1
    localIdx S.offset S.scores.shape p = some q → S.rots.getD q 0 ≠ -1 →
    ∃ k, keyOf S.table (S.rots.getD q 0) = some k ∧ Attains ts p k (S.scores.getD q 0) := by
  intro S hl hr
  exact represents_decode_attains ((memmap_pipeline_represents ts hd fs).1 M hM) p q hl hr

/-! ## which rotation is reported at a tie -/

/-- The identifier at an improved voxel belongs to the *first* submission whose array holds the final value there:
every earlier submission is strictly below it (strict `>`: ties keep the first).  With `table_injective` this fixes
the rotation map completely — `run` is a function of the history, this says which. -/
theorem rot_first_attaining (shape : List Nat) (thr : Int) (h : List (Arr Int × K)) (idx : List Nat)
    (hin : inShape shape idx = true) (hr : (run shape thr h).rots.getD idx 0 ≠ -1) :
    ∃ (j : Nat) (a : Arr Int) (k : K) (i : Nat), h[j]? = some (a, k) ∧ lookup k (run shape thr h).table = some i ∧
      (run shape thr h).rots.getD idx 0 = (i : Int) ∧ a.getD idx 0 = (run shape thr h).scores.getD idx 0 ∧
      ∀ (j' : Nat) (a' : Arr Int) (k' : K), j' < j → h[j']? = some (a', k') →
        a'.getD idx 0 < (run shape thr h).scores.getD idx 0 := by
  obtain ⟨j, a, k, i, hj, hl, hri, ⟨⟨a1, k1, hj1, hv⟩, hb⟩⟩ := (invFirst_run shape thr h).first idx hin hr
  rw [hj] at hj1
  cases hj1
  exact ⟨j, a, k, i, hj, hl, hri, hv, hb⟩

/-- exA and exB both hold 3 at voxel 0: the first one's rotation is reported, whichever order they come in -/
example : (run [2] 0 [(exA, "r0"), (exB, "r1")]).rots.getD [0] 0 = 0 ∧
    keyOf (run [2] 0 [(exB, "r1"), (exA, "r0")]).table ((run [2] 0 [(exB, "r1"), (exA, "r0")]).rots.getD [0] 0) = some "r1" := by
  decide

/-! ## merging in the given order *is* aggregating everything at once — identifiers and table included -/

/-- `merge` of the analyzers of any tiling, in the given order, is equal to ONE analyzer of the merged volume fed
every submission of every tile (each array placed at its offset, the threshold outside its box — `bigHist`), tile
after tile: the same table with the same numbering, and at every voxel the same score and the same rotation
identifier (`merge_eq_aggregate_all` gave the scores and *an* attaining rotation; this gives the very identifier).
For the general path of `merge`, any number of tiles, overlapping or not. -/
theorem merge_eq_aggregate_at_once_exact (thr : Int) (ts : List (Tile K)) :
    let out := outShape (ts.map (tileStore thr))
    let M := mergeMany thr (ts.map (tileStore thr))
    let B := run out thr (bigHist thr out ts)
    M.table = B.table ∧ M.scores.shape = B.scores.shape ∧
    ∀ p, inShape out p = true → M.scores.getD p 0 = B.scores.getD p 0 ∧ M.rots.getD p 0 = B.rots.getD p 0 :=
  mergeMany_eq_aggregate_at_once thr ts

/-- the same for `merge` as called with two or more partial results -/
theorem merge_two_or_more_eq_at_once (thr : Int) (t1 t2 : Tile K) (ts : List (Tile K)) {M : Store K}
    (hM : merge thr ((t1 :: t2 :: ts).map (tileStore thr)) = some M) :
    let out := outShape ((t1 :: t2 :: ts).map (tileStore thr))
    let B := run out thr (bigHist thr out (t1 :: t2 :: ts))
    M.table = B.table ∧
    ∀ p, inShape out p = true → M.scores.getD p 0 = B.scores.getD p 0 ∧ M.rots.getD p 0 = B.rots.getD p 0 := by
  intro out B
  simp only [List.map_cons, merge, Option.some.injEq] at hM
  subst hM
  have := merge_eq_aggregate_at_once_exact thr (t1 :: t2 :: ts)
  simp only [List.map_cons] at this
  exact ⟨this.1, this.2.2⟩

/-- overlapping tiles with different local numberings: merged and at-once agree (table, scores, identifiers) -/
example : let out := outShape ([tA, tB].map (tileStore 0))
    let M := mergeMany 0 ([tA, tB].map (tileStore 0))
    let B := run out 0 (bigHist 0 out [tA, tB])
    out = [3] ∧ M.table = B.table ∧ M.scores.toList = B.scores.toList ∧ M.rots.toList = B.rots.toList ∧
    B.rots.toList = [0, 1, 0] := by decide

/-- … and on disk: what the memory maps of `merge(use_memmap=True)` hold for two or more memory-mapped analyzers
of a tiling is, voxel by voxel and identifier by identifier, the one analyzer fed everything at once. -/
theorem memmap_merge_eq_at_once (thr : Int) (t1 t2 : Tile K) (ts : List (Tile K)) (fs : FS) (ms : List (MStore K))
    (hv : ∀ m ∈ ms, m.Valid fs) (hload : ms.map (MStore.load fs) = (t1 :: t2 :: ts).map (tileStore thr))
    {M : MStore K} (hM : (mergeOptMem thr fs (ms.map some)).2 = some M) :
    let S := M.load (mergeOptMem thr fs (ms.map some)).1
    let out := outShape ((t1 :: t2 :: ts).map (tileStore thr))
    let B := run out thr (bigHist thr out (t1 :: t2 :: ts))
    S.table = B.table ∧
    ∀ p, inShape out p = true → S.scores.getD p 0 = B.scores.getD p 0 ∧ S.rots.getD p 0 = B.rots.getD p 0 := by
  intro S out B
  have sp := (merge_memmap_eq thr fs (ms.map some) (by
    intro m hm
    obtain ⟨m', hm', e⟩ := List.mem_map.mp hm
    cases e
    exact hv m hm')).1
  rw [hM] at sp
  have e : (ms.map some).map (Option.map (MStore.load fs)) = (ms.map (MStore.load fs)).map some := by
    simp [List.map_map, Function.comp_def]
  rw [e, hload, mergeOpt_map_some] at sp
  exact merge_two_or_more_eq_at_once thr t1 t2 ts sp.symm

example : fsEx.2.map (MStore.load fsEx.1) = (tA :: tB :: []).map (tileStore 0) := by rfl

/-- … and after concurrent submissions under the lock: whatever the schedule, once every process has finished the
identifier at an improved voxel of the shared analyzer decodes, through the shared mapping, to a rotation that some
process submitted with an array attaining the shared score there. -/
theorem concurrent_decode_attains (shape : List Nat) (thr : Int) (work : List (List (Arr Int × K)))
    (sched : List Nat)
    (hdone : ∀ j, ((runSched true (sysInit shape thr work) sched).procs j).todo = [])
    (idx : List Nat) (hin : inShape shape idx = true)
    (hr : (runSched true (sysInit shape thr work) sched).shared.rots.getD idx 0 ≠ -1) :
    ∃ a k, (a, k) ∈ work.flatten ∧
      keyOf (runSched true (sysInit shape thr work) sched).shared.table
        ((runSched true (sysInit shape thr work) sched).shared.rots.getD idx 0) = some k ∧
      a.getD idx 0 = (runSched true (sysInit shape thr work) sched).shared.scores.getD idx 0 := by
  obtain ⟨⟨serial, hmem, hs⟩, _⟩ := concurrent_no_lost_update shape thr work sched hdone
  rw [hs] at hr ⊢
  obtain ⟨a, k, hm, hk, hv⟩ := rot_decodes_attains shape thr serial idx hin hr
  exact ⟨a, k, (hmem _).mp hm, hk, hv⟩

section examples
/-- hypotheses of `concurrent_decode_attains`: the locked schedule above finishes with an improved voxel -/
example : let sys := runSched true (sysInit [1] 0 [[(w5, 0)], [(w7, 1)]]) (raceSched ++ [1, 1, 1, 1, 1])
    allDone sys 2 = true ∧ inShape [1] [0] = true ∧ sys.shared.rots.getD [0] 0 ≠ -1 ∧
    keyOf sys.shared.table (sys.shared.rots.getD [0] 0) = some 1 := by decide

/-- hypotheses of `merge_matrix_decode_attains`: two overlapping tiles whose rotations are 2 × 2 matrices -/
def mA : Tile (List Nat) := ⟨[0], [2], [(⟨[2], #[3, 1]⟩, matKey [[1, 0], [0, 1]])]⟩
def mB : Tile (List Nat) := ⟨[1], [2], [(⟨[2], #[4, -2]⟩, matKey [[0, 1], [1, 0]]), (⟨[2], #[0, 9]⟩, matKey [[1, 0], [0, 1]])]⟩
example : (∀ t ∈ [mA, mB], ∀ ak ∈ t.hist, ak.2 = matKey [[1, 0], [0, 1]] ∨ ak.2 = matKey [[0, 1], [1, 0]]) ∧
    IsMat 2 ([[1, 0], [0, 1]] : List (List Nat)) ∧ IsMat 2 ([[0, 1], [1, 0]] : List (List Nat)) ∧
    decodeRot 2 (mergeMany 0 ([mA, mB].map (tileStore 0))).table
      ((mergeMany 0 ([mA, mB].map (tileStore 0))).rots.getD [1] 0) = some [[0, 1], [1, 0]] := by decide
example : Represents 0 (mergeMany 0 ([mA, mB].map (tileStore 0))) [mA, mB] :=
  merge_tiles_represents (d := 1) [mA, mB] (by decide) rfl
end examples

/-- `tuple(analyzer)` with `use_memmap` is `array_to_memmap` applied to both arrays of the in-memory result (the
function the driver runs on every store before `mergeOptMem`) -/
theorem iterMem_eq_storeToFiles (fs : FS) (s : State K) (offset : List Nat) :
    iterMem fs s offset = storeToFiles fs (s.toStore offset) := rfl

/-- … and for `merge` as it is called, with `None` entries among two or more raw entries: still equal to the one
analyzer fed everything (the `None`s are skipped, the order of the others is kept). -/
theorem mergeOpt_eq_at_once (thr : Int) (ts : List (Tile K)) (ps : List (Option (Store K)))
    (hps : ps.filterMap id = ts.map (tileStore thr)) (hlen : 2 ≤ ps.length)
    {M : Store K} (hM : mergeOpt thr ps = some M) :
    let out := outShape (ts.map (tileStore thr))
    let B := run out thr (bigHist thr out ts)
    M.table = B.table ∧
    ∀ p, inShape out p = true → M.scores.getD p 0 = B.scores.getD p 0 ∧ M.rots.getD p 0 = B.rots.getD p 0 := by
  intro out B
  match ps, hps, hlen, hM with
  | [], _, hlen, _ => simp at hlen
  | [_], _, hlen, _ => simp at hlen
  | p1 :: p2 :: rest, hps, _, hM =>
    simp only [mergeOpt] at hM
    rw [hps] at hM
    cases hts : ts.map (tileStore thr) with
    | nil => rw [hts] at hM; cases hM
    | cons S ss =>
      rw [hts] at hM
      simp only [Option.some.injEq] at hM
      subst hM
      have := merge_eq_aggregate_at_once_exact thr ts
      simp only [hts] at this
      have hout : out = outShape (S :: ss) := by simp only [out, hts]
      have hB : B = run (outShape (S :: ss)) thr (bigHist thr (outShape (S :: ss)) ts) := by simp only [B, out, hts]
      rw [hout, hB]
      exact ⟨this.1, this.2.2⟩

example : [none, some (tileStore 0 tA), none, some (tileStore 0 tB)].filterMap id = [tA, tB].map (tileStore 0) ∧
    2 ≤ [none, some (tileStore 0 tA), none, some (tileStore 0 tB)].length := ⟨rfl, by decide⟩

/-! # third layer: algebra of one submission, monotonicity, bounds, no-op submissions, schedule independence -/

/-- Resubmitting the same array with the same rotation changes nothing: scores, identifiers and table are
*equal* to those after the first submission (`__call__` is idempotent). -/
theorem submit_idempotent (s : State K) (a : Arr Int) (k : K) :
    submit (submit s a k) a k = submit s a k := by
  obtain ⟨hlk, _, _⟩ := setdefault_spec s.table k
  have gen : ∀ (t : Table K) (i : Nat), lookup k t = some i → setdefault t k = (t, i) := by
    intro t i h; unfold setdefault; rw [h]
  have hsd : setdefault (setdefault s.table k).1 k = ((setdefault s.table k).1, (setdefault s.table k).2) :=
    gen _ _ hlk
  have e : ∀ (x y : State K), x.scores = y.scores → x.rots = y.rots → x.table = y.table → x = y := by
    intro x y h1 h2 h3; cases x; cases y; simp_all
  have sc : ∀ (t : State K) (b : Arr Int) (kk : K), (submit t b kk).scores = Arr.ofFn t.scores.shape
      (fun idx => if b.getD idx 0 > t.scores.getD idx 0 then b.getD idx 0 else t.scores.getD idx 0) := fun _ _ _ => rfl
  have rt : ∀ (t : State K) (b : Arr Int) (kk : K), (submit t b kk).rots = Arr.ofFn t.scores.shape
      (fun idx => if b.getD idx 0 > t.scores.getD idx 0 then ((setdefault t.table kk).2 : Int) else t.rots.getD idx 0) :=
    fun _ _ _ => rfl
  apply e
  · rw [sc (submit s a k), submit_shape, sc s]
    apply Arr.ofFn_congr
    intro idx hin
    rw [Arr.getD_ofFn _ _ _ _ hin]
    split <;> (try split) <;> omega
  · rw [rt (submit s a k), submit_shape, rt s]
    apply Arr.ofFn_congr
    intro idx hin
    rw [submit_scores_getD _ _ _ _ hin, Arr.getD_ofFn _ _ _ _ hin]
    split
    · omega
    · rfl
  · rw [submit_table, submit_table, hsd]

/-- Two submissions commute on the score map: the arrays after `a` then `b` and after `b` then `a` are equal
(whatever the rotations and the state they are submitted to). -/
theorem submit_comm_scores (s : State K) (a b : Arr Int) (k k' : K) :
    (submit (submit s a k) b k').scores = (submit (submit s b k') a k).scores := by
  have sc : ∀ (t : State K) (b : Arr Int) (kk : K), (submit t b kk).scores = Arr.ofFn t.scores.shape
      (fun idx => if b.getD idx 0 > t.scores.getD idx 0 then b.getD idx 0 else t.scores.getD idx 0) := fun _ _ _ => rfl
  rw [sc (submit s a k), sc (submit s b k'), submit_shape, submit_shape]
  apply Arr.ofFn_congr
  intro idx hin
  rw [submit_scores_getD _ _ _ _ hin, submit_scores_getD _ _ _ _ hin]
  split <;> split <;> omega

/-- The identifier map after two submissions, exactly: the second submission's identifier where it is strictly
above both the old map and the first array, else the first one's where that was strictly above the old map, else
the old identifier.  In particular on a tie between the two arrays the *first submitted* rotation stays. -/
theorem submit_two_rots (s : State K) (a b : Arr Int) (k k' : K) (idx : List Nat)
    (hin : inShape s.scores.shape idx = true) :
    (submit (submit s a k) b k').rots.getD idx 0 =
      if b.getD idx 0 > max (s.scores.getD idx 0) (a.getD idx 0) then ((setdefault (setdefault s.table k).1 k').2 : Int)
      else if a.getD idx 0 > s.scores.getD idx 0 then ((setdefault s.table k).2 : Int)
      else s.rots.getD idx 0 := by
  rw [submit_rots_getD _ _ _ _ (by exact hin), submit_scores_getD _ _ _ _ hin, submit_rots_getD _ _ _ _ hin, submit_table]

/-- ties: when both arrays hold the same value at a voxel and it improves the map, the identifier of the first
submitted rotation is stored, in either order of submission -/
theorem submit_tie_first_wins (s : State K) (a b : Arr Int) (k k' : K) (idx : List Nat)
    (hin : inShape s.scores.shape idx = true) (htie : a.getD idx 0 = b.getD idx 0)
    (himp : a.getD idx 0 > s.scores.getD idx 0) :
    (submit (submit s a k) b k').rots.getD idx 0 = ((setdefault s.table k).2 : Int) ∧
    (submit (submit s b k') a k).rots.getD idx 0 = ((setdefault s.table k').2 : Int) := by
  constructor
  · rw [submit_two_rots _ _ _ _ _ _ hin, if_neg (by omega), if_pos himp]
  · rw [submit_two_rots _ _ _ _ _ _ hin, if_neg (by omega), if_pos (by omega)]

example : inShape (run [2] 0 ([] : List (Arr Int × String))).scores.shape [0] = true ∧ exA.getD [0] 0 = exB.getD [0] 0 ∧
    exA.getD [0] 0 > (run [2] 0 ([] : List (Arr Int × String))).scores.getD [0] 0 := by decide

/-- One submission never decreases the map at any voxel, and the new value is the old one or the submitted one. -/
theorem submit_monotone (s : State K) (a : Arr Int) (k : K) (idx : List Nat)
    (hin : inShape s.scores.shape idx = true) :
    s.scores.getD idx 0 ≤ (submit s a k).scores.getD idx 0 ∧ a.getD idx 0 ≤ (submit s a k).scores.getD idx 0 ∧
    ((submit s a k).scores.getD idx 0 = s.scores.getD idx 0 ∨ (submit s a k).scores.getD idx 0 = a.getD idx 0) := by
  rw [submit_scores_getD _ _ _ _ hin]; omega

/-- Monotonicity: appending any further submissions never decreases the aggregated map at any voxel. -/
theorem scores_monotone_append (shape : List Nat) (thr : Int) (h h' : List (Arr Int × K)) (idx : List Nat)
    (hin : inShape shape idx = true) :
    (run shape thr h).scores.getD idx 0 ≤ (run shape thr (h ++ h')).scores.getD idx 0 := by
  rw [scores_eq_max_threshold _ _ _ _ hin, scores_eq_max_threshold _ _ _ _ hin]
  simp only [valsAt, List.map_append]
  rw [specMax_append]
  exact le_specMax _ _

/-- Upper bound: the aggregated value is at most any bound of the threshold and of all submitted values at that
voxel (so it is at most `max(threshold, all submitted values)`), and at least the threshold. -/
theorem scores_upper_bound (shape : List Nat) (thr m : Int) (h : List (Arr Int × K)) (idx : List Nat)
    (hin : inShape shape idx = true) (hthr : thr ≤ m) (hall : ∀ ak ∈ h, ak.1.getD idx 0 ≤ m) :
    thr ≤ (run shape thr h).scores.getD idx 0 ∧ (run shape thr h).scores.getD idx 0 ≤ m := by
  rw [scores_eq_max_threshold _ _ _ _ hin]
  refine ⟨le_specMax _ _, ?_⟩
  rcases specMax_eq_or_mem thr (valsAt h idx) with e | e
  · omega
  · obtain ⟨ak, hak, e'⟩ := List.mem_map.mp e
    have := hall ak hak
    omega

example : (0 : Int) ≤ 7 ∧ ∀ ak ∈ [(exA, "r0"), (exC, "r1")], ak.1.getD [0] 0 ≤ 7 := by decide

/-- Submitting an array that is nowhere above the current map changes nothing at any voxel: neither the score nor
the stored identifier (the table only gains the rotation if it is new). -/
theorem submit_dominated_noop (s : State K) (a : Arr Int) (k : K)
    (hdom : ∀ idx, inShape s.scores.shape idx = true → a.getD idx 0 ≤ s.scores.getD idx 0)
    (idx : List Nat) (hin : inShape s.scores.shape idx = true) :
    (submit s a k).scores.getD idx 0 = s.scores.getD idx 0 ∧ (submit s a k).rots.getD idx 0 = s.rots.getD idx 0 ∧
    (∀ k' i, lookup k' s.table = some i → lookup k' (submit s a k).table = some i) := by
  have := hdom idx hin
  refine ⟨?_, ?_, (setdefault_spec s.table k).2.1⟩
  · rw [submit_scores_getD _ _ _ _ hin]; omega
  · rw [submit_rots_getD _ _ _ _ hin, if_neg (by omega)]

example : ∀ idx, inShape (run [2] 0 [(exC, "r0")]).scores.shape idx = true →
    exB.getD idx 0 ≤ (run [2] 0 [(exC, "r0")]).scores.getD idx 0 := by
  intro idx h
  have : idx = [0] ∨ idx = [1] := by
    match idx, h with
    | [0], _ => exact Or.inl rfl
    | [1], _ => exact Or.inr rfl
  rcases this with rfl | rfl <;> decide

/-- Under the lock the final map does not depend on the schedule: two complete schedules of the same work give the
same value at every voxel. -/
theorem concurrent_schedule_independent (shape : List Nat) (thr : Int) (work : List (List (Arr Int × K)))
    (sched sched' : List Nat)
    (hdone : ∀ j, ((runSched true (sysInit shape thr work) sched).procs j).todo = [])
    (hdone' : ∀ j, ((runSched true (sysInit shape thr work) sched').procs j).todo = [])
    (idx : List Nat) (hin : inShape shape idx = true) :
    (runSched true (sysInit shape thr work) sched).shared.scores.getD idx 0 =
      (runSched true (sysInit shape thr work) sched').shared.scores.getD idx 0 := by
  rw [(concurrent_no_lost_update shape thr work sched hdone).2 idx hin,
    (concurrent_no_lost_update shape thr work sched' hdone').2 idx hin]


/-- Resubmitting any earlier submission (same array, same rotation) at any later time changes nothing: the table
is the same and every voxel keeps its score and its identifier. -/
theorem resubmit_earlier_noop (shape : List Nat) (thr : Int) (h : List (Arr Int × K)) (a : Arr Int) (k : K)
    (hmem : (a, k) ∈ h) :
    (run shape thr (h ++ [(a, k)])).table = (run shape thr h).table ∧
    ∀ idx, inShape shape idx = true →
      (run shape thr (h ++ [(a, k)])).scores.getD idx 0 = (run shape thr h).scores.getD idx 0 ∧
      (run shape thr (h ++ [(a, k)])).rots.getD idx 0 = (run shape thr h).rots.getD idx 0 := by
  rw [run_snoc]
  have hsh := run_shape shape thr h
  constructor
  · rw [submit_table]
    have hs : (lookup k (run shape thr h).table).isSome := ((inv_run shape thr h).keys k).mpr ⟨a, hmem⟩
    obtain ⟨i, hi⟩ := Option.isSome_iff_exists.mp hs
    unfold setdefault; rw [hi]
  · intro idx hin
    have hin' : inShape (run shape thr h).scores.shape idx = true := by rw [hsh]; exact hin
    have hle : a.getD idx 0 ≤ (run shape thr h).scores.getD idx 0 := by
      rw [scores_eq_max_threshold _ _ _ _ hin]
      exact mem_le_specMax (List.mem_map.mpr ⟨(a, k), hmem, rfl⟩)
    constructor
    · rw [submit_scores_getD _ _ _ _ hin']; omega
    · rw [submit_rots_getD _ _ _ _ hin', if_neg (by omega)]

example : (exA, "r0") ∈ [(exA, "r0"), (exC, "r1")] := List.mem_cons_self

/-- One pass of `merge`'s second loop with a partial result that is nowhere above the accumulated map (e.g. one
holding only the threshold) leaves every voxel of both output arrays as it was. -/
theorem mergeStep_dominated_noop (out : List Nat) (new : Table K) (acc : Arr Int × Arr Int) (S : Store K)
    (p : List Nat) (hin : inShape out p = true)
    (hdom : ∀ q, localIdx S.offset S.scores.shape p = some q → S.scores.getD q 0 ≤ acc.1.getD p 0) :
    (mergeStep out new acc S).1.getD p 0 = acc.1.getD p 0 ∧ (mergeStep out new acc S).2.getD p 0 = acc.2.getD p 0 := by
  simp only [mergeStep]
  rw [Arr.getD_ofFn _ _ _ _ hin, Arr.getD_ofFn _ _ _ _ hin]
  cases hl : localIdx S.offset S.scores.shape p with
  | none => exact ⟨rfl, rfl⟩
  | some q =>
    have := hdom q hl
    simp only
    rw [if_neg (by omega), if_neg (by omega)]
    exact ⟨rfl, rfl⟩

/-- what a correct aggregate holds at an absolute voxel: the maximum of everything submitted there (the threshold
outside its box) -/
theorem represents_valOr {thr : Int} {T : Store K} {us : List (Tile K)} (RT : Represents thr T us) (p : List Nat) :
    T.valOr thr p = specMax thr (allVals us p) := by
  simp only [Store.valOr, Store.valAt?]
  cases hl : localIdx T.offset T.scores.shape p with
  | none => simp [RT.outside p hl, specMax_nil]
  | some q => simpa using (RT.cell p q hl).1

/-- Merging with a partial result that never received a submission (its map holds only the threshold) is the
identity on the values: at every absolute voxel the merged result holds what the other operand held. -/
theorem merge_empty_partial_identity {thr : Int} {d : Nat} {A : Store K} {as : List (Tile K)}
    (RA : Represents thr A as) (hA : A.offset.length = d ∧ A.scores.shape.length = d)
    (off shp : List Nat) (he : off.length = d ∧ shp.length = d)
    {M M' : Store K} (hM : merge thr [A, tileStore thr ⟨off, shp, []⟩] = some M)
    (hM' : merge thr [tileStore thr ⟨off, shp, []⟩, A] = some M') (p : List Nat) :
    M.valOr thr p = A.valOr thr p ∧ M'.valOr thr p = A.valOr thr p := by
  have RE := tileStore_represents thr (⟨off, shp, []⟩ : Tile K)
  have hE : (tileStore thr (⟨off, shp, []⟩ : Tile K)).offset.length = d ∧
      (tileStore thr (⟨off, shp, []⟩ : Tile K)).scores.shape.length = d := by
    simp only [tileStore, State.toStore]
    rw [run_shape]; exact he
  have tv : tileVals (⟨off, shp, []⟩ : Tile K) p = [] := by
    simp only [tileVals]; split <;> rfl
  have R1 : Represents thr M (as ++ [⟨off, shp, []⟩]) := by
    have := merge_represents [(A, as), (tileStore thr (⟨off, shp, []⟩ : Tile K), [⟨off, shp, []⟩])] (by
      intro pr hpr
      rcases List.mem_cons.mp hpr with rfl | hpr
      · exact RA
      · rcases List.mem_cons.mp hpr with rfl | hpr
        · exact RE
        · cases hpr) (d := d) (by
      intro S hS
      rcases List.mem_cons.mp hS with rfl | hS
      · exact hA
      · rcases List.mem_cons.mp hS with rfl | hS
        · exact hE
        · cases hS) (M := M) hM
    simpa using this
  have R2 : Represents thr M' ([⟨off, shp, []⟩] ++ as) := by
    have := merge_represents [(tileStore thr (⟨off, shp, []⟩ : Tile K), [⟨off, shp, []⟩]), (A, as)] (by
      intro pr hpr
      rcases List.mem_cons.mp hpr with rfl | hpr
      · exact RE
      · rcases List.mem_cons.mp hpr with rfl | hpr
        · exact RA
        · cases hpr) (d := d) (by
      intro S hS
      rcases List.mem_cons.mp hS with rfl | hS
      · exact hE
      · rcases List.mem_cons.mp hS with rfl | hS
        · exact hA
        · cases hS) (M := M') hM'
    simpa using this
  rw [represents_valOr R1, represents_valOr R2, represents_valOr RA]
  simp [allVals, tv]

example : ∃ M, merge 0 [tileStore 0 tA, tileStore 0 (⟨[1], [2], []⟩ : Tile String)] = some M ∧
    M.scores.toList = [3, 1, 0] := ⟨_, rfl, by decide⟩

/-- Re-indexing of rotation identifiers in `merge` is injective on every store: two different identifiers of a
store are sent by its `lookup_table` to two different identifiers of the merged table. -/
theorem merge_remap_injective {ss : List (Store K)} {S : Store K} (hS : S ∈ ss) (ok : TableOK S.table)
    {k k' : K} {i i' : Nat} (hk : lookup k S.table = some i) (hk' : lookup k' S.table = some i')
    (heq : lutGet (lookupTable S.table (newTable ss)) (i : Int) = lutGet (lookupTable S.table (newTable ss)) (i' : Int)) :
    i = i' ∧ k = k' := by
  have h1 := (merge_remap_decode hS ok hk).1
  have h2 := (merge_remap_decode hS ok hk').1
  rw [heq, h2] at h1
  have e : k' = k := Option.some.inj h1
  subst e
  rw [hk] at hk'
  exact ⟨Option.some.inj hk', rfl⟩


/-- Associativity at full strength, `n` groups: merge each group of partial results on its own, then merge the `n`
group results — the outcome is a correct aggregate of all tiles and holds at every absolute voxel the same value
as one `merge` call over all tiles of all groups. -/
theorem merge_n_groups {thr : Int} {d : Nat} (pairs : List (Store K × List (Tile K)))
    (hg : ∀ pr ∈ pairs, merge thr (pr.2.map (tileStore thr)) = some pr.1)
    (hdt : ∀ pr ∈ pairs, ∀ t ∈ pr.2, t.offset.length = d ∧ t.shape.length = d)
    (hd : SameDim d (pairs.map Prod.fst))
    {M N : Store K} (hM : merge thr (pairs.map Prod.fst) = some M)
    (hN : merge thr ((pairs.map Prod.snd).flatten.map (tileStore thr)) = some N) (p : List Nat) :
    Represents thr M (pairs.map Prod.snd).flatten ∧ M.valOr thr p = N.valOr thr p := by
  have hrep : ∀ pr ∈ pairs, Represents thr pr.1 pr.2 :=
    fun pr hpr => merge_tiles_represents pr.2 (hdt pr hpr) (hg pr hpr)
  have R := merge_represents pairs hrep hd hM
  have RN : Represents thr N (pairs.map Prod.snd).flatten := by
    refine merge_tiles_represents (d := d) _ ?_ hN
    intro t ht
    obtain ⟨l, hl, htl⟩ := List.mem_flatten.mp ht
    obtain ⟨pr, hpr, rfl⟩ := List.mem_map.mp hl
    exact hdt pr hpr t htl
  exact ⟨R, represents_valOr_eq (List.Perm.refl _) R RN p⟩

example : (∀ pr ∈ [(tileStore 0 tA, [tA]), (tileStore 0 tB, [tB])], merge 0 (pr.2.map (tileStore 0)) = some pr.1) ∧
    ∃ M, merge 0 ([(tileStore 0 tA, [tA]), (tileStore 0 tB, [tB])].map Prod.fst) = some M := by
  refine ⟨?_, _, rfl⟩
  intro pr hpr
  rcases List.mem_cons.mp hpr with rfl | hpr
  · rfl
  · rcases List.mem_cons.mp hpr with rfl | hpr
    · rfl
    · cases hpr

/-- Splitting a history: the aggregate of `h ++ h'` is, voxel by voxel, the larger of the aggregates of `h` and of
`h'` (two analyzers of the same volume and threshold can be combined by an element-wise maximum). -/
theorem scores_append_eq_max (shape : List Nat) (thr : Int) (h h' : List (Arr Int × K)) (idx : List Nat)
    (hin : inShape shape idx = true) :
    (run shape thr (h ++ h')).scores.getD idx 0 =
      max ((run shape thr h).scores.getD idx 0) ((run shape thr h').scores.getD idx 0) := by
  rw [scores_eq_max_threshold _ _ _ _ hin, scores_eq_max_threshold _ _ _ _ hin, scores_eq_max_threshold _ _ _ _ hin]
  simp only [valsAt, List.map_append]
  rw [specMax_append, max_specMax _ (le_specMax thr _)]

/-- Raising the configured threshold: the aggregate for a threshold `thr' ≥ thr` is the aggregate for `thr` clipped
from below at `thr'`; in particular it never decreases with the threshold. -/
theorem scores_threshold_raise (shape : List Nat) (thr thr' : Int) (hle : thr ≤ thr') (h : List (Arr Int × K))
    (idx : List Nat) (hin : inShape shape idx = true) :
    (run shape thr' h).scores.getD idx 0 = max thr' ((run shape thr h).scores.getD idx 0) ∧
    (run shape thr h).scores.getD idx 0 ≤ (run shape thr' h).scores.getD idx 0 := by
  rw [scores_eq_max_threshold _ _ _ _ hin, scores_eq_max_threshold _ _ _ _ hin]
  have := max_specMax (valsAt h idx) hle
  omega


/-- A voxel that holds a rotation identifier keeps one as submissions are appended: it never falls back to the
'no rotation' marker. -/
theorem marker_never_returns (shape : List Nat) (thr : Int) (h h' : List (Arr Int × K)) (idx : List Nat)
    (hin : inShape shape idx = true) (hr : (run shape thr h).rots.getD idx 0 ≠ -1) :
    (run shape thr (h ++ h')).rots.getD idx 0 ≠ -1 := by
  intro e
  apply hr
  rw [untouched_marker _ _ _ _ hin] at e ⊢
  intro x hx
  apply e x
  simp only [valsAt, List.map_append, List.mem_append]
  exact Or.inl hx

/-- Identifiers are never re-assigned: the rotation table after further submissions extends the earlier table
(same rotations, same identifiers, new rotations appended). -/
theorem table_prefix_append (shape : List Nat) (thr : Int) (h h' : List (Arr Int × K)) :
    ∃ l, (run shape thr (h ++ h')).table = (run shape thr h).table ++ l := by
  have sd : ∀ (t : Table K) (k : K), ∃ l, (setdefault t k).1 = t ++ l := by
    intro t k
    unfold setdefault
    cases lookup k t with
    | some i => exact ⟨[], by simp⟩
    | none => exact ⟨[(k, t.length)], rfl⟩
  have gen : ∀ (h' : List (Arr Int × K)) (s : State K), ∃ l, (runFrom s h').table = s.table ++ l := by
    intro h'
    induction h' with
    | nil => intro s; exact ⟨[], by simp [runFrom]⟩
    | cons x t ih =>
      intro s
      obtain ⟨l, hl⟩ := ih (submit s x.1 x.2)
      obtain ⟨l0, hl0⟩ := sd s.table x.2
      refine ⟨l0 ++ l, ?_⟩
      have : runFrom s (x :: t) = runFrom (submit s x.1 x.2) t := rfl
      rw [this, hl, submit_table, hl0, List.append_assoc]
  have : run shape thr (h ++ h') = runFrom (run shape thr h) h' := by
    simp [run, runFrom, List.foldl_append]
  rw [this]
  exact gen h' _


end Pm.C04
