import PytmeModel.Model.C11
import PytmeModel.Proofs.C11
import PytmeModel.Proofs.C11Star
import PytmeModel.Proofs.C11Perm

/-! # C11 — orientation tables round-trip; subsetting; extraction windows -/
namespace Pm.C11

/-! ## extraction windows (per axis: every target extent `T`, box extent `e`, pick `p`) -/

/-- source and destination windows always have the same extent -/
theorem window_extents_eq (T e : Nat) (p : Int) :
    candEnd T e p - candBeg e p = obsEnd T e p - obsBeg e p := by
  unfold candEnd candBeg; omega

/-- the source window never leaves the target; for a pick inside the target it is a proper
(possibly empty) interval -/
theorem window_in_target (T e : Nat) (p : Int) :
    0 ≤ obsBeg e p ∧ obsEnd T e p ≤ T ∧ (0 ≤ p → p ≤ T → obsBeg e p ≤ obsEnd T e p) := by
  unfold obsBeg obsEnd leftPad rightPad; omega

/-- the destination window never leaves the box, whatever the parities, also when the box is
larger than the target -/
theorem window_in_box (T e : Nat) (p : Int) :
    0 ≤ candBeg e p ∧ candEnd T e p ≤ e ∧ (0 ≤ p → p ≤ T → candBeg e p ≤ candEnd T e p) := by
  unfold candBeg candEnd obsBeg obsEnd leftPad rightPad; omega

/-- the per-axis keep test holds exactly when the window has the full box extent -/
theorem kept_iff_full (T e : Nat) (p : Int) :
    keepAxis T e p = true ↔ candEnd T e p - candBeg e p = e := by
  have h := window_in_box T e p
  unfold keepAxis
  simp only [Bool.and_eq_true, beq_iff_eq]
  omega

/-- … and then the source window is the whole box-sized neighbourhood `[p - ⌈e/2⌉, p + ⌊e/2⌋)` -/
theorem kept_window (T e : Nat) (p : Int) (h : keepAxis T e p = true) :
    obsBeg e p = p - leftPad e ∧ obsEnd T e p = p + rightPad e ∧ obsEnd T e p - obsBeg e p = e := by
  have h1 := (kept_iff_full T e p).mp h
  have h2 := window_extents_eq T e p
  have h3 := window_in_box T e p
  unfold candBeg candEnd at *
  unfold obsBeg obsEnd leftPad rightPad at *
  omega

/-- which picks are kept: exactly those whose box `[p - ⌈e/2⌉, p + ⌊e/2⌋)` fits into the target -/
theorem keep_iff_fits (T e : Nat) (p : Int) :
    keepAxis T e p = true ↔ (leftPad e ≤ p ∧ p + rightPad e ≤ T) := by
  unfold keepAxis candBeg candEnd obsBeg obsEnd leftPad rightPad
  simp only [Bool.and_eq_true, beq_iff_eq]
  omega

/-- in particular a pick at least `⌈e/2⌉` away from both faces of the target is never dropped -/
theorem interior_kept (T e : Nat) (p : Int) (h1 : leftPad e ≤ p) (h2 : p + leftPad e ≤ T) :
    keepAxis T e p = true := by
  rw [keep_iff_fits]
  unfold leftPad rightPad at *
  omega

/-- n-D: a pick is kept exactly when every axis has the full extent -/
theorem keepPick_iff_full (T e : List Nat) (p : List Int) (h1 : T.length = e.length) (h2 : e.length = p.length) :
    keepPick T e p = true ↔
      ∀ w ∈ (windowAxes T e p).zip e, w.1.2.1 - w.1.1 = (w.2 : Int) := by
  induction T generalizing e p with
  | nil =>
    cases e with
    | nil => cases p <;> simp [keepPick, windowAxes]
    | cons => simp at h1
  | cons T Ts ih =>
    cases e with
    | nil => simp at h1
    | cons e es =>
      cases p with
      | nil => simp at h2
      | cons p ps =>
        simp only [List.length_cons, Nat.add_right_cancel_iff] at h1 h2
        simp only [keepPick, windowAxes, Bool.and_eq_true, List.zip_cons_cons, List.mem_cons, forall_eq_or_imp]
        rw [ih es ps h1 h2, kept_iff_full]

/-- n-D: every window produced for a pick satisfies the three per-axis clauses -/
theorem windowAxes_spec (T e : List Nat) (p : List Int) :
    ∀ w ∈ windowAxes T e p, w.2.1 - w.1 = w.2.2.2 - w.2.2.1 ∧ 0 ≤ w.1 ∧ 0 ≤ w.2.2.1 := by
  induction T generalizing e p with
  | nil => intro w hw; cases e <;> cases p <;> simp [windowAxes] at hw
  | cons T Ts ih =>
    cases e with
    | nil => intro w hw; simp [windowAxes] at hw
    | cons e es =>
      cases p with
      | nil => intro w hw; simp [windowAxes] at hw
      | cons p ps =>
        intro w hw
        simp only [windowAxes, List.mem_cons] at hw
        rcases hw with rfl | hw
        · exact ⟨window_extents_eq T e p, (window_in_box T e p).1, (window_in_target T e p).1⟩
        · exact ih es ps w hw

/-- one window per axis -/
theorem windowAxes_length (T e : List Nat) (p : List Int) (h1 : T.length = e.length) (h2 : e.length = p.length) :
    (windowAxes T e p).length = T.length := by
  induction T generalizing e p with
  | nil => cases e <;> cases p <;> simp [windowAxes]
  | cons T Ts ih =>
    cases e with
    | nil => simp at h1
    | cons e es =>
      cases p with
      | nil => simp at h2
      | cons p ps =>
        simp only [List.length_cons, Nat.add_right_cancel_iff] at h1 h2
        simp [windowAxes, ih es ps h1 h2]

example : windowAxes [10, 9] [4, 5] [0, 8] = [(2, 4, 0, 2), (0, 4, 5, 9)] := by decide
example : keepPick [10, 9] [4, 5] [5, 5] = true ∧ keepPick [10, 9] [4, 5] [0, 5] = false := by decide
example : keepAxis 3 7 1 = false ∧ candBeg 7 1 = 3 ∧ candEnd 3 7 1 = 6 := by decide


/-! ## native text format -/

/-- a row as the writer emits it: `d` translation and `r` angle tokens, every token a non-empty
whitespace-free string (what `str(np.float32)` produces) -/
structure RowWf (d r : Nat) (row : Row) : Prop extends RowOk d r row where
  toks : ∀ t ∈ row.tokens, tokWf t

/-- **text round trip**: for every number of translation (`d ≤ 26`) and angle (`1 ≤ r ≤ 26`)
columns and every table of 0..N rows, reading the written file gives back the same number of
rows in the same order, translation columns in the stored axis order, and angle / score /
detail tokens unchanged (bit-identity of the numbers = numpy's print/parse, trusted) -/
theorem text_roundtrip (d r : Nat) (hd : d ≤ 26) (hr1 : 1 ≤ r) (hr : r ≤ 26) (rows : List Row)
    (h : ∀ row ∈ rows, RowWf d r row) :
    readText (writeText d r rows) = .ok (Table.ofRows d r rows) := by
  have hw : ∀ toks ∈ textHeader d r :: rows.map Row.tokens, rowWf toks := by
    intro toks ht
    rcases List.mem_cons.mp ht with rfl | ht
    · exact header_rowWf d r
    · obtain ⟨row, hrow, rfl⟩ := List.mem_map.mp ht
      exact ⟨by simp [Row.tokens], (h row hrow).toks⟩
  unfold readText writeText
  rw [parseLines_renderLines '\t' (by decide) (by decide) _ hw]
  exact readTable_written d r hd hr1 hr rows (fun row hm => (h row hm).toRowOk)

/-- number of entries and order: the table read back has exactly the written rows -/
theorem text_roundtrip_count (d r : Nat) (hd : d ≤ 26) (hr1 : 1 ≤ r) (hr : r ≤ 26) (rows : List Row)
    (h : ∀ row ∈ rows, RowWf d r row) :
    ∃ t, readText (writeText d r rows) = .ok t ∧ t.trans.length = rows.length ∧ t.transCols = d ∧
      t.rotCols = r ∧ ∀ i (hi : i < rows.length), t.trans[i]? = some rows[i].trans ∧
        t.rot[i]? = some rows[i].rot ∧ t.score[i]? = some rows[i].score ∧ t.detail[i]? = some rows[i].detail := by
  refine ⟨_, text_roundtrip d r hd hr1 hr rows h, by simp [Table.ofRows], rfl, rfl, ?_⟩
  intro i hi
  simp [Table.ofRows, hi]

/-- **text files with permuted named columns**: a file that carries the writer's `d + r` column names in *any*
order `perm` (translation and angle columns may be interleaved; score and detail last), each row's tokens in the
same order, is read into exactly the table the canonical file gives: the reader's header-driven order
(`sorted(zip(names, range), reverse=True)` on the translation names and on the `euler_*` names) undoes every
permutation, for every number of rows.  (`text_roundtrip` is the case `perm = 0, 1, …` — `text_permuted_identity`.) -/
theorem text_roundtrip_permuted (d r : Nat) (hd : d ≤ 26) (hr1 : 1 ≤ r) (hr : r ≤ 26) (perm : List Nat)
    (hp : perm.Perm (List.range (d + r))) (rows : List Row) (h : ∀ row ∈ rows, RowWf d r row) :
    readText (writeTextPerm d r perm rows) = .ok (Table.ofRows d r rows) := by
  have hperm : ∀ k ∈ perm, k < d + r := fun k hk => List.mem_range.mp (hp.subset hk)
  have hw : ∀ toks ∈ permHeader d r perm :: rows.map (permTokens perm), rowWf toks := by
    intro toks ht
    rcases List.mem_cons.mp ht with rfl | ht
    · exact permHeader_rowWf d r hd hr perm hperm
    · obtain ⟨row, hrow, rfl⟩ := List.mem_map.mp ht
      exact permTokens_rowWf d r perm hperm row (h row hrow).toRowOk (h row hrow).toks
  unfold readText writeTextPerm
  rw [parseLines_renderLines '\t' (by decide) (by decide) _ hw]
  exact readTable_permuted d r hd hr1 hr perm hp rows (fun row hm => (h row hm).toRowOk)

/-- the identity order is the writer's own file, so the permuted statement contains the plain round trip -/
theorem text_permuted_identity (d r : Nat) (hd : d ≤ 26) (hr : r ≤ 26) (rows : List Row)
    (h : ∀ row ∈ rows, RowWf d r row) : writeTextPerm d r (List.range (d + r)) rows = writeText d r rows :=
  writeTextPerm_id d r hd hr rows (fun row hm => (h row hm).toRowOk)

/-- the order the reader computes, in general: for names that are the images of any permutation `ks` of `0..n-1`
under a key map on which Python's string order reverses the index order, gathering a row's values in the
computed order restores `0..n-1` -/
theorem text_sort_order_restores (ks : List Nat) (n : Nat) (hp : ks.Perm (List.range n)) (nm : Nat → Str)
    (hnm : ∀ a, a < n → ∀ b, b < n → strLt (nm a) (nm b) = decide (b < a)) (v : Nat → Str) :
    pick (ks.map v) (sortOrder (ks.map nm)) = .ok ((List.range n).map v) :=
  (sortOrder_restores ks n hp nm hnm v).1

/-- all hypotheses of `text_roundtrip_permuted` together -/
example : readText (writeTextPerm 3 2 [3, 0, 4, 2, 1] [⟨[['1'], ['2'], ['3']], [['8'], ['9']], ['5'], ['7']⟩]) =
    .ok ⟨[[['1'], ['2'], ['3']]], 3, [[['8'], ['9']]], 2, [['5']], [['7']]⟩ := by
  refine text_roundtrip_permuted 3 2 (by omega) (by omega) (by omega) _ (by decide) _ ?_
  intro row hr
  simp only [List.mem_cons, List.mem_nil_iff, or_false] at hr
  subst hr
  exact { lt := rfl, lr := rfl, toks := by decide }
example : [3, 0, 4, 2, 1].Perm (List.range (3 + 2)) := by decide
example : writeTextPerm 3 2 [3, 0, 4, 2, 1] [⟨[['1'], ['2'], ['3']], [['8'], ['9']], ['5'], ['7']⟩] =
    "euler_z\tz\teuler_y\tx\ty\tscore\tdetail\n8\t1\t9\t3\t2\t5\t7\n".toList := by decide
example : readText (writeTextPerm 3 2 [3, 0, 4, 2, 1] [⟨[['1'], ['2'], ['3']], [['8'], ['9']], ['5'], ['7']⟩]) =
    .ok (Table.ofRows 3 2 [⟨[['1'], ['2'], ['3']], [['8'], ['9']], ['5'], ['7']⟩]) := by decide
example : [2, 0, 1].Perm (List.range 3) ∧
    (∀ a, a < 3 → ∀ b, b < 3 → strLt (tnF a) (tnF b) = decide (b < a)) := by decide

/-- the header-driven column order: a file whose translation / angle columns are written in
another order (`x y z`, `euler_x …`) is read into the stored `z y x` order -/
theorem text_header_order :
    sortOrder [['x'], ['y'], ['z']] = [2, 1, 0] ∧ sortOrder [['z'], ['y'], ['x']] = [0, 1, 2] ∧
    sortOrder [['y'], ['x'], ['z']] = [2, 0, 1] := by decide

/-- the reader as it was before `fix: text orientation reader accepts files without data rows`:
a written table with no rows could not be read back (`np.vstack([])`) -/
theorem text_zero_rows_old_defect :
    readTextOld (writeText 3 3 []) = .error .valueError ∧
    readText (writeText 3 3 []) = .ok (Table.ofRows 3 3 []) := by
  constructor
  · decide
  · exact text_roundtrip 3 3 (by omega) (by omega) (by omega) [] (by simp)

example : RowWf 2 1 ⟨[['1','.','5'], ['2','.','0']], [['9','0','.','0']], ['0','.','5'], ['-','1','.','0']⟩ :=
  { lt := rfl, lr := rfl, toks := by decide }
example : writeText 2 1 [⟨[['1'], ['2']], [['9']], ['5'], ['7']⟩] =
    "z\ty\teuler_z\tscore\tdetail\n1\t2\t9\t5\t7\n".toList := by decide

/-! ## Dynamo table -/

/-- **Dynamo round trip** (token level): every written row comes back, in order, with the
translation restored to the stored z, y, x order (columns 26, 25, 24 ← `translation[::-1]`),
the three angle tokens of columns 7–9 and the score of column 10 -/
theorem tbl_roundtrip (sampling : Str) (hs : tokWf sampling) (rows : List TblRow) (h : ∀ r ∈ rows, TblWf r) :
    readTbl (writeTbl sampling rows) = .ok (rows.map TblRow.out) := by
  have hw : ∀ toks ∈ rows.map (TblRow.tokens sampling), rowWf toks := by
    intro toks ht
    obtain ⟨r, hr, rfl⟩ := List.mem_map.mp ht
    exact tblTokens_rowWf r sampling (h r hr) hs
  unfold readTbl writeTbl
  rw [splitOn_nl_renderLines ' ' (by decide) (by decide) _ hw]
  have hfil : (List.map (joinSep ' ') (rows.map (TblRow.tokens sampling)) ++ [[]]).filter
      (fun l => !(strip l).isEmpty) =
      List.map (joinSep ' ') (rows.map (TblRow.tokens sampling)) := by
    rw [List.filter_append, List.filter_eq_self.mpr]
    · simp [List.filter, strip, lstrip, rstrip]
    · intro l hl
      obtain ⟨toks, ht, rfl⟩ := List.mem_map.mp hl
      have hwf := hw toks ht
      rw [strip_joinSep ' ' toks hwf]
      cases toks with
      | nil => exact absurd rfl hwf.1
      | cons t ts =>
        have := joinSep_ne_nil ' ' t ts (hwf.2 t (by simp)).1
        cases hj : joinSep ' ' (t :: ts) with
        | nil => exact absurd hj this
        | cons => rfl
  have hmap : (List.map (joinSep ' ') (rows.map (TblRow.tokens sampling))).map
      (fun l => splitOn ' ' (strip l)) = rows.map (TblRow.tokens sampling) := by
    rw [List.map_map]
    conv => rhs; rw [← List.map_id (rows.map _)]
    apply List.map_congr_left
    intro toks ht
    exact splitOn_joinSep ' ' (by decide) toks (hw toks ht)
  simp only [hfil, hmap]
  cases rows with
  | nil => rfl
  | cons r rs =>
    simp only [List.map_cons]
    have h38 := (readTblRow_written r sampling (h r (by simp))).2
    simp only [h38, bne_self_eq_false, Bool.false_eq_true, if_false]
    rw [← List.map_cons (f := TblRow.tokens sampling), List.mapM_map,
      mapM_ok (readTblRow ∘ TblRow.tokens sampling) TblRow.out (r :: rs) (fun x hx => (readTblRow_written x sampling (h x hx)).1)]
    rfl

/-- the same for every value of the writer's further keyword arguments `name_prefix` and `subtomogram_size`
(accepted, never written): the table and what is read back do not depend on them -/
theorem tbl_roundtrip_opts (namePrefix size : Option Str) (sampling : Str) (hs : tokWf sampling) (rows : List TblRow)
    (h : ∀ r ∈ rows, TblWf r) :
    writeTblOpts namePrefix sampling size rows = writeTbl sampling rows ∧
    readTbl (writeTblOpts namePrefix sampling size rows) = .ok (rows.map TblRow.out) :=
  ⟨rfl, tbl_roundtrip sampling hs rows h⟩

/-- number of entries and order of the Dynamo round trip: one output row per written row, the i-th one carrying the
i-th row's translation (stored z, y, x order), angle tokens and score -/
theorem tbl_roundtrip_count (namePrefix size : Option Str) (sampling : Str) (hs : tokWf sampling) (rows : List TblRow)
    (h : ∀ r ∈ rows, TblWf r) :
    ∃ out, readTbl (writeTblOpts namePrefix sampling size rows) = .ok out ∧ out.length = rows.length ∧
      ∀ i (hi : i < rows.length), out[i]? = some ⟨rows[i].trans, rows[i].ang, rows[i].score⟩ := by
  refine ⟨_, (tbl_roundtrip_opts namePrefix size sampling hs rows h).2, by simp, ?_⟩
  intro i hi
  simp [hi, TblRow.out]

example : TblWf ⟨['0'], [['1','0','.','5'], ['9','0','.','0'], ['0','.','0']], [['1','.','5'], ['2','.','5'], ['3','.','5']], ['0','.','9']⟩ :=
  { ang := rfl, trans := rfl, toks := by decide }
example : (readTbl (writeTblOpts (some ['s','u','b']) ['1','.','0'] (some ['1','6'])
      [⟨['0'], [['7'], ['8'], ['9']], [['1'], ['2'], ['3']], ['5']⟩])) =
    .ok [⟨[['1'], ['2'], ['3']], [['7'], ['8'], ['9']], ['5']⟩] := by decide
example : (readTbl (writeTbl ['1','.','0'] [⟨['0'], [['7'], ['8'], ['9']], [['1'], ['2'], ['3']], ['5']⟩])) =
    .ok [⟨[['1'], ['2'], ['3']], [['7'], ['8'], ['9']], ['5']⟩] := by decide

/-! ## RELION STAR

Full statement, proved below for every number of rows, every well-formed token list and every combination of
the optional arguments (`name` none / one string / a list, `ctf_image` none / given), for both ways the reader
is called (`delimiter=None`, `delimiter="\t"`):

    writeStar size sampling name ctf rows >>= readStar delim =
      .ok ⟨[rows.map z, rows.map y, rows.map x], [rows.map rot, rows.map tilt, rows.map psi]⟩

The proof evaluates the fixed header lines through the parser's state machine (`parseFold`) symbolically
(`parseStar_written` in Proofs/C11Star.lean: optics category flushed when `data_particles` opens, every `_rln…`
line adding its key, the particle lines appended to the block), shows that the final dictionary pairs the column
names in file order with the columns of the block (`buildDict_nodup`, `flush_columns`), and discharges the six
look-ups `_rlnCoordinateZ/Y/X`, `_rlnAngleRot/Tilt/Psi` for all six header layouts (`pcols_idx`).
What stays with the correspondence check (Leg B): that the model's writer / parser are the code's (bytes and
tokens compared on every run), numpy's printing / parsing of the numbers and scipy's Euler conversion. -/

/-- **STAR round trip** (`delimiter=None`): for every particle list (0..N rows) of well-formed tokens, every
`name` argument (absent, one token, one token per particle) and `ctf_image` (absent or a token), the writer
succeeds and the reader gives back the coordinate columns in the stored z, y, x order and the three angle
columns, one entry per particle in file order -/
theorem star_roundtrip (size sampling : Str) (name : NameArg) (ctf : Option Str) (rows : List StarRow)
    (hsz : tokWf size) (hsa : tokWf sampling) (hn : NameOk name rows.length) (hc : ∀ s, ctf = some s → tokWf s)
    (hr : ∀ r ∈ rows, StarWf r) :
    (writeStar size sampling name ctf rows).bind (readStar none) = .ok (StarOut.ofRows rows) := by
  obtain ⟨text, hw, hrd, _⟩ := star_written_read none (Or.inl rfl) size sampling name ctf rows hsz hsa hn hc hr
  rw [hw]; exact hrd

/-- the same with `delimiter="\t"` (how RELION files are usually read) -/
theorem star_roundtrip_tab (size sampling : Str) (name : NameArg) (ctf : Option Str) (rows : List StarRow)
    (hsz : tokWf size) (hsa : tokWf sampling) (hn : NameOk name rows.length) (hc : ∀ s, ctf = some s → tokWf s)
    (hr : ∀ r ∈ rows, StarWf r) :
    (writeStar size sampling name ctf rows).bind (readStar (some '\t')) = .ok (StarOut.ofRows rows) := by
  obtain ⟨text, hw, hrd, _⟩ := star_written_read (some '\t') (Or.inr rfl) size sampling name ctf rows hsz hsa hn hc hr
  rw [hw]; exact hrd

/-- in the form "whatever text the writer returned": writing succeeds, and every text it can return reads back -/
theorem star_roundtrip_text (size sampling : Str) (name : NameArg) (ctf : Option Str) (rows : List StarRow)
    (hsz : tokWf size) (hsa : tokWf sampling) (hn : NameOk name rows.length) (hc : ∀ s, ctf = some s → tokWf s)
    (hr : ∀ r ∈ rows, StarWf r) :
    (∃ text, writeStar size sampling name ctf rows = .ok text) ∧
    ∀ text, writeStar size sampling name ctf rows = .ok text →
      readStar none text = .ok (StarOut.ofRows rows) ∧ readStar (some '\t') text = .ok (StarOut.ofRows rows) := by
  obtain ⟨t1, hw1, hr1, _⟩ := star_written_read none (Or.inl rfl) size sampling name ctf rows hsz hsa hn hc hr
  obtain ⟨t2, hw2, hr2, _⟩ := star_written_read (some '\t') (Or.inr rfl) size sampling name ctf rows hsz hsa hn hc hr
  refine ⟨⟨t1, hw1⟩, ?_⟩
  intro text ht
  rw [ht] at hw1 hw2
  injection hw1 with hw1; injection hw2 with hw2
  subst hw1; subst hw2
  exact ⟨hr1, hr2⟩

/-- the whole `data_particles` dictionary of a written file: exactly the column names of the header in file
order (7, 8 or 9 of them, depending on `name` / `ctf_image`), each with one entry per particle -/
theorem star_particles_dict (size sampling : Str) (name : NameArg) (ctf : Option Str) (rows : List StarRow)
    (hsz : tokWf size) (hsa : tokWf sampling) (hn : NameOk name rows.length) (hc : ∀ s, ctf = some s → tokWf s)
    (hr : ∀ r ∈ rows, StarWf r) :
    ∃ text cols, writeStar size sampling name ctf rows = .ok text ∧
      particles none text = .ok ((pcols name ctf).zip cols) ∧ cols.length = (pcols name ctf).length ∧
      ∀ c ∈ cols, c.length = rows.length := by
  obtain ⟨text, hw, _, cols, hl, hc', hp⟩ := star_written_read none (Or.inl rfl) size sampling name ctf rows hsz hsa hn hc hr
  exact ⟨text, cols, hw, hp, by rw [hl, pcols_length], hc'⟩

/-- number of entries and order: what is read back has one entry per written particle in every column, and the
i-th entries are the i-th particle's coordinates (stored z, y, x order) and angles -/
theorem star_roundtrip_entries (rows : List StarRow) (hr : ∀ r ∈ rows, StarWf r) :
    (∀ c ∈ (StarOut.ofRows rows).trans ++ (StarOut.ofRows rows).ang, c.length = rows.length) ∧
    ∀ i (hi : i < rows.length), (StarOut.ofRows rows).trans.map (fun c => c.getD i []) = rows[i].trans ∧
      (StarOut.ofRows rows).ang.map (fun c => c.getD i []) = rows[i].ang := by
  refine ⟨by simp [StarOut.ofRows], ?_⟩
  intro i hi
  obtain ⟨ht, ha, _, _⟩ := hr rows[i] (List.getElem_mem hi)
  simp only [StarOut.ofRows, List.map_cons, List.map_nil, List.getD_eq_getElem?_getD, List.getElem?_map,
    List.getElem?_eq_getElem hi, Option.map_some, Option.getD_some]
  generalize rows[i] = r at ht ha ⊢
  obtain ⟨trans, ang⟩ := r
  simp only at ht ha
  match trans, ht, ang, ha with
  | [z, y, x], _, [a, b, c], _ => exact ⟨rfl, rfl⟩

/-- a `name` list shorter than the particle list is the writer's `IndexError`, not a damaged file -/
theorem star_name_list_too_short :
    writeStar ['0'] ['1','.','0'] (.many [['a']]) none
      [⟨[['1'],['2'],['3']], [['7'],['8'],['9']]⟩, ⟨[['4'],['5'],['6']], [['7'],['8'],['9']]⟩] = .error .indexError := by
  decide

/-- (corollary, kept from the partial result) every written particle line (tab-joined whitespace-free tokens, not
starting like a keyword) is split back into its tokens and appended to the block, order preserved, header state
untouched -/
theorem star_rows_partial (ret : Cats) (cat : Option Str) (blk : List (List Str)) (rows : List (List Str))
    (hw : ∀ toks ∈ rows, rowWf toks) (hl : ∀ toks ∈ rows, isDataLine (joinSep '\t' toks) = true) :
    parseFold none ⟨ret, cat, blk⟩ (rows.map (joinSep '\t')) = .ok ⟨ret, cat, blk ++ rows⟩ := by
  rw [parseFold_data ret cat blk _ (by
    intro l hm
    obtain ⟨toks, ht, rfl⟩ := List.mem_map.mp hm
    exact hl toks ht)]
  rw [List.map_map]
  have : rows.map (splitWs ∘ joinSep '\t') = rows.map id :=
    List.map_congr_left (fun toks ht => splitWs_joinSep '\t' (by decide) toks (hw toks ht))
  rw [this, List.map_id]

/-- (corollary, kept from the partial result) the columns of a rectangular block are the per-row projections,
rows in file order -/
theorem star_columns_partial (block : List (List Str)) (m : Nat) (hne : block ≠ [])
    (h : ∀ r ∈ block, r.length = m) :
    transpose block = (List.range m).map (fun j => block.map (fun r => r.getD j [])) :=
  transpose_uniform block m hne h

example : StarWf ⟨[['1','.','5'], ['-','2','.','0'], ['n','a','n']], [['9','0','.','0'], ['0','.','0'], ['-','4','5','.','5']]⟩ :=
  { trans := rfl, ang := rfl, toks := by decide, first := by decide }
example : NameOk (.many [['a','.','m','r','c'], ['b','.','m','r','c'], ['c']]) 2 := by
  intro k hk
  match k, hk with
  | 0, _ => exact ⟨_, rfl, by decide⟩
  | 1, _ => exact ⟨_, rfl, by decide⟩
example : NameOk (.single ['d','a','t','a','_','t','.','m','r','c']) 5 := by
  show tokWf _; decide
example : NameOk .none 3 := trivial
example : ∀ s, (some ['#','c','t','f'] : Option Str) = some s → tokWf s := by
  intro s hs; cases hs; decide
/-- all hypotheses of `star_roundtrip` together, on a two-particle file with per-particle names and a ctf image -/
example : (writeStar ['3','2'] ['2','.','5'] (.many [['a','.','m','r','c'], ['_','b']]) (some ['#','c'])
      [⟨[['1','.','5'],['2'],['i','n','f']], [['7'],['8'],['9']]⟩, ⟨[['4'],['5'],['-','6','e','-','0','5']], [['1','0'],['2','0'],['3','0']]⟩]).bind
      (readStar none) =
    .ok ⟨[[['1','.','5'],['4']], [['2'],['5']], [['i','n','f'],['-','6','e','-','0','5']]],
         [[['7'],['1','0']], [['8'],['2','0']], [['9'],['3','0']]]⟩ := by
  refine star_roundtrip _ _ _ _ _ (by decide) (by decide) ?_ (by intro s hs; cases hs; decide) ?_
  · intro k hk
    match k, hk with
    | 0, _ => exact ⟨_, rfl, by decide⟩
    | 1, _ => exact ⟨_, rfl, by decide⟩
  · intro r hr
    simp only [List.mem_cons, List.mem_nil_iff, or_false] at hr
    rcases hr with rfl | rfl
    · exact { trans := rfl, ang := rfl, toks := by decide, first := by decide }
    · exact { trans := rfl, ang := rfl, toks := by decide, first := by decide }
example : isDataLine (joinSep '\t' [['3','.','5'], ['2'], ['1'], ['9','0'], ['0'], ['0'], ['1']]) = true := by decide
example : (match writeStar ['0'] ['1','.','0'] .none none
      [⟨[['1'],['2'],['3']], [['7'],['8'],['9']]⟩, ⟨[['4'],['5'],['6']], [['1','0'],['2','0'],['3','0']]⟩] with
    | .ok t => readStar none t | .error e => .error e) =
    .ok ⟨[[['1'],['4']], [['2'],['5']], [['3'],['6']]], [[['7'],['1','0']], [['8'],['2','0']], [['9'],['3','0']]]⟩ := by decide
example : (match writeStar ['0'] ['1','.','0'] (.single ['t','.','m','r','c']) (some ['w'])
      [⟨[['1'],['2'],['3']], [['7'],['8'],['9']]⟩] with
    | .ok t => readStar none t | .error e => .error e) = .ok ⟨[[['1']], [['2']], [['3']]], [[['7']], [['8']], [['9']]]⟩ := by decide
example : (match writeStar ['0'] ['1','.','0'] .none none [] with
    | .ok t => readStar none t | .error e => .error e) = .ok ⟨[[], [], []], [[], [], []]⟩ := by decide
example : StarOut.ofRows [⟨[['1'],['2'],['3']], [['7'],['8'],['9']]⟩, ⟨[['4'],['5'],['6']], [['1','0'],['2','0'],['3','0']]⟩] =
    ⟨[[['1'],['4']], [['2'],['5']], [['3'],['6']]], [[['7'],['1','0']], [['8'],['2','0']], [['9'],['3','0']]]⟩ := by decide

/-! ## index-based subsetting -/

/-- **integer selection** returns exactly the selected rows: one output row per index, the k-th
being the source row at the k-th index (negative indices counted from the end) -/
theorem subset_rows_idx {α : Type} (l : List α) (idx : List Int) (out : List α) (h : takeIdx l idx = .ok out) :
    out.length = idx.length ∧
    ∀ k (hk : k < idx.length), ∃ j, j < l.length ∧ out[k]? = l[j]? ∧
      ((0 ≤ idx[k] ∧ (j : Int) = idx[k]) ∨ (idx[k] < 0 ∧ (j : Int) = idx[k] + l.length)) := by
  obtain ⟨h1, h2⟩ := takeIdx_spec l idx out h
  refine ⟨h1, ?_⟩
  intro k hk
  obtain ⟨j, hj, hlt, ho⟩ := h2 k hk
  exact ⟨j, hlt, ho, (normIndex_spec _ _ _ hj).2⟩

/-- … and succeeds for every index list within `[-n, n)` -/
theorem subset_rows_idx_total {α : Type} (l : List α) (idx : List Int)
    (h : ∀ i ∈ idx, -(l.length : Int) ≤ i ∧ i < l.length) : ∃ out, takeIdx l idx = .ok out :=
  takeIdx_ok l idx h

/-- **boolean selection** returns exactly the rows whose mask entry is true, in source order -/
theorem subset_rows_mask {α : Type} (l : List α) (mask : List Bool) (h : mask.length = l.length) :
    takeMask l mask = .ok (((l.zip mask).filter (·.2)).map (·.1)) ∧ (maskSel l mask).Sublist l :=
  ⟨takeMask_spec l mask h, maskSel_sublist l mask⟩

/-- the four arrays stay aligned: row `k` of every array of the subset comes from the same source row -/
theorem subset_aligned {τ ρ σ δ : Type} (o o' : Orient τ ρ σ δ) (idx : List Int)
    (hr : o.rotations.length = o.translations.length) (hs : o.scores.length = o.translations.length)
    (hd : o.details.length = o.translations.length) (h : o.getIdx idx = .ok o') :
    ∀ k (hk : k < idx.length), ∃ j, j < o.translations.length ∧ o'.translations[k]? = o.translations[j]? ∧
      o'.rotations[k]? = o.rotations[j]? ∧ o'.scores[k]? = o.scores[j]? ∧ o'.details[k]? = o.details[j]? := by
  unfold Orient.getIdx at h
  cases h1 : takeIdx o.translations idx with
  | error e => rw [h1] at h; cases h
  | ok a =>
    cases h2 : takeIdx o.rotations idx with
    | error e => rw [h1, h2] at h; cases h
    | ok b =>
      cases h3 : takeIdx o.scores idx with
      | error e => rw [h1, h2, h3] at h; cases h
      | ok c =>
        cases h4 : takeIdx o.details idx with
        | error e => rw [h1, h2, h3, h4] at h; cases h
        | ok d =>
          rw [h1, h2, h3, h4] at h
          injection h with h
          subst h
          intro k hk
          obtain ⟨j1, n1, l1, e1⟩ := (takeIdx_spec _ _ _ h1).2 k hk
          obtain ⟨j2, n2, _, e2⟩ := (takeIdx_spec _ _ _ h2).2 k hk
          obtain ⟨j3, n3, _, e3⟩ := (takeIdx_spec _ _ _ h3).2 k hk
          obtain ⟨j4, n4, _, e4⟩ := (takeIdx_spec _ _ _ h4).2 k hk
          rw [hr] at n2; rw [hs] at n3; rw [hd] at n4
          have a2 : j2 = j1 := by rw [n1] at n2; injection n2 with n2; exact n2.symm
          have a3 : j3 = j1 := by rw [n1] at n3; injection n3 with n3; exact n3.symm
          have a4 : j4 = j1 := by rw [n1] at n4; injection n4 with n4; exact n4.symm
          rw [a2] at e2; rw [a3] at e3; rw [a4] at e4
          exact ⟨j1, l1, e1, e2, e3, e4⟩

example : takeIdx [10, 20, 30, 40] [-1, 0, 2, 2] = .ok [40, 10, 30, 30] := by decide
example : takeIdx [10, 20, 30] [3] = .error .indexError := by decide
example : takeMask [10, 20, 30] [true, false, true] = .ok [10, 30] := by decide

/-! ## format dispatch (`to_file(filename, file_format)` / `from_file(filename, file_format)`) -/

/-- with no format given, reading infers exactly the format that writing inferred, for every file name -/
theorem dispatch_inferred_same (f : Str) : readFmt f none = writeFmt f none := rfl

/-- each documented format name selects the same, existing, format on both sides, whatever the file name -/
theorem dispatch_named_same (f nm : Str) (h : nm = nmText ∨ nm = nmRelion ∨ nm = nmDynamo) :
    readFmt f (some nm) = writeFmt f (some nm) ∧ ∃ fmt, writeFmt f (some nm) = .ok fmt := by
  rcases h with rfl | rfl | rfl
  · exact ⟨rfl, _, rfl⟩
  · exact ⟨rfl, _, rfl⟩
  · exact ⟨rfl, _, rfl⟩

/-- the inference looks at the end of the lower-cased name only: any spelling of `.star` at the end
of any name selects RELION … -/
theorem infer_star (stem suf : Str) (h : lower suf = extStar) : inferFmt (stem ++ suf) = .relion := by
  unfold lower at h
  simp [inferFmt, endsWith, lower, List.map_append, h, extStar, List.isPrefixOf]

/-- … any spelling of `.tbl` Dynamo (such a name does not end in `.star`) … -/
theorem infer_tbl (stem suf : Str) (h : lower suf = extTbl) : inferFmt (stem ++ suf) = .dynamo := by
  unfold lower at h
  simp [inferFmt, endsWith, lower, List.map_append, h, extStar, extTbl, List.isPrefixOf]

/-- … and a name that merely *contains* them is a text file -/
theorem infer_text_examples :
    inferFmt "a.star.txt".toList = .text ∧ inferFmt "a.tbl.bak".toList = .text ∧ inferFmt "star".toList = .text ∧
    inferFmt "x.TBL".toList = .dynamo ∧ inferFmt "a.tbl.Star".toList = .relion ∧ inferFmt "a.star.tbl".toList = .dynamo := by
  decide

/-- `from_file` before `fix: from_file accepts the documented format name "dynamo"`: a table written
with `file_format="dynamo"` could not be read back under the same name -/
theorem dispatch_dynamo_name_old_defect :
    writeFmt [] (some nmDynamo) = .ok .dynamo ∧ readFmtOld [] (some nmDynamo) = .error .valueError ∧
    readFmt [] (some nmDynamo) = .ok .dynamo := by decide

example : lower ".StAr".toList = extStar := by decide
example : writeFmt "p.tbl".toList (some nmTbl) = .error .valueError ∧ readFmt "p.tbl".toList (some nmTbl) = .ok .dynamo := by decide

end Pm.C11
